import OH.Proofs.EvalCommentsProvBase
/-
C17, expression level (part 2 of 3): a period contributed by one rule that no period of another
rule touches or overlaps.  `Free t l`: every range of `l` is apart from `t`; `Lone t l`: every range
of `l` is `t` itself or apart from `t`.  Both are threaded through `addition`, the loop body of
`schedule_at` and the fold, split at the position of the contributing rule.
-/
namespace OH.Proofs.EvalCommentsProv
open OH.Model OH.Model.Cal OH.Model.Schedule OH.Spec.Schedule OH.Proofs.Schedule OH.Props.C14
open OH.Proofs.SortedVec

/-- no range of `l` touches or overlaps `t` -/
def Free (t : TimeRange) (l : Schedule) : Prop := ∀ u ∈ l, Apart t u

/-- every range of `l` is `t` itself, or neither touches nor overlaps `t` -/
def Lone (t : TimeRange) (l : Schedule) : Prop := ∀ u ∈ l, u = t ∨ Apart t u

theorem apart_symm {t u : TimeRange} (h : Apart t u) : Apart u t := Or.symm h

theorem lone_of_free {t : TimeRange} {l : Schedule} (h : Free t l) : Lone t l :=
  fun u hu => Or.inr (h u hu)

theorem free_of_lone_not_mem {t : TimeRange} {l : Schedule} (h : Lone t l) (hn : t ∉ l) : Free t l := by
  intro u hu
  rcases h u hu with rfl | h'
  · exact absurd hu hn
  · exact h'

theorem free_nil (t : TimeRange) : Free t [] := fun _ h => by cases h

theorem lone_nil (t : TimeRange) : Lone t [] := fun _ h => by cases h

theorem coalesced_nil : Coalesced [] := fun _ h => by cases h

/-- two different ranges of a well-formed schedule are disjoint -/
theorem wf_disjoint (l : Schedule) (hl : WF l) (t u : TimeRange) (ht : t ∈ l) (hu : u ∈ l)
    (hne : t ≠ u) : t.e ≤ u.s ∨ u.e ≤ t.s := by
  induction l with
  | nil => cases ht
  | cons x xs ih =>
    simp only [WF] at hl
    rcases List.mem_cons.mp ht with h1 | h1 <;> rcases List.mem_cons.mp hu with h2 | h2
    · exact absurd (h1.trans h2.symm) hne
    · subst h1; exact Or.inl (hl.2.1 u h2)
    · subst h2; exact Or.inr (hl.2.1 t h1)
    · exact ih hl.2.2 h1 h2

/-! ### `Free` and `Lone` in terms of pointwise states -/

theorem free_state {t : TimeRange} {l : Schedule} (h : Free t l) {m : Nat} (h1 : t.s ≤ m + 1)
    (h2 : m ≤ t.e) : stateAt l m = none :=
  free_of_apart l t (fun x hx => apart_symm (h x hx)) m h1 h2

theorem free_of_state {t : TimeRange} {l : Schedule} (hw : WF l) (ht : t.s < t.e)
    (h : ∀ m, t.s ≤ m + 1 → m ≤ t.e → stateAt l m = none) : Free t l :=
  fun x hx => apart_symm (apart_of_free l hw t ht h x hx)

/-- the minute before and the minute after a lone range are not covered -/
theorem lone_adj {t : TimeRange} {l : Schedule} (h : Lone t l) (ht : t.s < t.e) {m : Nat}
    (hm : m + 1 = t.s ∨ m = t.e) : stateAt l m = none := by
  rw [stateAt_eq_none]
  intro x hx
  rcases h x hx with rfl | h'
  · omega
  · unfold Apart at h'; omega

theorem lone_of_adj {t : TimeRange} {l : Schedule} (hw : WF l) (ht : t ∈ l)
    (h : ∀ m, m + 1 = t.s ∨ m = t.e → stateAt l m = none) : Lone t l := by
  intro u hu
  by_cases e : u = t
  · exact Or.inl e
  · right
    have hne := wf_nonempty l hw
    have := hne u hu
    have := hne t ht
    have h1 := (stateAt_eq_none l t.e).mp (h t.e (Or.inr rfl)) u hu
    unfold Apart
    rcases wf_disjoint l hw t u ht hu (fun e' => e e'.symm) with h2 | h2
    · left; omega
    · right
      by_cases h3 : u.e = t.s
      · have h4 := (stateAt_eq_none l (u.e - 1)).mp (h (u.e - 1) (Or.inl (by omega))) u hu
        omega
      · omega

/-! ### `addition` -/

theorem free_addition {t : TimeRange} {a b : Schedule} (ha : WF a) (hb : WF b) (ht : t.s < t.e)
    (fa : Free t a) (fb : Free t b) : Free t (addition a b) := by
  apply free_of_state (addition_wf a b ha hb) ht
  intro m h1 h2
  rw [addition_state a b ha hb, free_state fa h1 h2, free_state fb h1 h2]
  rfl

theorem lone_addition_of_mem {t : TimeRange} {a b : Schedule} (ha : WF a) (hb : WF b) (ht : t.s < t.e)
    (la : Lone t a) (lb : Lone t b) (hm : t ∈ addition a b) : Lone t (addition a b) := by
  apply lone_of_adj (addition_wf a b ha hb) hm
  intro m hm'
  rw [addition_state a b ha hb, lone_adj la ht hm', lone_adj lb ht hm']
  rfl

/-- ranges of one kind in a well-formed coalesced schedule are strictly separated -/
theorem lone_of_uniform {s : Schedule} (hw : WF s) (hc : Coalesced s) (k : Kind)
    (hk : ∀ u ∈ s, u.kind = k) (t : TimeRange) (ht : t ∈ s) : Lone t s := by
  intro u hu
  by_cases e : u = t
  · exact Or.inl e
  · right
    unfold Apart
    rcases wf_disjoint s hw t u ht hu (fun e' => e e'.symm) with h | h
    · left
      have := hc t ht u hu
      have : t.e ≠ u.s := fun e1 => this e1 ((hk t ht).trans (hk u hu).symm)
      omega
    · right
      have := hc u hu t ht
      have : u.e ≠ t.s := fun e1 => this e1 ((hk u hu).trans (hk t ht).symm)
      omega

/-! ### the fold, split at one rule -/

theorem foldM'_append {σ α} (f : σ → α → M σ) (l1 l2 : List α) (s s' : σ)
    (h : foldM' f s (l1 ++ l2) = .ok s') :
    ∃ s1, foldM' f s l1 = .ok s1 ∧ foldM' f s1 l2 = .ok s' := by
  induction l1 generalizing s with
  | nil => exact ⟨s, rfl, h⟩
  | cons x xs ih =>
    simp only [List.cons_append, foldM'] at h ⊢
    cases hx : f s x with
    | error m => rw [hx] at h; cases h
    | ok s1 =>
      rw [hx] at h
      exact ih s1 h

/-- THREE PHASES.  `P0` holds of the loop state while the rules before `r` are processed (each
contributes a schedule satisfying `Q0`), the step of `r` (contributing a schedule satisfying `Qr`)
turns it into `P1`, which the rules after `r` (again `Q0`) maintain. -/
theorem scheduleAt_phases {P0 P1 Q0 Qr : Schedule → Prop}
    (new0 : ∀ b, Q0 b → P0 b) (add0 : ∀ a b, P0 a → Q0 b → P0 (addition a b))
    (keepr : ∀ a, P0 a → P1 a) (newr : ∀ b, Qr b → P1 b) (addr : ∀ a b, P0 a → Qr b → P1 (addition a b))
    (new1 : ∀ b, Q0 b → P1 b) (add1 : ∀ a b, P1 a → Q0 b → P1 (addition a b))
    (nil1 : P1 [])
    {ctx : Ctx} {pre post : List Rule} {r : Rule} {d : Day}
    (hother : ∀ r', r' ∈ pre ∨ r' ∈ post → ∀ s', ruleScheduleAt ctx r' d = .ok (some s') → Q0 s')
    (hr : ∀ s', ruleScheduleAt ctx r d = .ok (some s') → Qr s')
    {s : Schedule} (h : scheduleAt ctx (pre ++ r :: post) d = .ok s) : P1 s := by
  unfold scheduleAt at h
  split at h
  · cases h; exact nil1
  · cases hf : foldM' (scheduleStep ctx d) (false, none) (pre ++ r :: post) with
    | error m => rw [hf] at h; cases h
    | ok st =>
      rw [hf] at h
      obtain ⟨m, ev⟩ := st
      simp only [bind, Except.bind, pure, Except.pure, Except.ok.injEq] at h
      subst h
      obtain ⟨s1, h1, h2⟩ := foldM'_append _ _ _ _ _ hf
      simp only [foldM'] at h2
      cases h3 : scheduleStep ctx d s1 r with
      | error m => rw [h3] at h2; cases h2
      | ok s2 =>
        rw [h3] at h2
        have i1 : OptAll P0 s1.2 :=
          foldM'_inv (fun st => OptAll P0 st.2) (scheduleStep ctx d) pre
            (fun s x s' hx hs hstep =>
              scheduleStep_inv (fun _ h => h) new0 add0 hs (hother x (Or.inl hx)) hstep)
            (false, none) s1 (optAll_none _) h1
        have i2 : OptAll P1 s2.2 := scheduleStep_inv keepr newr addr i1 hr h3
        have i3 : OptAll P1 ev :=
          foldM'_inv (fun st => OptAll P1 st.2) (scheduleStep ctx d) post
            (fun s x s' hx hs hstep =>
              scheduleStep_inv (fun _ h => h) new1 add1 hs (hother x (Or.inr hx)) hstep)
            s2 (m, ev) i2 h2
        cases ev with
        | none => exact nil1
        | some s => exact i3 s rfl

/-! ### forward: an isolated contributed period survives exactly, or disappears entirely -/

/-- Let `t` be a range contributed by the rule `r` (at a given position of the expression) on day
`d`, and let no range contributed by a rule at another position touch or overlap `t`.  Then every
range of the schedule of the day is `t` itself (bounds, kind, comments), or neither touches nor
overlaps `t`. -/
theorem scheduleAt_lone (ctx : Ctx) (pre post : List Rule) (r : Rule) (d : Day)
    {sr s : Schedule} {t : TimeRange}
    (hr : ruleScheduleAt ctx r d = .ok (some sr)) (ht : t ∈ sr)
    (hother : ∀ r', r' ∈ pre ∨ r' ∈ post → ∀ s', ruleScheduleAt ctx r' d = .ok (some s') →
      ∀ u ∈ s', Apart t u)
    (h : scheduleAt ctx (pre ++ r :: post) d = .ok s) :
    WF s ∧ Coalesced s ∧ ∀ u ∈ s, u = t ∨ Apart t u := by
  obtain ⟨_, wr, cr, kr, _⟩ := ruleScheduleAt_some ctx r d hr
  have hne : t.s < t.e := wf_nonempty sr wr t ht
  refine scheduleAt_phases
    (P0 := fun a => WF a ∧ Coalesced a ∧ Free t a) (P1 := fun a => WF a ∧ Coalesced a ∧ Lone t a)
    (Q0 := fun a => WF a ∧ Coalesced a ∧ Free t a)
    (Qr := fun a => WF a ∧ Coalesced a ∧ Lone t a ∧ t ∈ a)
    (fun _ h => h) ?_ ?_ ?_ ?_ ?_ ?_ ⟨trivial, coalesced_nil, lone_nil t⟩
    (ctx := ctx) (pre := pre) (post := post) (r := r) (d := d) ?_ ?_ h
  · rintro a b ⟨wa, ca, fa⟩ ⟨wb, _, fb⟩
    exact ⟨addition_wf a b wa wb, addition_coalesced a b wa ca wb, free_addition wa wb hne fa fb⟩
  · rintro a ⟨wa, ca, fa⟩
    exact ⟨wa, ca, lone_of_free fa⟩
  · rintro b ⟨wb, cb, lb, _⟩
    exact ⟨wb, cb, lb⟩
  · rintro a b ⟨wa, ca, fa⟩ ⟨wb, _, lb, mb⟩
    have hm : t ∈ addition a b :=
      addition_keeps_right a b wa ca wb t mb (fun u hu => apart_symm (fa u hu))
        (fun u hu hn => (lb u hu).elim (fun e => absurd e hn) apart_symm)
    exact ⟨addition_wf a b wa wb, addition_coalesced a b wa ca wb,
      lone_addition_of_mem wa wb hne (lone_of_free fa) lb hm⟩
  · rintro b ⟨wb, cb, fb⟩
    exact ⟨wb, cb, lone_of_free fb⟩
  · rintro a b ⟨wa, ca, la⟩ ⟨wb, _, fb⟩
    refine ⟨addition_wf a b wa wb, addition_coalesced a b wa ca wb, ?_⟩
    by_cases hm : t ∈ a
    · exact lone_addition_of_mem wa wb hne la (lone_of_free fb)
        (addition_keeps_left a b wa ca wb t hm fb)
    · exact lone_of_free (free_addition wa wb hne (free_of_lone_not_mem la hm) fb)
  · intro r' hr' s' hs'
    obtain ⟨_, w, c, _, _⟩ := ruleScheduleAt_some ctx r' d hs'
    exact ⟨w, c, hother r' hr' s' hs'⟩
  · intro s' hs'
    rw [hr] at hs'
    cases hs'
    exact ⟨wr, cr, lone_of_uniform wr cr r.kind kr t ht, ht⟩

/-! ### backward: a range of the schedule of the day met by the contribution of one rule only -/

/-- in a well-formed coalesced schedule each range is a maximal run of its kind -/
theorem maximal_run {s : Schedule} (hw : WF s) (hc : Coalesced s) {u : TimeRange} (hu : u ∈ s) :
    stateAt s u.e ≠ some u.kind ∧ ∀ m, m + 1 = u.s → stateAt s m ≠ some u.kind := by
  have hne := wf_nonempty s hw
  have hu' := hne u hu
  constructor
  · intro h
    obtain ⟨x, hx, x1, x2, x3⟩ := stateAt_eq_some s _ _ h
    have hxu : u ≠ x := by rintro rfl; omega
    rcases wf_disjoint s hw u x hu hx hxu with h1 | h1
    · exact hc u hu x hx (by omega) x3.symm
    · omega
  · intro m hm h
    obtain ⟨x, hx, x1, x2, x3⟩ := stateAt_eq_some s _ _ h
    have hxu : u ≠ x := by rintro rfl; omega
    rcases wf_disjoint s hw u x hu hx hxu with h1 | h1
    · have := hne x hx; omega
    · exact hc x hx u hu (by omega) x3

/-- two well-formed coalesced schedules showing the same states on and next to a range `u` of the
first: the second has a range with the same bounds and kind -/
theorem same_run {s sr : Schedule} (hs : WF s) (cs : Coalesced s) (hr : WF sr) (cr : Coalesced sr)
    {u : TimeRange} (hu : u ∈ s)
    (hst : ∀ m, u.s ≤ m + 1 → m ≤ u.e → stateAt s m = stateAt sr m) :
    ∃ t ∈ sr, t.s = u.s ∧ t.e = u.e ∧ t.kind = u.kind := by
  have hne := wf_nonempty s hs u hu
  obtain ⟨m1, m2⟩ := maximal_run hs cs hu
  have h0 := stateAt_of_mem s hs u hu u.s ⟨Nat.le_refl _, hne⟩
  rw [hst u.s (by omega) (by omega)] at h0
  obtain ⟨t, ht, t1, t2, t3⟩ := stateAt_eq_some sr _ _ h0
  have hnt := wf_nonempty sr hr
  refine ⟨t, ht, ?_, ?_, t3⟩
  · by_cases e : t.s = u.s
    · exact e
    · exfalso
      have h1 := stateAt_of_mem sr hr t ht (u.s - 1) ⟨by omega, by omega⟩
      rw [← hst (u.s - 1) (by omega) (by omega), t3] at h1
      exact m2 (u.s - 1) (by omega) h1
  · by_cases e : t.e = u.e
    · exact e
    · exfalso
      by_cases lt : t.e < u.e
      · have h1 := stateAt_of_mem s hs u hu t.e ⟨by omega, lt⟩
        rw [hst t.e (by omega) (by omega)] at h1
        obtain ⟨x, hx, x1, x2, x3⟩ := stateAt_eq_some sr _ _ h1
        have hxt : t ≠ x := by rintro rfl; omega
        rcases wf_disjoint sr hr t x ht hx hxt with h2 | h2
        · exact cr t ht x hx (by omega) (t3.trans x3.symm)
        · omega
      · have h1 := stateAt_of_mem sr hr t ht u.e ⟨by omega, by omega⟩
        rw [← hst u.e (by omega) (Nat.le_refl _), t3] at h1
        exact m1 h1

/-- on and next to `u`, nothing is covered -/
def NearNone (u : TimeRange) (a : Schedule) : Prop :=
  ∀ m, u.s ≤ m + 1 → m ≤ u.e → stateAt a m = none

/-- on and next to `u`, `a` shows the states of `b` -/
def NearSame (u : TimeRange) (b a : Schedule) : Prop :=
  ∀ m, u.s ≤ m + 1 → m ≤ u.e → stateAt a m = stateAt b m

/-- if no range contributed by a rule other than `r` (by position) touches or overlaps `u`, then on
and next to `u` the schedule of the day shows nothing at all, or exactly what `r` contributes -/
theorem scheduleAt_near (ctx : Ctx) (pre post : List Rule) (r : Rule) (d : Day)
    {sr s : Schedule} {u : TimeRange}
    (hr : ruleScheduleAt ctx r d = .ok (some sr))
    (hother : ∀ r', r' ∈ pre ∨ r' ∈ post → ∀ s', ruleScheduleAt ctx r' d = .ok (some s') →
      ∀ x ∈ s', Apart u x)
    (h : scheduleAt ctx (pre ++ r :: post) d = .ok s) :
    WF s ∧ (NearNone u s ∨ NearSame u sr s) := by
  obtain ⟨_, wr, cr, kr, _⟩ := ruleScheduleAt_some ctx r d hr
  refine scheduleAt_phases
    (P0 := fun a => WF a ∧ NearNone u a) (P1 := fun a => WF a ∧ (NearNone u a ∨ NearSame u sr a))
    (Q0 := fun a => WF a ∧ NearNone u a) (Qr := fun a => a = sr)
    (fun _ h => h) ?_ ?_ ?_ ?_ ?_ ?_ ⟨trivial, Or.inl (fun _ _ _ => rfl)⟩
    (ctx := ctx) (pre := pre) (post := post) (r := r) (d := d) ?_ ?_ h
  · rintro a b ⟨wa, na⟩ ⟨wb, nb⟩
    refine ⟨addition_wf a b wa wb, fun m h1 h2 => ?_⟩
    rw [addition_state a b wa wb, na m h1 h2, nb m h1 h2]; rfl
  · rintro a ⟨wa, na⟩
    exact ⟨wa, Or.inl na⟩
  · rintro b rfl
    exact ⟨wr, Or.inr (fun _ _ _ => rfl)⟩
  · rintro a b ⟨wa, na⟩ rfl
    refine ⟨addition_wf a b wa wr, Or.inr (fun m h1 h2 => ?_)⟩
    rw [addition_state a b wa wr, na m h1 h2]
    cases stateAt b m <;> rfl
  · rintro b ⟨wb, nb⟩
    exact ⟨wb, Or.inl nb⟩
  · rintro a b ⟨wa, na⟩ ⟨wb, nb⟩
    refine ⟨addition_wf a b wa wb, ?_⟩
    rcases na with na | na
    · left; intro m h1 h2
      rw [addition_state a b wa wb, na m h1 h2, nb m h1 h2]; rfl
    · right; intro m h1 h2
      rw [addition_state a b wa wb, na m h1 h2, nb m h1 h2]; rfl
  · intro r' hr' s' hs'
    obtain ⟨_, w, _, _, _⟩ := ruleScheduleAt_some ctx r' d hs'
    exact ⟨w, fun m h1 h2 => free_state (hother r' hr' s' hs') h1 h2⟩
  · intro s' hs'
    rw [hr] at hs'
    cases hs'
    rfl

/-- SINGLE CONTRIBUTOR.  Let `u` be a range of the schedule of day `d`, and let `r` (at a given
position of the expression) be the only rule whose contribution on that day has a range touching or
overlapping `u`.  Then `u` is one of the ranges contributed by `r`, exactly (bounds, kind, comments),
so it carries exactly the comments of `r`. -/
theorem scheduleAt_single_contributor (ctx : Ctx) (pre post : List Rule) (r : Rule) (d : Day)
    {sr s : Schedule} {u : TimeRange}
    (hr : ruleScheduleAt ctx r d = .ok (some sr))
    (hother : ∀ r', r' ∈ pre ∨ r' ∈ post → ∀ s', ruleScheduleAt ctx r' d = .ok (some s') →
      ∀ x ∈ s', Apart u x)
    (h : scheduleAt ctx (pre ++ r :: post) d = .ok s) (hu : u ∈ s) : u ∈ sr := by
  obtain ⟨_, wr, cr, kr, _⟩ := ruleScheduleAt_some ctx r d hr
  -- well-formedness of the final schedule (from any of the contributed ranges; take the generic fold)
  have hwc : WF s ∧ Coalesced s := by
    refine scheduleAt_inv (P := fun a => WF a ∧ Coalesced a) ⟨trivial, coalesced_nil⟩ ?_ ?_ h
    · rintro a b ⟨wa, ca⟩ ⟨wb, _⟩
      exact ⟨addition_wf a b wa wb, addition_coalesced a b wa ca wb⟩
    · intro r' _ s' hs'
      obtain ⟨_, w, c, _, _⟩ := ruleScheduleAt_some ctx r' d hs'
      exact ⟨w, c⟩
  have hne : u.s < u.e := wf_nonempty s hwc.1 u hu
  obtain ⟨_, near⟩ := scheduleAt_near ctx pre post r d hr hother h
  have hsame : NearSame u sr s := by
    rcases near with hn | hs
    · have h1 := stateAt_of_mem s hwc.1 u hu u.s ⟨Nat.le_refl _, hne⟩
      rw [hn u.s (by omega) (by omega)] at h1
      cases h1
    · exact hs
  obtain ⟨t, ht, t1, t2, t3⟩ := same_run hwc.1 hwc.2 wr cr hu hsame
  have hap : ∀ x, Apart u x → Apart t x := by
    intro x hx; unfold Apart at *; rw [t1, t2]; exact hx
  obtain ⟨_, _, lone⟩ := scheduleAt_lone ctx pre post r d hr ht
    (fun r' hr' s' hs' x hx => hap x (hother r' hr' s' hs' x hx)) h
  rcases lone u hu with e | e
  · rw [e]; exact ht
  · exfalso; unfold Apart at e; omega

end OH.Proofs.EvalCommentsProv
