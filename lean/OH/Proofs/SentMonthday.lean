import OH.Proofs.SentDate
/-
C05, wide-range selectors of SENTENCES, part 3b: the month-day ranges
  monthday_range = { date_from ~ date_offset? ~ space? ~ "-" ~ space? ~ date_to ~ date_offset?
                   | date_from ~ date_offset ~ monthday_range_plus?
                   | date_from ~ monthday_range_plus?
                   | year? ~ month ~ ("-" ~ month)? }
against `MdRange.render`: `Jan`, `2020Jan-Mar`, `Jan 5`, `2020Jan5 +2 days`, `Jan 5+`, `Jan 5+Mo+`,
`Jan 5 - Feb 10`, `Jan 5-10` (with the roll-over of `build_date_to`).  One lemma per constructor, in
`ParsesTo` form; `SentMonthdaySel.lean` puts them in a list.
-/
namespace OH.Proofs.Sent.Wide
open OH.Model OH.Model.Peg OH.Model.Parser OH.Generated.Grammar OH.Proofs.Syn OH.Proofs.Syn.Wide
open OH.Spec.Sent (Num Small DayOff SDate SOffset MdRange commaList yearPrefix optOff sp monthName
  wdayName)

/-- what may follow ONE written month-day range.  Compared with `Syn.Wide.FeMd`: a `:` may follow
(`look`: only the look-ahead of `daynum` must find nothing), and two more clauses for spellings the
printer never produces (`nodayword`, `nowd`). -/
structure FeMdS (rest : List Char) : Prop where
  /-- a day number or a day count must end -/
  nodigit : NoDigit rest
  /-- the look-ahead of `daynum` -/
  look : run lookE true rest = none
  /-- `monthday_range_plus`, `+Mo` -/
  noplus : ∀ r, rest ≠ '+' :: r
  /-- `- date_to`, `-Mo`, `-Feb` -/
  nominus : ∀ r, rest ≠ '-' :: r
  /-- `day` / `days` -/
  nos : ∀ r, rest ≠ 's' :: r
  /-- ` +1 day`, ` - date_to` -/
  nooff : NoDayOffset rest
  /-- after a month range (`Jan`), a space and a day number would make it a date (`Jan 10`) -/
  noday : ∀ r, rest = ' ' :: r → run g_daynum false r = none
  /-- after `Jan 5 -10` a ` day` would turn the end into a day offset -/
  nodayword : NoDayWord rest
  /-- after `Jan 5+` a weekday name would turn the `+` into a weekday offset (`Jan 5+Mo`) -/
  nowd : run g_wday false rest = none

theorem FeMdS_comma (r : List Char) : FeMdS (',' :: r) where
  nodigit := by intro c r' e; cases e; decide
  look := lookE_none_of_not_colon _ (fun _ h => by cases h)
  noplus := fun _ h => by cases h
  nominus := fun _ h => by cases h
  nos := fun _ h => by cases h
  nooff := fun _ _ h => by cases h
  noday := fun _ h => by cases h
  nodayword := fun _ h => by cases h
  nowd := run_wd_none_head false ',' r (by decide)

theorem FeMdS.dayf {rest : List Char} (hf : FeMdS rest) : DayFollowS rest := ⟨hf.nodigit, hf.look⟩

theorem FeMdS.H1 {rest : List Char} (hf : FeMdS rest) : run g_day_offset false rest = none :=
  run_day_offset_none false rest hf.nooff

theorem FeMdS.H3 {rest : List Char} (hf : FeMdS rest) :
    run (.seq g_plus_or_minus g_wday) false rest = none :=
  pm_wd_none_of_pm rest hf.noplus hf.nominus

/-! ### the builder on the shapes of pairs the four alternatives produce -/

def mdPlusTree : T := .node .monthday_range_plus ['+'] []

theorem build_md_single (text : List Char) (df : T) (hdf : df.rule = .date_from) (start : DateSpec)
    (hb : buildDateFrom df = .ok start) (k1 : List T) (so : DateOffset) (hk1 : OffK k1 so) :
    buildMonthdayRange (.node .monthday_range text (df :: k1)) = .ok (.date start so start so) := by
  rcases hk1 with ⟨rfl, rfl⟩ | ⟨t, rfl, hr, hbt⟩
  · simp [buildMonthdayRange, assertRule, hdf, hb, bind, Except.bind]
  · simp [buildMonthdayRange, assertRule, hdf, hb, hr, hbt, bind, Except.bind]

theorem build_md_plus (text : List Char) (df : T) (hdf : df.rule = .date_from) (start : DateSpec)
    (hb : buildDateFrom df = .ok start) (k1 : List T) (so : DateOffset) (hk1 : OffK k1 so) :
    buildMonthdayRange (.node .monthday_range text (df :: k1 ++ [mdPlusTree])) =
      .ok (.date start so (.fixed (if DateSpec.hasYear start then some 9999 else none) 12 31) noOffset) := by
  rcases hk1 with ⟨rfl, rfl⟩ | ⟨t, rfl, hr, hbt⟩
  · cases hy : DateSpec.hasYear start <;>
      simp [buildMonthdayRange, assertRule, hdf, hb, mdPlusTree, hy, bind, Except.bind]
  · cases hy : DateSpec.hasYear start <;>
      simp [buildMonthdayRange, assertRule, hdf, hb, hr, hbt, mdPlusTree, hy, bind, Except.bind]

theorem build_md_range (text : List Char) (df : T) (hdf : df.rule = .date_from) (start : DateSpec)
    (hb : buildDateFrom df = .ok start) (k1 : List T) (so : DateOffset) (hk1 : OffK k1 so)
    (dt : T) (hdt : dt.rule = .date_to) (stop : DateSpec) (hbt : buildDateTo dt start = .ok stop)
    (k2 : List T) (eo : DateOffset) (hk2 : OffK k2 eo) :
    buildMonthdayRange (.node .monthday_range text (df :: k1 ++ dt :: k2)) = .ok (.date start so stop eo) := by
  rcases hk1 with ⟨rfl, rfl⟩ | ⟨t1, rfl, hr1, hb1⟩ <;> rcases hk2 with ⟨rfl, rfl⟩ | ⟨t2, rfl, hr2, hb2⟩
  · simp [buildMonthdayRange, assertRule, hdf, hb, hdt, hbt, bind, Except.bind]
  · simp [buildMonthdayRange, assertRule, hdf, hb, hdt, hbt, hb2, bind, Except.bind]
  · simp [buildMonthdayRange, assertRule, hdf, hb, hdt, hbt, hr1, hb1, bind, Except.bind]
  · simp [buildMonthdayRange, assertRule, hdf, hb, hdt, hbt, hr1, hb1, hb2, bind, Except.bind]

/-! ### month ranges `Jan`, `2020Jan-Mar`, `Jan-Jan` -/

theorem optYearWf_iff (y : Option Nat) : OH.Spec.Sent.optYearWf y = true ↔ okYearOpt y = true := by
  cases y <;> simp [OH.Spec.Sent.optYearWf, okYearOpt, yearWf_iff]

def monthsText (y : Option Nat) (a b : Nat) (dash : Bool) : List Char :=
  yearStr y ++ (Print.monthStr a ++ (if dash then '-' :: Print.monthStr b else []))

theorem run_md_months (y : Option Nat) (hy : okYearOpt y = true) (a b : Nat) (ha : 1 ≤ a ∧ a ≤ 12)
    (hb : 1 ≤ b ∧ b ≤ 12) (dash : Bool) (rest : List Char)
    (hnd : dash = false → NoDigit rest)
    (hnoday : dash = false → ∀ r, rest = ' ' :: r → run g_daynum false r = none)
    (hnm : dash = false → ∀ r, rest ≠ '-' :: r) :
    run g_monthday_range false (monthsText y a b dash ++ rest) =
      some ⟨[.node .monthday_range (monthsText y a b dash)
        (yearKids y ++ monthTree a :: (if dash then [monthTree b] else []))], monthsText y a b dash, rest⟩ := by
  unfold monthsText
  let X := (if dash then '-' :: Print.monthStr b else []) ++ rest
  have hin : yearStr y ++ (Print.monthStr a ++ (if dash then '-' :: Print.monthStr b else [])) ++ rest
      = yearStr y ++ (Print.monthStr a ++ X) := by simp [X]
  rw [hin]
  have hX1 : run g_daynum false X = none := by
    apply run_daynum_none
    cases dash with
    | false => simpa [X] using hnd rfl
    | true => simp only [X, if_true, List.cons_append]; exact NoDigit_cons _ _ (by decide)
  have hX2 : ∀ r, X = ' ' :: r → run g_daynum false r = none := by
    intro r e
    cases dash with
    | false => simp only [X, Bool.false_eq_true, if_false, List.nil_append] at e; exact hnoday rfl r e
    | true => simp only [X, if_true, List.cons_append] at e; cases e
  have hdf : run g_date_from false (yearStr y ++ (Print.monthStr a ++ X)) = none := by
    have := run_date_from_none_month y hy a ha X hX1 hX2
    rwa [List.append_assoc] at this
  have h1 : run mdAlt1 false (yearStr y ++ (Print.monthStr a ++ X)) = none := seq_none_left hdf
  have h2 : run mdAlt2 false (yearStr y ++ (Print.monthStr a ++ X)) = none := seq_none_left hdf
  have h3 : run mdAlt3 false (yearStr y ++ (Print.monthStr a ++ X)) = none := seq_none_left hdf
  have hyr := run_opt_year y hy a X
  have hmon := run_month a ha X
  have h4 : run mdAlt4 false (yearStr y ++ (Print.monthStr a ++ X)) =
      some ⟨yearKids y ++ monthTree a :: (if dash then [monthTree b] else []),
        yearStr y ++ (Print.monthStr a ++ (if dash then '-' :: Print.monthStr b else [])), rest⟩ := by
    have htail : run (.opt (.seq (.str ['-']) g_month)) false X =
        some ⟨(if dash then [monthTree b] else []), (if dash then '-' :: Print.monthStr b else []), rest⟩ := by
      cases dash with
      | false =>
        simp only [X, Bool.false_eq_true, if_false, List.nil_append]
        exact opt_none (seq_none_left (str1_none false '-' rest (hnm rfl)))
      | true =>
        simp only [X, if_true, List.cons_append]
        simp [peg, run_month b hb]
    simp only [mdAlt4, run_seq, hyr, hmon, htail, R.append]
    simp
  simp only [g_monthday_range_eq, run_rule, run_alt, Bool.or_self, h1, h2, h3, h4]
  simp

theorem build_md_months (text : List Char) (y : Option Nat) (hy : okYearOpt y = true) (a b : Nat)
    (ha : 1 ≤ a ∧ a ≤ 12) (hb : 1 ≤ b ∧ b ≤ 12) (dash : Bool) :
    buildMonthdayRange (.node .monthday_range text
      (yearKids y ++ monthTree a :: (if dash then [monthTree b] else []))) =
      .ok (.month a (if dash then b else a) y) := by
  have hba := build_month a ha
  have hbb := build_month b hb
  cases y with
  | none =>
    cases dash <;> simp [buildMonthdayRange, yearKids, assertRule, hba, hbb, bind, Except.bind]
  | some y =>
    simp only [okYearOpt, decide_eq_true_eq] at hy
    have hby := build_year y hy.2
    cases dash <;> simp [buildMonthdayRange, yearKids, assertRule, hba, hbb, hby, bind, Except.bind]

theorem parses_md_month (y : Option Nat) (a : Nat) (h : (MdRange.month y a).wf = true)
    (rest : List Char) (hf : FeMdS rest) :
    ParsesTo g_monthday_range buildMonthdayRange (MdRange.month y a).render rest
      (MdRange.month y a).denote := by
  simp only [OH.Spec.Sent.MdRange.wf, Bool.and_eq_true, monthWf_iff, optYearWf_iff] at h
  have e : (MdRange.month y a).render = monthsText y a a false := by
    cases y <;> simp [MdRange.render, yearStr, dec_eq_natStr, monthName_eq, monthsText]
  rw [e]
  exact ⟨_, run_md_months y h.1 a a h.2 h.2 false rest (fun _ => hf.nodigit) (fun _ => hf.noday)
    (fun _ => hf.nominus), by simpa [MdRange.denote] using build_md_months _ y h.1 a a h.2 h.2 false⟩

theorem parses_md_months (y : Option Nat) (a b : Nat) (h : (MdRange.months y a b).wf = true)
    (rest : List Char) :
    ParsesTo g_monthday_range buildMonthdayRange (MdRange.months y a b).render rest
      (MdRange.months y a b).denote := by
  simp only [OH.Spec.Sent.MdRange.wf, Bool.and_eq_true, monthWf_iff, optYearWf_iff] at h
  have e : (MdRange.months y a b).render = monthsText y a b true := by
    cases y <;> simp [MdRange.render, yearStr, dec_eq_natStr, monthName_eq, monthsText]
  rw [e]
  exact ⟨_, run_md_months y h.1.1 a b h.1.2 h.2 true rest (fun h => by cases h) (fun h => by cases h)
    (fun h => by cases h), by simpa [MdRange.denote] using build_md_months _ y h.1.1 a b h.1.2 h.2 true⟩

/-! ### single dates `Jan 5`, `2020Jan5 +2 days`, and open ends `Jan 5+`, `Jan 5+Mo+` -/

theorem parses_md_date (d : SDate) (o : SOffset) (h : (MdRange.date d o).wf = true)
    (rest : List Char) (hf : FeMdS rest) :
    ParsesTo g_monthday_range buildMonthdayRange (MdRange.date d o).render rest
      (MdRange.date d o).denote := by
  simp only [OH.Spec.Sent.MdRange.wf, Bool.and_eq_true] at h
  obtain ⟨hd, ho⟩ := h
  have hdf := run_sdate d hd (o.render ++ rest) (soffset_dayFollow o rest hf.dayf)
  obtain ⟨k, hoff, _⟩ := run_soffset o ho rest hf.H1 hf.nos hf.H3
  have h1 : run mdAlt1 false (d.render ++ (o.render ++ rest)) = none :=
    seq_none_right hdf (seq_none_right hoff (run_space_dash_none rest hf.nominus hf.nooff _))
  have hpl := run_opt_mdplus_none rest hf.noplus
  by_cases hno : o = .none
  · subst hno
    have hoffn := run_date_offset_none' rest hf.H1 hf.H3
    simp only [SOffset.render, List.nil_append] at hdf h1
    have h2 : run mdAlt2 false (d.render ++ rest) = none := seq_none_right hdf (seq_none_left hoffn)
    have h3 : run mdAlt3 false (d.render ++ rest) = some ⟨[sdTree d], d.render, rest⟩ := by
      simp only [mdAlt3, run_seq, hdf, hpl, R.append, R.nil]
      simp
    refine ⟨.node .monthday_range d.render [sdTree d], ?_, ?_⟩
    · simp only [MdRange.render, SOffset.render, List.append_nil]
      simp only [g_monthday_range_eq, run_rule, run_alt, Bool.or_self, h1, h2, h3]
      simp
    · exact build_md_single _ _ (sdTree_rule d) _ (build_sdate d hd) [] _ (Or.inl ⟨rfl, rfl⟩)
  · obtain ⟨t, hrun, hr, hb⟩ := run_soffset_some o ho hno rest hf.H1 hf.nos
    have h2 : run mdAlt2 false (d.render ++ (o.render ++ rest)) =
        some ⟨[sdTree d, t], d.render ++ o.render, rest⟩ := by
      simp only [mdAlt2, run_seq, hdf, hrun, hpl, R.append, R.nil]
      simp
    refine ⟨.node .monthday_range (d.render ++ o.render) [sdTree d, t], ?_, ?_⟩
    · simp only [MdRange.render, List.append_assoc]
      simp only [g_monthday_range_eq, run_rule, run_alt, Bool.or_self, h1, h2]
      simp
    · exact build_md_single _ _ (sdTree_rule d) _ (build_sdate d hd) [t] _ (Or.inr ⟨t, rfl, hr, hb⟩)

theorem parses_md_openEnd (d : SDate) (o : SOffset) (h : (MdRange.openEnd d o).wf = true)
    (rest : List Char) (hwd : o = .none → run g_wday false rest = none) :
    ParsesTo g_monthday_range buildMonthdayRange (MdRange.openEnd d o).render rest
      (MdRange.openEnd d o).denote := by
  simp only [OH.Spec.Sent.MdRange.wf, Bool.and_eq_true] at h
  obtain ⟨hd, ho⟩ := h
  have hdf := run_sdate d hd (o.render ++ '+' :: rest)
    (soffset_dayFollow o _ (DayFollowS_cons '+' rest (by decide) (by decide)))
  have H1 : run g_day_offset false ('+' :: rest) = none :=
    run_day_offset_none false _ (fun _ _ h => by cases h)
  have H2 : ∀ r, '+' :: rest ≠ 's' :: r := fun _ h => by cases h
  have hsd : ∀ X : G, run (.seq (.opt g_space) (.seq (.str ['-']) X)) false ('+' :: rest) = none :=
    run_space_dash_none ('+' :: rest) (fun _ h => by cases h) (fun _ _ h => by cases h)
  have hplus : run (.opt g_monthday_range_plus) false ('+' :: rest) = some ⟨[mdPlusTree], ['+'], rest⟩ := by
    simp [g_monthday_range_plus, peg, mdPlusTree]
  have hden : (MdRange.openEnd d o).denote =
      .date d.denote o.denote (.fixed (if DateSpec.hasYear d.denote then some 9999 else none) 12 31)
        noOffset := by
    simp [MdRange.denote, sdate_hasYear, noOffset]
  rw [hden]
  by_cases hno : o = .none
  · subst hno
    have H3 : run (.seq g_plus_or_minus g_wday) false ('+' :: rest) = none :=
      seq_none_right (run_pm_plus rest) (hwd rfl)
    have hoffn := run_date_offset_none' ('+' :: rest) H1 H3
    simp only [SOffset.render, List.nil_append] at hdf
    have h1 : run mdAlt1 false (d.render ++ '+' :: rest) = none :=
      seq_none_right hdf (seq_none_right (opt_none hoffn) (hsd _))
    have h2 : run mdAlt2 false (d.render ++ '+' :: rest) = none := seq_none_right hdf (seq_none_left hoffn)
    have h3 : run mdAlt3 false (d.render ++ '+' :: rest) =
        some ⟨[sdTree d, mdPlusTree], d.render ++ ['+'], rest⟩ := by
      simp only [mdAlt3, run_seq, hdf, hplus, R.append]
      simp
    refine ⟨.node .monthday_range (d.render ++ ['+']) [sdTree d, mdPlusTree], ?_, ?_⟩
    · simp only [MdRange.render, SOffset.render, List.append_nil, List.append_assoc, List.cons_append,
        List.nil_append]
      simp only [g_monthday_range_eq, run_rule, run_alt, Bool.or_self, h1, h2, h3]
      simp
    · exact build_md_plus _ _ (sdTree_rule d) _ (build_sdate d hd) [] _ (Or.inl ⟨rfl, rfl⟩)
  · obtain ⟨t, hrun, hr, hb⟩ := run_soffset_some o ho hno ('+' :: rest) H1 H2
    have h1 : run mdAlt1 false (d.render ++ (o.render ++ '+' :: rest)) = none :=
      seq_none_right hdf (seq_none_right (opt_some hrun) (hsd _))
    have h2 : run mdAlt2 false (d.render ++ (o.render ++ '+' :: rest)) =
        some ⟨[sdTree d, t, mdPlusTree], d.render ++ (o.render ++ ['+']), rest⟩ := by
      simp only [mdAlt2, run_seq, hdf, hrun, hplus, R.append]
      simp
    refine ⟨.node .monthday_range (d.render ++ (o.render ++ ['+'])) [sdTree d, t, mdPlusTree], ?_, ?_⟩
    · simp only [MdRange.render, List.append_assoc, List.cons_append, List.nil_append]
      simp only [g_monthday_range_eq, run_rule, run_alt, Bool.or_self, h1, h2]
      simp
    · exact build_md_plus _ _ (sdTree_rule d) _ (build_sdate d hd) [t] _ (Or.inr ⟨t, rfl, hr, hb⟩)

/-! ### ranges `Jan 5 - Feb 10`, `Jan 5-10`: the first alternative, for any kind of end -/

/-- the first alternative on `start offset␣?-␣?end offset`: `sT` is the text of the start (read by
`date_from` as the pair `df`), `eT` the text of the end (read by `date_to` as the pair `dt`).  The
space before `-` is not the start of a day offset (`hEoff`), the `-` not that of a weekday offset
(`hEwd`). -/
theorem run_mdAlt1_general (sT eT : List Char) (df dt : T) (o1 o2 : SOffset) (ho1 : o1.wf = true)
    (ho2 : o2.wf = true) (s1 s2 : Bool)
    (hS : ∀ X, DayFollowS X → run g_date_from false (sT ++ X) = some ⟨[df], sT, X⟩)
    (hEsp : ∀ X r, eT ++ X ≠ ' ' :: r)
    (hEwd : ∀ X, run g_wday false (eT ++ X) = none)
    (hEoff : ∀ Z, NoDigit Z → NoDayWord Z → run g_day_offset false (' ' :: '-' :: (eT ++ Z)) = none)
    (hEto : ∀ Z, DayFollowS Z → run g_date_to false (eT ++ Z) = some ⟨[dt], eT, Z⟩)
    (rest : List Char) (hf : FeMdS rest) :
    ∃ k1 k2,
      run mdAlt1 false
          (sT ++ (o1.render ++ (sp s1 ++ ('-' :: (sp s2 ++ (eT ++ (o2.render ++ rest))))))) =
        some ⟨df :: k1 ++ dt :: k2,
          sT ++ (o1.render ++ (sp s1 ++ ('-' :: (sp s2 ++ (eT ++ o2.render))))), rest⟩ ∧
      OffK k1 o1.denote ∧ OffK k2 o2.denote := by
  have hZ2 := soffset_dayFollow o2 rest hf.dayf
  have hZ2w := soffset_noDayWord o2 rest hf.nodayword
  -- what follows the first offset
  have hW : DayFollowS (sp s1 ++ ('-' :: (sp s2 ++ (eT ++ (o2.render ++ rest))))) := by
    cases s1 with
    | true => exact DayFollowS_cons ' ' _ (by decide) (by decide)
    | false => exact DayFollowS_cons '-' _ (by decide) (by decide)
  have H1 : run g_day_offset false (sp s1 ++ ('-' :: (sp s2 ++ (eT ++ (o2.render ++ rest))))) = none := by
    cases s1 with
    | false => exact run_day_offset_none false _ (fun _ _ h => by cases h)
    | true =>
      cases s2 with
      | true => exact run_day_offset_none_pn _ (run_pn_none_head false _ (NoDigit_space _))
      | false => exact hEoff _ hZ2.1 hZ2w
  have H2 : ∀ r, sp s1 ++ ('-' :: (sp s2 ++ (eT ++ (o2.render ++ rest)))) ≠ 's' :: r := by
    intro r h
    cases s1 <;> cases h
  have H3 : run (.seq g_plus_or_minus g_wday) false
      (sp s1 ++ ('-' :: (sp s2 ++ (eT ++ (o2.render ++ rest))))) = none := by
    cases s1 with
    | true => exact pm_wd_none_of_pm _ (fun _ h => by cases h) (fun _ h => by cases h)
    | false =>
      refine seq_none_right (run_pm_minus _) ?_
      cases s2 with
      | true => exact run_wd_none_head false ' ' _ (by decide)
      | false => exact hEwd _
  have hdf := hS _ (soffset_dayFollow o1 _ hW)
  obtain ⟨k1, hoff1, hk1⟩ := run_soffset o1 ho1 _ H1 H2 H3
  have hsp1 := run_opt_gspace s1 ('-' :: (sp s2 ++ (eT ++ (o2.render ++ rest))))
    (fun _ h => by cases h)
  have hdash : run (.str ['-'] : G) false ('-' :: (sp s2 ++ (eT ++ (o2.render ++ rest))))
      = some ⟨[], ['-'], sp s2 ++ (eT ++ (o2.render ++ rest))⟩ := by
    simp [peg]
  have hsp2 := run_opt_gspace s2 (eT ++ (o2.render ++ rest)) (hEsp _)
  have hto := hEto _ hZ2
  obtain ⟨k2, hoff2, hk2⟩ := run_soffset o2 ho2 rest hf.H1 hf.nos hf.H3
  refine ⟨k1, k2, ?_, hk1, hk2⟩
  simp only [mdAlt1, run_seq, hdf, hoff1, hsp1, hdash, hsp2, hto, hoff2, R.append]
  simp

theorem parses_md_range (d1 : SDate) (o1 : SOffset) (s1 s2 : Bool) (d2 : SDate) (o2 : SOffset)
    (h : (MdRange.range d1 o1 s1 s2 d2 o2).wf = true) (rest : List Char) (hf : FeMdS rest) :
    ParsesTo g_monthday_range buildMonthdayRange (MdRange.range d1 o1 s1 s2 d2 o2).render rest
      (MdRange.range d1 o1 s1 s2 d2 o2).denote := by
  simp only [OH.Spec.Sent.MdRange.wf, Bool.and_eq_true] at h
  obtain ⟨⟨⟨hd1, ho1⟩, hd2⟩, ho2⟩ := h
  obtain ⟨k1, k2, hrun, hk1, hk2⟩ := run_mdAlt1_general d1.render d2.render (sdTree d1)
    (.node .date_to d2.render [sdTree d2]) o1 o2 ho1 ho2 s1 s2
    (fun X hX => run_sdate d1 hd1 X hX) (fun X => sdate_ne_space d2 hd2 X)
    (fun X => run_wd_none_sdate d2 hd2 X) (fun Z _ _ => run_day_offset_none_dash_sdate d2 hd2 Z)
    (fun Z hZ => run_dateto_sdate d2 hd2 Z hZ) rest hf
  have e : (MdRange.range d1 o1 s1 s2 d2 o2).render =
      d1.render ++ (o1.render ++ (sp s1 ++ ('-' :: (sp s2 ++ (d2.render ++ o2.render))))) := by
    simp [MdRange.render, List.append_assoc]
  rw [e]
  refine ParsesTo.mk' .monthday_range (sdTree d1 :: k1 ++ .node .date_to d2.render [sdTree d2] :: k2) ?_ ?_
  · simp only [List.append_assoc, List.cons_append]
    simp only [g_monthday_range_eq, run_rule, run_alt, Bool.or_self, hrun]
    simp
  · exact build_md_range _ _ (sdTree_rule d1) _ (build_sdate d1 hd1) k1 _ hk1 _ rfl _
      (build_dateto_sdate d2 hd2 _) k2 _ hk2

theorem parses_md_toDay (y : Option (Nat × Bool)) (m : Nat) (s : Bool) (d : Small) (o1 : SOffset)
    (s1 s2 : Bool) (d2 : Small) (o2 : SOffset)
    (h : (MdRange.toDay y m s d o1 s1 s2 d2 o2).wf = true) (rest : List Char) (hf : FeMdS rest) :
    ParsesTo g_monthday_range buildMonthdayRange (MdRange.toDay y m s d o1 s1 s2 d2 o2).render rest
      (MdRange.toDay y m s d o1 s1 s2 d2 o2).denote := by
  simp only [OH.Spec.Sent.MdRange.wf, Bool.and_eq_true, monthWf_iff] at h
  obtain ⟨⟨⟨⟨⟨⟨hy, hm⟩, hd⟩, ho1⟩, hd2⟩, ho2⟩, hov⟩ := h
  have hd' := smallWf31 hd
  have hd2' := smallWf31 hd2
  have hsd : (SDate.fixed y m s d).wf = true := by
    simp [OH.Spec.Sent.SDate.wf, hy, monthWf_iff, hm, hd]
  obtain ⟨k1, k2, hrun, hk1, hk2⟩ := run_mdAlt1_general (SDate.fixed y m s d).render d2.render
    (sdTree (.fixed y m s d)) (.node .date_to d2.render [dnTree d2]) o1 o2 ho1 ho2 s1 s2
    (fun X hX => run_sdate _ hsd X hX) (fun X => small_ne_space d2 (by omega) X)
    (fun X => by
      obtain ⟨c, cs, e, hc⟩ := small_head d2 (by omega)
      rw [e]
      apply run_wd_none_head
      refine ⟨?_, ?_, ?_, ?_, ?_⟩ <;> (intro h'; subst h'; exact absurd hc.2 (by decide)))
    (fun Z hZ1 hZ2 => run_day_offset_none_dash_small d2 ⟨hd2'.1, by omega⟩ Z hZ1 hZ2)
    (fun Z hZ => run_dateto_small d2 hd2' Z hZ) rest hf
  have e : (MdRange.toDay y m s d o1 s1 s2 d2 o2).render =
      (SDate.fixed y m s d).render ++
        (o1.render ++ (sp s1 ++ ('-' :: (sp s2 ++ (d2.render ++ o2.render))))) := by
    simp [MdRange.render, SDate.render, List.append_assoc]
  have hden : (MdRange.toDay y m s d o1 s1 s2 d2 o2).denote =
      .date (SDate.fixed y m s d).denote o1.denote (toDayEnd (yearPrefix y).2 m d.val d2.val)
        o2.denote := by
    simp [MdRange.denote, SDate.denote, toDayEnd]
  have hov' : ¬ (d.val > d2.val ∧ m = 12 ∧ ∃ v, (yearPrefix y).2 = some v ∧ v ≥ 9999) := by
    intro ⟨h1, h2, v, h3, h4⟩
    cases y with
    | none => simp [yearPrefix] at h3
    | some p =>
      obtain ⟨v', b⟩ := p
      simp only [yearPrefix, Option.some.injEq] at h3
      subst h3
      simp [h1, h2, h4] at hov
  rw [e, hden]
  refine ParsesTo.mk' .monthday_range
    (sdTree (.fixed y m s d) :: k1 ++ .node .date_to d2.render [dnTree d2] :: k2) ?_ ?_
  · simp only [List.append_assoc, List.cons_append]
    simp only [g_monthday_range_eq, run_rule, run_alt, Bool.or_self, hrun]
    simp
  · exact build_md_range _ _ (sdTree_rule _) _ (build_sdate _ hsd) k1 _ hk1 _ rfl _
      (build_dateto_small d2 hd2' (yearPrefix y).2 m d.val hm hov') k2 _ hk2

/-! ### every month-day range -/

theorem parses_md (m : MdRange) (h : m.wf = true) (rest : List Char) (hf : FeMdS rest) :
    ParsesTo g_monthday_range buildMonthdayRange m.render rest m.denote := by
  cases m with
  | month y a => exact parses_md_month y a h rest hf
  | months y a b => exact parses_md_months y a b h rest
  | date d o => exact parses_md_date d o h rest hf
  | openEnd d o => exact parses_md_openEnd d o h rest (fun _ => hf.nowd)
  | range d1 o1 s1 s2 d2 o2 => exact parses_md_range d1 o1 s1 s2 d2 o2 h rest hf
  | toDay y m s d o1 s1 s2 d2 o2 => exact parses_md_toDay y m s d o1 s1 s2 d2 o2 h rest hf

end OH.Proofs.Sent.Wide
