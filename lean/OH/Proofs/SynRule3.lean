import OH.Proofs.SynRule2
import OH.Proofs.SynWideFail
/-
Assembly, part 3: the shape of a printed rule (`Print.rule r = selText r ++ modText r`), the text of
the wide-range part (`wideText`), the hypothesis under which the rule-level lemmas are stated
(`WideHyp`: the wide part of the day selector is read back by `wide_range_selectors`; discharged in
SynRule6), and the case where nothing is printed for the wide part: `wide_range_selectors` matches
the empty text in front of a printed weekday or time selector.
-/
namespace OH.Proofs.Syn
open OH.Model OH.Model.Peg OH.Model.Parser OH.Generated.Grammar OH.Proofs.Syn.Wide

/-! ### the printed rule, taken apart -/

/-- no year, month-day or week selector -/
def wideEmpty (d : DaySelector) : Bool := d.year.isEmpty && d.monthday.isEmpty && d.week.isEmpty

/-- the special case of `Print.daySelector`: a single plain year in front of a month-day selector that
does not start with a year is written `2020-2020` (`2020Jan` would be read as the month range of 2020) -/
def yearDash : List YearRange → List MonthdayRange → List Char
  | [y], first :: _ =>
    if y.lo = y.hi ∧ y.step = 1 ∧ !Print.startsWithYear first then '-' :: Print.natStr y.hi else []
  | _, _ => []

/-- what `Print.daySelector` writes for the years, month days and weeks -/
def wideText (d : DaySelector) : List Char :=
  Print.selector Print.yearRange d.year
    ++ yearDash d.year d.monthday
    ++ Print.selector Print.monthdayRange d.monthday
    ++ (if !d.week.isEmpty then
          (if !d.year.isEmpty || !d.monthday.isEmpty then [' '] else [])
            ++ Print.str "week" ++ Print.selector Print.weekRange d.week
        else [])

theorem wideText_empty (d : DaySelector) (h : wideEmpty d = true) : wideText d = [] := by
  obtain ⟨y, m, w, wd⟩ := d
  simp only [wideEmpty, Bool.and_eq_true, List.isEmpty_iff] at h
  obtain ⟨⟨rfl, rfl⟩, rfl⟩ := h
  simp [wideText, yearDash, Print.selector]

theorem daySelector_eq (d : DaySelector) :
    Print.daySelector d
      = wideText d ++ ((if !wideEmpty d && !d.weekday.isEmpty then [' '] else []) ++ wdSel d.weekday) := by
  obtain ⟨ys, ms, w, wd⟩ := d
  rcases ys with _ | ⟨y, _ | ⟨y2, ys⟩⟩ <;> rcases ms with _ | ⟨m, ms⟩ <;> cases w <;> cases wd <;>
    simp [Print.daySelector, wideText, yearDash, wideEmpty, wdSel, Print.selector, List.append_assoc]

/-- the selector part of a printed rule -/
def selText (r : Rule) : List Char :=
  if r.isConstant then Print.str "24/7"
  else Print.daySelector r.day
    ++ (if !is0024 r.time then (if !r.day.isEmpty then [' '] else []) ++ timeSel r.time else [])

/-- the text between the quotes and the quotes -/
def commentText (cs : List String) : List Char := '"' :: Print.joinComments cs ++ ['"']

/-- the modifier part of a printed rule, with its leading space -/
def modText (r : Rule) : List Char :=
  (if r.kind ≠ .open then ' ' :: Print.kindStr r.kind else [])
    ++ (if !r.comments.isEmpty then ' ' :: commentText r.comments else [])

theorem rule_eq (r : Rule) : Print.rule r = selText r ++ modText r := by
  by_cases hc : r.isConstant = true
  · by_cases hk : r.kind = .open <;> by_cases hm : r.comments.isEmpty = true <;>
      simp [Print.rule, selText, modText, commentText, hc, hk, hm]
  · have hc' : r.isConstant = false := by simpa using hc
    by_cases h24 : is0024 r.time = true
    · have he : r.day.isEmpty = false := by
        simp only [Rule.isConstant, h24, Bool.and_true] at hc'
        exact hc'
      by_cases hk : r.kind = .open <;> by_cases hm : r.comments.isEmpty = true <;>
        simp [Print.rule, selText, modText, commentText, hc', h24, he, hk, hm]
    · have h24' : is0024 r.time = false := by simpa using h24
      by_cases hk : r.kind = .open <;> by_cases hm : r.comments.isEmpty = true <;>
        simp [Print.rule, selText, modText, commentText, hc', h24', hk, hm, timeSel]

/-! ### the hypothesis on the wide part -/

/-- a printed rule starts with none of these (the look-ahead of `rule_sequence`, the trailing `space?`
of `normal_rule_separator`) -/
def RuleStart (c : Char) : Prop := c ≠ ' ' ∧ c ≠ ';' ∧ c ≠ ',' ∧ c ≠ '|'

/-- What follows the printed wide part in `Print.rule` output, cut in two: `sp` is the single space that
`separator_for_readability?` swallows (if there is one), `rest` what comes after:
 * nothing, or `", "` (the next rule is an additional rule);
 * a space and then a modifier or a separator (`closed`, `unknown`, `"…"`, `; `, `|| `), a printed
   weekday selector, or a printed time selector. -/
def AfterWide (sp rest : List Char) : Prop :=
  (sp = [] ∧ (rest = [] ∨ ∃ r, rest = ',' :: ' ' :: r)) ∨
  (sp = [' '] ∧
    ((∃ c r, rest = c :: r ∧ ModStart c)
      ∨ (∃ ws r, okWeekdays ws = true ∧ rest = wdSel ws ++ r)
      ∨ (∃ ts r, okTimes ts = true ∧ rest = timeSel ts ++ r)))

/-- the wide part of a day selector (when there is one) is read back by `wide_range_selectors`,
`24/7` is not a prefix of it, and its first character can start a rule -/
structure WideHyp (d : DaySelector) : Prop where
  notAlways : ∀ rest, run g_always_open false (wideText d ++ rest) = none
  head : ∃ c cs, wideText d = c :: cs ∧ RuleStart c
  parses : ∀ sp rest, AfterWide sp rest →
    ParsesTo g_wide_range_selectors buildWideRangeSelectors (wideText d ++ sp) rest
      ⟨d.year, d.monthday, d.week, none⟩

/-! ### heads of the printed small selectors -/

theorem wdSel_head (ws : List WeekDayRange) (hok : okWeekdays ws = true) :
    (∃ lo tl, lo ≤ 6 ∧ wdSel ws = Print.wdayStr lo ++ tl)
      ∨ (∃ c tl, wdSel ws = c :: 'H' :: tl ∧ (c = 'P' ∨ c = 'S')) := by
  simp only [okWeekdays, Bool.and_eq_true, List.all_eq_true] at hok
  obtain ⟨hshape, hall⟩ := hok
  cases ws with
  | nil => simp [okShape] at hshape
  | cons w tl =>
    have hw := hall w (by simp)
    by_cases hh : isHoliday w = true
    · obtain ⟨c, t, e, hc⟩ := holiday_head w ⟨hh, hw⟩
      exact .inr ⟨c, t ++ tailStr Print.weekDayRange tl, by rw [wdSel, selector_cons, e]; rfl, hc⟩
    · obtain ⟨lo, t, hlo, e⟩ := fixed_head w ⟨by simpa using hh, hw⟩
      exact .inl ⟨lo, t ++ tailStr Print.weekDayRange tl, hlo, by rw [wdSel, selector_cons, e]; simp⟩

/-- a printed span start is `HH:MM`, or starts with `(`, `d`, `s` -/
theorem time_head2 (t : Time) (h : okStart t = true) :
    (∃ a b cs, a < 10 ∧ b < 10 ∧ Print.time t = dc a :: dc b :: ':' :: cs)
      ∨ (∃ c cs, Print.time t = c :: cs ∧ (c = '(' ∨ c = 'd' ∨ c = 's')) := by
  cases t with
  | fixed m =>
    simp only [okStart, decide_eq_true_eq] at h
    refine .inl ⟨m / 60 / 10, m / 60 % 10, Print.pad2 (m % 60), by omega, by omega, ?_⟩
    simp only [Print.time, Print.extTime, pad2_lt100 (m / 60) (by omega)]
    rfl
  | «variable» ev off => exact .inr (time_variable_head ev off)

theorem timeSel_head2 (ts : List TimeSpan) (hts : okTimes ts = true) :
    (∃ a b cs, a < 10 ∧ b < 10 ∧ timeSel ts = dc a :: dc b :: ':' :: cs)
      ∨ (∃ c cs, timeSel ts = c :: cs ∧ (c = '(' ∨ c = 'd' ∨ c = 's')) := by
  obtain ⟨hne, hok⟩ := (okTimes_iff ts).mp hts
  cases ts with
  | nil => exact absurd rfl hne
  | cons t tl =>
    have h := hok t (by simp)
    simp only [okSpan, Bool.and_eq_true] at h
    have e : ∀ X, Print.time t.start = X → ∃ Y, timeSel (t :: tl) = X ++ Y := by
      intro X hX
      rw [timeSel, selector_cons, Print.timeSpan, hX]
      simp only [List.append_assoc]
      exact ⟨_, rfl⟩
    rcases time_head2 t.start h.1.1 with ⟨a, b, cs, ha, hb, et⟩ | ⟨c, cs, et, hc⟩
    · obtain ⟨Y, eY⟩ := e _ et
      exact .inl ⟨a, b, cs ++ Y, ha, hb, by rw [eY]; rfl⟩
    · obtain ⟨Y, eY⟩ := e _ et
      exact .inr ⟨c, cs ++ Y, by rw [eY]; rfl, hc⟩

/-! ### nothing of the wide part starts at a weekday or time selector -/

/-- no year, month name, `easter`, `week`, separator or comment starts here -/
def NoWideStart (inp : List Char) : Prop :=
  run g_year false inp = none ∧ NoDateStart inp ∧ (∀ r, inp ≠ 'w' :: r) ∧ (∀ r, inp ≠ ' ' :: r)
    ∧ (∀ r, inp ≠ ':' :: r) ∧ (∀ r, inp ≠ '"' :: r)

theorem noWideStart_of_head (c : Char) (r : List Char) (h1 : ¬ ('1' ≤ c ∧ c ≤ '9'))
    (h2 : ¬ MonthLetter c) (h3 : c ≠ 'e') (h4 : c ≠ 'w') (h5 : c ≠ ' ') (h6 : c ≠ ':') (h7 : c ≠ '"') :
    NoWideStart (c :: r) := by
  refine ⟨run_year_none false _ (by intro c' r' e; cases e; exact h1), NoDateStart_of_head c r h2 h3,
    ?_, ?_, ?_, ?_⟩ <;> (intro r' e; cases e; contradiction)

theorem noWideStart_wdSel (ws : List WeekDayRange) (hok : okWeekdays ws = true) (rest : List Char) :
    NoWideStart (wdSel ws ++ rest) := by
  rcases wdSel_head ws hok with ⟨lo, tl, hlo, e⟩ | ⟨c, tl, e, hc⟩
  · rw [e, List.append_assoc]
    refine ⟨?_, NoDateStart_wday lo _, ?_, ?_, ?_, ?_⟩
    · apply run_year_none
      rcases le6_cases hlo with h | h | h | h | h | h | h <;> subst h <;>
        (intro c r e; simp only [Print.wdayStr, Print.str, String.toList] at e
         cases e; decide)
    all_goals
      rcases le6_cases hlo with h | h | h | h | h | h | h <;> subst h <;>
        (intro r e; simp [Print.wdayStr, Print.str] at e)
  · rw [e]
    refine ⟨?_, NoDateStart_holiday c _, ?_, ?_, ?_, ?_⟩
    · apply run_year_none
      intro c' r' e'
      cases e'
      rcases hc with rfl | rfl <;> decide
    all_goals
      rcases hc with rfl | rfl <;> (intro r e; cases e)

theorem digit_facts (c : Char) (h0 : '0' ≤ c) (h9 : c ≤ '9') :
    ¬ MonthLetter c ∧ c ≠ 'e' ∧ c ≠ 'w' ∧ c ≠ ' ' ∧ c ≠ ':' ∧ c ≠ '"' ∧ c ≠ ';' ∧ c ≠ ',' ∧ c ≠ '|' := by
  refine ⟨?_, ?_, ?_, ?_, ?_, ?_, ?_, ?_, ?_⟩
  · intro hm
    rcases hm with e | e | e | e | e | e | e | e <;> (subst e; revert h0 h9; decide)
  all_goals (intro e; subst e; revert h0 h9; decide)

/-- a year has four digits: `HH:MM` is not one -/
theorem run_year_none_time (x y : Char) (r : List Char) :
    run g_year false (x :: y :: ':' :: r) = none := by
  by_cases h1 : '1' = x
  · subst h1
    by_cases h2 : '9' = y
    · subst h2; simp [g_year, PExpr.rep, peg]
    · simp [g_year, PExpr.rep, peg, h2]
  · by_cases h3 : ('2' ≤ x ∧ x ≤ '9') <;> by_cases h4 : ('0' ≤ y ∧ y ≤ '9') <;>
      simp [g_year, PExpr.rep, peg, h1, h3, h4]

theorem noWideStart_timeSel (ts : List TimeSpan) (hts : okTimes ts = true) (rest : List Char) :
    NoWideStart (timeSel ts ++ rest) := by
  rcases timeSel_head2 ts hts with ⟨a, b, cs, ha, hb, e⟩ | ⟨c, cs, e, hc⟩
  · rw [e]
    obtain ⟨h0, h9⟩ := dc_digit a ha
    obtain ⟨f1, f2, f3, f4, f5, f6, -⟩ := digit_facts (dc a) h0 h9
    refine ⟨run_year_none_time _ _ _, NoDateStart_of_head _ _ f1 f2, ?_, ?_, ?_, ?_⟩
    · intro r' e'; injection e' with e1 _; exact f3 e1
    · intro r' e'; injection e' with e1 _; exact f4 e1
    · intro r' e'; injection e' with e1 _; exact f5 e1
    · intro r' e'; injection e' with e1 _; exact f6 e1
  · rw [e]
    rcases hc with rfl | rfl | rfl <;>
      exact noWideStart_of_head _ _ (by decide) (by simp [MonthLetter]) (by decide) (by decide)
        (by decide) (by decide) (by decide)

/-! ### `wide_range_selectors` on the empty text -/

theorem run_monthday_selector_none_start (inp : List Char) (hy : run g_year false inp = none)
    (hd : NoDateStart inp) : run g_monthday_selector false inp = none := by
  obtain ⟨hm, hv⟩ := hd
  have hdf : run g_date_from false inp = none := by
    simp [g_date_from, peg, hy, hm, hv]
  have h1 : run mdAlt1 false inp = none := seq_none_left hdf
  have h2 : run mdAlt2 false inp = none := seq_none_left hdf
  have h3 : run mdAlt3 false inp = none := seq_none_left hdf
  have h4 : run mdAlt4 false inp = none := seq_none_right (opt_none hy) (seq_none_left hm)
  have hr : run g_monthday_range false inp = none := by
    simp only [g_monthday_range_eq, run_rule, run_alt, Bool.or_self, h1, h2, h3, h4]
  simp only [g_monthday_selector, run_rule, run_seq, Bool.or_self, hr]

theorem run_year_selector_none_start (inp : List Char) (hy : run g_year false inp = none) :
    run g_year_selector false inp = none := by
  simp [g_year_selector, g_year_range, peg, hy]

/-- `separator_for_readability` finds nothing -/
theorem run_sep_read_none (inp : List Char) (h1 : ∀ r, inp ≠ ' ' :: r) (h2 : ∀ r, inp ≠ ':' :: r) :
    run g_separator_for_readability false inp = none := by
  cases inp with
  | nil => simp [g_separator_for_readability, peg]
  | cons c r =>
    have a : ' ' ≠ c := by intro e; subst e; exact h1 r rfl
    have b : ':' ≠ c := by intro e; subst e; exact h2 r rfl
    simp [g_separator_for_readability, peg, a, b]

theorem run_week_selector_none_start (inp : List Char) (h1 : ∀ r, inp ≠ ' ' :: r)
    (h2 : ∀ r, inp ≠ ':' :: r) (h3 : ∀ r, inp ≠ 'w' :: r) : run g_week_selector false inp = none := by
  have hs := run_sep_read_none inp h1 h2
  have hw : run (.str ['w', 'e', 'e', 'k'] : G) false inp = none := by
    cases inp with
    | nil => simp [peg]
    | cons c r =>
      have : 'w' ≠ c := by intro e; subst e; exact h3 r rfl
      simp [peg, this]
  simp [g_week_selector, run_rule, run_seq, run_opt, hs, hw, R.nil]

/-- no year, month-day or week selector is printed: `wide_range_selectors` produces its (empty) pair -/
theorem parses_wide_empty (inp : List Char) (h : NoWideStart inp) :
    ParsesTo g_wide_range_selectors buildWideRangeSelectors [] inp ⟨[], [], [], none⟩ := by
  obtain ⟨hy, hd, hw, hsp, hcol, hq⟩ := h
  refine ParsesTo.mk' .wide_range_selectors [] ?_ ?_
  · have c1 := run_comment_none inp hq
    have c2 := run_monthday_selector_none_start inp hy hd
    have c3 := run_year_selector_none_start inp hy
    have c4 := run_week_selector_none_start inp hsp hcol hw
    have c5 := run_sep_read_none inp hsp hcol
    simp [g_wide_range_selectors, run_rule, run_alt, run_seq, run_opt, c1, c2, c3, c4, c5, R.append, R.nil]
  · simp [buildWideRangeSelectors, wideLoop, assertRule, Tree.rule, Tree.kids, bind, Except.bind]

end OH.Proofs.Syn
