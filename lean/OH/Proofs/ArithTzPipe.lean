/-
Helper definitions and lemmas for `OH/Props/ArithC09TzPipe.lean`: the translated localisation pipeline of
`OpeningHours::iter_range` (`OH.Generated.Arith.Localize.OpeningHours.iter_range*`): the lazy
`Peekable<Filter<..>>` (`FilterPeek`), the merging `while let .. next_if` loop and the `from_fn` closure, against
filter → merge → map on lists.  Generic in the predicate, the locale and the abstract `Kind` / `Comments`.
-/
import OH.Generated.Arith
namespace OH.Proofs.ArithTzPipe
open OH.Model.RustInt
open OH.Generated.Arith
open OH.Generated.Arith.Localize

variable {Kind Comments : Type} [DecidableEq Kind]

abbrev DTRn (Kind Comments : Type) := DateTimeRange Int Kind Comments

/-- the `next_if` condition of `iter_range` -/
def mergeableG (curr next : DTRn Kind Comments) : Bool :=
  decide (next.kind = curr.kind) && decide (curr.range.«end» ≤ next.range.start)

/-- `curr.range.end = next.range.end` -/
def absorbG (curr next : DTRn Kind Comments) : DTRn Kind Comments :=
  { curr with range := { curr.range with «end» := next.range.«end» } }

/-- the merge of consecutive kept ranges (the model's `mergeFrom`, on the generated carrier) -/
def mergeFromG (curr : DTRn Kind Comments) : List (DTRn Kind Comments) → List (DTRn Kind Comments)
  | [] => [curr]
  | next :: rest =>
    if mergeableG curr next then mergeFromG (absorbG curr next) rest else curr :: mergeFromG next rest

def mergeRangesG : List (DTRn Kind Comments) → List (DTRn Kind Comments)
  | [] => []
  | curr :: rest => mergeFromG curr rest

theorem mergeFromG_length : ∀ (l : List (DTRn Kind Comments)) (c : DTRn Kind Comments), (mergeFromG c l).length ≤ l.length + 1 := by
  intro l
  induction l with
  | nil => intro c; simp [mergeFromG]
  | cons n r ih =>
    intro c
    simp only [mergeFromG]
    split
    · have := ih (absorbG c n); simp only [List.length_cons]; omega
    · have := ih n; simp only [List.length_cons]; omega

theorem mergeRangesG_length (l : List (DTRn Kind Comments)) : (mergeRangesG l).length ≤ l.length := by
  cases l with
  | nil => simp [mergeRangesG]
  | cons c r => have := mergeFromG_length r c; simp only [mergeRangesG, List.length_cons]; omega

/-- the kept items a `FilterPeek` still yields, when the predicate is the total `q` -/
def pending {α : Type} (q : α → Bool) (st : FilterPeek α) : List α :=
  match st.peeked with
  | none => st.src.filter q
  | some (some x) => x :: st.src.filter q
  | some none => []

/-- a peek slot that saw the end of the source stays at the end -/
def WF {α : Type} (st : FilterPeek α) : Prop := st.peeked = some none → st.src = []

/-- an upper bound on the items a `FilterPeek` can still yield -/
def size {α : Type} (st : FilterPeek α) : Nat :=
  match st.peeked with
  | some (some _) => st.src.length + 1
  | _ => st.src.length

theorem filterNext_total {α : Type} (p : α → R Bool) (q : α → Bool) : ∀ (l : List α), (∀ x ∈ l, p x = .ok (q x)) →
    ∃ r, filterNext p l = .ok r ∧ r.1 = (l.filter q).head? ∧ r.2.filter q = (l.filter q).tail ∧
      (∀ x ∈ r.2, x ∈ l) ∧ r.2.length ≤ l.length ∧ (r.1 = none → r.2 = []) ∧ (r.1 ≠ none → r.2.length < l.length) := by
  intro l
  induction l with
  | nil => intro _; exact ⟨(none, []), rfl, rfl, rfl, fun _ h => h, Nat.le_refl _, fun _ => rfl, fun hc => absurd rfl hc⟩
  | cons x xs ih =>
    intro h
    have hx := h x (List.mem_cons_self)
    obtain ⟨r, hr, h1, h2, h3, h4, h5, h6⟩ := ih (fun y hy => h y (List.mem_cons_of_mem x hy))
    simp only [filterNext, hx, bnd]
    by_cases hq : q x = true
    · refine ⟨(some x, xs), by simp only [hq, if_true], ?_, ?_, ?_, ?_, ?_, ?_⟩
      · simp only [List.filter_cons, hq, if_true, List.head?_cons]
      · simp only [List.filter_cons, hq, if_true, List.tail_cons]
      · exact fun y hy => List.mem_cons_of_mem x hy
      · simp only [List.length_cons]; omega
      · intro hc; cases hc
      · intro _; simp only [List.length_cons]; omega
    · have hq' : q x = false := by simpa using hq
      refine ⟨r, by simp only [hq', Bool.false_eq_true, if_false]; exact hr, ?_, ?_, ?_, ?_, h5, ?_⟩
      · simp only [List.filter_cons, hq', Bool.false_eq_true, if_false]; exact h1
      · simp only [List.filter_cons, hq', Bool.false_eq_true, if_false]; exact h2
      · exact fun y hy => List.mem_cons_of_mem x (h3 y hy)
      · simp only [List.length_cons]; omega
      · intro hne; have := h6 hne; simp only [List.length_cons]; omega

/-- `Peekable::next` on a well-formed state with a total predicate: the head of the pending items -/
theorem next_total {α : Type} (p : α → R Bool) (q : α → Bool) (st : FilterPeek α) (hwf : WF st)
    (h : ∀ x ∈ st.src, p x = .ok (q x)) :
    ∃ r st', FilterPeek.next p st = .ok (r, st') ∧ r = (pending q st).head? ∧ pending q st' = (pending q st).tail ∧
      st'.peeked = none ∧ (r = none → st'.src = []) ∧ (∀ x ∈ st'.src, x ∈ st.src) ∧ st'.src.length ≤ size st ∧
      (r ≠ none → st'.src.length + 1 ≤ size st) := by
  obtain ⟨src, pk⟩ := st
  cases pk with
  | some v =>
    cases v with
    | some x =>
      refine ⟨some x, ⟨src, none⟩, rfl, rfl, rfl, rfl, ?_, fun _ hy => hy, ?_, ?_⟩
      · intro hc; cases hc
      · simp only [size]; omega
      · intro _; simp only [size]; omega
    | none =>
      have hs : src = [] := hwf rfl
      subst hs
      exact ⟨none, ⟨[], none⟩, rfl, rfl, rfl, rfl, fun _ => rfl, fun _ hy => hy, by simp [size], fun hc => absurd rfl hc⟩
  | none =>
    obtain ⟨r, hr, h1, h2, h3, h4, h5, h6⟩ := filterNext_total p q src h
    refine ⟨r.1, ⟨r.2, none⟩, ?_, ?_, ?_, rfl, h5, h3, ?_, ?_⟩
    · simp only [FilterPeek.next, hr, bnd]
    · simp only [pending]; exact h1
    · simp only [pending]; exact h2
    · simp only [size]; omega
    · intro hne
      have := h6 hne
      simp only [size]; omega

theorem pending_nil_of_head {α : Type} {l : List α} (h : (none : Option α) = l.head?) : l = [] := by
  cases l with
  | nil => rfl
  | cons a b => cases h

theorem pending_cons_of_head {α : Type} {l : List α} {m : α} (h : some m = l.head?) : l = m :: l.tail := by
  cases l with
  | nil => cases h
  | cons a b => simp only [List.head?_cons, Option.some.injEq] at h; subst h; rfl

/-- the merging `while let Some(next) = naive_ranges.next_if(..)` loop: it stops, within `src.length + 1` iterations,
with `curr` grown by the mergeable kept items in front and the first other one left in the peek slot -/
theorem loop_spec (p : DTRn Kind Comments → R Bool) (q : DTRn Kind Comments → Bool) :
    ∀ (fuel : Nat) (st : FilterPeek (DTRn Kind Comments)) (curr : DTRn Kind Comments), st.peeked = none →
      (∀ x ∈ st.src, p x = .ok (q x)) → st.src.length + 1 ≤ fuel →
      ∃ st' curr', OpeningHours.iter_range.loop1 (DT := DT) fuel st p curr = .ok (.next (st', curr')) ∧ WF st' ∧
        mergeFromG curr (pending q st) = curr' :: mergeRangesG (pending q st') ∧
        (∀ x ∈ st'.src, x ∈ st.src) ∧ size st' ≤ size st := by
  intro fuel
  induction fuel with
  | zero => intro _ _ _ _ h; omega
  | succ fuel ih =>
    intro st curr hpk hok hf
    have hwf : WF st := by intro hc; rw [hpk] at hc; cases hc
    obtain ⟨r, st1, hn, hr, hp1, hpk1, hnone, hsub, hlen, hlt⟩ := next_total p q st hwf hok
    have hsz : size st = st.src.length := by simp [size, hpk]
    rw [OpeningHours.iter_range.loop1]
    simp only [FilterPeek.next_if, hn, bnd]
    cases r with
    | none =>
      have hs1 := hnone rfl
      have hpe := pending_nil_of_head hr
      refine ⟨{ st1 with peeked := some none }, curr, rfl, fun _ => hs1, ?_, hsub, ?_⟩
      · rw [hpe]; rfl
      · have : size { st1 with peeked := some none } = st1.src.length := rfl
        rw [this, hs1]; simp
    | some m =>
      have hpe := pending_cons_of_head hr
      rw [← hp1] at hpe
      by_cases hm : mergeableG curr m = true
      · have hm' : (decide (m.kind = curr.kind) && decide (curr.range.«end» ≤ m.range.start)) = true := hm
        simp only [hm', if_true]
        have hlt' := hlt (by intro hc; cases hc)
        obtain ⟨st', curr', h1, h2, h3, h4, h5⟩ := ih st1 (absorbG curr m) hpk1 (fun x hx => hok x (hsub x hx)) (by rw [hsz] at hlt'; omega)
        refine ⟨st', curr', h1, h2, ?_, fun x hx => hsub x (h4 x hx), ?_⟩
        · rw [hpe, mergeFromG, if_pos hm]; exact h3
        · have : size st1 = st1.src.length := by simp [size, hpk1]
          omega
      · have hm' : (decide (m.kind = curr.kind) && decide (curr.range.«end» ≤ m.range.start)) = false := by
          simpa [mergeableG] using hm
        simp only [hm', Bool.false_eq_true, if_false]
        refine ⟨{ st1 with peeked := some (some m) }, curr, rfl, ?_, ?_, hsub, ?_⟩
        · intro hc; cases hc
        · rw [hpe, mergeFromG, if_neg hm]
          have : pending q { st1 with peeked := some (some m) } = m :: pending q st1 := by
            simp only [pending, hpk1]
          rw [this]; rfl
        · have hlt' := hlt (by intro hc; cases hc)
          have : size { st1 with peeked := some (some m) } = st1.src.length + 1 := rfl
          omega

/-- `locale.datetime(curr.range.start)..locale.datetime(curr.range.end)`, kind and comments kept -/
def mapB {L DT : Type} (dtf : L → Int → R DT) (locale : L) (c : DTRn Kind Comments) : R (DateTimeRange DT Kind Comments) :=
  bnd (dtf locale c.range.start) fun a => bnd (dtf locale c.range.«end») fun b =>
    .ok { range := Range.mk a b, kind := c.kind, comments := c.comments }

/-- `map` with a function that can fail, in order (the first failure is the outcome) -/
def mapMR {α β : Type} (f : α → R β) : List α → R (List β)
  | [] => .ok []
  | x :: xs => bnd (f x) fun y => bnd (mapMR f xs) fun ys => .ok (y :: ys)

/-- one call of the `from_fn` closure -/
theorem next_spec {L DT : Type} (p : DTRn Kind Comments → R Bool) (q : DTRn Kind Comments → Bool) (dtf : L → Int → R DT)
    (locale : L) (F : Nat) (st : FilterPeek (DTRn Kind Comments)) (hwf : WF st) (hok : ∀ x ∈ st.src, p x = .ok (q x))
    (hF : size st + 1 ≤ F) :
    (pending q st = [] ∧ ∃ st', OpeningHours.iter_range.next F locale st p (ext_locale_datetime := dtf) = .ok (none, st')) ∨
    (∃ curr' st', WF st' ∧ mergeRangesG (pending q st) = curr' :: mergeRangesG (pending q st') ∧
      (∀ x ∈ st'.src, p x = .ok (q x)) ∧ size st' ≤ size st ∧
      OpeningHours.iter_range.next F locale st p (ext_locale_datetime := dtf)
        = bnd (mapB dtf locale curr') fun d => .ok (some d, st')) := by
  obtain ⟨r, st1, hn, hr, hp1, hpk1, hnone, hsub, hlen, hlt⟩ := next_total p q st hwf hok
  cases r with
  | none =>
    left
    refine ⟨pending_nil_of_head hr, st1, ?_⟩
    unfold OpeningHours.iter_range.next
    simp only [hn, bnd]
  | some y =>
    right
    have hpe := pending_cons_of_head hr
    rw [← hp1] at hpe
    have hlt' := hlt (by intro hc; cases hc)
    obtain ⟨st', curr', h1, h2, h3, h4, h5⟩ := loop_spec (DT := DT) p q F st1 y hpk1 (fun x hx => hok x (hsub x hx)) (by omega)
    have hs1 : size st1 = st1.src.length := by simp [size, hpk1]
    refine ⟨curr', st', h2, ?_, fun x hx => hok x (hsub x (h4 x hx)), by omega, ?_⟩
    · rw [hpe]; exact h3
    · unfold OpeningHours.iter_range.next
      simp only [hn, bnd, h1, mapB]
      cases dtf locale curr'.range.start with
      | error e => rfl
      | ok a =>
        cases dtf locale curr'.range.«end» with
        | error e => rfl
        | ok b => rfl

/-- the collected `from_fn` iterator: filter (lazily), merge, map the bounds in order -/
theorem fromFn_spec {L DT : Type} (p : DTRn Kind Comments → R Bool) (q : DTRn Kind Comments → Bool) (dtf : L → Int → R DT)
    (locale : L) (F : Nat) : ∀ (n : Nat) (st : FilterPeek (DTRn Kind Comments)), WF st → (∀ x ∈ st.src, p x = .ok (q x)) →
      size st + 1 ≤ F → (mergeRangesG (pending q st)).length + 1 ≤ n →
      fromFn (fun s => OpeningHours.iter_range.next F locale s p (ext_locale_datetime := dtf)) n st
        = mapMR (mapB dtf locale) (mergeRangesG (pending q st)) := by
  intro n
  induction n with
  | zero => intro _ _ _ _ h; omega
  | succ n ih =>
    intro st hwf hok hF hn
    rw [fromFn]
    rcases next_spec p q dtf locale F st hwf hok hF with ⟨hp, st', h⟩ | ⟨curr', st', h1, h2, h3, h4, h5⟩
    · simp only [h, bnd, hp]; rfl
    · rw [h2] at hn ⊢
      simp only [h5, mapMR]
      cases hm : mapB dtf locale curr' with
      | error e => rfl
      | ok d =>
        simp only [bnd]
        rw [ih st' h1 h3 (by omega) (by simp only [List.length_cons] at hn; omega)]

end OH.Proofs.ArithTzPipe
