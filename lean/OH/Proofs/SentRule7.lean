import OH.Proofs.SentRule3
import OH.Proofs.SentMonthdaySel
/-
C05, assembly, part 7: the context after the year / month-day / week selectors of a rule.  From
`AfterWideS sp rest` (what `separator_for_readability?` swallows, what comes after) every follow
condition of the three selector developments (SentYear, SentWeek, SentMonthdaySel) is derived for the
text `sp ++ rest`: `WideCtxS`.  The delicate cases are a time selector after a month-day selector:
 * `Jan 10:00-12:00`, `Jan 9:00-12:00`: `10` / `9` is not a day number (the look-ahead of `daynum`);
 * `Jan 5:10:00-12:00`, `Jan 5:9:00-12:00`: the `:` is the separator, `5` is the day (the look-ahead
   `!(":" ~ minute ~ !(":" ~ minute))` finds `:10` followed by `:00`, or no minute in `9:`);
 * `Jan 5 dawn-dusk`: ` dawn` is not the ` day` of a day offset.
-/
namespace OH.Proofs.Sent
open OH.Model OH.Model.Peg OH.Model.Parser OH.Generated.Grammar OH.Proofs.Syn OH.Proofs.Syn.Wide
open OH.Proofs.Sent.Wide
open OH.Spec.Sent (WdSel Span Start Clock commaList)

/-! ### the text of a time selector -/

/-- a span start is `H:MM`, `HH:MM` (up to `24:00`), `(…` or an event name -/
theorem start_text (a : Start) (h : a.wf = true) :
    (∃ hh m, hh < 10 ∧ m < 60 ∧ a.render = dc hh :: ':' :: Print.pad2 m)
      ∨ (∃ mm, mm ≤ 1440 ∧ a.render = Print.extTime mm)
      ∨ (∃ cs, a.render = '(' :: cs)
      ∨ (∃ ev, a.render = Print.eventStr ev) := by
  cases a with
  | clock c =>
    obtain ⟨hh, hm⟩ := clock_wf 23 c h
    simp only [Start.render, clock_render, hourTxt]
    split
    · next hs =>
      simp only [Bool.and_eq_true, decide_eq_true_eq] at hs
      refine .inl ⟨c.h, c.m, hs.2, by omega, ?_⟩
      rw [clkdigit_eq c.h hs.2, clkpad2_eq c.m (by omega)]
      rfl
    · refine .inr (.inl ⟨c.h * 60 + c.m, by omega, ?_⟩)
      rw [clkpad2_eq c.h (by omega), clkpad2_eq c.m (by omega)]
      have e1 : (c.h * 60 + c.m) / 60 = c.h := by omega
      have e2 : (c.h * 60 + c.m) % 60 = c.m := by omega
      simp [Print.extTime, e1, e2]
  | h24 => exact .inr (.inl ⟨1440, by omega, lit2400⟩)
  | var v =>
    cases v with
    | plain ev => exact .inr (.inr (.inr ⟨ev, by simp [Start.render, OH.Spec.Sent.Var.render, eventName_eq]⟩))
    | shifted ev neg off => exact .inr (.inr (.inl ⟨_, by simp only [Start.render, OH.Spec.Sent.Var.render]; rfl⟩))

/-- a time selector: the start of its first span, then `+`, a space or `-` -/
theorem spans_text (ts : List Span) (hne : ts ≠ []) (h : ts.all Span.wf = true) :
    ∃ (a : Start) (c : Char) (tl : List Char), a.wf = true ∧ spansStr ts = a.render ++ c :: tl
      ∧ (c = '+' ∨ c = ' ' ∨ c = '-') := by
  have hok : ∀ s ∈ ts, s.wf = true := by simpa [List.all_eq_true] using h
  cases ts with
  | nil => exact absurd rfl hne
  | cons s ss =>
    have hs := hok s (by simp)
    rw [spansStr, commaList_span]
    cases s with
    | from_ a => exact ⟨a, '+', _, hs, by simp only [Span.render, List.append_assoc]; rfl, .inl rfl⟩
    | range a s1 s2 b plus =>
      simp only [Span.wf, Bool.and_eq_true] at hs
      cases s1 with
      | true =>
        exact ⟨a, ' ', _, hs.1, by simp only [Span.render, OH.Spec.Sent.sp, List.append_assoc]; rfl,
          .inr (.inl rfl)⟩
      | false =>
        exact ⟨a, '-', _, hs.1, by simp only [Span.render, OH.Spec.Sent.sp, List.append_assoc]; rfl,
          .inr (.inr rfl)⟩
    | repeated a s1 b s2 s3 p =>
      simp only [Span.wf, Bool.and_eq_true] at hs
      cases s1 with
      | true =>
        exact ⟨a, ' ', _, hs.1.1, by simp only [Span.render, OH.Spec.Sent.sp, List.append_assoc]; rfl,
          .inr (.inl rfl)⟩
      | false =>
        exact ⟨a, '-', _, hs.1.1, by simp only [Span.render, OH.Spec.Sent.sp, List.append_assoc]; rfl,
          .inr (.inr rfl)⟩

/-! ### what the month-day and year selectors need to know about a following small selector -/

structure SmallFacts (rest : List Char) : Prop where
  nosp : ∀ r, rest ≠ ' ' :: r
  noW : ∀ r, rest ≠ 'w' :: r
  /-- after a space -/
  fmdSpace : FollowMd (' ' :: rest)
  /-- after a `:` — the look-ahead of `daynum` -/
  look : run lookE true (':' :: rest) = none
  nds : NoDateStart rest

theorem dc_facts : ∀ d, d < 10 → dc d ≠ '+' ∧ dc d ≠ '-' ∧ dc d ≠ 'd' ∧ dc d ≠ ' ' ∧ dc d ≠ 'w' := by decide

theorem smallFacts_wd (x : WdSel) (hx : x.wf = true) (r : List Char) : SmallFacts (x.render ++ r) := by
  have hnw := noWideStart_wdselS x hx r
  obtain ⟨c, cs, e, hc⟩ := wdsel_head x hx
  have hfacts : c ≠ '+' ∧ c ≠ '-' ∧ c ≠ 'd' ∧ ¬ ('0' ≤ c ∧ c ≤ '9') ∧ ¬ ('0' ≤ c ∧ c ≤ '5') := by
    rcases hc with rfl | rfl | rfl | rfl | rfl | rfl <;> decide
  obtain ⟨f1, f2, f3, f4, f5⟩ := hfacts
  refine ⟨hnw.2.2.2.1, hnw.2.2.1, ?_, ?_, hnw.2.1⟩
  · rw [e]
    exact FollowMd_space_head c _ ⟨f1, f2, f3⟩ f4
  · rw [e]
    exact lookE_colon_nominute _ (run_minute_none_head c _ f5)

theorem smallFacts_spans (ts : List Span) (hne : ts ≠ []) (hts : ts.all Span.wf = true) (r : List Char) :
    SmallFacts (spansStr ts ++ r) := by
  have hnw := noWideStart_spansS ts hne hts r
  obtain ⟨a, c, tl, ha, e, hc⟩ := spans_text ts hne hts
  refine ⟨hnw.2.2.2.1, hnw.2.2.1, ?_, ?_, hnw.2.1⟩
  all_goals rw [e, List.append_assoc]
  all_goals
    have hx : ∀ y, (c :: tl) ++ r ≠ ':' :: y := by
      intro y e'
      injection e' with e1 _
      rcases hc with rfl | rfl | rfl <;> exact absurd e1 (by decide)
  · rcases start_text a ha with ⟨hh, m, hhh, hm, e'⟩ | ⟨mm, hmm, e'⟩ | ⟨cs, e'⟩ | ⟨ev, e'⟩
    · rw [e']
      obtain ⟨g1, g2, g3, -, -⟩ := dc_facts hh hhh
      exact FollowMd_space _ _ ⟨g1, g2⟩ (run_daynum_none_short_clock false _ m hm _ hx)
        (NoDayWord_space _ _ g3)
    · rw [e']
      have hday := run_daynum_time_none false mm hmm _ hx
      have e2 : Print.extTime mm ++ ((c :: tl) ++ r)
          = dc (mm / 60 / 10) :: (dc (mm / 60 % 10) :: ':' :: (Print.pad2 (mm % 60) ++ ((c :: tl) ++ r))) := by
        simp [Print.extTime, pad2_lt100 (mm / 60) (by omega)]
      rw [e2] at hday ⊢
      obtain ⟨g1, g2, g3, -, -⟩ := dc_facts (mm / 60 / 10) (by omega)
      exact FollowMd_space _ _ ⟨g1, g2⟩ hday (NoDayWord_space _ _ g3)
    · rw [e']
      exact FollowMd_space_head '(' _ (by decide) (by decide)
    · rw [e']
      cases ev with
      | dawn =>
        have ed : Print.eventStr .dawn = ['d', 'a', 'w', 'n'] := by decide
        rw [ed]
        exact FollowMd_space 'd' _ (by decide) (run_daynum_none false _ (NoDigit_cons 'd' _ (by decide)))
          (by intro r' e''; simp at e'')
      | dusk => exact FollowMd_space_d 'u' _ (by decide)
      | sunrise => exact FollowMd_space_head 's' _ (by decide) (by decide)
      | sunset => exact FollowMd_space_head 's' _ (by decide) (by decide)
  · rcases start_text a ha with ⟨hh, m, hhh, hm, e'⟩ | ⟨mm, hmm, e'⟩ | ⟨cs, e'⟩ | ⟨ev, e'⟩
    · rw [e']
      exact lookE_colon_short _ _
    · rw [e']
      have e2 : Print.extTime mm ++ ((c :: tl) ++ r)
          = dc (mm / 60 / 10) :: (dc (mm / 60 % 10) :: ':' :: (Print.pad2 (mm % 60) ++ ((c :: tl) ++ r))) := by
        simp [Print.extTime, pad2_lt100 (mm / 60) (by omega)]
      rw [e2]
      exact lookE_colon_time _ _ (mm % 60) (by omega) _
    · rw [e']
      exact lookE_colon_nominute _ (run_minute_none_head '(' _ (by decide))
    · rw [e']
      cases ev <;>
        exact lookE_colon_nominute _ (by simp [Print.eventStr, Print.str, g_minute, peg])

theorem smallFacts_of_here (rest : List Char) (h : SmallHere rest) : SmallFacts rest := by
  rcases h with ⟨x, r, hx, rfl⟩ | ⟨ts, r, hne, hts, rfl⟩
  · exact smallFacts_wd x hx r
  · exact smallFacts_spans ts hne hts r

/-! ### the context -/

/-- the head of what follows the selectors: the end, `;`, `|`, `:`, a space, or `, ` -/
def HeadX (X : List Char) : Prop :=
  X = [] ∨ ∃ c r, X = c :: r ∧ (c = ';' ∨ c = '|' ∨ c = ':' ∨ c = ' ' ∨ (c = ',' ∧ ∃ r', r = ' ' :: r'))

/-- everything the three selector developments need to know about the text after the wide part -/
structure WideCtxS (sp rest : List Char) : Prop where
  /-- `separator_for_readability?` takes exactly `sp` -/
  sep : run (.opt g_separator_for_readability) false (sp ++ rest) = some ⟨[], sp, rest⟩
  noW : ∀ r, rest ≠ 'w' :: r
  head : HeadX (sp ++ rest)
  fmd : FollowMd (sp ++ rest)
  ynd : YearNotDate (sp ++ rest)

theorem modStart_facts (c : Char) (h : ModStart c) :
    c ≠ '+' ∧ c ≠ '-' ∧ c ≠ 'd' ∧ ¬ ('0' ≤ c ∧ c ≤ '9') ∧ ¬ MonthLetter c ∧ c ≠ 'e' ∧ c ≠ 'w' := by
  rcases h with rfl | rfl | rfl | rfl | rfl | rfl <;> simp [MonthLetter] <;> decide

theorem wideCtxS_of_after (sp rest : List Char) (h : AfterWideS sp rest) : WideCtxS sp rest := by
  rcases h with ⟨hsp, he⟩ | ⟨hsp, c, r, rfl, hc⟩ | ⟨hsp, hs⟩
  · -- the end, or a separator without space
    have hmin : run g_minute true rest = none := by
      rcases he with rfl | ⟨r, rfl⟩ | ⟨r, rfl⟩ | ⟨r, rfl⟩
      · exact run_minute_none_nil
      · exact run_minute_none_head _ _ (by decide)
      · exact run_minute_none_head _ _ (by decide)
      · exact run_minute_none_head _ _ (by decide)
    rcases hsp with rfl | rfl
    · rcases he with rfl | ⟨r, rfl⟩ | ⟨r, rfl⟩ | ⟨r, rfl⟩
      · exact ⟨by simp [g_separator_for_readability, peg], by simp, .inl rfl, FollowMd_nil, YearNotDate_nil⟩
      · exact ⟨by simp [g_separator_for_readability, peg], by simp, .inr ⟨_, _, rfl, by simp⟩,
          FollowMd_of_head ';' r (by decide) (by decide) (by decide), YearNotDate_semicolon r⟩
      · exact ⟨by simp [g_separator_for_readability, peg], by simp, .inr ⟨_, _, rfl, by simp⟩,
          FollowMd_comma_space r, YearNotDate_comma _⟩
      · exact ⟨by simp [g_separator_for_readability, peg], by simp, .inr ⟨_, _, rfl, by simp⟩,
          FollowMd_of_head '|' r (by decide) (by decide) (by decide), YearNotDate_bar r⟩
    · refine ⟨?_, ?_, .inr ⟨_, _, rfl, by simp⟩, FollowMd_colon rest (lookE_colon_nominute rest hmin),
        YearNotDate_colon rest⟩
      · rcases he with rfl | ⟨r, rfl⟩ | ⟨r, rfl⟩ | ⟨r, rfl⟩ <;> simp [g_separator_for_readability, peg]
      · rcases he with rfl | ⟨r, rfl⟩ | ⟨r, rfl⟩ | ⟨r, rfl⟩ <;> simp
  · -- a space (or `: `), then a modifier or a separator
    obtain ⟨f1, f2, f3, f4, f5, f6, f7⟩ := modStart_facts c hc
    have hnw : ∀ r', c :: r ≠ 'w' :: r' := by intro r' e; injection e with e1 _; exact f7 e1
    rcases hsp with rfl | rfl
    · exact ⟨by simp [g_separator_for_readability, peg], hnw, .inr ⟨_, _, rfl, by simp⟩,
        FollowMd_space_head c r ⟨f1, f2, f3⟩ f4, YearNotDate_space_head c r f5 f6⟩
    · exact ⟨by simp [g_separator_for_readability, peg], hnw, .inr ⟨_, _, rfl, by simp⟩,
        FollowMd_colon _ (lookE_colon_nominute _ (run_minute_none_head ' ' _ (by decide))),
        YearNotDate_colon _⟩
  · -- a weekday or time selector
    have F := smallFacts_of_here rest hs
    have hnsp : ∀ (c : Char) (r : List Char), rest = c :: r → ' ' ≠ c := by
      intro c r e h; subst h; exact F.nosp r e
    rcases hsp with rfl | rfl | rfl
    · exact ⟨by simp [g_separator_for_readability, peg], F.noW, .inr ⟨_, _, rfl, by simp⟩, F.fmdSpace,
        YearNotDate_space rest F.nds⟩
    · refine ⟨?_, F.noW, .inr ⟨_, _, rfl, by simp⟩, FollowMd_colon rest F.look, YearNotDate_colon rest⟩
      cases rest with
      | nil => simp [g_separator_for_readability, peg]
      | cons c r => simp [g_separator_for_readability, peg, hnsp c r rfl]
    · exact ⟨by simp [g_separator_for_readability, peg], F.noW, .inr ⟨_, _, rfl, by simp⟩,
        FollowMd_colon _ (lookE_colon_nominute _ (run_minute_none_head ' ' _ (by decide))),
        YearNotDate_colon _⟩

/-! ### consequences of the head -/

theorem headX_followWeek (X : List Char) (h : HeadX X) : FollowWeek X := by
  rcases h with rfl | ⟨c, r, rfl, rfl | rfl | rfl | rfl | ⟨rfl, r', rfl⟩⟩
  · exact FollowWeek_nil
  · exact FollowWeek_of_head _ _ (by decide) (by decide)
  · exact FollowWeek_of_head _ _ (by decide) (by decide)
  · exact FollowWeek_colon _
  · exact FollowWeek_space _
  · exact FollowWeek_comma_space _

theorem headX_followYear (X : List Char) (h : HeadX X) : FollowYear X := by
  rcases h with rfl | ⟨c, r, rfl, rfl | rfl | rfl | rfl | ⟨rfl, r', rfl⟩⟩
  · exact FollowYear_nil
  · exact FollowYear_of_head _ _ (by decide)
  · exact FollowYear_of_head _ _ (by decide)
  · exact FollowYear_of_head _ _ (by decide)
  · exact FollowYear_space _
  · refine ⟨fun _ h => (by cases h), fun _ h => (by cases h), fun _ h => (by cases h), ?_⟩
    intro c r e; cases e; decide

theorem headX_noDigit (X : List Char) (h : HeadX X) : NoDigit X := by
  rcases h with rfl | ⟨c, r, rfl, rfl | rfl | rfl | rfl | ⟨rfl, r', rfl⟩⟩
  · exact NoDigit_nil
  all_goals exact NoDigit_cons _ _ (by decide)

theorem headX_not_mdStart (X : List Char) (h : HeadX X) : ∀ c r, X = c :: r → ¬ MdStartChar c := by
  intro c r e
  rcases h with rfl | ⟨c', r', rfl, hc⟩
  · cases e
  · cases e
    rcases hc with rfl | rfl | rfl | rfl | ⟨rfl, _⟩ <;> simp [MdStartChar, MonthLetter] <;> decide

/-- `week_selector` fails after the wide part when no week selector is written (its own optional
separator takes `sp`, then `week` is not there) -/
theorem WideCtxS.noweek {sp rest : List Char} (h : WideCtxS sp rest) :
    run g_week_selector false (sp ++ rest) = none := by
  have hw : run (.str ['w', 'e', 'e', 'k'] : G) false rest = none := by
    cases rest with
    | nil => simp [peg]
    | cons c r =>
      have : 'w' ≠ c := by intro e; subst e; exact h.noW r rfl
      simp [peg, this]
  have hs := h.sep
  simp only [g_week_selector, run_rule, run_seq, Bool.or_self, hs, hw]

end OH.Proofs.Sent
