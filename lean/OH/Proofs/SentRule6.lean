import OH.Proofs.SentRule5
import OH.Proofs.SynRule6
/-
C05, assembly, part 6: `opening_hours = { rule_sequence ~ (any_rule_separator ~ rule_sequence)* }` on
`Sentence.render s` (induction on `s.rest`), the entry rule `SOI ~ &ANY ~ opening_hours ~ EOI`, and
`parseChars`.  Result: `sentence_parses_partial`, the theorem under the hypothesis `WideOK` on the year /
month-day / week selectors of each rule (discharged in SentRule8).
-/
namespace OH.Proofs.Sent
open OH.Model OH.Model.Peg OH.Model.Parser OH.Generated.Grammar OH.Proofs.Syn OH.Proofs.Syn.Wide
open OH.Spec.Sent (SRule SepWord Sentence renderRest)

/-- every rule of the list is covered by the rule-level lemma -/
def RulesOKS (rs : List (SepWord × SRule)) : Prop := ∀ p ∈ rs, p.2.wf = true ∧ WideOK p.2.sel

/-- what follows a rule inside a sentence -/
def nextOf : List (SepWord × SRule) → Next
  | [] => none
  | (w, r) :: more => some (w, r.render ++ renderRest more)

theorem followText_nextOf (rs : List (SepWord × SRule)) : followText (nextOf rs) = renderRest rs := by
  rcases rs with _ | ⟨⟨w, r⟩, more⟩
  · rfl
  · simp [nextOf, followText, renderRest]

def denoteRest (rs : List (SepWord × SRule)) : List Rule := rs.map fun (w, r) => r.denote w.denote

/-! ### `(any_rule_separator ~ rule_sequence)*` -/

theorem run_rules_starS (rs : List (SepWord × SRule)) (hok : RulesOKS rs) (inp : List Char)
    (h : AfterRuleS (nextOf rs) inp) :
    ∃ ts eaten, run (.star (.seq g_any_rule_separator g_rule_sequence)) false inp = some ⟨ts, eaten, []⟩ ∧
      buildOpeningHoursLoop ts = .ok (denoteRest rs) := by
  induction rs generalizing inp with
  | nil =>
    have : inp = [] := h
    subst this
    refine ⟨[], [], ?_, rfl⟩
    have hnone : run (.seq g_any_rule_separator g_rule_sequence) false [] = none := by
      simp [g_any_rule_separator, g_normal_rule_separator, g_additional_rule_separator,
        g_fallback_rule_separator, g_space, peg]
    simpa [R.nil] using run_star_none hnone
  | cons p rs ih =>
    obtain ⟨w, r⟩ := p
    obtain ⟨hr, hw⟩ := hok (w, r) (by simp)
    have hok' : RulesOKS rs := fun x hx => hok x (by simp [hx])
    obtain ⟨sp, hsp, rfl⟩ := h
    obtain ⟨c, cs, ehead, hstart⟩ := srule_head r hr hw
    have hnsp : ∀ x, r.render ++ renderRest rs ≠ ' ' :: x := by
      intro x e
      rw [ehead] at e
      injection e with e1 _
      exact hstart.1 e1
    have hsep := run_sepS w sp hsp _ hnsp
    obtain ⟨t, eaten, rest', hafter, hrun, hbuild⟩ := run_rule_sequenceS r hr hw (nextOf rs)
    rw [followText_nextOf] at hrun
    obtain ⟨ts, eaten', hstar, hloop⟩ := ih hok' rest' hafter
    have hbody : run (.seq g_any_rule_separator g_rule_sequence) false
        (sp ++ sepCoreS w ++ (r.render ++ renderRest rs))
        = some ⟨[sepTree w.denote (sp ++ sepCoreS w), t], sp ++ sepCoreS w ++ eaten, rest'⟩ := by
      rw [run_seq, hsep]
      simp [hrun, R.append]
    have hne : (⟨[sepTree w.denote (sp ++ sepCoreS w), t], sp ++ sepCoreS w ++ eaten, rest'⟩ : R PRule).eaten
        ≠ [] := by
      have := sepCoreS_ne_nil w
      simp [this]
    have := run_star_some hbody hne hstar
    refine ⟨sepTree w.denote (sp ++ sepCoreS w) :: t :: ts, _, this, ?_⟩
    exact loop_sep _ t ts rfl w.denote _ _ (build_sep _ _) (hbuild w.denote) hloop

/-! ### `opening_hours` and the entry rule -/

theorem run_opening_hoursS (s : Sentence) (hr : s.first.wf = true) (hw : WideOK s.first.sel)
    (hok : RulesOKS s.rest) :
    ∃ t eaten, run g_opening_hours false s.render = some ⟨[t], eaten, []⟩ ∧
      buildOpeningHours t = .ok s.denote := by
  obtain ⟨t, eaten, rest', hafter, hrun, hbuild⟩ := run_rule_sequenceS s.first hr hw (nextOf s.rest)
  rw [followText_nextOf] at hrun
  obtain ⟨ts, eaten', hstar, hloop⟩ := run_rules_starS s.rest hok rest' hafter
  have hrule := rule_of_run hrun
  refine ⟨.node .opening_hours (eaten ++ eaten') (t :: ts), eaten ++ eaten', ?_, ?_⟩
  · simp only [Sentence.render, g_opening_hours, run_rule, run_seq, Bool.or_self, hrun, hstar]
    simp [R.append]
  · simp only [buildOpeningHours, assertRule, Tree.rule, Tree.kids, reduceIte, bind, Except.bind]
    exact loop_rule t ts hrule _ _ (hbuild .normal) hloop

/-- PARTIAL form of the C05 theorem: every well-formed sentence whose year / month-day / week selectors
satisfy `WideHypS` parses to its denotation -/
theorem sentence_parses_partial (s : Sentence) (h : s.wf = true)
    (hw1 : WideOK s.first.sel) (hw2 : ∀ p ∈ s.rest, WideOK p.2.sel) :
    Parser.parseChars s.render = .ok s.denote := by
  simp only [Sentence.wf, Bool.and_eq_true, List.all_eq_true] at h
  obtain ⟨hr, hrs⟩ := h
  have hok : RulesOKS s.rest := fun p hp => ⟨hrs p hp, hw2 p hp⟩
  obtain ⟨t, eaten, hrun, hbuild⟩ := run_opening_hoursS s hr hw1 hok
  obtain ⟨c, cs, ehead, -⟩ := srule_head s.first hr hw1
  have hany : run (.andp .any : G) false s.render = some ⟨[], [], s.render⟩ := by
    simp only [Sentence.render, ehead]
    simp [peg]
  have hentry : run entry false s.render = some ⟨[t, .node .EOI [] []], eaten, []⟩ := by
    simp only [entry, g_input_opening_hours, run_seq, run_soi, R.nil, hany, hrun]
    simp [peg]
  simp only [parseChars, parseWith, hentry, Option.map_some]
  exact hbuild

end OH.Proofs.Sent
