import OH.Proofs.HintDatedSafe
/-
Dated ranges: non-vacuity of `datedHintSafe` on real shapes — and the two former refutations of the
selector-level statement (bounds shifted by a year or more, which left the fixed search windows
`y-1 … y+1` / `y-2 … y+10` around the evaluated day's year): with the windows centred on the year of
`d - day offset` both witnesses are inside `datedHintSafe` and the hint is sound on them (concrete
evaluation of the model, `decide +kernel`, and instances of the theorem).
-/
namespace OH.Model
open OH.Model.Cal

def off0 : DateOffset := ⟨.none, 0⟩

/-- `Mar 01-Jun 15` -/
example : datedHintSafe (.fixed none 3 1) off0 (.fixed none 6 15) off0 = true := by decide
/-- `Dec 24-Jan 02` -/
example : datedHintSafe (.fixed none 12 24) off0 (.fixed none 1 2) off0 = true := by decide
/-- `Feb 29-Mar 31`, `Jan 31-Apr 31` (impossible days are moved inside the year) -/
example : datedHintSafe (.fixed none 2 29) off0 (.fixed none 3 31) off0 = true := by decide
example : datedHintSafe (.fixed none 1 31) off0 (.fixed none 4 31) off0 = true := by decide
/-- `easter -2 days-easter +1 day` -/
example : datedHintSafe (.easter none) ⟨.none, -2⟩ (.easter none) ⟨.none, 1⟩ = true := by decide
/-- `easter -47 days-easter +60 days` -/
example : datedHintSafe (.easter none) ⟨.none, -47⟩ (.easter none) ⟨.none, 60⟩ = true := by decide
/-- `Feb 29` (single day) -/
example : datedHintSafe (.fixed none 2 29) off0 (.fixed none 2 29) off0 = true := by decide
/-- `Jan 01 +Su` (single day moved to the next Sunday), `May 01 -Mo-May 01 +3 days` -/
example : datedHintSafe (.fixed none 1 1) ⟨.next 6, 0⟩ (.fixed none 1 1) ⟨.next 6, 0⟩ = true := by decide
example : datedHintSafe (.fixed none 5 1) ⟨.prev 0, 0⟩ (.fixed none 5 1) ⟨.none, 3⟩ = true := by decide
/-- `Dec 25 +Su-Dec 31`, `Nov 01 +Su +7 days-Dec 24 -Fr` -/
example : datedHintSafe (.fixed none 12 25) ⟨.next 6, 0⟩ (.fixed none 12 31) off0 = true := by decide
example : datedHintSafe (.fixed none 12 26) ⟨.next 6, 0⟩ (.fixed none 12 31) off0 = true := by decide
example : datedHintSafe (.fixed none 11 1) ⟨.next 6, 7⟩ (.fixed none 12 24) ⟨.prev 4, 0⟩ = true := by decide
/-- a start with a year: `2024 Mar 01-Jun 15`, `2024 Mar 01 +500 days-2027 easter`, `2024 Feb 29` -/
example : datedHintSafe (.fixed (some 2024) 3 1) off0 (.fixed none 6 15) off0 = true := by decide
example : datedHintSafe (.fixed (some 2024) 3 1) ⟨.none, 500⟩ (.easter (some 2027)) off0 = true := by decide
example : datedHintSafe (.fixed (some 2024) 2 29) ⟨.next 1, 900⟩ (.fixed (some 2024) 2 29) ⟨.next 1, 900⟩ = true := by decide
/-- formerly outside: a bound whose shifted projection leaves its year, shifts of a year and more, occurrences
longer than a year, offsets that differ by a year (`Jan 01 -7 days-Dec 25`, `Jan 01 -366 days-Jan 01 -365 days`,
`Jan 01 -364 days-Dec 31 +370 days`, `Jan 01 +400 days-Jan 10 +770 days`, `Dec 28 +35 days-Dec 28 +405 days`,
`Feb 29 -1000 days-Feb 29 +10 days`, `Jan 01 -Mo -100000 days-Dec 31 +Su +100000 days`, and the bounds of the
class: `Jan 01 -Mo -92000000 days-Dec 31 +Su +92000000 days`, `Feb 29 -1000000000000 days-Feb 29 +92000000 days`
(single day: any start offset), `easter -300000 days-Dec 31 +300000 days`) -/
example : datedHintSafe (.fixed none 1 1) ⟨.none, -7⟩ (.fixed none 12 25) off0 = true := by decide
example : datedHintSafe (.fixed none 1 1) ⟨.none, -366⟩ (.fixed none 1 1) ⟨.none, -365⟩ = true := by decide
example : datedHintSafe (.fixed none 1 1) ⟨.none, -364⟩ (.fixed none 12 31) ⟨.none, 370⟩ = true := by decide
example : datedHintSafe (.fixed none 1 1) ⟨.none, 400⟩ (.fixed none 1 10) ⟨.none, 770⟩ = true := by decide
example : datedHintSafe (.fixed none 12 28) ⟨.none, 35⟩ (.fixed none 12 28) ⟨.none, 405⟩ = true := by decide
example : datedHintSafe (.fixed none 2 29) ⟨.none, -1000⟩ (.fixed none 2 29) ⟨.none, 10⟩ = true := by decide
example : datedHintSafe (.fixed none 1 1) ⟨.prev 0, -100000⟩ (.fixed none 12 31) ⟨.next 6, 100000⟩ = true := by decide
example : datedHintSafe (.fixed none 1 1) ⟨.prev 0, -30000000⟩ (.fixed none 12 31) ⟨.next 6, 30000000⟩ = true := by decide
example : datedHintSafe (.fixed none 1 1) ⟨.prev 0, -92000000⟩ (.fixed none 12 31) ⟨.next 6, 92000000⟩ = true := by decide
example : datedHintSafe (.fixed none 1 1) ⟨.none, 92000000⟩ (.fixed none 1 10) ⟨.none, -92000000⟩ = true := by decide
example : datedHintSafe (.fixed none 2 29) ⟨.none, -1000000000000⟩ (.fixed none 2 29) ⟨.none, 92000000⟩ = true := by decide
example : datedHintSafe (.easter none) ⟨.none, -300000⟩ (.fixed none 12 31) ⟨.none, 300000⟩ = true := by decide
/-- outside: day offsets beyond ±92 000 000 days on a yearless start (±300 000 days next to Easter); a yearless
start with an end that carries a year (no documented meaning) -/
example : datedHintSafe (.fixed none 1 1) ⟨.none, 92000001⟩ (.fixed none 1 10) off0 = false := by decide
example : datedHintSafe (.fixed none 1 1) ⟨.none, -92000001⟩ (.fixed none 1 10) off0 = false := by decide
example : datedHintSafe (.fixed none 1 1) ⟨.none, 99499999⟩ (.fixed none 1 10) off0 = false := by decide
example : datedHintSafe (.fixed none 2 29) off0 (.fixed none 2 29) ⟨.none, 92000001⟩ = false := by decide
/-- inside again, beyond representability: a start offset of +99 500 000 days or more — nothing ever starts
(`Jan 01 +99500000 days-Jan 10`, `easter +9000000000000000000 days-Oct 15 -Mo -9000000000000000000 days`,
`Feb 29 +100000000 days-Feb 29 +200000000 days`) -/
example : datedHintSafe (.fixed none 1 1) ⟨.none, 99500000⟩ (.fixed none 1 10) off0 = true := by decide
example : datedHintSafe (.easter none) ⟨.none, 9000000000000000000⟩ (.fixed none 10 15) ⟨.prev 0, -9000000000000000000⟩ = true := by decide
example : datedHintSafe (.fixed none 2 29) ⟨.none, 100000000⟩ (.fixed none 2 29) ⟨.none, 200000000⟩ = true := by decide
example : datedHintSafe (.easter none) off0 (.fixed none 1 10) ⟨.none, -300001⟩ = false := by decide
example : datedHintSafe (.fixed none 10 15) off0 (.easter (some 2021)) off0 = false := by decide

/-! ### the former refutations outside `datedHintSafe`: now sound -/

/-- a `HintOK` statement is refuted by a day inside the hint on which the filter differs -/
theorem not_hintOK_of {f : Int → M Bool} {h : Int → M (Option Int)} {d d' x : Int} {b b' : Bool}
    (hh : h d = .ok (some x)) (h1 : d ≤ d') (h2 : d' < x) (h3 : d' < dateEnd) (hf : f d = .ok b) (hf' : f d' = .ok b')
    (hne : b' ≠ b) : ¬ HintOK f h d := by
  intro hok
  have := hok.sound (some x) hh d' h1 (by simpa using h2) h3
  rw [hf, hf'] at this
  cases this
  exact hne rfl

def isOkSome (m : M (Option Int)) (x : Int) : Bool := match m with | .ok (some y) => y == x | _ => false
def isOkB (m : M Bool) (b : Bool) : Bool := match m with | .ok c => c == b | _ => false

theorem of_isOkSome {m : M (Option Int)} {x : Int} (h : isOkSome m x = true) : m = .ok (some x) := by
  unfold isOkSome at h
  split at h
  · simp only [beq_iff_eq] at h; rw [h]
  · cases h

theorem of_isOkB {m : M Bool} {b : Bool} (h : isOkB m b = true) : m = .ok b := by
  unfold isOkB at h
  split at h
  · simp only [beq_iff_eq] at h; rw [h]
  · cases h

/-- single-day path, `Jan 01 -366 days-Jan 01 -365 days` (shifted start before Jan 1 of the previous
year; the occurrence of 2020 is 2018-12-31 … 2019-01-01).  With the years `y-1 … y+1` / `y-1 … y+10` around
the day's year the filter was FALSE on 2018-12-31 (737059) and the hint from there 2019-01-02 (737061)
although the filter was true on 2019-01-01 (737060): `¬ HintOK` was a theorem (`rrSD_not_hintOK`).  With the
years around the year of `d - end offset` the filter is true on both days, as the specification says, and
the hint (737061) is sound. -/
def rrSD : MonthdayRange := .date (.fixed none 1 1) ⟨.none, -366⟩ (.fixed none 1 1) ⟨.none, -365⟩

theorem rrSD_values : rrSD.hint 737059 = .ok (some 737061) ∧ rrSD.filter 737059 = .ok true ∧
    rrSD.filter 737060 = .ok true ∧ rrSD.filter 737061 = .ok false :=
  ⟨of_isOkSome (by decide +kernel), of_isOkB (by decide +kernel), of_isOkB (by decide +kernel),
    of_isOkB (by decide +kernel)⟩

theorem rrSD_hintOK (d : Int) (h1 : dateStart ≤ d) (h2 : d < dateEnd) : HintOK rrSD.filter rrSD.hint d :=
  MonthdayRange.date_hintOK _ _ _ _ (by decide) (by decide) d h1 h2

/-- general path, `Jan 01 -364 days-Dec 31 +370 days` (starts on Jan 2 of the year before, ends on Jan 5 two
years later: each start is closed by the end of three years earlier, occurrences are Jan 2 … Jan 5).  With the
window `y-2 … y+10` around the day's year the hint from 2018-01-06 (736700, filter false) was 2019-01-02
(737061) although the filter was TRUE on 2019-01-01 (737060) (`rrGen_not_hintOK`).  Now the filter is false
on 2019-01-01, as the specification says, and the same hint is sound. -/
def rrGen : MonthdayRange := .date (.fixed none 1 1) ⟨.none, -364⟩ (.fixed none 12 31) ⟨.none, 370⟩

theorem rrGen_values : rrGen.hint 736700 = .ok (some 737061) ∧ rrGen.filter 736700 = .ok false ∧
    rrGen.filter 737060 = .ok false ∧ rrGen.filter 737061 = .ok true :=
  ⟨of_isOkSome (by decide +kernel), of_isOkB (by decide +kernel), of_isOkB (by decide +kernel),
    of_isOkB (by decide +kernel)⟩

theorem rrGen_hintOK (d : Int) (h1 : dateStart ≤ d) (h2 : d < dateEnd) : HintOK rrGen.filter rrGen.hint d :=
  MonthdayRange.date_hintOK _ _ _ _ (by decide) (by decide) d h1 h2

/-- the witness of the former open finding `dated-shift-over-a-year`, `Jan 01 +400 days-Jan 10 +770 days`:
from 2019-02-20 (737110, closed) the hint was 2020-02-05 (737460) although day 737425 (2020-01-01) was
open.  Now: 2019-02-20 is the day after the occurrence 2019-02-05 … 2019-02-19, the hint from there is
2020-02-05 (737460, the next start), and every day in between is closed — 737425 included. -/
def rrShift : MonthdayRange := .date (.fixed none 1 1) ⟨.none, 400⟩ (.fixed none 1 10) ⟨.none, 770⟩

theorem rrShift_values : rrShift.hint 737110 = .ok (some 737460) ∧ rrShift.filter 737110 = .ok false ∧
    rrShift.filter 737425 = .ok false ∧ rrShift.filter 737460 = .ok true :=
  ⟨of_isOkSome (by decide +kernel), of_isOkB (by decide +kernel), of_isOkB (by decide +kernel),
    of_isOkB (by decide +kernel)⟩

theorem rrShift_hintOK (d : Int) (h1 : dateStart ≤ d) (h2 : d < dateEnd) : HintOK rrShift.filter rrShift.hint d :=
  MonthdayRange.date_hintOK _ _ _ _ (by decide) (by decide) d h1 h2

end OH.Model
