import OH.Proofs.HintDatedSafe
/-
Dated ranges: non-vacuity of `datedHintSafe` on real shapes, and two refutations of the selector
level statement outside of it (concrete evaluation of the model, `decide +kernel`).
-/
namespace OH.Model
open OH.Model.Cal

def off0 : DateOffset := ⟨.none, 0⟩

/-- `Mar 01-Jun 15` -/
example : datedHintSafe (.fixed none 3 1) off0 (.fixed none 6 15) off0 = true := by decide
/-- `Dec 24-Jan 02` -/
example : datedHintSafe (.fixed none 12 24) off0 (.fixed none 1 2) off0 = true := by decide
/-- `Feb 29-Mar 31`, `Jan 31-Apr 31` (impossible days are moved inside the year) -/
example : datedHintSafe (.fixed none 2 29) off0 (.fixed none 3 31) off0 = true := by decide
example : datedHintSafe (.fixed none 1 31) off0 (.fixed none 4 31) off0 = true := by decide
/-- `easter -2 days-easter +1 day` -/
example : datedHintSafe (.easter none) ⟨.none, -2⟩ (.easter none) ⟨.none, 1⟩ = true := by decide
/-- `easter -47 days-easter +60 days` -/
example : datedHintSafe (.easter none) ⟨.none, -47⟩ (.easter none) ⟨.none, 60⟩ = true := by decide
/-- `Feb 29` (single day) -/
example : datedHintSafe (.fixed none 2 29) off0 (.fixed none 2 29) off0 = true := by decide
/-- `Jan 01 +Su` (single day moved to the next Sunday), `May 01 -Mo-May 01 +3 days` -/
example : datedHintSafe (.fixed none 1 1) ⟨.next 6, 0⟩ (.fixed none 1 1) ⟨.next 6, 0⟩ = true := by decide
example : datedHintSafe (.fixed none 5 1) ⟨.prev 0, 0⟩ (.fixed none 5 1) ⟨.none, 3⟩ = true := by decide
/-- `Dec 25 +Su-Dec 31`, `Nov 01 +Su +7 days-Dec 24 -Fr` -/
example : datedHintSafe (.fixed none 12 25) ⟨.next 6, 0⟩ (.fixed none 12 31) off0 = true := by decide
example : datedHintSafe (.fixed none 12 26) ⟨.next 6, 0⟩ (.fixed none 12 31) off0 = false := by decide
example : datedHintSafe (.fixed none 11 1) ⟨.next 6, 7⟩ (.fixed none 12 24) ⟨.prev 4, 0⟩ = true := by decide
/-- a start with a year: `2024 Mar 01-Jun 15`, `2024 Mar 01 +500 days-2027 easter`, `2024 Feb 29` -/
example : datedHintSafe (.fixed (some 2024) 3 1) off0 (.fixed none 6 15) off0 = true := by decide
example : datedHintSafe (.fixed (some 2024) 3 1) ⟨.none, 500⟩ (.easter (some 2027)) off0 = true := by decide
example : datedHintSafe (.fixed (some 2024) 2 29) ⟨.next 1, 900⟩ (.fixed (some 2024) 2 29) ⟨.next 1, 900⟩ = true := by decide
/-- outside: a bound whose shifted projection leaves its year -/
example : datedHintSafe (.fixed none 1 1) ⟨.none, -7⟩ (.fixed none 12 25) off0 = false := by decide
example : datedHintSafe (.fixed none 1 1) ⟨.none, -366⟩ (.fixed none 1 1) ⟨.none, -365⟩ = false := by decide

/-! ### refutations outside `datedHintSafe` -/

/-- a `HintOK` statement is refuted by a day inside the hint on which the filter differs -/
theorem not_hintOK_of {f : Int → M Bool} {h : Int → M (Option Int)} {d d' x : Int} {b b' : Bool}
    (hh : h d = .ok (some x)) (h1 : d ≤ d') (h2 : d' < x) (h3 : d' < dateEnd) (hf : f d = .ok b) (hf' : f d' = .ok b')
    (hne : b' ≠ b) : ¬ HintOK f h d := by
  intro hok
  have := hok.sound (some x) hh d' h1 (by simpa using h2) h3
  rw [hf, hf'] at this
  cases this
  exact hne rfl

def isOkSome (m : M (Option Int)) (x : Int) : Bool := match m with | .ok (some y) => y == x | _ => false
def isOkB (m : M Bool) (b : Bool) : Bool := match m with | .ok c => c == b | _ => false

theorem of_isOkSome {m : M (Option Int)} {x : Int} (h : isOkSome m x = true) : m = .ok (some x) := by
  unfold isOkSome at h
  split at h
  · simp only [beq_iff_eq] at h; rw [h]
  · cases h

theorem of_isOkB {m : M Bool} {b : Bool} (h : isOkB m b = true) : m = .ok b := by
  unfold isOkB at h
  split at h
  · simp only [beq_iff_eq] at h; rw [h]
  · cases h

/-- single-day path, `Jan 01 -366 days-Jan 01 -365 days` (shifted start before Jan 1 of the previous
year): from 2018-12-31 (737059, filter false) the hint is 2019-01-02 (737061) but the filter is true
on 2019-01-01 (737060) -/
def rrSD : MonthdayRange := .date (.fixed none 1 1) ⟨.none, -366⟩ (.fixed none 1 1) ⟨.none, -365⟩

theorem rrSD_not_hintOK : ¬ HintOK rrSD.filter rrSD.hint 737059 := by
  have e1 : rrSD.hint 737059 = .ok (some 737061) := of_isOkSome (by decide +kernel)
  have e2 : rrSD.filter 737059 = .ok false := of_isOkB (by decide +kernel)
  have e3 : rrSD.filter 737060 = .ok true := of_isOkB (by decide +kernel)
  have e4 : (737060 : Int) < dateEnd := by decide +kernel
  exact not_hintOK_of e1 (by omega) (by omega) e4 e2 e3 (by decide)

/-- general path (window of two years before, ten after), `Jan 01 -364 days-Dec 31 +370 days`
(occurrences three years long): from 2018-01-06 (736700, filter false) the hint is 2019-01-02
(737061) but the filter is true on 2019-01-01 (737060) -/
def rrGen : MonthdayRange := .date (.fixed none 1 1) ⟨.none, -364⟩ (.fixed none 12 31) ⟨.none, 370⟩

theorem rrGen_not_hintOK : ¬ HintOK rrGen.filter rrGen.hint 736700 := by
  have e1 : rrGen.hint 736700 = .ok (some 737061) := of_isOkSome (by decide +kernel)
  have e2 : rrGen.filter 736700 = .ok false := of_isOkB (by decide +kernel)
  have e3 : rrGen.filter 737060 = .ok true := of_isOkB (by decide +kernel)
  have e4 : (737060 : Int) < dateEnd := by decide +kernel
  exact not_hintOK_of e1 (by omega) (by omega) e4 e2 e3 (by decide)

end OH.Model
