import OH.Proofs.EvalComments
import OH.Proofs.SynRule6
/-
Bridge between the evaluator side of C06 (`OH.Proofs.EvalComments`) and the round-trip theorem
(`OH.Proofs.Syn`): the expression `OH.Proofs.Syn.joinComments e` that the round trip predicts for
`parse (print e)` is the `joinComments e` of `OH.Proofs.EvalComments`, hence whenever
`parse (print e) = ok (joinComments e)` the parsed expression evaluates like `e`.
-/
namespace OH.Proofs.EvalComments
open OH.Model OH.Model.Cal OH.Model.Parser OH.Spec.Schedule

theorem synJoinRuleComments_eq (r : Rule) : OH.Proofs.Syn.joinRuleComments r = joinRuleComments r := rfl

theorem synJoinComments_eq (e : Expr) : OH.Proofs.Syn.joinComments e = joinComments e := by
  unfold OH.Proofs.Syn.joinComments joinComments
  have : e.map OH.Proofs.Syn.joinRuleComments = e.map joinRuleComments :=
    List.map_congr_left (fun r _ => synJoinRuleComments_eq r)
  rw [this]; rfl

/-- the expression predicted by the round-trip theorem evaluates like `e` -/
theorem scheduleAt_kinds_synJoinComments (ctx : Ctx) (e : Expr) (d : Day) :
    match scheduleAt ctx e d, scheduleAt ctx (OH.Proofs.Syn.joinComments e) d with
    | .ok s, .ok s' => ∀ m, dayState s m = dayState s' m
    | .error p, .error p' => p = p'
    | _, _ => False := by
  rw [synJoinComments_eq]; exact scheduleAt_kinds_joinComments ctx e d

/-- C06 "evaluates identically": if the printed expression parses to what the round-trip theorem
predicts, then the parsed expression shows the same state as `e` at every minute of every day and
fails exactly when `e` fails, with the same message -/
theorem parsed_evaluates_identically (e e' : Expr)
    (hrt : parseChars (Print.expr e) = .ok (OH.Proofs.Syn.joinComments e))
    (hp : parseChars (Print.expr e) = .ok e') (ctx : Ctx) (d : Day) :
    match scheduleAt ctx e d, scheduleAt ctx e' d with
    | .ok s, .ok s' => ∀ m, dayState s m = dayState s' m
    | .error p, .error p' => p = p'
    | _, _ => False := by
  rw [hrt] at hp
  cases hp
  exact scheduleAt_kinds_synJoinComments ctx e d

end OH.Proofs.EvalComments
