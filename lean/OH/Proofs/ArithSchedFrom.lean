/-
Helper lemmas for `OH/Props/ArithC14SchedFrom.lean`: indexing / writing / removing in the middle of a vector
`pre ++ cur :: rest` (`vecIdx`, `vecSet`, `vecRemove` of `OH/Model/RustVec.lean`), the merge loop of
`Schedule::from_ranges` over the GENERATED `TimeRange` with an arbitrary function standing for
`UniqueSortedVec::union` (`gmerge`), and its transport to the model's `mergeFixedLoop`.
-/
import OH.Proofs.ArithSched
import OH.Proofs.RustInt
namespace OH.Proofs.ArithSchedFrom
open OH.Model.RustInt
open OH.Generated.Arith
open OH.Proofs.ArithSched

/-! ### a vector with a distinguished position -/

theorem seqGet_mid {α : Type} (pre : List α) (cur : α) (rest : List α) :
    seqGet (pre ++ cur :: rest) (pre.length : Int) = some cur := by
  unfold seqGet
  rw [if_neg (by omega)]
  simp

theorem seqGet_mid1 {α : Type} (pre : List α) (cur u : α) (rest : List α) :
    seqGet (pre ++ cur :: u :: rest) ((pre.length : Int) + 1) = some u := by
  unfold seqGet
  rw [if_neg (by omega)]
  have : ((pre.length : Int) + 1).toNat = pre.length + 1 := by omega
  rw [this]
  simp

theorem vecIdx_mid {α : Type} (pre : List α) (cur : α) (rest : List α) :
    vecIdx (pre ++ cur :: rest) (pre.length : Int) = .ok cur := by
  unfold vecIdx; rw [seqGet_mid]

theorem vecIdx_mid1 {α : Type} (pre : List α) (cur u : α) (rest : List α) :
    vecIdx (pre ++ cur :: u :: rest) ((pre.length : Int) + 1) = .ok u := by
  unfold vecIdx; rw [seqGet_mid1]

theorem vecSet_mid {α : Type} (pre : List α) (cur x : α) (rest : List α) :
    vecSet (pre ++ cur :: rest) (pre.length : Int) x = pre ++ x :: rest := by
  unfold vecSet
  simp

theorem vecRemove_mid1 {α : Type} (pre : List α) (cur u : α) (rest : List α) :
    vecRemove (pre ++ cur :: u :: rest) ((pre.length : Int) + 1) = .ok (u, pre ++ cur :: rest) := by
  unfold vecRemove
  rw [seqGet_mid1]
  have : ((pre.length : Int) + 1).toNat = pre.length + 1 := by omega
  simp only [this]
  have e : pre.length + 1 = (pre ++ [cur]).length := by simp
  have e2 : pre ++ cur :: u :: rest = (pre ++ [cur]) ++ u :: rest := by simp
  rw [e, e2, List.eraseIdx_append_of_length_le (Nat.le_refl _)]
  simp

theorem vecLen_mid {α : Type} (pre : List α) (cur : α) (rest : List α) :
    vecLen (pre ++ cur :: rest) = (pre.length : Int) + 1 + rest.length := by
  unfold vecLen; simp; omega

theorem cmpMax_eq_max (a b : Nat) : cmpMax a b = max a b := by
  unfold cmpMax; split <;> omega

/-! ### the merge loop over the generated `TimeRange`, any `union` -/

/-- the `while i + 1 < inner.len()` loop of `from_ranges` on generated `TimeRange`s: `cur = inner[i]`, the list is
`inner[i+1..]`; `unionf` stands for `UniqueSortedVec::union` -/
def gmerge (unionf : List String → List String → List String) (cur : GTR) : List GTR → List GTR
  | [] => [cur]
  | u :: rest =>
    if cur.range.«end» ≥ u.range.start then
      gmerge unionf ⟨⟨cur.range.start, max cur.range.«end» u.range.«end»⟩, cur.kind, unionf cur.comments u.comments⟩ rest
    else cur :: gmerge unionf u rest

theorem gmerge_length_pos (unionf : List String → List String → List String) (cur : GTR) (rest : List GTR) :
    0 < (gmerge unionf cur rest).length := by
  induction rest generalizing cur with
  | nil => simp [gmerge]
  | cons u rest ih =>
    unfold gmerge
    split
    · exact ih _
    · simp

theorem gmerge_length_le (unionf : List String → List String → List String) (cur : GTR) (rest : List GTR) :
    (gmerge unionf cur rest).length ≤ rest.length + 1 := by
  induction rest generalizing cur with
  | nil => simp [gmerge]
  | cons u rest ih =>
    unfold gmerge
    split
    · have := ih ⟨⟨cur.range.start, max cur.range.«end» u.range.«end»⟩, cur.kind, unionf cur.comments u.comments⟩
      simp only [List.length_cons]; omega
    · have := ih u
      simp only [List.length_cons]; omega

/-- with the model's `cunion` for the union, `gmerge` is the model's `mergeFixedLoop` -/
theorem gmerge_cunion (cur : GTR) (rest : List GTR) :
    gmerge OH.Model.cunion cur rest = (OH.Model.Schedule.mergeFixedLoop (toM cur) (rest.map toM)).map ofM := by
  induction rest generalizing cur with
  | nil => simp [gmerge, OH.Model.Schedule.mergeFixedLoop]
  | cons u rest ih =>
    by_cases h : cur.range.«end» ≥ u.range.start
    · simp only [gmerge, List.map_cons, OH.Model.Schedule.mergeFixedLoop, toM_s, toM_e, h, if_true, ih]
      rfl
    · simp only [gmerge, List.map_cons, OH.Model.Schedule.mergeFixedLoop, toM_s, toM_e, h, if_false, ih,
        ofM_toM]

theorem sortInsert_length (x : OH.Model.TimeRange) (l : List OH.Model.TimeRange) :
    (OH.Model.Schedule.sortInsert x l).length = l.length + 1 := by
  induction l with
  | nil => simp [OH.Model.Schedule.sortInsert]
  | cons y ys ih =>
    unfold OH.Model.Schedule.sortInsert
    split <;> simp [ih]

theorem sortByStart_length (l : List OH.Model.TimeRange) :
    (OH.Model.Schedule.sortByStart l).length = l.length := by
  induction l with
  | nil => simp [OH.Model.Schedule.sortByStart]
  | cons y ys ih => simp [OH.Model.Schedule.sortByStart, sortInsert_length, ih]

end OH.Proofs.ArithSchedFrom
