import OH.Proofs.PavingSem
/-
Proofs about `normalize` (model: OH.Model.Normalize) above the paving laws:
the structure of the `while let` loop (`foldPrefix`), the pointwise reading of the paving it builds,
termination and absence of panics of `canonical_to_seq`, the fold-back theorem (the re-emitted rules
rebuild a paving that denotes the same function) and idempotence.
-/
namespace OH.Proofs.Normalize
open OH.Model OH.Model.Norm OH.Proofs.Paving Std

/-! ## the `while let` loop -/

/-- fold of a list of rules that are all canonical and not fallbacks (`none` otherwise) -/
def foldRules (p : Canonical) : List Rule → Option Canonical
  | [] => some p
  | r :: rs =>
    if r.op = .fallback then none
    else match ruleseqToSelector r with
      | .ok (some sel) => foldRules (pavingStep p r sel) rs
      | _ => none

/-- the loop of `normalize` stops at once on this queue -/
def Stops (rest : List Rule) : Prop :=
  match rest with
  | [] => True
  | r :: _ => r.op = .fallback ∨ ruleseqToSelector r = .ok none

/-- `foldPrefix` splits the expression in a canonical prefix, folded in the paving, and the tail -/
theorem foldPrefix_split : ∀ (e : List Rule) (p p' : Canonical) (rest : List Rule),
    foldPrefix p e = .ok (p', rest) →
    ∃ pre, e = pre ++ rest ∧ foldRules p pre = some p' ∧ Stops rest := by
  intro e
  induction e with
  | nil =>
    intro p p' rest h
    simp only [foldPrefix, Except.ok.injEq, Prod.mk.injEq] at h
    obtain ⟨rfl, rfl⟩ := h
    exact ⟨[], rfl, rfl, trivial⟩
  | cons r e ih =>
    intro p p' rest h
    simp only [foldPrefix] at h
    split at h
    · rename_i hfb
      simp only [Except.ok.injEq, Prod.mk.injEq] at h
      obtain ⟨rfl, rfl⟩ := h
      exact ⟨[], rfl, rfl, Or.inl hfb⟩
    · rename_i hfb
      split at h
      · cases h
      · rename_i hsel
        simp only [Except.ok.injEq, Prod.mk.injEq] at h
        obtain ⟨rfl, rfl⟩ := h
        exact ⟨[], rfl, rfl, Or.inr hsel⟩
      · rename_i sel hsel
        obtain ⟨pre, rfl, hf, hst⟩ := ih _ _ _ h
        refine ⟨r :: pre, rfl, ?_, hst⟩
        simp only [foldRules, if_neg hfb, hsel]
        exact hf

/-- conversely, a canonical prefix followed by a queue on which the loop stops -/
theorem foldPrefix_of_foldRules : ∀ (pre : List Rule) (p p' : Canonical) (rest : List Rule),
    foldRules p pre = some p' → Stops rest → foldPrefix p (pre ++ rest) = .ok (p', rest) := by
  intro pre
  induction pre with
  | nil =>
    intro p p' rest h hst
    simp only [foldRules, Option.some.injEq] at h
    subst h
    cases rest with
    | nil => rfl
    | cons r tl =>
      simp only [List.nil_append, foldPrefix]
      rcases hst with hfb | hsel
      · rw [if_pos hfb]
      · split
        · rfl
        · rw [hsel]
  | cons r pre ih =>
    intro p p' rest h hst
    simp only [foldRules] at h
    split at h
    · cases h
    · rename_i hfb
      split at h
      · rename_i sel hsel
        simp only [List.cons_append, foldPrefix, if_neg hfb, hsel]
        exact ih _ _ _ h hst
      · cases h

/-! ## round trip `into_selector` → `try_from_iterator` -/

section roundtrip
set_option linter.unusedSectionVars false
variable {R T : Type} [LE T] [DecidableLE T] [DecidableEq T]

theorem roundtrip_go (B : Bounded T) (mk : R → NM (Option (T × T))) (into : T × T → NM (Option R))
    (okR : R → Prop) :
    ∀ (M : List (T × T)), (∀ rg ∈ M, ∃ r, into rg = .ok (some r) ∧ mk r = .ok (some rg) ∧ okR r) →
    (∀ rg ∈ M, ¬ rg.2 ≤ rg.1) →
    ∃ rs, filterMapM into M = .ok rs ∧ tryFromIterGo B mk rs = .ok (some M) ∧ (∀ r ∈ rs, okR r) ∧
      rs.length = M.length := by
  intro M
  induction M with
  | nil => intro _ _; exact ⟨[], rfl, rfl, fun r hr => (by cases hr), rfl⟩
  | cons rg M ih =>
    intro hrt hlt
    obtain ⟨r, h1, h2, h5⟩ := hrt rg (by simp)
    obtain ⟨rs, h3, h4, h6, h7⟩ := ih (fun x hx => hrt x (List.mem_cons_of_mem _ hx)) (fun x hx => hlt x (List.mem_cons_of_mem _ hx))
    refine ⟨r :: rs, ?_, ?_, ?_, by simp [h7]⟩
    · simp only [filterMapM, h1, h3]
    · simp only [tryFromIterGo, h2, h4, splitInvertedRange, if_neg (hlt rg (by simp))]
      rfl
    · intro r' hr'
      rcases List.mem_cons.mp hr' with rfl | hr''
      · exact h5
      · exact h6 r' hr''

/-- a canonical range list survives `into_selector` followed by `try_from_iterator` -/
theorem roundtrip_list (B : Bounded T) (mk : R → NM (Option (T × T))) (into : T × T → NM (Option R))
    (okR : R → Prop)
    (L : List (T × T)) (remove : Bool) (hne : L ≠ [])
    (hrt : ∀ rg ∈ L, ∃ r, into rg = .ok (some r) ∧ mk r = .ok (some rg) ∧ okR r)
    (hlt : ∀ rg ∈ L, ¬ rg.2 ≤ rg.1)
    (hb : remove = true → B.bounds ∈ L → L = [B.bounds]) :
    ∃ rs, intoSelector B into L remove = .ok rs ∧ tryFromIterator B mk rs = .ok (some L) ∧ (∀ r ∈ rs, okR r) ∧
      (remove = false → rs ≠ []) := by
  unfold intoSelector
  by_cases hcase : remove = true ∧ B.bounds ∈ L
  · have hL := hb hcase.1 hcase.2
    refine ⟨[], ?_, ?_, fun r hr => (by cases hr), fun h => (by rw [h] at hcase; cases hcase.1)⟩
    · rw [hL]
      simp [hcase.1, filterMapM]
    · simp only [tryFromIterator, tryFromIterGo, List.isEmpty_nil, if_true]
      rw [hL]
  · have hfil : L.filter (fun rg => !(remove && rg == B.bounds)) = L := by
      apply List.filter_eq_self.mpr
      intro rg hrg
      simp only [Bool.not_eq_true', Bool.and_eq_false_iff]
      by_cases hr : remove = true
      · right
        simp only [beq_eq_false_iff_ne, ne_eq]
        intro h
        exact hcase ⟨hr, h ▸ hrg⟩
      · left; simpa using hr
    rw [hfil]
    obtain ⟨rs, h1, h2, h3, h4⟩ := roundtrip_go B mk into okR L hrt hlt
    refine ⟨rs, h1, ?_, h3, fun _ hrs => ?_⟩
    · simp only [tryFromIterator, h2]
      cases L with
      | nil => exact absurd rfl hne
      | cons a l => rfl
    · rw [hrs] at h4
      exact hne (List.length_eq_zero_iff.mp h4.symm)

end roundtrip

/-! ### the five dimensions -/

/-- months 1..12 in a plain month range (the only monthday range that can be canonical) -/
def monthRangeOK : MonthdayRange → Prop
  | .month lo hi _ => (1 ≤ lo ∧ lo ≤ 12) ∧ (1 ≤ hi ∧ hi ≤ 12)
  | _ => True

/-- weekdays 0..6 in a weekday range -/
def wdayRangeOK : WeekDayRange → Prop
  | .fixed lo hi _ _ _ => lo ≤ 6 ∧ hi ≤ 6
  | _ => True

instance : DecidablePred monthRangeOK := fun m => by cases m <;> unfold monthRangeOK <;> infer_instance
instance : DecidablePred wdayRangeOK := fun w => by cases w <;> unfold wdayRangeOK <;> infer_instance



/-- the values a frame cut can take when the rules respect the parser's ranges -/
def FrameOK (F : Framable) : Frame → Prop
  | .val n => F.frameStart ≤ n ∧ n ≤ F.frameEnd
  | .fin => True

theorem frame_lt_val {a : Frame} {n : Nat} (h : a < Frame.val n) : ∃ m, a = .val m ∧ m < n := by
  cases a with
  | val m => exact ⟨m, rfl, by simpa [Frame.lt_def, Frame.ltB] using h⟩
  | fin => simp [Frame.lt_def, Frame.ltB] at h

theorem frame_not_fin_lt {a : Frame} : ¬ (Frame.fin < a) := by
  cases a <;> simp [Frame.lt_def, Frame.ltB]

theorem frame_val_lt_val {m n : Nat} : Frame.val m < Frame.val n ↔ m < n := by
  simp [Frame.lt_def, Frame.ltB]

theorem frame_not_le_of_lt {a b : Frame} (h : a < b) : ¬ b ≤ a := by
  cases a <;> cases b <;> simp_all [Frame.lt_def, Frame.ltB, Frame.le_def, Frame.leB]

theorem year_roundtrip (rg : Frame × Frame) (hlt : rg.1 < rg.2) (h1 : FrameOK yearF rg.1) (h2 : FrameOK yearF rg.2) :
    ∃ r, YearRange.intoType rg = .ok (some r) ∧ YearRange.tryMakeCanonical r = .ok (some rg) ∧
      ((1900 ≤ r.lo ∧ r.lo ≤ 9999) ∧ (1900 ≤ r.hi ∧ r.hi ≤ 9999)) := by
  obtain ⟨p, q⟩ := rg
  cases p with
  | fin => exact absurd hlt frame_not_fin_lt
  | val x =>
    cases q with
    | fin =>
      simp only [FrameOK, yearF] at h1
      refine ⟨⟨x, 9999, 1⟩, rfl, ?_, by simp only; omega⟩
      simp [YearRange.tryMakeCanonical, toRangeStrict, yearF]
    | val y =>
      have hxy : x < y := frame_val_lt_val.mp hlt
      simp only [FrameOK, yearF] at h1 h2
      have e0 : ¬ (y = 0) := by omega
      have e1 : ¬ (y - 1 = 9999) := by omega
      have e2 : ¬ (65535 < y) := by omega
      have e3 : y - 1 + 1 = y := by omega
      refine ⟨⟨x, y - 1, 1⟩, ?_, ?_, by simp only; omega⟩
      · simp [YearRange.intoType, toRangeInclusive, yearF, e0]
      · simp [YearRange.tryMakeCanonical, toRangeStrict, yearF, e1, e2, e3]

theorem month_roundtrip (rg : Frame × Frame) (hlt : rg.1 < rg.2) (h1 : FrameOK monthF rg.1) (h2 : FrameOK monthF rg.2) :
    ∃ r, MonthdayRange.intoType rg = .ok (some r) ∧ MonthdayRange.tryMakeCanonical r = .ok (some rg) ∧
      monthRangeOK r := by
  obtain ⟨p, q⟩ := rg
  cases p with
  | fin => exact absurd hlt frame_not_fin_lt
  | val x =>
    cases q with
    | fin =>
      simp only [FrameOK, monthF] at h1
      refine ⟨.month x 12 none, rfl, ?_, by simp only [monthRangeOK]; omega⟩
      simp [MonthdayRange.tryMakeCanonical, toRangeStrict, monthF]
    | val y =>
      have hxy : x < y := frame_val_lt_val.mp hlt
      simp only [FrameOK, monthF] at h1 h2
      have e1 : ¬ ((y + 10) % 12 + 1 = 12) := by omega
      have e3 : ((y + 10) % 12 + 1) % 12 + 1 = y := by omega
      refine ⟨.month x ((y + 10) % 12 + 1) none, rfl, ?_, by simp only [monthRangeOK]; omega⟩
      simp [MonthdayRange.tryMakeCanonical, toRangeStrict, monthF, e1]
      omega

theorem week_roundtrip (rg : Frame × Frame) (hlt : rg.1 < rg.2) (h1 : FrameOK weekF rg.1) (h2 : FrameOK weekF rg.2) :
    ∃ r, WeekRange.intoType rg = .ok (some r) ∧ WeekRange.tryMakeCanonical r = .ok (some rg) ∧
      ((1 ≤ r.lo ∧ r.lo ≤ 53) ∧ (1 ≤ r.hi ∧ r.hi ≤ 53)) := by
  obtain ⟨p, q⟩ := rg
  cases p with
  | fin => exact absurd hlt frame_not_fin_lt
  | val x =>
    cases q with
    | fin =>
      simp only [FrameOK, weekF] at h1
      refine ⟨⟨x, 53, 1⟩, rfl, ?_, by simp only; omega⟩
      simp [WeekRange.tryMakeCanonical, toRangeStrict, weekF]
    | val y =>
      have hxy : x < y := frame_val_lt_val.mp hlt
      simp only [FrameOK, weekF] at h1 h2
      have e0 : ¬ (y + 51 > 255) := by omega
      have e1 : ¬ ((y + 51) % 53 + 1 = 53) := by omega
      have e3 : ((y + 51) % 53 + 1) % 53 + 1 = y := by omega
      refine ⟨⟨x, (y + 51) % 53 + 1, 1⟩, ?_, ?_, by simp only; omega⟩
      · simp [WeekRange.intoType, toRangeInclusive, weekF, e0]
      · simp [WeekRange.tryMakeCanonical, toRangeStrict, weekF, e1]
        omega

theorem wday_roundtrip (rg : Frame × Frame) (hlt : rg.1 < rg.2) (h1 : FrameOK wdayF rg.1) (h2 : FrameOK wdayF rg.2) :
    ∃ r, WeekDayRange.intoType rg = .ok (some r) ∧ WeekDayRange.tryMakeCanonical r = .ok (some rg) ∧
      wdayRangeOK r := by
  obtain ⟨p, q⟩ := rg
  cases p with
  | fin => exact absurd hlt frame_not_fin_lt
  | val x =>
    cases q with
    | fin =>
      simp only [FrameOK, wdayF] at h1
      refine ⟨.fixed x 6 0 allTrue5 allTrue5, rfl, ?_, by simp only [wdayRangeOK]; omega⟩
      simp [WeekDayRange.tryMakeCanonical, toRangeStrict, wdayF]
    | val y =>
      have hxy : x < y := frame_val_lt_val.mp hlt
      simp only [FrameOK, wdayF] at h1 h2
      have e1 : ¬ ((y + 6) % 7 = 6) := by omega
      have e3 : ((y + 6) % 7 + 1) % 7 = y := by omega
      refine ⟨.fixed x ((y + 6) % 7) 0 allTrue5 allTrue5, rfl, ?_, by simp only [wdayRangeOK]; omega⟩
      simp [WeekDayRange.tryMakeCanonical, toRangeStrict, wdayF, e1]
      omega

theorem time_roundtrip (rg : Nat × Nat) (hlt : rg.1 < rg.2) (h2 : rg.2 ≤ 1440) :
    ∃ r, TimeSpan.intoType rg = .ok (some r) ∧ TimeSpan.tryMakeCanonical r = .ok (some rg) ∧ True := by
  have e1 : ¬ (rg.1 ≥ rg.2 ∨ rg.2 > 1440) := by omega
  refine ⟨⟨.fixed rg.1, .fixed rg.2, false, none⟩, rfl, ?_, trivial⟩
  simp [TimeSpan.tryMakeCanonical, timeB, e1]

/-! ## the parser's ranges and the cuts they produce -/

/-- all bounds of a range list satisfy `ok` -/
def RangesOK {T : Type} (ok : T → Prop) (L : List (T × T)) : Prop := ∀ rg ∈ L, ok rg.1 ∧ ok rg.2

/-- the bounds of a canonical selector are within the frames (time: at most 24:00) -/
def SelOK (sel : CanonicalSelector) : Prop :=
  RangesOK (fun t : Nat => t ≤ 1440) sel.range ∧
  RangesOK (FrameOK yearF) sel.tail.range ∧
  RangesOK (FrameOK monthF) sel.tail.tail.range ∧
  RangesOK (FrameOK weekF) sel.tail.tail.tail.range ∧
  RangesOK (FrameOK wdayF) sel.tail.tail.tail.tail.range

/-- what the parser guarantees about a rule: the field ranges (`year` 1900..9999, `month` 1..12,
`weeknum` 1..53, weekdays 0..6; only the selectors that can be canonical are constrained) and a
non-empty time selector (`TimeSelector::new` replaces an empty list by `00:00-24:00`) -/
def RuleOK (r : Rule) : Prop :=
  (∀ y ∈ r.day.year, (1900 ≤ y.lo ∧ y.lo ≤ 9999) ∧ (1900 ≤ y.hi ∧ y.hi ≤ 9999)) ∧
  (∀ m ∈ r.day.monthday, monthRangeOK m) ∧
  (∀ w ∈ r.day.week, (1 ≤ w.lo ∧ w.lo ≤ 53) ∧ (1 ≤ w.hi ∧ w.hi ≤ 53)) ∧
  (∀ w ∈ r.day.weekday, wdayRangeOK w) ∧
  r.time ≠ []

def ExprOK (e : Expr) : Prop := ∀ r ∈ e, RuleOK r

instance (r : Rule) : Decidable (RuleOK r) := by unfold RuleOK; infer_instance
instance (e : Expr) : Decidable (ExprOK e) := by unfold ExprOK; infer_instance

section tfi
variable {α T : Type} [LE T] [DecidableLE T]

theorem tryFromIterGo_ok (B : Bounded T) (mk : α → NM (Option (T × T))) (ok : T → Prop)
    (hB : ok B.boundStart ∧ ok B.boundEnd) : ∀ (l : List α),
    (∀ x ∈ l, ∃ o, mk x = .ok o ∧ ∀ rg, o = some rg → ok rg.1 ∧ ok rg.2) →
    ∃ o, tryFromIterGo B mk l = .ok o ∧ ∀ L, o = some L → RangesOK ok L := by
  intro l
  induction l with
  | nil => intro _; exact ⟨some [], rfl, fun L hL => by cases hL; intro rg hrg; cases hrg⟩
  | cons x l ih =>
    intro h
    obtain ⟨o, ho, hok⟩ := h x (by simp)
    obtain ⟨o', ho', hok'⟩ := ih (fun y hy => h y (List.mem_cons_of_mem _ hy))
    cases o with
    | none => exact ⟨none, by simp [tryFromIterGo, ho], fun L hL => by cases hL⟩
    | some rg =>
      cases o' with
      | none => exact ⟨none, by simp [tryFromIterGo, ho, ho'], fun L hL => by cases hL⟩
      | some L' =>
        refine ⟨some (splitInvertedRange B rg ++ L'), by simp [tryFromIterGo, ho, ho'], ?_⟩
        intro L hL
        cases hL
        intro r hr
        rcases List.mem_append.mp hr with hr | hr
        · have hrg := hok rg rfl
          unfold splitInvertedRange at hr
          split at hr
          · simp only [List.mem_cons, List.mem_nil_iff, or_false] at hr
            rcases hr with rfl | rfl
            · exact ⟨hB.1, hrg.2⟩
            · exact ⟨hrg.1, hB.2⟩
          · simp only [List.mem_singleton] at hr
            subst hr; exact hrg
        · exact hok' L' rfl r hr

theorem tryFromIterator_ok (B : Bounded T) (mk : α → NM (Option (T × T))) (ok : T → Prop)
    (hB : ok B.boundStart ∧ ok B.boundEnd) (l : List α)
    (h : ∀ x ∈ l, ∃ o, mk x = .ok o ∧ ∀ rg, o = some rg → ok rg.1 ∧ ok rg.2) :
    ∃ o, tryFromIterator B mk l = .ok o ∧ ∀ L, o = some L → RangesOK ok L := by
  obtain ⟨o, ho, hok⟩ := tryFromIterGo_ok B mk ok hB l h
  cases o with
  | none => exact ⟨none, by simp [tryFromIterator, ho], fun L hL => by cases hL⟩
  | some L' =>
    refine ⟨some (if L'.isEmpty then [B.bounds] else L'), by simp [tryFromIterator, ho], ?_⟩
    intro L hL
    cases hL
    split
    · intro rg hrg
      simp only [List.mem_singleton] at hrg
      subst hrg
      exact hB
    · exact hok L' rfl

end tfi

theorem year_mk_ok (y : YearRange) (h : (1900 ≤ y.lo ∧ y.lo ≤ 9999) ∧ (1900 ≤ y.hi ∧ y.hi ≤ 9999)) :
    ∃ o, YearRange.tryMakeCanonical y = .ok o ∧ ∀ rg, o = some rg → FrameOK yearF rg.1 ∧ FrameOK yearF rg.2 := by
  by_cases hs : y.step ≠ 1
  · exact ⟨none, by simp [YearRange.tryMakeCanonical, hs], fun rg h => by cases h⟩
  · by_cases he : y.hi = 9999
    · refine ⟨some (.val y.lo, .fin), by simp [YearRange.tryMakeCanonical, toRangeStrict, yearF, hs, he], ?_⟩
      intro rg hrg; cases hrg
      exact ⟨by simp only [FrameOK, yearF]; omega, trivial⟩
    · have : ¬ (65535 < y.hi + 1) := by omega
      refine ⟨some (.val y.lo, .val (y.hi + 1)), by simp [YearRange.tryMakeCanonical, toRangeStrict, yearF, hs, he, this], ?_⟩
      intro rg hrg; cases hrg
      exact ⟨by simp only [FrameOK, yearF]; omega, by simp only [FrameOK, yearF]; omega⟩

theorem month_mk_ok (m : MonthdayRange) (h : monthRangeOK m) :
    ∃ o, MonthdayRange.tryMakeCanonical m = .ok o ∧ ∀ rg, o = some rg → FrameOK monthF rg.1 ∧ FrameOK monthF rg.2 := by
  cases m with
  | date s so e eo => exact ⟨none, rfl, fun rg h => by cases h⟩
  | month lo hi yr =>
    cases yr with
    | some y => exact ⟨none, rfl, fun rg h => by cases h⟩
    | none =>
      simp only [monthRangeOK] at h
      by_cases he : hi = 12
      · refine ⟨some (.val lo, .fin), by simp [MonthdayRange.tryMakeCanonical, toRangeStrict, monthF, he], ?_⟩
        intro rg hrg; cases hrg
        exact ⟨by simp only [FrameOK, monthF]; omega, trivial⟩
      · refine ⟨some (.val lo, .val (hi % 12 + 1)), by simp [MonthdayRange.tryMakeCanonical, toRangeStrict, monthF, he], ?_⟩
        intro rg hrg; cases hrg
        exact ⟨by simp only [FrameOK, monthF]; omega, by simp only [FrameOK, monthF]; omega⟩

theorem week_mk_ok (w : WeekRange) (h : (1 ≤ w.lo ∧ w.lo ≤ 53) ∧ (1 ≤ w.hi ∧ w.hi ≤ 53)) :
    ∃ o, WeekRange.tryMakeCanonical w = .ok o ∧ ∀ rg, o = some rg → FrameOK weekF rg.1 ∧ FrameOK weekF rg.2 := by
  by_cases hs : w.step ≠ 1
  · exact ⟨none, by simp [WeekRange.tryMakeCanonical, hs], fun rg h => by cases h⟩
  · by_cases he : w.hi = 53
    · refine ⟨some (.val w.lo, .fin), by simp [WeekRange.tryMakeCanonical, toRangeStrict, weekF, hs, he], ?_⟩
      intro rg hrg; cases hrg
      exact ⟨by simp only [FrameOK, weekF]; omega, trivial⟩
    · refine ⟨some (.val w.lo, .val (w.hi % 53 + 1)), by simp [WeekRange.tryMakeCanonical, toRangeStrict, weekF, hs, he], ?_⟩
      intro rg hrg; cases hrg
      exact ⟨by simp only [FrameOK, weekF]; omega, by simp only [FrameOK, weekF]; omega⟩

theorem wday_mk_ok (w : WeekDayRange) (h : wdayRangeOK w) :
    ∃ o, WeekDayRange.tryMakeCanonical w = .ok o ∧ ∀ rg, o = some rg → FrameOK wdayF rg.1 ∧ FrameOK wdayF rg.2 := by
  cases w with
  | holiday k off => exact ⟨none, rfl, fun rg h => by cases h⟩
  | fixed lo hi offset ns ne =>
    simp only [wdayRangeOK] at h
    by_cases hc : offset = 0 ∧ ns = allTrue5 ∧ ne = allTrue5
    · by_cases he : hi = 6
      · refine ⟨some (.val lo, .fin), by simp [WeekDayRange.tryMakeCanonical, toRangeStrict, wdayF, hc, he], ?_⟩
        intro rg hrg; cases hrg
        exact ⟨by simp only [FrameOK, wdayF]; omega, trivial⟩
      · refine ⟨some (.val lo, .val ((hi + 1) % 7)), by simp [WeekDayRange.tryMakeCanonical, toRangeStrict, wdayF, hc, he], ?_⟩
        intro rg hrg; cases hrg
        exact ⟨by simp only [FrameOK, wdayF]; omega, by simp only [FrameOK, wdayF]; omega⟩
    · exact ⟨none, by simp only [WeekDayRange.tryMakeCanonical, if_neg hc], fun rg h => by cases h⟩

theorem time_mk_ok (t : TimeSpan) :
    ∃ o, TimeSpan.tryMakeCanonical t = .ok o ∧ ∀ rg, o = some rg → rg.1 ≤ 1440 ∧ rg.2 ≤ 1440 := by
  unfold TimeSpan.tryMakeCanonical
  split
  · rename_i s e
    by_cases hc : s ≥ e ∨ e > timeB.boundEnd
    · exact ⟨none, by simp only [if_pos hc], fun rg h => by cases h⟩
    · refine ⟨some (s, e), by simp only [if_neg hc], ?_⟩
      intro rg hrg; cases hrg
      simp only [timeB] at hc
      simp only; omega
  · exact ⟨none, rfl, fun rg h => by cases h⟩

/-- on a rule within the parser's ranges `ruleseq_to_selector` does not panic, and the selector it
returns has all its bounds within the frames -/
theorem ruleseqToSelector_ok (r : Rule) (h : RuleOK r) :
    ∃ o, ruleseqToSelector r = .ok o ∧ ∀ sel, o = some sel → SelOK sel := by
  obtain ⟨hy, hm, hw, hd, _⟩ := h
  obtain ⟨od, hod, hokd⟩ := tryFromIterator_ok (frameB wdayF) WeekDayRange.tryMakeCanonical (FrameOK wdayF)
    ⟨by simp [frameB, FrameOK, wdayF], trivial⟩ r.day.weekday (fun x hx => wday_mk_ok x (hd x hx))
  obtain ⟨ow, how, hokw⟩ := tryFromIterator_ok (frameB weekF) WeekRange.tryMakeCanonical (FrameOK weekF)
    ⟨by simp [frameB, FrameOK, weekF], trivial⟩ r.day.week (fun x hx => week_mk_ok x (hw x hx))
  obtain ⟨om, hom, hokm⟩ := tryFromIterator_ok (frameB monthF) MonthdayRange.tryMakeCanonical (FrameOK monthF)
    ⟨by simp [frameB, FrameOK, monthF], trivial⟩ r.day.monthday (fun x hx => month_mk_ok x (hm x hx))
  obtain ⟨oy, hoy, hoky⟩ := tryFromIterator_ok (frameB yearF) YearRange.tryMakeCanonical (FrameOK yearF)
    ⟨by simp [frameB, FrameOK, yearF], trivial⟩ r.day.year (fun x hx => year_mk_ok x (hy x hx))
  obtain ⟨ot, hot, hokt⟩ := tryFromIterator_ok timeB TimeSpan.tryMakeCanonical (fun t : Nat => t ≤ 1440)
    ⟨by simp [timeB], by simp [timeB]⟩ r.time (fun x _ => time_mk_ok x)
  unfold ruleseqToSelector
  rw [hod]
  cases od with
  | none => exact ⟨none, rfl, fun _ h => by cases h⟩
  | some wd =>
    simp only
    rw [how]
    cases ow with
    | none => exact ⟨none, rfl, fun _ h => by cases h⟩
    | some wk =>
      simp only
      rw [hom]
      cases om with
      | none => exact ⟨none, rfl, fun _ h => by cases h⟩
      | some md =>
        simp only
        rw [hoy]
        cases oy with
        | none => exact ⟨none, rfl, fun _ h => by cases h⟩
        | some yr =>
          simp only
          rw [hot]
          cases ot with
          | none => exact ⟨none, rfl, fun _ h => by cases h⟩
          | some tm =>
            refine ⟨_, rfl, ?_⟩
            intro sel hsel
            cases hsel
            exact ⟨hokt tm rfl, hoky yr rfl, hokm md rfl, hokw wk rfl, hokd wd rfl⟩

/-! ## the grid of all admissible cuts (used in proofs only) -/

def framesOf (F : Framable) : List Frame :=
  Frame.fin :: ((List.range (F.frameEnd + 1)).filter (fun n => decide (F.frameStart ≤ n))).map Frame.val

theorem mem_framesOf (F : Framable) (a : Frame) : a ∈ framesOf F ↔ FrameOK F a := by
  cases a with
  | fin => simp [framesOf, FrameOK]
  | val n =>
    simp only [framesOf, List.mem_cons, List.mem_map, List.mem_filter, List.mem_range, decide_eq_true_eq,
      Frame.val.injEq, exists_eq_right, FrameOK, reduceCtorEq, false_or]
    omega

/-- every admissible cut, level by level -/
def gAll : List Nat × List Frame × List Frame × List Frame × List Frame × Unit :=
  (List.range 1441, framesOf yearF, framesOf monthF, framesOf weekF, framesOf wdayF, ())

theorem selIn_iff_selOK (sel : CanonicalSelector) : LawfulPaving.SelIn (P := Canonical) gAll sel ↔ SelOK sel := by
  constructor
  · intro h
    have h1 : ∀ r ∈ sel.range, r.1 ∈ gAll.1 ∧ r.2 ∈ gAll.1 := h.1
    have h2 : ∀ r ∈ sel.tail.range, r.1 ∈ gAll.2.1 ∧ r.2 ∈ gAll.2.1 := h.2.1
    have h3 : ∀ r ∈ sel.tail.tail.range, r.1 ∈ gAll.2.2.1 ∧ r.2 ∈ gAll.2.2.1 := h.2.2.1
    have h4 : ∀ r ∈ sel.tail.tail.tail.range, r.1 ∈ gAll.2.2.2.1 ∧ r.2 ∈ gAll.2.2.2.1 := h.2.2.2.1
    have h5 : ∀ r ∈ sel.tail.tail.tail.tail.range, r.1 ∈ gAll.2.2.2.2.1 ∧ r.2 ∈ gAll.2.2.2.2.1 := h.2.2.2.2.1
    refine ⟨fun r hr => ?_, fun r hr => ?_, fun r hr => ?_, fun r hr => ?_, fun r hr => ?_⟩
    · have := h1 r hr; simp only [gAll, List.mem_range] at this; omega
    · have := h2 r hr; exact ⟨(mem_framesOf _ _).mp this.1, (mem_framesOf _ _).mp this.2⟩
    · have := h3 r hr; exact ⟨(mem_framesOf _ _).mp this.1, (mem_framesOf _ _).mp this.2⟩
    · have := h4 r hr; exact ⟨(mem_framesOf _ _).mp this.1, (mem_framesOf _ _).mp this.2⟩
    · have := h5 r hr; exact ⟨(mem_framesOf _ _).mp this.1, (mem_framesOf _ _).mp this.2⟩
  · rintro ⟨h1, h2, h3, h4, h5⟩
    refine ⟨fun r hr => ?_, fun r hr => ?_, fun r hr => ?_, fun r hr => ?_, fun r hr => ?_, trivial⟩
    · have := h1 r hr; simp only [gAll, List.mem_range]; omega
    · have := h2 r hr; exact ⟨(mem_framesOf _ _).mpr this.1, (mem_framesOf _ _).mpr this.2⟩
    · have := h3 r hr; exact ⟨(mem_framesOf _ _).mpr this.1, (mem_framesOf _ _).mpr this.2⟩
    · have := h4 r hr; exact ⟨(mem_framesOf _ _).mpr this.1, (mem_framesOf _ _).mpr this.2⟩
    · have := h5 r hr; exact ⟨(mem_framesOf _ _).mpr this.1, (mem_framesOf _ _).mpr this.2⟩

theorem selOK_fullDay {sel : CanonicalSelector} (h : SelOK sel) : SelOK (fullDaySelector sel) := by
  refine ⟨?_, h.2⟩
  intro r hr
  simp only [fullDaySelector, Bounded.bounds, timeB, List.mem_singleton] at hr
  subst hr
  simp

/-- the invariant of the paving during `normalize`: well formed, every cut admissible -/
def PavOK (p : Canonical) : Prop := LawfulPaving.WF p ∧ LawfulPaving.CutsIn (P := Canonical) gAll p

theorem pavOK_empty : PavOK (Paving.empty : Canonical) :=
  ⟨LawfulPaving.wf_empty, LawfulPaving.cutsIn_empty _⟩

theorem pavOK_set {p : Canonical} (h : PavOK p) {sel : CanonicalSelector} (hs : SelOK sel) (v : Val) :
    PavOK (Paving.set p sel v) :=
  ⟨LawfulPaving.wf_set p sel v h.1, LawfulPaving.cutsIn_set _ p sel v h.2 ((selIn_iff_selOK sel).mpr hs)⟩

theorem pavOK_step {p : Canonical} (h : PavOK p) (r : Rule) {sel : CanonicalSelector} (hs : SelOK sel) :
    PavOK (pavingStep p r sel) := by
  unfold pavingStep
  split
  · exact pavOK_set (pavOK_set h (selOK_fullDay hs) _) hs _
  · exact pavOK_set h hs _

theorem pavOK_foldRules : ∀ (pre : List Rule) (p p' : Canonical), (∀ r ∈ pre, RuleOK r) → PavOK p →
    foldRules p pre = some p' → PavOK p' := by
  intro pre
  induction pre with
  | nil => intro p p' _ hp h; cases h; exact hp
  | cons r pre ih =>
    intro p p' hok hp h
    simp only [foldRules] at h
    split at h
    · cases h
    · split at h
      · rename_i sel hsel
        obtain ⟨o, ho, hsok⟩ := ruleseqToSelector_ok r (hok r (by simp))
        rw [hsel] at ho
        cases ho
        exact ih _ _ (fun x hx => hok x (List.mem_cons_of_mem _ hx)) (pavOK_step hp r (hsok sel rfl)) h
      · cases h

/-! ## pointwise reading of the loop body (C07, step (c)) -/

/-- the value a rule writes -/
def ruleVal (r : Rule) : Val := (r.kind, r.comments)

/-- **pointwise reading of one rule of the canonical prefix**: the rule's value on its selector; a
normal rule that is not `closed` first clears the whole day on the days of its selector; every other
point keeps its value -/
theorem get_pavingStep (p : Canonical) (hp : LawfulPaving.WF p) (r : Rule) (sel : CanonicalSelector) (x : Point5) :
    Paving.get (pavingStep p r sel) x =
      if Paving.mem (P := Canonical) x sel = true then ruleVal r
      else if (r.op = .normal ∧ r.kind ≠ .closed) ∧ Paving.mem (P := Canonical) x (fullDaySelector sel) = true
        then (HasDflt.dflt : Val)
      else Paving.get p x := by
  unfold pavingStep
  split
  · rename_i hc
    rw [LawfulPaving.get_set _ _ _ _ (LawfulPaving.wf_set _ _ _ hp), LawfulPaving.get_set _ _ _ _ hp]
    simp [hc, ruleVal]
  · rename_i hc
    rw [LawfulPaving.get_set _ _ _ _ hp]
    simp [hc, ruleVal]

/-! ## `pop_filter` over the three kinds -/

def fOpen (v : Val) : Bool := v.1 == Kind.open
def fUnknown (v : Val) : Bool := v.1 == Kind.unknown
def fClosed (v : Val) : Bool := v.1 == Kind.closed && !v.2.isEmpty

theorem popKinds_eq (fx : Bool) (p : Canonical) : popKinds fx p =
    match Paving.popFilterG fx p fOpen with
    | some r => some r
    | none => match Paving.popFilterG fx p fUnknown with
      | some r => some r
      | none => Paving.popFilterG fx p fClosed := rfl

theorem fOpen_dflt : fOpen HasDflt.dflt = false := rfl
theorem fUnknown_dflt : fUnknown HasDflt.dflt = false := rfl
theorem fClosed_dflt : fClosed HasDflt.dflt = false := rfl

/-- the popping filter of a successful `popKinds` -/
theorem popKinds_cases (fx : Bool) (p : Canonical) {r : (Val × CanonicalSelector) × Canonical}
    (h : popKinds fx p = some r) :
    ∃ f : Val → Bool, f HasDflt.dflt = false ∧ Paving.popFilterG fx p f = some r := by
  rw [popKinds_eq] at h
  split at h
  · rename_i r' hr; cases h; exact ⟨fOpen, rfl, hr⟩
  · split at h
    · rename_i r' hr; cases h; exact ⟨fUnknown, rfl, hr⟩
    · exact ⟨fClosed, rfl, h⟩

theorem popKinds_some (fx : Bool) (p p' : Canonical) (v : Val) (sel : CanonicalSelector) (hp : PavOK p)
    (h : popKinds fx p = some ((v, sel), p')) :
    PavOK p' ∧ v ≠ HasDflt.dflt ∧ (∃ x, Paving.mem (P := Canonical) x sel = true) ∧
    (∀ x, Paving.mem (P := Canonical) x sel = true → Paving.get p x = v) ∧
    (∀ x, Paving.get p' x = if Paving.mem (P := Canonical) x sel = true then HasDflt.dflt else Paving.get p x) ∧
    SelOK sel ∧ SemPaving.SelSep (P := Canonical) sel := by
  obtain ⟨f, hf, hpop⟩ := popKinds_cases fx p h
  obtain ⟨hw, hfv, hex, hval, hget⟩ := LawfulPaving.pop_some fx p f v sel p' hp.1 hf hpop
  obtain ⟨hc, hs, _⟩ := LawfulPaving.pop_grid fx gAll p f v sel p' hp.1 hp.2 hf hpop
  refine ⟨⟨hw, hc⟩, ?_, hex, hval, hget, (selIn_iff_selOK sel).mp hs, SemPaving.pop_sep fx p f v sel p' hp.1 hf hpop⟩
  intro h'; rw [h', hf] at hfv; cases hfv

theorem popKinds_none (fx : Bool) (p : Canonical) (hp : LawfulPaving.WF p) (h : popKinds fx p = none) (x : Point5) :
    Paving.get p x = (HasDflt.dflt : Val) := by
  rw [popKinds_eq] at h
  split at h
  · cases h
  · rename_i h1
    split at h
    · cases h
    · rename_i h2
      have a1 := LawfulPaving.pop_none fx p fOpen hp rfl h1 x
      have a2 := LawfulPaving.pop_none fx p fUnknown hp rfl h2 x
      have a3 := LawfulPaving.pop_none fx p fClosed hp rfl h x
      generalize Paving.get p x = v at a1 a2 a3
      obtain ⟨k, c⟩ := v
      simp only [fOpen, fUnknown, fClosed] at a1 a2 a3
      cases k <;> cases c <;> simp_all [HasDflt.dflt]

/-- `popKinds` only looks at the function the paving denotes -/
theorem popKinds_sem (fx : Bool) (p q : Canonical) (hp : LawfulPaving.WF p) (hq : LawfulPaving.WF q)
    (h : ∀ x, Paving.get p x = Paving.get q x) :
    (popKinds fx p).map (fun r => r.1) = (popKinds fx q).map (fun r => r.1) := by
  have s1 := popFilter_semantic fx p q fOpen hp hq rfl h
  have s2 := popFilter_semantic fx p q fUnknown hp hq rfl h
  have s3 := popFilter_semantic fx p q fClosed hp hq rfl h
  rw [popKinds_eq, popKinds_eq]
  cases h1 : Paving.popFilterG fx p fOpen with
  | some r =>
    rw [h1] at s1
    cases h1' : Paving.popFilterG fx q fOpen with
    | some r' => rw [h1'] at s1; simpa using s1
    | none => rw [h1'] at s1; simp at s1
  | none =>
    rw [h1] at s1
    cases h1' : Paving.popFilterG fx q fOpen with
    | some r' => rw [h1'] at s1; simp at s1
    | none =>
      simp only
      cases h2 : Paving.popFilterG fx p fUnknown with
      | some r =>
        rw [h2] at s2
        cases h2' : Paving.popFilterG fx q fUnknown with
        | some r' => rw [h2'] at s2; simpa using s2
        | none => rw [h2'] at s2; simp at s2
      | none =>
        rw [h2] at s2
        cases h2' : Paving.popFilterG fx q fUnknown with
        | some r' => rw [h2'] at s2; simp at s2
        | none => simpa using s3

/-! ## one emitted rule -/

theorem sep_bounds_singleton (F : Framable) (L : List (Frame × Frame)) (hs : Sep L)
    (hok : RangesOK (FrameOK F) L) (hb : (frameB F).bounds ∈ L) : L = [(frameB F).bounds] := by
  cases L with
  | nil => cases hb
  | cons r rest =>
    have hr := sep_head hs
    have hlb := sep_lb hs
    rcases List.mem_cons.mp hb with hb' | hb'
    · cases rest with
      | nil => rw [hb']
      | cons r' rest' =>
        have := hlb r' (by simp)
        rw [← hb'] at this
        exact absurd this frame_not_fin_lt
    · have h1 := hlb _ hb'
      simp only [Bounded.bounds, frameB] at h1
      obtain ⟨m, hm, hmlt⟩ := frame_lt_val h1
      rw [hm] at hr
      obtain ⟨n, hn, hnlt⟩ := frame_lt_val hr
      have := (hok r (by simp)).1
      rw [hn] at this
      simp only [FrameOK] at this
      omega

theorem ranges_ne_nil_of_mem {T : Type} [LT T] [LE T] [DecidableLT T] [DecidableLE T] {L : List (T × T)} {a : T}
    (h : inRanges L a = true) : L ≠ [] := by
  intro h'; subst h'; simp [inRanges] at h

/-- **one emitted rule**: on a popped selector (canonical ranges, admissible bounds, not empty)
`canonical_to_seq` builds a rule without panicking; the rule carries the popped value, it is again
canonical, `ruleseq_to_selector` gives back exactly the popped selector, and its fields are within the
parser's ranges -/
theorem emitRule_ok (fx : Bool) (dc : DaysCovered) (v : Val) (sel : CanonicalSelector) (hok : SelOK sel)
    (hsep : SemPaving.SelSep (P := Canonical) sel) (hne : ∃ x, Paving.mem (P := Canonical) x sel = true) :
    ∃ r, emitRule fx dc v sel = .ok (r, Paving.set dc sel.tail true) ∧ r.kind = v.1 ∧ r.comments = v.2 ∧
      r.op = (if Paving.isValG fx dc sel.tail false = true then RuleOp.normal else RuleOp.additional) ∧
      ruleseqToSelector r = .ok (some sel) ∧ RuleOK r := by
  obtain ⟨x, hx⟩ := hne
  have m1 : inRanges sel.range x.1 = true ∧ _ := (psel_mem_iff (U := Paving4D Frame Frame Frame Frame Val) x sel).mp hx
  have m2 : inRanges sel.tail.range x.2.1 = true ∧ _ :=
    (psel_mem_iff (U := Paving3D Frame Frame Frame Val) x.2 sel.tail).mp m1.2
  have m3 : inRanges sel.tail.tail.range x.2.2.1 = true ∧ _ :=
    (psel_mem_iff (U := Paving2D Frame Frame Val) x.2.2 sel.tail.tail).mp m2.2
  have m4 : inRanges sel.tail.tail.tail.range x.2.2.2.1 = true ∧ _ :=
    (psel_mem_iff (U := Paving1D Frame Val) x.2.2.2 sel.tail.tail.tail).mp m3.2
  have m5 : inRanges sel.tail.tail.tail.tail.range x.2.2.2.2.1 = true ∧ _ :=
    (psel_mem_iff (U := Cell Val) x.2.2.2.2 sel.tail.tail.tail.tail).mp m4.2
  have s1 : Sep sel.range := hsep.1
  have s2 : Sep sel.tail.range := hsep.2.1
  have s3 : Sep sel.tail.tail.range := hsep.2.2.1
  have s4 : Sep sel.tail.tail.tail.range := hsep.2.2.2.1
  have s5 : Sep sel.tail.tail.tail.tail.range := hsep.2.2.2.2.1
  obtain ⟨o1, o2, o3, o4, o5⟩ := hok
  have lt_of_sep : ∀ {T : Type} [LT T] [LE T] [DecidableLT T] [DecidableLE T] [DecidableEq T] [IsLinearOrder T]
      [LawfulOrderLT T] {L : List (T × T)}, Sep L → ∀ rg ∈ L, rg.1 < rg.2 := by
    intro T _ _ _ _ _ _ _ L
    induction L with
    | nil => intro _ rg hrg; cases hrg
    | cons r rest ih =>
      intro hs rg hrg
      rcases List.mem_cons.mp hrg with rfl | h'
      · exact sep_head hs
      · exact ih (sep_tail hs) rg h'
  -- year
  obtain ⟨ys, hy1, hy2, hy3, _⟩ := roundtrip_list (frameB yearF) YearRange.tryMakeCanonical YearRange.intoType
    (fun r => (1900 ≤ r.lo ∧ r.lo ≤ 9999) ∧ (1900 ≤ r.hi ∧ r.hi ≤ 9999)) sel.tail.range true
    (ranges_ne_nil_of_mem m2.1)
    (fun rg hrg => year_roundtrip rg (lt_of_sep s2 rg hrg) (o2 rg hrg).1 (o2 rg hrg).2)
    (fun rg hrg => frame_not_le_of_lt (lt_of_sep s2 rg hrg))
    (fun _ hb => sep_bounds_singleton yearF _ s2 o2 hb)
  obtain ⟨ms, hm1, hm2, hm3, _⟩ := roundtrip_list (frameB monthF) MonthdayRange.tryMakeCanonical MonthdayRange.intoType
    monthRangeOK sel.tail.tail.range true
    (ranges_ne_nil_of_mem m3.1)
    (fun rg hrg => month_roundtrip rg (lt_of_sep s3 rg hrg) (o3 rg hrg).1 (o3 rg hrg).2)
    (fun rg hrg => frame_not_le_of_lt (lt_of_sep s3 rg hrg))
    (fun _ hb => sep_bounds_singleton monthF _ s3 o3 hb)
  obtain ⟨ws, hw1, hw2, hw3, _⟩ := roundtrip_list (frameB weekF) WeekRange.tryMakeCanonical WeekRange.intoType
    (fun r => (1 ≤ r.lo ∧ r.lo ≤ 53) ∧ (1 ≤ r.hi ∧ r.hi ≤ 53)) sel.tail.tail.tail.range true
    (ranges_ne_nil_of_mem m4.1)
    (fun rg hrg => week_roundtrip rg (lt_of_sep s4 rg hrg) (o4 rg hrg).1 (o4 rg hrg).2)
    (fun rg hrg => frame_not_le_of_lt (lt_of_sep s4 rg hrg))
    (fun _ hb => sep_bounds_singleton weekF _ s4 o4 hb)
  obtain ⟨ds, hd1, hd2, hd3, _⟩ := roundtrip_list (frameB wdayF) WeekDayRange.tryMakeCanonical WeekDayRange.intoType
    wdayRangeOK sel.tail.tail.tail.tail.range true
    (ranges_ne_nil_of_mem m5.1)
    (fun rg hrg => wday_roundtrip rg (lt_of_sep s5 rg hrg) (o5 rg hrg).1 (o5 rg hrg).2)
    (fun rg hrg => frame_not_le_of_lt (lt_of_sep s5 rg hrg))
    (fun _ hb => sep_bounds_singleton wdayF _ s5 o5 hb)
  obtain ⟨ts, ht1, ht2, _, ht4⟩ := roundtrip_list timeB TimeSpan.tryMakeCanonical TimeSpan.intoType
    (fun _ => True) sel.range false
    (ranges_ne_nil_of_mem m1.1)
    (fun rg hrg => time_roundtrip rg (lt_of_sep s1 rg hrg) (o1 rg hrg).2)
    (fun rg hrg => by have := lt_of_sep s1 rg hrg; omega)
    (fun h => by cases h)
  refine ⟨⟨⟨ys, ms, ws, ds⟩, ts, v.1, (if Paving.isValG fx dc sel.tail false = true then RuleOp.normal else RuleOp.additional), v.2⟩,
    ?_, rfl, rfl, rfl, ?_, ⟨hy3, hm3, hw3, hd3, ht4 rfl⟩⟩
  · simp only [emitRule, hy1, hm1, hw1, hd1, ht1]
  · simp only [ruleseqToSelector, hd2, hw2, hm2, hy2, ht2]

/-! ## the fold-back theorem (C07 step (c), C13) -/

/-- invariant of the emission loop: `p` is what is left of the paving, `q` the paving rebuilt from the
rules emitted so far, `dc` is `days_covered` -/
structure EmitInv (p q : Canonical) (dc : DaysCovered) : Prop where
  pOK : PavOK p
  qWF : LawfulPaving.WF q
  dcWF : LawfulPaving.WF dc
  /-- what was emitted has been reset in `p` -/
  disj : ∀ x, Paving.get q x ≠ (HasDflt.dflt : Val) → Paving.get p x = (HasDflt.dflt : Val)
  /-- every point already emitted has its day marked -/
  cov : ∀ x : Point5, Paving.get q x ≠ (HasDflt.dflt : Val) → Paving.get dc x.2 = true

theorem wf_pavingStep (q : Canonical) (hq : LawfulPaving.WF q) (r : Rule) (sel : CanonicalSelector) :
    LawfulPaving.WF (pavingStep q r sel) := by
  unfold pavingStep
  split
  · exact LawfulPaving.wf_set _ _ _ (LawfulPaving.wf_set _ _ _ hq)
  · exact LawfulPaving.wf_set _ _ _ hq

/-- folding an emitted rule back: with the operator chosen by the repaired `is_val`, only the popped
region changes -/
theorem get_step_emit (q : Canonical) (dc : DaysCovered) (hq : LawfulPaving.WF q) (hdc : LawfulPaving.WF dc)
    (hcov : ∀ x : Point5, Paving.get q x ≠ (HasDflt.dflt : Val) → Paving.get dc x.2 = true)
    (r : Rule) (sel : CanonicalSelector) (v : Val) (hk : r.kind = v.1) (hc : r.comments = v.2)
    (hop : r.op = (if Paving.isValG true dc sel.tail false = true then RuleOp.normal else RuleOp.additional))
    (x : Point5) :
    Paving.get (pavingStep q r sel) x = if Paving.mem (P := Canonical) x sel = true then v else Paving.get q x := by
  rw [get_pavingStep q hq r sel x]
  have hv : ruleVal r = v := by simp [ruleVal, hk, hc]
  split
  · exact hv
  · split
    · rename_i hclr
      obtain ⟨⟨hn, _⟩, hm⟩ := hclr
      have hval : Paving.isValG true dc sel.tail false = true := by
        by_cases h : Paving.isValG true dc sel.tail false = true
        · exact h
        · rw [if_neg h] at hop; rw [hop] at hn; cases hn
      have hm' := (psel_mem_iff (U := Paving4D Frame Frame Frame Frame Val) x (fullDaySelector sel)).mp hm
      have hday : Paving.get dc x.2 = false :=
        LawfulPaving.isVal_sound dc sel.tail false hdc hval x.2 hm'.2
      by_cases hq' : Paving.get q x = (HasDflt.dflt : Val)
      · exact hq'.symm
      · have := hcov x hq'
        rw [hday] at this; cases this
    · rfl

theorem foldback_go : ∀ (p : Canonical) (dc : DaysCovered) (live : List Point5) (q : Canonical) (rs : List Rule),
    EmitInv p q dc → canonicalToSeqG true p dc live = .ok rs →
    ∃ q', foldRules q rs = some q' ∧ LawfulPaving.WF q' ∧
      (∀ x, Paving.get q' x = if Paving.get p x ≠ (HasDflt.dflt : Val) then Paving.get p x else Paving.get q x) ∧
      (∀ r ∈ rs, RuleOK r) := by
  intro p dc live
  induction p, dc, live using canonicalToSeqG.induct (fx := true) with
  | case1 p dc live hpop =>
    intro q rs inv h
    rw [canonicalToSeqG, hpop] at h
    cases h
    refine ⟨q, rfl, inv.qWF, fun x => ?_, fun r hr => by cases hr⟩
    rw [popKinds_none true p inv.pOK.1 hpop x]
    simp
  | case2 p dc live v sel p' hpop hlt e hemit =>
    intro q rs inv h
    rw [canonicalToSeqG, hpop] at h
    simp only [hlt, dite_true, hemit] at h
    cases h
  | case3 p dc live v sel p' hpop hlt r dc' hemit e hrec _ =>
    intro q rs inv h
    rw [canonicalToSeqG, hpop] at h
    simp only [hlt, dite_true, hemit, hrec] at h
    cases h
  | case4 p dc live v sel p' hpop hlt r dc' hemit rs' hrec ih =>
    intro q rs inv h
    rw [canonicalToSeqG, hpop] at h
    simp only [hlt, dite_true, hemit, hrec, Except.ok.injEq] at h
    subst h
    obtain ⟨hp', hvd, hex, hval, hget, hsok, hssep⟩ := popKinds_some true p p' v sel inv.pOK hpop
    obtain ⟨r0, he0, hk, hc, hop, hsel, hrok⟩ := emitRule_ok true dc v sel hsok hssep hex
    rw [he0] at hemit
    simp only [Except.ok.injEq, Prod.mk.injEq] at hemit
    obtain ⟨rfl, rfl⟩ := hemit
    have hstep := get_step_emit q dc inv.qWF inv.dcWF inv.cov r0 sel v hk hc hop
    have hq2 := wf_pavingStep q inv.qWF r0 sel
    have hdc' : LawfulPaving.WF (Paving.set dc sel.tail true : DaysCovered) := LawfulPaving.wf_set _ _ _ inv.dcWF
    have inv' : EmitInv p' (pavingStep q r0 sel) (Paving.set dc sel.tail true) := by
      refine ⟨hp', hq2, hdc', ?_, ?_⟩
      · intro x hx
        rw [hget x]
        split
        · rfl
        · rename_i hm
          rw [hstep x, if_neg hm] at hx
          exact inv.disj x hx
      · intro x hx
        rw [LawfulPaving.get_set _ _ _ _ inv.dcWF]
        split
        · rfl
        · rename_i hm
          have hmx : ¬ Paving.mem (P := Canonical) x sel = true := by
            intro h'
            exact hm ((psel_mem_iff (U := Paving4D Frame Frame Frame Frame Val) x sel).mp h').2
          rw [hstep x, if_neg hmx] at hx
          exact inv.cov x hx
    obtain ⟨q', hf, hw, hg, hall⟩ := ih (pavingStep q r0 sel) rs' inv' hrec
    have hnf : r0.op ≠ RuleOp.fallback := by rw [hop]; split <;> simp
    refine ⟨q', ?_, hw, ?_, ?_⟩
    · simp only [foldRules, if_neg hnf, hsel]
      exact hf
    · intro x
      rw [hg x, hget x, hstep x]
      by_cases hm : Paving.mem (P := Canonical) x sel = true
      · simp only [hm, if_true, ne_eq, not_true_eq_false, if_false]
        rw [hval x hm]
        simp [hvd]
      · simp only [hm]
        simp
    · intro r hr
      rcases List.mem_cons.mp hr with rfl | hr'
      · exact hrok
      · exact hall r hr'
  | case5 p dc live v sel p' hpop hnlt =>
    intro q rs inv h
    rw [canonicalToSeqG, hpop] at h
    simp only [hnlt, dite_false] at h
    cases h

/-- **fold-back**: the rules `canonical_to_seq` emits for a paving `P` are canonical, within the
parser's ranges, and folding them into an empty paving gives a paving that denotes the same function -/
theorem foldback (P : Canonical) (hP : PavOK P) (rs : List Rule) (h : canonicalToSeq true P = .ok rs) :
    ∃ P2, foldRules Paving.empty rs = some P2 ∧ PavOK P2 ∧ (∀ x, Paving.get P2 x = Paving.get P x) ∧
      (∀ r ∈ rs, RuleOK r) := by
  have inv : EmitInv P (Paving.empty : Canonical) (Paving.empty : DaysCovered) :=
    ⟨hP, LawfulPaving.wf_empty, LawfulPaving.wf_empty,
      fun x hx => absurd (LawfulPaving.get_empty x) hx, fun x hx => absurd (LawfulPaving.get_empty x) hx⟩
  obtain ⟨P2, hf, hw, hg, hall⟩ := foldback_go P _ _ _ rs inv h
  refine ⟨P2, hf, pavOK_foldRules rs _ _ hall pavOK_empty hf, fun x => ?_, hall⟩
  rw [hg x, LawfulPaving.get_empty x]
  by_cases hx : Paving.get P x = (HasDflt.dflt : Val)
  · simp [hx]
  · simp [hx]

/-! ## `canonical_to_seq` terminates and does not panic -/

/-- invariant of the termination measure: `live` holds every grid point that is not the default -/
def LiveInv (g : List Nat × List Frame × List Frame × List Frame × List Frame × Unit) (p : Canonical)
    (live : List Point5) : Prop :=
  LawfulPaving.CutsIn (P := Canonical) g p ∧
  ∀ x ∈ Paving.gridPts (P := Canonical) g, Paving.get p x ≠ (HasDflt.dflt : Val) → x ∈ live

/-- a successful `popKinds` strictly shrinks the list of live grid points (the measure of
`canonicalToSeqG`) and keeps its invariant -/
theorem popKinds_live_lt (fx : Bool) (g) (p p' : Canonical) (v : Val) (sel : CanonicalSelector)
    (hp : LawfulPaving.WF p) (live : List Point5) (hl : LiveInv g p live)
    (h : popKinds fx p = some ((v, sel), p')) :
    (stillLive p' live).length < live.length ∧ LiveInv g p' (stillLive p' live) := by
  obtain ⟨f, hf, hpop⟩ := popKinds_cases fx p h
  obtain ⟨h1, h2⟩ := pop_live_lt fx g p p' hp hl.1 f hf v sel hpop live hl.2
  obtain ⟨hc, _, _⟩ := LawfulPaving.pop_grid fx g p f v sel p' hp hl.1 hf hpop
  exact ⟨h1, hc, h2⟩

theorem canonicalToSeqG_ok (fx : Bool) (g) : ∀ (p : Canonical) (dc : DaysCovered) (live : List Point5),
    PavOK p → LiveInv g p live → ∃ rs, canonicalToSeqG fx p dc live = .ok rs := by
  intro p dc live
  induction p, dc, live using canonicalToSeqG.induct (fx := fx) with
  | case1 p dc live hpop =>
    intro _ _
    exact ⟨[], by rw [canonicalToSeqG, hpop]⟩
  | case2 p dc live v sel p' hpop hlt e hemit =>
    intro hp _
    obtain ⟨_, _, hex, _, _, hsok, hssep⟩ := popKinds_some fx p p' v sel hp hpop
    obtain ⟨r0, he0, _⟩ := emitRule_ok fx dc v sel hsok hssep hex
    rw [he0] at hemit; cases hemit
  | case3 p dc live v sel p' hpop hlt r dc' hemit e hrec ih =>
    intro hp hl
    obtain ⟨hp', _⟩ := popKinds_some fx p p' v sel hp hpop
    obtain ⟨rs, hrs⟩ := ih hp' (popKinds_live_lt fx g p p' v sel hp.1 live hl hpop).2
    rw [hrs] at hrec; cases hrec
  | case4 p dc live v sel p' hpop hlt r dc' hemit rs' hrec _ =>
    intro _ _
    refine ⟨r :: rs', ?_⟩
    rw [canonicalToSeqG, hpop]
    simp only [hlt, dite_true, hemit, hrec]
  | case5 p dc live v sel p' hpop hnlt =>
    intro hp hl
    exact absurd (popKinds_live_lt fx g p p' v sel hp.1 live hl hpop).1 hnlt

/-- **`canonical_to_seq` neither panics nor stalls** on a paving whose cuts are admissible -/
theorem canonicalToSeq_ok (fx : Bool) (P : Canonical) (hP : PavOK P) : ∃ rs, canonicalToSeq fx P = .ok rs := by
  unfold canonicalToSeq
  apply canonicalToSeqG_ok fx (Paving.cutsOf P) P _ _ hP
  refine ⟨LawfulPaving.cutsIn_cutsOf P, ?_⟩
  intro x hx hne
  simp only [stillLive, gridOf, List.mem_filter]
  exact ⟨hx, by simpa using hne⟩

/-- `foldPrefix` does not panic on rules within the parser's ranges -/
theorem foldPrefix_ok : ∀ (e : List Rule) (p : Canonical), (∀ r ∈ e, RuleOK r) → PavOK p →
    ∃ p' rest, foldPrefix p e = .ok (p', rest) ∧ PavOK p' ∧ (∀ r ∈ rest, RuleOK r) := by
  intro e
  induction e with
  | nil => intro p _ hp; exact ⟨p, [], rfl, hp, fun r hr => by cases hr⟩
  | cons r e ih =>
    intro p hok hp
    simp only [foldPrefix]
    split
    · exact ⟨p, r :: e, rfl, hp, hok⟩
    · obtain ⟨o, ho, hsok⟩ := ruleseqToSelector_ok r (hok r (by simp))
      rw [ho]
      cases o with
      | none => exact ⟨p, r :: e, rfl, hp, hok⟩
      | some sel =>
        exact ih _ (fun x hx => hok x (List.mem_cons_of_mem _ hx)) (pavOK_step hp r (hsok sel rfl))

/-- **`normalize` does not panic** on an expression within the parser's ranges -/
theorem normalizeG_ok (fx : Bool) (e : Expr) (he : ExprOK e) : ∃ r, normalizeG fx e = .ok r := by
  obtain ⟨p, rest, hf, hp, _⟩ := foldPrefix_ok e Paving.empty he pavOK_empty
  obtain ⟨rs, hrs⟩ := canonicalToSeq_ok fx p hp
  exact ⟨rs ++ rest, by simp [normalizeG, hf, hrs]⟩

/-! ## `canonical_to_seq` is semantic, `normalize` is idempotent (C13) -/

theorem emitRule_snd (fx : Bool) (dc dc' : DaysCovered) (v : Val) (sel : CanonicalSelector) (r : Rule)
    (h : emitRule fx dc v sel = .ok (r, dc')) : dc' = Paving.set dc sel.tail true := by
  unfold emitRule at h
  simp only at h
  repeat' (split at h <;> try cases h)
  rfl

theorem emitRule_fst_congr (fx : Bool) (dc dcq : DaysCovered) (v : Val) (sel : CanonicalSelector)
    (hv : Paving.isValG fx dc sel.tail false = Paving.isValG fx dcq sel.tail false) :
    (emitRule fx dc v sel).map Prod.fst = (emitRule fx dcq v sel).map Prod.fst := by
  unfold emitRule
  simp only [hv]
  repeat' (split <;> try rfl)

/-- the repaired `is_val` only looks at the function `days_covered` denotes -/
theorem isVal_congr (dc dcq : DaysCovered) (hd : LawfulPaving.WF dc) (hq : LawfulPaving.WF dcq)
    (h : ∀ y, Paving.get dc y = Paving.get dcq y) (s : DaySel4) :
    Paving.isValG true dc s false = Paving.isValG true dcq s false := by
  have i1 := isValFixed_iff dc hd s false (Or.inl rfl)
  have i2 := isValFixed_iff dcq hq s false (Or.inl rfl)
  simp only [isValFixed] at i1 i2
  cases h1 : Paving.isValG true dc s false with
  | true =>
    have := i1.mp h1
    exact (i2.mpr (fun x hx => by rw [← h]; exact this x hx)).symm
  | false =>
    cases h2 : Paving.isValG true dcq s false with
    | false => rfl
    | true =>
      have := i2.mp h2
      have := i1.mpr (fun x hx => by rw [h]; exact this x hx)
      rw [h1] at this; cases this

theorem canonicalToSeqG_sem : ∀ (p : Canonical) (dc : DaysCovered) (live : List Point5)
    (q : Canonical) (dcq : DaysCovered) (liveq : List Point5) (g gq),
    PavOK p → PavOK q → LawfulPaving.WF dc → LawfulPaving.WF dcq →
    (∀ x, Paving.get p x = Paving.get q x) → (∀ y, Paving.get dc y = Paving.get dcq y) →
    LiveInv g p live → LiveInv gq q liveq →
    canonicalToSeqG true p dc live = canonicalToSeqG true q dcq liveq := by
  intro p dc live
  induction p, dc, live using canonicalToSeqG.induct (fx := true) with
  | case1 p dc live hpop =>
    intro q dcq liveq g gq hp hq _ _ hpq _ _ _
    have hs := popKinds_sem true p q hp.1 hq.1 hpq
    rw [hpop] at hs
    have hq' : popKinds true q = none := by
      cases h : popKinds true q with
      | none => rfl
      | some r => rw [h] at hs; simp at hs
    rw [canonicalToSeqG, canonicalToSeqG, hpop, hq']
  | case2 p dc live v sel p' hpop hlt e hemit =>
    intro q dcq liveq g gq hp _ _ _ _ _ _ _
    obtain ⟨_, _, hex, _, _, hsok, hssep⟩ := popKinds_some true p p' v sel hp hpop
    obtain ⟨r0, he0, _⟩ := emitRule_ok true dc v sel hsok hssep hex
    rw [he0] at hemit; cases hemit
  | case3 p dc live v sel p' hpop hlt r dc' hemit e hrec _ =>
    intro q dcq liveq g gq hp _ _ _ _ _ hl _
    obtain ⟨hp', _⟩ := popKinds_some true p p' v sel hp hpop
    obtain ⟨rs, hrs⟩ := canonicalToSeqG_ok true g p' dc' _ hp' (popKinds_live_lt true g p p' v sel hp.1 live hl hpop).2
    rw [hrs] at hrec; cases hrec
  | case4 p dc live v sel p' hpop hlt r dc' hemit rs' hrec ih =>
    intro q dcq liveq g gq hp hq hdc hdcq hpq hdd hl hlq
    have hs := popKinds_sem true p q hp.1 hq.1 hpq
    rw [hpop] at hs
    obtain ⟨q', hq'⟩ : ∃ q', popKinds true q = some ((v, sel), q') := by
      cases h : popKinds true q with
      | none => rw [h] at hs; simp at hs
      | some r2 =>
        obtain ⟨⟨v2, sel2⟩, q2⟩ := r2
        rw [h] at hs
        simp only [Option.map_some, Option.some.injEq, Prod.mk.injEq] at hs
        obtain ⟨rfl, rfl⟩ := hs
        exact ⟨q2, rfl⟩
    obtain ⟨hp', _, _, _, hgetp, _, _⟩ := popKinds_some true p p' v sel hp hpop
    obtain ⟨hq2, _, _, _, hgetq, _, _⟩ := popKinds_some true q q' v sel hq hq'
    obtain ⟨hltq, hlq'⟩ := popKinds_live_lt true gq q q' v sel hq.1 liveq hlq hq'
    obtain ⟨_, hl'⟩ := popKinds_live_lt true g p p' v sel hp.1 live hl hpop
    -- the emitted rule is the same
    have hvc := isVal_congr dc dcq hdc hdcq hdd sel.tail
    have hfc := emitRule_fst_congr true dc dcq v sel hvc
    rw [hemit] at hfc
    obtain ⟨dcq', hemq⟩ : ∃ dcq', emitRule true dcq v sel = .ok (r, dcq') := by
      cases h : emitRule true dcq v sel with
      | error e => rw [h] at hfc; simp [Except.map] at hfc
      | ok r2 =>
        rw [h] at hfc
        simp only [Except.map, Except.ok.injEq] at hfc
        obtain ⟨r2a, r2b⟩ := r2
        simp only at hfc
        subst hfc
        exact ⟨r2b, rfl⟩
    have hdc' := emitRule_snd true dc dc' v sel r hemit
    have hdcq' := emitRule_snd true dcq dcq' v sel r hemq
    have hrec' := ih q' dcq' (stillLive q' liveq) g gq hp' hq2
      (by rw [hdc']; exact LawfulPaving.wf_set _ _ _ hdc)
      (by rw [hdcq']; exact LawfulPaving.wf_set _ _ _ hdcq)
      (fun x => by rw [hgetp x, hgetq x, hpq x])
      (fun y => by rw [hdc', hdcq', LawfulPaving.get_set _ _ _ _ hdc, LawfulPaving.get_set _ _ _ _ hdcq, hdd y])
      hl' hlq'
    rw [canonicalToSeqG, canonicalToSeqG, hpop, hq']
    simp only [hlt, hltq, dite_true, hemit, hemq, hrec']
  | case5 p dc live v sel p' hpop hnlt =>
    intro q dcq liveq g gq hp _ _ _ _ _ hl _
    exact absurd (popKinds_live_lt true g p p' v sel hp.1 live hl hpop).1 hnlt

theorem liveInv_init (P : Canonical) : LiveInv (Paving.cutsOf P) P (stillLive P (gridOf P)) := by
  refine ⟨LawfulPaving.cutsIn_cutsOf P, ?_⟩
  intro x hx hne
  simp only [stillLive, gridOf, List.mem_filter]
  exact ⟨hx, by simpa using hne⟩

/-- **`canonical_to_seq` is semantic**: two pavings that denote the same function are turned into
the same rule sequence, whatever their cuts -/
theorem canonicalToSeq_sem (P Q : Canonical) (hP : PavOK P) (hQ : PavOK Q)
    (h : ∀ x, Paving.get P x = Paving.get Q x) : canonicalToSeq true P = canonicalToSeq true Q := by
  unfold canonicalToSeq
  exact canonicalToSeqG_sem P _ _ Q _ _ _ _ hP hQ LawfulPaving.wf_empty LawfulPaving.wf_empty h (fun _ => rfl)
    (liveInv_init P) (liveInv_init Q)

/-- **C13, idempotence** of the repaired `normalize` on expressions within the parser's ranges -/
theorem normalizeG_idem (e n : Expr) (he : ExprOK e) (h : normalizeG true e = .ok n) : normalizeG true n = .ok n := by
  unfold normalizeG at h
  split at h
  · cases h
  · rename_i P rest hfold
    split at h
    · cases h
    · rename_i rs hrs
      cases h
      obtain ⟨pre, rfl, hfr, hst⟩ := foldPrefix_split e Paving.empty P rest hfold
      have hP : PavOK P := pavOK_foldRules pre _ _ (fun r hr => he r (List.mem_append_left _ hr)) pavOK_empty hfr
      obtain ⟨P2, hf2, hP2, hget, _⟩ := foldback P hP rs hrs
      have hfold2 := foldPrefix_of_foldRules rs Paving.empty P2 rest hf2 hst
      have hsem := canonicalToSeq_sem P2 P hP2 hP hget
      unfold normalizeG
      rw [hfold2]
      simp only [hsem, hrs]

/-! ## a kernel-evaluable copy of `canonical_to_seq` (fuel instead of well-founded recursion), used only
to evaluate `normalize` on concrete witnesses with `decide` -/

def canonicalToSeqF (fx : Bool) : Nat → Canonical → DaysCovered → List Point5 → Option (NM (List Rule))
  | 0, _, _, _ => none
  | n + 1, p, dc, live =>
    match popKinds fx p with
    | none => some (.ok [])
    | some ((v, sel), p') =>
      if (stillLive p' live).length < live.length then
        match emitRule fx dc v sel with
        | .error e => some (.error e)
        | .ok (r, dc') =>
          match canonicalToSeqF fx n p' dc' (stillLive p' live) with
          | none => none
          | some (.error e) => some (.error e)
          | some (.ok rs) => some (.ok (r :: rs))
      else some (.error "model: canonical_to_seq made no progress (unbounded iteration)")

theorem canonicalToSeqF_sound (fx : Bool) : ∀ (n : Nat) (p : Canonical) (dc : DaysCovered) (live : List Point5)
    (r : NM (List Rule)), canonicalToSeqF fx n p dc live = some r → canonicalToSeqG fx p dc live = r := by
  intro n
  induction n with
  | zero => intro p dc live r h; cases h
  | succ n ih =>
    intro p dc live r h
    rw [canonicalToSeqG]
    simp only [canonicalToSeqF] at h
    split at h
    · rename_i hpop
      rw [hpop]; cases h; rfl
    · rename_i v sel p' hpop
      rw [hpop]
      simp only
      split at h
      · rename_i hlt
        simp only [hlt, dite_true]
        split at h
        · rename_i e he
          rw [he]; cases h; rfl
        · rename_i r0 dc' he
          rw [he]
          simp only
          split at h
          · cases h
          · rename_i e hrec
            rw [ih _ _ _ _ hrec]; cases h; rfl
          · rename_i rs hrec
            rw [ih _ _ _ _ hrec]; cases h; rfl
      · rename_i hlt
        simp only [hlt, dite_false]
        cases h; rfl

/-- `normalize` with fuel (kernel-evaluable) -/
def normalizeF (fx : Bool) (fuel : Nat) (e : Expr) : Option (NM Expr) :=
  match foldPrefix Paving.empty e with
  | .error p => some (.error p)
  | .ok (p, rest) =>
    match canonicalToSeqF fx fuel p Paving.empty (stillLive p (gridOf p)) with
    | none => none
    | some (.error p) => some (.error p)
    | some (.ok rs) => some (.ok (rs ++ rest))

theorem normalizeF_sound (fx : Bool) (fuel : Nat) (e : Expr) (r : NM Expr) (h : normalizeF fx fuel e = some r) :
    normalizeG fx e = r := by
  unfold normalizeF at h
  unfold normalizeG
  split at h
  · rename_i p hf; rw [hf]; cases h; rfl
  · rename_i p rest hf
    rw [hf]
    simp only
    split at h
    · cases h
    · rename_i e' hc
      rw [canonicalToSeq, canonicalToSeqF_sound fx fuel _ _ _ _ hc]; cases h; rfl
    · rename_i rs hc
      rw [canonicalToSeq, canonicalToSeqF_sound fx fuel _ _ _ _ hc]; cases h; rfl

/-- comparison of a result with an expected normal form, as a `Bool` for `decide` -/
def isOkEq (r : Option (NM Expr)) (x : Expr) : Bool :=
  match r with
  | some (.ok y) => decide (y = x)
  | _ => false

theorem normalizeG_of_F (fx : Bool) (fuel : Nat) (e x : Expr) (h : isOkEq (normalizeF fx fuel e) x = true) :
    normalizeG fx e = .ok x := by
  unfold isOkEq at h
  split at h
  · rename_i y hy
    have := normalizeF_sound fx fuel e _ hy
    rw [this]
    simp only [decide_eq_true_eq] at h
    rw [h]
  · cases h

end OH.Proofs.Normalize
