import OH.Model.RustIter
import OH.Proofs.RustInt
/-
Lemmas about the bounded-iteration support library (`OH/Model/RustIter.lean`): a consumer whose
composed closure is a value on every element of the list is the corresponding pure list function
(`List.findSome?`, the sum of the `map`), so that the proofs about generated iterator chains are: unfold,
prove the closure's outcome element by element (`rs_ok` + the tie theorems of the callees), then a pure
list induction against the hand-written model.
-/
namespace OH.Model.RustInt

theorem enumFrom_length {α : Type} (l : List α) (n : Int) : (enumFrom n l).length = l.length := by
  induction l generalizing n with
  | nil => rfl
  | cons a as ih => simp [enumFrom, ih]

/-- the elements of `enumerate`: counter within the bounds, element of the list -/
theorem mem_enumFrom {α : Type} {l : List α} {n i : Int} {a : α} (h : (i, a) ∈ enumFrom n l) :
    n ≤ i ∧ i < n + l.length ∧ a ∈ l := by
  induction l generalizing n with
  | nil => simp [enumFrom] at h
  | cons b bs ih =>
    simp only [enumFrom, List.mem_cons, Prod.mk.injEq] at h
    rcases h with ⟨h1, h2⟩ | h
    · subst h1 h2
      simp only [List.length_cons, List.mem_cons, true_or, and_true]
      omega
    · obtain ⟨h1, h2, h3⟩ := ih h
      simp only [List.length_cons, List.mem_cons]
      exact ⟨by omega, by omega, Or.inr h3⟩

theorem mem_enumerate {α : Type} {l : List α} {i : Int} {a : α} (h : (i, a) ∈ enumerate l) :
    0 ≤ i ∧ i < l.length ∧ a ∈ l := by
  obtain ⟨h1, h2, h3⟩ := mem_enumFrom (n := 0) h
  exact ⟨h1, by omega, h3⟩

theorem enumFrom_map {α β : Type} (f : α → β) (l : List α) (n : Int) :
    enumFrom n (l.map f) = (enumFrom n l).map fun p => (p.1, f p.2) := by
  induction l generalizing n with
  | nil => rfl
  | cons a as ih => simp [enumFrom, ih]

/-- a slice index within the length -/
theorem sliceFrom_ok {α : Type} {l : List α} {start : Int} (h : start.toNat ≤ l.length) :
    sliceFrom l start = .ok (l.drop start.toNat) := by
  unfold sliceFrom; exact if_pos h

theorem sliceFrom_panic {α : Type} {l : List α} {start : Int} (h : ¬ start.toNat ≤ l.length) :
    sliceFrom l start = .error (.panic "range start index out of range for slice") := by
  unfold sliceFrom; exact if_neg h

/-- `find_map` with a closure that is a value `g a` on every element: `List.findSome?` -/
theorem findMapM_ok {α β : Type} {f : α → R (Option β)} {g : α → Option β} (l : List α)
    (h : ∀ a ∈ l, f a = .ok (g a)) : findMapM f l = .ok (l.findSome? g) := by
  induction l with
  | nil => rfl
  | cons a as ih =>
    rw [findMapM, h a (List.mem_cons_self ..), bnd_ok, List.findSome?_cons]
    cases g a with
    | some b => rfl
    | none => exact ih fun x hx => h x (List.mem_cons_of_mem _ hx)

/-- `map(f).sum()` with a closure that is a value `g a` between `0` and `B` on every element, when
even `acc + B * length` fits the type: the sum of the list, no overflow -/
theorem sumFromM_ok {α : Type} (t : Ty) (s : String) {f : α → R Int} {g : α → Int} (B : Int) (l : List α)
    (acc : Int) (h : ∀ a ∈ l, f a = .ok (g a) ∧ 0 ≤ g a ∧ g a ≤ B) (h0 : t.min ≤ acc)
    (hB : acc + B * l.length ≤ t.max) : sumFromM t s f acc l = .ok (acc + (l.map g).sum) := by
  induction l generalizing acc with
  | nil => simp [sumFromM]
  | cons a as ih =>
    obtain ⟨e, g0, gB⟩ := h a (List.mem_cons_self ..)
    have hlen : ((a :: as).length : Int) = as.length + 1 := by simp
    rw [hlen, Int.mul_add, Int.mul_one] at hB
    have hnn : 0 ≤ B * (as.length : Int) := Int.mul_nonneg (by omega) (by omega)
    rw [sumFromM, e, bnd_ok, add_ok (by unfold InRange; omega), bnd_ok,
      ih (acc + g a) (fun x hx => h x (List.mem_cons_of_mem _ hx)) (by omega) (by omega)]
    simp only [List.map_cons, List.sum_cons]
    congr 1
    omega

theorem sumM_ok {α : Type} (t : Ty) (s : String) {f : α → R Int} {g : α → Int} (B : Int) (l : List α)
    (h : ∀ a ∈ l, f a = .ok (g a) ∧ 0 ≤ g a ∧ g a ≤ B) (h0 : t.min ≤ 0)
    (hB : B * l.length ≤ t.max) : sumM t s f l = .ok ((l.map g).sum) := by
  unfold sumM
  rw [sumFromM_ok t s B l 0 h h0 (by omega)]
  simp

theorem sum_map_nonneg {α : Type} (g : α → Int) (l : List α) (h : ∀ a ∈ l, 0 ≤ g a) : 0 ≤ (l.map g).sum := by
  induction l with
  | nil => simp
  | cons a as ih =>
    have := h a (List.mem_cons_self ..)
    have := ih fun x hx => h x (List.mem_cons_of_mem _ hx)
    simp only [List.map_cons, List.sum_cons]
    omega

/-- `map(f).sum()` with a closure that is a non-negative value on every element: the sum if it fits the
type, an error outcome (the overflow of one of the additions) if it does not -/
theorem sumFromM_nonneg {α : Type} (t : Ty) (s : String) {f : α → R Int} {g : α → Int} (l : List α) (acc : Int)
    (h : ∀ a ∈ l, f a = .ok (g a) ∧ 0 ≤ g a) (h0 : t.min ≤ acc) (h1 : acc ≤ t.max) :
    (acc + (l.map g).sum ≤ t.max → sumFromM t s f acc l = .ok (acc + (l.map g).sum)) ∧
    (t.max < acc + (l.map g).sum → ∃ e, sumFromM t s f acc l = .error e) := by
  induction l generalizing acc with
  | nil => simp [sumFromM]; omega
  | cons a as ih =>
    obtain ⟨e, g0⟩ := h a (List.mem_cons_self ..)
    have hrest := sum_map_nonneg g as fun x hx => (h x (List.mem_cons_of_mem _ hx)).2
    simp only [List.map_cons, List.sum_cons]
    rw [sumFromM, e, bnd_ok]
    by_cases hfit : acc + g a ≤ t.max
    · rw [add_ok (by unfold InRange; omega), bnd_ok]
      obtain ⟨i1, i2⟩ := ih (acc + g a) (fun x hx => h x (List.mem_cons_of_mem _ hx)) (by omega) hfit
      refine ⟨fun hle => ?_, fun hgt => i2 (by omega)⟩
      rw [i1 (by omega)]
      congr 1
      omega
    · rw [add_overflow (by unfold InRange; omega), bnd_error]
      exact ⟨fun hle => by omega, fun _ => ⟨_, rfl⟩⟩

end OH.Model.RustInt
