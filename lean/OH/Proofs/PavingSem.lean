import OH.Proofs.Paving
/-
`pop_filter` is *semantic*: on two pavings that denote the same function (`get`), whatever their
cuts, it returns the same value and the same selector (`popFilter_semantic`).  This is the lemma behind
idempotence of `normalize` (C13): the second normalisation rebuilds a paving with other cuts but the
same `get`, hence re-emits the same rules.

The selector is determined because `pop_filter` returns, at each level, the *canonical* list of ranges
of a set of points: strictly increasing, non-empty, non-adjacent intervals (`Sep`), and such a list is
determined by its members (`sep_unique`).
-/
namespace OH.Proofs.Paving
open OH.Model OH.Model.Norm Std

set_option linter.unusedSectionVars false

section sep
variable {T : Type}
variable [LT T] [LE T] [DecidableLT T] [DecidableLE T] [DecidableEq T] [IsLinearOrder T] [LawfulOrderLT T]

/-- canonical range list: non-empty ranges, increasing, with a gap between consecutive ranges -/
def Sep : List (T × T) → Prop
  | [] => True
  | [r] => r.1 < r.2
  | r :: r' :: rest => r.1 < r.2 ∧ r.2 < r'.1 ∧ Sep (r' :: rest)

theorem sep_head : ∀ {r : T × T} {rest : List (T × T)}, Sep (r :: rest) → r.1 < r.2 := by
  intro r rest h
  cases rest with
  | nil => exact h
  | cons r' rest => exact h.1

theorem sep_tail : ∀ {r : T × T} {rest : List (T × T)}, Sep (r :: rest) → Sep rest := by
  intro r rest h
  cases rest with
  | nil => trivial
  | cons r' rest => exact h.2.2

theorem sep_lb : ∀ {rest : List (T × T)} {r : T × T}, Sep (r :: rest) → ∀ r' ∈ rest, r.2 < r'.1 := by
  intro rest
  induction rest with
  | nil => intro r _ r' hr'; cases hr'
  | cons r1 rest ih =>
    intro r h r' hr'
    have h1 : r.2 < r1.1 := h.2.1
    rcases List.mem_cons.mp hr' with rfl | hr''
    · exact h1
    · have := ih h.2.2 r' hr''
      have := sep_head h.2.2
      grind

theorem sep_cons {r : T × T} {l : List (T × T)} (hr : r.1 < r.2) (hl : Sep l) (hlb : ∀ r' ∈ l, r.2 < r'.1) :
    Sep (r :: l) := by
  cases l with
  | nil => exact hr
  | cons r' rest => exact ⟨hr, hlb r' (by simp), hl⟩

theorem inRanges_ge_of_sep {r : T × T} {rest : List (T × T)} (h : Sep (r :: rest)) {a : T}
    (ha : inRanges (r :: rest) a = true) : r.1 ≤ a := by
  rw [inRanges_cons] at ha
  rcases ha with ha | ha
  · exact ha.1
  · simp only [inRanges, List.any_eq_true, Bool.and_eq_true, decide_eq_true_eq] at ha
    obtain ⟨r', hr', h1, _⟩ := ha
    have := sep_lb h r' hr'
    have := sep_head h
    grind

theorem not_inRanges_of_lt {l : List (T × T)} {b a : T} (hlb : ∀ r' ∈ l, b < r'.1) (ha : a ≤ b) :
    inRanges l a = false := by
  cases h : inRanges l a with
  | false => rfl
  | true =>
    simp only [inRanges, List.any_eq_true, Bool.and_eq_true, decide_eq_true_eq] at h
    obtain ⟨r', hr', h1, _⟩ := h
    have := hlb r' hr'
    grind

theorem inRanges_rest_iff {r : T × T} {rest : List (T × T)} (h : Sep (r :: rest)) (a : T) :
    inRanges rest a = true ↔ inRanges (r :: rest) a = true ∧ r.2 ≤ a := by
  rw [inRanges_cons]
  constructor
  · intro ha
    refine ⟨Or.inr ha, ?_⟩
    simp only [inRanges, List.any_eq_true, Bool.and_eq_true, decide_eq_true_eq] at ha
    obtain ⟨r', hr', h1, _⟩ := ha
    have := sep_lb h r' hr'
    grind
  · rintro ⟨h1 | h1, h2⟩
    · grind
    · exact h1

/-- a canonical range list is determined by its members -/
theorem sep_unique : ∀ (l1 l2 : List (T × T)), Sep l1 → Sep l2 →
    (∀ a, inRanges l1 a = true ↔ inRanges l2 a = true) → l1 = l2 := by
  intro l1
  induction l1 with
  | nil =>
    intro l2 _ h2 hm
    cases l2 with
    | nil => rfl
    | cons r rest =>
      have hr := sep_head h2
      have : inRanges (r :: rest) r.1 = true := (inRanges_cons r rest r.1).mpr (Or.inl ⟨by grind, hr⟩)
      have := (hm r.1).mpr this
      simp [inRanges] at this
  | cons r1 rest1 ih =>
    intro l2 h1 h2 hm
    cases l2 with
    | nil =>
      have hr := sep_head h1
      have : inRanges (r1 :: rest1) r1.1 = true := (inRanges_cons r1 rest1 r1.1).mpr (Or.inl ⟨by grind, hr⟩)
      have := (hm r1.1).mp this
      simp [inRanges] at this
    | cons r2 rest2 =>
      have hr1 := sep_head h1
      have hr2 := sep_head h2
      have m1 : inRanges (r1 :: rest1) r1.1 = true := (inRanges_cons _ _ _).mpr (Or.inl ⟨by grind, hr1⟩)
      have m2 : inRanges (r2 :: rest2) r2.1 = true := (inRanges_cons _ _ _).mpr (Or.inl ⟨by grind, hr2⟩)
      have g1 := inRanges_ge_of_sep h2 ((hm _).mp m1)
      have g2 := inRanges_ge_of_sep h1 ((hm _).mpr m2)
      have hfst : r1.1 = r2.1 := by grind
      -- the ends: the end of the first range is not a member
      have n1 : inRanges (r1 :: rest1) r1.2 = false := by
        cases hc : inRanges (r1 :: rest1) r1.2 with
        | false => rfl
        | true =>
          rw [inRanges_cons] at hc
          rcases hc with hc | hc
          · grind
          · rw [not_inRanges_of_lt (sep_lb h1) (by grind)] at hc; cases hc
      have n2 : inRanges (r2 :: rest2) r2.2 = false := by
        cases hc : inRanges (r2 :: rest2) r2.2 with
        | false => rfl
        | true =>
          rw [inRanges_cons] at hc
          rcases hc with hc | hc
          · grind
          · rw [not_inRanges_of_lt (sep_lb h2) (by grind)] at hc; cases hc
      have hsnd : r1.2 = r2.2 := by
        by_cases hlt : r1.2 < r2.2
        · have : inRanges (r2 :: rest2) r1.2 = true := (inRanges_cons _ _ _).mpr (Or.inl ⟨by grind, hlt⟩)
          have := (hm _).mpr this
          rw [n1] at this; cases this
        · by_cases hgt : r2.2 < r1.2
          · have : inRanges (r1 :: rest1) r2.2 = true := (inRanges_cons _ _ _).mpr (Or.inl ⟨by grind, hgt⟩)
            have := (hm _).mp this
            rw [n2] at this; cases this
          · grind
      have hr : r1 = r2 := Prod.ext hfst hsnd
      subst hr
      congr 1
      apply ih rest2 (sep_tail h1) (sep_tail h2)
      intro a
      rw [inRanges_rest_iff h1, inRanges_rest_iff h2, hm a]

end sep

section scan
variable {T U V S Pt G : Type}
variable [LT T] [LE T] [DecidableLT T] [DecidableLE T] [DecidableEq T] [IsLinearOrder T] [LawfulOrderLT T]
variable [HasDflt V] [DecidableEq V] [Paving V S Pt G U] [LawfulPaving V S Pt G U]

/-- the collected runs are canonical and start at or after the pending run / the next cut -/
theorem scanRuns_sep (fx : Bool) (t : S) (v : V) : ∀ (rest : List T) (us : List U) (c : T) (run : Option T),
    Shape (c :: rest) us → (∀ s, run = some s → s < c) →
    Sep (scanRuns fx t v run (c :: rest) us) ∧
    ∀ r ∈ scanRuns fx t v run (c :: rest) us, run.getD c ≤ r.1 := by
  intro rest
  induction rest with
  | nil =>
    intro us c run hs hrun
    have := shape_nil_cols hs; subst this
    cases run with
    | none => simp [scanRuns, Sep]
    | some s =>
      simp only [scanRuns, Sep, List.mem_singleton, Option.getD_some, forall_eq]
      exact ⟨hrun s rfl, by grind⟩
  | cons c1 rest ih =>
    intro us c run hs hrun
    cases us with
    | nil => simp [Shape] at hs
    | cons u us =>
      simp only [Shape] at hs
      simp only [scanRuns]
      split
      · have hpre : ∀ s, some (run.getD c) = some s → s < c1 := by
          intro s hs'
          cases run with
          | none => simp at hs'; subst hs'; exact hs.1
          | some s0 => simp at hs'; subst hs'; have := hrun s0 rfl; grind
        obtain ⟨h1, h2⟩ := ih us c1 (some (run.getD c)) hs.2 hpre
        exact ⟨h1, fun r hr => by simpa using h2 r hr⟩
      · obtain ⟨h1, h2⟩ := ih us c1 none hs.2 (by simp)
        simp only [Option.getD_none] at h2
        cases run with
        | none =>
          simp only [List.nil_append, Option.getD_none]
          exact ⟨h1, fun r hr => by have := h2 r hr; grind⟩
        | some s =>
          simp only [List.singleton_append, Option.getD_some, List.mem_cons]
          refine ⟨sep_cons (hrun s rfl) h1 (fun r hr => by have := h2 r hr; grind), ?_⟩
          rintro r (rfl | hr)
          · grind
          · have := h2 r hr
            have := hrun s rfl
            grind

/-- every point of the pending run and of a later column that has the value is collected -/
theorem scanRuns_complete (fx : Bool) (t : S) (v : V) : ∀ (rest : List T) (us : List U) (c : T) (run : Option T),
    Shape (c :: rest) us → (∀ s, run = some s → s < c) → ∀ a,
      ((∃ s, run = some s ∧ s ≤ a ∧ a < c) ∨
       (∃ u, colAt (c :: rest) us a = some u ∧ Paving.isValG fx u t v = true)) →
      inRanges (scanRuns fx t v run (c :: rest) us) a = true := by
  intro rest
  induction rest with
  | nil =>
    intro us c run hs hrun a ha
    have := shape_nil_cols hs; subst this
    rcases ha with ⟨s, rfl, h1, h2⟩ | ⟨u, hu, _⟩
    · simp [scanRuns, inRanges, h1, h2]
    · simp [colAt] at hu
  | cons c1 rest ih =>
    intro us c run hs hrun a ha
    cases us with
    | nil => simp [Shape] at hs
    | cons u us =>
      simp only [Shape] at hs
      simp only [scanRuns]
      split
      · rename_i hval
        have hpre : ∀ s, some (run.getD c) = some s → s < c1 := by
          intro s hs'
          cases run with
          | none => simp at hs'; subst hs'; exact hs.1
          | some s0 => simp at hs'; subst hs'; have := hrun s0 rfl; grind
        apply ih us c1 (some (run.getD c)) hs.2 hpre a
        rcases ha with ⟨s, rfl, h1, h2⟩ | ⟨u', hu', hv'⟩
        · exact Or.inl ⟨s, rfl, h1, by grind⟩
        · simp only [colAt] at hu'
          split at hu'
          · rename_i hx
            refine Or.inl ⟨run.getD c, rfl, ?_, hx.2⟩
            cases run with
            | none => exact hx.1
            | some s0 => have := hrun s0 rfl; simp only [Option.getD_some]; grind
          · exact Or.inr ⟨u', hu', hv'⟩
      · rename_i hval
        rw [inRanges_append]
        rcases ha with ⟨s, rfl, h1, h2⟩ | ⟨u', hu', hv'⟩
        · exact Or.inl (by simp [inRanges, h1, h2])
        · simp only [colAt] at hu'
          split at hu'
          · cases hu'; exact absurd hv' hval
          · exact Or.inr (ih us c1 none hs.2 (by simp) a (Or.inr ⟨u', hu', hv'⟩))

/-- what `popCols` returns, in the form needed to compare two pavings: the popped column `u` spans
`[lo, hi)`, no earlier column pops, and the ranges are the canonical list of the points from `lo` on
whose column has the value on the tail selector -/
theorem popCols_sem (fx : Bool) (f : V → Bool) :
    ∀ (cs : List T) (us : List U) (v : V) (t : S) (rg : List (T × T)) (us' : List U),
    Shape cs us → popCols fx f cs us = some (v, t, rg, us') →
    ∃ lo hi u u', lo < hi ∧ (∀ a, lo ≤ a → a < hi → colAt cs us a = some u) ∧
      Paving.popFilterG fx u f = some ((v, t), u') ∧
      (∀ a w, a < lo → colAt cs us a = some w → Paving.popFilterG fx w f = none) ∧
      Sep rg ∧
      (∀ a, inRanges rg a = true ↔
        (lo ≤ a ∧ a < hi) ∨ (hi ≤ a ∧ ∃ w, colAt cs us a = some w ∧ Paving.isValG fx w t v = true)) := by
  intro cs
  induction cs with
  | nil => intro us v t rg us' _ h; simp [popCols] at h
  | cons c rest ih =>
    intro us v t rg us' hs h
    cases us with
    | nil => simp [popCols] at h
    | cons u us =>
      cases rest with
      | nil => simp [Shape] at hs
      | cons c1 rest =>
        simp only [Shape] at hs
        simp only [popCols] at h
        split at h
        · rename_i v0 t0 u0 hpop
          simp only [Option.some.injEq, Prod.mk.injEq] at h
          obtain ⟨rfl, rfl, rfl, rfl⟩ := h
          have hrun : ∀ s, some c = some s → s < c1 := by intro s hs'; cases hs'; exact hs.1
          refine ⟨c, c1, u, u0, hs.1, ?_, hpop, ?_, (scanRuns_sep fx t0 v0 rest us c1 (some c) hs.2 hrun).1, ?_⟩
          · intro a h1 h2
            simp only [colAt]; rw [if_pos ⟨h1, h2⟩]
          · intro a w ha hw
            have hs' : Shape (c :: c1 :: rest) (u :: us) := ⟨hs.1, hs.2⟩
            rw [colAt_lt_head hs' ha] at hw
            cases hw
          · intro a
            constructor
            · intro ha
              rcases scanRuns_sound fx t0 v0 rest us c1 (some c) hs.2 hrun a ha with ⟨s, hs', h1, h2⟩ | ⟨w, hw, hv⟩
              · cases hs'; exact Or.inl ⟨h1, h2⟩
              · exact Or.inr ⟨colAt_some_ge hs.2 hw, w, colAt_cons_lift hs.2 hs.1 hw, hv⟩
            · intro ha
              apply scanRuns_complete fx t0 v0 rest us c1 (some c) hs.2 hrun a
              rcases ha with ⟨h1, h2⟩ | ⟨h1, w, hw, hv⟩
              · exact Or.inl ⟨c, rfl, h1, h2⟩
              · refine Or.inr ⟨w, ?_, hv⟩
                simp only [colAt] at hw
                rw [if_neg (by grind)] at hw
                exact hw
        · rename_i hpop
          split at h
          · rename_i v1 t1 rg1 us1 hrec
            simp only [Option.some.injEq, Prod.mk.injEq] at h
            obtain ⟨rfl, rfl, rfl, rfl⟩ := h
            obtain ⟨lo, hi, w, w', hlh, hcol, hpw, hbef, hsep, hmem⟩ := ih us v1 t1 rg1 us1 hs.2 hrec
            have hclo : c1 ≤ lo := colAt_some_ge hs.2 (hcol lo (by grind) hlh)
            refine ⟨lo, hi, w, w', hlh, ?_, hpw, ?_, hsep, ?_⟩
            · intro a h1 h2
              exact colAt_cons_lift hs.2 hs.1 (hcol a h1 h2)
            · intro a x ha hx
              simp only [colAt] at hx
              split at hx
              · cases hx; exact hpop
              · exact hbef a x ha hx
            · intro a
              rw [hmem a]
              constructor
              · rintro (h1 | ⟨h1, x, hx, hv⟩)
                · exact Or.inl h1
                · exact Or.inr ⟨h1, x, colAt_cons_lift hs.2 hs.1 hx, hv⟩
              · rintro (h1 | ⟨h1, x, hx, hv⟩)
                · exact Or.inl h1
                · refine Or.inr ⟨h1, x, ?_, hv⟩
                  simp only [colAt] at hx
                  rw [if_neg (by grind)] at hx
                  exact hx
          · cases h

end scan

/-- `pop_filter` is determined by the function the paving denotes, and its selector is canonical -/
class SemPaving (V S Pt G : outParam Type) (P : Type) [HasDflt V] [DecidableEq V]
    [Paving V S Pt G P] [LawfulPaving V S Pt G P] where
  SelSep : S → Prop
  pop_sep : ∀ fx (p : P) (f : V → Bool) v s p', LawfulPaving.WF p → f HasDflt.dflt = false →
    Paving.popFilterG fx p f = some ((v, s), p') → SelSep s
  pop_sem : ∀ fx (p q : P) (f : V → Bool), LawfulPaving.WF p → LawfulPaving.WF q → f HasDflt.dflt = false →
    (∀ x, Paving.get p x = Paving.get q x) →
    (Paving.popFilterG fx p f).map (fun r => r.1) = (Paving.popFilterG fx q f).map (fun r => r.1)

section cellsem
variable {V : Type} [HasDflt V] [DecidableEq V]

instance : SemPaving V Unit Unit Unit (Cell V) where
  SelSep _ := True
  pop_sep _ _ _ _ _ _ _ _ _ := trivial
  pop_sem fx p q f _ _ _ h := by
    have : p.inner = q.inner := h ()
    simp [Paving.popFilterG, this]

end cellsem

section dimsem
variable {T U V S Pt G : Type}
variable [LT T] [LE T] [DecidableLT T] [DecidableLE T] [DecidableEq T] [IsLinearOrder T] [LawfulOrderLT T]
variable [HasDflt V] [DecidableEq V] [Paving V S Pt G U] [LawfulPaving V S Pt G U] [SemPaving V S Pt G U]

/-- pointwise characterisation of the ranges `popCols` returns -/
theorem popCols_ranges_sem (fx : Bool) (f : V → Bool) (hf : f HasDflt.dflt = false) (d : Dim T U) (hd : DimWF d)
    {v : V} {t : S} {rg : List (T × T)} {lo hi : T} {u u' : U}
    (hlh : lo < hi) (hcol : ∀ a, lo ≤ a → a < hi → colAt d.cuts d.cols a = some u)
    (hpu : Paving.popFilterG fx u f = some ((v, t), u'))
    (hmem : ∀ a, inRanges rg a = true ↔
        (lo ≤ a ∧ a < hi) ∨ (hi ≤ a ∧ ∃ w, colAt d.cuts d.cols a = some w ∧ Paving.isValG fx w t v = true))
    (a : T) :
    inRanges rg a = true ↔ lo ≤ a ∧ ∀ y, Paving.mem (P := U) y t = true → Dim.get d (a, y) = v := by
  have hu : u ∈ d.cols := colAt_mem (hcol lo (by grind) hlh)
  obtain ⟨_, hfv, ⟨y0, hy0⟩, hval, _⟩ := LawfulPaving.pop_some fx u f v t u' (hd.2 u hu) hf hpu
  have hvd : v ≠ HasDflt.dflt := by intro h'; rw [h', hf] at hfv; cases hfv
  have hfix : ∀ w : U, Paving.isValG fx w t v = Paving.isValG true w t v := by
    intro w
    cases fx
    · exact LawfulPaving.isVal_nondflt w t v hvd
    · rfl
  rw [hmem a]
  constructor
  · rintro (⟨h1, h2⟩ | ⟨h1, w, hw, hv⟩)
    · refine ⟨h1, fun y hy => ?_⟩
      rw [get_of_colAt_some (x := (a, y)) (hcol a h1 h2)]
      exact hval y hy
    · refine ⟨by grind, fun y hy => ?_⟩
      rw [get_of_colAt_some (x := (a, y)) hw]
      rw [hfix] at hv
      exact LawfulPaving.isVal_sound w t v (hd.2 w (colAt_mem hw)) hv y hy
  · rintro ⟨h1, h2⟩
    by_cases ha : a < hi
    · exact Or.inl ⟨h1, ha⟩
    · refine Or.inr ⟨by grind, ?_⟩
      cases hc : colAt d.cuts d.cols a with
      | none =>
        have := h2 y0 hy0
        rw [get_of_colAt_none (x := (a, y0)) hc] at this
        exact absurd this.symm hvd
      | some w =>
        refine ⟨w, rfl, ?_⟩
        apply LawfulPaving.isVal_complete fx w t v (hd.2 w (colAt_mem hc)) (Or.inr ⟨y0, hy0⟩)
        intro y hy
        have := h2 y hy
        rwa [get_of_colAt_some (x := (a, y)) hc] at this

/-- no point before the popped column passes the filter -/
theorem popCols_before_sem (fx : Bool) (f : V → Bool) (hf : f HasDflt.dflt = false) (d : Dim T U) (hd : DimWF d)
    {lo : T} (hbef : ∀ a w, a < lo → colAt d.cuts d.cols a = some w → Paving.popFilterG fx w f = none)
    (a : T) (ha : a < lo) (y : Pt) : f (Dim.get d (a, y)) = false := by
  cases hc : colAt d.cuts d.cols a with
  | none => rw [get_of_colAt_none (x := (a, y)) hc]; exact hf
  | some w =>
    rw [get_of_colAt_some (x := (a, y)) hc]
    exact LawfulPaving.pop_none fx w f (hd.2 w (colAt_mem hc)) hf (hbef a w ha hc) y

theorem dim_pop_sem (fx : Bool) (d e : Dim T U) (f : V → Bool) (hd : DimWF d) (he : DimWF e)
    (hf : f HasDflt.dflt = false) (hget : ∀ x : T × Pt, Dim.get d x = Dim.get e x) :
    (Dim.popFilterG fx d f).map (fun r => r.1) = (Dim.popFilterG fx e f).map (fun r => r.1) := by
  cases hpd : Dim.popFilterG fx d f with
  | none =>
    cases hpe : Dim.popFilterG fx e f with
    | none => rfl
    | some r =>
      obtain ⟨⟨v, sel⟩, e'⟩ := r
      obtain ⟨_, hfv, ⟨x, hx⟩, hval, _⟩ := dim_pop_some fx e f v sel e' he hf hpe
      have := dim_pop_none fx d f hd hf hpd x
      rw [hget x, hval x hx, hfv] at this
      cases this
  | some r =>
    obtain ⟨⟨v, sel⟩, d'⟩ := r
    cases hpe : Dim.popFilterG fx e f with
    | none =>
      obtain ⟨_, hfv, ⟨x, hx⟩, hval, _⟩ := dim_pop_some fx d f v sel d' hd hf hpd
      have := dim_pop_none fx e f he hf hpe x
      rw [← hget x, hval x hx, hfv] at this
      cases this
    | some r2 =>
      obtain ⟨⟨v2, sel2⟩, e'⟩ := r2
      simp only [Option.map_some, Option.some.injEq]
      -- unfold both pops
      unfold Dim.popFilterG at hpd hpe
      split at hpd
      · cases hpd
      · rename_i v0 t0 rg cols1 hpc1
        simp only [Option.some.injEq, Prod.mk.injEq] at hpd
        obtain ⟨⟨rfl, rfl⟩, _⟩ := hpd
        split at hpe
        · cases hpe
        · rename_i v1 t1 rg2 cols2 hpc2
          simp only [Option.some.injEq, Prod.mk.injEq] at hpe
          obtain ⟨⟨rfl, rfl⟩, _⟩ := hpe
          obtain ⟨lo, hi, u, u', hlh, hcol, hpu, hbef, hsep, hmem⟩ :=
            popCols_sem fx f d.cuts d.cols v0 t0 rg cols1 hd.1 hpc1
          obtain ⟨lo2, hi2, w, w', hlh2, hcol2, hpw, hbef2, hsep2, hmem2⟩ :=
            popCols_sem fx f e.cuts e.cols v1 t1 rg2 cols2 he.1 hpc2
          have hu : u ∈ d.cols := colAt_mem (hcol lo (by grind) hlh)
          have hw : w ∈ e.cols := colAt_mem (hcol2 lo2 (by grind) hlh2)
          obtain ⟨_, hfv, ⟨y0, hy0⟩, hval, _⟩ := LawfulPaving.pop_some fx u f v0 t0 u' (hd.2 u hu) hf hpu
          obtain ⟨_, hfv2, ⟨y2, hy2⟩, hval2, _⟩ := LawfulPaving.pop_some fx w f v1 t1 w' (he.2 w hw) hf hpw
          -- the popped columns start at the same cut
          have hlo : lo = lo2 := by
            have h1 : ¬ lo2 < lo := by
              intro hlt
              have := popCols_before_sem fx f hf d hd hbef lo2 hlt y2
              rw [hget, get_of_colAt_some (x := (lo2, y2)) (hcol2 lo2 (by grind) hlh2), hval2 y2 hy2, hfv2] at this
              cases this
            have h2 : ¬ lo < lo2 := by
              intro hlt
              have := popCols_before_sem fx f hf e he hbef2 lo hlt y0
              rw [← hget, get_of_colAt_some (x := (lo, y0)) (hcol lo (by grind) hlh), hval y0 hy0, hfv] at this
              cases this
            grind
          subst hlo
          -- the popped columns denote the same function
          have hcolget : ∀ y, Paving.get u y = Paving.get w y := by
            intro y
            have := hget (lo, y)
            rwa [get_of_colAt_some (x := (lo, y)) (hcol lo (by grind) hlh),
              get_of_colAt_some (x := (lo, y)) (hcol2 lo (by grind) hlh2)] at this
          have hsem := SemPaving.pop_sem fx u w f (hd.2 u hu) (he.2 w hw) hf hcolget
          rw [hpu, hpw] at hsem
          simp only [Option.map_some, Option.some.injEq, Prod.mk.injEq] at hsem
          obtain ⟨rfl, rfl⟩ := hsem
          -- the ranges have the same members
          have hrg : rg = rg2 := by
            apply sep_unique rg rg2 hsep hsep2
            intro a
            rw [popCols_ranges_sem fx f hf d hd hlh hcol hpu hmem a,
              popCols_ranges_sem fx f hf e he hlh2 hcol2 hpw hmem2 a]
            constructor
            · rintro ⟨h1, h2⟩; exact ⟨h1, fun y hy => by rw [← hget]; exact h2 y hy⟩
            · rintro ⟨h1, h2⟩; exact ⟨h1, fun y hy => by rw [hget]; exact h2 y hy⟩
          subst hrg
          rfl

theorem dim_pop_sep (fx : Bool) (d : Dim T U) (f : V → Bool) (v : V) (sel : PSel T S) (d' : Dim T U)
    (hd : DimWF d) (hf : f HasDflt.dflt = false) (h : Dim.popFilterG fx d f = some ((v, sel), d')) :
    Sep sel.range ∧ SemPaving.SelSep (P := U) sel.tail := by
  unfold Dim.popFilterG at h
  split at h
  · cases h
  · rename_i v0 t0 rg cols1 hpc
    simp only [Option.some.injEq, Prod.mk.injEq] at h
    obtain ⟨⟨rfl, rfl⟩, _⟩ := h
    obtain ⟨lo, hi, u, u', hlh, hcol, hpu, _, hsep, _⟩ := popCols_sem fx f d.cuts d.cols v0 t0 rg cols1 hd.1 hpc
    have hu : u ∈ d.cols := colAt_mem (hcol lo (by grind) hlh)
    exact ⟨hsep, SemPaving.pop_sep fx u f v0 t0 u' (hd.2 u hu) hf hpu⟩

instance : SemPaving V (PSel T S) (T × Pt) (List T × G) (Dim T U) where
  SelSep sel := Sep sel.range ∧ SemPaving.SelSep (P := U) sel.tail
  pop_sep fx p f v s p' h hf hp := dim_pop_sep fx p f v s p' h hf hp
  pop_sem fx p q f hp hq hf h := dim_pop_sem fx p q f hp hq hf h

end dimsem

example : SemPaving Val CanonicalSelector Point5 _ Canonical := inferInstance

/-- **`pop_filter` is semantic**: two well-formed pavings that denote the same function return the
same value and the same selector (and, by `popFilterG_spec`, remainders that again denote the same
function). -/
theorem popFilter_semantic {V S Pt G P : Type} [HasDflt V] [DecidableEq V] [Paving V S Pt G P]
    [LawfulPaving V S Pt G P] [SemPaving V S Pt G P] (fx : Bool) (p q : P) (f : V → Bool)
    (hp : LawfulPaving.WF p) (hq : LawfulPaving.WF q) (hf : f HasDflt.dflt = false)
    (h : ∀ x, Paving.get p x = Paving.get q x) :
    (Paving.popFilterG fx p f).map (fun r => r.1) = (Paving.popFilterG fx q f).map (fun r => r.1) :=
  SemPaving.pop_sem fx p q f hp hq hf h

end OH.Proofs.Paving
