import OH.Proofs.EvalSpecMonad
import OH.Proofs.CalendarEval
import OH.Spec.Rules
import OH.Model.ParserWF
/-
The saturating day shift `add_days_saturating` (`addDaysSat`) and `DateOffset::apply`:
case analysis, representability of the result, and `DateOffset.apply = OH.Spec.shift` (the
specification adopts the saturating shift, so no bound on the offsets is involved).
-/
namespace OH.Proofs.EvalSpec
open OH.Model OH.Model.Cal

/-! ### `add_days_saturating` -/

theorem repr_minDay : minDay ≤ minDay ∧ minDay ≤ maxDay := by
  rw [minDay_eq, maxDay_eq]; omega

theorem repr_maxDay : minDay ≤ maxDay ∧ maxDay ≤ maxDay := by
  rw [minDay_eq, maxDay_eq]; omega

theorem repr_dateEnd : minDay ≤ dateEnd ∧ dateEnd ≤ maxDay := by
  rw [minDay_eq, maxDay_eq, dateEnd_eq]; omega

/-- the three cases of `add_days_saturating` -/
theorem addDaysSat_cases (d n : Int) :
    ((-106751991167 ≤ n ∧ n ≤ 106751991167) ∧ (minDay ≤ d + n ∧ d + n ≤ maxDay) ∧ addDaysSat d n = d + n)
    ∨ (¬ ((-106751991167 ≤ n ∧ n ≤ 106751991167) ∧ (minDay ≤ d + n ∧ d + n ≤ maxDay)) ∧ n < 0 ∧ addDaysSat d n = minDay)
    ∨ (¬ ((-106751991167 ≤ n ∧ n ≤ 106751991167) ∧ (minDay ≤ d + n ∧ d + n ≤ maxDay)) ∧ 0 ≤ n ∧ addDaysSat d n = maxDay) := by
  by_cases hn : -106751991167 ≤ n ∧ n ≤ 106751991167
  · by_cases hr : minDay ≤ d + n ∧ d + n ≤ maxDay
    · exact Or.inl ⟨hn, hr, addDaysSat_eq hn hr.1 hr.2⟩
    · have e : addDays? d n = none := addDays?_eq_none_iff.2 hr
      unfold addDaysSat
      rw [if_neg (by omega), e]
      simp only []
      by_cases h0 : n < 0
      · rw [if_pos h0]; exact Or.inr (Or.inl ⟨fun h => hr h.2, h0, rfl⟩)
      · rw [if_neg h0]; exact Or.inr (Or.inr ⟨fun h => hr h.2, by omega, rfl⟩)
  · unfold addDaysSat
    rw [if_pos (by omega)]
    by_cases h0 : n < 0
    · rw [if_pos h0]; exact Or.inr (Or.inl ⟨fun h => hn h.1, h0, rfl⟩)
    · rw [if_neg h0]; exact Or.inr (Or.inr ⟨fun h => hn h.1, by omega, rfl⟩)

theorem addDaysSat_of_not_repr_neg {d n : Int}
    (h : ¬ ((-106751991167 ≤ n ∧ n ≤ 106751991167) ∧ (minDay ≤ d + n ∧ d + n ≤ maxDay))) (h0 : n < 0) :
    addDaysSat d n = minDay := by
  rcases addDaysSat_cases d n with c | c | c
  · exact absurd ⟨c.1, c.2.1⟩ h
  · exact c.2.2
  · omega

theorem addDaysSat_of_not_repr_nonneg {d n : Int}
    (h : ¬ ((-106751991167 ≤ n ∧ n ≤ 106751991167) ∧ (minDay ≤ d + n ∧ d + n ≤ maxDay))) (h0 : 0 ≤ n) :
    addDaysSat d n = maxDay := by
  rcases addDaysSat_cases d n with c | c | c
  · exact absurd ⟨c.1, c.2.1⟩ h
  · omega
  · exact c.2.2

/-- the result is always representable: a non-representable sum saturates -/
theorem addDaysSat_repr (d n : Int) :
    minDay ≤ addDaysSat d n ∧ addDaysSat d n ≤ maxDay := by
  rcases addDaysSat_cases d n with c | c | c
  · rw [c.2.2]; exact c.2.1
  · rw [c.2.2]; exact repr_minDay
  · rw [c.2.2]; exact repr_maxDay

/-! ### `DateOffset::apply` -/

/-- `DateOffset::apply` never trips its two `debug_assert!`s and returns the specification's `shift`,
for ANY day and any (unbounded) day offset -/
theorem apply_eq_shift (o : DateOffset) (hw : o.wday.wf = true) (d : Int) :
    o.apply d = .ok (OH.Spec.shift o d) := by
  have h1 : minDay ≤ addDaysSat d o.days ∧ addDaysSat d o.days ≤ maxDay := by
    rcases addDaysSat_cases d o.days with c | c | c
    · rw [c.2.2]; exact c.2.1
    · rw [c.2.2]; exact repr_minDay
    · rw [c.2.2]; exact repr_maxDay
  unfold DateOffset.apply OH.Spec.shift
  simp only []
  generalize addDaysSat d o.days = d1 at h1
  cases hwd : o.wday with
  | none => rfl
  | prev t =>
    rw [hwd] at hw
    simp only [WdayOffset.wf, decide_eq_true_eq] at hw
    simp only []
    have hc : (weekday (addDaysSat d1 (-(((7 + weekday d1 - t) % 7 : Nat) : Int))) == t % 7
        || addDaysSat d1 (-(((7 + weekday d1 - t) % 7 : Nat) : Int)) == minDay) = true := by
      rcases addDaysSat_cases d1 (-(((7 + weekday d1 - t) % 7 : Nat) : Int)) with c | c | c
      · rw [c.2.2]
        simp only [Bool.or_eq_true, beq_iff_eq]
        left
        have := weekday_lt d1
        unfold weekday at *
        omega
      · rw [c.2.2]; simp
      · have h0 : (((7 + weekday d1 - t) % 7 : Nat) : Int) = 0 := by omega
        exfalso
        apply c.1
        rw [h0]
        exact ⟨by omega, by simpa using h1⟩
    rw [if_pos hc]
  | next t =>
    rw [hwd] at hw
    simp only [WdayOffset.wf, decide_eq_true_eq] at hw
    simp only []
    have hc : (weekday (addDaysSat d1 (((7 + t - weekday d1) % 7 : Nat) : Int)) == t % 7
        || addDaysSat d1 (((7 + t - weekday d1) % 7 : Nat) : Int) == maxDay) = true := by
      rcases addDaysSat_cases d1 (((7 + t - weekday d1) % 7 : Nat) : Int) with c | c | c
      · rw [c.2.2]
        simp only [Bool.or_eq_true, beq_iff_eq]
        left
        have := weekday_lt d1
        unfold weekday at *
        omega
      · omega
      · rw [c.2.2]; simp
    rw [if_pos hc]

/-- a shifted day is always representable -/
theorem shift_repr (o : DateOffset) (d : Int) :
    minDay ≤ OH.Spec.shift o d ∧ OH.Spec.shift o d ≤ maxDay := by
  unfold OH.Spec.shift
  simp only []
  have key : ∀ a n, minDay ≤ addDaysSat a n ∧ addDaysSat a n ≤ maxDay := by
    intro a n
    rcases addDaysSat_cases a n with c | c | c
    · rw [c.2.2]; exact c.2.1
    · rw [c.2.2]; exact repr_minDay
    · rw [c.2.2]; exact repr_maxDay
  cases o.wday <;> simp only [] <;> exact key _ _

/-- when nothing saturates the shift is the plain sum -/
theorem shift_exact (o : DateOffset) (d : Int) (hn : -106751991167 ≤ o.days ∧ o.days ≤ 106751991167)
    (h1 : minDay + 6 ≤ d + o.days) (h2 : d + o.days + 6 ≤ maxDay) :
    OH.Spec.shift o d = match o.wday with
      | .none => d + o.days
      | .prev t => d + o.days - ((7 + weekday (d + o.days) - t) % 7 : Nat)
      | .next t => d + o.days + ((7 + t - weekday (d + o.days)) % 7 : Nat) := by
  unfold OH.Spec.shift
  simp only []
  rw [addDaysSat_eq hn (by omega) (by omega)]
  cases o.wday with
  | none => rfl
  | prev t => simp only []; rw [addDaysSat_eq (by omega) (by omega) (by omega)]; omega
  | next t => simp only []; rw [addDaysSat_eq (by omega) (by omega) (by omega)]

/-- a shifted day stays within 6 days of the day-offset target (when nothing saturates) -/
theorem shift_bounds (o : DateOffset) (d : Int) (hn : -106751991167 ≤ o.days ∧ o.days ≤ 106751991167)
    (h1 : minDay + 6 ≤ d + o.days) (h2 : d + o.days + 6 ≤ maxDay) :
    d + o.days - 6 ≤ OH.Spec.shift o d ∧ OH.Spec.shift o d ≤ d + o.days + 6 := by
  rw [shift_exact o d hn h1 h2]
  cases o.wday <;> simp only [] <;> omega

end OH.Proofs.EvalSpec
