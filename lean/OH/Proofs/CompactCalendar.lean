/-
Helper lemmas for C15 (CompactCalendar).  Layers: bit masks (month) → year → calendar → histories →
serialization.  The abstraction of a calendar is `abs c : Date → Bool` ("which dates does the value
represent"), defined below without reference to any model function.
-/
import OH.Model.CompactCalendar
import OH.Spec.DateSet
namespace OH.Proofs.CompactCalendar
open OH.Model.CompactCalendar

/-! ## generic: strictly sorted lists are determined by their members -/

theorem sorted_ext {α : Type} (R : α → α → Prop) (irrefl : ∀ a, ¬ R a a)
    (asymm : ∀ a b, R a b → R b a → False) :
    ∀ (l₁ l₂ : List α), l₁.Pairwise R → l₂.Pairwise R → (∀ x, x ∈ l₁ ↔ x ∈ l₂) → l₁ = l₂ := by
  intro l₁
  induction l₁ with
  | nil =>
    intro l₂ _ _ h
    cases l₂ with
    | nil => rfl
    | cons b l₂ => exact absurd ((h b).2 (by simp)) (by simp)
  | cons a l₁ ih =>
    intro l₂ h1 h2 h
    cases l₂ with
    | nil => exact absurd ((h a).1 (by simp)) (by simp)
    | cons b l₂ =>
      rw [List.pairwise_cons] at h1 h2
      have hab : a = b := by
        have ha := (h a).1 (by simp)
        have hb := (h b).2 (by simp)
        rw [List.mem_cons] at ha hb
        rcases ha with ha | ha
        · exact ha
        · rcases hb with hb | hb
          · exact hb.symm
          · exact (asymm a b (h1.1 b hb) (h2.1 a ha)).elim
      subst hab
      congr 1
      apply ih l₂ h1.2 h2.2
      intro x
      constructor
      · intro hx
        have := (h x).1 (List.mem_cons_of_mem _ hx)
        rw [List.mem_cons] at this
        rcases this with e | e
        · subst e; exact (irrefl _ (h1.1 _ hx)).elim
        · exact e
      · intro hx
        have := (h x).2 (List.mem_cons_of_mem _ hx)
        rw [List.mem_cons] at this
        rcases this with e | e
        · subst e; exact (irrefl _ (h2.1 _ hx)).elim
        · exact e

/-! ## months -/
namespace Month

/-- day `d` (1-based) is in mask `m` -/
def has (m d : Nat) : Bool := decide (1 ≤ d) && m.testBit (d - 1)

theorem has_zero (d : Nat) : has 0 d = false := by simp [has]

theorem and_pow_ne_zero_iff (m k : Nat) : (m &&& 2 ^ k ≠ 0) ↔ m.testBit k = true := by
  constructor
  · intro h
    obtain ⟨i, hi⟩ := Nat.exists_testBit_of_ne_zero h
    rw [Nat.testBit_and, Nat.testBit_two_pow] at hi
    simp only [Bool.and_eq_true, decide_eq_true_eq] at hi
    obtain ⟨h1, h2⟩ := hi
    subst h2; exact h1
  · intro h hz
    have : (m &&& 2 ^ k).testBit k = true := by
      rw [Nat.testBit_and, Nat.testBit_two_pow]; simp [h]
    rw [hz] at this
    simp at this

theorem and_shift_bne (m k : Nat) : (m &&& (1 <<< k) != 0) = m.testBit k := by
  rw [Nat.one_shiftLeft]
  by_cases h : m.testBit k = true
  · rw [h]; simpa using (and_pow_ne_zero_iff m k).2 h
  · have : ¬ (m &&& 2 ^ k ≠ 0) := fun hh => h ((and_pow_ne_zero_iff m k).1 hh)
    simp only [ne_eq, Decidable.not_not] at this
    simp [this, h]

theorem contains_ok (m d : Nat) (h1 : 1 ≤ d) (h2 : d ≤ 31) :
    Month.contains m d = .ok (has m d) := by
  unfold Month.contains has
  rw [if_pos ⟨h1, h2⟩, and_shift_bne]
  simp [h1]

/-- the effect of `CompactMonth::insert` -/
theorem insert_ok (m d : Nat) (h1 : 1 ≤ d) (h2 : d ≤ 31) :
    ∃ m', Month.insert m d = .ok (m', !has m d) ∧
      (∀ d', has m' d' = (decide (d' = d) || has m d')) ∧
      (∀ k, m < 2 ^ k → d ≤ k → m' < 2 ^ k) := by
  unfold Month.insert
  rw [if_pos ⟨h1, h2⟩, contains_ok m d h1 h2]
  by_cases hh : has m d = true
  · refine ⟨m, by simp [hh], ?_, fun k hk _ => hk⟩
    intro d'
    by_cases e : d' = d
    · subst e; simp [hh]
    · simp [e]
  · have hh' : has m d = false := by simpa using hh
    refine ⟨m ||| (1 <<< (d - 1)), by simp [hh'], ?_, ?_⟩
    · intro d'
      unfold has
      rw [Nat.testBit_or, Nat.one_shiftLeft, Nat.testBit_two_pow]
      by_cases e : d' = d
      · subst e; simp [h1]
      · by_cases h0 : 1 ≤ d'
        · have : ¬ (d - 1 = d' - 1) := by omega
          simp [e, this]
        · simp [h0, e]
    · intro k hk hdk
      rw [Nat.one_shiftLeft]
      exact Nat.or_lt_two_pow hk (Nat.pow_lt_pow_right (by omega) (by omega))

theorem testBit_clear (n i j : Nat) (h : n.testBit i = true) :
    (n ^^^ (1 <<< i)).testBit j = (n.testBit j && decide (j ≠ i)) := by
  rw [Nat.one_shiftLeft, Nat.testBit_xor, Nat.testBit_two_pow]
  by_cases e : i = j
  · subst e; simp [h]
  · have : j ≠ i := fun x => e x.symm
    simp [e, this]

/-- `CompactMonth::iter` yields exactly the days of the mask, in increasing order -/
theorem iterGo_spec (m : Nat) :
    (∀ d, d ∈ Month.iterGo m ↔ has m d = true) ∧ (Month.iterGo m).Pairwise (· < ·) := by
  induction m using Nat.strongRecOn with
  | _ m ih =>
    rw [Month.iterGo]
    by_cases h0 : m = 0
    · subst h0; simp [has]
    · simp only [ne_eq, h0, not_false_eq_true, ↓reduceDIte]
      obtain ⟨hb, hlow⟩ := trailingZeros_spec m h0
      obtain ⟨ih1, ih2⟩ := ih _ (xor_two_pow_lt m _ hb)
      have hmem : ∀ d, d ∈ Month.iterGo (m ^^^ (1 <<< trailingZeros m)) ↔
          (has m d = true ∧ d ≠ trailingZeros m + 1) := by
        intro d
        rw [ih1 d]
        unfold has
        rw [testBit_clear m _ _ hb]
        simp only [Bool.and_eq_true, decide_eq_true_eq, ne_eq]
        constructor
        · rintro ⟨a, b, c⟩; exact ⟨⟨a, b⟩, by omega⟩
        · rintro ⟨⟨a, b⟩, c⟩; exact ⟨a, b, by omega⟩
      constructor
      · intro d
        rw [List.mem_cons, hmem d]
        constructor
        · rintro (e | e)
          · subst e; simp [has, hb]
          · exact e.1
        · intro hd
          by_cases e : d = trailingZeros m + 1
          · exact Or.inl e
          · exact Or.inr ⟨hd, e⟩
      · rw [List.pairwise_cons]
        refine ⟨?_, ih2⟩
        intro d hd
        obtain ⟨hd1, hd2⟩ := (hmem d).1 hd
        unfold has at hd1
        simp only [Bool.and_eq_true, decide_eq_true_eq] at hd1
        have : ¬ (d - 1 < trailingZeros m) := by
          intro hlt
          have := hlow _ hlt
          rw [this] at hd1; exact absurd hd1.2 (by simp)
        omega

theorem mem_iter (m d : Nat) : d ∈ Month.iter m ↔ has m d = true := (iterGo_spec m).1 d
theorem sorted_iter (m : Nat) : (Month.iter m).Pairwise (· < ·) := (iterGo_spec m).2

theorem first_none (m : Nat) (h : Month.first m = none) : m = 0 := by
  unfold Month.first at h
  split at h
  · assumption
  · cases h

theorem first_some (m x : Nat) (h : Month.first m = some x) :
    has m x = true ∧ ∀ d, has m d = true → x ≤ d := by
  unfold Month.first at h
  split at h
  · cases h
  · rename_i h0
    cases h
    obtain ⟨hb, hlow⟩ := trailingZeros_spec m h0
    refine ⟨by simp [has, hb], ?_⟩
    intro d hd
    unfold has at hd
    simp only [Bool.and_eq_true, decide_eq_true_eq] at hd
    have : ¬ (d - 1 < trailingZeros m) := by
      intro hlt
      have := hlow _ hlt
      rw [this] at hd; exact absurd hd.2 (by simp)
    omega

/-- `CompactMonth::first_after`: the least day of the mask strictly after `d` -/
theorem firstAfter_ok (m d : Nat) (h1 : 1 ≤ d) (h2 : d ≤ 31) :
    ∃ r, Month.firstAfter m d = .ok r ∧
      (r = none → ∀ d', d < d' → has m d' = false) ∧
      (∀ x, r = some x → d < x ∧ has m x = true ∧ ∀ d', d < d' → has m d' = true → x ≤ d') := by
  unfold Month.firstAfter
  rw [if_pos ⟨h1, h2⟩]
  simp only
  by_cases h0 : m >>> d = 0
  · refine ⟨none, by simp [h0], ?_, by simp⟩
    intro _ d' hd'
    unfold has
    have : (m >>> d).testBit (d' - 1 - d) = m.testBit (d' - 1) := by
      rw [Nat.testBit_shiftRight]; congr 1; omega
    rw [← this, h0]; simp
  · obtain ⟨hb, hlow⟩ := trailingZeros_spec _ h0
    refine ⟨some (d + trailingZeros (m >>> d) + 1), by simp [h0], by simp, ?_⟩
    intro x hx
    cases hx
    rw [Nat.testBit_shiftRight] at hb
    refine ⟨by omega, ?_, ?_⟩
    · unfold has
      have e : d + trailingZeros (m >>> d) + 1 - 1 = d + trailingZeros (m >>> d) := by omega
      rw [e, hb]; simp
    · intro d' hd' hh
      unfold has at hh
      simp only [Bool.and_eq_true, decide_eq_true_eq] at hh
      have : ¬ (d' - 1 - d < trailingZeros (m >>> d)) := by
        intro hlt
        have := hlow _ hlt
        rw [Nat.testBit_shiftRight] at this
        have e : d + (d' - 1 - d) = d' - 1 := by omega
        rw [e] at this
        rw [this] at hh; exact absurd hh.2 (by simp)
      omega

theorem has_lt_of_lt_two_pow (m k d : Nat) (hm : m < 2 ^ k) (h : has m d = true) : d ≤ k := by
  unfold has at h
  simp only [Bool.and_eq_true, decide_eq_true_eq] at h
  apply Classical.byContradiction
  intro hgt
  have : m.testBit (d - 1) = false := by
    apply Nat.testBit_lt_two_pow
    calc m < 2 ^ k := hm
      _ ≤ 2 ^ (d - 1) := Nat.pow_le_pow_right (by omega) (by omega)
  rw [this] at h; exact absurd h.2 (by simp)

/-- `count_ones` counts the days of the mask -/
theorem count_eq (m : Nat) (hm : m < 2 ^ 32) : Month.count m = (Month.iter m).length := by
  unfold Month.count countOnes
  have : Month.iter m = ((List.range 32).filter m.testBit).map (· + 1) := by
    apply sorted_ext (· < ·) (fun a => Nat.lt_irrefl a) (fun a b h1 h2 => by omega)
    · exact sorted_iter m
    · rw [List.pairwise_map]
      apply List.Pairwise.filter
      have := @List.pairwise_lt_range 32
      exact this.imp (by intro a b h; omega)
    · intro x
      rw [mem_iter]
      simp only [List.mem_map, List.mem_filter, List.mem_range]
      constructor
      · intro h
        have hle := has_lt_of_lt_two_pow m 32 x hm h
        unfold has at h
        simp only [Bool.and_eq_true, decide_eq_true_eq] at h
        exact ⟨x - 1, ⟨by omega, h.2⟩, by omega⟩
      · rintro ⟨a, ⟨_, ha⟩, rfl⟩
        simp [has, ha]
  rw [this, List.length_map]

end Month

/-! ## years -/

/-- lexicographic order on (month, day) -/
def pairLt (a b : Nat × Nat) : Prop := a.1 < b.1 ∨ (a.1 = b.1 ∧ a.2 < b.2)
def pairLe (a b : Nat × Nat) : Prop := a.1 < b.1 ∨ (a.1 = b.1 ∧ a.2 ≤ b.2)

namespace Year

/-- day `d` of month `mo` (both 1-based) is in the year -/
def has (y : Year) (mo d : Nat) : Bool :=
  if h : 1 ≤ mo ∧ mo ≤ 12 then Month.has y[mo - 1] d else false

theorem toList_getElem? (y : Year) (j : Nat) (h : j < 12) : y.toList[j]? = some y[j] := by
  rw [List.getElem?_eq_getElem (by simpa using h)]
  simp

theorem toList_getElem?_some (y : Year) (j m : Nat) (h : y.toList[j]? = some m) :
    ∃ hj : j < 12, y[j] = m := by
  have hj : j < 12 := by
    have := (List.getElem?_eq_some_iff.1 h).1
    simpa using this
  refine ⟨hj, ?_⟩
  rw [toList_getElem? y j hj] at h
  exact Option.some.inj h

theorem has_iff (y : Year) (mo d : Nat) :
    has y mo d = true ↔ ∃ m, 1 ≤ mo ∧ y.toList[mo - 1]? = some m ∧ Month.has m d = true := by
  unfold has
  constructor
  · intro h
    split at h
    · rename_i hm
      exact ⟨y[mo - 1], hm.1, toList_getElem? y _ (by omega), h⟩
    · cases h
  · rintro ⟨m, h1, h2, h3⟩
    obtain ⟨hj, e⟩ := toList_getElem?_some y _ m h2
    have hm : 1 ≤ mo ∧ mo ≤ 12 := by omega
    rw [dif_pos hm, e]; exact h3

theorem has_default (mo d : Nat) : has Year.default mo d = false := by
  unfold has Year.default
  split
  · rw [Vector.getElem_replicate]; exact Month.has_zero d
  · rfl

theorem contains_ok (y : Year) (mo d : Nat) (hm : 1 ≤ mo ∧ mo ≤ 12) (hd : 1 ≤ d ∧ d ≤ 31) :
    Year.contains y mo d = .ok (has y mo d) := by
  unfold Year.contains has
  rw [dif_pos hm, if_pos hd, dif_pos hm]
  exact Month.contains_ok _ _ hd.1 hd.2

/-- the effect of `CompactYear::insert` -/
theorem insert_ok (y : Year) (mo d : Nat) (hm : 1 ≤ mo ∧ mo ≤ 12) (hd : 1 ≤ d ∧ d ≤ 31) :
    ∃ y', Year.insert y mo d = .ok (y', !has y mo d) ∧
      (∀ mo' d', has y' mo' d' = ((decide (mo' = mo) && decide (d' = d)) || has y mo' d')) ∧
      (∀ j (hj : j < 12), j ≠ mo - 1 → y'[j] = y[j]) ∧
      (∀ k, y[mo - 1] < 2 ^ k → d ≤ k → y'[mo - 1] < 2 ^ k) := by
  obtain ⟨m', h1, h2, h3⟩ := Month.insert_ok y[mo - 1] d hd.1 hd.2
  refine ⟨y.set (mo - 1) m', ?_, ?_, ?_, ?_⟩
  · unfold Year.insert
    rw [dif_pos hm, if_pos hd, h1]
    simp [has, hm]
  · intro mo' d'
    unfold has
    by_cases hm' : 1 ≤ mo' ∧ mo' ≤ 12
    · rw [dif_pos hm', dif_pos hm', Vector.getElem_set]
      by_cases e : mo' = mo
      · subst e; simp [h2]
      · have : ¬ (mo - 1 = mo' - 1) := by omega
        simp [e, this]
    · simp [hm']
      intro e; subst e; exact absurd hm hm'
  · intro j hj hne
    rw [Vector.getElem_set]
    have : ¬ (mo - 1 = j) := fun e => hne e.symm
    simp [this]
  · intro k hk hdk
    rw [Vector.getElem_set]
    simp only [↓reduceIte]
    exact h3 k hk hdk

theorem mem_iterFrom : ∀ (ms : List Nat) (k mo d : Nat),
    (mo, d) ∈ Year.iterFrom k ms ↔ ∃ j m, mo = k + j ∧ ms[j]? = some m ∧ Month.has m d = true := by
  intro ms
  induction ms with
  | nil => intro k mo d; simp [Year.iterFrom]
  | cons m ms ih =>
    intro k mo d
    simp only [Year.iterFrom, List.mem_append, List.mem_map, Prod.mk.injEq]
    rw [ih]
    constructor
    · rintro (⟨a, ha, rfl, rfl⟩ | ⟨j, m', e, h1, h2⟩)
      · exact ⟨0, m, by omega, by simp, (Month.mem_iter _ _).1 ha⟩
      · exact ⟨j + 1, m', by omega, by simpa using h1, h2⟩
    · rintro ⟨j, m', e, h1, h2⟩
      cases j with
      | zero =>
        simp only [List.getElem?_cons_zero, Option.some.injEq] at h1
        subst h1
        exact Or.inl ⟨d, (Month.mem_iter _ _).2 h2, by omega, rfl⟩
      | succ j =>
        exact Or.inr ⟨j, m', by omega, by simpa using h1, h2⟩

theorem sorted_iterFrom : ∀ (ms : List Nat) (k : Nat), (Year.iterFrom k ms).Pairwise pairLt := by
  intro ms
  induction ms with
  | nil => intro k; simp [Year.iterFrom]
  | cons m ms ih =>
    intro k
    simp only [Year.iterFrom]
    rw [List.pairwise_append]
    refine ⟨?_, ih _, ?_⟩
    · rw [List.pairwise_map]
      exact (Month.sorted_iter m).imp (fun h => Or.inr ⟨rfl, h⟩)
    · intro a ha b hb
      obtain ⟨d, _, rfl⟩ := List.mem_map.1 ha
      obtain ⟨b1, b2⟩ := b
      obtain ⟨j, _, e, _, _⟩ := (mem_iterFrom ms (k + 1) b1 b2).1 hb
      exact Or.inl (by simp only; omega)

theorem mem_iter (y : Year) (mo d : Nat) : (mo, d) ∈ Year.iter y ↔ has y mo d = true := by
  unfold Year.iter
  rw [mem_iterFrom, has_iff]
  constructor
  · rintro ⟨j, m, e, h1, h2⟩
    refine ⟨m, by omega, ?_, h2⟩
    have : mo - 1 = j := by omega
    rw [this]; exact h1
  · rintro ⟨m, h0, h1, h2⟩
    exact ⟨mo - 1, m, by omega, h1, h2⟩

theorem sorted_iter (y : Year) : (Year.iter y).Pairwise pairLt := sorted_iterFrom _ _

theorem firstFrom_none : ∀ (ms : List Nat) (k : Nat), Year.firstFrom k ms = none →
    ∀ (j m : Nat), ms[j]? = some m → m = 0 := by
  intro ms
  induction ms with
  | nil => intro k _ j m h; simp at h
  | cons m0 ms ih =>
    intro k h j m hj
    simp only [Year.firstFrom] at h
    split at h
    · cases h
    · rename_i hf
      cases j with
      | zero =>
        simp only [List.getElem?_cons_zero, Option.some.injEq] at hj
        subst hj; exact Month.first_none _ hf
      | succ j => exact ih _ h j m (by simpa using hj)

theorem firstFrom_some : ∀ (ms : List Nat) (k mo d : Nat), Year.firstFrom k ms = some (mo, d) →
    ∃ j m, mo = k + j ∧ ms[j]? = some m ∧ Month.has m d = true ∧
      (∀ d', Month.has m d' = true → d ≤ d') ∧ ∀ j', j' < j → ms[j']? = some 0 := by
  intro ms
  induction ms with
  | nil => intro k mo d h; simp [Year.firstFrom] at h
  | cons m0 ms ih =>
    intro k mo d h
    simp only [Year.firstFrom] at h
    split at h
    · rename_i day hf
      cases h
      obtain ⟨a, b⟩ := Month.first_some _ _ hf
      exact ⟨0, m0, by omega, by simp, a, b, by intro j' hj'; omega⟩
    · rename_i hf
      obtain ⟨j, m, e, h1, h2, h3, h4⟩ := ih _ _ _ h
      refine ⟨j + 1, m, by omega, by simpa using h1, h2, h3, ?_⟩
      intro j' hj'
      cases j' with
      | zero => simp [Month.first_none _ hf]
      | succ j' => simpa using h4 j' (by omega)

theorem first_none (y : Year) (h : Year.first y = none) : ∀ mo d, has y mo d = false := by
  intro mo d
  apply Bool.eq_false_iff.2
  intro hh
  obtain ⟨m, _, h2, h3⟩ := (has_iff y mo d).1 hh
  have := firstFrom_none _ _ h _ _ h2
  subst this
  rw [Month.has_zero] at h3; cases h3

theorem first_some (y : Year) (mo d : Nat) (h : Year.first y = some (mo, d)) :
    has y mo d = true ∧ ∀ mo' d', has y mo' d' = true → pairLe (mo, d) (mo', d') := by
  obtain ⟨j, m, e, h1, h2, h3, h4⟩ := firstFrom_some _ _ _ _ h
  constructor
  · rw [has_iff]
    refine ⟨m, by omega, ?_, h2⟩
    have : mo - 1 = j := by omega
    rw [this]; exact h1
  · intro mo' d' hh
    obtain ⟨m', g0, g1, g2⟩ := (has_iff y mo' d').1 hh
    unfold pairLe
    simp only
    by_cases hlt : mo' - 1 < j
    · have := h4 _ hlt
      rw [this] at g1
      cases g1
      rw [Month.has_zero] at g2; cases g2
    · by_cases heq : mo' - 1 = j
      · rw [heq, h1] at g1
        cases g1
        exact Or.inr ⟨by omega, h3 _ g2⟩
      · exact Or.inl (by omega)

/-- `CompactYear::first_after`: the least (month, day) of the year strictly after `(mo, d)` -/
theorem firstAfter_ok (y : Year) (mo d : Nat) (hm : 1 ≤ mo ∧ mo ≤ 12) (hd : 1 ≤ d ∧ d ≤ 31) :
    ∃ r, Year.firstAfter y mo d = .ok r ∧
      (r = none → ∀ mo' d', pairLt (mo, d) (mo', d') → has y mo' d' = false) ∧
      (∀ x, r = some x → pairLt (mo, d) x ∧ has y x.1 x.2 = true ∧
        ∀ mo' d', pairLt (mo, d) (mo', d') → has y mo' d' = true → pairLe x (mo', d')) := by
  obtain ⟨r0, e0, hn, hs⟩ := Month.firstAfter_ok y[mo - 1] d hd.1 hd.2
  unfold Year.firstAfter
  rw [dif_pos hm, if_pos hd]
  simp only [e0]
  cases r0 with
  | some res =>
    obtain ⟨a, b, c⟩ := hs res rfl
    refine ⟨some (mo, res), rfl, by simp, ?_⟩
    intro x hx
    cases hx
    refine ⟨Or.inr ⟨rfl, a⟩, ?_, ?_⟩
    · simp only [has, dif_pos hm]; exact b
    · intro mo' d' hlt hh
      rcases hlt with hlt | ⟨e, hlt⟩
      · exact Or.inl hlt
      · simp only at e hlt
        subst e
        simp only [has, dif_pos hm] at hh
        exact Or.inr ⟨rfl, c _ hlt hh⟩
  | none =>
    have hn := hn rfl
    refine ⟨_, rfl, ?_, ?_⟩
    · intro hf mo' d' hlt
      apply Bool.eq_false_iff.2
      intro hh
      rcases hlt with hlt | ⟨e, hlt⟩
      · simp only at hlt
        obtain ⟨m', g0, g1, g2⟩ := (has_iff y mo' d').1 hh
        have e : mo' - 1 = mo - 1 + 1 + (mo' - 1 - mo) := by omega
        rw [e, ← List.getElem?_drop] at g1
        have := firstFrom_none _ _ hf _ _ g1
        subst this
        rw [Month.has_zero] at g2; cases g2
      · simp only at e hlt
        subst e
        simp only [has, dif_pos hm] at hh
        rw [hn _ hlt] at hh; cases hh
    · intro x hx
      obtain ⟨x1, x2⟩ := x
      obtain ⟨j, m, e, h1, h2, h3, h4⟩ := firstFrom_some _ _ _ _ hx
      rw [List.getElem?_drop] at h1
      have hx1 : x1 - 1 = mo - 1 + 1 + j := by omega
      refine ⟨Or.inl (by simp only; omega), ?_, ?_⟩
      · rw [has_iff]
        exact ⟨m, by simp only; omega, by simp only; rw [hx1]; exact h1, h2⟩
      · intro mo' d' hlt hh
        rcases hlt with hlt | ⟨e', hlt⟩
        · simp only at hlt
          obtain ⟨m', g0, g1, g2⟩ := (has_iff y mo' d').1 hh
          unfold pairLe
          simp only
          by_cases hlt2 : mo' < x1
          · have := h4 (mo' - 1 - mo) (by omega)
            rw [List.getElem?_drop] at this
            have e2 : mo - 1 + 1 + (mo' - 1 - mo) = mo' - 1 := by omega
            rw [e2, g1] at this
            cases this
            rw [Month.has_zero] at g2; cases g2
          · by_cases heq : mo' = x1
            · subst heq
              rw [hx1, h1] at g1
              cases g1
              exact Or.inr ⟨rfl, h3 _ g2⟩
            · exact Or.inl (by omega)
        · simp only at e' hlt
          subst e'
          simp only [has, dif_pos hm] at hh
          rw [hn _ hlt] at hh; cases hh

theorem count_eq_aux : ∀ (ms : List Nat) (k : Nat), (∀ m ∈ ms, m < 2 ^ 32) →
    (ms.map Month.count).sum = (Year.iterFrom k ms).length := by
  intro ms
  induction ms with
  | nil => intro k _; simp [Year.iterFrom]
  | cons m ms ih =>
    intro k h
    simp only [List.map_cons, List.sum_cons, Year.iterFrom, List.length_append, List.length_map]
    rw [ih (k + 1) (fun m' hm' => h m' (List.mem_cons_of_mem _ hm')),
      Month.count_eq m (h m (by simp))]

theorem count_eq (y : Year) (h : ∀ j (hj : j < 12), y[j] < 2 ^ 32) :
    Year.count y = (Year.iter y).length := by
  unfold Year.count Year.iter
  apply count_eq_aux
  intro m hm
  obtain ⟨j, hj, e⟩ := List.getElem_of_mem hm
  have hj' : j < 12 := by simpa using hj
  have := h j hj'
  rw [← Vector.getElem_toList (by simpa using hj')] at this
  rw [← e]; exact this

end Year

/-! ## calendars: abstraction and invariant -/

/-- the stored year record for calendar year `Y`, if `Y` is inside the window -/
def yearAt (c : CompactCalendar) (Y : Int) : Option Year :=
  if Y < c.firstYear then none else c.years[(Y - c.firstYear).toNat]?

/-- ABSTRACTION: the set of dates a calendar value represents -/
def abs (c : CompactCalendar) (q : Date) : Bool :=
  match yearAt c q.year with
  | some y => Year.has y q.month q.day
  | none => false

/-- a year record for calendar year `yi` only holds days that exist in that year
(month `j+1` has bits `0 .. daysInMonth-1` only), and `yi` is a year chrono can represent -/
def YearOk (yi : Int) (y : Year) : Prop :=
  -262143 ≤ yi ∧ yi ≤ 262142 ∧ ∀ j (hj : j < 12), y[j] < 2 ^ daysInMonth yi (j + 1)

instance (yi : Int) (y : Year) : Decidable (YearOk yi y) := by unfold YearOk; exact inferInstance

/-- INVARIANT of every calendar built by insertions (decidable):
the default value has `first_year = 0`; the window is tight (first and last year record are not
empty); every record only holds existing days. -/
def Inv (c : CompactCalendar) : Prop :=
  (c.years = [] → c.firstYear = 0) ∧
  c.years[0]? ≠ some Year.default ∧
  c.years[c.years.length - 1]? ≠ some Year.default ∧
  ∀ k (hk : k < c.years.length), YearOk (c.firstYear + k) c.years[k]

instance (c : CompactCalendar) : Decidable (Inv c) := by unfold Inv; exact inferInstance

theorem Inv.ok {c : CompactCalendar} (h : Inv c) (k : Nat) (y : Year) (hk : c.years[k]? = some y) :
    YearOk (c.firstYear + k) y := by
  obtain ⟨hlt, e⟩ := List.getElem?_eq_some_iff.1 hk
  rw [← e]; exact h.2.2.2 k hlt

theorem Inv.bounds {c : CompactCalendar} (h : Inv c) :
    -262143 ≤ c.firstYear ∧ c.firstYear + c.years.length ≤ 262143 := by
  by_cases he : c.years = []
  · have := h.1 he
    simp [he, this]
  · have hl : 0 < c.years.length := List.length_pos_iff.2 he
    have h0 := h.2.2.2 0 hl
    have h1 := h.2.2.2 (c.years.length - 1) (by omega)
    unfold YearOk at h0 h1
    omega

theorem inv_default : Inv CompactCalendar.default := by
  unfold Inv CompactCalendar.default; simp

theorem daysInMonth_le (y : Int) (m : Nat) : daysInMonth y m ≤ 31 := by
  unfold daysInMonth; split
  · split <;> omega
  · split <;> omega

theorem valid_bounds {y : Int} {m d : Nat} (h : validYmd y m d = true) :
    -262143 ≤ y ∧ y ≤ 262142 ∧ 1 ≤ m ∧ m ≤ 12 ∧ 1 ≤ d ∧ d ≤ daysInMonth y m ∧ d ≤ 31 := by
  unfold validYmd at h
  have := daysInMonth_le y m
  simp only [decide_eq_true_eq] at h
  omega

theorem Date.ext' {a b : Date} (h1 : a.year = b.year) (h2 : a.month = b.month) (h3 : a.day = b.day) :
    a = b := by
  cases a; cases b; simp only at h1 h2 h3; subst h1 h2 h3; rfl

theorem YearOk.valid {yi : Int} {y : Year} (h : YearOk yi y) {mo d : Nat}
    (hh : Year.has y mo d = true) : validYmd yi mo d = true := by
  unfold Year.has at hh
  split at hh
  · rename_i hm
    have hb := h.2.2 (mo - 1) (by omega)
    have e : mo - 1 + 1 = mo := by omega
    rw [e] at hb
    have := Month.has_lt_of_lt_two_pow _ _ _ hb hh
    have h1 : 1 ≤ d := by
      unfold Month.has at hh; simp only [Bool.and_eq_true, decide_eq_true_eq] at hh; exact hh.1
    unfold validYmd
    simp only [decide_eq_true_eq]
    exact ⟨h.1, h.2.1, hm.1, hm.2, h1, this⟩
  · cases hh

theorem YearOk.lt32 {yi : Int} {y : Year} (h : YearOk yi y) : ∀ j (hj : j < 12), y[j] < 2 ^ 32 := by
  intro j hj
  calc y[j] < 2 ^ daysInMonth yi (j + 1) := h.2.2 j hj
    _ ≤ 2 ^ 32 := Nat.pow_le_pow_right (by omega) (by have := daysInMonth_le yi (j + 1); omega)

theorem yearOk_default (yi : Int) (h1 : -262143 ≤ yi) (h2 : yi ≤ 262142) : YearOk yi Year.default := by
  refine ⟨h1, h2, ?_⟩
  intro j hj
  unfold Year.default
  rw [Vector.getElem_replicate]
  exact Nat.pow_pos (by omega)

theorem ne_default_of_has {y : Year} {mo d : Nat} (h : Year.has y mo d = true) : y ≠ Year.default := by
  intro e; subst e; rw [Year.has_default] at h; cases h

/-- members of an invariant calendar are valid dates -/
theorem abs_valid {c : CompactCalendar} (h : Inv c) {q : Date} (hq : abs c q = true) :
    q.valid = true := by
  unfold abs yearAt at hq
  split at hq
  · rename_i y hy
    split at hy
    · cases hy
    · rename_i hge
      have := (h.ok _ _ hy).valid hq
      have e : c.firstYear + ((q.year - c.firstYear).toNat : Int) = q.year := by omega
      rw [e] at this
      exact this
  · cases hq

theorem yearIndex_ok (site : String) (c : CompactCalendar) (d : Date)
    (h1 : -2147483648 ≤ d.year - c.firstYear) (h2 : d.year - c.firstYear ≤ 2147483647) :
    CompactCalendar.yearIndex site c d =
      .ok (if d.year - c.firstYear < 0 then none else some (d.year - c.firstYear).toNat) := by
  unfold CompactCalendar.yearIndex
  simp only
  have : ¬ (d.year - c.firstYear < -2147483648 ∨ d.year - c.firstYear > 2147483647) := by omega
  rw [if_neg this]
  split <;> rfl

theorem yearFor_ok (c : CompactCalendar) (d : Date)
    (h1 : -2147483648 ≤ d.year - c.firstYear) (h2 : d.year - c.firstYear ≤ 2147483647) :
    CompactCalendar.yearFor c d = .ok (yearAt c d.year) := by
  unfold CompactCalendar.yearFor yearAt
  rw [yearIndex_ok _ c d h1 h2]
  by_cases h : d.year - c.firstYear < 0
  · have : d.year < c.firstYear := by omega
    simp [h, this]
  · have : ¬ d.year < c.firstYear := by omega
    simp [h, this]

/-- `contains` computes the abstraction -/
theorem contains_ok (c : CompactCalendar) (q : Date) (hc : Inv c) (hq : q.valid = true) :
    CompactCalendar.contains c q = .ok (abs c q) := by
  obtain ⟨hy1, hy2, hm1, hm2, hd1, _, hd3⟩ := valid_bounds hq
  obtain ⟨hb1, hb2⟩ := hc.bounds
  unfold CompactCalendar.contains abs
  rw [yearFor_ok c q (by omega) (by omega)]
  cases yearAt c q.year with
  | none => rfl
  | some y => exact Year.contains_ok y _ _ ⟨hm1, hm2⟩ ⟨hd1, hd3⟩


/-! ## insert -/

def hasAt (c : CompactCalendar) (Y : Int) (mo dd : Nat) : Bool :=
  match yearAt c Y with
  | some y => Year.has y mo dd
  | none => false

theorem abs_eq_hasAt (c : CompactCalendar) (q : Date) : abs c q = hasAt c q.year q.month q.day := rfl

theorem abs_insert_of (c c' : CompactCalendar) (d : Date)
    (h1 : ∀ mo dd, hasAt c' d.year mo dd =
      ((decide (mo = d.month) && decide (dd = d.day)) || hasAt c d.year mo dd))
    (h2 : ∀ Y, Y ≠ d.year → ∀ mo dd, hasAt c' Y mo dd = hasAt c Y mo dd) :
    ∀ q, abs c' q = (decide (q = d) || abs c q) := by
  intro q
  rw [abs_eq_hasAt, abs_eq_hasAt]
  by_cases hy : q.year = d.year
  · rw [hy, h1]
    congr 1
    by_cases e : q = d
    · subst e; simp
    · have : ¬ (q.month = d.month ∧ q.day = d.day) := fun h => e (Date.ext' hy h.1 h.2)
      simp only [e, decide_false]
      simpa using this
  · rw [h2 _ hy]
    have : q ≠ d := fun e => hy (by rw [e])
    simp [this]

theorem pushFrontN_eq : ∀ (n : Nat) (ys : List Year),
    CompactCalendar.pushFrontN n ys = List.replicate n Year.default ++ ys := by
  intro n
  induction n with
  | zero => intro ys; simp [CompactCalendar.pushFrontN]
  | succ n ih =>
    intro ys
    rw [CompactCalendar.pushFrontN, ih, List.replicate_succ']
    simp

theorem pushBackN_eq : ∀ (n : Nat) (ys : List Year),
    CompactCalendar.pushBackN n ys = ys ++ List.replicate n Year.default := by
  intro n
  induction n with
  | zero => intro ys; simp [CompactCalendar.pushBackN]
  | succ n ih =>
    intro ys
    rw [CompactCalendar.pushBackN, ih, List.replicate_succ]
    simp

theorem getElem?_front (ys : List Year) (y' : Year) (n j : Nat) (hn : 1 ≤ n) :
    (y' :: (List.replicate (n - 1) Year.default ++ ys))[j]? =
      if j = 0 then some y' else if j < n then some Year.default else ys[j - n]? := by
  cases j with
  | zero => simp
  | succ j =>
    simp only [List.getElem?_cons_succ, List.getElem?_append, List.length_replicate,
      List.getElem?_replicate]
    have : ¬ (j + 1 = 0) := by omega
    simp only [this, ↓reduceIte]
    by_cases h : j < n - 1
    · have h' : j + 1 < n := by omega
      simp [h, h']
    · have h' : ¬ j + 1 < n := by omega
      simp only [h, h', ↓reduceIte]
      congr 1; omega

theorem getElem?_back (ys : List Year) (y' : Year) (n j : Nat) (hn : 1 ≤ n) :
    ((ys ++ List.replicate n Year.default).set (ys.length + n - 1) y')[j]? =
      if j < ys.length then ys[j]? else if j < ys.length + n - 1 then some Year.default
      else if j = ys.length + n - 1 then some y' else none := by
  rw [List.getElem?_set]
  simp only [List.length_append, List.length_replicate, List.getElem?_append,
    List.getElem?_replicate]
  by_cases h1 : j < ys.length
  · have : ¬ (ys.length + n - 1 = j) := by omega
    simp [h1, this]
  · by_cases h2 : j < ys.length + n - 1
    · have : ¬ (ys.length + n - 1 = j) := by omega
      have h3 : j - ys.length < n := by omega
      simp [h1, h2, this, h3]
    · by_cases h3 : j = ys.length + n - 1
      · subst h3
        have : ys.length + n - 1 < ys.length + n := by omega
        simp [h1, this]
      · have : ¬ (ys.length + n - 1 = j) := by omega
        have h4 : ¬ (j - ys.length < n) := by omega
        simp [h1, h2, h3, this, h4]

/-- inserting into a fresh (default) year record -/
theorem insert_default_ok (yi : Int) (mo dd : Nat) (hv : validYmd yi mo dd = true) :
    ∃ y', Year.insert Year.default mo dd = .ok (y', true) ∧
      (∀ mo' d', Year.has y' mo' d' = (decide (mo' = mo) && decide (d' = dd))) ∧
      YearOk yi y' ∧ y' ≠ Year.default := by
  obtain ⟨hy1, hy2, hm1, hm2, hd1, hd2, hd3⟩ := valid_bounds hv
  obtain ⟨y', e1, e2, e3, e4⟩ := Year.insert_ok Year.default mo dd ⟨hm1, hm2⟩ ⟨hd1, hd3⟩
  have hdef := yearOk_default yi hy1 hy2
  refine ⟨y', by simpa [Year.has_default] using e1, ?_, ?_, ?_⟩
  · intro mo' d'; rw [e2, Year.has_default]; simp
  · refine ⟨hy1, hy2, ?_⟩
    intro j hj
    by_cases e : j = mo - 1
    · subst e
      have := e4 (daysInMonth yi (mo - 1 + 1)) (hdef.2.2 _ hj) (by
        have : mo - 1 + 1 = mo := by omega
        rw [this]; exact hd2)
      exact this
    · rw [e3 j hj e]; exact hdef.2.2 j hj
  · apply ne_default_of_has (mo := mo) (d := dd)
    rw [e2]; simp

/-- inserting into an existing year record of an invariant calendar -/
theorem insert_year_ok (yi : Int) (y : Year) (mo dd : Nat) (hv : validYmd yi mo dd = true)
    (hy : YearOk yi y) :
    ∃ y', Year.insert y mo dd = .ok (y', !Year.has y mo dd) ∧
      (∀ mo' d', Year.has y' mo' d' = ((decide (mo' = mo) && decide (d' = dd)) || Year.has y mo' d')) ∧
      YearOk yi y' ∧ y' ≠ Year.default := by
  obtain ⟨hy1, hy2, hm1, hm2, hd1, hd2, hd3⟩ := valid_bounds hv
  obtain ⟨y', e1, e2, e3, e4⟩ := Year.insert_ok y mo dd ⟨hm1, hm2⟩ ⟨hd1, hd3⟩
  refine ⟨y', e1, e2, ?_, ?_⟩
  · refine ⟨hy1, hy2, ?_⟩
    intro j hj
    by_cases e : j = mo - 1
    · subst e
      exact e4 (daysInMonth yi (mo - 1 + 1)) (hy.2.2 _ hj) (by
        have : mo - 1 + 1 = mo := by omega
        rw [this]; exact hd2)
    · rw [e3 j hj e]; exact hy.2.2 j hj
  · apply ne_default_of_has (mo := mo) (d := dd)
    rw [e2]; simp


theorem Inv.mk' (c : CompactCalendar) (h1 : c.years = [] → c.firstYear = 0)
    (h2 : c.years[0]? ≠ some Year.default)
    (h3 : c.years[c.years.length - 1]? ≠ some Year.default)
    (h4 : ∀ (k : Nat) y, c.years[k]? = some y → YearOk (c.firstYear + k) y) : Inv c :=
  ⟨h1, h2, h3, fun k hk => h4 k _ (List.getElem?_eq_getElem hk)⟩

/-- `insert`, found branch: the year record exists -/
theorem insert_found (c : CompactCalendar) (d : Date) (hc : Inv c) (hd : d.valid = true)
    (y : Year) (hya : yearAt c d.year = some y) :
    ∃ c', CompactCalendar.insert c d = .ok (c', !abs c d) ∧ Inv c' ∧
      ∀ q, abs c' q = (decide (q = d) || abs c q) := by
  have hv : validYmd d.year d.month d.day = true := hd
  obtain ⟨hy1, hy2, hm1, hm2, hd1, hd2, hd3⟩ := valid_bounds hv
  obtain ⟨hb1, hb2⟩ := hc.bounds
  have hidx := yearIndex_ok "compact-calendar/src/lib.rs:53" c d (by omega) (by omega)
  have hge : ¬ d.year < c.firstYear := by intro h; simp [yearAt, h] at hya
  have hyk : c.years[(d.year - c.firstYear).toNat]? = some y := by simpa [yearAt, hge] using hya
  have hklt := (List.getElem?_eq_some_iff.1 hyk).1
  have hyok : YearOk d.year y := by
    have := hc.ok _ _ hyk
    have e : c.firstYear + ((d.year - c.firstYear).toNat : Int) = d.year := by omega
    rwa [e] at this
  obtain ⟨y', e1, e2, e3, e4⟩ := insert_year_ok d.year y d.month d.day hv hyok
  refine ⟨⟨c.firstYear, c.years.set (d.year - c.firstYear).toNat y'⟩, ?_, ?_, ?_⟩
  · unfold CompactCalendar.insert
    rw [hidx]
    have : ¬ d.year - c.firstYear < 0 := by omega
    simp only [this, ↓reduceIte, Option.bind_some, hyk, Option.map_some, e1]
    simp [abs, hya]
  · apply Inv.mk'
    · intro h
      simp only [List.set_eq_nil_iff] at h
      rw [h] at hklt; simp at hklt
    · simp only [List.getElem?_set]
      split
      · intro h; exact e4 (Option.some.inj h)
      · exact hc.2.1
    · simp only [List.getElem?_set, List.length_set]
      split
      · intro h; exact e4 (Option.some.inj h)
      · exact hc.2.2.1
    · intro k yk hk
      simp only [List.getElem?_set] at hk
      split at hk
      · rename_i heq
        cases hk
        have e : c.firstYear + (k : Int) = d.year := by omega
        simp only
        rw [e]; exact e3
      · exact hc.ok _ _ hk
  · apply abs_insert_of
    · intro mo dd
      unfold hasAt
      rw [hya]
      have : yearAt ⟨c.firstYear, c.years.set (d.year - c.firstYear).toNat y'⟩ d.year = some y' := by
        unfold yearAt
        simp only [hge, ↓reduceIte, List.getElem?_set, hklt]
      rw [this]
      exact e2 mo dd
    · intro Y hY mo dd
      unfold hasAt
      have : yearAt ⟨c.firstYear, c.years.set (d.year - c.firstYear).toNat y'⟩ Y = yearAt c Y := by
        unfold yearAt
        simp only
        split
        · rfl
        · rw [List.getElem?_set]
          have : ¬ ((d.year - c.firstYear).toNat = (Y - c.firstYear).toNat) := by omega
          rw [if_neg this]
      rw [this]


theorem notfound (c : CompactCalendar) (d : Date) (h : yearAt c d.year = none) :
    ((if d.year - c.firstYear < 0 then none else some (d.year - c.firstYear).toNat).bind
      (fun year0 => (c.years[year0]?).map (fun y => (year0, y)))) = none := by
  unfold yearAt at h
  split
  · rfl
  · rename_i hge
    have : ¬ d.year < c.firstYear := by omega
    rw [if_neg this] at h
    simp [h]

/-- `insert`, first insertion into the default calendar -/
theorem insert_empty (c : CompactCalendar) (d : Date) (hc : Inv c) (hd : d.valid = true)
    (he : c.years = []) :
    ∃ c', CompactCalendar.insert c d = .ok (c', !abs c d) ∧ Inv c' ∧
      ∀ q, abs c' q = (decide (q = d) || abs c q) := by
  have hv : validYmd d.year d.month d.day = true := hd
  obtain ⟨hy1, hy2, hm1, hm2, hd1, hd2, hd3⟩ := valid_bounds hv
  obtain ⟨hb1, hb2⟩ := hc.bounds
  have hidx := yearIndex_ok "compact-calendar/src/lib.rs:53" c d (by omega) (by omega)
  have hnone : ∀ Y, yearAt c Y = none := by intro Y; unfold yearAt; rw [he]; split <;> simp
  obtain ⟨y', e1, e2, e3, e4⟩ := insert_default_ok d.year d.month d.day hv
  refine ⟨⟨d.year, [y']⟩, ?_, ?_, ?_⟩
  · unfold CompactCalendar.insert
    rw [hidx]
    simp only [notfound c d (hnone _)]
    simp [he, e1, abs, hnone]
  · apply Inv.mk'
    · intro h; simp at h
    · simpa using e4
    · simpa using e4
    · intro k yk hk
      cases k with
      | zero => simp only [List.getElem?_cons_zero, Option.some.injEq] at hk; subst hk; simpa using e3
      | succ k => simp at hk
  · have hat : ∀ Y, yearAt ⟨d.year, [y']⟩ Y = if Y = d.year then some y' else none := by
      intro Y
      unfold yearAt
      simp only
      by_cases h1 : Y < d.year
      · have : ¬ Y = d.year := by omega
        rw [if_pos h1, if_neg this]
      · rw [if_neg h1]
        by_cases h2 : Y = d.year
        · subst h2; simp
        · obtain ⟨j, hj⟩ : ∃ j, (Y - d.year).toNat = j + 1 := ⟨(Y - d.year).toNat - 1, by omega⟩
          rw [hj, if_neg h2]; simp
    apply abs_insert_of
    · intro mo dd
      unfold hasAt
      rw [hat, hnone, if_pos rfl]
      simp [e2]
    · intro Y hY mo dd
      unfold hasAt
      rw [hat, hnone, if_neg hY]

/-- `insert`, date before the window: the window is extended downwards -/
theorem insert_front (c : CompactCalendar) (d : Date) (hc : Inv c) (hd : d.valid = true)
    (hne : c.years ≠ []) (hlt : d.year < c.firstYear) :
    ∃ c', CompactCalendar.insert c d = .ok (c', !abs c d) ∧ Inv c' ∧
      ∀ q, abs c' q = (decide (q = d) || abs c q) := by
  have hv : validYmd d.year d.month d.day = true := hd
  obtain ⟨hy1, hy2, hm1, hm2, hd1, hd2, hd3⟩ := valid_bounds hv
  obtain ⟨hb1, hb2⟩ := hc.bounds
  have hlen : 0 < c.years.length := List.length_pos_iff.2 hne
  have hidx := yearIndex_ok "compact-calendar/src/lib.rs:53" c d (by omega) (by omega)
  have hnone : yearAt c d.year = none := by unfold yearAt; rw [if_pos hlt]
  obtain ⟨y', e1, e2, e3, e4⟩ := insert_default_ok d.year d.month d.day hv
  obtain ⟨n', hn'⟩ : ∃ n', (c.firstYear - d.year).toNat = n' + 1 :=
    ⟨(c.firstYear - d.year).toNat - 1, by omega⟩
  have hshape := getElem?_front c.years y' (n' + 1)
  simp only [Nat.add_sub_cancel] at hshape
  refine ⟨⟨d.year, y' :: (List.replicate n' Year.default ++ c.years)⟩, ?_, ?_, ?_⟩
  · unfold CompactCalendar.insert
    rw [hidx]
    simp only [notfound c d hnone]
    have : c.years.isEmpty = false := by simpa using hne
    simp only [this, Bool.false_eq_true, ↓reduceIte, hlt, pushFrontN_eq, hn', List.replicate_succ,
      List.cons_append, e1]
    simp [abs, hnone]
  · apply Inv.mk'
    · intro h; simp at h
    · simpa using e4
    · simp only [List.length_cons, List.length_append, List.length_replicate]
      rw [hshape _ (by omega)]
      have h1 : ¬ (n' + c.years.length + 1 - 1 = 0) := by omega
      have h2 : ¬ (n' + c.years.length + 1 - 1 < n' + 1) := by omega
      have h3 : n' + c.years.length + 1 - 1 - (n' + 1) = c.years.length - 1 := by omega
      rw [if_neg h1, if_neg h2, h3]
      exact hc.2.2.1
    · intro k yk hk
      rw [hshape _ (by omega)] at hk
      simp only
      split at hk
      · rename_i h0; subst h0; cases hk; simpa using e3
      · split at hk
        · cases hk; exact yearOk_default _ (by omega) (by omega)
        · have := hc.ok _ _ hk
          have e : c.firstYear + ((k - (n' + 1) : Nat) : Int) = d.year + (k : Int) := by omega
          rwa [e] at this
  · apply abs_insert_of
    · intro mo dd
      have hcd : hasAt c d.year mo dd = false := by unfold hasAt; rw [hnone]
      rw [hcd]
      unfold hasAt yearAt
      simp only [Int.lt_irrefl, ↓reduceIte, Int.sub_self, Int.toNat_zero,
        List.getElem?_cons_zero, e2, Bool.or_false]
    · intro Y hY mo dd
      simp only [hasAt, yearAt]
      by_cases h1 : Y < d.year
      · have : Y < c.firstYear := by omega
        simp [h1, this]
      · rw [if_neg h1, hshape _ (by omega)]
        have h2 : ¬ ((Y - d.year).toNat = 0) := by omega
        rw [if_neg h2]
        by_cases h3 : Y < c.firstYear
        · have : (Y - d.year).toNat < n' + 1 := by omega
          simp [h3, this, Year.has_default]
        · have : ¬ (Y - d.year).toNat < n' + 1 := by omega
          have e : (Y - d.year).toNat - (n' + 1) = (Y - c.firstYear).toNat := by omega
          simp only [h3, this, ↓reduceIte, e]

/-- `insert`, date after the window: the window is extended upwards -/
theorem insert_back (c : CompactCalendar) (d : Date) (hc : Inv c) (hd : d.valid = true)
    (hne : c.years ≠ []) (hge : ¬ d.year < c.firstYear) (hnone : yearAt c d.year = none) :
    ∃ c', CompactCalendar.insert c d = .ok (c', !abs c d) ∧ Inv c' ∧
      ∀ q, abs c' q = (decide (q = d) || abs c q) := by
  have hv : validYmd d.year d.month d.day = true := hd
  obtain ⟨hy1, hy2, hm1, hm2, hd1, hd2, hd3⟩ := valid_bounds hv
  obtain ⟨hb1, hb2⟩ := hc.bounds
  have hlen : 0 < c.years.length := List.length_pos_iff.2 hne
  have hidx := yearIndex_ok "compact-calendar/src/lib.rs:53" c d (by omega) (by omega)
  have hout : c.years.length ≤ (d.year - c.firstYear).toNat := by
    unfold yearAt at hnone
    rw [if_neg hge] at hnone
    exact List.getElem?_eq_none_iff.1 hnone
  obtain ⟨y', e1, e2, e3, e4⟩ := insert_default_ok d.year d.month d.day hv
  obtain ⟨n, hn⟩ : ∃ n, (d.year - (c.firstYear + (c.years.length : Int) - 1)).toNat = n := ⟨_, rfl⟩
  have hn1 : 1 ≤ n := by omega
  have hshape := fun j => getElem?_back c.years y' n j hn1
  have hlast : (c.years ++ List.replicate n Year.default).getLast? = some Year.default := by
    rw [List.getLast?_eq_getElem?, List.getElem?_append]
    simp only [List.length_append, List.length_replicate, List.getElem?_replicate]
    have h1 : ¬ (c.years.length + n - 1 < c.years.length) := by omega
    have h2 : c.years.length + n - 1 - c.years.length < n := by omega
    rw [if_neg h1, if_pos h2]
  refine ⟨⟨c.firstYear, (c.years ++ List.replicate n Year.default).set (c.years.length + n - 1) y'⟩,
    ?_, ?_, ?_⟩
  · unfold CompactCalendar.insert
    rw [hidx]
    simp only [notfound c d hnone]
    have h0 : c.years.isEmpty = false := by simpa using hne
    have h1 : ¬ (c.years.length > 2147483647) := by omega
    have h2 : ¬ (c.firstYear + (c.years.length : Int) > 2147483647) := by omega
    have h3 : ¬ (c.firstYear + (c.years.length : Int) - 1 < -2147483648) := by omega
    simp only [h0, Bool.false_eq_true, ↓reduceIte, hge, h1, h2, h3, pushBackN_eq, hn, hlast, e1,
      List.length_append, List.length_replicate]
    simp [abs, hnone]
  · apply Inv.mk'
    · intro h
      have := congrArg List.length h
      simp at this
      omega
    · simp only
      rw [hshape, if_pos hlen]; exact hc.2.1
    · simp only [List.length_set, List.length_append, List.length_replicate]
      rw [hshape]
      have h1 : ¬ (c.years.length + n - 1 < c.years.length) := by omega
      have h2 : ¬ (c.years.length + n - 1 < c.years.length + n - 1) := by omega
      rw [if_neg h1, if_neg h2, if_pos rfl]
      intro h; exact e4 (Option.some.inj h)
    · intro k yk hk
      simp only at hk
      rw [hshape] at hk
      simp only
      split at hk
      · exact hc.ok _ _ hk
      · split at hk
        · cases hk; exact yearOk_default _ (by omega) (by omega)
        · split at hk
          · cases hk
            have e : c.firstYear + (k : Int) = d.year := by omega
            rw [e]; exact e3
          · cases hk
  · apply abs_insert_of
    · intro mo dd
      have hcd : hasAt c d.year mo dd = false := by unfold hasAt; rw [hnone]
      rw [hcd]
      unfold hasAt yearAt
      simp only [hge, ↓reduceIte]
      rw [hshape]
      have h1 : ¬ ((d.year - c.firstYear).toNat < c.years.length) := by omega
      have h2 : ¬ ((d.year - c.firstYear).toNat < c.years.length + n - 1) := by omega
      have h3 : (d.year - c.firstYear).toNat = c.years.length + n - 1 := by omega
      rw [if_neg h1, if_neg h2, if_pos h3]
      simp [e2]
    · intro Y hY mo dd
      simp only [hasAt, yearAt]
      by_cases h1 : Y < c.firstYear
      · simp [h1]
      · rw [if_neg h1, if_neg h1, hshape]
        by_cases h2 : (Y - c.firstYear).toNat < c.years.length
        · rw [if_pos h2]
        · rw [if_neg h2]
          have h3 : ¬ ((Y - c.firstYear).toNat = c.years.length + n - 1) := by omega
          have h4 : c.years[(Y - c.firstYear).toNat]? = none := List.getElem?_eq_none_iff.2 (by omega)
          rw [h4, if_neg h3]
          by_cases h5 : (Y - c.firstYear).toNat < c.years.length + n - 1
          · rw [if_pos h5]; simp [Year.has_default]
          · rw [if_neg h5]

/-- THE EFFECT OF `insert` on an invariant calendar and a valid date: no panic, the returned flag
says whether the date was new, the invariant is kept, the represented set gains exactly the date. -/
theorem insert_ok (c : CompactCalendar) (d : Date) (hc : Inv c) (hd : d.valid = true) :
    ∃ c', CompactCalendar.insert c d = .ok (c', !abs c d) ∧ Inv c' ∧
      ∀ q, abs c' q = (decide (q = d) || abs c q) := by
  cases hya : yearAt c d.year with
  | some y => exact insert_found c d hc hd y hya
  | none =>
    by_cases he : c.years = []
    · exact insert_empty c d hc hd he
    · by_cases hlt : d.year < c.firstYear
      · exact insert_front c d hc hd he hlt
      · exact insert_back c d hc hd he hlt hya


/-! ## the chronological order -/

open OH.Spec

theorem lt_iff (a b : Date) : DateSet.lt a b = true ↔
    (a.year < b.year ∨ (a.year = b.year ∧ (a.month < b.month ∨ (a.month = b.month ∧ a.day < b.day)))) := by
  simp [DateSet.lt]

theorem lt_false_iff (a b : Date) : DateSet.lt a b = false ↔
    ¬ (a.year < b.year ∨ (a.year = b.year ∧ (a.month < b.month ∨ (a.month = b.month ∧ a.day < b.day)))) := by
  rw [← lt_iff]; simp

theorem lt_irrefl (a : Date) : ¬ DateSet.lt a a = true := by rw [lt_iff]; omega

theorem lt_asymm (a b : Date) : DateSet.lt a b = true → DateSet.lt b a = true → False := by
  rw [lt_iff, lt_iff]; omega

theorem lt_trans {a b c : Date} : DateSet.lt a b = true → DateSet.lt b c = true → DateSet.lt a c = true := by
  rw [lt_iff, lt_iff, lt_iff]; omega

theorem lt_total {a b : Date} (h1 : DateSet.lt a b = false) (h2 : DateSet.lt b a = false) : a = b := by
  rw [lt_false_iff] at h1 h2
  apply Date.ext' <;> omega

/-! ## iteration -/

theorem abs_nil (yi : Int) (q : Date) : abs ⟨yi, []⟩ q = false := by
  unfold abs yearAt; by_cases h : q.year < yi <;> simp [h]

theorem abs_cons (yi : Int) (y : Year) (ys : List Year) (q : Date) :
    abs ⟨yi, y :: ys⟩ q =
      ((decide (q.year = yi) && Year.has y q.month q.day) || abs ⟨yi + 1, ys⟩ q) := by
  unfold abs yearAt
  simp only
  by_cases h1 : q.year < yi
  · have h2 : q.year < yi + 1 := by omega
    have h3 : ¬ q.year = yi := by omega
    simp [h1, h2, h3]
  · by_cases h2 : q.year = yi
    · have h3 : q.year < yi + 1 := by omega
      subst h2
      simp [h3]
    · have h3 : ¬ q.year < yi + 1 := by omega
      obtain ⟨j, hj⟩ : ∃ j, (q.year - yi).toNat = j + 1 := ⟨(q.year - yi).toNat - 1, by omega⟩
      have hj' : (q.year - (yi + 1)).toNat = j := by omega
      simp [h1, h2, h3, hj, hj']

theorem abs_window {c : CompactCalendar} {q : Date} (h : abs c q = true) :
    c.firstYear ≤ q.year ∧ q.year < c.firstYear + c.years.length := by
  unfold abs yearAt at h
  split at h
  · rename_i y hy
    split at hy
    · cases hy
    · have := (List.getElem?_eq_some_iff.1 hy).1
      omega
  · cases h

theorem abs_drop (yi : Int) (ys : List Year) (j : Nat) (z : Date) :
    abs ⟨yi + j, ys.drop j⟩ z = (decide (yi + j ≤ z.year) && abs ⟨yi, ys⟩ z) := by
  unfold abs yearAt
  simp only
  by_cases h1 : z.year < yi + j
  · have : ¬ (yi + j ≤ z.year) := by omega
    simp [h1, this]
  · have h2 : yi + j ≤ z.year := by omega
    have h3 : ¬ z.year < yi := by omega
    have e : j + (z.year - (yi + j)).toNat = (z.year - yi).toNat := by omega
    simp [h1, h2, h3, List.getElem?_drop, e]

/-- all records of the list `ys`, standing for years `yi, yi+1, …`, only hold existing days -/
def AllOk (yi : Int) (ys : List Year) : Prop := ∀ (k : Nat) y, ys[k]? = some y → YearOk (yi + k) y

theorem Inv.allOk {c : CompactCalendar} (h : Inv c) : AllOk c.firstYear c.years := fun k y hk => h.ok k y hk

theorem AllOk.head {yi : Int} {y : Year} {ys : List Year} (h : AllOk yi (y :: ys)) : YearOk yi y := by
  simpa using h 0 y (by simp)

theorem AllOk.tail {yi : Int} {y : Year} {ys : List Year} (h : AllOk yi (y :: ys)) : AllOk (yi + 1) ys := by
  intro k yk hk
  have := h (k + 1) yk (by simpa using hk)
  have e : yi + ((k + 1 : Nat) : Int) = yi + 1 + (k : Int) := by omega
  rwa [e] at this

theorem AllOk.drop {yi : Int} {ys : List Year} (h : AllOk yi ys) (j : Nat) : AllOk (yi + j) (ys.drop j) := by
  intro k yk hk
  rw [List.getElem?_drop] at hk
  have := h (j + k) yk hk
  have e : yi + ((j + k : Nat) : Int) = yi + (j : Int) + (k : Int) := by omega
  rwa [e] at this

/-- the dates of a window, in storage order (what `iter` yields when nothing panics) -/
def datesFrom (yi : Int) : List Year → List Date
  | [] => []
  | y :: ys => (Year.iter y).map (fun md => (⟨yi, md.1, md.2⟩ : Date)) ++ datesFrom (yi + 1) ys

theorem mem_datesFrom : ∀ (ys : List Year) (yi : Int) (q : Date),
    q ∈ datesFrom yi ys ↔ abs ⟨yi, ys⟩ q = true := by
  intro ys
  induction ys with
  | nil => intro yi q; simp [datesFrom, abs_nil]
  | cons y ys ih =>
    intro yi q
    rw [abs_cons]
    simp only [datesFrom, List.mem_append, List.mem_map, Bool.or_eq_true, Bool.and_eq_true,
      decide_eq_true_eq, ih]
    constructor
    · rintro (⟨⟨mo, d⟩, hmd, rfl⟩ | h)
      · exact Or.inl ⟨rfl, (Year.mem_iter y mo d).1 hmd⟩
      · exact Or.inr h
    · rintro (⟨h1, h2⟩ | h)
      · refine Or.inl ⟨(q.month, q.day), (Year.mem_iter y _ _).2 h2, ?_⟩
        exact Date.ext' h1.symm rfl rfl
      · exact Or.inr h

theorem sorted_datesFrom : ∀ (ys : List Year) (yi : Int),
    (datesFrom yi ys).Pairwise (fun a b => DateSet.lt a b = true) := by
  intro ys
  induction ys with
  | nil => intro yi; simp [datesFrom]
  | cons y ys ih =>
    intro yi
    simp only [datesFrom]
    rw [List.pairwise_append]
    refine ⟨?_, ih _, ?_⟩
    · rw [List.pairwise_map]
      apply (Year.sorted_iter y).imp
      intro a b hab
      rw [lt_iff]
      unfold pairLt at hab
      exact Or.inr ⟨rfl, hab⟩
    · intro a ha b hb
      obtain ⟨md, _, rfl⟩ := List.mem_map.1 ha
      have := abs_window ((mem_datesFrom _ _ _).1 hb)
      rw [lt_iff]
      simp only at this ⊢
      omega

theorem sum_le_mul (l : List Nat) (b : Nat) (h : ∀ x ∈ l, x ≤ b) : l.sum ≤ b * l.length := by
  induction l with
  | nil => simp
  | cons a l ih =>
    have h1 := h a (by simp)
    have h2 := ih (fun x hx => h x (List.mem_cons_of_mem _ hx))
    simp only [List.sum_cons, List.length_cons, Nat.mul_add]
    omega

theorem year_count_le (y : Year) : Year.count y ≤ 384 := by
  unfold Year.count
  have := sum_le_mul (y.toList.map Month.count) 32 (by
    intro x hx
    obtain ⟨m, _, rfl⟩ := List.mem_map.1 hx
    unfold Month.count countOnes
    have := List.length_filter_le m.testBit (List.range 32)
    simpa using this)
  simpa using this

theorem length_datesFrom : ∀ (ys : List Year) (yi : Int), AllOk yi ys →
    (datesFrom yi ys).length = (ys.map Year.count).sum := by
  intro ys
  induction ys with
  | nil => intro yi _; simp [datesFrom]
  | cons y ys ih =>
    intro yi h
    simp only [datesFrom, List.length_append, List.length_map, List.map_cons, List.sum_cons]
    rw [ih _ h.tail, Year.count_eq y h.head.lt32]

/-- `count` counts the represented dates -/
theorem count_ok (c : CompactCalendar) (hc : Inv c) :
    CompactCalendar.count c = .ok (datesFrom c.firstYear c.years).length := by
  unfold CompactCalendar.count
  simp only
  rw [length_datesFrom _ _ hc.allOk]
  have := sum_le_mul (c.years.map Year.count) 384 (by
    intro x hx
    obtain ⟨y, _, rfl⟩ := List.mem_map.1 hx
    exact year_count_le y)
  simp only [List.length_map] at this
  have hb := hc.bounds
  have : ¬ ((c.years.map Year.count).sum > 4294967295) := by omega
  rw [if_neg this]

def mkDate (yi : Int) (md : Nat × Nat) : Date := ⟨yi, md.1, md.2⟩

theorem collect_map_append (site : String) (yi : Int) (rest : List (Except String Date)) :
    ∀ (l : List (Nat × Nat)), (∀ md ∈ l, validYmd yi md.1 md.2 = true) →
    CompactCalendar.collect (l.map (fun md => expectYmd site yi md.1 md.2) ++ rest) =
      match CompactCalendar.collect rest with
      | .error e => .error e
      | .ok ds => .ok (l.map (fun md => (⟨yi, md.1, md.2⟩ : Date)) ++ ds) := by
  intro l
  induction l with
  | nil => intro _; simp only [List.map_nil, List.nil_append]; split <;> simp_all
  | cons a l ih =>
    intro h
    have ha := h a (by simp)
    have := ih (fun md hmd => h md (List.mem_cons_of_mem _ hmd))
    have e : expectYmd site yi a.1 a.2 = .ok ⟨yi, a.1, a.2⟩ := by simp [expectYmd, ha]
    simp only [List.map_cons, List.cons_append, e, CompactCalendar.collect, this]
    cases CompactCalendar.collect rest <;> simp

theorem next_map_append (site : String) (yi : Int) (rest : List (Except String Date)) :
    ∀ (l : List (Nat × Nat)), (∀ md ∈ l, validYmd yi md.1 md.2 = true) →
    CompactCalendar.next (l.map (fun md => expectYmd site yi md.1 md.2) ++ rest) =
      match l with
      | [] => CompactCalendar.next rest
      | md :: _ => .ok (some ⟨yi, md.1, md.2⟩) := by
  intro l h
  cases l with
  | nil => simp
  | cons a l =>
    have ha := h a (by simp)
    simp [expectYmd, ha, CompactCalendar.next]

theorem year_iter_valid {yi : Int} {y : Year} (h : YearOk yi y) :
    ∀ md ∈ Year.iter y, validYmd yi md.1 md.2 = true := by
  intro md hmd
  exact h.valid ((Year.mem_iter y md.1 md.2).1 hmd)

/-- `iter().collect()` does not panic and yields `datesFrom` -/
theorem collect_iterFrom (site : String) : ∀ (ys : List Year) (yi : Int), AllOk yi ys →
    yi + ys.length < 2147483647 →
    CompactCalendar.collect (CompactCalendar.iterFrom site yi ys) = .ok (datesFrom yi ys) := by
  intro ys
  induction ys with
  | nil =>
    intro yi _ hb
    unfold CompactCalendar.iterFrom
    have : ¬ yi ≥ 2147483647 := by simp at hb; omega
    simp [this, CompactCalendar.collect, datesFrom]
  | cons y ys ih =>
    intro yi h hb
    unfold CompactCalendar.iterFrom
    have : ¬ yi ≥ 2147483647 := by simp at hb; omega
    simp only [this, ↓reduceIte]
    rw [collect_map_append _ _ _ _ (year_iter_valid h.head), ih _ h.tail (by simp at hb ⊢; omega)]
    simp [datesFrom]

/-- `iter().next()` does not panic and yields the head of `datesFrom` -/
theorem next_iterFrom (site : String) : ∀ (ys : List Year) (yi : Int), AllOk yi ys →
    yi + ys.length < 2147483647 →
    CompactCalendar.next (CompactCalendar.iterFrom site yi ys) = .ok (datesFrom yi ys).head? := by
  intro ys
  induction ys with
  | nil =>
    intro yi _ hb
    unfold CompactCalendar.iterFrom
    have : ¬ yi ≥ 2147483647 := by simp at hb; omega
    simp [this, CompactCalendar.next, datesFrom]
  | cons y ys ih =>
    intro yi h hb
    unfold CompactCalendar.iterFrom
    have : ¬ yi ≥ 2147483647 := by simp at hb; omega
    simp only [this, ↓reduceIte]
    rw [next_map_append _ _ _ _ (year_iter_valid h.head), ih _ h.tail (by simp at hb ⊢; omega)]
    simp only [datesFrom]
    cases Year.iter y with
    | nil => simp
    | cons a l => simp


/-! ## first_after -/

/-- `r` is the strictly next member of the set `S` after `q`: the least member greater than `q`,
`none` iff there is no member greater than `q` -/
def IsFirstAfter (S : Date → Bool) (q : Date) : Option Date → Prop
  | none => ∀ z, S z = true → DateSet.lt q z = false
  | some x => S x = true ∧ DateSet.lt q x = true ∧
      ∀ z, S z = true → DateSet.lt q z = true → DateSet.lt z x = false

theorem firstFrom_ok (site : String) : ∀ (ys : List Year) (yi : Int), AllOk yi ys →
    yi + ys.length < 2147483647 →
    ∃ r, CompactCalendar.firstFrom site yi ys = .ok r ∧
      (r = none → ∀ z, abs ⟨yi, ys⟩ z = false) ∧
      (∀ x, r = some x → abs ⟨yi, ys⟩ x = true ∧
        ∀ z, abs ⟨yi, ys⟩ z = true → DateSet.lt z x = false) := by
  intro ys
  induction ys with
  | nil =>
    intro yi _ hb
    have : ¬ yi ≥ 2147483647 := by simp at hb; omega
    refine ⟨none, ?_, fun _ z => abs_nil yi z, by simp⟩
    unfold CompactCalendar.firstFrom
    rw [if_neg this]
  | cons y ys ih =>
    intro yi h hb
    have hge : ¬ yi ≥ 2147483647 := by simp at hb; omega
    unfold CompactCalendar.firstFrom
    rw [if_neg hge]
    cases hf : Year.first y with
    | some md =>
      obtain ⟨mo, d⟩ := md
      obtain ⟨h1, h2⟩ := Year.first_some y mo d hf
      have hv := h.head.valid h1
      refine ⟨some ⟨yi, mo, d⟩, by simp only [hf]; simp [expectYmd, hv], by simp, ?_⟩
      intro x hx
      cases hx
      constructor
      · rw [abs_cons]; simp [h1]
      · intro z hz
        rw [abs_cons] at hz
        rw [lt_false_iff]
        simp only [Bool.or_eq_true, Bool.and_eq_true, decide_eq_true_eq] at hz
        rcases hz with ⟨e, hz⟩ | hz
        · have := h2 _ _ hz
          unfold pairLe at this
          simp only at this ⊢
          omega
        · have := abs_window hz
          simp only at this ⊢
          omega
    | none =>
      have h0 := Year.first_none y hf
      obtain ⟨r, e, hn, hs⟩ := ih (yi + 1) h.tail (by simp at hb ⊢; omega)
      refine ⟨r, by simp only [hf, e], ?_, ?_⟩
      · intro hr z
        rw [abs_cons, h0, hn hr]; simp
      · intro x hx
        obtain ⟨a, b⟩ := hs x hx
        constructor
        · rw [abs_cons, a]; simp
        · intro z hz
          rw [abs_cons, h0] at hz
          simp only [Bool.and_false, Bool.false_or] at hz
          exact b z hz

theorem abs_of_yearAt {c : CompactCalendar} {q : Date} {y : Year} (h : yearAt c q.year = some y) :
    abs c q = Year.has y q.month q.day := by
  unfold abs; rw [h]

/-- `first_after` on an invariant calendar, for any valid query date: no panic, and the result is
the strictly next member -/
theorem firstAfter_ok (c : CompactCalendar) (q : Date) (hc : Inv c) (hq : q.valid = true) :
    ∃ r, CompactCalendar.firstAfter c q = .ok r ∧ IsFirstAfter (abs c) q r := by
  have hv : validYmd q.year q.month q.day = true := hq
  obtain ⟨hy1, hy2, hm1, hm2, hd1, hd2, hd3⟩ := valid_bounds hv
  obtain ⟨hb1, hb2⟩ := hc.bounds
  unfold CompactCalendar.firstAfter
  rw [yearFor_ok c q (by omega) (by omega)]
  cases hya : yearAt c q.year with
  | some y =>
    have hge : ¬ q.year < c.firstYear := by intro h; simp [yearAt, h] at hya
    have hyk : c.years[(q.year - c.firstYear).toNat]? = some y := by simpa [yearAt, hge] using hya
    have hyok : YearOk q.year y := by
      have := hc.ok _ _ hyk
      have e : c.firstYear + ((q.year - c.firstYear).toNat : Int) = q.year := by omega
      rwa [e] at this
    have hsame : ∀ z : Date, z.year = q.year → abs c z = Year.has y z.month z.day := by
      intro z hz; apply abs_of_yearAt; rw [hz]; exact hya
    obtain ⟨r0, e0, hn, hs⟩ := Year.firstAfter_ok y q.month q.day ⟨hm1, hm2⟩ ⟨hd1, hd3⟩
    simp only [e0]
    cases r0 with
    | some md =>
      obtain ⟨mo, d⟩ := md
      obtain ⟨a1, a2, a3⟩ := hs _ rfl
      have hvx := hyok.valid a2
      refine ⟨some ⟨q.year, mo, d⟩, by simp [expectYmd, hvx], ?_, ?_, ?_⟩
      · rw [hsame ⟨q.year, mo, d⟩ rfl]; exact a2
      · rw [lt_iff]; exact Or.inr ⟨rfl, a1⟩
      · intro z hz hlt
        rw [lt_iff] at hlt
        rw [lt_false_iff]
        by_cases hzy : z.year = q.year
        · rw [hsame z hzy] at hz
          have := a3 z.month z.day (by unfold pairLt; simp only; omega) hz
          unfold pairLe at this
          simp only at this ⊢
          omega
        · simp only; omega
    | none =>
      have hn := hn rfl
      have hidx := yearIndex_ok "compact-calendar/src/lib.rs:192" c q (by omega) (by omega)
      have hneg : ¬ q.year - c.firstYear < 0 := by omega
      have hof : ¬ q.year + 1 > 2147483647 := by omega
      simp only [hidx, hneg, ↓reduceIte, hof]
      have hallok := hc.allOk.drop ((q.year - c.firstYear).toNat + 1)
      have eY : c.firstYear + (((q.year - c.firstYear).toNat + 1 : Nat) : Int) = q.year + 1 := by omega
      rw [eY] at hallok
      obtain ⟨r, e, hrn, hrs⟩ := firstFrom_ok "compact-calendar/src/lib.rs:200" _ _ hallok (by
        simp only [List.length_drop]; omega)
      have hdrop : ∀ z, abs ⟨q.year + 1, c.years.drop ((q.year - c.firstYear).toNat + 1)⟩ z =
          (decide (q.year + 1 ≤ z.year) && abs c z) := by
        intro z
        have := abs_drop c.firstYear c.years ((q.year - c.firstYear).toNat + 1) z
        rw [eY] at this
        exact this
      refine ⟨r, e, ?_⟩
      cases r with
      | none =>
        intro z hz
        rw [lt_false_iff]
        by_cases hzy : z.year = q.year
        · rw [hsame z hzy] at hz
          intro hlt
          have := hn z.month z.day (by unfold pairLt; simp only; omega)
          rw [this] at hz; cases hz
        · have := hrn rfl z
          rw [hdrop, hz] at this
          simp only [Bool.and_true, decide_eq_false_iff_not] at this
          omega
      | some x =>
        obtain ⟨b1, b2⟩ := hrs x rfl
        rw [hdrop] at b1
        simp only [Bool.and_eq_true, decide_eq_true_eq] at b1
        refine ⟨b1.2, by rw [lt_iff]; omega, ?_⟩
        intro z hz hlt
        by_cases hzy : z.year = q.year
        · rw [hsame z hzy] at hz
          rw [lt_iff] at hlt
          have := hn z.month z.day (by unfold pairLt; simp only; omega)
          rw [this] at hz; cases hz
        · apply b2
          rw [hdrop, hz]
          rw [lt_iff] at hlt
          simp only [Bool.and_true, decide_eq_true_eq]
          omega
  | none =>
    simp only
    by_cases hlt : q.year < c.firstYear
    · rw [if_pos hlt]
      unfold CompactCalendar.iter
      rw [next_iterFrom _ _ _ hc.allOk (by omega)]
      refine ⟨_, rfl, ?_⟩
      have hsorted := sorted_datesFrom c.years c.firstYear
      have hmem := mem_datesFrom c.years c.firstYear
      cases hl : datesFrom c.firstYear c.years with
      | nil =>
        intro z hz
        have := (hmem z).2 hz
        rw [hl] at this; cases this
      | cons x l =>
        rw [hl] at hsorted hmem
        rw [List.pairwise_cons] at hsorted
        have hx : abs c x = true := (hmem x).1 (by simp)
        refine ⟨hx, ?_, ?_⟩
        · have := abs_window hx
          rw [lt_iff]; omega
        · intro z hz _
          have := (hmem z).2 hz
          rw [List.mem_cons] at this
          rcases this with e | hzl
          · subst e
            exact Bool.eq_false_iff.2 (lt_irrefl z)
          · have := hsorted.1 z hzl
            exact Bool.eq_false_iff.2 (fun h => lt_asymm _ _ this h)
    · rw [if_neg hlt]
      refine ⟨none, rfl, ?_⟩
      intro z hz
      have hw := abs_window hz
      have : c.years.length ≤ (q.year - c.firstYear).toNat := by
        unfold yearAt at hya
        rw [if_neg hlt] at hya
        exact List.getElem?_eq_none_iff.1 hya
      rw [lt_false_iff]
      omega


/-! ## histories -/

theorem abs_default (q : Date) : abs CompactCalendar.default q = false := abs_nil 0 q

theorem insertAll_ok : ∀ (ds : List Date) (c : CompactCalendar), Inv c → (∀ d ∈ ds, d.valid = true) →
    ∃ c', CompactCalendar.insertAll c ds = .ok c' ∧ Inv c' ∧
      ∀ q, abs c' q = (abs c q || decide (q ∈ ds)) := by
  intro ds
  induction ds with
  | nil => intro c hc _; exact ⟨c, rfl, hc, by simp⟩
  | cons d ds ih =>
    intro c hc hv
    obtain ⟨c1, e1, hc1, a1⟩ := insert_ok c d hc (hv d (by simp))
    obtain ⟨c2, e2, hc2, a2⟩ := ih c1 hc1 (fun x hx => hv x (List.mem_cons_of_mem _ hx))
    refine ⟨c2, by simp only [CompactCalendar.insertAll, e1, e2], hc2, ?_⟩
    intro q
    rw [a2, a1]
    by_cases h1 : q = d
    · simp [h1]
    · simp [h1]

/-- every history of valid insertions runs without panic, ends in an invariant calendar, and that
calendar represents exactly the inserted dates -/
theorem fromList_ok (ds : List Date) (hv : ∀ d ∈ ds, d.valid = true) :
    ∃ c, CompactCalendar.fromList ds = .ok c ∧ Inv c ∧ ∀ q, abs c q = decide (q ∈ ds) := by
  obtain ⟨c, e, hc, a⟩ := insertAll_ok ds CompactCalendar.default inv_default hv
  exact ⟨c, e, hc, fun q => by rw [a, abs_default]; simp⟩

/-! ## equality -/

theorem abs_at (c : CompactCalendar) (k : Nat) (y : Year) (hk : c.years[k]? = some y) (mo d : Nat) :
    abs c ⟨c.firstYear + k, mo, d⟩ = Year.has y mo d := by
  apply abs_of_yearAt
  unfold yearAt
  simp only
  have h1 : ¬ (c.firstYear + (k : Int) < c.firstYear) := by omega
  have h2 : (c.firstYear + (k : Int) - c.firstYear).toNat = k := by omega
  rw [if_neg h1, h2, hk]

theorem exists_has_of_ne_default (y : Year) (h : y ≠ Year.default) : ∃ mo d, Year.has y mo d = true := by
  apply Classical.byContradiction
  intro hno
  apply h
  apply Vector.ext
  intro j hj
  unfold Year.default
  rw [Vector.getElem_replicate]
  apply Classical.byContradiction
  intro hne
  obtain ⟨i, hi⟩ := Nat.exists_testBit_of_ne_zero hne
  apply hno
  refine ⟨j + 1, i + 1, ?_⟩
  unfold Year.has
  have : 1 ≤ j + 1 ∧ j + 1 ≤ 12 := by omega
  rw [dif_pos this]
  simp [Month.has, hi]

theorem year_ext (y₁ y₂ : Year) (h : ∀ mo d, Year.has y₁ mo d = Year.has y₂ mo d) : y₁ = y₂ := by
  apply Vector.ext
  intro j hj
  apply Nat.eq_of_testBit_eq
  intro i
  have := h (j + 1) (i + 1)
  unfold Year.has at this
  have hm : 1 ≤ j + 1 ∧ j + 1 ≤ 12 := by omega
  rw [dif_pos hm, dif_pos hm] at this
  simpa [Month.has] using this

theorem window_le {c₁ c₂ : CompactCalendar} (h1 : Inv c₁) (hne : c₁.years ≠ [])
    (h : ∀ q, abs c₁ q = abs c₂ q) :
    c₂.firstYear ≤ c₁.firstYear ∧
      c₁.firstYear + c₁.years.length ≤ c₂.firstYear + c₂.years.length := by
  have hlen : 0 < c₁.years.length := List.length_pos_iff.2 hne
  constructor
  · have hk : c₁.years[0]? = some c₁.years[0] := List.getElem?_eq_getElem hlen
    have hnd : c₁.years[0] ≠ Year.default := fun e => h1.2.1 (by rw [hk, e])
    obtain ⟨mo, d, hh⟩ := exists_has_of_ne_default _ hnd
    have := abs_at c₁ 0 _ hk mo d
    rw [hh, h] at this
    have := abs_window this
    simp only at this
    omega
  · have hl : c₁.years.length - 1 < c₁.years.length := by omega
    have hk : c₁.years[c₁.years.length - 1]? = some c₁.years[c₁.years.length - 1] :=
      List.getElem?_eq_getElem hl
    have hnd : c₁.years[c₁.years.length - 1] ≠ Year.default := fun e => h1.2.2.1 (by rw [hk, e])
    obtain ⟨mo, d, hh⟩ := exists_has_of_ne_default _ hnd
    have := abs_at c₁ _ _ hk mo d
    rw [hh, h] at this
    have := abs_window this
    simp only at this
    omega

/-- two invariant calendars representing the same set are structurally equal -/
theorem eq_of_abs_eq (c₁ c₂ : CompactCalendar) (h1 : Inv c₁) (h2 : Inv c₂)
    (h : ∀ q, abs c₁ q = abs c₂ q) : c₁ = c₂ := by
  by_cases e1 : c₁.years = []
  · by_cases e2 : c₂.years = []
    · have f1 := h1.1 e1
      have f2 := h2.1 e2
      cases c₁; cases c₂
      simp only at e1 e2 f1 f2
      subst e1 e2 f1 f2; rfl
    · have := (window_le h2 e2 (fun q => (h q).symm)).2
      rw [e1] at this
      have hlen : 0 < c₂.years.length := List.length_pos_iff.2 e2
      simp only [List.length_nil] at this
      have := (window_le h2 e2 (fun q => (h q).symm)).1
      omega
  · by_cases e2 : c₂.years = []
    · have := (window_le h1 e1 h).2
      rw [e2] at this
      have hlen : 0 < c₁.years.length := List.length_pos_iff.2 e1
      simp only [List.length_nil] at this
      have := (window_le h1 e1 h).1
      omega
    · obtain ⟨a1, a2⟩ := window_le h1 e1 h
      obtain ⟨b1, b2⟩ := window_le h2 e2 (fun q => (h q).symm)
      have hfy : c₁.firstYear = c₂.firstYear := by omega
      have hlen : c₁.years.length = c₂.years.length := by omega
      have hys : c₁.years = c₂.years := by
        apply List.ext_getElem hlen
        intro k hk1 hk2
        apply year_ext
        intro mo d
        have g1 := abs_at c₁ k _ (List.getElem?_eq_getElem hk1) mo d
        have g2 := abs_at c₂ k _ (List.getElem?_eq_getElem hk2) mo d
        rw [← g1, ← g2, hfy, h]
      cases c₁; cases c₂
      simp only at hfy hys
      subst hfy hys; rfl

/-! ## the sorted-list specification -/

theorem spec_mem_insert (d x : Date) : ∀ (s : List Date), x ∈ DateSet.insert d s ↔ (x = d ∨ x ∈ s) := by
  intro s
  induction s with
  | nil => simp [DateSet.insert]
  | cons a s ih =>
    simp only [DateSet.insert]
    split
    · simp
    · split
      · rename_i e; subst e; simp
      · simp only [List.mem_cons, ih]
        constructor
        · rintro (h | h | h)
          · exact Or.inr (Or.inl h)
          · exact Or.inl h
          · exact Or.inr (Or.inr h)
        · rintro (h | h | h)
          · exact Or.inr (Or.inl h)
          · exact Or.inl h
          · exact Or.inr (Or.inr h)

theorem spec_sorted_insert (d : Date) : ∀ (s : List Date),
    s.Pairwise (fun a b => DateSet.lt a b = true) →
    (DateSet.insert d s).Pairwise (fun a b => DateSet.lt a b = true) := by
  intro s
  induction s with
  | nil => intro _; simp [DateSet.insert]
  | cons a s ih =>
    intro hs
    have hs' := List.pairwise_cons.1 hs
    simp only [DateSet.insert]
    split
    · rename_i hlt
      rw [List.pairwise_cons]
      refine ⟨?_, hs⟩
      intro z hz
      rw [List.mem_cons] at hz
      rcases hz with e | hz
      · subst e; exact hlt
      · exact lt_trans hlt (hs'.1 z hz)
    · split
      · exact hs
      · rename_i hnlt hne
        rw [List.pairwise_cons]
        refine ⟨?_, ih hs'.2⟩
        intro z hz
        rw [spec_mem_insert] at hz
        rcases hz with e | hz
        · subst e
          apply Classical.byContradiction
          intro hh
          exact hne (lt_total (by simpa using hnlt) (by simpa using hh))
        · exact hs'.1 z hz

theorem spec_foldl (ds : List Date) : ∀ (acc : List Date),
    acc.Pairwise (fun a b => DateSet.lt a b = true) →
    (ds.foldl (fun s d => DateSet.insert d s) acc).Pairwise (fun a b => DateSet.lt a b = true) ∧
    ∀ x, x ∈ ds.foldl (fun s d => DateSet.insert d s) acc ↔ (x ∈ acc ∨ x ∈ ds) := by
  induction ds with
  | nil => intro acc h; simp [h]
  | cons d ds ih =>
    intro acc h
    obtain ⟨a, b⟩ := ih (DateSet.insert d acc) (spec_sorted_insert d acc h)
    refine ⟨a, ?_⟩
    intro x
    simp only [List.foldl_cons, b, spec_mem_insert, List.mem_cons]
    constructor
    · rintro ((h | h) | h)
      · exact Or.inr (Or.inl h)
      · exact Or.inl h
      · exact Or.inr (Or.inr h)
    · rintro (h | h | h)
      · exact Or.inl (Or.inr h)
      · exact Or.inl (Or.inl h)
      · exact Or.inr h

theorem spec_sorted_ofList (ds : List Date) :
    (DateSet.ofList ds).Pairwise (fun a b => DateSet.lt a b = true) :=
  (spec_foldl ds [] List.Pairwise.nil).1

theorem spec_mem_ofList (ds : List Date) (x : Date) : x ∈ DateSet.ofList ds ↔ x ∈ ds := by
  have := (spec_foldl ds [] List.Pairwise.nil).2 x
  simpa [DateSet.ofList] using this

theorem find_isFirstAfter (q : Date) : ∀ (l : List Date), l.Pairwise (fun a b => DateSet.lt a b = true) →
    IsFirstAfter (fun x => decide (x ∈ l)) q (l.find? (fun x => DateSet.lt q x)) := by
  intro l
  induction l with
  | nil => intro _; simp [IsFirstAfter]
  | cons a l ih =>
    intro hs
    have hs' := List.pairwise_cons.1 hs
    rw [List.find?_cons]
    cases hqa : DateSet.lt q a with
    | true =>
      simp only
      refine ⟨by simp, hqa, ?_⟩
      intro z hz _
      simp only [List.mem_cons, decide_eq_true_eq] at hz
      rcases hz with e | hz
      · subst e; exact Bool.eq_false_iff.2 (lt_irrefl z)
      · exact Bool.eq_false_iff.2 (fun h => lt_asymm _ _ (hs'.1 z hz) h)
    | false =>
      simp only
      have := ih hs'.2
      cases hf : l.find? (fun x => DateSet.lt q x) with
      | none =>
        rw [hf] at this
        intro z hz
        simp only [List.mem_cons, decide_eq_true_eq] at hz
        rcases hz with e | hz
        · subst e; exact hqa
        · exact this z (by simpa using hz)
      | some x =>
        rw [hf] at this
        obtain ⟨b1, b2, b3⟩ := this
        refine ⟨?_, b2, ?_⟩
        · simp only [decide_eq_true_eq] at b1; simp [b1]
        · intro z hz hlt
          simp only [List.mem_cons, decide_eq_true_eq] at hz
          rcases hz with e | hz
          · subst e; rw [hqa] at hlt; cases hlt
          · exact b3 z (by simpa using hz) hlt

theorem isFirstAfter_unique (S S' : Date → Bool) (q : Date) (hS : ∀ z, S z = S' z)
    (r r' : Option Date) (h : IsFirstAfter S q r) (h' : IsFirstAfter S' q r') : r = r' := by
  cases r with
  | none =>
    cases r' with
    | none => rfl
    | some x' =>
      obtain ⟨b1, b2, _⟩ := h'
      have := h x' (by rw [hS]; exact b1)
      rw [this] at b2; cases b2
  | some x =>
    obtain ⟨a1, a2, a3⟩ := h
    cases r' with
    | none =>
      have := h' x (by rw [← hS]; exact a1)
      rw [this] at a2; cases a2
    | some x' =>
      obtain ⟨b1, b2, b3⟩ := h'
      have e1 := a3 x' (by rw [hS]; exact b1) b2
      have e2 := b3 x (by rw [← hS]; exact a1) a2
      rw [lt_total e2 e1]


/-! ## serialization -/

theorem u32_roundtrip (n : Nat) (rest : List Nat) (h : n < 4294967296) :
    u32OfLe (u32ToLe n ++ rest) = some (n, rest) := by
  unfold u32ToLe u32OfLe
  simp only [List.cons_append, List.nil_append, Option.some.injEq, Prod.mk.injEq, and_true]
  omega

theorem i32_roundtrip (x : Int) (rest : List Nat) (h1 : -2147483648 ≤ x) (h2 : x ≤ 2147483647) :
    i32OfLe (i32ToLe x ++ rest) = some (x, rest) := by
  unfold i32OfLe i32ToLe
  rw [u32_roundtrip _ _ (by omega)]
  simp only [Option.some.injEq, Prod.mk.injEq, and_true]
  split <;> omega

theorem u64_roundtrip (n : Nat) (rest : List Nat) (h : n < 18446744073709551616) :
    u64OfLe (u64ToLe n ++ rest) = some (n, rest) := by
  unfold u64OfLe u64ToLe
  rw [List.append_assoc, u32_roundtrip _ _ (by omega)]
  simp only
  rw [u32_roundtrip _ _ (by omega)]
  simp only [Option.some.injEq, Prod.mk.injEq, and_true]
  omega

theorem readMonths_roundtrip : ∀ (ms : List Nat) (rest : List Nat), (∀ m ∈ ms, m < 4294967296) →
    Year.readMonths ms.length (ms.flatMap Month.serialize ++ rest) = some (ms, rest) := by
  intro ms
  induction ms with
  | nil => intro rest _; simp [Year.readMonths]
  | cons m ms ih =>
    intro rest h
    simp only [List.length_cons, Year.readMonths, List.flatMap_cons, List.append_assoc,
      Month.deserialize, Month.serialize]
    rw [u32_roundtrip _ _ (h m (by simp))]
    simp only
    rw [ih rest (fun x hx => h x (List.mem_cons_of_mem _ hx))]

theorem year_deserialize_of (bs rest : List Nat) (y : Year)
    (h : Year.readMonths 12 bs = some (y.toList, rest)) : Year.deserialize bs = some (y, rest) := by
  unfold Year.deserialize
  split
  · rename_i h0; rw [h0] at h; cases h
  · rename_i ms r h0
    rw [h0] at h
    simp only [Option.some.injEq, Prod.mk.injEq] at h
    obtain ⟨e1, e2⟩ := h
    subst e2
    simp only [Option.some.injEq, Prod.mk.injEq, and_true]
    apply Vector.ext
    intro i hi
    simp only [Vector.getElem_mk, List.getElem_toArray, e1, Vector.getElem_toList]

/-- the masks of a year record are `u32` values -/
def YearU32 (y : Year) : Prop := ∀ j (hj : j < 12), y[j] < 4294967296

instance (y : Year) : Decidable (YearU32 y) := by unfold YearU32; exact inferInstance

theorem year_roundtrip (y : Year) (rest : List Nat) (h : YearU32 y) :
    Year.deserialize (Year.serialize y ++ rest) = some (y, rest) := by
  apply year_deserialize_of
  have := readMonths_roundtrip y.toList rest (by
    intro m hm
    obtain ⟨j, hj, e⟩ := List.getElem_of_mem hm
    have hj' : j < 12 := by simpa using hj
    have := h j hj'
    rw [← Vector.getElem_toList (by simpa using hj')] at this
    rw [← e]; exact this)
  simpa [Year.serialize] using this

theorem readYears_roundtrip : ∀ (ys : List Year) (rest : List Nat), (∀ y ∈ ys, YearU32 y) →
    CompactCalendar.readYears ys.length (ys.flatMap Year.serialize ++ rest) = some (ys, rest) := by
  intro ys
  induction ys with
  | nil => intro rest _; simp [CompactCalendar.readYears]
  | cons y ys ih =>
    intro rest h
    simp only [List.length_cons, CompactCalendar.readYears, List.flatMap_cons, List.append_assoc]
    rw [year_roundtrip _ _ (h y (by simp))]
    simp only
    rw [ih rest (fun x hx => h x (List.mem_cons_of_mem _ hx))]

/-- a calendar value that exists in memory: `first_year` is an `i32`, the length a `usize`,
the masks are `u32` -/
def Repr (c : CompactCalendar) : Prop :=
  -2147483648 ≤ c.firstYear ∧ c.firstYear ≤ 2147483647 ∧
  c.years.length < 18446744073709551616 ∧ ∀ y ∈ c.years, YearU32 y

instance (c : CompactCalendar) : Decidable (Repr c) := by unfold Repr; exact inferInstance

theorem roundtrip (c : CompactCalendar) (rest : List Nat) (h : Repr c) :
    CompactCalendar.deserialize (CompactCalendar.serialize c ++ rest) = some (c, rest) := by
  obtain ⟨h1, h2, h3, h4⟩ := h
  unfold CompactCalendar.deserialize CompactCalendar.serialize
  rw [List.append_assoc, List.append_assoc, i32_roundtrip _ _ h1 h2]
  simp only
  rw [u64_roundtrip _ _ h3]
  simp only
  rw [readYears_roundtrip _ _ h4]

/-- calling `deserialize` `n` times on the same reader -/
def readMany : Nat → List Nat → Option (List CompactCalendar × List Nat)
  | 0, bs => some ([], bs)
  | n + 1, bs =>
    match CompactCalendar.deserialize bs with
    | none => none
    | some (c, bs') =>
      match readMany n bs' with
      | none => none
      | some (cs, rest) => some (c :: cs, rest)

theorem readMany_roundtrip : ∀ (cs : List CompactCalendar) (rest : List Nat), (∀ c ∈ cs, Repr c) →
    readMany cs.length (cs.flatMap CompactCalendar.serialize ++ rest) = some (cs, rest) := by
  intro cs
  induction cs with
  | nil => intro rest _; simp [readMany]
  | cons c cs ih =>
    intro rest h
    simp only [List.length_cons, readMany, List.flatMap_cons, List.append_assoc]
    rw [roundtrip _ _ (h c (by simp))]
    simp only
    rw [ih rest (fun x hx => h x (List.mem_cons_of_mem _ hx))]

theorem Inv.repr {c : CompactCalendar} (h : Inv c) : Repr c := by
  obtain ⟨hb1, hb2⟩ := h.bounds
  refine ⟨by omega, by omega, by omega, ?_⟩
  intro y hy
  obtain ⟨k, hk, e⟩ := List.getElem_of_mem hy
  have := (h.2.2.2 k hk).lt32
  rw [e] at this
  exact this

end OH.Proofs.CompactCalendar
