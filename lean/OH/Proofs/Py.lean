import OH.Spec.Py
/-
Helper lemmas for property C12 (`OH.Props.C12`): the float comparisons of `Coordinates::new`, the
constructor's decision table, and the reduction of `PyLocation` to the core's own `Localize`
instances (`Sim`: the whole generic pipeline of `iter_range` — filter, merge, map, collected and
lazily pulled — commutes with wrapping every date-time), the lazily pulled first range as the head of
the collected ranges (`firstMerged_of_collect`, `firstOfRange_of_iterRange`), the specification's
`zoneRanges` as the generic pipeline at `TzLocation` (`zoneRanges_eq`, `iterRange_pyAware`), totality.
Core only (no Mathlib).
-/
namespace OH.Proofs.Py
open OH.Model OH.Model.Py OH.Spec.Py

/-! ## `Coordinates::new` -/

theorem within_iff (x : Fl) (b : Int) :
    Within x b ↔ (x.isNan = false ∧ x.lt (Fl.ofInt (-b)) = false ∧ (Fl.ofInt b).lt x = false) := by
  unfold Within
  cases x with
  | nan => simp [Fl.isNan]
  | negInf => simp [Fl.isNan, Fl.lt, Fl.ofInt]
  | posInf => simp [Fl.isNan, Fl.lt, Fl.ofInt]
  | fin n d =>
    simp only [Fl.isNan, Fl.lt, Fl.ofInt, Fl.fin.injEq, decide_eq_false_iff_not, true_and]
    constructor
    · rintro ⟨n', d', ⟨rfl, rfl⟩, h1, h2⟩
      constructor <;> omega
    · rintro ⟨h1, h2⟩
      exact ⟨n, d, ⟨rfl, rfl⟩, by omega, by omega⟩

theorem coordsNew_eq_some_iff (lat lon : Fl) (c : Coords) :
    coordsNew lat lon = some c ↔ (c = ⟨lat, lon⟩ ∧ Within lat 90 ∧ Within lon 180) := by
  rw [within_iff, within_iff]
  unfold coordsNew
  split
  · rename_i h
    simp only [Bool.or_eq_true] at h
    constructor
    · intro h'; cases h'
    · rintro ⟨_, ⟨a1, a2, a3⟩, ⟨b1, b2, b3⟩⟩
      simp_all
  · rename_i h
    simp only [Bool.or_eq_true, not_or, Bool.not_eq_true] at h
    obtain ⟨⟨⟨⟨⟨h1, h2⟩, h3⟩, h4⟩, h5⟩, h6⟩ := h
    constructor
    · intro h'
      cases h'
      exact ⟨rfl, ⟨h1, h3, h4⟩, ⟨h2, h5, h6⟩⟩
    · rintro ⟨rfl, _, _⟩
      rfl

theorem coordsNew_eq_none_iff (lat lon : Fl) :
    coordsNew lat lon = none ↔ ¬ (Within lat 90 ∧ Within lon 180) := by
  constructor
  · intro h ⟨h1, h2⟩
    have := (coordsNew_eq_some_iff lat lon ⟨lat, lon⟩).mpr ⟨rfl, h1, h2⟩
    rw [h] at this
    cases this
  · intro h
    cases hc : coordsNew lat lon with
    | none => rfl
    | some c =>
      have := (coordsNew_eq_some_iff lat lon c).mp hc
      exact absurd ⟨this.2.1, this.2.2⟩ h

/-! ## `checkCoords` -/

theorem checkCoords_none : checkCoords none = .ok none := rfl

theorem checkCoords_some_invalid {lat lon : Fl} (h : coordsNew lat lon = none) :
    checkCoords (some (lat, lon)) = .error .invalidCoordinates := by
  simp only [checkCoords, h]

theorem checkCoords_some_valid {lat lon : Fl} {v : Coords} (h : coordsNew lat lon = some v) :
    checkCoords (some (lat, lon)) = .ok (some v) := by
  simp only [checkCoords, h]

theorem checkCoords_error_iff (c : Option (Fl × Fl)) (e : PyErr) :
    checkCoords c = .error e ↔ (e = .invalidCoordinates ∧ ∃ lat lon, c = some (lat, lon) ∧ coordsNew lat lon = none) := by
  cases c with
  | none => simp [checkCoords]
  | some p =>
    obtain ⟨lat, lon⟩ := p
    cases h : coordsNew lat lon with
    | none =>
      rw [checkCoords_some_invalid h]
      constructor
      · intro h'; cases h'; exact ⟨rfl, lat, lon, rfl, h⟩
      · rintro ⟨rfl, _⟩; rfl
    | some v =>
      rw [checkCoords_some_valid h]
      constructor
      · intro h'; cases h'
      · rintro ⟨_, lat', lon', h1, h2⟩
        cases h1
        rw [h] at h2
        cases h2

theorem checkCoords_ok_iff (c : Option (Fl × Fl)) (r : Option Coords) :
    checkCoords c = .ok r ↔
      ((c = none ∧ r = none) ∨ ∃ lat lon v, c = some (lat, lon) ∧ coordsNew lat lon = some v ∧ r = some v) := by
  cases c with
  | none =>
    rw [checkCoords_none]
    constructor
    · intro h; cases h; exact .inl ⟨rfl, rfl⟩
    · rintro (⟨_, rfl⟩ | ⟨_, _, _, h, _⟩)
      · rfl
      · cases h
  | some p =>
    obtain ⟨lat, lon⟩ := p
    cases h : coordsNew lat lon with
    | none =>
      rw [checkCoords_some_invalid h]
      constructor
      · intro h'; cases h'
      · rintro (⟨h1, _⟩ | ⟨lat', lon', v, h1, h2, _⟩)
        · cases h1
        · cases h1
          rw [h] at h2
          cases h2
    | some v =>
      rw [checkCoords_some_valid h]
      constructor
      · intro h'; cases h'; exact .inr ⟨lat, lon, v, rfl, h, rfl⟩
      · rintro (⟨h1, _⟩ | ⟨lat', lon', v', h1, h2, rfl⟩)
        · cases h1
        · cases h1
          rw [h] at h2
          cases h2
          rfl

/-! ## the constructor, by stages -/

theorem pickHolidays_error_iff (C : Core) (country : Option String) (coords : Option Coords) (ac : Bool) (e : PyErr) :
    pickHolidays C country coords ac = .error e ↔
      (e = .unknownCountry ∧ ∃ iso, country = some iso ∧ C.countryHolidays iso = none) := by
  unfold pickHolidays
  cases country with
  | some iso =>
    cases hh : C.countryHolidays iso with
    | none =>
      simp only [Except.error.injEq, Option.some.injEq, exists_eq_left', hh, and_true]
      exact eq_comm
    | some x =>
      simp only [reduceCtorEq, Option.some.injEq, exists_eq_left', hh, and_false]
  | none =>
    cases coords with
    | none => simp
    | some c => cases ac <;> simp

/-- the constructor fails with `e` iff one of its three stages does, the earlier ones having passed -/
theorem ctor_error_iff (C : Core) (a : Args C.Zone) (e : PyErr) :
    ctor C a = .error e ↔
      (checkCoords a.coords = .error e
       ∨ ∃ coords, checkCoords a.coords = .ok coords
          ∧ ((C.parse a.oh = .err ∧ e = .parserError)
             ∨ (∃ s, C.parse a.oh = .panic s ∧ e = .panic s)
             ∨ (∃ ex, C.parse a.oh = .ok ex
                  ∧ pickHolidays C a.country coords (a.autoCountry.getD true) = .error e))) := by
  unfold ctor
  cases hc : checkCoords a.coords with
  | error e' =>
    dsimp only
    constructor
    · intro h; cases h; exact .inl rfl
    · rintro (h | ⟨c', hc', _⟩)
      · cases h; rfl
      · cases hc'
  | ok coords =>
    dsimp only
    cases hp : C.parse a.oh with
    | panic s =>
      dsimp only
      constructor
      · intro h; cases h; exact .inr ⟨coords, rfl, .inr (.inl ⟨s, rfl, rfl⟩)⟩
      · rintro (h | ⟨c', _, (⟨h, _⟩ | ⟨s', h1, h2⟩ | ⟨ex, h, _⟩)⟩)
        · cases h
        · cases h
        · cases h1; rw [h2]
        · cases h
    | err =>
      dsimp only
      constructor
      · intro h; cases h; exact .inr ⟨coords, rfl, .inl ⟨rfl, rfl⟩⟩
      · rintro (h | ⟨c', _, (⟨_, h⟩ | ⟨s', h1, _⟩ | ⟨ex, h, _⟩)⟩)
        · cases h
        · rw [h]
        · cases h1
        · cases h
    | ok ex =>
      dsimp only
      cases hh : pickHolidays C a.country coords (a.autoCountry.getD true) with
      | error e' =>
        dsimp only
        constructor
        · intro h; cases h; exact .inr ⟨coords, rfl, .inr (.inr ⟨ex, rfl, hh⟩)⟩
        · rintro (h | ⟨c', hc', (⟨h, _⟩ | ⟨s', h1, _⟩ | ⟨ex', _, h⟩)⟩)
          · cases h
          · cases h
          · cases h1
          · cases hc'; rw [hh] at h; cases h; rfl
      | ok hol =>
        dsimp only
        constructor
        · intro h; cases h
        · rintro (h | ⟨c', hc', (⟨h, _⟩ | ⟨s', h1, _⟩ | ⟨ex', _, h⟩)⟩)
          · cases h
          · cases h
          · cases h1
          · cases hc'; rw [hh] at h; cases h

/-! ## the generic layer at the three `Localize` instances the binding reduces to -/

variable (C : Core)

theorem pyLocalize_ev (l : PyLocation C.Zone) : (pyLocalize C l).ev = (coreWall C l).ev := by
  cases l <;> rfl

/-- `PyLocation::naive` is the table `wall` -/
theorem pyLocalize_naive (l : PyLocation C.Zone) (t : DateTimeMaybeAware C.Zone) :
    (pyLocalize C l).naive t = wall C l t := by
  cases l <;> cases t <;> rfl

theorem coreWall_naive (l : PyLocation C.Zone) (n : Int) : (coreWall C l).naive n = n := by
  cases l <;> rfl

/-- `state` only looks at the wall-clock time and at `event_time` -/
theorem state_eq_of_naive {DT DT' : Type} (L : Localize C DT) (L' : Localize C DT') (e : C.Expr) (h : C.Hol)
    (t : DT) (t' : DT') (hev : L.ev = L'.ev) (hn : L.naive t = L'.naive t') :
    Py.state C L e h t = Py.state C L' e h t' := by
  unfold Py.state
  rw [hev, hn]

/-- `L` is `L'` with every date-time wrapped by `g` (`PyLocation::Naive` is `NoLocation` wrapped in
`Naive(…)`, `PyLocation::Aware(loc)` is `loc` wrapped in `Aware(…)`) -/
structure Sim {DT DT' : Type} (L : Localize C DT) (L' : Localize C DT') (g : DT' → DT) : Prop where
  ev : L.ev = L'.ev
  naive : ∀ d, L.naive (g d) = L'.naive d
  datetime : ∀ n, L.datetime n = (match L'.datetime n with
                                  | .error p => .error p
                                  | .ok d => .ok (g d))

def liftRange {DT DT' : Type} (g : DT' → DT) (r : Range DT') : Range DT := ⟨g r.start, g r.stop, r.kind, r.comments⟩

theorem sim_pyNaive : Sim C (pyLocalize C .naive) (noLocation C) .naive := ⟨rfl, fun _ => rfl, fun _ => rfl⟩

theorem sim_pyAware (loc : TzLoc C.Zone) : Sim C (pyLocalize C (.aware loc)) (tzLocation C loc) .aware := by
  refine ⟨rfl, fun _ => rfl, fun n => ?_⟩
  simp only [pyLocalize]
  cases (tzLocation C loc).datetime n <;> rfl

section sim
variable {C}
variable {DT DT' : Type} {L : Localize C DT} {L' : Localize C DT'} {g : DT' → DT} (S : Sim C L L' g)
include S

theorem mapRange_sim (iv : Interval) :
    mapRange C L iv = (match mapRange C L' iv with
                       | .error p => .error p
                       | .ok r => .ok (liftRange g r)) := by
  unfold mapRange
  rw [S.datetime, S.datetime]
  cases L'.datetime iv.start with
  | error p => rfl
  | ok s =>
    dsimp only
    cases L'.datetime iv.stop with
    | error p => rfl
    | ok t => rfl

theorem mapRanges_sim (l : List Interval) :
    mapRanges C L l = (match mapRanges C L' l with
                       | .error p => .error p
                       | .ok rs => .ok (rs.map (liftRange g))) := by
  induction l with
  | nil => rfl
  | cons iv rest ih =>
    simp only [mapRanges]
    rw [mapRange_sim S, ih]
    cases mapRange C L' iv with
    | error p => rfl
    | ok r =>
      dsimp only
      cases mapRanges C L' rest with
      | error p => rfl
      | ok rs => rfl

theorem keepRange_sim (iv : Interval) : keepRange C L iv = keepRange C L' iv := by
  unfold keepRange
  rw [S.datetime]
  cases L'.datetime iv.start with
  | error p => rfl
  | ok d =>
    dsimp only
    rw [S.naive]

theorem filterRanges_sim (l : List Interval) : filterRanges C L l = filterRanges C L' l := by
  induction l with
  | nil => rfl
  | cons iv rest ih => simp only [filterRanges, keepRange_sim S, ih]

theorem localizeRanges_sim (l : List Interval) :
    localizeRanges C L l = (match localizeRanges C L' l with
                            | .error p => .error p
                            | .ok rs => .ok (rs.map (liftRange g))) := by
  unfold localizeRanges
  rw [filterRanges_sim S]
  cases filterRanges C L' l with
  | error p => rfl
  | ok fl => exact mapRanges_sim S _

theorem iterRange_sim (e : C.Expr) (h : C.Hol) (a b : DT) (a' b' : DT')
    (ha : L.naive a = L'.naive a') (hb : L.naive b = L'.naive b') :
    iterRange C L e h a b = (match iterRange C L' e h a' b' with
                             | .error p => .error p
                             | .ok rs => .ok (rs.map (liftRange g))) := by
  unfold iterRange
  rw [S.ev, ha, hb]
  cases C.iterNaive e h L'.ev (min instEnd (L'.naive a')) (min instEnd (L'.naive b')) with
  | error p => rfl
  | ok l => exact localizeRanges_sim S l

theorem iterFrom_sim (e : C.Expr) (h : C.Hol) (a : DT) (a' : DT') (ha : L.naive a = L'.naive a') :
    iterFrom C L e h a = (match iterFrom C L' e h a' with
                          | .error p => .error p
                          | .ok rs => .ok (rs.map (liftRange g))) := by
  unfold iterFrom
  rw [S.datetime]
  cases L'.datetime instEnd with
  | error p => rfl
  | ok stop => exact iterRange_sim S e h a (g stop) a' stop ha (S.naive stop)

theorem nextKept_sim (s : NStream) : nextKept C L s = nextKept C L' s := by
  induction s with
  | done => rfl
  | panic p => rfl
  | cons iv rest ih => simp only [nextKept, keepRange_sim S, ih]

theorem absorb_sim (curr : Interval) (s : NStream) : absorb C L curr s = absorb C L' curr s := by
  induction s generalizing curr with
  | done => rfl
  | panic p => rfl
  | cons iv rest ih => simp only [absorb, keepRange_sim S, ih]

theorem firstMerged_sim (s : NStream) : firstMerged C L s = firstMerged C L' s := by
  unfold firstMerged
  rw [nextKept_sim S]
  cases nextKept C L' s with
  | error p => rfl
  | ok r =>
    cases r with
    | none => rfl
    | some x => dsimp only; rw [absorb_sim S]

theorem firstOfRange_sim (e : C.Expr) (h : C.Hol) (a b : DT) (a' b' : DT')
    (ha : L.naive a = L'.naive a') (hb : L.naive b = L'.naive b') :
    firstOfRange C L e h a b = (match firstOfRange C L' e h a' b' with
                                | .error p => .error p
                                | .ok r => .ok (r.map (liftRange g))) := by
  unfold firstOfRange
  rw [S.ev, ha, hb, firstMerged_sim S]
  cases firstMerged C L' (C.streamNaive e h L'.ev (min instEnd (L'.naive a')) (min instEnd (L'.naive b'))) with
  | error p => rfl
  | ok r =>
    cases r with
    | none => rfl
    | some iv =>
      dsimp only
      rw [mapRange_sim S]
      cases mapRange C L' iv with
      | error p => rfl
      | ok r => rfl

theorem nextChange_sim (e : C.Expr) (h : C.Hol) (a : DT) (a' : DT') (ha : L.naive a = L'.naive a') :
    Py.nextChange C L e h a = (match Py.nextChange C L' e h a' with
                            | .error p => .error p
                            | .ok r => .ok (r.map g)) := by
  unfold Py.nextChange
  rw [S.datetime]
  cases L'.datetime instEnd with
  | error p => rfl
  | ok stop =>
    dsimp only
    rw [firstOfRange_sim S e h a (g stop) a' stop ha (S.naive stop)]
    cases firstOfRange C L' e h a' stop with
    | error p => rfl
    | ok r =>
      cases r with
      | none => rfl
      | some r =>
        dsimp only [Option.map, liftRange]
        rw [S.naive]
        split <;> rfl

theorem state_sim (e : C.Expr) (h : C.Hol) (a : DT) (a' : DT') (ha : L.naive a = L'.naive a') :
    Py.state C L e h a = Py.state C L' e h a' := state_eq_of_naive C L L' e h a a' S.ev ha

end sim

/-! ## the constructor against its specification -/

section
variable (C : Core)

theorem pickHolidays_spec (country : Option String) (coords : Option Coords) (ac : Option Bool)
    (hc : CountryOK C country) :
    pickHolidays C country coords (ac.getD true) = .ok (specHolidays country coords ac) := by
  unfold pickHolidays specHolidays
  cases country with
  | some iso =>
    obtain ⟨h, hh⟩ := hc iso rfl
    simp only [hh]
  | none =>
    cases coords with
    | none => rfl
    | some c => cases ac with
      | none => rfl
      | some b => cases b <;> rfl

theorem pickLocale_spec {Z : Type} (tz : Option Z) (coords : Option Coords) (at_ : Option Bool) :
    pickLocale tz coords (at_.getD true) = specLocale tz coords at_ := by
  unfold pickLocale specLocale
  cases tz <;> cases coords <;> cases at_ with
  | none => rfl
  | some b => cases b <;> rfl


/-! ## what `next_change` can return -/

theorem nextChange_before_date_end {DT : Type} (L : Localize C DT) (e : C.Expr) (h : C.Hol) (t r : DT)
    (hr : Py.nextChange C L e h t = .ok (some r)) : L.naive r < instEnd := by
  unfold Py.nextChange at hr
  cases hE : L.datetime instEnd with
  | error p => rw [hE] at hr; cases hr
  | ok stop =>
    rw [hE] at hr
    dsimp only at hr
    cases hf : firstOfRange C L e h t stop with
    | error p => rw [hf] at hr; cases hr
    | ok f =>
      rw [hf] at hr
      cases f with
      | none => cases hr
      | some rg =>
        dsimp only at hr
        split at hr
        · cases hr
        · rename_i hlt
          cases hr
          omega

/-- the first item of `iter_range`, when there is one, is some naive range with its bounds mapped -/
theorem firstOfRange_some {DT : Type} (L : Localize C DT) (e : C.Expr) (h : C.Hol) (a b : DT) (r : Range DT)
    (hr : firstOfRange C L e h a b = .ok (some r)) : ∃ iv, mapRange C L iv = .ok r := by
  unfold firstOfRange at hr
  cases hf : firstMerged C L (C.streamNaive e h L.ev (min instEnd (L.naive a)) (min instEnd (L.naive b))) with
  | error p => rw [hf] at hr; cases hr
  | ok f =>
    rw [hf] at hr
    cases f with
    | none => cases hr
    | some iv =>
      dsimp only at hr
      cases hm : mapRange C L iv with
      | error p => rw [hm] at hr; cases hr
      | ok r' => rw [hm] at hr; cases hr; exact ⟨iv, hm⟩

/-- whatever `next_change` returns is `locale.datetime(n)` of some wall-clock reading `n` -/
theorem nextChange_some_datetime {DT : Type} (L : Localize C DT) (e : C.Expr) (h : C.Hol) (t x : DT)
    (hx : Py.nextChange C L e h t = .ok (some x)) : ∃ n, L.datetime n = .ok x := by
  unfold Py.nextChange at hx
  cases hE : L.datetime instEnd with
  | error p => rw [hE] at hx; cases hx
  | ok stop =>
    rw [hE] at hx
    dsimp only at hx
    cases hf : firstOfRange C L e h t stop with
    | error p => rw [hf] at hx; cases hx
    | ok f =>
      rw [hf] at hx
      cases f with
      | none => cases hx
      | some r =>
        dsimp only at hx
        obtain ⟨iv, hm⟩ := firstOfRange_some C L e h t stop r hf
        unfold mapRange at hm
        cases hs : L.datetime iv.start with
        | error p => rw [hs] at hm; cases hm
        | ok s =>
          rw [hs] at hm
          dsimp only at hm
          cases ht : L.datetime iv.stop with
          | error p => rw [ht] at hm; cases hm
          | ok t' =>
            rw [ht] at hm
            cases hm
            split at hx
            · cases hx
            · cases hx; exact ⟨iv.stop, ht⟩

/-- on an aware locale whatever `next_change` returns was built by `loc.datetime`: aware, in the
zone of the context — for naive and for aware inputs -/
theorem nextChange_pyAware_some (loc : TzLoc C.Zone) (e : C.Expr) (h : C.Hol)
    (t x : DateTimeMaybeAware C.Zone)
    (hx : Py.nextChange C (pyLocalize C (.aware loc)) e h t = .ok (some x)) :
    ∃ u, x = .aware ⟨u, loc.tz⟩ := by
  obtain ⟨n, hn⟩ := nextChange_some_datetime C _ e h t x hx
  simp only [pyLocalize, tzLocation] at hn
  cases hd : C.tzDatetime loc.tz n with
  | error p => rw [hd] at hn; cases hn
  | ok u => rw [hd] at hn; cases hn; exact ⟨u, rfl⟩

/-! ## results of the core's `TzLocation` -/

/-- the core's `TzLocation` results are expressed in the zone of the context -/
theorem core_next_change_zone (loc : TzLoc C.Zone) (e : C.Expr) (h : C.Hol) (a r : Aware C.Zone)
    (hr : Py.nextChange C (tzLocation C loc) e h a = .ok (some r)) : r.zone = loc.tz := by
  obtain ⟨n, hn⟩ := nextChange_some_datetime C _ e h a r hr
  simp only [tzLocation] at hn
  cases hd : C.tzDatetime loc.tz n with
  | error p => rw [hd] at hn; cases hn
  | ok u => rw [hd] at hn; cases hn; rfl


/-! ## the localized stream of a zone, in the specification's words -/

theorem awareRanges_eq (loc : TzLoc C.Zone) (l : List Interval) :
    awareRanges C loc.tz l = mapRanges C (tzLocation C loc) l := by
  induction l with
  | nil => rfl
  | cons iv rest ih =>
    simp only [awareRanges, mapRanges, ih]
    have : awareRange C loc.tz iv = mapRange C (tzLocation C loc) iv := by
      simp only [awareRange, mapRange, tzLocation]
      cases C.tzDatetime loc.tz iv.start with
      | error p => rfl
      | ok s =>
        dsimp only
        cases C.tzDatetime loc.tz iv.stop with
        | error p => rfl
        | ok t => rfl
    rw [this]
    cases mapRange C (tzLocation C loc) iv with
    | error p => rfl
    | ok x => cases mapRanges C (tzLocation C loc) rest <;> rfl

theorem dropSkipped_eq (loc : TzLoc C.Zone) (l : List Interval) :
    dropSkipped C loc.tz l = filterRanges C (tzLocation C loc) l := by
  induction l with
  | nil => rfl
  | cons iv rest ih =>
    simp only [dropSkipped, filterRanges, ih]
    have : keepRange C (tzLocation C loc) iv = (match landing C loc.tz iv.start with
                                                | .error p => .error p
                                                | .ok n => .ok (decide (n < iv.stop))) := by
      simp only [keepRange, landing, tzLocation]
      cases C.tzDatetime loc.tz iv.start <;> rfl
    rw [this]
    cases landing C loc.tz iv.start with
    | error p => rfl
    | ok n =>
      dsimp only
      cases filterRanges C (tzLocation C loc) rest with
      | error p => rfl
      | ok xs =>
        dsimp only
        by_cases hn : n < iv.stop <;> simp [hn]

/-- `zoneRanges` IS the generic `iter_range` pipeline at the core's `TzLocation` -/
theorem zoneRanges_eq (loc : TzLoc C.Zone) (l : List Interval) :
    zoneRanges C loc.tz l = localizeRanges C (tzLocation C loc) l := by
  unfold zoneRanges localizeRanges
  rw [dropSkipped_eq]
  cases filterRanges C (tzLocation C loc) l with
  | error p => rfl
  | ok fl => exact awareRanges_eq C loc _

/-- `iter_range` of the binding's locale for a context with a zone, in the specification's words -/
theorem iterRange_pyAware (loc : TzLoc C.Zone) (e : C.Expr) (h : C.Hol) (a b : DateTimeMaybeAware C.Zone) :
    iterRange C (pyLocalize C (.aware loc)) e h a b
      = (match C.iterNaive e h (.tzLocation loc)
                (min instEnd (wall C (.aware loc) a)) (min instEnd (wall C (.aware loc) b)) with
         | .error p => .error p
         | .ok l =>
           match zoneRanges C loc.tz l with
           | .error p => .error p
           | .ok rs => .ok (rs.map (liftRange .aware))) := by
  unfold iterRange
  rw [pyLocalize_naive, pyLocalize_naive,
    show (pyLocalize C (.aware loc)).ev = EvLoc.tzLocation loc from rfl]
  cases C.iterNaive e h (.tzLocation loc) (min instEnd (wall C (.aware loc) a))
      (min instEnd (wall C (.aware loc) b)) with
  | error p => rfl
  | ok l =>
    dsimp only
    rw [localizeRanges_sim (sim_pyAware C loc), zoneRanges_eq]
    cases localizeRanges C (tzLocation C loc) l <;> rfl

/-! ## the iterator's items -/

theorem mapPrefered_naive (z : Option C.Zone) (n : Int) :
    PyOH.mapPrefered z (.naive n : DateTimeMaybeAware C.Zone) = attach C z n := by
  cases z with
  | none => rfl
  | some z =>
    simp only [PyOH.mapPrefered, DateTimeMaybeAware.orWithTimezone, attach]
    cases C.tzDatetime z n <;> rfl

theorem mapItems_naive (z : Option C.Zone) (l : List (Range Int)) :
    PyOH.mapItems z (l.map (liftRange (DateTimeMaybeAware.naive (Z := C.Zone)))) = itemsOfNaive C z l := by
  induction l with
  | nil => rfl
  | cons r rest ih =>
    simp only [List.map_cons, PyOH.mapItems, PyOH.mapItem, liftRange, itemsOfNaive, itemOfNaive,
      mapPrefered_naive] at ih ⊢
    rw [ih]
    cases attach C z r.start with
    | error p => rfl
    | ok s =>
      dsimp only
      cases attach C z r.stop with
      | error p => rfl
      | ok t => rfl

theorem mapItems_aware (z : Option C.Zone) (l : List (Range (Aware C.Zone))) :
    PyOH.mapItems z (l.map (liftRange (DateTimeMaybeAware.aware (Z := C.Zone)))) = .ok (l.map (itemOfAware C)) := by
  induction l with
  | nil => rfl
  | cons r rest ih =>
    simp only [List.map_cons, PyOH.mapItems]
    rw [ih]
    cases z <;> rfl


/-! ## totality -/

theorem pyLocalize_datetime_total (hC : CoreTotal C) (l : PyLocation C.Zone) (n : Int) :
    ∃ d, (pyLocalize C l).datetime n = .ok d := by
  cases l with
  | naive => exact ⟨_, rfl⟩
  | aware loc =>
    obtain ⟨u, hu⟩ := hC.tzDatetime loc.tz n
    refine ⟨.aware ⟨u, loc.tz⟩, ?_⟩
    simp only [pyLocalize, tzLocation, hu]

theorem mapRange_total {DT : Type} (L : Localize C DT) (hL : ∀ n, ∃ d, L.datetime n = .ok d) (iv : Interval) :
    ∃ r, mapRange C L iv = .ok r := by
  obtain ⟨s, hs⟩ := hL iv.start
  obtain ⟨t, ht⟩ := hL iv.stop
  simp only [mapRange, hs, ht]
  exact ⟨_, rfl⟩

theorem mapRanges_total {DT : Type} (L : Localize C DT) (hL : ∀ n, ∃ d, L.datetime n = .ok d) (l : List Interval) :
    ∃ r, mapRanges C L l = .ok r := by
  induction l with
  | nil => exact ⟨_, rfl⟩
  | cons iv rest ih =>
    obtain ⟨r, hr⟩ := mapRange_total C L hL iv
    obtain ⟨rs, hrs⟩ := ih
    simp only [mapRanges, hr, hrs]
    exact ⟨_, rfl⟩

theorem keepRange_total {DT : Type} (L : Localize C DT) (hL : ∀ n, ∃ d, L.datetime n = .ok d) (iv : Interval) :
    ∃ k, keepRange C L iv = .ok k := by
  obtain ⟨d, hd⟩ := hL iv.start
  simp only [keepRange, hd]
  exact ⟨_, rfl⟩

theorem filterRanges_total {DT : Type} (L : Localize C DT) (hL : ∀ n, ∃ d, L.datetime n = .ok d) (l : List Interval) :
    ∃ r, filterRanges C L l = .ok r := by
  induction l with
  | nil => exact ⟨_, rfl⟩
  | cons iv rest ih =>
    obtain ⟨k, hk⟩ := keepRange_total C L hL iv
    obtain ⟨xs, hxs⟩ := ih
    simp only [filterRanges, hk, hxs]
    exact ⟨_, rfl⟩

theorem localizeRanges_total {DT : Type} (L : Localize C DT) (hL : ∀ n, ∃ d, L.datetime n = .ok d) (l : List Interval) :
    ∃ r, localizeRanges C L l = .ok r := by
  obtain ⟨fl, hfl⟩ := filterRanges_total C L hL l
  simp only [localizeRanges, hfl]
  exact mapRanges_total C L hL _

theorem iterRange_total (hC : CoreTotal C) {DT : Type} (L : Localize C DT) (hL : ∀ n, ∃ d, L.datetime n = .ok d)
    (e : C.Expr) (h : C.Hol) (a b : DT) : ∃ l, iterRange C L e h a b = .ok l := by
  unfold iterRange Core.iterNaive
  obtain ⟨l, hl⟩ := hC.streamNaive e h L.ev (min instEnd (L.naive a)) (min instEnd (L.naive b))
  rw [hl]
  exact localizeRanges_total C L hL l

/-- a stream that can be collected can be pulled -/
theorem collect_cons {iv : Interval} {rest : NStream} {l : List Interval}
    (h : (NStream.cons iv rest).collect = .ok l) : ∃ l', rest.collect = .ok l' ∧ l = iv :: l' := by
  simp only [NStream.collect] at h
  cases hr : rest.collect with
  | error p => rw [hr] at h; cases h
  | ok l' => rw [hr] at h; cases h; exact ⟨l', rfl, rfl⟩

theorem first_total {s : NStream} {l : List Interval} (h : s.collect = .ok l) : s.first = .ok l.head? := by
  cases s with
  | done => cases h; rfl
  | panic p => cases h
  | cons iv rest =>
    obtain ⟨l', _, rfl⟩ := collect_cons h
    rfl

theorem firstNaive_total (hC : CoreTotal C) (e : C.Expr) (h : C.Hol) (ev : EvLoc C.Zone) (a b : Int) :
    ∃ r, C.firstNaive e h ev a b = .ok r := by
  obtain ⟨l, hl⟩ := hC.streamNaive e h ev a b
  exact ⟨_, first_total hl⟩

/-! ### the lazily pulled first item is the head of the collected pipeline -/

theorem nextKept_of_collect {DT : Type} (L : Localize C DT) {s : NStream} {l fl : List Interval}
    (hs : s.collect = .ok l) (hf : filterRanges C L l = .ok fl) :
    (fl = [] ∧ nextKept C L s = .ok none)
    ∨ ∃ x rest l' fl', fl = x :: fl' ∧ nextKept C L s = .ok (some (x, rest))
        ∧ rest.collect = .ok l' ∧ filterRanges C L l' = .ok fl' := by
  induction s generalizing l fl with
  | done =>
    cases hs
    cases hf
    exact .inl ⟨rfl, rfl⟩
  | panic p => cases hs
  | cons iv rest ih =>
    obtain ⟨l', hl', rfl⟩ := collect_cons hs
    simp only [filterRanges] at hf
    cases hk : keepRange C L iv with
    | error p => rw [hk] at hf; cases hf
    | ok k =>
      rw [hk] at hf
      dsimp only at hf
      cases hr : filterRanges C L l' with
      | error p => rw [hr] at hf; cases hf
      | ok xs =>
        rw [hr] at hf
        cases hf
        cases k with
        | true =>
          refine .inr ⟨iv, rest, l', xs, rfl, ?_, hl', hr⟩
          simp only [nextKept, hk]
        | false =>
          have := ih hl' hr
          simp only [nextKept, hk]
          exact this

theorem absorb_of_collect {DT : Type} (L : Localize C DT) {s : NStream} {l fl : List Interval} (curr : Interval)
    (hs : s.collect = .ok l) (hf : filterRanges C L l = .ok fl) :
    ∃ c tl, absorb C L curr s = .ok c ∧ Tz.mergeFrom curr fl = c :: tl := by
  induction s generalizing l fl curr with
  | done =>
    cases hs
    cases hf
    exact ⟨curr, [], rfl, rfl⟩
  | panic p => cases hs
  | cons iv rest ih =>
    obtain ⟨l', hl', rfl⟩ := collect_cons hs
    simp only [filterRanges] at hf
    cases hk : keepRange C L iv with
    | error p => rw [hk] at hf; cases hf
    | ok k =>
      rw [hk] at hf
      dsimp only at hf
      cases hr : filterRanges C L l' with
      | error p => rw [hr] at hf; cases hf
      | ok xs =>
        rw [hr] at hf
        cases hf
        cases k with
        | false =>
          simp only [absorb, hk]
          exact ih curr hl' hr
        | true =>
          simp only [absorb, hk, if_true, Tz.mergeFrom]
          split
          · exact ih _ hl' hr
          · exact ⟨curr, _, rfl, rfl⟩

/-- **lazy = collected**: when the whole naive stream can be collected and filtered, the first item
`next_change` pulls lazily is the head of the filtered and merged list -/
theorem firstMerged_of_collect {DT : Type} (L : Localize C DT) {s : NStream} {l fl : List Interval}
    (hs : s.collect = .ok l) (hf : filterRanges C L l = .ok fl) :
    firstMerged C L s = .ok (Tz.mergeRanges fl).head? := by
  unfold firstMerged
  obtain ⟨rfl, hn⟩ | ⟨x, rest, l', fl', rfl, hn, hl', hf'⟩ := nextKept_of_collect C L hs hf
  · rw [hn]; rfl
  · rw [hn]
    dsimp only
    obtain ⟨c, tl, ha, hm⟩ := absorb_of_collect C L x hl' hf'
    rw [ha]
    dsimp only [Tz.mergeRanges]
    rw [hm]
    rfl

/-- … hence the first item of `iter_range` is the head of the collected `iter_range` -/
theorem firstOfRange_of_iterRange {DT : Type} (L : Localize C DT) (e : C.Expr) (h : C.Hol) (a b : DT)
    (rs : List (Range DT)) (hr : iterRange C L e h a b = .ok rs) :
    firstOfRange C L e h a b = .ok rs.head? := by
  unfold iterRange Core.iterNaive at hr
  unfold firstOfRange
  cases hs : (C.streamNaive e h L.ev (min instEnd (L.naive a)) (min instEnd (L.naive b))).collect with
  | error p => rw [hs] at hr; cases hr
  | ok l =>
    rw [hs] at hr
    dsimp only at hr
    unfold localizeRanges at hr
    cases hf : filterRanges C L l with
    | error p => rw [hf] at hr; cases hr
    | ok fl =>
      rw [hf] at hr
      dsimp only at hr
      rw [firstMerged_of_collect C L hs hf]
      cases hm : Tz.mergeRanges fl with
      | nil =>
        rw [hm] at hr
        cases hr
        rfl
      | cons iv ivs =>
        rw [hm] at hr
        simp only [mapRanges] at hr
        dsimp only [List.head?]
        cases hx : mapRange C L iv with
        | error p => rw [hx] at hr; cases hr
        | ok x =>
          rw [hx] at hr
          dsimp only at hr
          cases hxs : mapRanges C L ivs with
          | error p => rw [hxs] at hr; cases hr
          | ok xs => rw [hxs] at hr; cases hr; rfl

theorem nextKept_total {DT : Type} (L : Localize C DT) (hL : ∀ n, ∃ d, L.datetime n = .ok d)
    {s : NStream} {l : List Interval} (hs : s.collect = .ok l) : ∃ r, nextKept C L s = .ok r := by
  obtain ⟨fl, hf⟩ := filterRanges_total C L hL l
  obtain ⟨_, hn⟩ | ⟨x, rest, _, _, _, hn, _, _⟩ := nextKept_of_collect C L hs hf
  · exact ⟨_, hn⟩
  · exact ⟨_, hn⟩

theorem firstMerged_total {DT : Type} (L : Localize C DT) (hL : ∀ n, ∃ d, L.datetime n = .ok d)
    {s : NStream} {l : List Interval} (hs : s.collect = .ok l) : ∃ r, firstMerged C L s = .ok r := by
  obtain ⟨fl, hf⟩ := filterRanges_total C L hL l
  exact ⟨_, firstMerged_of_collect C L hs hf⟩

theorem nextChange_total (hC : CoreTotal C) {DT : Type} (L : Localize C DT) (hL : ∀ n, ∃ d, L.datetime n = .ok d)
    (e : C.Expr) (h : C.Hol) (t : DT) : ∃ r, Py.nextChange C L e h t = .ok r := by
  unfold Py.nextChange
  obtain ⟨stop, hstop⟩ := hL instEnd
  rw [hstop]
  dsimp only
  unfold firstOfRange
  obtain ⟨l, hl⟩ := hC.streamNaive e h L.ev (min instEnd (L.naive t)) (min instEnd (L.naive stop))
  obtain ⟨f, hf⟩ := firstMerged_total C L hL hl
  rw [hf]
  cases f with
  | none => exact ⟨_, rfl⟩
  | some iv =>
    dsimp only
    obtain ⟨r, hr⟩ := mapRange_total C L hL iv
    rw [hr]
    dsimp only
    split <;> exact ⟨_, rfl⟩

theorem orWithTimezoneOf_total (hC : CoreTotal C) (d other : DateTimeMaybeAware C.Zone) :
    ∃ r, DateTimeMaybeAware.orWithTimezoneOf C d other = .ok r := by
  cases other with
  | naive n => exact ⟨_, rfl⟩
  | aware a =>
    cases d with
    | aware x => exact ⟨_, rfl⟩
    | naive m =>
      obtain ⟨u, hu⟩ := hC.tzDatetime a.zone m
      simp only [DateTimeMaybeAware.orWithTimezoneOf, DateTimeMaybeAware.orWithTimezone, hu]
      exact ⟨_, rfl⟩

theorem mapItems_total (hC : CoreTotal C) (z : Option C.Zone) (l : List (Range (DateTimeMaybeAware C.Zone))) :
    ∃ r, PyOH.mapItems z l = .ok r := by
  have hp : ∀ d : DateTimeMaybeAware C.Zone, ∃ x, PyOH.mapPrefered z d = .ok x := by
    intro d
    cases z with
    | none => exact ⟨_, rfl⟩
    | some z =>
      cases d with
      | aware a => exact ⟨_, rfl⟩
      | naive n =>
        obtain ⟨u, hu⟩ := hC.tzDatetime z n
        simp only [PyOH.mapPrefered, DateTimeMaybeAware.orWithTimezone, hu]
        exact ⟨_, rfl⟩
  induction l with
  | nil => exact ⟨_, rfl⟩
  | cons r rest ih =>
    obtain ⟨s, hs⟩ := hp r.start
    obtain ⟨t, ht⟩ := hp r.stop
    obtain ⟨xs, hxs⟩ := ih
    simp only [PyOH.mapItems, PyOH.mapItem, hs, ht, hxs]
    exact ⟨_, rfl⟩


end

end OH.Proofs.Py
