import OH.Model.Tz
/-
Helper lemmas for C09 (time-zone contexts).  Core tactics only.

Pattern: every statement about a zone is first proved for the table *suffix* functions
(`offsetFrom`, `fromLocalFrom`, `gapOfFrom`, … : the spans that start at transition `(t, o)` and
after) by induction over the table, then transferred to the zone by `fromLocal_eq_from`: for any
`t0` early enough the unbounded first span behaves like a span starting at a virtual transition
`t0`.

Two table conditions: `orderedFrom` / `spansOrdered` (local spans in order; a fold may follow a gap
directly) carries the gap structure, the value of `datetime` in a gap, `gap_above` / `gap_below`
(what the clock shows after / before the forward jump) and monotonicity; `spacedFrom` / `spaced`
(which implies it: `spansOrdered_of_spaced`) is only needed for "read exactly once" (`first_minute`,
`fromLocal_length_le_two`, D16 with the end on the landing time).
`datetime` (code of /repo e1e5204) = `latest()` of the requested time, or `earliest()` of the first
existing `requested + k min`, walked back by seconds with `earliest()`: `found?`, `minuteLoop`,
`walkBack`.
`iter_range` (code of /repo dfe1ade) = filter → merge → map: list lemmas on `filterRanges` /
`mergeFrom` (`mergeRanges_mem`, `mergeRanges_ordered`, `mergeRanges_adjDiffer`, `mergeRanges_eq_self`),
the lazy first item (`collect_step`, `collect_acc`, `nextKept_spec`, `absorb_spec`,
`firstMergedG_eq_head`), `nextChangeTzG_exact`, `datetime_lt_of_naive_lt`, `keepRange_eq`.
-/
namespace OH.Proofs.Tz
open OH.Model OH.Model.Tz

/-! ### lists -/

theorem getLast?_max {l : List Int} (hp : l.Pairwise (· < ·)) {m : Int} (hm : l.getLast? = some m) :
    ∀ u ∈ l, u ≤ m := by
  induction l with
  | nil => intro u hu; cases hu
  | cons a rest ih =>
    intro u hu
    rw [List.pairwise_cons] at hp
    cases rest with
    | nil =>
      simp only [List.getLast?_singleton, Option.some.injEq] at hm
      simp only [List.mem_singleton] at hu
      omega
    | cons b rest' =>
      rw [List.getLast?_cons_cons] at hm
      have hmm : m ∈ b :: rest' := List.mem_of_getLast? hm
      rcases List.mem_cons.mp hu with h | h
      · have := hp.1 m hmm; omega
      · exact ih hp.2 hm u h

theorem head?_min {l : List Int} (hp : l.Pairwise (· < ·)) {m : Int} (hm : l.head? = some m) :
    ∀ u ∈ l, m ≤ u := by
  cases l with
  | nil => cases hm
  | cons a rest =>
    simp only [List.head?_cons, Option.some.injEq] at hm
    subst hm
    intro u hu
    rw [List.pairwise_cons] at hp
    rcases List.mem_cons.mp hu with h | h
    · omega
    · have := hp.1 u h; omega

theorem getLast?_append_of_ne_nil (a : List Int) {b : List Int} (h : b ≠ []) :
    (a ++ b).getLast? = b.getLast? := by
  rw [List.getLast?_append]
  cases hb : b.getLast? with
  | none => exact absurd (List.getLast?_eq_none_iff.mp hb) h
  | some x => rfl

/-! ### UTC → local → UTC on table suffixes -/

theorem sortedFrom_cons {t t' o' : Int} {rest : List (Int × Int)} :
    sortedFrom t ((t', o') :: rest) = true ↔ t < t' ∧ sortedFrom t' rest = true := by
  simp [sortedFrom]

/-- `u ∈ fromLocalFrom … n` iff `u` is at/after `t` and reads `n` on the local clock -/
theorem mem_fromLocalFrom {t o : Int} {l : List (Int × Int)} (hs : sortedFrom t l = true) (n u : Int) :
    u ∈ fromLocalFrom t o l n ↔ t ≤ u ∧ u + offNs (offsetFrom o l u) = n := by
  induction l generalizing t o with
  | nil =>
    simp only [fromLocalFrom, offsetFrom]
    split <;> simp <;> omega
  | cons hd rest ih =>
    obtain ⟨t', o'⟩ := hd
    obtain ⟨h1, h2⟩ := sortedFrom_cons.mp hs
    simp only [fromLocalFrom, offsetFrom, List.mem_append, ih h2]
    by_cases hu : u < t'
    · simp only [hu, if_true]
      split <;> simp <;> omega
    · simp only [hu, if_false]
      split <;> simp <;> omega

theorem fromLocalFrom_pairwise {t o : Int} {l : List (Int × Int)} (hs : sortedFrom t l = true) (n : Int) :
    (fromLocalFrom t o l n).Pairwise (· < ·) := by
  induction l generalizing t o with
  | nil =>
    simp only [fromLocalFrom]
    split <;> simp
  | cons hd rest ih =>
    obtain ⟨t', o'⟩ := hd
    obtain ⟨h1, h2⟩ := sortedFrom_cons.mp hs
    simp only [fromLocalFrom]
    rw [List.pairwise_append]
    refine ⟨?_, ih h2, ?_⟩
    · split <;> simp
    · intro a ha b hb
      have hb' := ((mem_fromLocalFrom h2 n b).mp hb).1
      split at ha
      · simp only [List.mem_singleton] at ha; omega
      · cases ha

/-- the unbounded first span behaves like a span that starts at any `t0 ≤ n - init` -/
theorem fromLocal_eq_from (z : Zone) (n t0 : Int) (h : t0 ≤ n - offNs z.init) :
    fromLocal z n = fromLocalFrom t0 z.init z.trans n := by
  unfold fromLocal
  cases z.trans with
  | nil => simp [fromLocalFrom, h]
  | cons hd rest =>
    obtain ⟨t', o'⟩ := hd
    simp only [fromLocalFrom, h, true_and]

/-- a virtual first transition early enough for the local time `n` and for the table conditions -/
def virt (z : Zone) (n : Int) : Int :=
  match z.trans with
  | [] => n - offNs z.init
  | (t, o) :: _ => min (n - offNs z.init) (t - offNs (o - z.init).natAbs - nsPerMin)

theorem virt_le (z : Zone) (n : Int) : virt z n ≤ n - offNs z.init := by
  unfold virt; split
  · omega
  · exact Int.min_le_left _ _

theorem virt_mono (z : Zone) {n m : Int} (h : n ≤ m) : virt z n ≤ m - offNs z.init := by
  have := virt_le z n; omega

theorem virt_sorted (z : Zone) (n : Int) (hs : sorted z = true) : sortedFrom (virt z n) z.trans = true := by
  unfold virt sorted at *
  cases hz : z.trans with
  | nil => simp [sortedFrom]
  | cons hd rest =>
    obtain ⟨t, o⟩ := hd
    rw [hz] at hs
    simp only [sortedFrom, Bool.and_eq_true, decide_eq_true_eq]
    refine ⟨?_, hs⟩
    have : (0:Int) ≤ offNs ((o - z.init).natAbs) := by simp only [offNs]; omega
    simp only [nsPerMin]
    omega

theorem virt_spaced (z : Zone) (n : Int) (hs : spaced z = true) :
    spacedFrom z.init (virt z n) z.init z.trans = true := by
  unfold virt spaced at *
  cases hz : z.trans with
  | nil => simp [spacedFrom]
  | cons hd rest =>
    obtain ⟨t, o⟩ := hd
    rw [hz] at hs
    simp only [spacedFrom, Bool.and_eq_true, decide_eq_true_eq]
    refine ⟨?_, hs⟩
    simp only [offNs, nsPerMin]
    omega

theorem offsetAt_eq (z : Zone) (u : Int) : offsetAt z u = offsetFrom z.init z.trans u := rfl

/-- **characterisation**: the list `fromLocal z n` is exactly the set of instants whose local
reading is `n` -/
theorem mem_fromLocal {z : Zone} (hs : sorted z = true) (n u : Int) :
    u ∈ fromLocal z n ↔ naive z u = n := by
  have ht : min (virt z n) u ≤ n - offNs z.init := by have := virt_le z n; omega
  have hsrt : sortedFrom (min (virt z n) u) z.trans = true := by
    have := virt_sorted z n hs
    cases hz : z.trans with
    | nil => simp [sortedFrom]
    | cons hd rest =>
      obtain ⟨t, o⟩ := hd
      rw [hz] at this
      simp only [sortedFrom, Bool.and_eq_true, decide_eq_true_eq] at this ⊢
      exact ⟨by omega, this.2⟩
  rw [fromLocal_eq_from z n _ ht, mem_fromLocalFrom hsrt]
  unfold naive
  rw [offsetAt_eq]
  constructor
  · intro h; exact h.2
  · intro h; exact ⟨Int.min_le_right _ _, h⟩

theorem fromLocal_pairwise {z : Zone} (hs : sorted z = true) (n : Int) :
    (fromLocal z n).Pairwise (· < ·) := by
  rw [fromLocal_eq_from z n _ (virt_le z n)]
  exact fromLocalFrom_pairwise (virt_sorted z n hs) n

/-- `latest()` is an instant reading `n`, and no later instant reads `n` -/
theorem latest_spec {z : Zone} (hs : sorted z = true) {n u : Int} (h : latest? z n = some u) :
    naive z u = n ∧ ∀ u', naive z u' = n → u' ≤ u := by
  unfold latest? at h
  refine ⟨(mem_fromLocal hs n u).mp (List.mem_of_getLast? h), ?_⟩
  intro u' hu'
  exact getLast?_max (fromLocal_pairwise hs n) h u' ((mem_fromLocal hs n u').mpr hu')

theorem latest_none_iff {z : Zone} (hs : sorted z = true) (n : Int) :
    latest? z n = none ↔ ∀ u, naive z u ≠ n := by
  unfold latest?
  rw [List.getLast?_eq_none_iff]
  constructor
  · intro h u hu
    have := (mem_fromLocal hs n u).mpr hu
    rw [h] at this; cases this
  · intro h
    cases hl : fromLocal z n with
    | nil => rfl
    | cons a rest =>
      have : a ∈ fromLocal z n := by rw [hl]; exact List.mem_cons_self
      exact absurd ((mem_fromLocal hs n a).mp this) (h a)

/-- `earliest()` is an instant reading `n`, and no earlier instant reads `n` -/
theorem earliest_spec {z : Zone} (hs : sorted z = true) {n u : Int} (h : earliest? z n = some u) :
    naive z u = n ∧ ∀ u', naive z u' = n → u ≤ u' := by
  unfold earliest? at h
  refine ⟨(mem_fromLocal hs n u).mp (List.mem_of_head? h), ?_⟩
  intro u' hu'
  exact head?_min (fromLocal_pairwise hs n) h u' ((mem_fromLocal hs n u').mpr hu')

/-- `earliest()` and `latest()` answer `None` for the same local times -/
theorem earliest?_eq_none_iff (z : Zone) (n : Int) : earliest? z n = none ↔ latest? z n = none := by
  unfold earliest? latest?
  rw [List.head?_eq_none_iff, List.getLast?_eq_none_iff]

theorem earliest?_of_singleton {z : Zone} {n u : Int} (h : fromLocal z n = [u]) : earliest? z n = some u := by
  unfold earliest?; rw [h]; rfl

theorem latest?_of_singleton {z : Zone} {n u : Int} (h : fromLocal z n = [u]) : latest? z n = some u := by
  unfold latest?; rw [h]; rfl

/-! ### the minute loop and the walk back of `datetime` -/

theorem found?_self (z : Zone) (n : Int) : found? z n n = latest? z n := by
  unfold found?; rw [if_pos rfl]

theorem found?_of_ne {z : Zone} {req n : Int} (h : n ≠ req) : found? z req n = earliest? z n := by
  unfold found?; rw [if_neg h]

theorem found?_eq_none {z : Zone} {req n : Int} (h : latest? z n = none) : found? z req n = none := by
  unfold found?
  split
  · exact h
  · exact (earliest?_eq_none_iff z n).mpr h

/-- whatever `found?` picks is an instant reading `n` -/
theorem found?_mem {z : Zone} {req n u : Int} (h : found? z req n = some u) : u ∈ fromLocal z n := by
  unfold found? at h
  split at h
  · exact List.mem_of_getLast? h
  · exact List.mem_of_head? h

theorem minuteLoop_of_some {z : Zone} {req n u : Int} (h : found? z req n = some u) :
    minuteLoop z req n = .ok (n, u) := by
  rw [minuteLoop]
  split
  · rename_i u' hu'; rw [h] at hu'; cases hu'; rfl
  · rename_i hn; rw [h] at hn; cases hn

theorem minuteLoop_of_none {z : Zone} {req n : Int} (h : latest? z n = none) :
    minuteLoop z req n = if n + nsPerMin > instMax then .error "localize.rs:datetime no valid datetime for time zone"
      else minuteLoop z req (n + nsPerMin) := by
  have h' : found? z req n = none := found?_eq_none h
  rw [minuteLoop]
  split
  · rename_i u' hu'; rw [h'] at hu'; cases hu'
  · rfl

/-- the loop returns the first existing local time among `n, n + 1 min, …` and the instant `found?`
picks for it -/
theorem minuteLoop_steps {z : Zone} {req : Int} (k : Nat) : ∀ (n u : Int),
    (∀ j : Nat, j < k → latest? z (n + j * nsPerMin) = none) →
    found? z req (n + k * nsPerMin) = some u → n + k * nsPerMin ≤ instMax →
    minuteLoop z req n = .ok (n + k * nsPerMin, u) := by
  induction k with
  | zero =>
    intro n u _ h _
    simp only [Int.natCast_zero, Int.zero_mul, Int.add_zero] at h ⊢
    exact minuteLoop_of_some h
  | succ k ih =>
    intro n u hnone hsome hmax
    have h0 := hnone 0 (by omega)
    simp only [Int.natCast_zero, Int.zero_mul, Int.add_zero] at h0
    rw [minuteLoop_of_none h0]
    have hk : n + (k + 1 : Nat) * nsPerMin = n + nsPerMin + k * nsPerMin := by
      simp only [Int.natCast_add, Int.natCast_one, Int.add_mul, Int.one_mul]; omega
    have hlt : ¬ (n + nsPerMin > instMax) := by
      rw [hk] at hmax
      have : (0 : Int) ≤ k * nsPerMin := Int.mul_nonneg (Int.natCast_nonneg k) (by simp [nsPerMin])
      omega
    rw [if_neg hlt, hk]
    apply ih (n + nsPerMin) u
    · intro j hj
      have := hnone (j + 1) (by omega)
      have e : n + ((j + 1 : Nat) : Int) * nsPerMin = n + nsPerMin + j * nsPerMin := by
        simp only [Int.natCast_add, Int.natCast_one, Int.add_mul, Int.one_mul]; omega
      rw [e] at this; exact this
    · rw [← hk]; exact hsome
    · rw [← hk]; exact hmax

/-- no walk when the requested time itself exists -/
theorem walkBack_self (z : Zone) (n dt : Int) : walkBack z n n dt = .ok dt := by
  rw [walkBack, if_neg (by omega)]

/-- an existing requested time is mapped to its `latest()` instant -/
theorem datetime_of_some {z : Zone} {n u : Int} (h : latest? z n = some u) : datetime z n = .ok u := by
  unfold datetime
  rw [minuteLoop_of_some (by rw [found?_self]; exact h)]
  exact walkBack_self z n u

/-- what the walk back returns, in general: the earliest instant of a local time `m'` reached from
`m` by whole seconds through existing local times only, not below `req`; and the second before
`m'` does not exist or is not above `req`.  No underflow for a representable `req`. -/
theorem walkBack_spec {z : Zone} {req : Int} (hreq : instMin ≤ req) : ∀ (m u : Int),
    (m - req) % nsPerSec = 0 → earliest? z m = some u →
    ∃ m' u', walkBack z req m u = .ok u' ∧ earliest? z m' = some u' ∧ m' ≤ m ∧ (m' = m ∨ req ≤ m') ∧
      (m - m') % nsPerSec = 0 ∧ (∀ x, m' ≤ x → x ≤ m → (m - x) % nsPerSec = 0 → earliest? z x ≠ none) ∧
      (req < m' → earliest? z (m' - nsPerSec) = none) := by
  intro m u
  fun_induction walkBack z req m u with
  | case1 m u hgt hlow => intro hph _; exfalso; simp only [nsPerSec] at *; omega
  | case2 m u hgt hlow prev hprev ih =>
    intro hph hl
    have hph' : (m - nsPerSec - req) % nsPerSec = 0 := by simp only [nsPerSec] at *; omega
    obtain ⟨m', u', h1, h2, h3, h4, h5, h6, h7⟩ := ih hph' hprev
    refine ⟨m', u', h1, h2, by simp only [nsPerSec] at *; omega, ?_, by simp only [nsPerSec] at *; omega, ?_, h7⟩
    · right
      rcases h4 with h | h
      · simp only [nsPerSec] at *; omega
      · exact h
    · intro x hx1 hx2 hx3
      by_cases hxm : x = m
      · subst hxm; rw [hl]; simp
      · exact h6 x hx1 (by simp only [nsPerSec] at *; omega) (by simp only [nsPerSec] at *; omega)
  | case3 m u hgt hlow hnone =>
    intro _ hl
    refine ⟨m, u, rfl, hl, by omega, Or.inl rfl, by simp, ?_, fun _ => hnone⟩
    intro x hx1 hx2 _
    have : x = m := by omega
    subst this; rw [hl]; simp
  | case4 m u hle =>
    intro _ hl
    refine ⟨m, u, rfl, hl, by omega, Or.inl rfl, by simp, ?_, fun h => by omega⟩
    intro x hx1 hx2 _
    have : x = m := by omega
    subst this; rw [hl]; simp

/-! ### consequences of the ordering / spacing condition, on table suffixes

`orderedFrom` (local spans in order) is what the lemmas about gaps and monotonicity need;
`spacedFrom` (which implies it) is only needed for "read exactly once" statements. -/

theorem spacedFrom_cons {p t o t' o' : Int} {rest : List (Int × Int)} :
    spacedFrom p t o ((t', o') :: rest) = true ↔
      t' - t ≥ offNs (o - p).natAbs + offNs (o' - o).natAbs + nsPerMin ∧ spacedFrom o t' o' rest = true := by
  simp [spacedFrom]

theorem orderedFrom_cons {p t o t' o' : Int} {rest : List (Int × Int)} :
    orderedFrom p t o ((t', o') :: rest) = true ↔
      (t + offNs p ≤ t' + offNs o ∧ t + offNs o ≤ t' + offNs o' ∧ (p < o → t' - t ≥ nsPerMin)) ∧
        orderedFrom o t' o' rest = true := by
  simp only [orderedFrom, Bool.and_eq_true, decide_eq_true_eq]

/-- spaced tables have their local spans in order -/
theorem ordered_of_spacedFrom {p t o : Int} {l : List (Int × Int)} (h : spacedFrom p t o l = true) :
    orderedFrom p t o l = true := by
  induction l generalizing p t o with
  | nil => rfl
  | cons hd rest ih =>
    obtain ⟨t', o'⟩ := hd
    obtain ⟨h1, h2⟩ := spacedFrom_cons.mp h
    refine orderedFrom_cons.mpr ⟨?_, ih h2⟩
    simp only [offNs, nsPerMin] at *
    omega

theorem spansOrdered_of_spaced {z : Zone} (h : spaced z = true) : spansOrdered z = true := by
  unfold spaced at h
  unfold spansOrdered
  cases hz : z.trans with
  | nil => rfl
  | cons hd rest =>
    obtain ⟨t, o⟩ := hd
    rw [hz] at h
    exact ordered_of_spacedFrom h

theorem virt_ordered (z : Zone) (n : Int) (ho : spansOrdered z = true) :
    orderedFrom z.init (virt z n) z.init z.trans = true := by
  unfold virt spansOrdered at *
  cases hz : z.trans with
  | nil => simp [orderedFrom]
  | cons hd rest =>
    obtain ⟨t, o⟩ := hd
    rw [hz] at ho
    refine orderedFrom_cons.mpr ⟨?_, ho⟩
    simp only [offNs, nsPerMin]
    omega

/-- no span at/after `(t, o)` contains a local time before `t + o` (local span starts do not decrease) -/
theorem none_before {p t o : Int} {l : List (Int × Int)} (hs : sortedFrom t l = true)
    (hp : orderedFrom p t o l = true) {m : Int} (hm : m < t + offNs o) : fromLocalFrom t o l m = [] := by
  induction l generalizing p t o with
  | nil =>
    simp only [fromLocalFrom]
    rw [if_neg (by omega)]
  | cons hd rest ih =>
    obtain ⟨t', o'⟩ := hd
    obtain ⟨h1, h2⟩ := sortedFrom_cons.mp hs
    obtain ⟨h3, h4⟩ := orderedFrom_cons.mp hp
    simp only [fromLocalFrom]
    rw [if_neg (by omega), List.nil_append]
    apply ih h2 h4
    omega

/-- the last span starts (locally) after every other span -/
theorem start_le_lastLocalFrom {p t o : Int} {l : List (Int × Int)} (hs : sortedFrom t l = true)
    (hp : orderedFrom p t o l = true) : t + offNs o ≤ lastLocalFrom t o l := by
  induction l generalizing p t o with
  | nil => simp [lastLocalFrom]
  | cons hd rest ih =>
    obtain ⟨t', o'⟩ := hd
    obtain ⟨h1, h2⟩ := sortedFrom_cons.mp hs
    obtain ⟨h3, h4⟩ := orderedFrom_cons.mp hp
    simp only [lastLocalFrom]
    have := ih h2 h4
    omega

/-- the first minute of a span is unambiguous local time in a SPACED table: `t + o + r` is read only
at `t + r` -/
theorem first_minute {p t o : Int} {l : List (Int × Int)} (hs : sortedFrom t l = true)
    (hp : spacedFrom p t o l = true) {r : Int} (h0 : 0 ≤ r) (h1 : r < nsPerMin) :
    fromLocalFrom t o l (t + offNs o + r) = [t + r] := by
  cases l with
  | nil =>
    simp only [fromLocalFrom]
    rw [if_pos (by omega)]
    congr 1; omega
  | cons hd rest =>
    obtain ⟨t', o'⟩ := hd
    obtain ⟨h2, h3⟩ := sortedFrom_cons.mp hs
    obtain ⟨h4, h5⟩ := spacedFrom_cons.mp hp
    simp only [fromLocalFrom]
    have hn : fromLocalFrom t' o' rest (t + offNs o + r) = [] := by
      apply none_before h3 (ordered_of_spacedFrom h5)
      simp only [offNs, nsPerMin] at *
      omega
    rw [hn, List.append_nil, if_pos]
    · congr 1; omega
    · simp only [offNs, nsPerMin] at *
      omega

/-- the first minute of a span that starts with a forward jump, in an ORDERED table: `t + o + r` is
read FIRST at `t + r` (it may be read again after a fold that follows directly) -/
theorem first_minute_head {p t o : Int} {l : List (Int × Int)} (_hs : sortedFrom t l = true)
    (hp : orderedFrom p t o l = true) (hj : p < o) {r : Int} (h0 : 0 ≤ r) (h1 : r < nsPerMin) :
    (fromLocalFrom t o l (t + offNs o + r)).head? = some (t + r) := by
  cases l with
  | nil =>
    simp only [fromLocalFrom]
    rw [if_pos (by omega)]
    simp only [List.head?_cons, Option.some.injEq]
    omega
  | cons hd rest =>
    obtain ⟨t', o'⟩ := hd
    obtain ⟨h4, _⟩ := orderedFrom_cons.mp hp
    have h5 := h4.2.2 hj
    simp only [fromLocalFrom]
    rw [if_pos (by omega)]
    simp only [List.cons_append, List.head?_cons, Option.some.injEq]
    omega

/-- **gap structure.**  A local time `n` at/after the start of span `(t, o)` that no span
contains is skipped by a forward jump `(T, a, b)`: `a ≤ n < b`, everything in `[n, b)` is skipped
too, and the minute from `b` on is read first at `T + r` — in a spaced table only there. -/
theorem gap_structure {p t o : Int} {l : List (Int × Int)} (hs : sortedFrom t l = true)
    (hp : orderedFrom p t o l = true) {n : Int} (hn : t + offNs o ≤ n)
    (he : fromLocalFrom t o l n = []) :
    ∃ T a b, gapOfFrom o l n = some (T, a, b) ∧ a ≤ n ∧ n < b ∧ b ≤ lastLocalFrom t o l ∧
      (∀ m, n ≤ m → m < b → fromLocalFrom t o l m = []) ∧
      (∀ r, 0 ≤ r → r < nsPerMin → (fromLocalFrom t o l (b + r)).head? = some (T + r)) ∧
      (spacedFrom p t o l = true → ∀ r, 0 ≤ r → r < nsPerMin → fromLocalFrom t o l (b + r) = [T + r]) := by
  induction l generalizing p t o with
  | nil =>
    simp only [fromLocalFrom] at he
    rw [if_pos (by omega)] at he
    cases he
  | cons hd rest ih =>
    obtain ⟨t', o'⟩ := hd
    obtain ⟨h1, h2⟩ := sortedFrom_cons.mp hs
    obtain ⟨h3, h4⟩ := orderedFrom_cons.mp hp
    simp only [fromLocalFrom, List.append_eq_nil_iff] at he
    obtain ⟨he1, he2⟩ := he
    have hge : t' + offNs o ≤ n := by
      by_cases hc : t ≤ n - offNs o ∧ n - offNs o < t'
      · rw [if_pos hc] at he1; cases he1
      · omega
    by_cases hgap : n < t' + offNs o'
    · -- the gap is at this transition
      have hj : o < o' := by simp only [offNs] at *; omega
      refine ⟨t', t' + offNs o, t' + offNs o', ?_, hge, hgap, ?_, ?_, ?_, ?_⟩
      · simp only [gapOfFrom]
        rw [if_pos ⟨hge, hgap⟩]
      · simp only [lastLocalFrom]
        exact start_le_lastLocalFrom h2 h4
      · intro m hm1 hm2
        simp only [fromLocalFrom]
        rw [if_neg (by omega), List.nil_append]
        exact none_before h2 h4 hm2
      · intro r hr0 hr1
        simp only [fromLocalFrom]
        rw [if_neg (by omega), List.nil_append]
        exact first_minute_head h2 h4 hj hr0 hr1
      · intro hsp r hr0 hr1
        obtain ⟨_, h4'⟩ := spacedFrom_cons.mp hsp
        simp only [fromLocalFrom]
        rw [if_neg (by omega), List.nil_append]
        exact first_minute h2 h4' hr0 hr1
    · -- later
      obtain ⟨T, a, b, g1, g2, g3, g4, g5, g6, g7⟩ := ih h2 h4 (by omega) he2
      refine ⟨T, a, b, ?_, g2, g3, ?_, ?_, ?_, ?_⟩
      · simp only [gapOfFrom]
        rw [if_neg (by omega)]
        exact g1
      · simp only [lastLocalFrom]; exact g4
      · intro m hm1 hm2
        simp only [fromLocalFrom]
        rw [if_neg (by omega), List.nil_append]
        exact g5 m hm1 hm2
      · intro r hr0 hr1
        simp only [fromLocalFrom]
        rw [if_neg (by omega), List.nil_append]
        exact g6 r hr0 hr1
      · intro hsp r hr0 hr1
        obtain ⟨_, h4'⟩ := spacedFrom_cons.mp hsp
        simp only [fromLocalFrom]
        rw [if_neg (by omega), List.nil_append]
        exact g7 h4' r hr0 hr1

/-- `latest()` is strictly increasing on existing local times -/
theorem latestFrom_strictMono {p t o : Int} {l : List (Int × Int)} (hs : sortedFrom t l = true)
    (hp : orderedFrom p t o l = true) {n n' u u' : Int} (hlt : n < n')
    (hu : (fromLocalFrom t o l n).getLast? = some u) (hu' : (fromLocalFrom t o l n').getLast? = some u') :
    u < u' := by
  induction l generalizing p t o with
  | nil =>
    simp only [fromLocalFrom] at hu hu'
    split at hu <;> split at hu' <;> simp at hu hu' <;> omega
  | cons hd rest ih =>
    obtain ⟨t', o'⟩ := hd
    obtain ⟨h1, h2⟩ := sortedFrom_cons.mp hs
    obtain ⟨h3, h4⟩ := orderedFrom_cons.mp hp
    simp only [fromLocalFrom] at hu hu'
    by_cases hr : fromLocalFrom t' o' rest n = []
    · rw [hr, List.append_nil] at hu
      -- `u` is in the current span
      have hu1 : u = n - offNs o ∧ n - offNs o < t' := by
        split at hu
        · simp at hu; omega
        · cases hu
      by_cases hr' : fromLocalFrom t' o' rest n' = []
      · rw [hr', List.append_nil] at hu'
        split at hu'
        · simp at hu'; omega
        · cases hu'
      · rw [getLast?_append_of_ne_nil _ hr'] at hu'
        have := ((mem_fromLocalFrom h2 n' u').mp (List.mem_of_getLast? hu')).1
        omega
    · rw [getLast?_append_of_ne_nil _ hr] at hu
      by_cases hr' : fromLocalFrom t' o' rest n' = []
      · -- impossible: `n'` would be in the current span only while the earlier `n` is in a later one
        exfalso
        have hn : t' + offNs o' ≤ n := by
          apply Int.not_lt.mp
          intro hc
          exact hr (none_before h2 h4 hc)
        rw [hr', List.append_nil] at hu'
        have hn' : n' - offNs o < t' := by
          split at hu'
          · omega
          · cases hu'
        -- then `n'` lies in the next span (local span ends do not decrease)
        cases rest with
        | nil =>
          simp only [fromLocalFrom] at hr'
          rw [if_pos (by omega)] at hr'
          cases hr'
        | cons hd2 rest2 =>
          obtain ⟨t'', o''⟩ := hd2
          obtain ⟨h5, _⟩ := orderedFrom_cons.mp h4
          simp only [fromLocalFrom, List.append_eq_nil_iff] at hr'
          have hc : t' ≤ n' - offNs o' ∧ n' - offNs o' < t'' := by omega
          rw [if_pos hc] at hr'
          cases hr'.1
      · rw [getLast?_append_of_ne_nil _ hr'] at hu'
        exact ih h2 h4 hu hu'

/-- the transition of a gap found after `t` is after `t` -/
theorem gap_T_gt {t o : Int} {l : List (Int × Int)} (hs : sortedFrom t l = true) {n T a b : Int}
    (hg : gapOfFrom o l n = some (T, a, b)) : t < T := by
  induction l generalizing t o with
  | nil => cases hg
  | cons hd rest ih =>
    obtain ⟨t', o'⟩ := hd
    obtain ⟨h1, h2⟩ := sortedFrom_cons.mp hs
    simp only [gapOfFrom] at hg
    split at hg
    · cases hg; exact h1
    · have := ih h2 hg; omega

/-- from `t` on the clock never shows a time before `t + o` (local span starts do not decrease) -/
theorem naive_ge_start {p t o : Int} {l : List (Int × Int)} (hs : sortedFrom t l = true)
    (hp : orderedFrom p t o l = true) {u : Int} (hu : t ≤ u) :
    t + offNs o ≤ u + offNs (offsetFrom o l u) := by
  induction l generalizing p t o with
  | nil => simp only [offsetFrom]; omega
  | cons hd rest ih =>
    obtain ⟨t', o'⟩ := hd
    obtain ⟨h1, h2⟩ := sortedFrom_cons.mp hs
    obtain ⟨h3, h4⟩ := orderedFrom_cons.mp hp
    simp only [offsetFrom]
    split
    · omega
    · have := ih h2 h4 (by omega)
      omega

/-- from the forward jump `T` on the clock never shows a time before the landing time `b` -/
theorem gap_above_from {p t o : Int} {l : List (Int × Int)} (hs : sortedFrom t l = true)
    (hp : orderedFrom p t o l = true) {n T a b : Int} (hg : gapOfFrom o l n = some (T, a, b))
    {u : Int} (hu : T ≤ u) : b ≤ u + offNs (offsetFrom o l u) := by
  induction l generalizing p t o with
  | nil => cases hg
  | cons hd rest ih =>
    obtain ⟨t', o'⟩ := hd
    obtain ⟨h1, h2⟩ := sortedFrom_cons.mp hs
    obtain ⟨h3, h4⟩ := orderedFrom_cons.mp hp
    simp only [gapOfFrom] at hg
    simp only [offsetFrom]
    split at hg
    · cases hg
      rw [if_neg (by omega)]
      exact naive_ge_start h2 h4 hu
    · have hT := gap_T_gt h2 hg
      rw [if_neg (by omega)]
      exact ih h2 h4 hg

/-- the local time at which a gap starts is not before the local end of any earlier span -/
theorem gap_start_ge {p t o : Int} {l : List (Int × Int)} (hp : orderedFrom p t o l = true)
    {n T a b : Int} (hg : gapOfFrom o l n = some (T, a, b)) : t + offNs p ≤ a := by
  induction l generalizing p t o with
  | nil => cases hg
  | cons hd rest ih =>
    obtain ⟨t', o'⟩ := hd
    obtain ⟨h3, h4⟩ := orderedFrom_cons.mp hp
    simp only [gapOfFrom] at hg
    split at hg
    · cases hg; omega
    · have := ih h4 hg; omega

/-- before the forward jump `T` the clock only shows times before the start `a` of the gap
(local span ends do not decrease) -/
theorem gap_below_from {p t o : Int} {l : List (Int × Int)} (hs : sortedFrom t l = true)
    (hp : orderedFrom p t o l = true) {n T a b : Int} (hg : gapOfFrom o l n = some (T, a, b))
    {u : Int} (hu : u < T) : u + offNs (offsetFrom o l u) < a := by
  induction l generalizing p t o with
  | nil => cases hg
  | cons hd rest ih =>
    obtain ⟨t', o'⟩ := hd
    obtain ⟨h1, h2⟩ := sortedFrom_cons.mp hs
    obtain ⟨h3, h4⟩ := orderedFrom_cons.mp hp
    simp only [gapOfFrom] at hg
    simp only [offsetFrom]
    split at hg
    · cases hg
      rw [if_pos hu]
      omega
    · by_cases hut : u < t'
      · rw [if_pos hut]
        have := gap_start_ge h4 hg
        omega
      · rw [if_neg hut]
        exact ih h2 h4 hg

/-! ### the same facts for a zone -/

theorem lastLocalFrom_virt (z : Zone) (t0 : Int) (h : z.trans ≠ []) :
    lastLocalFrom t0 z.init z.trans = lastLocal z := by
  unfold lastLocal
  cases hz : z.trans with
  | nil => exact absurd hz h
  | cons hd rest => obtain ⟨t, o⟩ := hd; simp [lastLocalFrom]

theorem gapOf_eq (z : Zone) (n : Int) : gapOf z n = gapOfFrom z.init z.trans n := rfl

/-- **gap structure of a zone** (see `gap_structure`): sorted table with its local spans in order -/
theorem gap_of_none {z : Zone} (hs : sorted z = true) (hp : spansOrdered z = true) {n : Int}
    (he : latest? z n = none) :
    ∃ T a b, gapOf z n = some (T, a, b) ∧ a ≤ n ∧ n < b ∧ b ≤ lastLocal z ∧
      (∀ m, n ≤ m → m < b → latest? z m = none) ∧
      (∀ r, 0 ≤ r → r < nsPerMin → earliest? z (b + r) = some (T + r)) ∧
      (spaced z = true → ∀ r, 0 ≤ r → r < nsPerMin → fromLocal z (b + r) = [T + r]) := by
  unfold latest? at he
  rw [List.getLast?_eq_none_iff] at he
  have hne : z.trans ≠ [] := by
    intro hz
    unfold fromLocal at he
    rw [hz] at he
    cases he
  have hv := virt_le z n
  rw [fromLocal_eq_from z n _ hv] at he
  obtain ⟨T, a, b, g1, g2, g3, g4, g5, g6, g7⟩ :=
    gap_structure (virt_sorted z n hs) (virt_ordered z n hp) (by omega) he
  refine ⟨T, a, b, g1, g2, g3, ?_, ?_, ?_, ?_⟩
  · rw [lastLocalFrom_virt z _ hne] at g4; exact g4
  · intro m hm1 hm2
    unfold latest?
    rw [fromLocal_eq_from z m _ (virt_mono z hm1), g5 m hm1 hm2]
    rfl
  · intro r hr0 hr1
    have hle : n ≤ b + r := by omega
    unfold earliest?
    rw [fromLocal_eq_from z (b + r) _ (virt_mono z hle)]
    exact g6 r hr0 hr1
  · intro hsp r hr0 hr1
    have hle : n ≤ b + r := by omega
    rw [fromLocal_eq_from z (b + r) _ (virt_mono z hle)]
    exact g7 (virt_spaced z n hsp) r hr0 hr1

/-- from the forward jump `T` of a gap on, the clock never shows a time before the landing time -/
theorem gap_above {z : Zone} (hs : sorted z = true) (hp : spansOrdered z = true) {n T a b : Int}
    (hg : gapOf z n = some (T, a, b)) {u : Int} (hu : T ≤ u) : b ≤ naive z u := by
  unfold naive offsetAt
  exact gap_above_from (virt_sorted z n hs) (virt_ordered z n hp) (gapOf_eq z n ▸ hg) hu

/-- before the forward jump `T` of a gap the clock only shows times before the start of the gap -/
theorem gap_below {z : Zone} (hs : sorted z = true) (hp : spansOrdered z = true) {n T a b : Int}
    (hg : gapOf z n = some (T, a, b)) {u : Int} (hu : u < T) : naive z u < a := by
  unfold naive offsetAt
  exact gap_below_from (virt_sorted z n hs) (virt_ordered z n hp) (gapOf_eq z n ▸ hg) hu

/-- `latest()` is strictly increasing on existing local times -/
theorem latest_strictMono {z : Zone} (hs : sorted z = true) (hp : spansOrdered z = true) {n n' u u' : Int}
    (hlt : n < n') (hu : latest? z n = some u) (hu' : latest? z n' = some u') : u < u' := by
  unfold latest? at hu hu'
  rw [fromLocal_eq_from z n _ (virt_le z n)] at hu
  rw [fromLocal_eq_from z n' _ (virt_mono z (Int.le_of_lt hlt))] at hu'
  exact latestFrom_strictMono (virt_sorted z n hs) (virt_ordered z n hp) hlt hu hu'

theorem latest_mono {z : Zone} (hs : sorted z = true) (hp : spansOrdered z = true) {n n' u u' : Int}
    (hle : n ≤ n') (hu : latest? z n = some u) (hu' : latest? z n' = some u') : u ≤ u' := by
  by_cases h : n = n'
  · subst h; rw [hu] at hu'; cases hu'; omega
  · exact Int.le_of_lt (latest_strictMono hs hp (by omega) hu hu')

/-- the first instant of a local time is not after the last instant of a later (or the same) one -/
theorem earliest_le_latest {z : Zone} (hs : sorted z = true) (hp : spansOrdered z = true) {n n' u u' : Int}
    (hle : n ≤ n') (hu : earliest? z n = some u) (hu' : latest? z n' = some u') : u ≤ u' := by
  cases hl : latest? z n with
  | none => rw [(earliest?_eq_none_iff z n).mpr hl] at hu; cases hu
  | some v =>
    have h1 := (earliest_spec hs hu).2 v (latest_spec hs hl).1
    have h2 := latest_mono hs hp hle hl hu'
    omega

/-- a forward jump of an aligned table lands on a whole local minute -/
theorem gap_end_aligned {p : Int} {l : List (Int × Int)} {n T a b : Int}
    (hg : gapOfFrom p l n = some (T, a, b)) (ha : gapsAlignedFrom p l = true) : b % nsPerMin = 0 := by
  induction l generalizing p with
  | nil => cases hg
  | cons hd rest ih =>
    obtain ⟨t, o⟩ := hd
    simp only [gapOfFrom] at hg
    simp only [gapsAlignedFrom, Bool.and_eq_true, Bool.or_eq_true, decide_eq_true_eq] at ha
    split at hg
    · rename_i hc
      cases hg
      rcases ha.1 with h | h
      · simp only [offNs] at hc; omega
      · exact h
    · exact ih hg ha.2

theorem emod_min_nonneg (x : Int) : 0 ≤ x % nsPerMin := Int.emod_nonneg _ (by simp [nsPerMin])
theorem emod_min_lt (x : Int) : x % nsPerMin < nsPerMin := Int.emod_lt_of_pos _ (by simp [nsPerMin])
theorem emod_sec_nonneg (x : Int) : 0 ≤ x % nsPerSec := Int.emod_nonneg _ (by simp [nsPerSec])
theorem emod_sec_lt (x : Int) : x % nsPerSec < nsPerSec := Int.emod_lt_of_pos _ (by simp [nsPerSec])

/-- the walk back after a gap `[.., b)` landing at `T`: from `b + x` it stops at the first second of
the phase of `x`, `b + x mod 1 s` -/
theorem walkBack_gap {z : Zone} {req T b : Int} (hreq : instMin ≤ req)
    (hvalid : ∀ r, 0 ≤ r → r < nsPerMin → earliest? z (b + r) = some (T + r))
    (hinv : ∀ m, req ≤ m → m < b → latest? z m = none) (hlt : req < b)
    {x : Int} (hx0 : 0 ≤ x) (hx1 : x < nsPerMin) (hph : (b + x - req) % nsPerSec = 0) :
    walkBack z req (b + x) (T + x) = .ok (T + x % nsPerSec) := by
  obtain ⟨m', u', h1, h2, h3, h4, h5, h6, h7⟩ := walkBack_spec hreq (b + x) (T + x) hph (hvalid x hx0 hx1)
  have hge : b ≤ m' := by
    apply Int.not_lt.mp
    intro hc
    have hreq' : req ≤ m' := by
      rcases h4 with h | h
      · omega
      · exact h
    rw [(earliest?_eq_none_iff z m').mpr (hinv m' hreq' hc)] at h2; cases h2
  have hlt' : m' < b + nsPerSec := by
    apply Int.not_le.mp
    intro hc
    have hn := h7 (by omega)
    have hv := hvalid (m' - nsPerSec - b) (by omega) (by simp only [nsPerSec, nsPerMin] at *; omega)
    have e : b + (m' - nsPerSec - b) = m' - nsPerSec := by omega
    rw [e, hn] at hv; cases hv
  have hm : m' = b + x % nsPerSec := by simp only [nsPerSec, nsPerMin] at *; omega
  have hv := hvalid (x % nsPerSec) (emod_sec_nonneg x) (by have := emod_sec_lt x; simp only [nsPerSec, nsPerMin] at *; omega)
  rw [← hm, h2] at hv
  cases hv
  exact h1

/-- **the loop in a gap**: the minute loop lands on `b + r`, `r = (n - b) mod 1 min`, takes the
EARLIEST instant `T + r` of it, and the walk back returns the instant `T + (n - b) mod 1 s`: `T` is
the forward jump that skips `n`, `b` the local time it lands on.  Sorted table with its local spans
in order; a fold may follow the gap directly. -/
theorem datetime_gap_core {z : Zone} (hs : sorted z = true) (hp : spansOrdered z = true) {n : Int}
    (he : latest? z n = none) (hmax : lastLocal z + nsPerMin ≤ instMax) (hmin : instMin ≤ n) :
    ∃ T a b, gapOf z n = some (T, a, b) ∧ a ≤ n ∧ n < b ∧
      (∀ m, n ≤ m → m < b → latest? z m = none) ∧
      (∀ r, 0 ≤ r → r < nsPerMin → earliest? z (b + r) = some (T + r)) ∧
      (spaced z = true → ∀ r, 0 ≤ r → r < nsPerMin → fromLocal z (b + r) = [T + r]) ∧
      datetime z n = .ok (T + (n - b) % nsPerSec) := by
  obtain ⟨T, a, b, g1, g2, g3, g4, g5, g6, g7⟩ := gap_of_none hs hp he
  have hr0 := emod_min_nonneg (n - b)
  have hr1 := emod_min_lt (n - b)
  have hl := g6 _ hr0 hr1
  refine ⟨T, a, b, g1, g2, g3, g5, g6, g7, ?_⟩
  -- number of steps
  have hk : ∃ k : Nat, n + k * nsPerMin = b + (n - b) % nsPerMin := by
    refine ⟨((b + (n - b) % nsPerMin - n) / nsPerMin).toNat, ?_⟩
    rw [Int.toNat_of_nonneg]
    · simp only [nsPerMin] at *; omega
    · simp only [nsPerMin] at *; omega
  obtain ⟨k, hk⟩ := hk
  have hloop : minuteLoop z n n = .ok (b + (n - b) % nsPerMin, T + (n - b) % nsPerMin) := by
    rw [← hk]
    apply minuteLoop_steps k n
    · intro j hj
      apply g5
      · have : (0 : Int) ≤ j * nsPerMin := Int.mul_nonneg (Int.natCast_nonneg j) (by simp [nsPerMin])
        omega
      · simp only [nsPerMin] at *; omega
    · rw [hk, found?_of_ne (by omega)]; exact hl
    · rw [hk]; omega
  unfold datetime
  rw [hloop]
  simp only
  rw [walkBack_gap hmin g6 g5 g3 hr0 hr1 (by simp only [nsPerSec, nsPerMin] at *; omega)]
  congr 2
  simp only [nsPerSec, nsPerMin] at *
  omega

/-! ### induction along the loop, panic freedom, monotonicity -/

theorem latest_some_of_ge (z : Zone) {n : Int} (h : lastLocal z ≤ n) : ∃ u, latest? z n = some u := by
  cases hl : latest? z n with
  | some u => exact ⟨u, rfl⟩
  | none =>
    unfold latest? at hl
    have := fromLocal_eq_nil_lt z n (List.getLast?_eq_none_iff.mp hl)
    omega

/-- induction principle of the `datetime` loop -/
theorem datetime_induct (z : Zone) (P : Int → Prop)
    (h1 : ∀ n u, latest? z n = some u → P n)
    (h2 : ∀ n, latest? z n = none → n < lastLocal z → P (n + nsPerMin) → P n) : ∀ n, P n := by
  have key : ∀ (k : Nat) (n : Int), (lastLocal z - n).toNat ≤ k → P n := by
    intro k
    induction k with
    | zero =>
      intro n hk
      obtain ⟨u, hu⟩ := latest_some_of_ge z (n := n) (by omega)
      exact h1 n u hu
    | succ k ih =>
      intro n hk
      cases hl : latest? z n with
      | some u => exact h1 n u hl
      | none =>
        have hlt : n < lastLocal z := by
          apply Int.not_le.mp
          intro hc
          obtain ⟨u, hu⟩ := latest_some_of_ge z hc
          rw [hl] at hu; cases hu
        apply h2 n hl hlt
        apply ih
        simp only [nsPerMin]
        omega
  intro n
  exact key _ n (Nat.le_refl _)

/-- an existing local time has something for `found?` to pick -/
theorem found?_some_of_latest {z : Zone} {n u : Int} (req : Int) (h : latest? z n = some u) :
    ∃ v, found? z req n = some v := by
  cases hf : found? z req n with
  | some v => exact ⟨v, rfl⟩
  | none =>
    unfold found? at hf
    split at hf
    · rw [h] at hf; cases hf
    · rw [(earliest?_eq_none_iff z n).mp hf] at h; cases h

/-- what the minute loop returns -/
theorem minuteLoop_spec {z : Zone} (hmax : lastLocal z + nsPerMin ≤ instMax) (req : Int) :
    ∀ n, n ≤ instMax → ∃ m u, minuteLoop z req n = .ok (m, u) ∧ found? z req m = some u ∧ n ≤ m ∧
      (m - n) % nsPerMin = 0 ∧ (m = n ∨ (latest? z n = none ∧ m < lastLocal z + nsPerMin)) := by
  apply datetime_induct z (fun n => n ≤ instMax → ∃ m u, minuteLoop z req n = .ok (m, u) ∧ found? z req m = some u ∧
      n ≤ m ∧ (m - n) % nsPerMin = 0 ∧ (m = n ∨ (latest? z n = none ∧ m < lastLocal z + nsPerMin)))
  · intro n u hu _
    obtain ⟨v, hv⟩ := found?_some_of_latest req hu
    exact ⟨n, v, minuteLoop_of_some hv, hv, by omega, by simp, Or.inl rfl⟩
  · intro n hn hlt ih _
    rw [minuteLoop_of_none hn, if_neg (by omega)]
    obtain ⟨m, u, h1, h2, h3, h4, h5⟩ := ih (by omega)
    refine ⟨m, u, h1, h2, by simp only [nsPerMin] at *; omega, by simp only [nsPerMin] at *; omega, Or.inr ⟨hn, ?_⟩⟩
    rcases h5 with h | h
    · omega
    · exact h.2

/-- what `datetime` returns, in general: an instant of an existing local time `m'` that is `n`
itself or lies after the non-existent `n`, below `lastLocal z + 1 min`.  In particular neither
`expect("no valid datetime for time zone")` nor the subtraction of the walk back panics for a
representable `n` when the table ends a minute before `NaiveDateTime::MAX`. -/
theorem datetime_spec {z : Zone} (hmax : lastLocal z + nsPerMin ≤ instMax) {n : Int}
    (hmin : instMin ≤ n) (hle : n ≤ instMax) :
    ∃ m' u, datetime z n = .ok u ∧ u ∈ fromLocal z m' ∧
      (m' = n ∨ (latest? z n = none ∧ n < m' ∧ m' < lastLocal z + nsPerMin)) := by
  obtain ⟨m, u0, h1, h2, h3, h4, h5⟩ := minuteLoop_spec hmax n n hle
  unfold datetime
  rw [h1]
  simp only
  by_cases hmn : m = n
  · subst hmn
    exact ⟨m, u0, walkBack_self z m u0, found?_mem h2, Or.inl rfl⟩
  · rw [found?_of_ne hmn] at h2
    obtain ⟨m', u', w1, w2, w3, w4, _, _, _⟩ :=
      walkBack_spec hmin m u0 (by simp only [nsPerSec, nsPerMin] at *; omega) h2
    refine ⟨m', u', w1, List.mem_of_head? w2, ?_⟩
    rcases h5 with h | h
    · exact absurd h hmn
    · by_cases hmn' : m' = n
      · exact Or.inl hmn'
      · right
        refine ⟨h.1, ?_, by omega⟩
        rcases w4 with e | e
        · omega
        · omega

theorem datetime_no_panic {z : Zone} (hmax : lastLocal z + nsPerMin ≤ instMax) :
    ∀ n, instMin ≤ n → n ≤ instMax → ∃ u, datetime z n = .ok u := by
  intro n h1 h2
  obtain ⟨_, u, h, _⟩ := datetime_spec hmax h1 h2
  exact ⟨u, h⟩

/-- the local reading of the result is `n` itself or a later time below `lastLocal z + 1 min` -/
theorem datetime_naive_bound {z : Zone} (hs : sorted z = true) (hmax : lastLocal z + nsPerMin ≤ instMax)
    {n u : Int} (hmin : instMin ≤ n) (hle : n ≤ instMax) (h : datetime z n = .ok u) :
      naive z u = n ∨ (n < naive z u ∧ naive z u < lastLocal z + nsPerMin) := by
  obtain ⟨m', u', h1, h2, h3⟩ := datetime_spec hmax hmin hle
  have := (mem_fromLocal hs m' u').mp h2
  rw [h1] at h
  cases h
  rcases h3 with e | e
  · left; omega
  · right; omega

/-- what `datetime` returns: the latest instant of `n` when `n` exists, otherwise the instant
`T + (n - b) mod 1 s` just after the forward jump `T` that skips `n` -/
theorem datetime_cases {z : Zone} (hs : sorted z = true) (hp : spansOrdered z = true)
    (hmax : lastLocal z + nsPerMin ≤ instMax) {n : Int} (hmin : instMin ≤ n) :
    (∃ u, latest? z n = some u ∧ datetime z n = .ok u) ∨
    (latest? z n = none ∧ ∃ T a b, gapOf z n = some (T, a, b) ∧ a ≤ n ∧ n < b ∧
      (∀ m, n ≤ m → m < b → latest? z m = none) ∧
      (∀ r, 0 ≤ r → r < nsPerMin → earliest? z (b + r) = some (T + r)) ∧
      datetime z n = .ok (T + (n - b) % nsPerSec)) := by
  cases hl : latest? z n with
  | some u => exact Or.inl ⟨u, rfl, datetime_of_some hl⟩
  | none =>
    obtain ⟨T, a, b, g1, g2, g3, g4, g5, _, g7⟩ := datetime_gap_core hs hp hl hmax hmin
    exact Or.inr ⟨rfl, T, a, b, g1, g2, g3, g4, g5, g7⟩

/-- a forward jump of a whole-second table lands on a whole second -/
theorem gap_end_seconds {p : Int} {l : List (Int × Int)} {n T a b : Int}
    (hg : gapOfFrom p l n = some (T, a, b)) (ha : ∀ q ∈ l, q.1 % nsPerSec = 0) : b % nsPerSec = 0 := by
  induction l generalizing p with
  | nil => cases hg
  | cons hd rest ih =>
    obtain ⟨t, o⟩ := hd
    simp only [gapOfFrom] at hg
    have ht := ha (t, o) List.mem_cons_self
    split at hg
    · cases hg
      simp only [offNs, nsPerSec] at *
      omega
    · exact ih hg (fun q hq => ha q (List.mem_cons_of_mem _ hq))

theorem secLt : nsPerSec < nsPerMin := by simp [nsPerSec, nsPerMin]

/-- the result for a skipped local time is not before any instant that shows an earlier-or-equal
time … -/
theorem valid_le_gap {z : Zone} (hs : sorted z = true) (hp : spansOrdered z = true) {m n T a b v : Int}
    (hg : gapOf z n = some (T, a, b)) (hb : n < b) (hmn : m ≤ n) (hv : naive z v = m) : v < T := by
  apply Int.not_le.mp
  intro hc
  have := gap_above hs hp hg hc
  omega

/-- … and not after any instant that shows a time at/after the skipped one -/
theorem gap_le_valid {z : Zone} (hs : sorted z = true) (hp : spansOrdered z = true) {m n T a b v : Int}
    (hg : gapOf z n = some (T, a, b)) (ha : a ≤ n) (hmn : n ≤ m) (hv : naive z v = m) : T ≤ v := by
  apply Int.not_lt.mp
  intro hc
  have := gap_below hs hp hg hc
  omega

/-- monotonicity, first form: `a` exists, or is a whole second in a whole-second table -/
theorem datetime_mono_aligned {z : Zone} (hs : sorted z = true) (hp : spansOrdered z = true)
    (hal : secondsAligned z = true) (hmax : lastLocal z + nsPerMin ≤ instMax) {a b ua ub : Int}
    (hmin : instMin ≤ a) (hab : a ≤ b) (ha : a % nsPerSec = 0 ∨ latest? z a ≠ none)
    (hua : datetime z a = .ok ua) (hub : datetime z b = .ok ub) : ua ≤ ub := by
  have hminb : instMin ≤ b := by omega
  have sl := secLt
  rcases datetime_cases hs hp hmax hmin with ⟨u, hla, hda⟩ | ⟨hla, T, a', b', g1, g2, g3, g4, g5, g6⟩
  · rw [hda] at hua; cases hua
    rcases datetime_cases hs hp hmax hminb with ⟨u', hlb, hdb⟩ | ⟨hlb, T2, a2, b2, k1, k2, k3, k4, k5, k6⟩
    · rw [hdb] at hub; cases hub
      exact latest_mono hs hp hab hla hlb
    · rw [k6] at hub; cases hub
      have h0 := emod_sec_nonneg (b - b2)
      have := valid_le_gap hs hp k1 k3 hab (latest_spec hs hla).1
      omega
  · rw [g6] at hua; cases hua
    have haa : a % nsPerSec = 0 := by
      rcases ha with h | h
      · exact h
      · exact absurd hla h
    have hb' : b' % nsPerSec = 0 := by
      apply gap_end_seconds (gapOf_eq z a ▸ g1)
      unfold secondsAligned at hal
      simp only [List.all_eq_true, decide_eq_true_eq] at hal
      exact hal
    have hr : (a - b') % nsPerSec = 0 := by simp only [nsPerSec] at *; omega
    rw [hr, Int.add_zero]
    rcases datetime_cases hs hp hmax hminb with ⟨u', hlb, hdb⟩ | ⟨hlb, T2, a2, b2, k1, k2, k3, k4, k5, k6⟩
    · rw [hdb] at hub; cases hub
      exact gap_le_valid hs hp g1 g2 hab (latest_spec hs hlb).1
    · rw [k6] at hub; cases hub
      have h0 := emod_sec_nonneg (b - b2)
      have h1 := emod_sec_lt (b - b2)
      have k50 := k5 _ h0 (by omega)
      exact gap_le_valid hs hp g1 g2 (m := b2 + (b - b2) % nsPerSec) (by omega) (earliest_spec hs k50).1

/-- monotonicity, second form: `a` and `b` have the same phase within the second (any table) -/
theorem datetime_mono_congr {z : Zone} (hs : sorted z = true) (hp : spansOrdered z = true)
    (hmax : lastLocal z + nsPerMin ≤ instMax) {a b ua ub : Int} (hmin : instMin ≤ a)
    (hab : a ≤ b) (hc : (b - a) % nsPerSec = 0)
    (hua : datetime z a = .ok ua) (hub : datetime z b = .ok ub) : ua ≤ ub := by
  have hminb : instMin ≤ b := by omega
  have sl := secLt
  rcases datetime_cases hs hp hmax hmin with ⟨u, hla, hda⟩ | ⟨hla, T, a', b', g1, g2, g3, g4, g5, g6⟩
  · rw [hda] at hua; cases hua
    rcases datetime_cases hs hp hmax hminb with ⟨u', hlb, hdb⟩ | ⟨hlb, T2, a2, b2, k1, k2, k3, k4, k5, k6⟩
    · rw [hdb] at hub; cases hub
      exact latest_mono hs hp hab hla hlb
    · rw [k6] at hub; cases hub
      have h0 := emod_sec_nonneg (b - b2)
      have := valid_le_gap hs hp k1 k3 hab (latest_spec hs hla).1
      omega
  · rw [g6] at hua; cases hua
    have h1 := emod_sec_nonneg (a - b')
    have h2 := emod_sec_lt (a - b')
    have g5a := g5 _ h1 (by omega)
    by_cases hbb : b < b'
    · -- `b` is skipped by the same jump: same landing time, same phase, same result
      have hlb : latest? z b = none := g4 b hab hbb
      obtain ⟨T2, a2, b2, k1, k2, k3, k4, k5, _, k6⟩ := datetime_gap_core hs hp hlb hmax hminb
      rw [k6] at hub; cases hub
      have h3 := emod_sec_nonneg (b - b2)
      have h4 := emod_sec_lt (b - b2)
      have e1 : b2 ≤ b' := by
        apply Int.not_lt.mp
        intro hc'
        have hv := g5 0 (by omega) (by simp [nsPerMin])
        rw [(earliest?_eq_none_iff z _).mpr (k4 (b' + 0) (by omega) (by omega))] at hv; cases hv
      have e2 : b' ≤ b2 := by
        apply Int.not_lt.mp
        intro hc'
        have hv := k5 0 (by omega) (by simp [nsPerMin])
        rw [(earliest?_eq_none_iff z _).mpr (g4 (b2 + 0) (by omega) (by omega))] at hv; cases hv
      have e3 : b2 = b' := by omega
      subst e3
      have e4 : (b - b2) % nsPerSec = (a - b2) % nsPerSec := by
        simp only [nsPerSec] at *; omega
      have k5b := k5 _ h3 (by omega)
      rw [e4] at k5b ⊢
      rw [g5a] at k5b
      have := Option.some.inj k5b
      omega
    · -- `b` is at/after the landing time, hence at/after the second of `a`'s phase that lands
      have hstep : b' + (a - b') % nsPerSec ≤ b := by simp only [nsPerSec] at *; omega
      rcases datetime_cases hs hp hmax hminb with ⟨u', hlb, hdb⟩ | ⟨hlb, T2, a2, b2, k1, k2, k3, k4, k5, k6⟩
      · rw [hdb] at hub; cases hub
        exact earliest_le_latest hs hp hstep g5a hlb
      · rw [k6] at hub; cases hub
        have h0 := emod_sec_nonneg (b - b2)
        have h3 := emod_sec_lt (b - b2)
        have k5b := k5 _ h0 (by omega)
        -- the instant returned for `b` is at/after `T` and shows a time after `b' + phase`: it cannot
        -- lie in the first second after `T`, where the clock shows `b' + x`
        have hT : T ≤ T2 + (b - b2) % nsPerSec :=
          gap_le_valid hs hp g1 g2 (m := b2 + (b - b2) % nsPerSec) (by omega) (earliest_spec hs k5b).1
        apply Int.not_lt.mp
        intro hcon
        have hx0 : 0 ≤ T2 + (b - b2) % nsPerSec - T := by omega
        have hx1 : T2 + (b - b2) % nsPerSec - T < nsPerMin := by omega
        have hv := (earliest_spec hs (g5 _ hx0 hx1)).1
        have e : T + (T2 + (b - b2) % nsPerSec - T) = T2 + (b - b2) % nsPerSec := by omega
        rw [e, (earliest_spec hs k5b).1] at hv
        omega

/-! ### the iterator's bounds and the localized API -/

theorem mkInstant_aligned (d : Int) (m : Nat) : mkInstant d m % nsPerMin = 0 := by
  simp only [mkInstant, nsPerDay, nsPerMin]; omega

theorem instEnd_aligned : instEnd % nsPerMin = 0 := mkInstant_aligned _ _

theorem min_aligned (a b : Int) (hb : b % nsPerMin = 0) : min a b % nsPerMin = 0 ∨ min a b = a := by
  simp only [nsPerMin] at *; omega

theorem itNext_class {env : Env} {stop : Int} {st st' : ItState} {iv : Interval}
    (h : itNext env stop st = .ok (some (iv, st'))) :
    iv.start % nsPerMin = 0 ∧ (iv.stop % nsPerMin = 0 ∨ iv.stop = stop) := by
  unfold itNext at h
  cases hs : st.sched with
  | nil => rw [hs] at h; cases h
  | cons tr rest =>
    rw [hs] at h
    simp only at h
    cases hc : clockMinute tr.s with
    | error p => rw [hc] at h; cases h
    | ok sm =>
      rw [hc] at h
      simp only at h
      cases hcons : consume env (instDay stop) st.date tr.kind st with
      | error p => rw [hcons] at h; cases h
      | ok st2 =>
        rw [hcons] at h
        simp only at h
        split at h
        · cases h
        · rename_i em hem
          have hA := mkInstant_aligned st.date sm
          have hB := min_aligned stop _ (mkInstant_aligned st2.date em)
          cases hb : env.bound with
          | none =>
            rw [hb] at h
            simp only [Except.ok.injEq, Option.some.injEq, Prod.mk.injEq] at h
            obtain ⟨h, _⟩ := h
            subst h
            exact ⟨hA, hB⟩
          | some b =>
            rw [hb] at h
            simp only at h
            split at h
            · simp only [Except.ok.injEq, Option.some.injEq, Prod.mk.injEq] at h
              obtain ⟨h, _⟩ := h
              subst h
              exact ⟨hA, Or.inl instEnd_aligned⟩
            · simp only [Except.ok.injEq, Option.some.injEq, Prod.mk.injEq] at h
              obtain ⟨h, _⟩ := h
              subst h
              exact ⟨hA, hB⟩

def BoundClass (frm to : Int) (x : Interval) : Prop :=
  (x.start % nsPerMin = 0 ∨ x.start = frm) ∧ (x.stop % nsPerMin = 0 ∨ x.stop = to) ∧ frm ≤ x.start

theorem clip_class {frm to : Int} {iv : Interval}
    (h : iv.start % nsPerMin = 0 ∧ (iv.stop % nsPerMin = 0 ∨ iv.stop = to)) :
    BoundClass frm to ⟨max iv.start frm, min iv.stop to, iv.kind, iv.comments⟩ := by
  unfold BoundClass
  simp only [nsPerMin] at *
  omega

theorem collect_class {env : Env} {frm to : Int} {st : ItState} {acc l : List Interval}
    (hacc : ∀ x ∈ acc, BoundClass frm to x) (h : collect env frm to st acc = .ok l) :
    ∀ x ∈ l, BoundClass frm to x := by
  fun_induction collect env frm to st acc generalizing l with
  | case1 st acc p hn => cases h
  | case2 st acc hn =>
    cases h
    intro x hx
    exact hacc x (List.mem_reverse.mp hx)
  | case3 st acc iv st' hn hge =>
    cases h
    intro x hx
    exact hacc x (List.mem_reverse.mp hx)
  | case4 st acc iv st' hn hge hm ih =>
    apply ih _ h
    intro x hx
    rcases List.mem_cons.mp hx with hx | hx
    · subst hx
      exact clip_class (itNext_class hn)
    · exact hacc x hx
  | case5 st acc iv st' hn hge hm => cases h

theorem clamp_idem (x : Int) : min instEnd (min instEnd x) = min instEnd x := by omega

theorem iterRangeG_class {env : Env} {frm to : Int} {l : List Interval}
    (h : iterRangeG env frm to = .ok l) :
    ∀ x ∈ l, BoundClass (min instEnd frm) (min instEnd to) x := by
  unfold iterRangeG at h
  simp only at h
  split at h
  · cases h
  · exact collect_class (by intro x hx; cases hx) h

theorem iterRangeG_clamp (env : Env) (frm to : Int) :
    iterRangeG env (min instEnd frm) (min instEnd to) = iterRangeG env frm to := by
  unfold iterRangeG
  simp only [clamp_idem]

theorem firstIntervalG_clamp (env : Env) (frm to : Int) :
    firstIntervalG env (min instEnd frm) (min instEnd to) = firstIntervalG env frm to := by
  unfold firstIntervalG
  simp only [clamp_idem]

/-- an empty window (`from ≥ to` after clamping) yields no interval -/
theorem firstIntervalG_empty {env : Env} {frm to : Int} (hge : min instEnd frm ≥ min instEnd to)
    {r : Option Interval} (h : firstIntervalG env frm to = .ok r) : r = none := by
  unfold firstIntervalG at h
  simp only at h
  unfold itNew at h
  simp only at h
  split at h
  · cases h
  · rename_i st hst
    split at hst
    · cases hst
    · simp only [hge, if_true, List.dropWhile_nil, Except.ok.injEq] at hst
      subst hst
      simp only [itNext] at h
      cases h
      rfl

/-- the first interval, when there is one: bounds are clipped to the (clamped) window -/
theorem firstIntervalG_bounds {env : Env} {frm to : Int} {iv : Interval}
    (h : firstIntervalG env frm to = .ok (some iv)) :
    BoundClass (min instEnd frm) (min instEnd to) iv ∧ min instEnd frm ≤ iv.start ∧
      iv.start < min instEnd to ∧ iv.stop ≤ min instEnd to := by
  have hwin : min instEnd frm < min instEnd to := by
    apply Int.not_le.mp
    intro hc
    cases firstIntervalG_empty hc h
  unfold firstIntervalG at h
  simp only at h
  split at h
  · cases h
  · split at h
    · cases h
    · cases h
    · rename_i iv0 st' hn
      split at h
      · cases h
      · rename_i hlt
        simp only [Except.ok.injEq, Option.some.injEq] at h
        subst h
        refine ⟨clip_class (itNext_class hn), ?_, ?_, ?_⟩ <;> simp only <;> omega


theorem instEnd_le_instMax : instEnd ≤ instMax := by decide
theorem instMin_le_instEnd : instMin ≤ instEnd := by decide

theorem naiveChecked_ok {z : Zone} {u : Int} (h1 : instMin ≤ naive z u) (h2 : naive z u ≤ instMax) :
    naiveChecked z u = .ok (naive z u) := by
  unfold naiveChecked
  simp only
  rw [if_neg (by omega)]

theorem naiveChecked_eq {z : Zone} {u n : Int} (h : naiveChecked z u = .ok n) : n = naive z u := by
  unfold naiveChecked at h
  simp only at h
  split at h
  · cases h
  · cases h; rfl

/-- no transition in `(u, u + d]`: same offset at both ends -/
theorem offsetFrom_add {o : Int} {l : List (Int × Int)} {u d : Int} (hd : 0 ≤ d)
    (h : ∀ p ∈ l, ¬ (u < p.1 ∧ p.1 ≤ u + d)) : offsetFrom o l (u + d) = offsetFrom o l u := by
  induction l generalizing o with
  | nil => rfl
  | cons hd' rest ih =>
    obtain ⟨t', o'⟩ := hd'
    simp only [offsetFrom]
    have h0 := h (t', o') List.mem_cons_self
    simp only at h0
    by_cases hu : u < t'
    · rw [if_pos hu, if_pos (by omega)]
    · rw [if_neg hu, if_neg (by omega)]
      exact ih (fun p hp => h p (List.mem_cons_of_mem _ hp))

theorem naive_add {z : Zone} {u d : Int} (hd : 0 ≤ d)
    (h : ∀ p ∈ z.trans, ¬ (u < p.1 ∧ p.1 ≤ u + d)) : naive z (u + d) = naive z u + d := by
  unfold naive offsetAt
  rw [offsetFrom_add hd h]
  omega

theorem mapInterval_ok {z : Zone} (hmax : lastLocal z + nsPerMin ≤ instMax) {iv : Interval}
    (l1 : instMin ≤ iv.start) (l2 : instMin ≤ iv.stop)
    (h1 : iv.start ≤ instMax) (h2 : iv.stop ≤ instMax) :
    ∃ s t, datetime z iv.start = .ok s ∧ datetime z iv.stop = .ok t ∧
      mapInterval z iv = .ok ⟨s, t, iv.kind, iv.comments⟩ := by
  obtain ⟨s, hs⟩ := datetime_no_panic hmax iv.start l1 h1
  obtain ⟨t, ht⟩ := datetime_no_panic hmax iv.stop l2 h2
  refine ⟨s, t, hs, ht, ?_⟩
  unfold mapInterval
  rw [hs, ht]

theorem mapInterval_spec {z : Zone} {iv x : Interval} (h : mapInterval z iv = .ok x) :
    datetime z iv.start = .ok x.start ∧ datetime z iv.stop = .ok x.stop ∧
      x.kind = iv.kind ∧ x.comments = iv.comments := by
  unfold mapInterval at h
  split at h
  · cases h
  · split at h
    · cases h
    · cases h
      rename_i h1 _ _ h2
      exact ⟨h1, h2, rfl, rfl⟩

/-- `stateTz` is the NoLocation `state` at the wall-clock time (repaired `state`, /repo b0d5731) -/
theorem stateTzG_eq {env : Env} {z : Zone} {t : Int} (hlo : instMin ≤ naive z t) (hhi : naive z t ≤ instMax) :
    stateTzG env z t = stateG env (naive z t) := by
  unfold stateTzG
  rw [naiveChecked_ok hlo hhi]

/-! ### `iter_range`: filter → merge → map (/repo dfe1ade)

List level: `filterRanges`, `mergeRanges` (`mergeFrom`), `mapIntervals`.  Lazy level (first item only,
for `next_change`): `naiveNext`, `nextKept`, `absorb`, tied to the list level by
`firstMergedG_eq_head`. -/

theorem keepRange_true {z : Zone} {iv : Interval} (h : keepRange z iv = .ok true) :
    ∃ u, datetime z iv.start = .ok u ∧ naive z u < iv.stop := by
  unfold keepRange at h
  split at h
  · cases h
  · rename_i u hu
    split at h
    · cases h
    · rename_i n hn
      simp only [Except.ok.injEq, decide_eq_true_eq] at h
      exact ⟨u, hu, by rw [← naiveChecked_eq hn]; exact h⟩

theorem keepRange_ok {z : Zone} {iv : Interval} {u : Int} (hu : datetime z iv.start = .ok u)
    (h1 : instMin ≤ naive z u) (h2 : naive z u ≤ instMax) :
    keepRange z iv = .ok (decide (naive z u < iv.stop)) := by
  unfold keepRange
  rw [hu]
  simp only
  rw [naiveChecked_ok h1 h2]

/-- the filtered list is a sublist whose members passed the filter -/
theorem filterRanges_spec {z : Zone} : ∀ {l fl : List Interval}, filterRanges z l = .ok fl →
    fl.Sublist l ∧ ∀ iv ∈ fl, keepRange z iv = .ok true := by
  intro l
  induction l with
  | nil => intro fl h; cases h; exact ⟨List.Sublist.refl _, fun _ h => nomatch h⟩
  | cons a rest ih =>
    intro fl h
    simp only [filterRanges] at h
    split at h
    · cases h
    · rename_i k hk
      split at h
      · cases h
      · rename_i xs hxs
        cases h
        obtain ⟨i1, i2⟩ := ih hxs
        cases k with
        | true =>
          simp only [if_true]
          refine ⟨i1.cons_cons a, ?_⟩
          intro iv hiv
          rcases List.mem_cons.mp hiv with e | e
          · subst e; exact hk
          · exact i2 iv e
        | false =>
          simp only [Bool.false_eq_true, if_false]
          exact ⟨i1.cons a, i2⟩

theorem mergeable_iff {c n : Interval} : mergeable c n = true ↔ n.kind = c.kind ∧ c.stop ≤ n.start := by
  simp [mergeable]

/-- the head of the merged list is the range in hand, grown to the right -/
theorem mergeFrom_head (curr : Interval) (fl : List Interval) :
    ∃ c tail, mergeFrom curr fl = c :: tail ∧ c.start = curr.start ∧ c.kind = curr.kind ∧
      c.comments = curr.comments := by
  induction fl generalizing curr with
  | nil => exact ⟨curr, [], rfl, rfl, rfl, rfl⟩
  | cons next rest ih =>
    simp only [mergeFrom]
    split
    · obtain ⟨c, tail, h1, h2, h3, h4⟩ := ih ⟨curr.start, next.stop, curr.kind, curr.comments⟩
      exact ⟨c, tail, h1, h2, h3, h4⟩
    · exact ⟨curr, _, rfl, rfl, rfl, rfl⟩

/-- `c` is a group of `L`: it starts with `a`, ends with `b`, both of its kind; comments of `a`;
when the ranges of `L` are not inverted it ends at/after the end of `a` -/
def FromGroup (L : List Interval) (c : Interval) : Prop :=
  ∃ a ∈ L, ∃ b ∈ L, c.start = a.start ∧ c.stop = b.stop ∧ c.kind = a.kind ∧ b.kind = a.kind ∧
    c.comments = a.comments ∧ ((∀ x ∈ L, x.start ≤ x.stop) → a.stop ≤ c.stop)

theorem mergeFrom_mem (L : List Interval) : ∀ (fl : List Interval) (curr : Interval),
    FromGroup L curr → (∀ x ∈ fl, x ∈ L) → (∀ x ∈ fl, curr.stop ≤ x.start ∨ ¬ (∀ x ∈ L, x.start ≤ x.stop) ∨ True) →
    ∀ c ∈ mergeFrom curr fl, FromGroup L c := by
  intro fl
  induction fl with
  | nil =>
    intro curr hq _ _ c hc
    simp only [mergeFrom, List.mem_singleton] at hc
    subst hc; exact hq
  | cons next rest ih =>
    intro curr hq hsub _ c hc
    simp only [mergeFrom] at hc
    have hnext : next ∈ L := hsub next List.mem_cons_self
    have hrest : ∀ x ∈ rest, x ∈ L := fun x hx => hsub x (List.mem_cons_of_mem _ hx)
    split at hc
    · rename_i hm
      obtain ⟨hk, hle⟩ := mergeable_iff.mp hm
      apply ih ⟨curr.start, next.stop, curr.kind, curr.comments⟩ ?_ hrest (fun _ _ => Or.inr (Or.inr trivial)) c hc
      obtain ⟨a, ha, b, hb, q1, q2, q3, q4, q5, q6⟩ := hq
      refine ⟨a, ha, next, hnext, q1, rfl, q3, by rw [hk, q3], q5, ?_⟩
      intro hne
      have := q6 hne
      have := hne next hnext
      simp only
      omega
    · rcases List.mem_cons.mp hc with e | e
      · subst e; exact hq
      · apply ih next ?_ hrest (fun _ _ => Or.inr (Or.inr trivial)) c e
        exact ⟨next, hnext, next, hnext, rfl, rfl, rfl, rfl, rfl, fun _ => Int.le_refl _⟩

/-- every merged range is a group of the filtered list -/
theorem mergeRanges_mem {fl : List Interval} : ∀ c ∈ mergeRanges fl, FromGroup fl c := by
  cases fl with
  | nil => intro c hc; cases hc
  | cons curr rest =>
    intro c hc
    simp only [mergeRanges] at hc
    apply mergeFrom_mem (curr :: rest) rest curr ?_ (fun x hx => List.mem_cons_of_mem _ hx)
      (fun _ _ => Or.inr (Or.inr trivial)) c hc
    exact ⟨curr, List.mem_cons_self, curr, List.mem_cons_self, rfl, rfl, rfl, rfl, rfl, fun _ => Int.le_refl _⟩

theorem mergeFrom_start_ge {m : Int} : ∀ (fl : List Interval) (curr : Interval), m ≤ curr.start →
    (∀ x ∈ fl, m ≤ x.start) → ∀ y ∈ mergeFrom curr fl, m ≤ y.start := by
  intro fl
  induction fl with
  | nil =>
    intro curr h1 _ y hy
    simp only [mergeFrom, List.mem_singleton] at hy
    subst hy; exact h1
  | cons next rest ih =>
    intro curr h1 h2 y hy
    simp only [mergeFrom] at hy
    have hr : ∀ x ∈ rest, m ≤ x.start := fun x hx => h2 x (List.mem_cons_of_mem _ hx)
    split at hy
    · exact ih ⟨curr.start, next.stop, curr.kind, curr.comments⟩ h1 hr y hy
    · rcases List.mem_cons.mp hy with e | e
      · subst e; exact h1
      · exact ih next (h2 next List.mem_cons_self) hr y e

def Ordered (l : List Interval) : Prop :=
  (∀ iv ∈ l, iv.start ≤ iv.stop) ∧ l.Pairwise (fun a b => a.stop ≤ b.start)

theorem Ordered.tail {a : Interval} {l : List Interval} (h : Ordered (a :: l)) : Ordered l :=
  ⟨fun iv hiv => h.1 iv (List.mem_cons_of_mem _ hiv), (List.pairwise_cons.mp h.2).2⟩

theorem Ordered.sublist {l l' : List Interval} (hs : l'.Sublist l) (h : Ordered l) : Ordered l' :=
  ⟨fun iv hiv => h.1 iv (hs.subset hiv), h.2.sublist hs⟩

/-- merging keeps an ordered list ordered -/
theorem mergeFrom_ordered : ∀ (fl : List Interval) (curr : Interval), curr.start ≤ curr.stop →
    (∀ x ∈ fl, curr.stop ≤ x.start) → Ordered fl → Ordered (mergeFrom curr fl) := by
  intro fl
  induction fl with
  | nil =>
    intro curr h1 _ _
    simp only [mergeFrom]
    refine ⟨?_, List.pairwise_singleton _ _⟩
    intro iv hiv
    simp only [List.mem_singleton] at hiv
    subst hiv; exact h1
  | cons next rest ih =>
    intro curr h1 h2 h3
    simp only [mergeFrom]
    have hn1 := h3.1 next List.mem_cons_self
    have hn2 : ∀ x ∈ rest, next.stop ≤ x.start := (List.pairwise_cons.mp h3.2).1
    have hc := h2 next List.mem_cons_self
    split
    · apply ih ⟨curr.start, next.stop, curr.kind, curr.comments⟩ (by simp only; omega) hn2 h3.tail
    · have ihn := ih next hn1 hn2 h3.tail
      refine ⟨?_, ?_⟩
      · intro iv hiv
        rcases List.mem_cons.mp hiv with e | e
        · subst e; exact h1
        · exact ihn.1 iv e
      · rw [List.pairwise_cons]
        refine ⟨?_, ihn.2⟩
        intro y hy
        exact mergeFrom_start_ge rest next hc (fun x hx => h2 x (List.mem_cons_of_mem _ hx)) y hy

theorem mergeRanges_ordered {fl : List Interval} (h : Ordered fl) : Ordered (mergeRanges fl) := by
  cases fl with
  | nil => exact h
  | cons curr rest =>
    simp only [mergeRanges]
    exact mergeFrom_ordered rest curr (h.1 curr List.mem_cons_self) (List.pairwise_cons.mp h.2).1 h.tail

/-- adjacent elements have different kinds -/
def AdjDiffer : List Interval → Prop
  | [] => True
  | [_] => True
  | a :: b :: rest => a.kind ≠ b.kind ∧ AdjDiffer (b :: rest)

/-- **full coalescing restores alternation**: whatever the kinds of an ordered (filtered) list, the
merged list alternates -/
theorem mergeFrom_adjDiffer : ∀ (fl : List Interval) (curr : Interval),
    (∀ x ∈ fl, curr.stop ≤ x.start) → fl.Pairwise (fun a b => a.stop ≤ b.start) →
    AdjDiffer (mergeFrom curr fl) := by
  intro fl
  induction fl with
  | nil => intro curr _ _; simp only [mergeFrom, AdjDiffer]
  | cons next rest ih =>
    intro curr h1 h2
    simp only [mergeFrom]
    have hn2 : ∀ x ∈ rest, next.stop ≤ x.start := (List.pairwise_cons.mp h2).1
    have hp := (List.pairwise_cons.mp h2).2
    split
    · exact ih ⟨curr.start, next.stop, curr.kind, curr.comments⟩ hn2 hp
    · rename_i hm
      have ihn := ih next hn2 hp
      obtain ⟨c, tail, e, _, ek, _⟩ := mergeFrom_head next rest
      rw [e] at ihn ⊢
      refine ⟨?_, ihn⟩
      intro hk
      apply hm
      exact mergeable_iff.mpr ⟨by rw [← ek, ← hk], h1 next List.mem_cons_self⟩

theorem mergeRanges_adjDiffer {fl : List Interval} (h : fl.Pairwise (fun a b => a.stop ≤ b.start)) :
    AdjDiffer (mergeRanges fl) := by
  cases fl with
  | nil => trivial
  | cons curr rest =>
    simp only [mergeRanges]
    exact mergeFrom_adjDiffer rest curr (List.pairwise_cons.mp h).1 (List.pairwise_cons.mp h).2

theorem AdjDiffer.get {l : List Interval} (h : AdjDiffer l) :
    ∀ i (hi : i + 1 < l.length), l[i].kind ≠ l[i + 1].kind := by
  induction l with
  | nil => intro i hi; simp at hi
  | cons a rest ih =>
    cases rest with
    | nil => intro i hi; simp at hi
    | cons b rest' =>
      intro i hi
      cases i with
      | zero => exact h.1
      | succ j =>
        simp only [List.getElem_cons_succ]
        exact ih h.2 j (by simp only [List.length_cons] at hi ⊢; omega)

/-- nothing to merge: no two neighbours are `mergeable` (the NoLocation stream, whose neighbours have
different kinds, and the bounded streams of C16, where an interval "ending at DATE_END" overlaps its
successor) -/
theorem mergeFrom_eq_self : ∀ (fl : List Interval) (curr : Interval),
    (∀ nx ∈ fl.head?, mergeable curr nx = false) → (curr :: fl).Pairwise (fun _ _ => True) →
    (∀ i (hi : i + 1 < fl.length), mergeable fl[i] fl[i + 1] = false) → mergeFrom curr fl = curr :: fl := by
  intro fl
  induction fl with
  | nil => intro curr _ _ _; rfl
  | cons next rest ih =>
    intro curr h1 _ h3
    simp only [mergeFrom]
    rw [if_neg (by rw [h1 next (by simp)]; simp)]
    congr 1
    apply ih next
    · intro nx hnx
      cases rest with
      | nil => simp at hnx
      | cons r rest' =>
        simp only [List.head?_cons, Option.mem_def, Option.some.injEq] at hnx
        subst hnx
        exact h3 0 (by simp)
    · exact List.pairwise_of_forall (fun _ _ => trivial)
    · intro i hi
      have := h3 (i + 1) (by simp only [List.length_cons] at hi ⊢; omega)
      simpa using this

theorem mergeRanges_eq_self {l : List Interval}
    (h : ∀ i (hi : i + 1 < l.length), mergeable l[i] l[i + 1] = false) : mergeRanges l = l := by
  cases l with
  | nil => rfl
  | cons curr rest =>
    simp only [mergeRanges]
    apply mergeFrom_eq_self rest curr
    · intro nx hnx
      cases rest with
      | nil => simp at hnx
      | cons r rest' =>
        simp only [List.head?_cons, Option.mem_def, Option.some.injEq] at hnx
        subst hnx
        exact h 0 (by simp)
    · exact List.pairwise_of_forall (fun _ _ => trivial)
    · intro i hi
      have := h (i + 1) (by simp only [List.length_cons] at hi ⊢; omega)
      simpa using this

theorem mapIntervals_adjDiffer {z : Zone} : ∀ {l out : List Interval}, mapIntervals z l = .ok out →
    AdjDiffer l → AdjDiffer out ∧ out.length = l.length ∧ ∀ x ∈ l.head?, ∀ y ∈ out.head?, y.kind = x.kind := by
  intro l
  induction l with
  | nil => intro out h _; cases h; exact ⟨trivial, rfl, fun _ hx => nomatch hx⟩
  | cons a rest ih =>
    intro out h hd
    simp only [mapIntervals] at h
    split at h
    · cases h
    · rename_i x hx
      split at h
      · cases h
      · rename_i xs hxs
        cases h
        obtain ⟨_, _, xk, _⟩ := mapInterval_spec hx
        cases rest with
        | nil =>
          cases hxs
          refine ⟨trivial, rfl, ?_⟩
          intro x' hx' y hy
          simp only [List.head?_cons, Option.mem_def, Option.some.injEq] at hx' hy
          subst hx'; subst hy; exact xk
        | cons b rest' =>
          obtain ⟨i1, i2, i3⟩ := ih hxs hd.2
          cases xs with
          | nil => simp at i2
          | cons y ys =>
            have hyk : y.kind = b.kind := i3 b (by simp) y (by simp)
            refine ⟨⟨by rw [xk, hyk]; exact hd.1, i1⟩, by simp only [List.length_cons] at i2 ⊢; omega, ?_⟩
            intro x' hx' y' hy'
            simp only [List.head?_cons, Option.mem_def, Option.some.injEq] at hx' hy'
            subst hx'; subst hy'; exact xk

/-! #### the lazy pipeline is the head of the collected one -/

/-- `collect` unfolds along `naiveNext` -/
theorem collect_step (env : Env) (frm to : Int) (st : ItState) (acc : List Interval) :
    collect env frm to st acc =
      match naiveNext env frm to st with
      | .error p => .error p
      | .ok none => .ok acc.reverse
      | .ok (some (x, st')) => collect env frm to st' (x :: acc) := by
  rw [collect]
  unfold naiveNext
  cases itNext env to st with
  | error p => rfl
  | ok r =>
    cases r with
    | none => rfl
    | some pr =>
      obtain ⟨iv, st'⟩ := pr
      simp only
      by_cases hge : iv.start ≥ to
      · simp only [if_pos hge]
      · simp only [if_neg hge]
        by_cases hm : itMeasure (instDay to) st' < itMeasure (instDay to) st
        · simp only [dif_pos hm, if_pos hm]
        · simp only [dif_neg hm, if_neg hm]

/-- the accumulator of `collect` is only a prefix -/
theorem collect_acc (env : Env) (frm to : Int) (st : ItState) (acc0 : List Interval) : ∀ acc,
    collect env frm to st acc =
      match collect env frm to st [] with
      | .error p => .error p
      | .ok l => .ok (acc.reverse ++ l) := by
  induction st, acc0 using collect.induct (env := env) (frm := frm) (to := to) with
  | case1 st acc0 p hn =>
    intro acc
    have hnn : naiveNext env frm to st = .error p := by unfold naiveNext; rw [hn]
    rw [collect_step env frm to st acc, collect_step env frm to st [], hnn]
  | case2 st acc0 hn =>
    intro acc
    have hnn : naiveNext env frm to st = .ok none := by unfold naiveNext; rw [hn]
    rw [collect_step env frm to st acc, collect_step env frm to st [], hnn]
    simp
  | case3 st acc0 iv st' hn hge =>
    intro acc
    have hnn : naiveNext env frm to st = .ok none := by unfold naiveNext; rw [hn]; simp only [if_pos hge]
    rw [collect_step env frm to st acc, collect_step env frm to st [], hnn]
    simp
  | case4 st acc0 iv st' hn hge hm ih =>
    intro acc
    have hnn : naiveNext env frm to st =
        .ok (some (⟨max iv.start frm, min iv.stop to, iv.kind, iv.comments⟩, st')) := by
      unfold naiveNext; rw [hn]; simp only [if_neg hge, if_pos hm]
    rw [collect_step env frm to st acc, collect_step env frm to st [], hnn]
    simp only
    rw [ih (_ :: acc), ih [_]]
    cases collect env frm to st' [] with
    | error p => rfl
    | ok l => simp
  | case5 st acc0 iv st' hn hge hm =>
    intro acc
    have hnn : naiveNext env frm to st = .error "model: iterator made no progress (unbounded iteration)" := by
      unfold naiveNext; rw [hn]; simp only [if_neg hge, if_neg hm]
    rw [collect_step env frm to st acc, collect_step env frm to st [], hnn]

/-- a successful `collect` from `st` is the item `naiveNext` yields followed by the `collect` from the
next state -/
theorem collect_cons {env : Env} {frm to : Int} {st : ItState} {l : List Interval}
    (h : collect env frm to st [] = .ok l) :
    (naiveNext env frm to st = .ok none ∧ l = []) ∨
    (∃ x st' l', naiveNext env frm to st = .ok (some (x, st')) ∧ collect env frm to st' [] = .ok l' ∧
      l = x :: l') := by
  rw [collect_step] at h
  split at h
  · cases h
  · cases h; exact Or.inl ⟨by assumption, rfl⟩
  · rename_i x st' hn
    right
    rw [collect_acc env frm to st' [] [x]] at h
    cases hc : collect env frm to st' [] with
    | error p => rw [hc] at h; cases h
    | ok l' =>
      rw [hc] at h
      simp only [List.reverse_cons, List.reverse_nil, List.nil_append, List.singleton_append,
        Except.ok.injEq] at h
      exact ⟨x, st', l', hn, hc, h.symm⟩

/-- `nextKept` finds the first range of the collected stream that passes the filter -/
theorem nextKept_spec {env : Env} {z : Zone} {frm to : Int} (st : ItState) :
    ∀ {l fl : List Interval}, collect env frm to st [] = .ok l → filterRanges z l = .ok fl →
    match fl with
    | [] => nextKept env z frm to st = .ok none
    | a :: fl' => ∃ st' l', nextKept env z frm to st = .ok (some (a, st')) ∧
        collect env frm to st' [] = .ok l' ∧ filterRanges z l' = .ok fl' := by
  fun_induction nextKept env z frm to st with
  | case1 st p hn =>
    intro l fl hl _
    rcases collect_cons hl with ⟨h, _⟩ | ⟨_, _, _, h, _⟩ <;> (rw [hn] at h; cases h)
  | case2 st hn =>
    intro l fl hl hfl
    rcases collect_cons hl with ⟨_, e⟩ | ⟨_, _, _, h, _⟩
    · subst e; cases hfl; rfl
    · rw [hn] at h; cases h
  | case3 st iv st' hn p hk =>
    intro l fl hl hfl
    rcases collect_cons hl with ⟨h, _⟩ | ⟨x, st2, l', h, _, e⟩
    · rw [hn] at h; cases h
    · rw [hn] at h; cases h
      subst e
      simp only [filterRanges, hk] at hfl
      cases hfl
  | case4 st iv st' hn hk =>
    intro l fl hl hfl
    rcases collect_cons hl with ⟨h, _⟩ | ⟨x, st2, l', h, hl', e⟩
    · rw [hn] at h; cases h
    · rw [hn] at h; cases h
      subst e
      simp only [filterRanges, hk] at hfl
      split at hfl
      · cases hfl
      · rename_i xs hxs
        cases hfl
        exact ⟨st', l', rfl, hl', hxs⟩
  | case5 st iv st' hn hk ih =>
    intro l fl hl hfl
    rcases collect_cons hl with ⟨h, _⟩ | ⟨x, st2, l', h, hl', e⟩
    · rw [hn] at h; cases h
    · rw [hn] at h; cases h
      subst e
      simp only [filterRanges, hk] at hfl
      split at hfl
      · cases hfl
      · rename_i xs hxs
        cases hfl
        exact ih hl' hxs

/-- `absorb` returns the head of the merged list -/
theorem absorb_spec {env : Env} {z : Zone} {frm to : Int} (curr : Interval) (st : ItState) :
    ∀ {l fl : List Interval}, collect env frm to st [] = .ok l → filterRanges z l = .ok fl →
    absorb env z frm to curr st = .ok ((mergeFrom curr fl).head?.getD curr) := by
  fun_induction absorb env z frm to curr st with
  | case1 curr st p hn =>
    intro l fl hl hfl
    have := nextKept_spec st hl hfl
    cases fl with
    | nil => simp only at this; rw [hn] at this; cases this
    | cons a fl' => obtain ⟨_, _, h, _⟩ := this; rw [hn] at h; cases h
  | case2 curr st hn =>
    intro l fl hl hfl
    have := nextKept_spec st hl hfl
    cases fl with
    | nil => rfl
    | cons a fl' => obtain ⟨_, _, h, _⟩ := this; rw [hn] at h; cases h
  | case3 curr st next st' hn hm ih =>
    intro l fl hl hfl
    have := nextKept_spec st hl hfl
    cases fl with
    | nil => simp only at this; rw [hn] at this; cases this
    | cons a fl' =>
      obtain ⟨st2, l', h, hl', hfl'⟩ := this
      rw [hn] at h; cases h
      rw [ih hl' hfl']
      simp only [mergeFrom, if_pos hm]
      obtain ⟨c, tail, e, _⟩ := mergeFrom_head ⟨curr.start, next.stop, curr.kind, curr.comments⟩ fl'
      rw [e]
      rfl
  | case4 curr st next st' hn hm =>
    intro l fl hl hfl
    have := nextKept_spec st hl hfl
    cases fl with
    | nil => simp only at this; rw [hn] at this; cases this
    | cons a fl' =>
      obtain ⟨st2, l', h, hl', hfl'⟩ := this
      rw [hn] at h; cases h
      simp only [mergeFrom, if_neg hm]
      rfl

/-- **the first item pulled lazily is the head of the collected, filtered and merged stream** -/
theorem firstMergedG_eq_head {env : Env} {z : Zone} {nf nt : Int} {l fl : List Interval}
    (hl : iterRangeG env nf nt = .ok l) (hfl : filterRanges z l = .ok fl) :
    firstMergedG env z nf nt = .ok (mergeRanges fl).head? := by
  unfold iterRangeG at hl
  simp only at hl
  unfold firstMergedG
  split at hl
  · cases hl
  · rename_i st hst
    rw [hst]
    simp only
    have h1 := nextKept_spec (z := z) st hl hfl
    cases fl with
    | nil =>
      simp only at h1
      rw [h1]
      rfl
    | cons a fl' =>
      obtain ⟨st', l', h2, hl', hfl'⟩ := h1
      rw [h2]
      simp only
      rw [absorb_spec a st' hl' hfl']
      simp only [mergeRanges]
      obtain ⟨c, tail, e, _⟩ := mergeFrom_head a fl'
      rw [e]
      rfl

/-- an error of the first naive step is the same error of the lazy pipeline -/
theorem firstMergedG_error {env : Env} {z : Zone} {nf nt : Int} {p : String}
    (h : firstIntervalG env nf nt = .error p) : firstMergedG env z nf nt = .error p := by
  unfold firstIntervalG at h
  simp only at h
  unfold firstMergedG
  split at h
  · rename_i q hq
    rw [hq]; simp only; exact h
  · rename_i st hst
    rw [hst]
    simp only
    split at h
    · rename_i q hq
      rw [nextKept]
      have : naiveNext env (min instEnd nf) (min instEnd nt) st = .error q := by
        unfold naiveNext; rw [hq]
      split
      · rename_i q' hq'; rw [this] at hq'; cases hq'; exact h
      · rename_i hq'; rw [this] at hq'; cases hq'
      · rename_i _ _ hq'; rw [this] at hq'; cases hq'
    · cases h
    · split at h <;> cases h

/-- what `next_change` computes before its final test, in terms of the first item of the filtered
and merged naive stream -/
theorem nextChangeTzG_unfold {env : Env} {z : Zone} {t : Int} (hs : sorted z = true)
    (hend : lastLocal z + nsPerMin ≤ instEnd) (hlo : instMin ≤ naive z t) (hhi : naive z t ≤ instMax) :
    ∃ E, datetime z instEnd = .ok E ∧ naive z E = instEnd ∧
      nextChangeTzG env z t =
        match firstMergedG env z (naive z t) instEnd with
        | .error p => .error p
        | .ok none => .ok none
        | .ok (some c) =>
          match mapInterval z c with
          | .error p => .error p
          | .ok x =>
            match naiveChecked z x.stop with
            | .error p => .error p
            | .ok ne => if ne ≥ instEnd then .ok none else .ok (some x.stop) := by
  have hp : (0:Int) < nsPerMin := by simp [nsPerMin]
  obtain ⟨E, hE⟩ := latest_some_of_ge z (n := instEnd) (by omega)
  have hnE := (latest_spec hs hE).1
  refine ⟨E, datetime_of_some hE, hnE, ?_⟩
  unfold nextChangeTzG
  rw [datetime_of_some hE]
  simp only
  unfold firstIntervalTzG
  have h1 := instEnd_le_instMax
  have h2 := instMin_le_instEnd
  rw [naiveChecked_ok hlo hhi, naiveChecked_ok (by omega) (by omega), hnE]
  have e : firstMergedG env z (min instEnd (naive z t)) (min instEnd instEnd) =
      firstMergedG env z (naive z t) instEnd := by
    unfold firstMergedG
    simp only [clamp_idem]
  simp only
  rw [e]
  cases firstMergedG env z (naive z t) instEnd with
  | error p => rfl
  | ok r =>
    cases r with
    | none => rfl
    | some iv =>
      simp only
      cases mapInterval z iv with
      | error p => rfl
      | ok x => rfl

/-- a panic of the naive evaluation's first step is the same panic -/
theorem nextChangeTzG_error {env : Env} {z : Zone} {t : Int} {p : String} (hs : sorted z = true)
    (hend : lastLocal z + nsPerMin ≤ instEnd) (hlo : instMin ≤ naive z t) (hhi : naive z t ≤ instMax)
    (h : nextChangeG env (naive z t) = .error p) : nextChangeTzG env z t = .error p := by
  obtain ⟨E, _, _, hu⟩ := nextChangeTzG_unfold (env := env) hs hend hlo hhi
  rw [hu]
  unfold nextChangeG at h
  cases hf : firstIntervalG env (naive z t) instEnd with
  | error q =>
    rw [hf] at h
    simp only at h
    cases h
    rw [firstMergedG_error hf]
  | ok r =>
    rw [hf] at h
    cases r with
    | none => cases h
    | some iv => simp only at h; split at h <;> cases h

/-- every range of the collected naive stream starts inside the clamped window -/
theorem collect_window {env : Env} {frm to : Int} {st : ItState} {acc l : List Interval}
    (hacc : ∀ x ∈ acc, frm ≤ x.start ∧ x.start < max (frm + 1) to ∧ x.stop ≤ to)
    (h : collect env frm to st acc = .ok l) :
    ∀ x ∈ l, frm ≤ x.start ∧ x.start < max (frm + 1) to ∧ x.stop ≤ to := by
  fun_induction collect env frm to st acc generalizing l with
  | case1 st acc p hn => cases h
  | case2 st acc hn =>
    cases h
    intro x hx
    exact hacc x (List.mem_reverse.mp hx)
  | case3 st acc iv st' hn hge =>
    cases h
    intro x hx
    exact hacc x (List.mem_reverse.mp hx)
  | case4 st acc iv st' hn hge hm ih =>
    apply ih _ h
    intro x hx
    rcases List.mem_cons.mp hx with hx | hx
    · subst hx
      simp only
      omega
    · exact hacc x hx
  | case5 st acc iv st' hn hge hm => cases h

theorem iterRangeG_window {env : Env} {frm to : Int} {l : List Interval}
    (h : iterRangeG env frm to = .ok l) :
    ∀ x ∈ l, min instEnd frm ≤ x.start ∧ x.start ≤ instEnd ∧ x.stop ≤ instEnd := by
  unfold iterRangeG at h
  simp only at h
  split at h
  · cases h
  · intro x hx
    have := collect_window (by intro x hx; cases hx) h x hx
    omega

/-- **`next_change` in a zone, exact form**: the end of the first range of the filtered and merged
naive stream from the wall-clock time to `DATE_END`, mapped by `datetime`; `None` when that range
reaches `DATE_END` -/
theorem nextChangeTzG_exact {env : Env} {z : Zone} {t : Int} {l fl : List Interval} (hs : sorted z = true)
    (hend : lastLocal z + nsPerMin ≤ instEnd) (hlo : instMin ≤ naive z t) (hhi : naive z t ≤ instMax)
    (hl : iterRangeG env (naive z t) instEnd = .ok l) (hfl : filterRanges z l = .ok fl) :
    nextChangeTzG env z t =
      match (mergeRanges fl).head? with
      | none => .ok none
      | some c =>
        if c.stop ≥ instEnd then .ok none
        else match datetime z c.stop with
          | .error p => .error p
          | .ok u => .ok (some u) := by
  obtain ⟨E, hE, hnE, hu⟩ := nextChangeTzG_unfold (env := env) hs hend hlo hhi
  rw [hu, firstMergedG_eq_head hl hfl]
  have h1 := instEnd_le_instMax
  have h2 := instMin_le_instEnd
  have hp : (0:Int) < nsPerMin := by simp [nsPerMin]
  cases hh : (mergeRanges fl).head? with
  | none => rfl
  | some c =>
    simp only
    have hc : c ∈ mergeRanges fl := List.mem_of_head? hh
    obtain ⟨a, ha, b, hb, q1, q2, _, _, _, _⟩ := mergeRanges_mem c hc
    obtain ⟨hsub, hkeep⟩ := filterRanges_spec hfl
    have wa := iterRangeG_window hl a (hsub.subset ha)
    have wb := iterRangeG_window hl b (hsub.subset hb)
    -- the kept range `b` is not inverted: its start is mapped to a time before its end
    obtain ⟨ub, hub, hub2⟩ := keepRange_true (hkeep b hb)
    have hbb := datetime_naive_bound hs (by omega) (by omega) (by omega) hub
    have hcs : instMin ≤ c.stop := by omega
    obtain ⟨s, u, _, hu2, hm⟩ := mapInterval_ok (z := z) (by omega) (iv := c) (by omega) hcs (by omega) (by omega)
    rw [hm]
    simp only
    rw [hu2]
    have hb2 := datetime_naive_bound hs (by omega) hcs (by omega) hu2
    rw [naiveChecked_ok (by omega) (by omega)]
    simp only
    by_cases hge : c.stop ≥ instEnd
    · rw [if_pos hge, if_pos (by omega)]
    · rw [if_neg hge, if_neg (by omega)]

/-- a gap found after `(t, o)` lies at/after the end of the span that starts at `t` -/
theorem gap_ge_end {p t o : Int} {l : List (Int × Int)} (hs : sortedFrom t l = true)
    (hp : orderedFrom p t o l = true) {n : Int} {g : Int × Int × Int} (hg : gapOfFrom o l n = some g) :
    ∃ t' o' rest, l = (t', o') :: rest ∧ t' + offNs o ≤ n := by
  induction l generalizing p t o with
  | nil => cases hg
  | cons hd rest ih =>
    obtain ⟨t', o'⟩ := hd
    refine ⟨t', o', rest, rfl, ?_⟩
    obtain ⟨h1, h2⟩ := sortedFrom_cons.mp hs
    obtain ⟨h3, h4⟩ := orderedFrom_cons.mp hp
    simp only [gapOfFrom] at hg
    split at hg
    · rename_i hc; exact hc.1
    · obtain ⟨t'', o'', rest', hr, hge⟩ := ih h2 h4 hg
      subst hr
      obtain ⟨h5, _⟩ := orderedFrom_cons.mp h4
      omega

theorem gapOfFrom_some_nil {p t o : Int} {l : List (Int × Int)} (hs : sortedFrom t l = true)
    (hp : orderedFrom p t o l = true) {n : Int} {g : Int × Int × Int} (hg : gapOfFrom o l n = some g) :
    fromLocalFrom t o l n = [] := by
  induction l generalizing p t o with
  | nil => cases hg
  | cons hd rest ih =>
    obtain ⟨t', o'⟩ := hd
    obtain ⟨_, _, _, hl, hge⟩ := gap_ge_end hs hp hg
    cases hl
    obtain ⟨h1, h2⟩ := sortedFrom_cons.mp hs
    obtain ⟨h3, h4⟩ := orderedFrom_cons.mp hp
    simp only [fromLocalFrom]
    rw [if_neg (by omega), List.nil_append]
    simp only [gapOfFrom] at hg
    split at hg
    · rename_i hc
      exact none_before h2 h4 hc.2
    · exact ih h2 h4 hg

/-- the class predicate is exact: `gapOf z n` finds a forward jump iff `n` does not exist -/
theorem gapOf_isSome_iff {z : Zone} (hs : sorted z = true) (hp : spansOrdered z = true) (n : Int) :
    (gapOf z n).isSome = true ↔ latest? z n = none := by
  constructor
  · intro h
    obtain ⟨g, hg⟩ := Option.isSome_iff_exists.mp h
    unfold latest?
    rw [fromLocal_eq_from z n _ (virt_le z n),
      gapOfFrom_some_nil (virt_sorted z n hs) (virt_ordered z n hp) (gapOf_eq z n ▸ hg)]
    rfl
  · intro h
    obtain ⟨T, a, b, g1, _⟩ := gap_of_none hs hp h
    rw [g1]; rfl

/-- D16 as a class: both bounds of a local span inside a gap (with the same phase within the
second) are mapped to the same instant.  A SPACED table is needed when the span ends exactly where
the jump lands (`b = g`): if a fold follows the gap directly, `g` is ambiguous and the end is mapped
to its later instant. -/
theorem datetime_eq_of_localSpanInGap {z : Zone} (hs : sorted z = true) (hp : spaced z = true)
    (hmax : lastLocal z + nsPerMin ≤ instMax)
    {a b : Int} (hg : localSpanInGap z a b = true) (hc : (b - a) % nsPerSec = 0) (hmin : instMin ≤ a) :
    datetime z a = datetime z b := by
  have ho := spansOrdered_of_spaced hp
  unfold localSpanInGap at hg
  split at hg
  · rename_i T a' g hgap
    simp only [decide_eq_true_eq] at hg
    have hnone : latest? z a = none := (gapOf_isSome_iff hs ho a).mp (by rw [hgap]; rfl)
    obtain ⟨T1, a1, b1, g1, g2, g3, g4, g5, g5', g6⟩ := datetime_gap_core hs ho hnone hmax hmin
    rw [hgap] at g1
    cases g1
    rw [g6]
    by_cases hbg : b = g
    · -- the span ends exactly where the jump lands
      have h0 := latest?_of_singleton (g5' hp 0 (by omega) (by simp [nsPerMin]))
      rw [hbg]
      simp only [Int.add_zero] at h0
      rw [datetime_of_some h0]
      have : (a - g) % nsPerSec = 0 := by simp only [nsPerSec] at *; omega
      rw [this, Int.add_zero]
    · have hnb : latest? z b = none := g4 b (by omega) (by omega)
      obtain ⟨T2, a2, b2, k1, k2, k3, k4, k5, _, k6⟩ := datetime_gap_core hs ho hnb hmax (by omega)
      have e1 : b2 ≤ g := by
        apply Int.not_lt.mp
        intro hc'
        have hv := g5 0 (by omega) (by simp [nsPerMin])
        rw [(earliest?_eq_none_iff z _).mpr (k4 (g + 0) (by omega) (by omega))] at hv; cases hv
      have e2 : g ≤ b2 := by
        apply Int.not_lt.mp
        intro hc'
        have hv := k5 0 (by omega) (by simp [nsPerMin])
        rw [(earliest?_eq_none_iff z _).mpr (g4 (b2 + 0) (by omega) (by omega))] at hv; cases hv
      have e3 : b2 = g := by omega
      subst e3
      have hT := k5 0 (by omega) (by simp [nsPerMin])
      rw [g5 0 (by omega) (by simp [nsPerMin])] at hT
      have hTT := Option.some.inj hT
      rw [k6]
      have e4 : (b - b2) % nsPerSec = (a - b2) % nsPerSec := by
        simp only [nsPerSec] at *; omega
      rw [e4]
      congr 2
      omega
  · cases hg

/-! ### ordering of mapped interval lists -/

theorem mapIntervals_mem {z : Zone} : ∀ {l out : List Interval}, mapIntervals z l = .ok out →
    ∀ y ∈ out, ∃ a ∈ l, mapInterval z a = .ok y := by
  intro l
  induction l with
  | nil => intro out h y hy; cases h; cases hy
  | cons a rest ih =>
    intro out h y hy
    simp only [mapIntervals] at h
    split at h
    · cases h
    · rename_i x hx
      split at h
      · cases h
      · rename_i xs hxs
        cases h
        rcases List.mem_cons.mp hy with e | e
        · subst e; exact ⟨a, List.mem_cons_self, hx⟩
        · obtain ⟨a', ha', hm⟩ := ih hxs y e
          exact ⟨a', List.mem_cons_of_mem _ ha', hm⟩

/-- mapping an ordered list of naive intervals through a monotone `datetime` keeps it ordered;
`mono` is what `datetime_mono_aligned` provides for bounds of class `C` -/
theorem mapIntervals_ordered {z : Zone} (C : Int → Prop)
    (mono : ∀ a b ua ub, a ≤ b → C a → datetime z a = .ok ua → datetime z b = .ok ub → ua ≤ ub) :
    ∀ {l out : List Interval}, mapIntervals z l = .ok out →
      (∀ iv ∈ l, C iv.start ∧ C iv.stop) → Ordered l → Ordered out := by
  intro l
  induction l with
  | nil =>
    intro out h _ _
    cases h
    exact And.intro (fun iv hiv => nomatch hiv) List.Pairwise.nil
  | cons a rest ih =>
    intro out h hC hord
    simp only [mapIntervals] at h
    split at h
    · cases h
    · rename_i x hx
      split at h
      · cases h
      · rename_i xs hxs
        cases h
        obtain ⟨ho1, ho2⟩ := hord
        rw [List.pairwise_cons] at ho2
        have ihr := ih hxs (fun iv hiv => hC iv (List.mem_cons_of_mem _ hiv))
          ⟨fun iv hiv => ho1 iv (List.mem_cons_of_mem _ hiv), ho2.2⟩
        obtain ⟨x1, x2, _, _⟩ := mapInterval_spec hx
        have hCa := hC a List.mem_cons_self
        refine ⟨?_, ?_⟩
        · intro iv hiv
          rcases List.mem_cons.mp hiv with e | e
          · subst e
            exact mono _ _ _ _ (ho1 a List.mem_cons_self) hCa.1 x1 x2
          · exact ihr.1 iv e
        · rw [List.pairwise_cons]
          refine ⟨?_, ihr.2⟩
          intro y hy
          obtain ⟨b, hb, hmb⟩ := mapIntervals_mem hxs y hy
          obtain ⟨y1, _, _, _⟩ := mapInterval_spec hmb
          exact mono _ _ _ _ (ho2.1 b hb) hCa.2 x2 y1

/-! ### at most two readings, at most 2·1440 steps -/

/-- at most two spans contain a local time (`None` / `Single` / `Ambiguous` is exhaustive) -/
theorem fromLocalFrom_length_le_two {p t o : Int} {l : List (Int × Int)} (hs : sortedFrom t l = true)
    (hp : spacedFrom p t o l = true) (n : Int) : (fromLocalFrom t o l n).length ≤ 2 := by
  induction l generalizing p t o with
  | nil => simp only [fromLocalFrom]; split <;> simp
  | cons hd rest ih =>
    obtain ⟨t', o'⟩ := hd
    obtain ⟨h1, h2⟩ := sortedFrom_cons.mp hs
    obtain ⟨h3, h4⟩ := spacedFrom_cons.mp hp
    simp only [fromLocalFrom, List.length_append]
    have ihr := ih h2 h4
    split
    · rename_i hc
      -- `n` is in the current span: later than the next span nothing contains it
      cases rest with
      | nil => simp only [fromLocalFrom]; split <;> simp
      | cons hd2 rest2 =>
        obtain ⟨t'', o''⟩ := hd2
        obtain ⟨h5, h6⟩ := sortedFrom_cons.mp h2
        obtain ⟨h7, h8⟩ := spacedFrom_cons.mp h4
        have hn : fromLocalFrom t'' o'' rest2 n = [] := by
          apply none_before h6 (ordered_of_spacedFrom h8)
          simp only [offNs, nsPerMin] at *
          omega
        simp only [fromLocalFrom, hn, List.append_nil, List.length_cons, List.length_nil]
        split <;> simp
    · simp only [List.length_nil]; omega

theorem fromLocal_length_le_two {z : Zone} (hs : sorted z = true) (hp : spaced z = true) (n : Int) :
    (fromLocal z n).length ≤ 2 := by
  rw [fromLocal_eq_from z n _ (virt_le z n)]
  exact fromLocalFrom_length_le_two (virt_sorted z n hs) (virt_spaced z n hp) n

theorem gap_size {p : Int} {l : List (Int × Int)} {n T a b : Int}
    (hg : gapOfFrom p l n = some (T, a, b)) (hp : -86400 < p ∧ p < 86400)
    (hl : ∀ q ∈ l, -86400 < q.2 ∧ q.2 < 86400) : b - a < 2 * nsPerDay := by
  induction l generalizing p with
  | nil => cases hg
  | cons hd rest ih =>
    obtain ⟨t, o⟩ := hd
    have ho := hl (t, o) List.mem_cons_self
    simp only [gapOfFrom] at hg
    split at hg
    · cases hg
      simp only [offNs, nsPerDay] at *
      omega
    · exact ih hg ho (fun q hq => hl q (List.mem_cons_of_mem _ hq))

/-- the loop makes at most 2·1440 steps (a gap is shorter than two days) -/
theorem datetime_steps_le {z : Zone} (hs : sorted z = true) (hp : spansOrdered z = true)
    (hb : offsetsBounded z = true) {n : Int} (he : latest? z n = none) :
    ∃ k : Nat, k ≤ 2880 ∧ (∀ j : Nat, j < k → latest? z (n + j * nsPerMin) = none) ∧
      latest? z (n + k * nsPerMin) ≠ none := by
  obtain ⟨T, a, b, g1, g2, g3, g4, g5, g6, _⟩ := gap_of_none hs hp he
  have hsize : b - a < 2 * nsPerDay := by
    unfold offsetsBounded at hb
    simp only [Bool.and_eq_true, decide_eq_true_eq, List.all_eq_true] at hb
    exact gap_size (gapOf_eq z n ▸ g1) hb.1 hb.2
  have hr0 := emod_min_nonneg (n - b)
  have hr1 := emod_min_lt (n - b)
  refine ⟨((b + (n - b) % nsPerMin - n) / nsPerMin).toNat, ?_, ?_, ?_⟩
  · simp only [nsPerMin, nsPerDay] at *; omega
  · intro j hj
    apply g5
    · have : (0 : Int) ≤ j * nsPerMin := Int.mul_nonneg (Int.natCast_nonneg j) (by simp [nsPerMin])
      omega
    · simp only [nsPerMin] at *; omega
  · have e : n + (((b + (n - b) % nsPerMin - n) / nsPerMin).toNat : Int) * nsPerMin = b + (n - b) % nsPerMin := by
      rw [Int.toNat_of_nonneg]
      · simp only [nsPerMin] at *; omega
      · simp only [nsPerMin] at *; omega
    rw [e]
    intro hcon
    have hv := g6 _ hr0 hr1
    rw [(earliest?_eq_none_iff z _).mpr hcon] at hv
    cases hv

/-! ### what the filter of `iter_range` keeps, and why no localized interval is empty -/

/-- an instant showing a time before `n` lies before the instant `n` is mapped to -/
theorem datetime_lt_of_naive_lt {z : Zone} (hs : sorted z = true) (hp : spansOrdered z = true)
    (hmax : lastLocal z + nsPerMin ≤ instMax) {u n v : Int} (hmin : instMin ≤ n)
    (hlt : naive z u < n) (hv : datetime z n = .ok v) : u < v := by
  rcases datetime_cases hs hp hmax hmin with ⟨w, hl, hd⟩ | ⟨hl, T, a, b, g1, g2, g3, g4, g5, g6⟩
  · rw [hd] at hv; cases hv
    cases hm : latest? z (naive z u) with
    | none => exact absurd rfl ((latest_none_iff hs _).mp hm u)
    | some w' =>
      have h1 := (latest_spec hs hm).2 u rfl
      have h2 := latest_strictMono hs hp hlt hm hl
      omega
  · rw [g6] at hv; cases hv
    have h1 := valid_le_gap hs hp g1 g3 (Int.le_of_lt hlt) (v := u) rfl
    have h2 := emod_sec_nonneg (n - b)
    omega

/-- the class predicate `localSpanInGap` (the former D16 class) says exactly: the span is not empty
and the clock skips all of it -/
theorem localSpanInGap_iff {z : Zone} (hs : sorted z = true) (hp : spansOrdered z = true) (a b : Int) :
    localSpanInGap z a b = true ↔ a < b ∧ ∀ m, a ≤ m → m < b → latest? z m = none := by
  unfold localSpanInGap
  constructor
  · intro h
    split at h
    · rename_i T a' g hgap
      simp only [decide_eq_true_eq] at h
      have hnone := (gapOf_isSome_iff hs hp a).mp (by rw [hgap]; rfl)
      obtain ⟨T1, a1, b1, k1, _, _, _, k5, _, _⟩ := gap_of_none hs hp hnone
      rw [hgap] at k1; cases k1
      exact ⟨h.1, fun m h1 h2 => k5 m h1 (by omega)⟩
    · cases h
  · intro ⟨hab, hall⟩
    have hnone := hall a (Int.le_refl _) hab
    obtain ⟨T, a', g, k1, k2, k3, _, k5, k6, _⟩ := gap_of_none hs hp hnone
    rw [k1]
    simp only [decide_eq_true_eq]
    refine ⟨hab, ?_⟩
    apply Int.not_lt.mp
    intro hc
    have hv := k6 0 (by omega) (by simp [nsPerMin])
    rw [(earliest?_eq_none_iff z _).mpr (hall (g + 0) (by omega) (by omega))] at hv
    cases hv

/-- **the filter drops exactly the spans the clock skips entirely** (start a whole second or an
existing time — every bound the evaluator produces — in a whole-second table) -/
theorem keepRange_eq {z : Zone} (hs : sorted z = true) (hp : spansOrdered z = true)
    (hal : secondsAligned z = true) (hmax : lastLocal z + nsPerMin ≤ instMax) {iv : Interval}
    (hmin : instMin ≤ iv.start) (hle : iv.start ≤ instMax) (hne : iv.start < iv.stop)
    (hws : iv.start % nsPerSec = 0 ∨ latest? z iv.start ≠ none) :
    keepRange z iv = .ok (!localSpanInGap z iv.start iv.stop) := by
  have hp0 : (0:Int) < nsPerMin := by simp [nsPerMin]
  rcases datetime_cases hs hp hmax hmin with ⟨u, hl, hd⟩ | ⟨hl, T, a, b, g1, g2, g3, g4, g5, g6⟩
  · have hn := (latest_spec hs hl).1
    rw [keepRange_ok hd (by omega) (by omega), hn]
    have hg : gapOf z iv.start = none := by
      cases hg : gapOf z iv.start with
      | none => rfl
      | some g =>
        have := (gapOf_isSome_iff hs hp iv.start).mp (by rw [hg]; rfl)
        rw [this] at hl; cases hl
    have : localSpanInGap z iv.start iv.stop = false := by
      unfold localSpanInGap
      rw [hg]
    rw [this]
    simp [hne]
  · have haa : iv.start % nsPerSec = 0 := by
      rcases hws with h | h
      · exact h
      · exact absurd hl h
    have hb' : b % nsPerSec = 0 := by
      apply gap_end_seconds (gapOf_eq z iv.start ▸ g1)
      unfold secondsAligned at hal
      simp only [List.all_eq_true, decide_eq_true_eq] at hal
      exact hal
    have hr : (iv.start - b) % nsPerSec = 0 := by simp only [nsPerSec] at *; omega
    rw [hr, Int.add_zero] at g6
    have hT := (earliest_spec hs (g5 0 (by omega) hp0)).1
    simp only [Int.add_zero] at hT
    have hb := datetime_naive_bound hs hmax hmin hle g6
    rw [keepRange_ok g6 (by omega) (by omega), hT]
    unfold localSpanInGap
    rw [g1]
    simp only
    by_cases hbs : b < iv.stop
    · have : ¬ (iv.start < iv.stop ∧ iv.stop ≤ b) := by omega
      simp [hbs, this]
    · have : iv.start < iv.stop ∧ iv.stop ≤ b := by omega
      simp [hbs, this]

end OH.Proofs.Tz
