import OH.Model.Tz
/-
Helper lemmas for C09 (time-zone contexts).  Core tactics only.

Pattern: every statement about a zone is first proved for the table *suffix* functions
(`offsetFrom`, `fromLocalFrom`, `gapOfFrom`, … : the spans that start at transition `(t, o)` and
after) by induction over the table, then transferred to the zone by `fromLocal_eq_from`: for any
`t0` early enough the unbounded first span behaves like a span starting at a virtual transition
`t0`.

Two table conditions: `orderedFrom` / `spansOrdered` (local spans in order; a fold may follow a gap
directly) carries the gap structure, the value of `datetime` in a gap, `gap_above` / `gap_below`
(what the clock shows after / before the forward jump) and monotonicity; `spacedFrom` / `spaced`
(which implies it: `spansOrdered_of_spaced`) is only needed for "read exactly once" (`first_minute`,
`fromLocal_length_le_two`, D16 with the end on the landing time).
`datetime` (code of /repo e1e5204) = `latest()` of the requested time, or `earliest()` of the first
existing `requested + k min`, walked back by seconds with `earliest()`: `found?`, `minuteLoop`,
`walkBack`.
-/
namespace OH.Proofs.Tz
open OH.Model OH.Model.Tz

/-! ### lists -/

theorem getLast?_max {l : List Int} (hp : l.Pairwise (· < ·)) {m : Int} (hm : l.getLast? = some m) :
    ∀ u ∈ l, u ≤ m := by
  induction l with
  | nil => intro u hu; cases hu
  | cons a rest ih =>
    intro u hu
    rw [List.pairwise_cons] at hp
    cases rest with
    | nil =>
      simp only [List.getLast?_singleton, Option.some.injEq] at hm
      simp only [List.mem_singleton] at hu
      omega
    | cons b rest' =>
      rw [List.getLast?_cons_cons] at hm
      have hmm : m ∈ b :: rest' := List.mem_of_getLast? hm
      rcases List.mem_cons.mp hu with h | h
      · have := hp.1 m hmm; omega
      · exact ih hp.2 hm u h

theorem head?_min {l : List Int} (hp : l.Pairwise (· < ·)) {m : Int} (hm : l.head? = some m) :
    ∀ u ∈ l, m ≤ u := by
  cases l with
  | nil => cases hm
  | cons a rest =>
    simp only [List.head?_cons, Option.some.injEq] at hm
    subst hm
    intro u hu
    rw [List.pairwise_cons] at hp
    rcases List.mem_cons.mp hu with h | h
    · omega
    · have := hp.1 u h; omega

theorem getLast?_append_of_ne_nil (a : List Int) {b : List Int} (h : b ≠ []) :
    (a ++ b).getLast? = b.getLast? := by
  rw [List.getLast?_append]
  cases hb : b.getLast? with
  | none => exact absurd (List.getLast?_eq_none_iff.mp hb) h
  | some x => rfl

/-! ### UTC → local → UTC on table suffixes -/

theorem sortedFrom_cons {t t' o' : Int} {rest : List (Int × Int)} :
    sortedFrom t ((t', o') :: rest) = true ↔ t < t' ∧ sortedFrom t' rest = true := by
  simp [sortedFrom]

/-- `u ∈ fromLocalFrom … n` iff `u` is at/after `t` and reads `n` on the local clock -/
theorem mem_fromLocalFrom {t o : Int} {l : List (Int × Int)} (hs : sortedFrom t l = true) (n u : Int) :
    u ∈ fromLocalFrom t o l n ↔ t ≤ u ∧ u + offNs (offsetFrom o l u) = n := by
  induction l generalizing t o with
  | nil =>
    simp only [fromLocalFrom, offsetFrom]
    split <;> simp <;> omega
  | cons hd rest ih =>
    obtain ⟨t', o'⟩ := hd
    obtain ⟨h1, h2⟩ := sortedFrom_cons.mp hs
    simp only [fromLocalFrom, offsetFrom, List.mem_append, ih h2]
    by_cases hu : u < t'
    · simp only [hu, if_true]
      split <;> simp <;> omega
    · simp only [hu, if_false]
      split <;> simp <;> omega

theorem fromLocalFrom_pairwise {t o : Int} {l : List (Int × Int)} (hs : sortedFrom t l = true) (n : Int) :
    (fromLocalFrom t o l n).Pairwise (· < ·) := by
  induction l generalizing t o with
  | nil =>
    simp only [fromLocalFrom]
    split <;> simp
  | cons hd rest ih =>
    obtain ⟨t', o'⟩ := hd
    obtain ⟨h1, h2⟩ := sortedFrom_cons.mp hs
    simp only [fromLocalFrom]
    rw [List.pairwise_append]
    refine ⟨?_, ih h2, ?_⟩
    · split <;> simp
    · intro a ha b hb
      have hb' := ((mem_fromLocalFrom h2 n b).mp hb).1
      split at ha
      · simp only [List.mem_singleton] at ha; omega
      · cases ha

/-- the unbounded first span behaves like a span that starts at any `t0 ≤ n - init` -/
theorem fromLocal_eq_from (z : Zone) (n t0 : Int) (h : t0 ≤ n - offNs z.init) :
    fromLocal z n = fromLocalFrom t0 z.init z.trans n := by
  unfold fromLocal
  cases z.trans with
  | nil => simp [fromLocalFrom, h]
  | cons hd rest =>
    obtain ⟨t', o'⟩ := hd
    simp only [fromLocalFrom, h, true_and]

/-- a virtual first transition early enough for the local time `n` and for the table conditions -/
def virt (z : Zone) (n : Int) : Int :=
  match z.trans with
  | [] => n - offNs z.init
  | (t, o) :: _ => min (n - offNs z.init) (t - offNs (o - z.init).natAbs - nsPerMin)

theorem virt_le (z : Zone) (n : Int) : virt z n ≤ n - offNs z.init := by
  unfold virt; split
  · omega
  · exact Int.min_le_left _ _

theorem virt_mono (z : Zone) {n m : Int} (h : n ≤ m) : virt z n ≤ m - offNs z.init := by
  have := virt_le z n; omega

theorem virt_sorted (z : Zone) (n : Int) (hs : sorted z = true) : sortedFrom (virt z n) z.trans = true := by
  unfold virt sorted at *
  cases hz : z.trans with
  | nil => simp [sortedFrom]
  | cons hd rest =>
    obtain ⟨t, o⟩ := hd
    rw [hz] at hs
    simp only [sortedFrom, Bool.and_eq_true, decide_eq_true_eq]
    refine ⟨?_, hs⟩
    have : (0:Int) ≤ offNs ((o - z.init).natAbs) := by simp only [offNs]; omega
    simp only [nsPerMin]
    omega

theorem virt_spaced (z : Zone) (n : Int) (hs : spaced z = true) :
    spacedFrom z.init (virt z n) z.init z.trans = true := by
  unfold virt spaced at *
  cases hz : z.trans with
  | nil => simp [spacedFrom]
  | cons hd rest =>
    obtain ⟨t, o⟩ := hd
    rw [hz] at hs
    simp only [spacedFrom, Bool.and_eq_true, decide_eq_true_eq]
    refine ⟨?_, hs⟩
    simp only [offNs, nsPerMin]
    omega

theorem offsetAt_eq (z : Zone) (u : Int) : offsetAt z u = offsetFrom z.init z.trans u := rfl

/-- **characterisation**: the list `fromLocal z n` is exactly the set of instants whose local
reading is `n` -/
theorem mem_fromLocal {z : Zone} (hs : sorted z = true) (n u : Int) :
    u ∈ fromLocal z n ↔ naive z u = n := by
  have ht : min (virt z n) u ≤ n - offNs z.init := by have := virt_le z n; omega
  have hsrt : sortedFrom (min (virt z n) u) z.trans = true := by
    have := virt_sorted z n hs
    cases hz : z.trans with
    | nil => simp [sortedFrom]
    | cons hd rest =>
      obtain ⟨t, o⟩ := hd
      rw [hz] at this
      simp only [sortedFrom, Bool.and_eq_true, decide_eq_true_eq] at this ⊢
      exact ⟨by omega, this.2⟩
  rw [fromLocal_eq_from z n _ ht, mem_fromLocalFrom hsrt]
  unfold naive
  rw [offsetAt_eq]
  constructor
  · intro h; exact h.2
  · intro h; exact ⟨Int.min_le_right _ _, h⟩

theorem fromLocal_pairwise {z : Zone} (hs : sorted z = true) (n : Int) :
    (fromLocal z n).Pairwise (· < ·) := by
  rw [fromLocal_eq_from z n _ (virt_le z n)]
  exact fromLocalFrom_pairwise (virt_sorted z n hs) n

/-- `latest()` is an instant reading `n`, and no later instant reads `n` -/
theorem latest_spec {z : Zone} (hs : sorted z = true) {n u : Int} (h : latest? z n = some u) :
    naive z u = n ∧ ∀ u', naive z u' = n → u' ≤ u := by
  unfold latest? at h
  refine ⟨(mem_fromLocal hs n u).mp (List.mem_of_getLast? h), ?_⟩
  intro u' hu'
  exact getLast?_max (fromLocal_pairwise hs n) h u' ((mem_fromLocal hs n u').mpr hu')

theorem latest_none_iff {z : Zone} (hs : sorted z = true) (n : Int) :
    latest? z n = none ↔ ∀ u, naive z u ≠ n := by
  unfold latest?
  rw [List.getLast?_eq_none_iff]
  constructor
  · intro h u hu
    have := (mem_fromLocal hs n u).mpr hu
    rw [h] at this; cases this
  · intro h
    cases hl : fromLocal z n with
    | nil => rfl
    | cons a rest =>
      have : a ∈ fromLocal z n := by rw [hl]; exact List.mem_cons_self
      exact absurd ((mem_fromLocal hs n a).mp this) (h a)

/-- `earliest()` is an instant reading `n`, and no earlier instant reads `n` -/
theorem earliest_spec {z : Zone} (hs : sorted z = true) {n u : Int} (h : earliest? z n = some u) :
    naive z u = n ∧ ∀ u', naive z u' = n → u ≤ u' := by
  unfold earliest? at h
  refine ⟨(mem_fromLocal hs n u).mp (List.mem_of_head? h), ?_⟩
  intro u' hu'
  exact head?_min (fromLocal_pairwise hs n) h u' ((mem_fromLocal hs n u').mpr hu')

/-- `earliest()` and `latest()` answer `None` for the same local times -/
theorem earliest?_eq_none_iff (z : Zone) (n : Int) : earliest? z n = none ↔ latest? z n = none := by
  unfold earliest? latest?
  rw [List.head?_eq_none_iff, List.getLast?_eq_none_iff]

theorem earliest?_of_singleton {z : Zone} {n u : Int} (h : fromLocal z n = [u]) : earliest? z n = some u := by
  unfold earliest?; rw [h]; rfl

theorem latest?_of_singleton {z : Zone} {n u : Int} (h : fromLocal z n = [u]) : latest? z n = some u := by
  unfold latest?; rw [h]; rfl

/-! ### the minute loop and the walk back of `datetime` -/

theorem found?_self (z : Zone) (n : Int) : found? z n n = latest? z n := by
  unfold found?; rw [if_pos rfl]

theorem found?_of_ne {z : Zone} {req n : Int} (h : n ≠ req) : found? z req n = earliest? z n := by
  unfold found?; rw [if_neg h]

theorem found?_eq_none {z : Zone} {req n : Int} (h : latest? z n = none) : found? z req n = none := by
  unfold found?
  split
  · exact h
  · exact (earliest?_eq_none_iff z n).mpr h

/-- whatever `found?` picks is an instant reading `n` -/
theorem found?_mem {z : Zone} {req n u : Int} (h : found? z req n = some u) : u ∈ fromLocal z n := by
  unfold found? at h
  split at h
  · exact List.mem_of_getLast? h
  · exact List.mem_of_head? h

theorem minuteLoop_of_some {z : Zone} {req n u : Int} (h : found? z req n = some u) :
    minuteLoop z req n = .ok (n, u) := by
  rw [minuteLoop]
  split
  · rename_i u' hu'; rw [h] at hu'; cases hu'; rfl
  · rename_i hn; rw [h] at hn; cases hn

theorem minuteLoop_of_none {z : Zone} {req n : Int} (h : latest? z n = none) :
    minuteLoop z req n = if n + nsPerMin > instMax then .error "localize.rs:datetime no valid datetime for time zone"
      else minuteLoop z req (n + nsPerMin) := by
  have h' : found? z req n = none := found?_eq_none h
  rw [minuteLoop]
  split
  · rename_i u' hu'; rw [h'] at hu'; cases hu'
  · rfl

/-- the loop returns the first existing local time among `n, n + 1 min, …` and the instant `found?`
picks for it -/
theorem minuteLoop_steps {z : Zone} {req : Int} (k : Nat) : ∀ (n u : Int),
    (∀ j : Nat, j < k → latest? z (n + j * nsPerMin) = none) →
    found? z req (n + k * nsPerMin) = some u → n + k * nsPerMin ≤ instMax →
    minuteLoop z req n = .ok (n + k * nsPerMin, u) := by
  induction k with
  | zero =>
    intro n u _ h _
    simp only [Int.natCast_zero, Int.zero_mul, Int.add_zero] at h ⊢
    exact minuteLoop_of_some h
  | succ k ih =>
    intro n u hnone hsome hmax
    have h0 := hnone 0 (by omega)
    simp only [Int.natCast_zero, Int.zero_mul, Int.add_zero] at h0
    rw [minuteLoop_of_none h0]
    have hk : n + (k + 1 : Nat) * nsPerMin = n + nsPerMin + k * nsPerMin := by
      simp only [Int.natCast_add, Int.natCast_one, Int.add_mul, Int.one_mul]; omega
    have hlt : ¬ (n + nsPerMin > instMax) := by
      rw [hk] at hmax
      have : (0 : Int) ≤ k * nsPerMin := Int.mul_nonneg (Int.natCast_nonneg k) (by simp [nsPerMin])
      omega
    rw [if_neg hlt, hk]
    apply ih (n + nsPerMin) u
    · intro j hj
      have := hnone (j + 1) (by omega)
      have e : n + ((j + 1 : Nat) : Int) * nsPerMin = n + nsPerMin + j * nsPerMin := by
        simp only [Int.natCast_add, Int.natCast_one, Int.add_mul, Int.one_mul]; omega
      rw [e] at this; exact this
    · rw [← hk]; exact hsome
    · rw [← hk]; exact hmax

/-- no walk when the requested time itself exists -/
theorem walkBack_self (z : Zone) (n dt : Int) : walkBack z n n dt = .ok dt := by
  rw [walkBack, if_neg (by omega)]

/-- an existing requested time is mapped to its `latest()` instant -/
theorem datetime_of_some {z : Zone} {n u : Int} (h : latest? z n = some u) : datetime z n = .ok u := by
  unfold datetime
  rw [minuteLoop_of_some (by rw [found?_self]; exact h)]
  exact walkBack_self z n u

/-- what the walk back returns, in general: the earliest instant of a local time `m'` reached from
`m` by whole seconds through existing local times only, not below `req`; and the second before
`m'` does not exist or is not above `req`.  No underflow for a representable `req`. -/
theorem walkBack_spec {z : Zone} {req : Int} (hreq : instMin ≤ req) : ∀ (m u : Int),
    (m - req) % nsPerSec = 0 → earliest? z m = some u →
    ∃ m' u', walkBack z req m u = .ok u' ∧ earliest? z m' = some u' ∧ m' ≤ m ∧ (m' = m ∨ req ≤ m') ∧
      (m - m') % nsPerSec = 0 ∧ (∀ x, m' ≤ x → x ≤ m → (m - x) % nsPerSec = 0 → earliest? z x ≠ none) ∧
      (req < m' → earliest? z (m' - nsPerSec) = none) := by
  intro m u
  fun_induction walkBack z req m u with
  | case1 m u hgt hlow => intro hph _; exfalso; simp only [nsPerSec] at *; omega
  | case2 m u hgt hlow prev hprev ih =>
    intro hph hl
    have hph' : (m - nsPerSec - req) % nsPerSec = 0 := by simp only [nsPerSec] at *; omega
    obtain ⟨m', u', h1, h2, h3, h4, h5, h6, h7⟩ := ih hph' hprev
    refine ⟨m', u', h1, h2, by simp only [nsPerSec] at *; omega, ?_, by simp only [nsPerSec] at *; omega, ?_, h7⟩
    · right
      rcases h4 with h | h
      · simp only [nsPerSec] at *; omega
      · exact h
    · intro x hx1 hx2 hx3
      by_cases hxm : x = m
      · subst hxm; rw [hl]; simp
      · exact h6 x hx1 (by simp only [nsPerSec] at *; omega) (by simp only [nsPerSec] at *; omega)
  | case3 m u hgt hlow hnone =>
    intro _ hl
    refine ⟨m, u, rfl, hl, by omega, Or.inl rfl, by simp, ?_, fun _ => hnone⟩
    intro x hx1 hx2 _
    have : x = m := by omega
    subst this; rw [hl]; simp
  | case4 m u hle =>
    intro _ hl
    refine ⟨m, u, rfl, hl, by omega, Or.inl rfl, by simp, ?_, fun h => by omega⟩
    intro x hx1 hx2 _
    have : x = m := by omega
    subst this; rw [hl]; simp

/-! ### consequences of the ordering / spacing condition, on table suffixes

`orderedFrom` (local spans in order) is what the lemmas about gaps and monotonicity need;
`spacedFrom` (which implies it) is only needed for "read exactly once" statements. -/

theorem spacedFrom_cons {p t o t' o' : Int} {rest : List (Int × Int)} :
    spacedFrom p t o ((t', o') :: rest) = true ↔
      t' - t ≥ offNs (o - p).natAbs + offNs (o' - o).natAbs + nsPerMin ∧ spacedFrom o t' o' rest = true := by
  simp [spacedFrom]

theorem orderedFrom_cons {p t o t' o' : Int} {rest : List (Int × Int)} :
    orderedFrom p t o ((t', o') :: rest) = true ↔
      (t + offNs p ≤ t' + offNs o ∧ t + offNs o ≤ t' + offNs o' ∧ (p < o → t' - t ≥ nsPerMin)) ∧
        orderedFrom o t' o' rest = true := by
  simp only [orderedFrom, Bool.and_eq_true, decide_eq_true_eq]

/-- spaced tables have their local spans in order -/
theorem ordered_of_spacedFrom {p t o : Int} {l : List (Int × Int)} (h : spacedFrom p t o l = true) :
    orderedFrom p t o l = true := by
  induction l generalizing p t o with
  | nil => rfl
  | cons hd rest ih =>
    obtain ⟨t', o'⟩ := hd
    obtain ⟨h1, h2⟩ := spacedFrom_cons.mp h
    refine orderedFrom_cons.mpr ⟨?_, ih h2⟩
    simp only [offNs, nsPerMin] at *
    omega

theorem spansOrdered_of_spaced {z : Zone} (h : spaced z = true) : spansOrdered z = true := by
  unfold spaced at h
  unfold spansOrdered
  cases hz : z.trans with
  | nil => rfl
  | cons hd rest =>
    obtain ⟨t, o⟩ := hd
    rw [hz] at h
    exact ordered_of_spacedFrom h

theorem virt_ordered (z : Zone) (n : Int) (ho : spansOrdered z = true) :
    orderedFrom z.init (virt z n) z.init z.trans = true := by
  unfold virt spansOrdered at *
  cases hz : z.trans with
  | nil => simp [orderedFrom]
  | cons hd rest =>
    obtain ⟨t, o⟩ := hd
    rw [hz] at ho
    refine orderedFrom_cons.mpr ⟨?_, ho⟩
    simp only [offNs, nsPerMin]
    omega

/-- no span at/after `(t, o)` contains a local time before `t + o` (local span starts do not decrease) -/
theorem none_before {p t o : Int} {l : List (Int × Int)} (hs : sortedFrom t l = true)
    (hp : orderedFrom p t o l = true) {m : Int} (hm : m < t + offNs o) : fromLocalFrom t o l m = [] := by
  induction l generalizing p t o with
  | nil =>
    simp only [fromLocalFrom]
    rw [if_neg (by omega)]
  | cons hd rest ih =>
    obtain ⟨t', o'⟩ := hd
    obtain ⟨h1, h2⟩ := sortedFrom_cons.mp hs
    obtain ⟨h3, h4⟩ := orderedFrom_cons.mp hp
    simp only [fromLocalFrom]
    rw [if_neg (by omega), List.nil_append]
    apply ih h2 h4
    omega

/-- the last span starts (locally) after every other span -/
theorem start_le_lastLocalFrom {p t o : Int} {l : List (Int × Int)} (hs : sortedFrom t l = true)
    (hp : orderedFrom p t o l = true) : t + offNs o ≤ lastLocalFrom t o l := by
  induction l generalizing p t o with
  | nil => simp [lastLocalFrom]
  | cons hd rest ih =>
    obtain ⟨t', o'⟩ := hd
    obtain ⟨h1, h2⟩ := sortedFrom_cons.mp hs
    obtain ⟨h3, h4⟩ := orderedFrom_cons.mp hp
    simp only [lastLocalFrom]
    have := ih h2 h4
    omega

/-- the first minute of a span is unambiguous local time in a SPACED table: `t + o + r` is read only
at `t + r` -/
theorem first_minute {p t o : Int} {l : List (Int × Int)} (hs : sortedFrom t l = true)
    (hp : spacedFrom p t o l = true) {r : Int} (h0 : 0 ≤ r) (h1 : r < nsPerMin) :
    fromLocalFrom t o l (t + offNs o + r) = [t + r] := by
  cases l with
  | nil =>
    simp only [fromLocalFrom]
    rw [if_pos (by omega)]
    congr 1; omega
  | cons hd rest =>
    obtain ⟨t', o'⟩ := hd
    obtain ⟨h2, h3⟩ := sortedFrom_cons.mp hs
    obtain ⟨h4, h5⟩ := spacedFrom_cons.mp hp
    simp only [fromLocalFrom]
    have hn : fromLocalFrom t' o' rest (t + offNs o + r) = [] := by
      apply none_before h3 (ordered_of_spacedFrom h5)
      simp only [offNs, nsPerMin] at *
      omega
    rw [hn, List.append_nil, if_pos]
    · congr 1; omega
    · simp only [offNs, nsPerMin] at *
      omega

/-- the first minute of a span that starts with a forward jump, in an ORDERED table: `t + o + r` is
read FIRST at `t + r` (it may be read again after a fold that follows directly) -/
theorem first_minute_head {p t o : Int} {l : List (Int × Int)} (_hs : sortedFrom t l = true)
    (hp : orderedFrom p t o l = true) (hj : p < o) {r : Int} (h0 : 0 ≤ r) (h1 : r < nsPerMin) :
    (fromLocalFrom t o l (t + offNs o + r)).head? = some (t + r) := by
  cases l with
  | nil =>
    simp only [fromLocalFrom]
    rw [if_pos (by omega)]
    simp only [List.head?_cons, Option.some.injEq]
    omega
  | cons hd rest =>
    obtain ⟨t', o'⟩ := hd
    obtain ⟨h4, _⟩ := orderedFrom_cons.mp hp
    have h5 := h4.2.2 hj
    simp only [fromLocalFrom]
    rw [if_pos (by omega)]
    simp only [List.cons_append, List.head?_cons, Option.some.injEq]
    omega

/-- **gap structure.**  A local time `n` at/after the start of span `(t, o)` that no span
contains is skipped by a forward jump `(T, a, b)`: `a ≤ n < b`, everything in `[n, b)` is skipped
too, and the minute from `b` on is read first at `T + r` — in a spaced table only there. -/
theorem gap_structure {p t o : Int} {l : List (Int × Int)} (hs : sortedFrom t l = true)
    (hp : orderedFrom p t o l = true) {n : Int} (hn : t + offNs o ≤ n)
    (he : fromLocalFrom t o l n = []) :
    ∃ T a b, gapOfFrom o l n = some (T, a, b) ∧ a ≤ n ∧ n < b ∧ b ≤ lastLocalFrom t o l ∧
      (∀ m, n ≤ m → m < b → fromLocalFrom t o l m = []) ∧
      (∀ r, 0 ≤ r → r < nsPerMin → (fromLocalFrom t o l (b + r)).head? = some (T + r)) ∧
      (spacedFrom p t o l = true → ∀ r, 0 ≤ r → r < nsPerMin → fromLocalFrom t o l (b + r) = [T + r]) := by
  induction l generalizing p t o with
  | nil =>
    simp only [fromLocalFrom] at he
    rw [if_pos (by omega)] at he
    cases he
  | cons hd rest ih =>
    obtain ⟨t', o'⟩ := hd
    obtain ⟨h1, h2⟩ := sortedFrom_cons.mp hs
    obtain ⟨h3, h4⟩ := orderedFrom_cons.mp hp
    simp only [fromLocalFrom, List.append_eq_nil_iff] at he
    obtain ⟨he1, he2⟩ := he
    have hge : t' + offNs o ≤ n := by
      by_cases hc : t ≤ n - offNs o ∧ n - offNs o < t'
      · rw [if_pos hc] at he1; cases he1
      · omega
    by_cases hgap : n < t' + offNs o'
    · -- the gap is at this transition
      have hj : o < o' := by simp only [offNs] at *; omega
      refine ⟨t', t' + offNs o, t' + offNs o', ?_, hge, hgap, ?_, ?_, ?_, ?_⟩
      · simp only [gapOfFrom]
        rw [if_pos ⟨hge, hgap⟩]
      · simp only [lastLocalFrom]
        exact start_le_lastLocalFrom h2 h4
      · intro m hm1 hm2
        simp only [fromLocalFrom]
        rw [if_neg (by omega), List.nil_append]
        exact none_before h2 h4 hm2
      · intro r hr0 hr1
        simp only [fromLocalFrom]
        rw [if_neg (by omega), List.nil_append]
        exact first_minute_head h2 h4 hj hr0 hr1
      · intro hsp r hr0 hr1
        obtain ⟨_, h4'⟩ := spacedFrom_cons.mp hsp
        simp only [fromLocalFrom]
        rw [if_neg (by omega), List.nil_append]
        exact first_minute h2 h4' hr0 hr1
    · -- later
      obtain ⟨T, a, b, g1, g2, g3, g4, g5, g6, g7⟩ := ih h2 h4 (by omega) he2
      refine ⟨T, a, b, ?_, g2, g3, ?_, ?_, ?_, ?_⟩
      · simp only [gapOfFrom]
        rw [if_neg (by omega)]
        exact g1
      · simp only [lastLocalFrom]; exact g4
      · intro m hm1 hm2
        simp only [fromLocalFrom]
        rw [if_neg (by omega), List.nil_append]
        exact g5 m hm1 hm2
      · intro r hr0 hr1
        simp only [fromLocalFrom]
        rw [if_neg (by omega), List.nil_append]
        exact g6 r hr0 hr1
      · intro hsp r hr0 hr1
        obtain ⟨_, h4'⟩ := spacedFrom_cons.mp hsp
        simp only [fromLocalFrom]
        rw [if_neg (by omega), List.nil_append]
        exact g7 h4' r hr0 hr1

/-- `latest()` is strictly increasing on existing local times -/
theorem latestFrom_strictMono {p t o : Int} {l : List (Int × Int)} (hs : sortedFrom t l = true)
    (hp : orderedFrom p t o l = true) {n n' u u' : Int} (hlt : n < n')
    (hu : (fromLocalFrom t o l n).getLast? = some u) (hu' : (fromLocalFrom t o l n').getLast? = some u') :
    u < u' := by
  induction l generalizing p t o with
  | nil =>
    simp only [fromLocalFrom] at hu hu'
    split at hu <;> split at hu' <;> simp at hu hu' <;> omega
  | cons hd rest ih =>
    obtain ⟨t', o'⟩ := hd
    obtain ⟨h1, h2⟩ := sortedFrom_cons.mp hs
    obtain ⟨h3, h4⟩ := orderedFrom_cons.mp hp
    simp only [fromLocalFrom] at hu hu'
    by_cases hr : fromLocalFrom t' o' rest n = []
    · rw [hr, List.append_nil] at hu
      -- `u` is in the current span
      have hu1 : u = n - offNs o ∧ n - offNs o < t' := by
        split at hu
        · simp at hu; omega
        · cases hu
      by_cases hr' : fromLocalFrom t' o' rest n' = []
      · rw [hr', List.append_nil] at hu'
        split at hu'
        · simp at hu'; omega
        · cases hu'
      · rw [getLast?_append_of_ne_nil _ hr'] at hu'
        have := ((mem_fromLocalFrom h2 n' u').mp (List.mem_of_getLast? hu')).1
        omega
    · rw [getLast?_append_of_ne_nil _ hr] at hu
      by_cases hr' : fromLocalFrom t' o' rest n' = []
      · -- impossible: `n'` would be in the current span only while the earlier `n` is in a later one
        exfalso
        have hn : t' + offNs o' ≤ n := by
          apply Int.not_lt.mp
          intro hc
          exact hr (none_before h2 h4 hc)
        rw [hr', List.append_nil] at hu'
        have hn' : n' - offNs o < t' := by
          split at hu'
          · omega
          · cases hu'
        -- then `n'` lies in the next span (local span ends do not decrease)
        cases rest with
        | nil =>
          simp only [fromLocalFrom] at hr'
          rw [if_pos (by omega)] at hr'
          cases hr'
        | cons hd2 rest2 =>
          obtain ⟨t'', o''⟩ := hd2
          obtain ⟨h5, _⟩ := orderedFrom_cons.mp h4
          simp only [fromLocalFrom, List.append_eq_nil_iff] at hr'
          have hc : t' ≤ n' - offNs o' ∧ n' - offNs o' < t'' := by omega
          rw [if_pos hc] at hr'
          cases hr'.1
      · rw [getLast?_append_of_ne_nil _ hr'] at hu'
        exact ih h2 h4 hu hu'

/-- the transition of a gap found after `t` is after `t` -/
theorem gap_T_gt {t o : Int} {l : List (Int × Int)} (hs : sortedFrom t l = true) {n T a b : Int}
    (hg : gapOfFrom o l n = some (T, a, b)) : t < T := by
  induction l generalizing t o with
  | nil => cases hg
  | cons hd rest ih =>
    obtain ⟨t', o'⟩ := hd
    obtain ⟨h1, h2⟩ := sortedFrom_cons.mp hs
    simp only [gapOfFrom] at hg
    split at hg
    · cases hg; exact h1
    · have := ih h2 hg; omega

/-- from `t` on the clock never shows a time before `t + o` (local span starts do not decrease) -/
theorem naive_ge_start {p t o : Int} {l : List (Int × Int)} (hs : sortedFrom t l = true)
    (hp : orderedFrom p t o l = true) {u : Int} (hu : t ≤ u) :
    t + offNs o ≤ u + offNs (offsetFrom o l u) := by
  induction l generalizing p t o with
  | nil => simp only [offsetFrom]; omega
  | cons hd rest ih =>
    obtain ⟨t', o'⟩ := hd
    obtain ⟨h1, h2⟩ := sortedFrom_cons.mp hs
    obtain ⟨h3, h4⟩ := orderedFrom_cons.mp hp
    simp only [offsetFrom]
    split
    · omega
    · have := ih h2 h4 (by omega)
      omega

/-- from the forward jump `T` on the clock never shows a time before the landing time `b` -/
theorem gap_above_from {p t o : Int} {l : List (Int × Int)} (hs : sortedFrom t l = true)
    (hp : orderedFrom p t o l = true) {n T a b : Int} (hg : gapOfFrom o l n = some (T, a, b))
    {u : Int} (hu : T ≤ u) : b ≤ u + offNs (offsetFrom o l u) := by
  induction l generalizing p t o with
  | nil => cases hg
  | cons hd rest ih =>
    obtain ⟨t', o'⟩ := hd
    obtain ⟨h1, h2⟩ := sortedFrom_cons.mp hs
    obtain ⟨h3, h4⟩ := orderedFrom_cons.mp hp
    simp only [gapOfFrom] at hg
    simp only [offsetFrom]
    split at hg
    · cases hg
      rw [if_neg (by omega)]
      exact naive_ge_start h2 h4 hu
    · have hT := gap_T_gt h2 hg
      rw [if_neg (by omega)]
      exact ih h2 h4 hg

/-- the local time at which a gap starts is not before the local end of any earlier span -/
theorem gap_start_ge {p t o : Int} {l : List (Int × Int)} (hp : orderedFrom p t o l = true)
    {n T a b : Int} (hg : gapOfFrom o l n = some (T, a, b)) : t + offNs p ≤ a := by
  induction l generalizing p t o with
  | nil => cases hg
  | cons hd rest ih =>
    obtain ⟨t', o'⟩ := hd
    obtain ⟨h3, h4⟩ := orderedFrom_cons.mp hp
    simp only [gapOfFrom] at hg
    split at hg
    · cases hg; omega
    · have := ih h4 hg; omega

/-- before the forward jump `T` the clock only shows times before the start `a` of the gap
(local span ends do not decrease) -/
theorem gap_below_from {p t o : Int} {l : List (Int × Int)} (hs : sortedFrom t l = true)
    (hp : orderedFrom p t o l = true) {n T a b : Int} (hg : gapOfFrom o l n = some (T, a, b))
    {u : Int} (hu : u < T) : u + offNs (offsetFrom o l u) < a := by
  induction l generalizing p t o with
  | nil => cases hg
  | cons hd rest ih =>
    obtain ⟨t', o'⟩ := hd
    obtain ⟨h1, h2⟩ := sortedFrom_cons.mp hs
    obtain ⟨h3, h4⟩ := orderedFrom_cons.mp hp
    simp only [gapOfFrom] at hg
    simp only [offsetFrom]
    split at hg
    · cases hg
      rw [if_pos hu]
      omega
    · by_cases hut : u < t'
      · rw [if_pos hut]
        have := gap_start_ge h4 hg
        omega
      · rw [if_neg hut]
        exact ih h2 h4 hg

/-! ### the same facts for a zone -/

theorem lastLocalFrom_virt (z : Zone) (t0 : Int) (h : z.trans ≠ []) :
    lastLocalFrom t0 z.init z.trans = lastLocal z := by
  unfold lastLocal
  cases hz : z.trans with
  | nil => exact absurd hz h
  | cons hd rest => obtain ⟨t, o⟩ := hd; simp [lastLocalFrom]

theorem gapOf_eq (z : Zone) (n : Int) : gapOf z n = gapOfFrom z.init z.trans n := rfl

/-- **gap structure of a zone** (see `gap_structure`): sorted table with its local spans in order -/
theorem gap_of_none {z : Zone} (hs : sorted z = true) (hp : spansOrdered z = true) {n : Int}
    (he : latest? z n = none) :
    ∃ T a b, gapOf z n = some (T, a, b) ∧ a ≤ n ∧ n < b ∧ b ≤ lastLocal z ∧
      (∀ m, n ≤ m → m < b → latest? z m = none) ∧
      (∀ r, 0 ≤ r → r < nsPerMin → earliest? z (b + r) = some (T + r)) ∧
      (spaced z = true → ∀ r, 0 ≤ r → r < nsPerMin → fromLocal z (b + r) = [T + r]) := by
  unfold latest? at he
  rw [List.getLast?_eq_none_iff] at he
  have hne : z.trans ≠ [] := by
    intro hz
    unfold fromLocal at he
    rw [hz] at he
    cases he
  have hv := virt_le z n
  rw [fromLocal_eq_from z n _ hv] at he
  obtain ⟨T, a, b, g1, g2, g3, g4, g5, g6, g7⟩ :=
    gap_structure (virt_sorted z n hs) (virt_ordered z n hp) (by omega) he
  refine ⟨T, a, b, g1, g2, g3, ?_, ?_, ?_, ?_⟩
  · rw [lastLocalFrom_virt z _ hne] at g4; exact g4
  · intro m hm1 hm2
    unfold latest?
    rw [fromLocal_eq_from z m _ (virt_mono z hm1), g5 m hm1 hm2]
    rfl
  · intro r hr0 hr1
    have hle : n ≤ b + r := by omega
    unfold earliest?
    rw [fromLocal_eq_from z (b + r) _ (virt_mono z hle)]
    exact g6 r hr0 hr1
  · intro hsp r hr0 hr1
    have hle : n ≤ b + r := by omega
    rw [fromLocal_eq_from z (b + r) _ (virt_mono z hle)]
    exact g7 (virt_spaced z n hsp) r hr0 hr1

/-- from the forward jump `T` of a gap on, the clock never shows a time before the landing time -/
theorem gap_above {z : Zone} (hs : sorted z = true) (hp : spansOrdered z = true) {n T a b : Int}
    (hg : gapOf z n = some (T, a, b)) {u : Int} (hu : T ≤ u) : b ≤ naive z u := by
  unfold naive offsetAt
  exact gap_above_from (virt_sorted z n hs) (virt_ordered z n hp) (gapOf_eq z n ▸ hg) hu

/-- before the forward jump `T` of a gap the clock only shows times before the start of the gap -/
theorem gap_below {z : Zone} (hs : sorted z = true) (hp : spansOrdered z = true) {n T a b : Int}
    (hg : gapOf z n = some (T, a, b)) {u : Int} (hu : u < T) : naive z u < a := by
  unfold naive offsetAt
  exact gap_below_from (virt_sorted z n hs) (virt_ordered z n hp) (gapOf_eq z n ▸ hg) hu

/-- `latest()` is strictly increasing on existing local times -/
theorem latest_strictMono {z : Zone} (hs : sorted z = true) (hp : spansOrdered z = true) {n n' u u' : Int}
    (hlt : n < n') (hu : latest? z n = some u) (hu' : latest? z n' = some u') : u < u' := by
  unfold latest? at hu hu'
  rw [fromLocal_eq_from z n _ (virt_le z n)] at hu
  rw [fromLocal_eq_from z n' _ (virt_mono z (Int.le_of_lt hlt))] at hu'
  exact latestFrom_strictMono (virt_sorted z n hs) (virt_ordered z n hp) hlt hu hu'

theorem latest_mono {z : Zone} (hs : sorted z = true) (hp : spansOrdered z = true) {n n' u u' : Int}
    (hle : n ≤ n') (hu : latest? z n = some u) (hu' : latest? z n' = some u') : u ≤ u' := by
  by_cases h : n = n'
  · subst h; rw [hu] at hu'; cases hu'; omega
  · exact Int.le_of_lt (latest_strictMono hs hp (by omega) hu hu')

/-- the first instant of a local time is not after the last instant of a later (or the same) one -/
theorem earliest_le_latest {z : Zone} (hs : sorted z = true) (hp : spansOrdered z = true) {n n' u u' : Int}
    (hle : n ≤ n') (hu : earliest? z n = some u) (hu' : latest? z n' = some u') : u ≤ u' := by
  cases hl : latest? z n with
  | none => rw [(earliest?_eq_none_iff z n).mpr hl] at hu; cases hu
  | some v =>
    have h1 := (earliest_spec hs hu).2 v (latest_spec hs hl).1
    have h2 := latest_mono hs hp hle hl hu'
    omega

/-- a forward jump of an aligned table lands on a whole local minute -/
theorem gap_end_aligned {p : Int} {l : List (Int × Int)} {n T a b : Int}
    (hg : gapOfFrom p l n = some (T, a, b)) (ha : gapsAlignedFrom p l = true) : b % nsPerMin = 0 := by
  induction l generalizing p with
  | nil => cases hg
  | cons hd rest ih =>
    obtain ⟨t, o⟩ := hd
    simp only [gapOfFrom] at hg
    simp only [gapsAlignedFrom, Bool.and_eq_true, Bool.or_eq_true, decide_eq_true_eq] at ha
    split at hg
    · rename_i hc
      cases hg
      rcases ha.1 with h | h
      · simp only [offNs] at hc; omega
      · exact h
    · exact ih hg ha.2

theorem emod_min_nonneg (x : Int) : 0 ≤ x % nsPerMin := Int.emod_nonneg _ (by simp [nsPerMin])
theorem emod_min_lt (x : Int) : x % nsPerMin < nsPerMin := Int.emod_lt_of_pos _ (by simp [nsPerMin])
theorem emod_sec_nonneg (x : Int) : 0 ≤ x % nsPerSec := Int.emod_nonneg _ (by simp [nsPerSec])
theorem emod_sec_lt (x : Int) : x % nsPerSec < nsPerSec := Int.emod_lt_of_pos _ (by simp [nsPerSec])

/-- the walk back after a gap `[.., b)` landing at `T`: from `b + x` it stops at the first second of
the phase of `x`, `b + x mod 1 s` -/
theorem walkBack_gap {z : Zone} {req T b : Int} (hreq : instMin ≤ req)
    (hvalid : ∀ r, 0 ≤ r → r < nsPerMin → earliest? z (b + r) = some (T + r))
    (hinv : ∀ m, req ≤ m → m < b → latest? z m = none) (hlt : req < b)
    {x : Int} (hx0 : 0 ≤ x) (hx1 : x < nsPerMin) (hph : (b + x - req) % nsPerSec = 0) :
    walkBack z req (b + x) (T + x) = .ok (T + x % nsPerSec) := by
  obtain ⟨m', u', h1, h2, h3, h4, h5, h6, h7⟩ := walkBack_spec hreq (b + x) (T + x) hph (hvalid x hx0 hx1)
  have hge : b ≤ m' := by
    apply Int.not_lt.mp
    intro hc
    have hreq' : req ≤ m' := by
      rcases h4 with h | h
      · omega
      · exact h
    rw [(earliest?_eq_none_iff z m').mpr (hinv m' hreq' hc)] at h2; cases h2
  have hlt' : m' < b + nsPerSec := by
    apply Int.not_le.mp
    intro hc
    have hn := h7 (by omega)
    have hv := hvalid (m' - nsPerSec - b) (by omega) (by simp only [nsPerSec, nsPerMin] at *; omega)
    have e : b + (m' - nsPerSec - b) = m' - nsPerSec := by omega
    rw [e, hn] at hv; cases hv
  have hm : m' = b + x % nsPerSec := by simp only [nsPerSec, nsPerMin] at *; omega
  have hv := hvalid (x % nsPerSec) (emod_sec_nonneg x) (by have := emod_sec_lt x; simp only [nsPerSec, nsPerMin] at *; omega)
  rw [← hm, h2] at hv
  cases hv
  exact h1

/-- **the loop in a gap**: the minute loop lands on `b + r`, `r = (n - b) mod 1 min`, takes the
EARLIEST instant `T + r` of it, and the walk back returns the instant `T + (n - b) mod 1 s`: `T` is
the forward jump that skips `n`, `b` the local time it lands on.  Sorted table with its local spans
in order; a fold may follow the gap directly. -/
theorem datetime_gap_core {z : Zone} (hs : sorted z = true) (hp : spansOrdered z = true) {n : Int}
    (he : latest? z n = none) (hmax : lastLocal z + nsPerMin ≤ instMax) (hmin : instMin ≤ n) :
    ∃ T a b, gapOf z n = some (T, a, b) ∧ a ≤ n ∧ n < b ∧
      (∀ m, n ≤ m → m < b → latest? z m = none) ∧
      (∀ r, 0 ≤ r → r < nsPerMin → earliest? z (b + r) = some (T + r)) ∧
      (spaced z = true → ∀ r, 0 ≤ r → r < nsPerMin → fromLocal z (b + r) = [T + r]) ∧
      datetime z n = .ok (T + (n - b) % nsPerSec) := by
  obtain ⟨T, a, b, g1, g2, g3, g4, g5, g6, g7⟩ := gap_of_none hs hp he
  have hr0 := emod_min_nonneg (n - b)
  have hr1 := emod_min_lt (n - b)
  have hl := g6 _ hr0 hr1
  refine ⟨T, a, b, g1, g2, g3, g5, g6, g7, ?_⟩
  -- number of steps
  have hk : ∃ k : Nat, n + k * nsPerMin = b + (n - b) % nsPerMin := by
    refine ⟨((b + (n - b) % nsPerMin - n) / nsPerMin).toNat, ?_⟩
    rw [Int.toNat_of_nonneg]
    · simp only [nsPerMin] at *; omega
    · simp only [nsPerMin] at *; omega
  obtain ⟨k, hk⟩ := hk
  have hloop : minuteLoop z n n = .ok (b + (n - b) % nsPerMin, T + (n - b) % nsPerMin) := by
    rw [← hk]
    apply minuteLoop_steps k n
    · intro j hj
      apply g5
      · have : (0 : Int) ≤ j * nsPerMin := Int.mul_nonneg (Int.natCast_nonneg j) (by simp [nsPerMin])
        omega
      · simp only [nsPerMin] at *; omega
    · rw [hk, found?_of_ne (by omega)]; exact hl
    · rw [hk]; omega
  unfold datetime
  rw [hloop]
  simp only
  rw [walkBack_gap hmin g6 g5 g3 hr0 hr1 (by simp only [nsPerSec, nsPerMin] at *; omega)]
  congr 2
  simp only [nsPerSec, nsPerMin] at *
  omega

/-! ### induction along the loop, panic freedom, monotonicity -/

theorem latest_some_of_ge (z : Zone) {n : Int} (h : lastLocal z ≤ n) : ∃ u, latest? z n = some u := by
  cases hl : latest? z n with
  | some u => exact ⟨u, rfl⟩
  | none =>
    unfold latest? at hl
    have := fromLocal_eq_nil_lt z n (List.getLast?_eq_none_iff.mp hl)
    omega

/-- induction principle of the `datetime` loop -/
theorem datetime_induct (z : Zone) (P : Int → Prop)
    (h1 : ∀ n u, latest? z n = some u → P n)
    (h2 : ∀ n, latest? z n = none → n < lastLocal z → P (n + nsPerMin) → P n) : ∀ n, P n := by
  have key : ∀ (k : Nat) (n : Int), (lastLocal z - n).toNat ≤ k → P n := by
    intro k
    induction k with
    | zero =>
      intro n hk
      obtain ⟨u, hu⟩ := latest_some_of_ge z (n := n) (by omega)
      exact h1 n u hu
    | succ k ih =>
      intro n hk
      cases hl : latest? z n with
      | some u => exact h1 n u hl
      | none =>
        have hlt : n < lastLocal z := by
          apply Int.not_le.mp
          intro hc
          obtain ⟨u, hu⟩ := latest_some_of_ge z hc
          rw [hl] at hu; cases hu
        apply h2 n hl hlt
        apply ih
        simp only [nsPerMin]
        omega
  intro n
  exact key _ n (Nat.le_refl _)

/-- an existing local time has something for `found?` to pick -/
theorem found?_some_of_latest {z : Zone} {n u : Int} (req : Int) (h : latest? z n = some u) :
    ∃ v, found? z req n = some v := by
  cases hf : found? z req n with
  | some v => exact ⟨v, rfl⟩
  | none =>
    unfold found? at hf
    split at hf
    · rw [h] at hf; cases hf
    · rw [(earliest?_eq_none_iff z n).mp hf] at h; cases h

/-- what the minute loop returns -/
theorem minuteLoop_spec {z : Zone} (hmax : lastLocal z + nsPerMin ≤ instMax) (req : Int) :
    ∀ n, n ≤ instMax → ∃ m u, minuteLoop z req n = .ok (m, u) ∧ found? z req m = some u ∧ n ≤ m ∧
      (m - n) % nsPerMin = 0 ∧ (m = n ∨ (latest? z n = none ∧ m < lastLocal z + nsPerMin)) := by
  apply datetime_induct z (fun n => n ≤ instMax → ∃ m u, minuteLoop z req n = .ok (m, u) ∧ found? z req m = some u ∧
      n ≤ m ∧ (m - n) % nsPerMin = 0 ∧ (m = n ∨ (latest? z n = none ∧ m < lastLocal z + nsPerMin)))
  · intro n u hu _
    obtain ⟨v, hv⟩ := found?_some_of_latest req hu
    exact ⟨n, v, minuteLoop_of_some hv, hv, by omega, by simp, Or.inl rfl⟩
  · intro n hn hlt ih _
    rw [minuteLoop_of_none hn, if_neg (by omega)]
    obtain ⟨m, u, h1, h2, h3, h4, h5⟩ := ih (by omega)
    refine ⟨m, u, h1, h2, by simp only [nsPerMin] at *; omega, by simp only [nsPerMin] at *; omega, Or.inr ⟨hn, ?_⟩⟩
    rcases h5 with h | h
    · omega
    · exact h.2

/-- what `datetime` returns, in general: an instant of an existing local time `m'` that is `n`
itself or lies after the non-existent `n`, below `lastLocal z + 1 min`.  In particular neither
`expect("no valid datetime for time zone")` nor the subtraction of the walk back panics for a
representable `n` when the table ends a minute before `NaiveDateTime::MAX`. -/
theorem datetime_spec {z : Zone} (hmax : lastLocal z + nsPerMin ≤ instMax) {n : Int}
    (hmin : instMin ≤ n) (hle : n ≤ instMax) :
    ∃ m' u, datetime z n = .ok u ∧ u ∈ fromLocal z m' ∧
      (m' = n ∨ (latest? z n = none ∧ n < m' ∧ m' < lastLocal z + nsPerMin)) := by
  obtain ⟨m, u0, h1, h2, h3, h4, h5⟩ := minuteLoop_spec hmax n n hle
  unfold datetime
  rw [h1]
  simp only
  by_cases hmn : m = n
  · subst hmn
    exact ⟨m, u0, walkBack_self z m u0, found?_mem h2, Or.inl rfl⟩
  · rw [found?_of_ne hmn] at h2
    obtain ⟨m', u', w1, w2, w3, w4, _, _, _⟩ :=
      walkBack_spec hmin m u0 (by simp only [nsPerSec, nsPerMin] at *; omega) h2
    refine ⟨m', u', w1, List.mem_of_head? w2, ?_⟩
    rcases h5 with h | h
    · exact absurd h hmn
    · by_cases hmn' : m' = n
      · exact Or.inl hmn'
      · right
        refine ⟨h.1, ?_, by omega⟩
        rcases w4 with e | e
        · omega
        · omega

theorem datetime_no_panic {z : Zone} (hmax : lastLocal z + nsPerMin ≤ instMax) :
    ∀ n, instMin ≤ n → n ≤ instMax → ∃ u, datetime z n = .ok u := by
  intro n h1 h2
  obtain ⟨_, u, h, _⟩ := datetime_spec hmax h1 h2
  exact ⟨u, h⟩

/-- the local reading of the result is `n` itself or a later time below `lastLocal z + 1 min` -/
theorem datetime_naive_bound {z : Zone} (hs : sorted z = true) (hmax : lastLocal z + nsPerMin ≤ instMax)
    {n u : Int} (hmin : instMin ≤ n) (hle : n ≤ instMax) (h : datetime z n = .ok u) :
      naive z u = n ∨ (n < naive z u ∧ naive z u < lastLocal z + nsPerMin) := by
  obtain ⟨m', u', h1, h2, h3⟩ := datetime_spec hmax hmin hle
  have := (mem_fromLocal hs m' u').mp h2
  rw [h1] at h
  cases h
  rcases h3 with e | e
  · left; omega
  · right; omega

/-- what `datetime` returns: the latest instant of `n` when `n` exists, otherwise the instant
`T + (n - b) mod 1 s` just after the forward jump `T` that skips `n` -/
theorem datetime_cases {z : Zone} (hs : sorted z = true) (hp : spansOrdered z = true)
    (hmax : lastLocal z + nsPerMin ≤ instMax) {n : Int} (hmin : instMin ≤ n) :
    (∃ u, latest? z n = some u ∧ datetime z n = .ok u) ∨
    (latest? z n = none ∧ ∃ T a b, gapOf z n = some (T, a, b) ∧ a ≤ n ∧ n < b ∧
      (∀ m, n ≤ m → m < b → latest? z m = none) ∧
      (∀ r, 0 ≤ r → r < nsPerMin → earliest? z (b + r) = some (T + r)) ∧
      datetime z n = .ok (T + (n - b) % nsPerSec)) := by
  cases hl : latest? z n with
  | some u => exact Or.inl ⟨u, rfl, datetime_of_some hl⟩
  | none =>
    obtain ⟨T, a, b, g1, g2, g3, g4, g5, _, g7⟩ := datetime_gap_core hs hp hl hmax hmin
    exact Or.inr ⟨rfl, T, a, b, g1, g2, g3, g4, g5, g7⟩

/-- a forward jump of a whole-second table lands on a whole second -/
theorem gap_end_seconds {p : Int} {l : List (Int × Int)} {n T a b : Int}
    (hg : gapOfFrom p l n = some (T, a, b)) (ha : ∀ q ∈ l, q.1 % nsPerSec = 0) : b % nsPerSec = 0 := by
  induction l generalizing p with
  | nil => cases hg
  | cons hd rest ih =>
    obtain ⟨t, o⟩ := hd
    simp only [gapOfFrom] at hg
    have ht := ha (t, o) List.mem_cons_self
    split at hg
    · cases hg
      simp only [offNs, nsPerSec] at *
      omega
    · exact ih hg (fun q hq => ha q (List.mem_cons_of_mem _ hq))

theorem secLt : nsPerSec < nsPerMin := by simp [nsPerSec, nsPerMin]

/-- the result for a skipped local time is not before any instant that shows an earlier-or-equal
time … -/
theorem valid_le_gap {z : Zone} (hs : sorted z = true) (hp : spansOrdered z = true) {m n T a b v : Int}
    (hg : gapOf z n = some (T, a, b)) (hb : n < b) (hmn : m ≤ n) (hv : naive z v = m) : v < T := by
  apply Int.not_le.mp
  intro hc
  have := gap_above hs hp hg hc
  omega

/-- … and not after any instant that shows a time at/after the skipped one -/
theorem gap_le_valid {z : Zone} (hs : sorted z = true) (hp : spansOrdered z = true) {m n T a b v : Int}
    (hg : gapOf z n = some (T, a, b)) (ha : a ≤ n) (hmn : n ≤ m) (hv : naive z v = m) : T ≤ v := by
  apply Int.not_lt.mp
  intro hc
  have := gap_below hs hp hg hc
  omega

/-- monotonicity, first form: `a` exists, or is a whole second in a whole-second table -/
theorem datetime_mono_aligned {z : Zone} (hs : sorted z = true) (hp : spansOrdered z = true)
    (hal : secondsAligned z = true) (hmax : lastLocal z + nsPerMin ≤ instMax) {a b ua ub : Int}
    (hmin : instMin ≤ a) (hab : a ≤ b) (ha : a % nsPerSec = 0 ∨ latest? z a ≠ none)
    (hua : datetime z a = .ok ua) (hub : datetime z b = .ok ub) : ua ≤ ub := by
  have hminb : instMin ≤ b := by omega
  have sl := secLt
  rcases datetime_cases hs hp hmax hmin with ⟨u, hla, hda⟩ | ⟨hla, T, a', b', g1, g2, g3, g4, g5, g6⟩
  · rw [hda] at hua; cases hua
    rcases datetime_cases hs hp hmax hminb with ⟨u', hlb, hdb⟩ | ⟨hlb, T2, a2, b2, k1, k2, k3, k4, k5, k6⟩
    · rw [hdb] at hub; cases hub
      exact latest_mono hs hp hab hla hlb
    · rw [k6] at hub; cases hub
      have h0 := emod_sec_nonneg (b - b2)
      have := valid_le_gap hs hp k1 k3 hab (latest_spec hs hla).1
      omega
  · rw [g6] at hua; cases hua
    have haa : a % nsPerSec = 0 := by
      rcases ha with h | h
      · exact h
      · exact absurd hla h
    have hb' : b' % nsPerSec = 0 := by
      apply gap_end_seconds (gapOf_eq z a ▸ g1)
      unfold secondsAligned at hal
      simp only [List.all_eq_true, decide_eq_true_eq] at hal
      exact hal
    have hr : (a - b') % nsPerSec = 0 := by simp only [nsPerSec] at *; omega
    rw [hr, Int.add_zero]
    rcases datetime_cases hs hp hmax hminb with ⟨u', hlb, hdb⟩ | ⟨hlb, T2, a2, b2, k1, k2, k3, k4, k5, k6⟩
    · rw [hdb] at hub; cases hub
      exact gap_le_valid hs hp g1 g2 hab (latest_spec hs hlb).1
    · rw [k6] at hub; cases hub
      have h0 := emod_sec_nonneg (b - b2)
      have h1 := emod_sec_lt (b - b2)
      have k50 := k5 _ h0 (by omega)
      exact gap_le_valid hs hp g1 g2 (m := b2 + (b - b2) % nsPerSec) (by omega) (earliest_spec hs k50).1

/-- monotonicity, second form: `a` and `b` have the same phase within the second (any table) -/
theorem datetime_mono_congr {z : Zone} (hs : sorted z = true) (hp : spansOrdered z = true)
    (hmax : lastLocal z + nsPerMin ≤ instMax) {a b ua ub : Int} (hmin : instMin ≤ a)
    (hab : a ≤ b) (hc : (b - a) % nsPerSec = 0)
    (hua : datetime z a = .ok ua) (hub : datetime z b = .ok ub) : ua ≤ ub := by
  have hminb : instMin ≤ b := by omega
  have sl := secLt
  rcases datetime_cases hs hp hmax hmin with ⟨u, hla, hda⟩ | ⟨hla, T, a', b', g1, g2, g3, g4, g5, g6⟩
  · rw [hda] at hua; cases hua
    rcases datetime_cases hs hp hmax hminb with ⟨u', hlb, hdb⟩ | ⟨hlb, T2, a2, b2, k1, k2, k3, k4, k5, k6⟩
    · rw [hdb] at hub; cases hub
      exact latest_mono hs hp hab hla hlb
    · rw [k6] at hub; cases hub
      have h0 := emod_sec_nonneg (b - b2)
      have := valid_le_gap hs hp k1 k3 hab (latest_spec hs hla).1
      omega
  · rw [g6] at hua; cases hua
    have h1 := emod_sec_nonneg (a - b')
    have h2 := emod_sec_lt (a - b')
    have g5a := g5 _ h1 (by omega)
    by_cases hbb : b < b'
    · -- `b` is skipped by the same jump: same landing time, same phase, same result
      have hlb : latest? z b = none := g4 b hab hbb
      obtain ⟨T2, a2, b2, k1, k2, k3, k4, k5, _, k6⟩ := datetime_gap_core hs hp hlb hmax hminb
      rw [k6] at hub; cases hub
      have h3 := emod_sec_nonneg (b - b2)
      have h4 := emod_sec_lt (b - b2)
      have e1 : b2 ≤ b' := by
        apply Int.not_lt.mp
        intro hc'
        have hv := g5 0 (by omega) (by simp [nsPerMin])
        rw [(earliest?_eq_none_iff z _).mpr (k4 (b' + 0) (by omega) (by omega))] at hv; cases hv
      have e2 : b' ≤ b2 := by
        apply Int.not_lt.mp
        intro hc'
        have hv := k5 0 (by omega) (by simp [nsPerMin])
        rw [(earliest?_eq_none_iff z _).mpr (g4 (b2 + 0) (by omega) (by omega))] at hv; cases hv
      have e3 : b2 = b' := by omega
      subst e3
      have e4 : (b - b2) % nsPerSec = (a - b2) % nsPerSec := by
        simp only [nsPerSec] at *; omega
      have k5b := k5 _ h3 (by omega)
      rw [e4] at k5b ⊢
      rw [g5a] at k5b
      have := Option.some.inj k5b
      omega
    · -- `b` is at/after the landing time, hence at/after the second of `a`'s phase that lands
      have hstep : b' + (a - b') % nsPerSec ≤ b := by simp only [nsPerSec] at *; omega
      rcases datetime_cases hs hp hmax hminb with ⟨u', hlb, hdb⟩ | ⟨hlb, T2, a2, b2, k1, k2, k3, k4, k5, k6⟩
      · rw [hdb] at hub; cases hub
        exact earliest_le_latest hs hp hstep g5a hlb
      · rw [k6] at hub; cases hub
        have h0 := emod_sec_nonneg (b - b2)
        have h3 := emod_sec_lt (b - b2)
        have k5b := k5 _ h0 (by omega)
        -- the instant returned for `b` is at/after `T` and shows a time after `b' + phase`: it cannot
        -- lie in the first second after `T`, where the clock shows `b' + x`
        have hT : T ≤ T2 + (b - b2) % nsPerSec :=
          gap_le_valid hs hp g1 g2 (m := b2 + (b - b2) % nsPerSec) (by omega) (earliest_spec hs k5b).1
        apply Int.not_lt.mp
        intro hcon
        have hx0 : 0 ≤ T2 + (b - b2) % nsPerSec - T := by omega
        have hx1 : T2 + (b - b2) % nsPerSec - T < nsPerMin := by omega
        have hv := (earliest_spec hs (g5 _ hx0 hx1)).1
        have e : T + (T2 + (b - b2) % nsPerSec - T) = T2 + (b - b2) % nsPerSec := by omega
        rw [e, (earliest_spec hs k5b).1] at hv
        omega

/-! ### the iterator's bounds and the localized API -/

theorem mkInstant_aligned (d : Int) (m : Nat) : mkInstant d m % nsPerMin = 0 := by
  simp only [mkInstant, nsPerDay, nsPerMin]; omega

theorem instEnd_aligned : instEnd % nsPerMin = 0 := mkInstant_aligned _ _

theorem min_aligned (a b : Int) (hb : b % nsPerMin = 0) : min a b % nsPerMin = 0 ∨ min a b = a := by
  simp only [nsPerMin] at *; omega

theorem itNext_class {env : Env} {stop : Int} {st st' : ItState} {iv : Interval}
    (h : itNext env stop st = .ok (some (iv, st'))) :
    iv.start % nsPerMin = 0 ∧ (iv.stop % nsPerMin = 0 ∨ iv.stop = stop) := by
  unfold itNext at h
  cases hs : st.sched with
  | nil => rw [hs] at h; cases h
  | cons tr rest =>
    rw [hs] at h
    simp only at h
    cases hc : clockMinute tr.s with
    | error p => rw [hc] at h; cases h
    | ok sm =>
      rw [hc] at h
      simp only at h
      cases hcons : consume env (instDay stop) st.date tr.kind st with
      | error p => rw [hcons] at h; cases h
      | ok st2 =>
        rw [hcons] at h
        simp only at h
        split at h
        · cases h
        · rename_i em hem
          have hA := mkInstant_aligned st.date sm
          have hB := min_aligned stop _ (mkInstant_aligned st2.date em)
          cases hb : env.bound with
          | none =>
            rw [hb] at h
            simp only [Except.ok.injEq, Option.some.injEq, Prod.mk.injEq] at h
            obtain ⟨h, _⟩ := h
            subst h
            exact ⟨hA, hB⟩
          | some b =>
            rw [hb] at h
            simp only at h
            split at h
            · simp only [Except.ok.injEq, Option.some.injEq, Prod.mk.injEq] at h
              obtain ⟨h, _⟩ := h
              subst h
              exact ⟨hA, Or.inl instEnd_aligned⟩
            · simp only [Except.ok.injEq, Option.some.injEq, Prod.mk.injEq] at h
              obtain ⟨h, _⟩ := h
              subst h
              exact ⟨hA, hB⟩

def BoundClass (frm to : Int) (x : Interval) : Prop :=
  (x.start % nsPerMin = 0 ∨ x.start = frm) ∧ (x.stop % nsPerMin = 0 ∨ x.stop = to) ∧ frm ≤ x.start

theorem clip_class {frm to : Int} {iv : Interval}
    (h : iv.start % nsPerMin = 0 ∧ (iv.stop % nsPerMin = 0 ∨ iv.stop = to)) :
    BoundClass frm to ⟨max iv.start frm, min iv.stop to, iv.kind, iv.comments⟩ := by
  unfold BoundClass
  simp only [nsPerMin] at *
  omega

theorem collect_class {env : Env} {frm to : Int} {st : ItState} {acc l : List Interval}
    (hacc : ∀ x ∈ acc, BoundClass frm to x) (h : collect env frm to st acc = .ok l) :
    ∀ x ∈ l, BoundClass frm to x := by
  fun_induction collect env frm to st acc generalizing l with
  | case1 st acc p hn => cases h
  | case2 st acc hn =>
    cases h
    intro x hx
    exact hacc x (List.mem_reverse.mp hx)
  | case3 st acc iv st' hn hge =>
    cases h
    intro x hx
    exact hacc x (List.mem_reverse.mp hx)
  | case4 st acc iv st' hn hge hm ih =>
    apply ih _ h
    intro x hx
    rcases List.mem_cons.mp hx with hx | hx
    · subst hx
      exact clip_class (itNext_class hn)
    · exact hacc x hx
  | case5 st acc iv st' hn hge hm => cases h

theorem clamp_idem (x : Int) : min instEnd (min instEnd x) = min instEnd x := by omega

theorem iterRangeG_class {env : Env} {frm to : Int} {l : List Interval}
    (h : iterRangeG env frm to = .ok l) :
    ∀ x ∈ l, BoundClass (min instEnd frm) (min instEnd to) x := by
  unfold iterRangeG at h
  simp only at h
  split at h
  · cases h
  · exact collect_class (by intro x hx; cases hx) h

theorem iterRangeG_clamp (env : Env) (frm to : Int) :
    iterRangeG env (min instEnd frm) (min instEnd to) = iterRangeG env frm to := by
  unfold iterRangeG
  simp only [clamp_idem]

theorem firstIntervalG_clamp (env : Env) (frm to : Int) :
    firstIntervalG env (min instEnd frm) (min instEnd to) = firstIntervalG env frm to := by
  unfold firstIntervalG
  simp only [clamp_idem]

/-- an empty window (`from ≥ to` after clamping) yields no interval -/
theorem firstIntervalG_empty {env : Env} {frm to : Int} (hge : min instEnd frm ≥ min instEnd to)
    {r : Option Interval} (h : firstIntervalG env frm to = .ok r) : r = none := by
  unfold firstIntervalG at h
  simp only at h
  unfold itNew at h
  simp only at h
  split at h
  · cases h
  · rename_i st hst
    split at hst
    · cases hst
    · simp only [hge, if_true, List.dropWhile_nil, Except.ok.injEq] at hst
      subst hst
      simp only [itNext] at h
      cases h
      rfl

/-- the first interval, when there is one: bounds are clipped to the (clamped) window -/
theorem firstIntervalG_bounds {env : Env} {frm to : Int} {iv : Interval}
    (h : firstIntervalG env frm to = .ok (some iv)) :
    BoundClass (min instEnd frm) (min instEnd to) iv ∧ min instEnd frm ≤ iv.start ∧
      iv.start < min instEnd to ∧ iv.stop ≤ min instEnd to := by
  have hwin : min instEnd frm < min instEnd to := by
    apply Int.not_le.mp
    intro hc
    cases firstIntervalG_empty hc h
  unfold firstIntervalG at h
  simp only at h
  split at h
  · cases h
  · split at h
    · cases h
    · cases h
    · rename_i iv0 st' hn
      split at h
      · cases h
      · rename_i hlt
        simp only [Except.ok.injEq, Option.some.injEq] at h
        subst h
        refine ⟨clip_class (itNext_class hn), ?_, ?_, ?_⟩ <;> simp only <;> omega


theorem instEnd_le_instMax : instEnd ≤ instMax := by decide
theorem instMin_le_instEnd : instMin ≤ instEnd := by decide

theorem naiveChecked_ok {z : Zone} {u : Int} (h1 : instMin ≤ naive z u) (h2 : naive z u ≤ instMax) :
    naiveChecked z u = .ok (naive z u) := by
  unfold naiveChecked
  simp only
  rw [if_neg (by omega)]

theorem naiveChecked_eq {z : Zone} {u n : Int} (h : naiveChecked z u = .ok n) : n = naive z u := by
  unfold naiveChecked at h
  simp only at h
  split at h
  · cases h
  · cases h; rfl

/-- no transition in `(u, u + d]`: same offset at both ends -/
theorem offsetFrom_add {o : Int} {l : List (Int × Int)} {u d : Int} (hd : 0 ≤ d)
    (h : ∀ p ∈ l, ¬ (u < p.1 ∧ p.1 ≤ u + d)) : offsetFrom o l (u + d) = offsetFrom o l u := by
  induction l generalizing o with
  | nil => rfl
  | cons hd' rest ih =>
    obtain ⟨t', o'⟩ := hd'
    simp only [offsetFrom]
    have h0 := h (t', o') List.mem_cons_self
    simp only at h0
    by_cases hu : u < t'
    · rw [if_pos hu, if_pos (by omega)]
    · rw [if_neg hu, if_neg (by omega)]
      exact ih (fun p hp => h p (List.mem_cons_of_mem _ hp))

theorem naive_add {z : Zone} {u d : Int} (hd : 0 ≤ d)
    (h : ∀ p ∈ z.trans, ¬ (u < p.1 ∧ p.1 ≤ u + d)) : naive z (u + d) = naive z u + d := by
  unfold naive offsetAt
  rw [offsetFrom_add hd h]
  omega

theorem mapInterval_ok {z : Zone} (hmax : lastLocal z + nsPerMin ≤ instMax) {iv : Interval}
    (l1 : instMin ≤ iv.start) (l2 : instMin ≤ iv.stop)
    (h1 : iv.start ≤ instMax) (h2 : iv.stop ≤ instMax) :
    ∃ s t, datetime z iv.start = .ok s ∧ datetime z iv.stop = .ok t ∧
      mapInterval z iv = .ok ⟨s, t, iv.kind, iv.comments⟩ := by
  obtain ⟨s, hs⟩ := datetime_no_panic hmax iv.start l1 h1
  obtain ⟨t, ht⟩ := datetime_no_panic hmax iv.stop l2 h2
  refine ⟨s, t, hs, ht, ?_⟩
  unfold mapInterval
  rw [hs, ht]

theorem mapInterval_spec {z : Zone} {iv x : Interval} (h : mapInterval z iv = .ok x) :
    datetime z iv.start = .ok x.start ∧ datetime z iv.stop = .ok x.stop ∧
      x.kind = iv.kind ∧ x.comments = iv.comments := by
  unfold mapInterval at h
  split at h
  · cases h
  · split at h
    · cases h
    · cases h
      rename_i h1 _ _ h2
      exact ⟨h1, h2, rfl, rfl⟩

/-- `stateTz` is the NoLocation `state` at the wall-clock time (repaired `state`, /repo b0d5731) -/
theorem stateTzG_eq {env : Env} {z : Zone} {t : Int} (hlo : instMin ≤ naive z t) (hhi : naive z t ≤ instMax) :
    stateTzG env z t = stateG env (naive z t) := by
  unfold stateTzG
  rw [naiveChecked_ok hlo hhi]

/-- what `next_change` computes before its final test, in terms of the naive first interval -/
theorem nextChangeTzG_unfold {env : Env} {z : Zone} {t : Int} (hs : sorted z = true)
    (hend : lastLocal z + nsPerMin ≤ instEnd) (hlo : instMin ≤ naive z t) (hhi : naive z t ≤ instMax) :
    ∃ E, datetime z instEnd = .ok E ∧ naive z E = instEnd ∧
      nextChangeTzG env z t =
        match firstIntervalG env (naive z t) instEnd with
        | .error p => .error p
        | .ok none => .ok none
        | .ok (some iv) =>
          match mapInterval z iv with
          | .error p => .error p
          | .ok x =>
            match naiveChecked z x.stop with
            | .error p => .error p
            | .ok ne => if ne ≥ instEnd then .ok none else .ok (some x.stop) := by
  have hp : (0:Int) < nsPerMin := by simp [nsPerMin]
  obtain ⟨E, hE⟩ := latest_some_of_ge z (n := instEnd) (by omega)
  have hnE := (latest_spec hs hE).1
  refine ⟨E, datetime_of_some hE, hnE, ?_⟩
  unfold nextChangeTzG
  rw [datetime_of_some hE]
  simp only
  unfold firstIntervalTzG
  have h1 := instEnd_le_instMax
  have h2 := instMin_le_instEnd
  rw [naiveChecked_ok hlo hhi, naiveChecked_ok (by omega) (by omega), hnE]
  simp only [firstIntervalG_clamp]
  cases firstIntervalG env (naive z t) instEnd with
  | error p => rfl
  | ok r =>
    cases r with
    | none => rfl
    | some iv =>
      simp only
      cases mapInterval z iv with
      | error p => rfl
      | ok x => rfl

theorem nextChangeTzG_error {env : Env} {z : Zone} {t : Int} {p : String} (hs : sorted z = true)
    (hend : lastLocal z + nsPerMin ≤ instEnd) (hlo : instMin ≤ naive z t) (hhi : naive z t ≤ instMax)
    (h : nextChangeG env (naive z t) = .error p) : nextChangeTzG env z t = .error p := by
  obtain ⟨E, _, _, hu⟩ := nextChangeTzG_unfold (env := env) hs hend hlo hhi
  rw [hu]
  unfold nextChangeG at h
  cases hf : firstIntervalG env (naive z t) instEnd with
  | error q => rw [hf] at h; simp only at h ⊢; exact h
  | ok r =>
    rw [hf] at h
    cases r with
    | none => cases h
    | some iv => simp only at h; split at h <;> cases h

theorem nextChangeTzG_none {env : Env} {z : Zone} {t : Int} (hs : sorted z = true)
    (hend : lastLocal z + nsPerMin ≤ instEnd) (hlo : instMin ≤ naive z t) (hhi : naive z t ≤ instMax)
    (h : nextChangeG env (naive z t) = .ok none) : nextChangeTzG env z t = .ok none := by
  obtain ⟨E, hE, hnE, hu⟩ := nextChangeTzG_unfold (env := env) hs hend hlo hhi
  rw [hu]
  have h1 := instEnd_le_instMax
  have h2 := instMin_le_instEnd
  unfold nextChangeG at h
  cases hf : firstIntervalG env (naive z t) instEnd with
  | error q => rw [hf] at h; cases h
  | ok r =>
    rw [hf] at h
    cases r with
    | none => rfl
    | some iv =>
      simp only at h ⊢
      obtain ⟨_, b1, b2, b3⟩ := firstIntervalG_bounds hf
      have hstop : iv.stop = instEnd := by
        split at h
        · omega
        · cases h
      have hfl : instMin ≤ min instEnd (naive z t) := by omega
      obtain ⟨s, u, _, hu2, hm⟩ := mapInterval_ok (z := z) (by omega) (iv := iv) (by omega) (by omega) (by omega) (by omega)
      rw [hm]
      simp only
      rw [hstop, hE] at hu2
      cases hu2
      rw [naiveChecked_ok (by omega) (by omega), hnE]
      simp

theorem nextChangeTzG_some {env : Env} {z : Zone} {t c : Int} (hs : sorted z = true)
    (hend : lastLocal z + nsPerMin ≤ instEnd) (hlo : instMin ≤ naive z t) (hhi : naive z t ≤ instMax)
    (h : nextChangeG env (naive z t) = .ok (some c)) (hc : instMin ≤ c) :
    ∃ u, datetime z c = .ok u ∧ nextChangeTzG env z t = .ok (some u) := by
  obtain ⟨E, hE, hnE, hu⟩ := nextChangeTzG_unfold (env := env) hs hend hlo hhi
  rw [hu]
  have h1 := instEnd_le_instMax
  have hp : (0:Int) < nsPerMin := by simp [nsPerMin]
  unfold nextChangeG at h
  cases hf : firstIntervalG env (naive z t) instEnd with
  | error q => rw [hf] at h; cases h
  | ok r =>
    rw [hf] at h
    cases r with
    | none => cases h
    | some iv =>
      simp only at h ⊢
      obtain ⟨_, b1, b2, b3⟩ := firstIntervalG_bounds hf
      have hstop : iv.stop = c ∧ c < instEnd := by
        split at h
        · cases h
        · cases h; omega
      have h2 := instMin_le_instEnd
      have hfl : instMin ≤ min instEnd (naive z t) := by omega
      obtain ⟨s, u, _, hu2, hm⟩ := mapInterval_ok (z := z) (by omega) (iv := iv) (by omega) (by omega) (by omega) (by omega)
      rw [hstop.1] at hu2
      refine ⟨u, hu2, ?_⟩
      rw [hm]
      simp only
      have hb := datetime_naive_bound hs (by omega) hc (by omega) hu2
      rw [naiveChecked_ok (by omega) (by omega)]
      simp only
      rw [if_neg (by omega)]

/-- a gap found after `(t, o)` lies at/after the end of the span that starts at `t` -/
theorem gap_ge_end {p t o : Int} {l : List (Int × Int)} (hs : sortedFrom t l = true)
    (hp : orderedFrom p t o l = true) {n : Int} {g : Int × Int × Int} (hg : gapOfFrom o l n = some g) :
    ∃ t' o' rest, l = (t', o') :: rest ∧ t' + offNs o ≤ n := by
  induction l generalizing p t o with
  | nil => cases hg
  | cons hd rest ih =>
    obtain ⟨t', o'⟩ := hd
    refine ⟨t', o', rest, rfl, ?_⟩
    obtain ⟨h1, h2⟩ := sortedFrom_cons.mp hs
    obtain ⟨h3, h4⟩ := orderedFrom_cons.mp hp
    simp only [gapOfFrom] at hg
    split at hg
    · rename_i hc; exact hc.1
    · obtain ⟨t'', o'', rest', hr, hge⟩ := ih h2 h4 hg
      subst hr
      obtain ⟨h5, _⟩ := orderedFrom_cons.mp h4
      omega

theorem gapOfFrom_some_nil {p t o : Int} {l : List (Int × Int)} (hs : sortedFrom t l = true)
    (hp : orderedFrom p t o l = true) {n : Int} {g : Int × Int × Int} (hg : gapOfFrom o l n = some g) :
    fromLocalFrom t o l n = [] := by
  induction l generalizing p t o with
  | nil => cases hg
  | cons hd rest ih =>
    obtain ⟨t', o'⟩ := hd
    obtain ⟨_, _, _, hl, hge⟩ := gap_ge_end hs hp hg
    cases hl
    obtain ⟨h1, h2⟩ := sortedFrom_cons.mp hs
    obtain ⟨h3, h4⟩ := orderedFrom_cons.mp hp
    simp only [fromLocalFrom]
    rw [if_neg (by omega), List.nil_append]
    simp only [gapOfFrom] at hg
    split at hg
    · rename_i hc
      exact none_before h2 h4 hc.2
    · exact ih h2 h4 hg

/-- the class predicate is exact: `gapOf z n` finds a forward jump iff `n` does not exist -/
theorem gapOf_isSome_iff {z : Zone} (hs : sorted z = true) (hp : spansOrdered z = true) (n : Int) :
    (gapOf z n).isSome = true ↔ latest? z n = none := by
  constructor
  · intro h
    obtain ⟨g, hg⟩ := Option.isSome_iff_exists.mp h
    unfold latest?
    rw [fromLocal_eq_from z n _ (virt_le z n),
      gapOfFrom_some_nil (virt_sorted z n hs) (virt_ordered z n hp) (gapOf_eq z n ▸ hg)]
    rfl
  · intro h
    obtain ⟨T, a, b, g1, _⟩ := gap_of_none hs hp h
    rw [g1]; rfl

/-- D16 as a class: both bounds of a local span inside a gap (with the same phase within the
second) are mapped to the same instant.  A SPACED table is needed when the span ends exactly where
the jump lands (`b = g`): if a fold follows the gap directly, `g` is ambiguous and the end is mapped
to its later instant. -/
theorem datetime_eq_of_localSpanInGap {z : Zone} (hs : sorted z = true) (hp : spaced z = true)
    (hmax : lastLocal z + nsPerMin ≤ instMax)
    {a b : Int} (hg : localSpanInGap z a b = true) (hc : (b - a) % nsPerSec = 0) (hmin : instMin ≤ a) :
    datetime z a = datetime z b := by
  have ho := spansOrdered_of_spaced hp
  unfold localSpanInGap at hg
  split at hg
  · rename_i T a' g hgap
    simp only [decide_eq_true_eq] at hg
    have hnone : latest? z a = none := (gapOf_isSome_iff hs ho a).mp (by rw [hgap]; rfl)
    obtain ⟨T1, a1, b1, g1, g2, g3, g4, g5, g5', g6⟩ := datetime_gap_core hs ho hnone hmax hmin
    rw [hgap] at g1
    cases g1
    rw [g6]
    by_cases hbg : b = g
    · -- the span ends exactly where the jump lands
      have h0 := latest?_of_singleton (g5' hp 0 (by omega) (by simp [nsPerMin]))
      rw [hbg]
      simp only [Int.add_zero] at h0
      rw [datetime_of_some h0]
      have : (a - g) % nsPerSec = 0 := by simp only [nsPerSec] at *; omega
      rw [this, Int.add_zero]
    · have hnb : latest? z b = none := g4 b (by omega) (by omega)
      obtain ⟨T2, a2, b2, k1, k2, k3, k4, k5, _, k6⟩ := datetime_gap_core hs ho hnb hmax (by omega)
      have e1 : b2 ≤ g := by
        apply Int.not_lt.mp
        intro hc'
        have hv := g5 0 (by omega) (by simp [nsPerMin])
        rw [(earliest?_eq_none_iff z _).mpr (k4 (g + 0) (by omega) (by omega))] at hv; cases hv
      have e2 : g ≤ b2 := by
        apply Int.not_lt.mp
        intro hc'
        have hv := k5 0 (by omega) (by simp [nsPerMin])
        rw [(earliest?_eq_none_iff z _).mpr (g4 (b2 + 0) (by omega) (by omega))] at hv; cases hv
      have e3 : b2 = g := by omega
      subst e3
      have hT := k5 0 (by omega) (by simp [nsPerMin])
      rw [g5 0 (by omega) (by simp [nsPerMin])] at hT
      have hTT := Option.some.inj hT
      rw [k6]
      have e4 : (b - b2) % nsPerSec = (a - b2) % nsPerSec := by
        simp only [nsPerSec] at *; omega
      rw [e4]
      congr 2
      omega
  · cases hg

/-! ### ordering of mapped interval lists -/

def Ordered (l : List Interval) : Prop :=
  (∀ iv ∈ l, iv.start ≤ iv.stop) ∧ l.Pairwise (fun a b => a.stop ≤ b.start)

theorem mapIntervals_mem {z : Zone} : ∀ {l out : List Interval}, mapIntervals z l = .ok out →
    ∀ y ∈ out, ∃ a ∈ l, mapInterval z a = .ok y := by
  intro l
  induction l with
  | nil => intro out h y hy; cases h; cases hy
  | cons a rest ih =>
    intro out h y hy
    simp only [mapIntervals] at h
    split at h
    · cases h
    · rename_i x hx
      split at h
      · cases h
      · rename_i xs hxs
        cases h
        rcases List.mem_cons.mp hy with e | e
        · subst e; exact ⟨a, List.mem_cons_self, hx⟩
        · obtain ⟨a', ha', hm⟩ := ih hxs y e
          exact ⟨a', List.mem_cons_of_mem _ ha', hm⟩

/-- mapping an ordered list of naive intervals through a monotone `datetime` keeps it ordered;
`mono` is what `datetime_mono_aligned` provides for bounds of class `C` -/
theorem mapIntervals_ordered {z : Zone} (C : Int → Prop)
    (mono : ∀ a b ua ub, a ≤ b → C a → datetime z a = .ok ua → datetime z b = .ok ub → ua ≤ ub) :
    ∀ {l out : List Interval}, mapIntervals z l = .ok out →
      (∀ iv ∈ l, C iv.start ∧ C iv.stop) → Ordered l → Ordered out := by
  intro l
  induction l with
  | nil =>
    intro out h _ _
    cases h
    exact And.intro (fun iv hiv => nomatch hiv) List.Pairwise.nil
  | cons a rest ih =>
    intro out h hC hord
    simp only [mapIntervals] at h
    split at h
    · cases h
    · rename_i x hx
      split at h
      · cases h
      · rename_i xs hxs
        cases h
        obtain ⟨ho1, ho2⟩ := hord
        rw [List.pairwise_cons] at ho2
        have ihr := ih hxs (fun iv hiv => hC iv (List.mem_cons_of_mem _ hiv))
          ⟨fun iv hiv => ho1 iv (List.mem_cons_of_mem _ hiv), ho2.2⟩
        obtain ⟨x1, x2, _, _⟩ := mapInterval_spec hx
        have hCa := hC a List.mem_cons_self
        refine ⟨?_, ?_⟩
        · intro iv hiv
          rcases List.mem_cons.mp hiv with e | e
          · subst e
            exact mono _ _ _ _ (ho1 a List.mem_cons_self) hCa.1 x1 x2
          · exact ihr.1 iv e
        · rw [List.pairwise_cons]
          refine ⟨?_, ihr.2⟩
          intro y hy
          obtain ⟨b, hb, hmb⟩ := mapIntervals_mem hxs y hy
          obtain ⟨y1, _, _, _⟩ := mapInterval_spec hmb
          exact mono _ _ _ _ (ho2.1 b hb) hCa.2 x2 y1

/-! ### at most two readings, at most 2·1440 steps -/

/-- at most two spans contain a local time (`None` / `Single` / `Ambiguous` is exhaustive) -/
theorem fromLocalFrom_length_le_two {p t o : Int} {l : List (Int × Int)} (hs : sortedFrom t l = true)
    (hp : spacedFrom p t o l = true) (n : Int) : (fromLocalFrom t o l n).length ≤ 2 := by
  induction l generalizing p t o with
  | nil => simp only [fromLocalFrom]; split <;> simp
  | cons hd rest ih =>
    obtain ⟨t', o'⟩ := hd
    obtain ⟨h1, h2⟩ := sortedFrom_cons.mp hs
    obtain ⟨h3, h4⟩ := spacedFrom_cons.mp hp
    simp only [fromLocalFrom, List.length_append]
    have ihr := ih h2 h4
    split
    · rename_i hc
      -- `n` is in the current span: later than the next span nothing contains it
      cases rest with
      | nil => simp only [fromLocalFrom]; split <;> simp
      | cons hd2 rest2 =>
        obtain ⟨t'', o''⟩ := hd2
        obtain ⟨h5, h6⟩ := sortedFrom_cons.mp h2
        obtain ⟨h7, h8⟩ := spacedFrom_cons.mp h4
        have hn : fromLocalFrom t'' o'' rest2 n = [] := by
          apply none_before h6 (ordered_of_spacedFrom h8)
          simp only [offNs, nsPerMin] at *
          omega
        simp only [fromLocalFrom, hn, List.append_nil, List.length_cons, List.length_nil]
        split <;> simp
    · simp only [List.length_nil]; omega

theorem fromLocal_length_le_two {z : Zone} (hs : sorted z = true) (hp : spaced z = true) (n : Int) :
    (fromLocal z n).length ≤ 2 := by
  rw [fromLocal_eq_from z n _ (virt_le z n)]
  exact fromLocalFrom_length_le_two (virt_sorted z n hs) (virt_spaced z n hp) n

theorem gap_size {p : Int} {l : List (Int × Int)} {n T a b : Int}
    (hg : gapOfFrom p l n = some (T, a, b)) (hp : -86400 < p ∧ p < 86400)
    (hl : ∀ q ∈ l, -86400 < q.2 ∧ q.2 < 86400) : b - a < 2 * nsPerDay := by
  induction l generalizing p with
  | nil => cases hg
  | cons hd rest ih =>
    obtain ⟨t, o⟩ := hd
    have ho := hl (t, o) List.mem_cons_self
    simp only [gapOfFrom] at hg
    split at hg
    · cases hg
      simp only [offNs, nsPerDay] at *
      omega
    · exact ih hg ho (fun q hq => hl q (List.mem_cons_of_mem _ hq))

/-- the loop makes at most 2·1440 steps (a gap is shorter than two days) -/
theorem datetime_steps_le {z : Zone} (hs : sorted z = true) (hp : spansOrdered z = true)
    (hb : offsetsBounded z = true) {n : Int} (he : latest? z n = none) :
    ∃ k : Nat, k ≤ 2880 ∧ (∀ j : Nat, j < k → latest? z (n + j * nsPerMin) = none) ∧
      latest? z (n + k * nsPerMin) ≠ none := by
  obtain ⟨T, a, b, g1, g2, g3, g4, g5, g6, _⟩ := gap_of_none hs hp he
  have hsize : b - a < 2 * nsPerDay := by
    unfold offsetsBounded at hb
    simp only [Bool.and_eq_true, decide_eq_true_eq, List.all_eq_true] at hb
    exact gap_size (gapOf_eq z n ▸ g1) hb.1 hb.2
  have hr0 := emod_min_nonneg (n - b)
  have hr1 := emod_min_lt (n - b)
  refine ⟨((b + (n - b) % nsPerMin - n) / nsPerMin).toNat, ?_, ?_, ?_⟩
  · simp only [nsPerMin, nsPerDay] at *; omega
  · intro j hj
    apply g5
    · have : (0 : Int) ≤ j * nsPerMin := Int.mul_nonneg (Int.natCast_nonneg j) (by simp [nsPerMin])
      omega
    · simp only [nsPerMin] at *; omega
  · have e : n + (((b + (n - b) % nsPerMin - n) / nsPerMin).toNat : Int) * nsPerMin = b + (n - b) % nsPerMin := by
      rw [Int.toNat_of_nonneg]
      · simp only [nsPerMin] at *; omega
      · simp only [nsPerMin] at *; omega
    rw [e]
    intro hcon
    have hv := g6 _ hr0 hr1
    rw [(earliest?_eq_none_iff z _).mpr hcon] at hv
    cases hv

end OH.Proofs.Tz
