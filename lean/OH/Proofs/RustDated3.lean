import OH.Generated.Arith
import OH.Proofs.RustInt
import OH.Model.Eval
/-
Helper lemmas of OH/Props/ArithC02Dated3*.lean (sixth increment of `translators/rs2lean.py`, `dated3`): the support
definitions of OH/Model/RustDated3.lean and OH/Model/RustSeq.lean (`rangeInclList`, `fromFn`) and the list functions of the
evaluator model (`ensureIncAux`, `ensureIncreasing`, `yearsAround`).  Nothing here mentions a generated definition.
-/
namespace OH.Proofs.RustDated3
set_option linter.unusedSimpArgs false
set_option linter.unusedVariables false
open OH.Model.RustInt

/-- the model's `ensureIncAux last` drops the items that are not above `last`, then starts again -/
theorem ensureIncAux_eq (last : Int) (xs : List Int) :
    OH.Model.ensureIncAux last xs = OH.Model.ensureIncreasing (xs.dropWhile (fun x => decide (x ≤ last))) := by
  induction xs with
  | nil => rfl
  | cons x xs ih =>
    by_cases c : x ≤ last
    · simp only [OH.Model.ensureIncAux, c, if_true, ↓reduceIte, List.dropWhile_cons, decide_true, ih]
    · simp only [OH.Model.ensureIncAux, c, if_false, ↓reduceIte, List.dropWhile_cons, decide_false, Bool.false_eq_true, OH.Model.ensureIncreasing]

theorem length_dropWhile_le' {α : Type} (p : α → Bool) (l : List α) : (l.dropWhile p).length ≤ l.length :=
  OH.Model.length_dropWhile_le p l

theorem fromFn_some {σ α : Type} (f : σ → R (Option α × σ)) (n : Nat) (s s' : σ) (a : α) (h : f s = .ok (some a, s')) :
    fromFn f (n + 1) s = bnd (fromFn f n s') fun l => .ok (a :: l) := by
  simp only [fromFn, h, bnd_ok]

theorem fromFn_none {σ α : Type} (f : σ → R (Option α × σ)) (n : Nat) (s s' : σ) (h : f s = .ok (none, s')) :
    fromFn f (n + 1) s = .ok [] := by
  simp only [fromFn, h, bnd_ok]

theorem ensureIncAux_length (last : Int) (l : List Int) : (OH.Model.ensureIncAux last l).length ≤ l.length := by
  induction l generalizing last with
  | nil => simp [OH.Model.ensureIncAux]
  | cons x xs ih =>
    simp only [OH.Model.ensureIncAux]
    split
    · have := ih last; simp only [List.length_cons]; omega
    · have := ih x; simp only [List.length_cons]; omega

theorem ensureIncreasing_length (l : List Int) : (OH.Model.ensureIncreasing l).length ≤ l.length := by
  cases l with
  | nil => simp [OH.Model.ensureIncreasing]
  | cons x xs => have := ensureIncAux_length x xs; simp only [OH.Model.ensureIncreasing, List.length_cons]; omega

theorem rangeInclList_eq (lo : Int) (n : Nat) : rangeInclList lo (lo + n) = (List.range (n + 1)).map (fun (i : Nat) => lo + (i : Int)) := by
  unfold rangeInclList
  have : (lo + n + 1 - lo).toNat = n + 1 := by omega
  rw [this]

/-- the window of `single_interval_from_bounds`: `end_year - 1 ..= end_year + 2`, in order -/
theorem window_single (y : Int) : rangeInclList (y - 1) (y + 2) = [y - 1, y, y + 1, y + 2] := by
  have h := rangeInclList_eq (y - 1) 3
  have e : y - 1 + ((3 : Nat) : Int) = y + 2 := by omega
  rw [e] at h
  rw [h]
  simp only [List.range_succ, List.range_zero, List.nil_append, List.cons_append, List.map_cons, List.map_nil, List.cons.injEq, and_true]
  refine ⟨?_, ?_, ?_, ?_⟩ <;> omega

/-- the model's window is the code's inclusive range of years -/
theorem window_eq (y : Int) (b a : Nat) : rangeInclList (y - b) (y + a) = OH.Model.yearsAround y b a := by
  unfold rangeInclList OH.Model.yearsAround
  have : (y + a + 1 - (y - b)).toNat = b + a + 1 := by omega
  rw [this]

theorem mem_yearsAround (y : Int) (b a : Nat) (x : Int) (h : x ∈ OH.Model.yearsAround y b a) : y - b ≤ x ∧ x ≤ y + a := by
  simp only [OH.Model.yearsAround, List.mem_map, List.mem_range] at h
  obtain ⟨i, hi, rfl⟩ := h
  omega

end OH.Proofs.RustDated3
