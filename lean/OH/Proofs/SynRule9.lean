import OH.Proofs.SynRule6
import OH.Proofs.SynRule8
/-
Assembly, part 9: THE ROUND TRIP OF WHOLE EXPRESSIONS (C06).

  parse_print_roundtrip : PrintableOut e = true → parseChars (Print.expr e) = .ok (reparsed e)

`PrintableOut` is a decidable description of the expressions the parser can build (the driver evaluates
it on every expression the real parser returns); `reparsed e` is `e` with the comments of each rule
joined into one (`["a", "b"]` is printed `"a, b"`, which is one comment).
-/
namespace OH.Proofs.Syn
open OH.Model OH.Model.Peg OH.Model.Parser OH.Generated.Grammar

/-- the conditions on one rule: weekday list, time list, comments (`okRuleSmall`), years, month days,
weeks (`okWide`) -/
def okRule (r : Rule) : Bool := okRuleSmall r && okWide r.day

/-- the expressions covered: a non-empty list of rules, the first one `Normal`, each rule `okRule` -/
def PrintableOut (e : Expr) : Bool :=
  !e.isEmpty && (match e with | r :: _ => r.op == .normal | [] => false) && e.all okRule

/-- what the round trip returns: every rule with its comments joined -/
def reparsed (e : Expr) : Expr := e.map joinRuleComments

theorem printableOut_iff (e : Expr) : PrintableOut e = true ↔
    e ≠ [] ∧ (∀ r, e.head? = some r → r.op = .normal) ∧ ∀ r ∈ e, okRuleSmall r = true ∧ okWide r.day = true := by
  cases e with
  | nil => simp [PrintableOut]
  | cons r rs => simp [PrintableOut, okRule, and_assoc]

/-- **C06, syntactic form**: every printable (parser-producible) expression, printed, parses back to
itself with the comments of each rule joined -/
theorem parse_print_roundtrip (e : Expr) (h : PrintableOut e = true) :
    Parser.parseChars (Print.expr e) = .ok (reparsed e) := by
  obtain ⟨hne, hop, hr⟩ := (printableOut_iff e).mp h
  have := parse_print_roundtrip_partial e hne hop (fun r hr' => (hr r hr').1)
    (fun r hr' hW => wideHyp_of_ok r.day (hr r hr').2 hW)
  rw [this]
  cases e with
  | nil => exact absurd rfl hne
  | cons r rs => rw [joinComments_eq r rs (hop r rfl)]; rfl

/-- `reparsed` is the driver's `joinComments` on the expressions covered -/
theorem reparsed_eq_joinComments (e : Expr) (h : PrintableOut e = true) : reparsed e = joinComments e := by
  obtain ⟨hne, hop, -⟩ := (printableOut_iff e).mp h
  cases e with
  | nil => exact absurd rfl hne
  | cons r rs => rw [joinComments_eq r rs (hop r rfl)]; rfl

/-- the same on strings: `parse (to_string e)` -/
theorem parse_toString_roundtrip (e : Expr) (h : PrintableOut e = true) (s : String)
    (hs : Print.toString? e = some s) : Parser.parse s = .ok (reparsed e) := by
  unfold Print.toString? at hs
  split at hs
  · cases hs
  · simp only [Option.some.injEq] at hs
    subst hs
    simp only [Parser.parse, String.toList_ofList]
    exact parse_print_roundtrip e h

/-- an expression without a rule with two comments comes back unchanged -/
theorem parse_print_roundtrip_same (e : Expr) (h : PrintableOut e = true)
    (hc : ∀ r ∈ e, r.comments.length ≤ 1) : Parser.parseChars (Print.expr e) = .ok e := by
  rw [parse_print_roundtrip e h]
  congr 1
  unfold reparsed
  have : ∀ r ∈ e, joinRuleComments r = r := by
    intro r hr
    have := hc r hr
    unfold joinRuleComments
    rw [if_neg (by omega)]
  rw [List.map_congr_left this, List.map_id']

/-- the round trip is idempotent: what comes back is printable again and comes back unchanged -/
theorem reparsed_comments (r : Rule) : (joinRuleComments r).comments.length ≤ 1 ∨ r.comments.length ≤ 1 := by
  unfold joinRuleComments
  split
  · exact .inl (by simp)
  · exact .inr (by omega)

end OH.Proofs.Syn
