import OH.Proofs.SynRule6
import OH.Proofs.SynRule8
/-
Assembly, part 9: THE ROUND TRIP OF WHOLE EXPRESSIONS (C06).

  parse_print_roundtrip : PrintableOut e = true → parseChars (Print.expr e) = .ok (reparsed e)

`PrintableOut` is a decidable description of the expressions the parser can build (the driver evaluates
it on every expression the real parser returns); `reparsed e` is `e` with the comments of each rule
joined into one (`["a", "b"]` is printed `"a, b"`, which is one comment).
-/
namespace OH.Proofs.Syn
open OH.Model OH.Model.Peg OH.Model.Parser OH.Generated.Grammar

/-- the conditions on one rule: weekday list, time list, comments (`okRuleSmall`), years, month days,
weeks (`okWide`) -/
def okRule (r : Rule) : Bool := okRuleSmall r && okWide r.day

/-- the expressions covered: a non-empty list of rules, the first one `Normal`, each rule `okRule` -/
def PrintableOut (e : Expr) : Bool :=
  !e.isEmpty && (match e with | r :: _ => r.op == .normal | [] => false) && e.all okRule

/-- what the round trip returns: every rule with its comments joined -/
def reparsed (e : Expr) : Expr := e.map joinRuleComments

theorem printableOut_iff (e : Expr) : PrintableOut e = true ↔
    e ≠ [] ∧ (∀ r, e.head? = some r → r.op = .normal) ∧ ∀ r ∈ e, okRuleSmall r = true ∧ okWide r.day = true := by
  cases e with
  | nil => simp [PrintableOut]
  | cons r rs => simp [PrintableOut, okRule, and_assoc]

/-- **C06, syntactic form**: every printable (parser-producible) expression, printed, parses back to
itself with the comments of each rule joined -/
theorem parse_print_roundtrip (e : Expr) (h : PrintableOut e = true) :
    Parser.parseChars (Print.expr e) = .ok (reparsed e) := by
  obtain ⟨hne, hop, hr⟩ := (printableOut_iff e).mp h
  have := parse_print_roundtrip_partial e hne hop (fun r hr' => (hr r hr').1)
    (fun r hr' hW => wideHyp_of_ok r.day (hr r hr').2 hW)
  rw [this]
  cases e with
  | nil => exact absurd rfl hne
  | cons r rs => rw [joinComments_eq r rs (hop r rfl)]; rfl

/-- `reparsed` is the driver's `joinComments` on the expressions covered -/
theorem reparsed_eq_joinComments (e : Expr) (h : PrintableOut e = true) : reparsed e = joinComments e := by
  obtain ⟨hne, hop, -⟩ := (printableOut_iff e).mp h
  cases e with
  | nil => exact absurd rfl hne
  | cons r rs => rw [joinComments_eq r rs (hop r rfl)]; rfl

/-- the same on strings: `parse (to_string e)` -/
theorem parse_toString_roundtrip (e : Expr) (h : PrintableOut e = true) (s : String)
    (hs : Print.toString? e = some s) : Parser.parse s = .ok (reparsed e) := by
  unfold Print.toString? at hs
  split at hs
  · cases hs
  · simp only [Option.some.injEq] at hs
    subst hs
    simp only [Parser.parse, String.toList_ofList]
    exact parse_print_roundtrip e h

/-- an expression without a rule with two comments comes back unchanged -/
theorem parse_print_roundtrip_same (e : Expr) (h : PrintableOut e = true)
    (hc : ∀ r ∈ e, r.comments.length ≤ 1) : Parser.parseChars (Print.expr e) = .ok e := by
  rw [parse_print_roundtrip e h]
  congr 1
  unfold reparsed
  have : ∀ r ∈ e, joinRuleComments r = r := by
    intro r hr
    have := hc r hr
    unfold joinRuleComments
    rw [if_neg (by omega)]
  rw [List.map_congr_left this, List.map_id']

/-- the round trip is idempotent: what comes back is printable again and comes back unchanged -/
theorem reparsed_comments (r : Rule) : (joinRuleComments r).comments.length ≤ 1 ∨ r.comments.length ≤ 1 := by
  unfold joinRuleComments
  split
  · exact .inl (by simp)
  · exact .inr (by omega)

/-! ### printing never panics on these expressions -/

theorem nthNumbers_nonempty_bits : ∀ a b c d e a' b' c' d' e' : Bool,
    ([a, b, c, d, e].contains true || [a', b', c', d', e'].contains true) = true →
      (Print.nthNumbers [a, b, c, d, e] [a', b', c', d', e']).isEmpty = false := by
  decide

/-- a weekday range the parser can build has a position set: `Display` finds a first number to write -/
theorem okRange_no_panic (w : WeekDayRange) (h : okRange w = true) : Print.weekDayRangePanics w = false := by
  cases w with
  | holiday k off => rfl
  | fixed lo hi off ns ne =>
    simp only [okRange, Bool.and_eq_true, decide_eq_true_eq] at h
    obtain ⟨⟨⟨⟨⟨⟨-, -⟩, hs⟩, he⟩, -⟩, ht⟩, -⟩ := h
    obtain ⟨a, b, c, d, e, rfl⟩ := len5 hs
    obtain ⟨a', b', c', d', e', rfl⟩ := len5 he
    simp only [Print.weekDayRangePanics, nthNumbers_nonempty_bits a b c d e a' b' c' d' e' ht, Bool.and_false]

theorem printable_no_panic (e : Expr) (h : PrintableOut e = true) : Print.printPanics e = false := by
  obtain ⟨-, -, hr⟩ := (printableOut_iff e).mp h
  simp only [Print.printPanics, List.any_eq_false, Bool.not_eq_true]
  intro r hre w hw
  obtain ⟨-, hwd, -⟩ := okSmall_of_rule r (hr r hre).1
  have hne : r.day.weekday ≠ [] := by intro h0; rw [h0] at hw; cases hw
  have := hwd hne
  simp only [okWeekdays, Bool.and_eq_true, List.all_eq_true] at this
  exact okRange_no_panic w (this.2 w hw)

/-- **C06 on strings**: `to_string` succeeds on every covered expression and the string parses back
to the expression with its comments joined -/
theorem toString_parse_roundtrip (e : Expr) (h : PrintableOut e = true) :
    ∃ s, Print.toString? e = some s ∧ Parser.parse s = .ok (reparsed e) := by
  refine ⟨String.ofList (Print.expr e), ?_, ?_⟩
  · simp [Print.toString?, printable_no_panic e h]
  · simp only [Parser.parse, String.toList_ofList]
    exact parse_print_roundtrip e h

/-! ### the result of the round trip is a fixed point -/

theorem okRule_join (r : Rule) (h : okRule r = true) : okRule (joinRuleComments r) = true := by
  unfold joinRuleComments
  split
  · next hlen =>
    simp only [okRule, okRuleSmall, Bool.and_eq_true, List.all_eq_true] at h ⊢
    obtain ⟨⟨⟨h1, h2⟩, h3⟩, h4⟩ := h
    refine ⟨⟨⟨h1, h2⟩, ?_⟩, h4⟩
    intro s hs
    simp only [List.mem_singleton] at hs
    subst hs
    have hne : r.comments ≠ [] := by intro h0; rw [h0] at hlen; simp at hlen
    simpa [okComment] using okCommentChars_join r.comments hne h3
  · exact h

theorem joinRuleComments_of_short (r : Rule) (h : ¬ r.comments.length ≥ 2) : joinRuleComments r = r := by
  unfold joinRuleComments
  rw [if_neg h]

theorem joinRuleComments_idem (r : Rule) : joinRuleComments (joinRuleComments r) = joinRuleComments r := by
  apply joinRuleComments_of_short
  unfold joinRuleComments
  split
  · simp
  · assumption

/-- what comes back is covered again, and comes back unchanged the second time -/
theorem printableOut_reparsed (e : Expr) (h : PrintableOut e = true) : PrintableOut (reparsed e) = true := by
  cases e with
  | nil => simp [PrintableOut] at h
  | cons r rs =>
    simp only [PrintableOut, reparsed, List.map_cons, List.isEmpty_cons, Bool.not_false, Bool.true_and,
      Bool.and_eq_true, beq_iff_eq, List.all_cons, List.all_eq_true, List.mem_map, forall_exists_index,
      and_imp] at h ⊢
    obtain ⟨hop, hr, hrs⟩ := h
    refine ⟨by rw [(joinRuleComments_fields r).2.2.2]; exact hop, okRule_join r hr, ?_⟩
    intro x y hy e
    subst e
    exact okRule_join y (hrs y hy)

theorem parse_print_reparsed (e : Expr) (h : PrintableOut e = true) :
    Parser.parseChars (Print.expr (reparsed e)) = .ok (reparsed e) := by
  rw [parse_print_roundtrip (reparsed e) (printableOut_reparsed e h)]
  congr 1
  simp only [reparsed, List.map_map]
  apply List.map_congr_left
  intro r _
  exact joinRuleComments_idem r

end OH.Proofs.Syn
