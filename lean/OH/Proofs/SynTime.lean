import OH.Proofs.SynTime2
import OH.Model.ParserWF
/-
Time selector, part 3: `okSpan`, the pair of a printed span (`spanTree`), `timespan` on
`Print.timeSpan`, and the `,`-separated list: `parses_time_selector`.
-/
namespace OH.Proofs.Syn
open OH.Model OH.Model.Peg OH.Model.Parser OH.Generated.Grammar

/-! ### the spans the parser can build -/

/-- Every `TimeSpan` that `buildTimespan` can return:
 * start from `time` (`hour_minutes` ≤ 24:00, or an event with an offset within ±24:00);
 * end from `extended_time` (≤ 48:00, or an event), or the implicit 24:00 of `a+`;
 * a repetition (`/MM` gives 0..59, `/HH:MM` gives 0..1440) only on a span that is not open-ended. -/
def okSpan (t : TimeSpan) : Bool :=
  okStart t.start && okStop t.stop &&
    (match t.repeats with
     | none => true
     | some r => !t.openEnd && decide (0 ≤ r) && decide (r ≤ 1440))

/-- `okSpan` is the span invariant of `ParserWF` plus: a repetition only on a span that is not open-ended
(`a-b+/MM` is not in the grammar) -/
theorem okSpan_iff (t : TimeSpan) :
    okSpan t = true ↔ t.wf = true ∧ (t.repeats ≠ none → t.openEnd = false) := by
  obtain ⟨s, e, oe, rp⟩ := t
  have hs : okStart s = s.wfStart := by cases s <;> simp [okStart, Time.wfStart, okOffset]
  have he : okStop e = e.wfStop := by cases e <;> simp [okStop, Time.wfStop, okOffset]
  cases rp with
  | none => simp [okSpan, TimeSpan.wf, hs, he]
  | some r =>
    cases oe <;> simp [okSpan, TimeSpan.wf, hs, he]

/-- the printed repetition: `MM` below one hour, `HH:MM` from one hour on -/
def repStr (n : Nat) : List Char := if n < 60 then Print.pad2 n else Print.extTime n

def repTree (n : Nat) : T := if n < 60 then .node .minute (Print.pad2 n) [] else hmTree n

def spanKids (t : TimeSpan) : List T :=
  match t.repeats with
  | some r => [timeTree t.start, extTree t.stop, repTree r.toNat]
  | none =>
    if t.openEnd then
      (if t.stop = .fixed 1440 then [timeTree t.start, plusTree]
       else [timeTree t.start, extTree t.stop, plusTree])
    else [timeTree t.start, extTree t.stop]

def spanTree (t : TimeSpan) : T := .node .timespan (Print.timeSpan t) (spanKids t)

/-! ### the printed shapes -/

theorem timeSpan_rep (s e : Time) (r : Int) (h0 : 0 ≤ r) :
    Print.timeSpan ⟨s, e, false, some r⟩ = Print.time s ++ '-' :: (Print.time e ++ '/' :: repStr r.toNat) := by
  have e1 : Int.tdiv r 60 = r / 60 := Int.tdiv_eq_ediv_of_nonneg h0
  have e2 : Int.tmod r 60 = r % 60 := Int.tmod_eq_emod_of_nonneg h0
  have n1 : ¬ (r / 60 < 0) := by omega
  have n2 : ¬ (r % 60 < 0) := by omega
  have t1 : (r / 60).toNat = r.toNat / 60 := by omega
  have t2 : (r % 60).toNat = r.toNat % 60 := by omega
  by_cases h : r.toNat < 60
  · have hd : ¬ (r / 60 > 0) := by omega
    have t3 : r.toNat % 60 = r.toNat := by omega
    simp [Print.timeSpan, repStr, h, e1, e2, hd, Print.pad2Int, n2, t2, t3]
  · have hd : r / 60 > 0 := by omega
    simp [Print.timeSpan, repStr, h, e1, e2, hd, Print.pad2Int, n1, n2, t1, t2, Print.extTime]

theorem timeSpan_open (s e : Time) (h : e ≠ .fixed 1440) :
    Print.timeSpan ⟨s, e, true, none⟩ = Print.time s ++ '-' :: (Print.time e ++ ['+']) := by
  simp [Print.timeSpan, h]

theorem timeSpan_from (s : Time) :
    Print.timeSpan ⟨s, .fixed 1440, true, none⟩ = Print.time s ++ ['+'] := by
  simp [Print.timeSpan]

theorem timeSpan_plain (s e : Time) :
    Print.timeSpan ⟨s, e, false, none⟩ = Print.time s ++ '-' :: Print.time e := by
  simp [Print.timeSpan]

/-! ### `timespan` -/

theorem run_timespan (t : TimeSpan) (hok : okSpan t = true) (rest : List Char) (hf : FollowSpan rest) :
    run g_timespan false (Print.timeSpan t ++ rest) = some ⟨[spanTree t], Print.timeSpan t, rest⟩ := by
  obtain ⟨s, e, oe, rp⟩ := t
  simp only [okSpan, Bool.and_eq_true] at hok
  obtain ⟨⟨hs, he⟩, hr⟩ := hok
  cases rp with
  | some r =>
    simp only [Bool.and_eq_true, Bool.not_eq_true', decide_eq_true_eq] at hr
    obtain ⟨⟨ho, h0⟩, h1⟩ := hr
    subst ho
    simp only [spanTree, spanKids]
    rw [timeSpan_rep s e r h0]
    by_cases h : r.toNat < 60
    · have := run_timespan_minute s e hs he r.toNat h rest hf.1
      simp only [repStr, repTree, h, if_true, List.append_assoc, List.cons_append]
      exact this
    · have := run_timespan_hm s e hs he r.toNat (by omega) rest
      simp only [repStr, repTree, h, if_false, List.append_assoc, List.cons_append]
      exact this
  | none =>
    cases oe with
    | false =>
      simp only [spanTree, spanKids]
      rw [timeSpan_plain s e]
      have := run_timespan_plain s e hs he rest hf
      simpa [List.append_assoc] using this
    | true =>
      by_cases h : e = .fixed 1440
      · subst h
        simp only [spanTree, spanKids]
        rw [timeSpan_from s]
        have := run_timespan_from s hs rest
        simpa [List.append_assoc] using this
      · simp only [spanTree, spanKids, h]
        rw [timeSpan_open s e h]
        have := run_timespan_open s e hs he rest
        simpa [List.append_assoc] using this

theorem build_repTree_minute (n : Nat) (h : n < 60) :
    buildMinute (.node .minute (Print.pad2 n) []) = .ok (n : Int) := by
  have b : n < i64Bound := by unfold i64Bound; omega
  simp [buildMinute, assertRule, Tree.rule, Tree.text, parseBounded, natOfDigits_pad2 n (by omega), b,
    bind, Except.bind]

theorem time_rule_node (r : PRule) (t : List Char) (k : List T) : Tree.rule (.node r t k : T) = r := rfl
theorem time_kids_node (r : PRule) (t : List Char) (k : List T) : Tree.kids (.node r t k : T) = k := rfl

theorem build_timespan (t : TimeSpan) (hok : okSpan t = true) : buildTimespan (spanTree t) = .ok t := by
  obtain ⟨s, e, oe, rp⟩ := t
  simp only [okSpan, Bool.and_eq_true] at hok
  obtain ⟨⟨hs, he⟩, hr⟩ := hok
  have bs := build_time s hs
  have be := build_extended_time e he
  have re := extTree_rule e
  cases rp with
  | some r =>
    simp only [Bool.and_eq_true, Bool.not_eq_true', decide_eq_true_eq] at hr
    obtain ⟨⟨ho, h0⟩, h1⟩ := hr
    subst ho
    have er : ((r.toNat : Nat) : Int) = r := by omega
    by_cases h : r.toNat < 60
    · have bm := build_repTree_minute r.toNat h
      simp [buildTimespan, spanTree, spanKids, repTree, h, assertRule, time_rule_node, time_kids_node, bs, be, re, bm,
        er, bind, Except.bind]
    · have bm := build_hour_minutes_as_duration r.toNat (by omega)
      simp only [hmTree] at bm
      simp [buildTimespan, spanTree, spanKids, repTree, h, hmTree, assertRule, time_rule_node, time_kids_node, bs, be,
        re, bm, er, bind, Except.bind]
  | none =>
    cases oe with
    | false =>
      simp [buildTimespan, spanTree, spanKids, assertRule, time_rule_node, time_kids_node, bs, be, re, bind, Except.bind]
    | true =>
      by_cases h : e = .fixed 1440
      · subst h
        simp [buildTimespan, spanTree, spanKids, plusTree, assertRule, time_rule_node, time_kids_node, bs, bind,
          Except.bind]
      · simp [buildTimespan, spanTree, spanKids, h, plusTree, assertRule, time_rule_node, time_kids_node, bs, be, re,
          bind, Except.bind]

/-- one time span, in a context where no `:`, `+`, `/`, ` /` follows -/
theorem parses_timespan (t : TimeSpan) (hok : okSpan t = true) (rest : List Char) (hf : FollowSpan rest) :
    ParsesTo g_timespan buildTimespan (Print.timeSpan t) rest t :=
  ⟨spanTree t, run_timespan t hok rest hf, build_timespan t hok⟩

/-! ### `time_selector = { timespan ~ ( "," ~ timespan )* }` -/

/-- no time span starts at the end of input or at a character that is not a digit, `(`, `d`, `s` -/
theorem run_time_nil : run g_time false [] = none := by
  simp [g_time, g_hour_minutes, g_hour, g_variable_time, g_event, g_dawn, g_sunrise, g_sunset, g_dusk, peg]

theorem run_time_noStart (c : Char) (r : List Char) (hc : ¬ TimeStart c) :
    run g_time false (c :: r) = none := by
  have hd : ¬ ('0' ≤ c ∧ c ≤ '9') := fun h => hc (Or.inl h)
  have h1 : ¬ ('0' ≤ c ∧ c ≤ '1') := fun h => hd ⟨h.1, Char.le_trans h.2 (by decide)⟩
  have h2 : '2' ≠ c := by intro e; subst e; exact hd (by decide)
  have h3 : '(' ≠ c := by intro e; subst e; exact hc (by unfold TimeStart; decide)
  have h4 : 'd' ≠ c := by intro e; subst e; exact hc (by unfold TimeStart; decide)
  have h5 : 's' ≠ c := by intro e; subst e; exact hc (by unfold TimeStart; decide)
  simp [g_time, g_hour_minutes, g_hour, g_variable_time, g_event, g_dawn, g_sunrise, g_sunset, g_dusk, peg,
    hd, h1, h2, h3, h4, h5]

/-- what may follow a printed time selector: as after a span, and a `,` is not followed by the start
of another span (otherwise the list would go on) -/
def FollowTimeSel (rest : List Char) : Prop :=
  FollowSpan rest ∧ ∀ r, rest = ',' :: r → r = [] ∨ ∃ c r', r = c :: r' ∧ ¬ TimeStart c

theorem followTimeSel_of_followSel (rest : List Char) (h : FollowSel rest) : FollowTimeSel rest := by
  rcases h with rfl | ⟨r, rfl⟩ | ⟨c, r, rfl, hc⟩
  · exact ⟨followSpan_nil, by simp⟩
  · refine ⟨followSpan_cons _ _ (by decide) (by decide) (by decide) (by decide), ?_⟩
    intro r' h
    simp only [List.cons.injEq, true_and] at h
    subst h
    exact Or.inr ⟨' ', r, rfl, by unfold TimeStart; decide⟩
  · refine ⟨?_, by simp⟩
    have : c ≠ '/' := by rcases hc with rfl | rfl | rfl | rfl | rfl | rfl <;> decide
    simp [FollowSpan, this]

theorem run_timespan_of_time_none (inp : List Char) (h : run g_time false inp = none) :
    run g_timespan false inp = none := by
  simp [g_timespan_eq, pre, alt5, peg, h]

/-- the list does not go on after the last span -/
theorem run_sep_timespan_none (rest : List Char) (hf : FollowTimeSel rest) :
    run (.seq (.str [',']) g_timespan : G) false rest = none := by
  cases rest with
  | nil => simp [peg]
  | cons c r =>
    by_cases hc : c = ','
    · subst hc
      have : run g_timespan false r = none := by
        rcases hf.2 r rfl with rfl | ⟨d, r', rfl, hd⟩
        · exact run_timespan_of_time_none _ run_time_nil
        · exact run_timespan_of_time_none _ (run_time_noStart d r' hd)
      simp [peg, this]
    · have : ',' ≠ c := fun e => hc e.symm
      simp [peg, this]

/-- the printed tail `,b,c` of a list -/
def spanTailStr : List TimeSpan → List Char
  | [] => []
  | t :: ts => ',' :: (Print.timeSpan t ++ spanTailStr ts)

theorem selector_eq (t : TimeSpan) (ts : List TimeSpan) :
    Print.selector Print.timeSpan (t :: ts) = Print.timeSpan t ++ spanTailStr ts := by
  induction ts generalizing t with
  | nil => simp [Print.selector, spanTailStr]
  | cons u us ih => simp [Print.selector, spanTailStr, ih u]

theorem followSpan_tailStr (ts : List TimeSpan) (rest : List Char) (hf : FollowSpan rest) :
    FollowSpan (spanTailStr ts ++ rest) := by
  cases ts with
  | nil => simpa [spanTailStr] using hf
  | cons u us =>
    exact followSpan_cons _ _ (by decide) (by decide) (by decide) (by decide)

theorem run_timespan_star (ts : List TimeSpan) (hok : ∀ t ∈ ts, okSpan t = true) (rest : List Char)
    (hf : FollowTimeSel rest) :
    run (.star (.seq (.str [',']) g_timespan) : G) false (spanTailStr ts ++ rest) =
      some ⟨ts.map spanTree, spanTailStr ts, rest⟩ := by
  induction ts with
  | nil =>
    simpa [spanTailStr, R.nil] using run_star_none (run_sep_timespan_none rest hf)
  | cons t ts ih =>
    have h1 : run (.seq (.str [',']) g_timespan : G) false (spanTailStr (t :: ts) ++ rest) =
        some ⟨[spanTree t], ',' :: Print.timeSpan t, spanTailStr ts ++ rest⟩ := by
      have := run_timespan t (hok t (by simp)) (spanTailStr ts ++ rest) (followSpan_tailStr ts rest hf.1)
      simp [spanTailStr, peg, this]
    have := run_star_some h1 (by simp) (ih (fun u hu => hok u (by simp [hu])))
    simpa [R.append, spanTailStr] using this

theorem mapM_build_timespan (ts : List TimeSpan) (hok : ∀ t ∈ ts, okSpan t = true) :
    (ts.map spanTree).mapM buildTimespan = .ok ts := by
  induction ts with
  | nil => rfl
  | cons t ts ih =>
    simp [List.mapM_cons, build_timespan t (hok t (by simp)), ih (fun u hu => hok u (by simp [hu])),
      bind, Except.bind, pure, Except.pure]

/-- a time selector, in a context where the list cannot go on -/
theorem parses_time_selector' (ts : List TimeSpan) (hne : ts ≠ []) (hok : ∀ t ∈ ts, okSpan t = true)
    (rest : List Char) (hf : FollowTimeSel rest) :
    ParsesTo g_time_selector buildTimeSelector (Print.selector Print.timeSpan ts) rest ts := by
  cases ts with
  | nil => exact absurd rfl hne
  | cons t ts =>
    refine ParsesTo.mk' .time_selector ((t :: ts).map spanTree) ?_ ?_
    · rw [selector_eq]
      have h1 := run_timespan t (hok t (by simp)) (spanTailStr ts ++ rest) (followSpan_tailStr ts rest hf.1)
      have h2 := run_timespan_star ts (fun u hu => hok u (by simp [hu])) rest hf
      simp only [List.append_assoc]
      simp [g_time_selector, run_rule, run_seq, h1, h2, R.append]
    · have := mapM_build_timespan (t :: ts) hok
      simp only [buildTimeSelector, assertRule, time_rule_node, time_kids_node, reduceIte, bind, Except.bind, this]

/-- a printed time selector starts with a digit, `(`, `d` or `s` (what `FollowWeekday`/`FollowWide` ask
of the text after the space) -/
theorem time_selector_head (ts : List TimeSpan) (hne : ts ≠ []) (hok : ∀ t ∈ ts, okSpan t = true) :
    ∃ c cs, Print.selector Print.timeSpan ts = c :: cs ∧ TimeStart c := by
  cases ts with
  | nil => exact absurd rfl hne
  | cons t ts =>
    have h := hok t (by simp)
    simp only [okSpan, Bool.and_eq_true] at h
    obtain ⟨c, cs, e, hc⟩ := time_head t.start (okStart_okStop _ h.1.1)
    have : ∃ cs', Print.selector Print.timeSpan (t :: ts) = c :: cs' := by
      rw [selector_eq, Print.timeSpan, e]
      simp only [List.cons_append, List.append_assoc]
      exact ⟨_, rfl⟩
    obtain ⟨cs', e'⟩ := this
    exact ⟨c, cs', e', hc⟩

/-- **the time selector round trip**: every non-empty list of parser-producible spans, printed where
a selector sequence is printed, parses back to itself -/
theorem parses_time_selector (ts : List TimeSpan) (hne : ts ≠ []) (hok : ∀ t ∈ ts, okSpan t = true)
    (rest : List Char) (hf : FollowSel rest) :
    ParsesTo g_time_selector buildTimeSelector (Print.selector Print.timeSpan ts) rest ts :=
  parses_time_selector' ts hne hok rest (followTimeSel_of_followSel rest hf)

end OH.Proofs.Syn
