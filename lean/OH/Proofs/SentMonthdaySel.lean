import OH.Proofs.SentMonthday
/-
C05, wide-range selectors of SENTENCES, part 3c: the month-day selector
  monthday_selector = { monthday_range ~ ("," ~ monthday_range)* }
against `commaList MdRange.render`, the follow predicate `FollowMd` with its contexts, the heads of the
written selectors, and the failure lemmas the assembly of `wide_range_selectors` needs.

INDEX for the assembly (public names in `OH.Proofs.Sent`, helpers in `OH.Proofs.Sent.Wide`):
 round trips  parses_years (parses_years': only what the last range needs), parses_weeksel,
              parses_weeksel_start, parses_mdranges
 predicates   YearStepFollowS, Wide.FeYr, Wide.FeWk, Wide.FeMdS, FollowMd, Wide.DayFollowS, Wide.NoDayWord,
              SinglePlainYear
 follow       FollowMd_of_FollowMonthday, FollowMd_nil/_week/_space/_space_head/_colon/_of_head/
              _comma_space, lookE_colon_*, run_daynum_none_short_clock, FollowYear_mdranges,
              NoDigit_mdranges, FollowYear_weeksel, NoDigit_weeksel, YearStepFollowS_of_NoDigit,
              FollowWeek_nil/_of_head/_space/_colon/_comma_space,
              YearNotDate_colon/_semicolon/_comma/_bar/_space_head
 failures     run_monthday_selector_none_yearsS, run_monthday_selector_none_week,
              run_monthday_selector_none_head, run_year_selector_none, run_year_selector_none_week,
              run_year_selector_none_mdranges, run_always_open_none_yearsS/_mdranges/_week
 heads        years_head, years_text, mdranges_head, weeksel_head
 Wide.wf      wide_sel_wf (the parts of `Wide.wf` as `all … wf`, SinglePlainYear, FirstStartsWithYear)
-/
namespace OH.Proofs.Sent.Wide
open OH.Model OH.Model.Peg OH.Model.Parser OH.Generated.Grammar OH.Proofs.Syn OH.Proofs.Syn.Wide
open OH.Spec.Sent (Num Small DayOff SDate SOffset MdRange commaList yearPrefix optOff sp monthName
  wdayName)

/-! ### heads -/

theorem range_render_eq (d1 : SDate) (o1 : SOffset) (s1 s2 : Bool) (d2 : SDate) (o2 : SOffset) :
    (MdRange.range d1 o1 s1 s2 d2 o2).render =
      d1.render ++ (o1.render ++ (sp s1 ++ ('-' :: (sp s2 ++ (d2.render ++ o2.render))))) := by
  simp [MdRange.render, List.append_assoc]

theorem toDay_render_eq (y : Option (Nat × Bool)) (m : Nat) (s : Bool) (d : Small) (o1 : SOffset)
    (s1 s2 : Bool) (d2 : Small) (o2 : SOffset) :
    (MdRange.toDay y m s d o1 s1 s2 d2 o2).render =
      (SDate.fixed y m s d).render ++
        (o1.render ++ (sp s1 ++ ('-' :: (sp s2 ++ (d2.render ++ o2.render))))) := by
  simp [MdRange.render, SDate.render, List.append_assoc]

/-- a written month-day range starts with a year digit, a month letter or `e`; when it starts with a
year: with the four digits of that year -/
theorem md_head (m : MdRange) (h : m.wf = true) :
    ∃ c r, m.render = c :: r ∧ MdStartChar c ∧ (m.startsWithYear = false → MonthLetter c ∨ c = 'e') ∧
      (m.startsWithYear = true → ∃ y t, (1900 ≤ y ∧ y ≤ 9999) ∧ m.render = Print.natStr y ++ t) := by
  -- the constructors that start with a date
  have key : ∀ (d : SDate) (tail : List Char), d.wf = true →
      ∃ c r, d.render ++ tail = c :: r ∧ MdStartChar c ∧ (d.hasYear = false → MonthLetter c ∨ c = 'e') ∧
        (d.hasYear = true → ∃ y t, (1900 ≤ y ∧ y ≤ 9999) ∧ d.render ++ tail = Print.natStr y ++ t) := by
    intro d tail hd
    obtain ⟨c, cs, e, hc, hl⟩ := sdate_head d hd
    refine ⟨c, cs ++ tail, by rw [e]; rfl, hc, hl, ?_⟩
    intro hy
    obtain ⟨y, t, hv, e'⟩ := sdate_year_text d hd hy
    exact ⟨y, t ++ tail, hv, by rw [e', List.append_assoc]⟩
  have keyN : ∀ (a : Nat) (tail : List Char),
      ∃ c r, monthName a ++ tail = c :: r ∧ MdStartChar c ∧ (MonthLetter c ∨ c = 'e') := by
    intro a tail
    obtain ⟨c, cs, e, hc⟩ := monthStr_head a
    exact ⟨c, cs ++ tail, by simp [monthName_eq, e], Or.inr (Or.inl hc), Or.inl hc⟩
  have keyS : ∀ (v : Nat) (tail : List Char), OH.Spec.Sent.yearWf v = true →
      ∃ c r, OH.Spec.Sent.dec v ++ tail = c :: r ∧ MdStartChar c ∧
        ∃ y t, (1900 ≤ y ∧ y ≤ 9999) ∧ OH.Spec.Sent.dec v ++ tail = Print.natStr y ++ t := by
    intro v tail hv
    have hv' := (yearWf_iff v).mp hv
    obtain ⟨c, cs, e, hc⟩ := natStr_year_head v hv'
    exact ⟨c, cs ++ tail, by simp [dec_eq_natStr, e], Or.inl hc, v, tail, hv', by rw [dec_eq_natStr]⟩
  cases m with
  | month y a =>
    simp only [OH.Spec.Sent.MdRange.wf, Bool.and_eq_true] at h
    cases y with
    | none =>
      obtain ⟨c, r, e, hc, hl⟩ := keyN a []
      exact ⟨c, r, by simpa [MdRange.render] using e, hc, fun _ => hl,
        fun hs => by simp [MdRange.startsWithYear] at hs⟩
    | some v =>
      obtain ⟨c, r, e, hc, y, t, hy, e'⟩ := keyS v (monthName a) h.1
      exact ⟨c, r, by simpa [MdRange.render] using e, hc,
        fun hs => by simp [MdRange.startsWithYear] at hs,
        fun _ => ⟨y, t, hy, by simpa [MdRange.render] using e'⟩⟩
  | months y a b =>
    simp only [OH.Spec.Sent.MdRange.wf, Bool.and_eq_true] at h
    cases y with
    | none =>
      obtain ⟨c, r, e, hc, hl⟩ := keyN a ('-' :: monthName b)
      exact ⟨c, r, by simpa [MdRange.render] using e, hc, fun _ => hl,
        fun hs => by simp [MdRange.startsWithYear] at hs⟩
    | some v =>
      obtain ⟨c, r, e, hc, y, t, hy, e'⟩ := keyS v (monthName a ++ '-' :: monthName b) h.1.1
      exact ⟨c, r, by simpa [MdRange.render] using e, hc,
        fun hs => by simp [MdRange.startsWithYear] at hs,
        fun _ => ⟨y, t, hy, by simpa [MdRange.render] using e'⟩⟩
  | date d o =>
    simp only [OH.Spec.Sent.MdRange.wf, Bool.and_eq_true] at h
    exact key d o.render h.1
  | openEnd d o =>
    simp only [OH.Spec.Sent.MdRange.wf, Bool.and_eq_true] at h
    simpa [MdRange.render, MdRange.startsWithYear, List.append_assoc] using key d (o.render ++ ['+']) h.1
  | range d1 o1 s1 s2 d2 o2 =>
    simp only [OH.Spec.Sent.MdRange.wf, Bool.and_eq_true] at h
    rw [range_render_eq]
    exact key d1 _ h.1.1.1
  | toDay y m s d o1 s1 s2 d2 o2 =>
    simp only [OH.Spec.Sent.MdRange.wf, Bool.and_eq_true] at h
    have hsd : (SDate.fixed y m s d).wf = true := by
      simp [OH.Spec.Sent.SDate.wf, h.1.1.1.1.1.1, h.1.1.1.1.1.2, h.1.1.1.1.2]
    rw [toDay_render_eq]
    exact key (.fixed y m s d) _ hsd

end OH.Proofs.Sent.Wide

namespace OH.Proofs.Sent
open OH.Model OH.Model.Peg OH.Model.Parser OH.Generated.Grammar OH.Proofs.Syn OH.Proofs.Syn.Wide
open OH.Proofs.Sent.Wide
open OH.Spec.Sent (Num Small DayOff SDate SOffset MdRange YearR WeekSel commaList)

/-- the first range of the list starts with a year -/
def FirstStartsWithYear (ms : List MdRange) : Bool := (ms.head?.map MdRange.startsWithYear).getD false

/-- a month-day selector starts with a year digit, a month letter or `e` -/
theorem mdranges_head (ms : List MdRange) (hne : ms ≠ []) (h : ms.all MdRange.wf = true) :
    ∃ c r, commaList MdRange.render ms = c :: r ∧ MdStartChar c ∧
      (FirstStartsWithYear ms = false → MonthLetter c ∨ c = 'e') ∧
      (FirstStartsWithYear ms = true →
        ∃ y t, (1900 ≤ y ∧ y ≤ 9999) ∧ commaList MdRange.render ms = Print.natStr y ++ t) := by
  cases ms with
  | nil => exact absurd rfl hne
  | cons m l =>
    obtain ⟨c, r, e, hc, hl, hy⟩ := md_head m (all_wf_mem h m (by simp))
    obtain ⟨tail, et, _⟩ := commaList_head MdRange.render m l
    refine ⟨c, r ++ tail, by rw [et, e]; rfl, hc, ?_, ?_⟩
    · intro hs; exact hl (by simpa [FirstStartsWithYear] using hs)
    · intro hs
      obtain ⟨y, t, hv, e'⟩ := hy (by simpa [FirstStartsWithYear] using hs)
      exact ⟨y, t ++ tail, hv, by rw [et, e', List.append_assoc]⟩

/-! ### the month-day selector -/

/-- what may follow a written month-day selector: see the fields of `Wide.FeMdS`; and no `,` followed by
something a month-day range can start with (a digit `1..9`, a month letter, `e`) -/
def FollowMd (rest : List Char) : Prop :=
  FeMdS rest ∧ ∀ c r, rest = ',' :: c :: r → ¬ MdStartChar c

theorem md_stop' (rest : List Char) (h : ∀ c r, rest = ',' :: c :: r → ¬ MdStartChar c) :
    run (.seq (.str [',']) g_monthday_range) false rest = none := by
  cases rest with
  | nil => simp [peg]
  | cons c r =>
    by_cases hc : c = ','
    · subst hc
      have := run_md_none_head r (fun c' r' e => h c' r' (by rw [e]))
      simp [peg, this]
    · simp [peg, Ne.symm hc]

/-- every well-formed month-day selector parses to its denotation -/
theorem parses_mdranges (ms : List MdRange) (hne : ms ≠ []) (h : ms.all MdRange.wf = true)
    (rest : List Char) (hf : FollowMd rest) :
    ParsesTo g_monthday_selector buildMonthdaySelector (commaList MdRange.render ms) rest
      (ms.map MdRange.denote) :=
  parses_selector .monthday_selector g_monthday_range buildMonthdayRange buildMonthdaySelector
    (fun s kids => by simp [buildMonthdaySelector, assertRule, bind, Except.bind]) _ rest _
    (parses_list g_monthday_range buildMonthdayRange MdRange.render MdRange.denote
      (fun m => m.wf = true) (fun _ r => FeMdS r) parses_md (fun _ r => FeMdS_comma r) ms hne
      (all_wf_mem h) rest hf.1 (md_stop' rest hf.2))

/-! ### the follow contexts of a month-day selector -/

/-- from the predicate of the canonical forms: two more facts are needed (`Jan 5 -10` must not be
followed by ` day`, `Jan 5+` not by a weekday name) -/
theorem FollowMd_of_FollowMonthday (rest : List Char) (hf : FollowMonthday rest) (hw : NoDayWord rest)
    (hwd : run g_wday false rest = none) : FollowMd rest :=
  ⟨⟨hf.1.nodigit, lookE_none_of_not_colon rest hf.1.nocolon, hf.1.noplus, hf.1.nominus, hf.1.nos,
    hf.1.nooff, hf.1.noday, hw, hwd⟩, hf.2⟩

theorem FollowMd_nil : FollowMd [] := by
  refine ⟨⟨NoDigit_nil, lookE_none_of_not_colon _ (fun _ h => by cases h), ?_, ?_, ?_, ?_, ?_, ?_, ?_⟩, ?_⟩
  · intro _ h; cases h
  · intro _ h; cases h
  · intro _ h; cases h
  · intro _ _ h; cases h
  · intro _ h; cases h
  · intro _ h; cases h
  · exact run_wd_none_nil false
  · intro _ _ h; cases h

/-- a space, then something that is neither a sign, a day number nor the word `day` -/
theorem FollowMd_space (c : Char) (r : List Char) (hc : c ≠ '+' ∧ c ≠ '-')
    (hday : run g_daynum false (c :: r) = none) (hw : NoDayWord (' ' :: c :: r)) :
    FollowMd (' ' :: c :: r) := by
  refine ⟨⟨NoDigit_space _, lookE_none_of_not_colon _ (fun _ h => by cases h), ?_, ?_, ?_, ?_, ?_, hw, ?_⟩, ?_⟩
  · intro _ h; cases h
  · intro _ h; cases h
  · intro _ h; cases h
  · intro c' r' e; cases e; exact hc
  · intro r' e; cases e; exact hday
  · exact run_wd_none_head false ' ' _ (by decide)
  · intro _ _ h; cases h

/-- a space, then a character that is neither a sign, a digit nor `d` (a weekday, `sunrise`, `(`, a
kind word, `"`, `;`, `|`, ` week`) -/
theorem FollowMd_space_head (c : Char) (r : List Char) (hc : c ≠ '+' ∧ c ≠ '-' ∧ c ≠ 'd')
    (hd : ¬ ('0' ≤ c ∧ c ≤ '9')) : FollowMd (' ' :: c :: r) :=
  FollowMd_space c r ⟨hc.1, hc.2.1⟩ (run_daynum_none false _ (NoDigit_cons c r hd))
    (NoDayWord_space c r hc.2.2)

/-- ` week…` -/
theorem FollowMd_week (r : List Char) : FollowMd (' ' :: 'w' :: r) :=
  FollowMd_space_head 'w' r (by decide) (by decide)

/-- ` dawn`, ` dusk` -/
theorem FollowMd_space_d (c : Char) (r : List Char) (hc : c ≠ 'a') : FollowMd (' ' :: 'd' :: c :: r) :=
  FollowMd_space 'd' _ (by decide) (run_daynum_none false _ (NoDigit_cons 'd' _ (by decide)))
    (by intro r' e; cases e; exact hc rfl)

/-- a `:` (the separator `:` or `: `), when the look-ahead of `daynum` finds nothing after it -/
theorem FollowMd_colon (r : List Char) (h : run lookE true (':' :: r) = none) : FollowMd (':' :: r) := by
  refine ⟨⟨NoDigit_cons ':' r (by decide), h, ?_, ?_, ?_, ?_, ?_, ?_, ?_⟩, ?_⟩
  · intro _ h; cases h
  · intro _ h; cases h
  · intro _ h; cases h
  · intro _ _ h; cases h
  · intro _ h; cases h
  · intro _ h; cases h
  · exact run_wd_none_head false ':' _ (by decide)
  · intro _ _ h; cases h

/-- any other head: not a digit, not one of `: + - s ␣ ,`, not the first letter of a weekday -/
theorem FollowMd_of_head (c : Char) (r : List Char) (hd : ¬ ('0' ≤ c ∧ c ≤ '9'))
    (hc : c ≠ ':' ∧ c ≠ '+' ∧ c ≠ '-' ∧ c ≠ 's' ∧ c ≠ ' ' ∧ c ≠ ',')
    (hw : c ≠ 'S' ∧ c ≠ 'M' ∧ c ≠ 'T' ∧ c ≠ 'W' ∧ c ≠ 'F') : FollowMd (c :: r) := by
  obtain ⟨h1, h2, h3, h4, h5, h6⟩ := hc
  refine ⟨⟨NoDigit_cons c r hd, lookE_none_of_not_colon _ (by intro _ h; cases h; exact h1 rfl),
    ?_, ?_, ?_, ?_, ?_, ?_, ?_⟩, ?_⟩
  · intro _ h; cases h; exact h2 rfl
  · intro _ h; cases h; exact h3 rfl
  · intro _ h; cases h; exact h4 rfl
  · intro _ _ h; cases h; exact absurd rfl h5
  · intro _ h; cases h; exact absurd rfl h5
  · intro _ h; cases h; exact absurd rfl h5
  · exact run_wd_none_head false c r hw
  · intro _ _ h; cases h; exact absurd rfl h6

/-- the additional-rule separator `, ` -/
theorem FollowMd_comma_space (r : List Char) : FollowMd (',' :: ' ' :: r) :=
  ⟨FeMdS_comma _, by intro c r' e; cases e; exact not_MdStartChar_space⟩

/-! ### the look-ahead of `daynum` after a `:` -/

/-- no minute after the colon: the end, a space, a letter, `(`, a digit above `5` -/
theorem lookE_colon_nominute (r : List Char) (h : run g_minute true r = none) :
    run lookE true (':' :: r) = none := by
  simp [lookE, peg, h]

theorem run_minute_none_nil : run g_minute true [] = none := by
  simp [g_minute, peg]

theorem run_minute_none_head (c : Char) (r : List Char) (h : ¬ ('0' ≤ c ∧ c ≤ '5')) :
    run g_minute true (c :: r) = none := by
  simp [g_minute, peg, h]

/-- `:` then a one-digit hour and its `:` (`Jan 5:9:00-12:00`) -/
theorem lookE_colon_short (c : Char) (x : List Char) : run lookE true (':' :: c :: ':' :: x) = none := by
  apply lookE_colon_nominute
  by_cases h : '0' ≤ c ∧ c ≤ '5' <;> simp [g_minute, peg, h]

/-- `:` then `HH:MM` (`Jan 5:10:00-12:00`): the two digits of the hour may be read as a minute, but
then `:MM` follows, which is what the inner look-ahead excludes -/
theorem lookE_colon_time (a b : Char) (m : Nat) (hm : m < 60) (x : List Char) :
    run lookE true (':' :: a :: b :: ':' :: (Print.pad2 m ++ x)) = none := by
  have hmin := run_minute true m hm x
  by_cases ha : '0' ≤ a ∧ a ≤ '5' <;> by_cases hb : '0' ≤ b ∧ b ≤ '9' <;>
    simp [lookE, g_minute, peg, ha, hb] at hmin ⊢
  simp [hmin]

/-- a one-digit hour `H:MM` (not followed by `:`) after a space is not a day number: the look-ahead
of `daynum` (`Jan 9:00-12:00`) -/
theorem run_daynum_none_short_clock (q : Bool) (c : Char) (m : Nat) (hm : m < 60) (x : List Char)
    (hx : ∀ y, x ≠ ':' :: y) : run g_daynum q (c :: ':' :: (Print.pad2 m ++ x)) = none := by
  have hmin := run_minute true m hm x
  have hcolon : run (.str [':'] : G) true x = none := str1_none true ':' x hx
  have hlook : run lookE true (':' :: (Print.pad2 m ++ x)) = some ⟨[], ':' :: Print.pad2 m, x⟩ := by
    simp [lookE, peg, hmin, hcolon]
  have hnp : run (.notp lookE : G) true (':' :: (Print.pad2 m ++ x)) = none := by
    simp only [run_notp, hlook]
  -- `daynum_digits` takes the one digit, or fails
  have hdd : run g_daynum_digits true (c :: ':' :: (Print.pad2 m ++ x)) = none ∨
      run g_daynum_digits true (c :: ':' :: (Print.pad2 m ++ x)) = some ⟨[], [c], ':' :: (Print.pad2 m ++ x)⟩ := by
    by_cases h3 : c = '3'
    · subst h3; simp [g_daynum_digits, peg]
    · by_cases h0 : c = '0'
      · subst h0; simp [g_daynum_digits, peg]
      · have n3 : '3' ≠ c := Ne.symm h3
        have n0 : '0' ≠ c := Ne.symm h0
        by_cases h19 : '1' ≤ c ∧ c ≤ '9'
        · by_cases h12 : c ≤ '2'
          · simp [g_daynum_digits, peg, h12, n3, n0, h19.1, h19.2]
          · simp [g_daynum_digits, peg, h12, n3, n0, h19.1, h19.2]
        · have h12 : ¬ ('1' ≤ c ∧ c ≤ '2') := fun ⟨a, b⟩ => h19 ⟨a, Char.le_trans b (by decide)⟩
          simp [g_daynum_digits, peg, h12, n3, n0, h19]
  rcases hdd with h | h
  · simp only [g_daynum_eq, run_rule, run_seq, Bool.or_true, h]
  · simp only [g_daynum_eq, run_rule, run_seq, Bool.or_true, h, hnp]

/-! ### a month-day selector after a year selector; failures in front of a month-day selector -/

/-- a written month-day selector may follow a year selector -/
theorem FollowYear_mdranges (ms : List MdRange) (hne : ms ≠ []) (h : ms.all MdRange.wf = true)
    (rest : List Char) : FollowYear (commaList MdRange.render ms ++ rest) := by
  obtain ⟨c, r, e, hc, _⟩ := mdranges_head ms hne h
  rw [e]
  exact FollowYear_of_MdStartChar c _ hc

/-- … and when its first range does not start with a year, it does not start with a digit (needed
when the last year range ends with `/step`) -/
theorem NoDigit_mdranges (ms : List MdRange) (hne : ms ≠ []) (h : ms.all MdRange.wf = true)
    (hy : FirstStartsWithYear ms = false) (rest : List Char) :
    NoDigit (commaList MdRange.render ms ++ rest) := by
  obtain ⟨c, r, e, _, hc, _⟩ := mdranges_head ms hne h
  rw [e]
  apply NoDigit_cons
  rcases hc hy with h | h
  · rcases h with h | h | h | h | h | h | h | h <;> subst h <;> decide
  · subst h; decide

/-- `24/7` is not a prefix of a month-day selector -/
theorem run_always_open_none_mdranges (ms : List MdRange) (hne : ms ≠ []) (h : ms.all MdRange.wf = true)
    (rest : List Char) : run g_always_open false (commaList MdRange.render ms ++ rest) = none := by
  obtain ⟨c, r, e, _, hl, hy⟩ := mdranges_head ms hne h
  by_cases hs : FirstStartsWithYear ms = true
  · obtain ⟨y, t, hv, e'⟩ := hy hs
    rw [e', List.append_assoc]
    exact run_always_open_none_year y (by omega) _
  · rw [e]
    apply run_always_open_none_head
    rcases hl (by simpa using hs) with h | h
    · rcases h with h | h | h | h | h | h | h | h <;> subst h <;> decide
    · subst h; decide

/-- a month-day selector that does not start with a year is not a year selector -/
theorem run_year_selector_none_mdranges (ms : List MdRange) (hne : ms ≠ []) (h : ms.all MdRange.wf = true)
    (hy : FirstStartsWithYear ms = false) (rest : List Char) :
    run g_year_selector false (commaList MdRange.render ms ++ rest) = none :=
  run_year_selector_none _ (fun c r e hc => NoDigit_mdranges ms hne h hy rest c r e
    ⟨Char.le_trans (by decide) hc.1, hc.2⟩)

/-- years directly followed by month days, as `Wide.wf` allows them (the years are not a single plain
year): `monthday_selector`, tried first, fails -/
theorem run_monthday_selector_none_years_md (ys : List YearR) (hne : ys ≠ [])
    (h : ys.all YearR.wf = true) (hs : SinglePlainYear ys = false) (X : List Char) :
    run g_monthday_selector false (commaList YearR.render ys ++ X) = none :=
  run_monthday_selector_none_yearsS ys hne h X (fun h' => by rw [hs] at h'; cases h')

/-- what `Wide.wf` says about the three selectors, in the terms of this development -/
theorem wide_sel_wf (ys : List YearR) (ms : List MdRange) (ws : Option WeekSel)
    (sep : OH.Spec.Sent.WideSep) (h : (OH.Spec.Sent.Wide.sel ys ms ws sep).wf = true) :
    ys.all YearR.wf = true ∧ ms.all MdRange.wf = true ∧ (∀ w, ws = some w → w.wf = true) ∧
      (ys ≠ [] → ms ≠ [] → SinglePlainYear ys = false ∧ FirstStartsWithYear ms = false) := by
  simp only [OH.Spec.Sent.Wide.wf, Bool.and_eq_true] at h
  obtain ⟨⟨⟨⟨_, hy⟩, hm⟩, hw⟩, hc⟩ := h
  refine ⟨hy, hm, ?_, ?_⟩
  · intro w e; subst e; exact hw
  · intro hys hms
    have h1 : ys.isEmpty = false := by cases ys <;> simp_all
    have h2 : ms.isEmpty = false := by cases ms <;> simp_all
    simp only [h1, h2, Bool.false_or, Bool.and_eq_true, Bool.not_eq_true'] at hc
    exact ⟨hc.1, hc.2⟩

end OH.Proofs.Sent
