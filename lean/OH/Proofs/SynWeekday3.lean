import OH.Proofs.SynWeekday2
/-
Weekday selector, part 3: the sequences (`holiday_sequence`, `weekday_sequence`) and the selector
itself, with the follow conditions.
-/
namespace OH.Proofs.Syn
open OH.Model OH.Model.Peg OH.Model.Parser OH.Generated.Grammar

abbrev wdSel (ws : List WeekDayRange) : List Char := Print.selector Print.weekDayRange ws

/-! ### where `holiday` and `weekday_range` fail -/

theorem run_holiday_none (inp : List Char) (h : NoWd inp) : run g_holiday false inp = none := by
  rcases h with rfl | ⟨c, r, rfl, h1, _, _, _, _, h6⟩
  · simp [g_holiday, g_public_holiday, g_school_holiday, peg]
  · simp [g_holiday, g_public_holiday, g_school_holiday, peg, Ne.symm h1, Ne.symm h6]

theorem run_holiday_wday (d : Nat) (hd : d ≤ 6) (r : List Char) :
    run g_holiday false (Print.wdayStr d ++ r) = none := by
  rcases le6_cases hd with h | h | h | h | h | h | h <;> subst h <;>
    simp [g_holiday, g_public_holiday, g_school_holiday, peg, Print.wdayStr, Print.str]

theorem run_weekday_range_none {inp : List Char} (h : run g_wday false inp = none) :
    run g_weekday_range false inp = none := by
  simp [g_weekday_range, peg, h]

def OkHol (w : WeekDayRange) : Prop := isHoliday w = true ∧ okRange w = true
def OkFix (w : WeekDayRange) : Prop := isHoliday w = false ∧ okRange w = true

theorem fixed_head (w : WeekDayRange) (h : OkFix w) :
    ∃ lo tl, lo ≤ 6 ∧ Print.weekDayRange w = Print.wdayStr lo ++ tl := by
  cases w with
  | holiday => simp [OkFix, isHoliday] at h
  | fixed lo hi off ns ne =>
    obtain ⟨tl, e⟩ := weekDayRange_fixed_head lo hi off ns ne
    have hlo : lo ≤ 6 := by
      have := h.2
      simp only [okRange, Bool.and_eq_true, decide_eq_true_eq] at this
      exact this.1.1.1.1.1.1
    exact ⟨lo, tl, hlo, e⟩

theorem holiday_head (w : WeekDayRange) (h : OkHol w) :
    ∃ c tl, Print.weekDayRange w = c :: 'H' :: tl ∧ (c = 'P' ∨ c = 'S') := by
  cases w with
  | fixed => simp [OkHol, isHoliday] at h
  | holiday k off => exact weekDayRange_holiday_head k off

/-- `holiday` fails on a printed list of weekday ranges -/
theorem run_holiday_fixed (f : WeekDayRange) (fs : List WeekDayRange) (hf : OkFix f) (r : List Char) :
    run g_holiday false (wdSel (f :: fs) ++ r) = none := by
  obtain ⟨lo, tl, hlo, e⟩ := fixed_head f hf
  rw [wdSel, selector_cons, e]
  simpa using run_holiday_wday lo hlo (tl ++ (tailStr Print.weekDayRange fs ++ r))

/-- `weekday_range` fails on a printed list of holidays -/
theorem run_weekday_range_holiday (h : WeekDayRange) (hs : List WeekDayRange) (hh : OkHol h)
    (r : List Char) : run g_weekday_range false (wdSel (h :: hs) ++ r) = none := by
  obtain ⟨c, tl, e, hc⟩ := holiday_head h hh
  rw [wdSel, selector_cons, e]
  exact run_weekday_range_none (by simpa using run_wday_holiday false c _ hc)

/-! ### the two sequences -/

theorem parses_holiday_sequence (x : WeekDayRange) (xs : List WeekDayRange)
    (h : ∀ y ∈ x :: xs, OkHol y) (rest : List Char) (hf : FollowWd rest)
    (hstop : run (.seq (.str [',']) g_holiday) false rest = none) :
    ∃ ts, run g_holiday_sequence false (wdSel (x :: xs) ++ rest)
        = some ⟨[.node .holiday_sequence (wdSel (x :: xs)) ts], wdSel (x :: xs), rest⟩
      ∧ ts.mapM buildHoliday = .ok (x :: xs) := by
  obtain ⟨ts, hts, hrel⟩ := run_comma_list g_holiday Print.weekDayRange
    (fun w t => buildHoliday t = .ok w) OkHol FollowWd
    (fun w rest hw hr => parses_holiday w hw.1 hw.2 rest hr)
    FollowWd.comma x xs h rest hf hstop
  exact ⟨ts, by simp [g_holiday_sequence, run_rule, hts], mapM_of_forall₂ buildHoliday hrel⟩

theorem parses_weekday_sequence (x : WeekDayRange) (xs : List WeekDayRange)
    (h : ∀ y ∈ x :: xs, OkFix y) (rest : List Char) (hf : FollowWd rest)
    (hstop : run (.seq (.str [',']) g_weekday_range) false rest = none) :
    ∃ ts, run g_weekday_sequence false (wdSel (x :: xs) ++ rest)
        = some ⟨[.node .weekday_sequence (wdSel (x :: xs)) ts], wdSel (x :: xs), rest⟩
      ∧ ts.mapM buildWeekdayRange = .ok (x :: xs) := by
  obtain ⟨ts, hts, hrel⟩ := run_comma_list g_weekday_range Print.weekDayRange
    (fun w t => buildWeekdayRange t = .ok w) OkFix FollowWd
    (fun w rest hw hr => parses_weekday_range w hw.1 hw.2 rest hr)
    FollowWd.comma x xs h rest hf hstop
  exact ⟨ts, by simp [g_weekday_sequence, run_rule, hts], mapM_of_forall₂ buildWeekdayRange hrel⟩

/-! ### what may follow a weekday selector -/

/-- after the whole selector: the end, a comma or a space followed by something that starts neither a
weekday nor a holiday (nor, after the space, a day offset) -/
def FollowWdSel (rest : List Char) : Prop :=
  rest = [] ∨ (∃ c r, rest = ',' :: c :: r ∧ NoWdStart c)
    ∨ (∃ c r, rest = ' ' :: c :: r ∧ NoWdStart c ∧ c ≠ '+' ∧ c ≠ '-')

theorem FollowWdSel.toWd {rest : List Char} (h : FollowWdSel rest) : FollowWd rest := by
  rcases h with rfl | ⟨c, r, rfl, _⟩ | ⟨c, r, rfl, _, h1, h2⟩
  · exact .inl rfl
  · exact .inr (.inl ⟨_, rfl⟩)
  · exact .inr (.inr ⟨c, r, rfl, h1, h2⟩)

theorem FollowWeekday.toWdSel {rest : List Char} (h : FollowWeekday rest) : FollowWdSel rest := by
  rcases h with (rfl | ⟨r, rfl⟩ | ⟨c, r, rfl, hc⟩) | ⟨c, r, rfl, hc⟩
  · exact .inl rfl
  · exact .inr (.inl ⟨' ', r, rfl, by decide⟩)
  · refine .inr (.inr ⟨c, r, rfl, ?_⟩)
    rcases hc with rfl | rfl | rfl | rfl | rfl | rfl <;> decide
  · refine .inr (.inr ⟨c, r, rfl, ?_⟩)
    rcases hc with ⟨h0, h9⟩ | rfl | rfl | rfl
    · have key : ∀ d : Char, '0' ≤ d → d ≤ '9' → d ≠ 'S' ∧ d ≠ 'M' ∧ d ≠ 'T' ∧ d ≠ 'W' ∧ d ≠ 'F'
          ∧ d ≠ 'P' ∧ d ≠ '+' ∧ d ≠ '-' := by
        intro d h0 h9
        refine ⟨?_, ?_, ?_, ?_, ?_, ?_, ?_, ?_⟩ <;> (intro e; subst e; revert h0 h9; decide)
      obtain ⟨a1, a2, a3, a4, a5, a6, a7, a8⟩ := key c h0 h9
      exact ⟨⟨a1, a2, a3, a4, a5, a6⟩, a7, a8⟩
    · decide
    · decide
    · decide

/-! ### where the repetitions and the optional second part stop -/

theorem stop_holiday (rest : List Char) (h : FollowWdSel rest) :
    run (.seq (.str [',']) g_holiday) false rest = none := by
  rcases h with rfl | ⟨c, r, rfl, hc⟩ | ⟨c, r, rfl, _⟩
  · simp [peg]
  · simp [peg, run_holiday_none (c :: r) (.inr ⟨c, r, rfl, hc⟩)]
  · simp [peg]

theorem stop_weekday_range (rest : List Char) (h : FollowWdSel rest) :
    run (.seq (.str [',']) g_weekday_range) false rest = none := by
  rcases h with rfl | ⟨c, r, rfl, hc⟩ | ⟨c, r, rfl, _⟩
  · simp [peg]
  · simp [peg, run_weekday_range_none (run_wday_none false (c :: r) (.inr ⟨c, r, rfl, hc⟩))]
  · simp [peg]

theorem stop_holiday_sequence (rest : List Char) (h : FollowWdSel rest) :
    run (.seq (.alt (.str [',']) g_space) g_holiday_sequence) false rest = none := by
  rcases h with rfl | ⟨c, r, rfl, hc⟩ | ⟨c, r, rfl, hc, _⟩
  · simp [peg, g_space]
  · simp [peg, g_space, g_holiday_sequence, run_holiday_none (c :: r) (.inr ⟨c, r, rfl, hc⟩)]
  · simp [peg, g_space, g_holiday_sequence, run_holiday_none (c :: r) (.inr ⟨c, r, rfl, hc⟩)]

theorem stop_weekday_sequence (rest : List Char) (h : FollowWdSel rest) :
    run (.seq (.alt (.str [',']) g_space) g_weekday_sequence) false rest = none := by
  rcases h with rfl | ⟨c, r, rfl, hc⟩ | ⟨c, r, rfl, hc, _⟩
  · simp [peg, g_space]
  · simp [peg, g_space, g_weekday_sequence,
      run_weekday_range_none (run_wday_none false (c :: r) (.inr ⟨c, r, rfl, hc⟩))]
  · simp [peg, g_space, g_weekday_sequence,
      run_weekday_range_none (run_wday_none false (c :: r) (.inr ⟨c, r, rfl, hc⟩))]

/-! ### the selector -/

/-- a printed list, cut in two non-empty parts -/
theorem wdSel_append (x : WeekDayRange) (xs : List WeekDayRange) (y : WeekDayRange)
    (ys : List WeekDayRange) : wdSel (x :: xs ++ y :: ys) = wdSel (x :: xs) ++ ',' :: wdSel (y :: ys) := by
  simp [wdSel, selector_cons, tailStr_append, tailStr_cons]

/-- holidays first: `holiday_sequence ~ ("," ~ weekday_sequence)?` -/
theorem parses_selector_hol_first (h : WeekDayRange) (hs fs : List WeekDayRange)
    (hh : ∀ y ∈ h :: hs, OkHol y) (hfs : ∀ y ∈ fs, OkFix y) (rest : List Char)
    (hf : FollowWdSel rest) :
    ParsesTo g_weekday_selector buildWeekdaySelector (wdSel (h :: hs ++ fs)) rest (h :: hs ++ fs) := by
  cases fs with
  | nil =>
    obtain ⟨ts, hts, hb⟩ := parses_holiday_sequence h hs hh rest hf.toWd (stop_holiday rest hf)
    simp only [List.append_nil]
    refine ParsesTo.mk' .weekday_selector [.node .holiday_sequence (wdSel (h :: hs)) ts] ?_ ?_
    · simp [g_weekday_selector, run_rule, run_seq, run_alt, run_opt, R.append, R.nil, hts,
        stop_weekday_sequence rest hf]
    · simp [buildWeekdaySelector, assertRule, tree_rule, tree_kids, List.mapM_cons, hb, bind,
        Except.bind, pure, Except.pure]
  | cons f fs =>
    have hstop : run (.seq (.str [',']) g_holiday) false (',' :: (wdSel (f :: fs) ++ rest)) = none := by
      simp [peg, run_holiday_fixed f fs (hfs f (by simp)) rest]
    obtain ⟨ts, hts, hb⟩ := parses_holiday_sequence h hs hh (',' :: (wdSel (f :: fs) ++ rest))
      (FollowWd.comma _) hstop
    obtain ⟨ts2, hts2, hb2⟩ := parses_weekday_sequence f fs hfs rest hf.toWd
      (stop_weekday_range rest hf)
    rw [wdSel_append]
    refine ParsesTo.mk' .weekday_selector [.node .holiday_sequence (wdSel (h :: hs)) ts,
      .node .weekday_sequence (wdSel (f :: fs)) ts2] ?_ ?_
    · simp only [List.append_assoc, List.cons_append]
      simp [g_weekday_selector, run_rule, run_seq, run_alt, run_opt, run_str, stripPrefix_cons_cons,
        R.append, hts, hts2]
    · simp [buildWeekdaySelector, assertRule, tree_rule, tree_kids, List.mapM_cons, hb, hb2, bind,
        Except.bind, pure, Except.pure]

/-- the first alternative of `weekday_selector` fails on a list that starts with a weekday range -/
theorem run_holiday_sequence_fixed (f : WeekDayRange) (fs : List WeekDayRange) (hf : OkFix f)
    (r : List Char) : run g_holiday_sequence false (wdSel (f :: fs) ++ r) = none := by
  simp [g_holiday_sequence, peg, run_holiday_fixed f fs hf r]

/-- weekday ranges first: `weekday_sequence ~ ("," ~ holiday_sequence)?` -/
theorem parses_selector_fix_first (f : WeekDayRange) (fs hs : List WeekDayRange)
    (hfs : ∀ y ∈ f :: fs, OkFix y) (hh : ∀ y ∈ hs, OkHol y) (rest : List Char)
    (hf : FollowWdSel rest) :
    ParsesTo g_weekday_selector buildWeekdaySelector (wdSel (f :: fs ++ hs)) rest (f :: fs ++ hs) := by
  have hf0 := hfs f (by simp)
  cases hs with
  | nil =>
    obtain ⟨ts, hts, hb⟩ := parses_weekday_sequence f fs hfs rest hf.toWd (stop_weekday_range rest hf)
    simp only [List.append_nil]
    refine ParsesTo.mk' .weekday_selector [.node .weekday_sequence (wdSel (f :: fs)) ts] ?_ ?_
    · simp [g_weekday_selector, run_rule, run_seq, run_alt, run_opt, R.append, R.nil, hts,
        stop_holiday_sequence rest hf, run_holiday_sequence_fixed f fs hf0 rest]
    · simp [buildWeekdaySelector, assertRule, tree_rule, tree_kids, List.mapM_cons, hb, bind,
        Except.bind, pure, Except.pure]
  | cons h hs =>
    have hstop : run (.seq (.str [',']) g_weekday_range) false (',' :: (wdSel (h :: hs) ++ rest))
        = none := by
      simp [peg, run_weekday_range_holiday h hs (hh h (by simp)) rest]
    obtain ⟨ts, hts, hb⟩ := parses_weekday_sequence f fs hfs (',' :: (wdSel (h :: hs) ++ rest))
      (FollowWd.comma _) hstop
    obtain ⟨ts2, hts2, hb2⟩ := parses_holiday_sequence h hs hh rest hf.toWd (stop_holiday rest hf)
    have hfail := run_holiday_sequence_fixed f fs hf0 (',' :: (wdSel (h :: hs) ++ rest))
    rw [wdSel_append]
    refine ParsesTo.mk' .weekday_selector [.node .weekday_sequence (wdSel (f :: fs)) ts,
      .node .holiday_sequence (wdSel (h :: hs)) ts2] ?_ ?_
    · simp only [List.append_assoc, List.cons_append]
      simp [g_weekday_selector, run_rule, run_seq, run_alt, run_opt, run_str, stripPrefix_cons_cons,
        R.append, hts, hts2, hfail]
    · simp [buildWeekdaySelector, assertRule, tree_rule, tree_kids, List.mapM_cons, hb, hb2, bind,
        Except.bind, pure, Except.pure]

/-! ### the lists the parser builds -/

/-- the two alternatives of `weekday_selector`: holidays then (maybe) weekday ranges, or weekday
ranges then (maybe) holidays -/
def okShape (ws : List WeekDayRange) : Bool :=
  match ws with
  | [] => false
  | w :: _ =>
    if isHoliday w then (ws.dropWhile isHoliday).all (fun x => !isHoliday x)
    else (ws.dropWhile (fun x => !isHoliday x)).all isHoliday

/-- every list of weekday ranges and holidays the parser can build -/
def okWeekdays (ws : List WeekDayRange) : Bool := okShape ws && ws.all okRange

theorem takeWhile_all {α} (p : α → Bool) (l : List α) : ∀ x ∈ l.takeWhile p, p x = true := by
  induction l with
  | nil => simp
  | cons a l ih =>
    intro x hx
    rw [List.takeWhile_cons] at hx
    split at hx
    · next ha =>
      rcases List.mem_cons.mp hx with rfl | h
      · exact ha
      · exact ih x h
    · simp at hx

theorem parses_weekday_selector' (ws : List WeekDayRange) (hok : okWeekdays ws = true)
    (rest : List Char) (hf : FollowWdSel rest) :
    ParsesTo g_weekday_selector buildWeekdaySelector (Print.selector Print.weekDayRange ws) rest ws := by
  simp only [okWeekdays, Bool.and_eq_true, List.all_eq_true] at hok
  obtain ⟨hshape, hall⟩ := hok
  cases ws with
  | nil => simp [okShape] at hshape
  | cons w tl =>
    simp only [okShape] at hshape
    by_cases hw : isHoliday w = true
    · simp only [hw, if_true, List.all_eq_true] at hshape
      have hsplit := List.takeWhile_append_dropWhile (p := isHoliday) (l := w :: tl)
      have htw := takeWhile_all isHoliday (w :: tl)
      rw [List.takeWhile_cons, if_pos hw] at hsplit htw
      have hmem : ∀ y, y ∈ w :: List.takeWhile isHoliday tl ∨ y ∈ List.dropWhile isHoliday (w :: tl)
          → y ∈ w :: tl := by
        intro y hy; rw [← hsplit]; exact List.mem_append.mpr hy
      have := parses_selector_hol_first w (tl.takeWhile isHoliday) ((w :: tl).dropWhile isHoliday)
        (fun y hy => ⟨htw y hy, hall y (hmem y (.inl hy))⟩)
        (fun y hy => ⟨by simpa using hshape y hy, hall y (hmem y (.inr hy))⟩) rest hf
      rw [hsplit] at this
      exact this
    · have hw' : (!isHoliday w) = true := by simpa using hw
      simp only [hw, Bool.false_eq_true, if_false, List.all_eq_true] at hshape
      have hsplit := List.takeWhile_append_dropWhile (p := fun x => !isHoliday x) (l := w :: tl)
      have htw := takeWhile_all (fun x => !isHoliday x) (w :: tl)
      rw [List.takeWhile_cons, if_pos hw'] at hsplit htw
      have hmem : ∀ y, y ∈ w :: List.takeWhile (fun x => !isHoliday x) tl
          ∨ y ∈ List.dropWhile (fun x => !isHoliday x) (w :: tl) → y ∈ w :: tl := by
        intro y hy; rw [← hsplit]; exact List.mem_append.mpr hy
      have := parses_selector_fix_first w (tl.takeWhile fun x => !isHoliday x)
        ((w :: tl).dropWhile fun x => !isHoliday x)
        (fun y hy => ⟨by simpa using htw y hy, hall y (hmem y (.inl hy))⟩)
        (fun y hy => ⟨hshape y hy, hall y (hmem y (.inr hy))⟩) rest hf
      rw [hsplit] at this
      exact this

/-- THE ROUND TRIP OF WEEKDAY SELECTORS, in the standard context -/
theorem parses_weekday_selector (ws : List WeekDayRange) (_hne : ws ≠ []) (hok : okWeekdays ws = true)
    (rest : List Char) (hf : FollowWeekday rest) :
    ParsesTo g_weekday_selector buildWeekdaySelector (Print.selector Print.weekDayRange ws) rest ws :=
  parses_weekday_selector' ws hok rest hf.toWdSel

end OH.Proofs.Syn
