/-
Shared by `OH/Props/ArithC01Eval*.lean`: the generated evaluator core of opening-hours/src/opening_hours.rs
(`OH.Generated.Arith.Eval.*`, translated with ABSTRACT `Time` / `Kind` / `Comments` / `Op` / `DaySel` / `TimeSel` / `Ctx`)
instantiated at the carriers of the hand-written model `OH/Model/Eval.lean`: `Time := Nat` (minutes), `Kind :=
OH.Model.Kind`, `Comments := List String`, `Op := OH.Model.RuleOp`, `DaySel := OH.Model.DaySelector`, `TimeSel := List
OH.Model.TimeSpan`, `Ctx := OH.Model.Ctx`; the untranslated callees (named, effectful parameters of the generated
definitions) instantiated with the model's functions, a model panic `.error s` read as `.error (.panic s)`.
Definitions and small lemmas only; the tie theorems are in `OH/Props/ArithC01Eval.lean`.
-/
import OH.Generated.Arith
import OH.Model.Eval
import OH.Proofs.ArithSched
namespace OH.Proofs.ArithEval
open OH.Model.RustInt
open OH.Model.RustChrono
open OH.Generated.Arith
open OH.Proofs.ArithSched
open OH.Model (cunion)

abbrev GRule := Eval.RuleSequence Nat OH.Model.Kind (List String) OH.Model.RuleOp OH.Model.DaySelector
  (List OH.Model.TimeSpan) OH.Model.Ctx
abbrev GOH := Eval.OpeningHours Nat OH.Model.Kind (List String) OH.Model.RuleOp OH.Model.DaySelector
  (List OH.Model.TimeSpan) OH.Model.Ctx

/-- generated `RuleSequence` ↦ the model's `Rule` (a bijection: the same five fields) -/
def toRule (r : GRule) : OH.Model.Rule := ⟨r.day_selector, r.time_selector, r.kind, r.operator, r.comments⟩
def ofRule (r : OH.Model.Rule) : GRule := ⟨r.day, r.time, r.kind, r.op, r.comments⟩
@[simp] theorem toRule_day (r : GRule) : (toRule r).day = r.day_selector := rfl
@[simp] theorem toRule_time (r : GRule) : (toRule r).time = r.time_selector := rfl
@[simp] theorem toRule_kind (r : GRule) : (toRule r).kind = r.kind := rfl
@[simp] theorem toRule_op (r : GRule) : (toRule r).op = r.operator := rfl
@[simp] theorem toRule_comments (r : GRule) : (toRule r).comments = r.comments := rfl
@[simp] theorem toRule_ofRule (r : OH.Model.Rule) : toRule (ofRule r) = r := rfl
@[simp] theorem ofRule_toRule (r : GRule) : ofRule (toRule r) = r := rfl

/-- a model outcome as an outcome of generated code: the model's panic message is a panic -/
def liftR {α : Type} : OH.Model.M α → R α
  | .ok a => .ok a
  | .error s => .error (.panic s)
@[simp] theorem liftR_ok {α : Type} (a : α) : liftR (.ok a : OH.Model.M α) = .ok a := rfl
@[simp] theorem liftR_error {α : Type} (s : String) : liftR (.error s : OH.Model.M α) = .error (.panic s) := rfl

/-- the model's schedule as a generated `Schedule` -/
def toG (s : OH.Model.Schedule) : GSched := ⟨s.map ofM⟩
@[simp] theorem toG_inner (s : OH.Model.Schedule) : (toG s).inner.map toM = s := by simp [toG, Function.comp_def]

/-- the model's minute pairs as `Range<ExtendedTime>`s -/
def mkRanges (l : List (Nat × Nat)) : List (Range Nat) := l.map fun p => ⟨p.1, p.2⟩
@[simp] theorem mkRanges_pairs (l : List (Nat × Nat)) : ((mkRanges l).map fun r => (r.start, r.«end»)) = l := by
  simp [mkRanges, List.map_map, Function.comp_def]
@[simp] theorem mkRanges_length (l : List (Nat × Nat)) : (mkRanges l).length = l.length := by simp [mkRanges]

/-- the model functions standing for the untranslated callees -/
def gFilter (ds : OH.Model.DaySelector) (d : Int) (ctx : OH.Model.Ctx) : R Bool := liftR (OH.Model.DaySelector.filter ctx ds d)
def gIv (ctx : OH.Model.Ctx) (ts : List OH.Model.TimeSpan) (d : Int) : R (List (Range Nat)) :=
  match OH.Model.intervalsAt ctx ts d with
  | .ok l => .ok (mkRanges l)
  | .error s => .error (.panic s)
def gIvNext (ctx : OH.Model.Ctx) (ts : List OH.Model.TimeSpan) (d : Int) : R (List (Range Nat)) :=
  match OH.Model.intervalsAtNextDay ctx ts d with
  | .ok l => .ok (mkRanges l)
  | .error s => .error (.panic s)
/-- the model's stable insertion sort standing for `sort_unstable_by_key` (as in `ArithC14SchedFrom`) -/
def gSort (l : List GTR) : List GTR := (OH.Model.Schedule.sortByStart (l.map toM)).map ofM

/-- every interval list the time selectors produce fits a `Vec` (`len < 2^64`): the only hypothesis of the ties (the
`usize` index `i + 1` of `from_ranges` cannot overflow) -/
def ShortIntervals (ctx : OH.Model.Ctx) : Prop :=
  ∀ ts d l, (OH.Model.intervalsAt ctx ts d = .ok l ∨ OH.Model.intervalsAtNextDay ctx ts d = .ok l) → l.length < 2 ^ 64

/-- the generated `rule_sequence_schedule_at` at the instantiation -/
def gRule (ctx : OH.Model.Ctx) (dflt : List String) (r : GRule) (d : Int) (fuel : Nat) : R (Option GSched) :=
  Eval.rule_sequence_schedule_at r d ctx (ext_comments_default := dflt) (ext_day_selector_filter := gFilter)
    (ext_sort_unstable_by_key_range_start := gSort) (ext_time_selector_intervals_at := gIv)
    (ext_time_selector_intervals_at_next_day := gIvNext) (ext_union := cunion) fuel

/-- the generated loop of `schedule_at` at the instantiation -/
def gLoop (dflt : List String) (self : GOH) (d : Int) (fuel : Nat) (rules : List GRule) (pm : Bool) (pe : Option GSched) :
    R (Flow GSched (Bool × Option GSched)) :=
  Eval.OpeningHours.schedule_at.loop1 self d fuel rules pm pe
    (RuleKind_Closed := .closed) (RuleKind_Open := .open) (RuleKind_Unknown := .unknown)
    (RuleOperator_Additional := .additional) (RuleOperator_Fallback := .fallback) (RuleOperator_Normal := .normal)
    (ext_comments_default := dflt) (ext_day_selector_filter := gFilter)
    (ext_sort_unstable_by_key_range_start := gSort) (ext_time_selector_intervals_at := gIv)
    (ext_time_selector_intervals_at_next_day := gIvNext) (ext_union := cunion)

/-- the generated `OpeningHours::schedule_at` at the instantiation -/
def gScheduleAt (dflt : List String) (self : GOH) (d : Int) (fuel : Nat) : R GSched :=
  Eval.OpeningHours.schedule_at self d
    (RuleKind_Closed := .closed) (RuleKind_Open := .open) (RuleKind_Unknown := .unknown)
    (RuleOperator_Additional := .additional) (RuleOperator_Fallback := .fallback) (RuleOperator_Normal := .normal)
    (ext_comments_default := dflt) (ext_day_selector_filter := gFilter)
    (ext_sort_unstable_by_key_range_start := gSort) (ext_time_selector_intervals_at := gIv)
    (ext_time_selector_intervals_at_next_day := gIvNext) (ext_union := cunion) fuel

/-- the model's per-rule result as generated values -/
def optG (o : Option OH.Model.Schedule) : Option GSched := o.map toG

/-- fuel for the overlay `prev.addition(curr)` of one step of the fold (the bound of `ArithC14Sched.addition_eq_model`) -/
def Nadd (pe ce : Option OH.Model.Schedule) : Nat :=
  match pe, ce with
  | some p, some c => 2 ^ c.length * (p.length + 1) + c.length
  | _, _ => 0

end OH.Proofs.ArithEval
