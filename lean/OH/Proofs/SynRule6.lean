import OH.Proofs.SynRule5
/-
Assembly, part 6: `opening_hours = { rule_sequence ~ (any_rule_separator ~ rule_sequence)* }` on
`Print.expr e` (induction on the list of rules), the entry rule `SOI ~ &ANY ~ opening_hours ~ EOI`, and
`parseChars`.  Result: `parse_print_roundtrip_partial`, the round trip under the hypothesis `WideHyp` on
the year / month-day / week part of each rule (discharged in SynRule7).
-/
namespace OH.Proofs.Syn
open OH.Model OH.Model.Peg OH.Model.Parser OH.Generated.Grammar OH.Proofs.Syn.Wide

/-- every rule of the list is covered by the rule-level lemma -/
def RulesOK (rs : List Rule) : Prop :=
  ∀ r ∈ rs, okRuleSmall r = true ∧ (wideEmpty r.day = false → WideHyp r.day)

theorem followRule_exprTail (rs : List Rule) : FollowRule (Print.exprTail rs) := by
  cases rs with
  | nil => exact .inl rfl
  | cons r rs => exact .inr ⟨r.op, Print.rule r ++ Print.exprTail rs, by simp [Print.exprTail]⟩

theorem sepStr_inj (a b : RuleOp) (x y : List Char) (h : Print.sepStr a ++ x = Print.sepStr b ++ y) :
    a = b ∧ x = y := by
  cases a <;> cases b <;> simp_all [Print.sepStr, Print.str]

theorem sepStr_ne_nil (a : RuleOp) (x : List Char) : Print.sepStr a ++ x ≠ [] := by
  cases a <;> simp [Print.sepStr, Print.str]

theorem sepCore_ne_nil (a : RuleOp) : sepCore a ≠ [] := by
  cases a <;> simp [sepCore]

/-! ### `buildOpeningHoursLoop`, one step -/

theorem loop_rule (t : T) (ts : List T) (ht : t.rule = .rule_sequence) (r : Rule) (rs : List Rule)
    (h1 : buildRuleSequence t .normal = .ok r) (h2 : buildOpeningHoursLoop ts = .ok rs) :
    buildOpeningHoursLoop (t :: ts) = .ok (r :: rs) := by
  cases t with
  | node a b c =>
    simp only [Tree.rule] at ht
    subst ht
    rw [buildOpeningHoursLoop.eq_def]
    simp [Tree.rule, h1, h2, bind, Except.bind]

theorem loop_sep (s t : T) (ts : List T) (hs : s.rule = .any_rule_separator) (op : RuleOp) (r : Rule)
    (rs : List Rule) (h0 : buildAnyRuleSeparator s = .ok op) (h1 : buildRuleSequence t op = .ok r)
    (h2 : buildOpeningHoursLoop ts = .ok rs) :
    buildOpeningHoursLoop (s :: t :: ts) = .ok (r :: rs) := by
  cases s with
  | node a b c =>
    simp only [Tree.rule] at hs
    subst hs
    rw [buildOpeningHoursLoop.eq_def]
    simp [Tree.rule, h0, h1, h2, bind, Except.bind]

theorem joinRuleComments_op (r : Rule) : { joinRuleComments r with op := r.op } = joinRuleComments r := by
  unfold joinRuleComments
  split <;> rfl

/-! ### `(any_rule_separator ~ rule_sequence)*` -/

theorem run_rules_star (rs : List Rule) (hok : RulesOK rs) (inp : List Char)
    (h : AfterRule (Print.exprTail rs) inp) :
    ∃ ts eaten, run (.star (.seq g_any_rule_separator g_rule_sequence)) false inp = some ⟨ts, eaten, []⟩ ∧
      buildOpeningHoursLoop ts = .ok (rs.map joinRuleComments) := by
  induction rs generalizing inp with
  | nil =>
    have : inp = [] := by
      rcases h with ⟨_, h⟩ | ⟨op, tail, sp, h, _⟩
      · exact h
      · exact absurd h.symm (sepStr_ne_nil op tail)
    subst this
    refine ⟨[], [], ?_, rfl⟩
    have hnone : run (.seq g_any_rule_separator g_rule_sequence) false [] = none := by
      simp [g_any_rule_separator, g_normal_rule_separator, g_additional_rule_separator,
        g_fallback_rule_separator, g_space, peg]
    simpa [R.nil] using run_star_none hnone
  | cons r rs ih =>
    obtain ⟨hr, hw⟩ := hok r (by simp)
    have hok' : RulesOK rs := fun x hx => hok x (by simp [hx])
    rcases h with ⟨h, _⟩ | ⟨op, tail, sp, h, hsp, rfl⟩
    · exfalso
      simp only [Print.exprTail, List.append_assoc] at h
      exact sepStr_ne_nil _ _ h
    · simp only [Print.exprTail, List.append_assoc] at h
      obtain ⟨rfl, rfl⟩ := sepStr_inj _ _ _ _ h
      obtain ⟨c, cs, ehead, hstart⟩ := rule_head r hr hw
      have hnsp : ∀ x, Print.rule r ++ Print.exprTail rs ≠ ' ' :: x := by
        intro x e
        rw [ehead] at e
        injection e with e1 _
        exact hstart.1 e1
      have hsep := run_sep r.op sp hsp _ hnsp
      obtain ⟨t, eaten, rest', hafter, hrun, hbuild⟩ :=
        run_rule_sequence r hr hw (Print.exprTail rs) (followRule_exprTail rs)
      obtain ⟨ts, eaten', hstar, hloop⟩ := ih hok' rest' hafter
      have hbody : run (.seq g_any_rule_separator g_rule_sequence) false
          (sp ++ sepCore r.op ++ (Print.rule r ++ Print.exprTail rs))
          = some ⟨[sepTree r.op (sp ++ sepCore r.op), t], sp ++ sepCore r.op ++ eaten, rest'⟩ := by
        rw [run_seq, hsep]
        simp [hrun, R.append]
      have hne : (⟨[sepTree r.op (sp ++ sepCore r.op), t], sp ++ sepCore r.op ++ eaten, rest'⟩ : R PRule).eaten
          ≠ [] := by
        have := sepCore_ne_nil r.op
        simp [this]
      have := run_star_some hbody hne hstar
      refine ⟨sepTree r.op (sp ++ sepCore r.op) :: t :: ts, _, this, ?_⟩
      have h1 := hbuild r.op
      rw [joinRuleComments_op] at h1
      exact loop_sep _ t ts rfl r.op _ _ (build_sep _ _) h1 hloop

/-! ### `opening_hours` and the entry rule -/

theorem run_opening_hours (r : Rule) (rs : List Rule) (hok : RulesOK (r :: rs)) (hop : r.op = .normal) :
    ∃ t eaten, run g_opening_hours false (Print.expr (r :: rs)) = some ⟨[t], eaten, []⟩ ∧
      buildOpeningHours t = .ok ((r :: rs).map joinRuleComments) := by
  obtain ⟨hr, hw⟩ := hok r (by simp)
  have hok' : RulesOK rs := fun x hx => hok x (by simp [hx])
  obtain ⟨t, eaten, rest', hafter, hrun, hbuild⟩ :=
    run_rule_sequence r hr hw (Print.exprTail rs) (followRule_exprTail rs)
  obtain ⟨ts, eaten', hstar, hloop⟩ := run_rules_star rs hok' rest' hafter
  have hrule := rule_of_run hrun
  refine ⟨.node .opening_hours (eaten ++ eaten') (t :: ts), eaten ++ eaten', ?_, ?_⟩
  · simp only [Print.expr, g_opening_hours, run_rule, run_seq, Bool.or_self, hrun, hstar]
    simp [R.append]
  · have h1 := hbuild .normal
    rw [← hop, joinRuleComments_op] at h1
    rw [hop] at h1
    simp only [buildOpeningHours, assertRule, Tree.rule, Tree.kids, reduceIte, bind, Except.bind]
    exact loop_rule t ts hrule _ _ h1 hloop

/-- the round trip for a non-empty list of rules that are each covered by the rule-level lemma -/
theorem parseChars_expr (r : Rule) (rs : List Rule) (hok : RulesOK (r :: rs)) (hop : r.op = .normal) :
    parseChars (Print.expr (r :: rs)) = .ok ((r :: rs).map joinRuleComments) := by
  obtain ⟨t, eaten, hrun, hbuild⟩ := run_opening_hours r rs hok hop
  obtain ⟨hr, hw⟩ := hok r (by simp)
  obtain ⟨c, cs, ehead, -⟩ := rule_head r hr hw
  have hany : run (.andp .any : G) false (Print.expr (r :: rs)) = some ⟨[], [], Print.expr (r :: rs)⟩ := by
    simp only [Print.expr, ehead]
    simp [peg]
  have hentry : run entry false (Print.expr (r :: rs))
      = some ⟨[t, .node .EOI [] []], eaten, []⟩ := by
    simp only [entry, g_input_opening_hours, run_seq, run_soi, R.nil, hany, hrun]
    simp [peg]
  simp only [parseChars, parseWith, hentry, Option.map_some]
  exact hbuild

/-! ### the statement, with the wide part as a hypothesis -/

/-- the expression the round-trip theorem predicts for `parse (print e)` (as `OH.Driver.Syn.joinComments`) -/
def joinComments (e : Expr) : Expr :=
  match e.map joinRuleComments with
  | [] => [⟨⟨[], [], [], []⟩, [TimeSpan.fullDay], .closed, .normal, []⟩]   -- printed `closed`
  | r :: rest => { r with op := .normal } :: rest

theorem joinComments_eq (r : Rule) (rs : List Rule) (hop : r.op = .normal) :
    joinComments (r :: rs) = (r :: rs).map joinRuleComments := by
  have := (joinRuleComments_fields r).2.2.2
  simp only [joinComments, List.map_cons]
  congr 1
  rw [← hop, ← this]

/-- PARTIAL form of the round trip: for a non-empty expression whose first rule is `Normal`, whose
weekday lists, time lists and comments are parser-producible, and whose wide parts satisfy `WideHyp` -/
theorem parse_print_roundtrip_partial (e : Expr) (hne : e ≠ [])
    (hop : ∀ r, e.head? = some r → r.op = .normal)
    (hsmall : ∀ r ∈ e, okRuleSmall r = true)
    (hwide : ∀ r ∈ e, wideEmpty r.day = false → WideHyp r.day) :
    parseChars (Print.expr e) = .ok (joinComments e) := by
  cases e with
  | nil => exact absurd rfl hne
  | cons r rs =>
    have hop' := hop r rfl
    rw [joinComments_eq r rs hop']
    exact parseChars_expr r rs (fun x hx => ⟨hsmall x hx, hwide x hx⟩) hop'

end OH.Proofs.Syn
