import OH.Proofs.EvalSpecMonad
import OH.Proofs.CalendarEval
import OH.Spec.Rules
import OH.Model.ParserWF
/-
C01 refinement, layer 2: every selector's `filter` of the evaluator model returns (never `.error`)
the corresponding predicate of the declarative specification (`OH.Spec.Rules`).
Dated ranges (`MonthdayRange.date`) are the subject of OH/Proofs/EvalSpecDated*.lean; here they enter
through the hypothesis that `filter` and `datedOk` agree on the day considered.
-/
namespace OH.Proofs.EvalSpec
open OH.Model OH.Model.Cal

theorem wrappingContains_eq_inWrap (lo hi x : Nat) :
    wrappingContains lo hi x = OH.Spec.inWrap lo hi x := by
  unfold wrappingContains OH.Spec.inWrap
  split <;> simp

/-! ### year ranges -/

/-- `YearRange::filter` = `yearOk`, for every day whose year fits `u16` (negative years: both false) -/
theorem yearFilter_eq (r : YearRange) (d : Int) (hs : r.step ≠ 0) (hy : year d ≤ 65535) :
    YearRange.filter r d = .ok (OH.Spec.yearOk r d) := by
  unfold YearRange.filter OH.Spec.yearOk
  simp only []
  by_cases h0 : year d < 0
  · have : ¬ (0 ≤ year d) := by omega
    simp [h0, this]
  · have h0' : 0 ≤ year d := by omega
    rw [if_neg (by omega), wrappingContains_eq_inWrap]
    cases hw : OH.Spec.inWrap r.lo r.hi (year d).toNat
    · simp
    · simp [OH.Spec.absDiff, h0', hs]

/-! ### week ranges -/

theorem weekFilter_eq (r : WeekRange) (d : Int) (hs : r.step ≠ 0) :
    WeekRange.filter r d = .ok (OH.Spec.weekOk r d) := by
  unfold WeekRange.filter OH.Spec.weekOk
  simp only []
  rw [wrappingContains_eq_inWrap]
  cases hw : OH.Spec.inWrap r.lo r.hi (isoWeek d)
  · simp
  · simp [hs]

/-! ### month ranges -/

/-- `MonthdayRange::Month::filter`: `date.year() as u16` is the year for years 0..65535 -/
theorem monthFilter_eq (lo hi : Nat) (yr : Option Nat) (d : Int) (h0 : 0 ≤ year d) (h1 : year d ≤ 65535) :
    MonthdayRange.filter (.month lo hi yr) d = .ok (OH.Spec.monthdayOk (.month lo hi yr) d) := by
  unfold MonthdayRange.filter OH.Spec.monthdayOk
  simp only []
  rw [wrappingContains_eq_inWrap]
  have e : year d % 65536 = year d := by omega
  rw [e]
  cases yr with
  | none => simp
  | some y =>
    congr 2
    simp only [Option.getD_some]
    rw [Bool.eq_iff_iff]
    simp only [beq_iff_eq, decide_eq_true_eq]
    omega

/-! ### weekday and holiday ranges -/

/-- `add_days_saturating(date, offset.saturating_neg())` is `date - offset` whenever both the date
and the shifted date are representable -/
theorem addDaysSat_satNeg {d off : Int} (hd : minDay ≤ d ∧ d ≤ maxDay)
    (hr : minDay ≤ d - off ∧ d - off ≤ maxDay) : addDaysSat d (satNeg off) = d - off := by
  rw [minDay_eq, maxDay_eq] at hd hr
  have e : satNeg off = -off := by unfold satNeg; rw [if_neg (by omega)]
  rw [e, addDaysSat_eq (by omega) (by rw [minDay_eq]; omega) (by rw [maxDay_eq]; omega)]
  omega

/-- outside the representable days the shifted date saturates at `NaiveDate::MIN` / `MAX` -/
theorem addDaysSat_satNeg_sat {d off : Int} (hd : minDay ≤ d ∧ d ≤ maxDay)
    (hr : ¬ (minDay ≤ d - off ∧ d - off ≤ maxDay)) :
    addDaysSat d (satNeg off) = minDay ∨ addDaysSat d (satNeg off) = maxDay := by
  unfold addDaysSat
  split
  · split <;> simp
  · split
    · rename_i r h
      rw [addDays?_eq_some_iff] at h
      exfalso
      rw [minDay_eq, maxDay_eq] at hd hr h
      unfold satNeg at h
      split at h <;> omega
    · split <;> simp

/-- the calendar holds no day outside the representable ones and neither of the two extreme days
(`NaiveDate::MIN`, `NaiveDate::MAX`), at which shifted dates saturate -/
def calInterior (c : List Day) : Bool := c.all (fun x => decide (minDay < x ∧ x < maxDay))

/-- Scope of the weekday selectors.  The implementation shifts the evaluated day by the offset with
*saturation* at the ends of chrono's representable dates (±262 000 years); the documented semantics
shift exactly.  The two agree when the shifted day is representable — guaranteed for every day of
1900–9999 when `|offset| ≤ 92 093 339` days — and, for holidays, also when the calendar does not
contain the two extreme representable days. -/
def offSmall (off : Int) : Bool := decide (-92093339 ≤ off ∧ off ≤ 92093339)

def wdayScope (ctx : Ctx) : WeekDayRange → Bool
  | .fixed _ _ off _ _ => offSmall off
  | .holiday k off => offSmall off || calInterior (match k with | .pub => ctx.pub | .school => ctx.school)

/-- a day of 1899-12-31 … 9999-12-31 shifted by a small offset is representable -/
theorem offSmall_repr {d off : Int} (h : offSmall off = true) (h1 : dateStart - 1 ≤ d) (h2 : d < dateEnd) :
    minDay ≤ d - off ∧ d - off ≤ maxDay := by
  simp only [offSmall, decide_eq_true_eq] at h
  rw [dateStart_eq] at h1; rw [dateEnd_eq] at h2; rw [minDay_eq, maxDay_eq]
  omega

theorem window_repr {d : Int} (h1 : dateStart - 1 ≤ d) (h2 : d < dateEnd) : minDay ≤ d ∧ d ≤ maxDay := by
  rw [dateStart_eq] at h1; rw [dateEnd_eq] at h2; rw [minDay_eq, maxDay_eq]
  omega

theorem cal_shift_eq (cal : List Day) (off d : Int)
    (hsc : (offSmall off || calInterior cal) = true) (h1 : dateStart - 1 ≤ d) (h2 : d < dateEnd) :
    cal.contains (addDaysSat d (satNeg off)) = cal.contains (d - off) := by
  have hd := window_repr h1 h2
  by_cases hr : minDay ≤ d - off ∧ d - off ≤ maxDay
  · rw [addDaysSat_satNeg hd hr]
  · simp only [Bool.or_eq_true] at hsc
    rcases hsc with hsc | hsc
    · exact absurd (offSmall_repr hsc h1 h2) hr
    · -- neither the saturated day nor the exactly shifted day is in the calendar
      simp only [calInterior, List.all_eq_true, decide_eq_true_eq] at hsc
      have n1 : cal.contains (d - off) = false := by
        rw [Bool.eq_false_iff]; intro hc
        have := hsc _ (List.contains_iff_mem.mp hc)
        omega
      have n2 : cal.contains (addDaysSat d (satNeg off)) = false := by
        rw [Bool.eq_false_iff]; intro hc
        have := hsc _ (List.contains_iff_mem.mp hc)
        rcases addDaysSat_satNeg_sat hd hr with e | e <;> omega
      rw [n1, n2]

theorem holidayFilter_eq (ctx : Ctx) (k : HolidayKind) (off d : Int)
    (hsc : wdayScope ctx (.holiday k off) = true) (h1 : dateStart - 1 ≤ d) (h2 : d < dateEnd) :
    WeekDayRange.filter ctx (.holiday k off) d = .ok (OH.Spec.weekdayOk ctx (.holiday k off) d) := by
  unfold WeekDayRange.filter OH.Spec.weekdayOk calContains
  simp only [pure_eq_ok]
  cases k <;> simp only [wdayScope] at hsc ⊢ <;> rw [cal_shift_eq _ off d hsc h1 h2]

theorem nthGet_ok (l : List Bool) (i : Nat) (site : String) (h : i < l.length) :
    nthGet l i site = .ok (l.getD i false) := by
  unfold nthGet
  simp [List.getD, List.getElem?_eq_getElem h]

/-- non-wrapping `WeekDayRange::Fixed::filter` -/
theorem wdayFixedSimple_eq (lo hi : Nat) (off : Int) (ns ne : List Bool) (d : Int)
    (hns : ns.length = 5) (hne : ne.length = 5) (hd : minDay ≤ d ∧ d ≤ maxDay)
    (hr : minDay ≤ d - off ∧ d - off ≤ maxDay) :
    wdayFixedSimple lo hi off ns ne d = .ok (OH.Spec.inWrap lo hi (weekday (d - off)) &&
      (ns.getD ((dayOfMonth (d - off) - 1) / 7) false
        || ne.getD ((daysInMonth (year (d - off)) (Cal.month (d - off)) - dayOfMonth (d - off)) / 7) false)) := by
  unfold wdayFixedSimple
  simp only [addDaysSat_satNeg hd hr, countDaysInMonth_eq _ hr.1 hr.2, ok_bind, pure_eq_ok]
  have hb := dayOfMonth_bounds (d - off)
  have hm := daysInMonth_bounds (year (d - off)) (Cal.month (d - off))
  rw [if_neg (by omega), wrappingContains_eq_inWrap]
  cases OH.Spec.inWrap lo hi (weekday (d - off))
  · simp
  · simp only [if_true, Bool.true_and]
    rw [nthGet_ok _ _ _ (by omega), nthGet_ok _ _ _ (by omega)]
    simp only [ok_bind]
    cases ns.getD ((dayOfMonth (d - off) - 1) / 7) false <;> simp

theorem fixedFilter_eq (ctx : Ctx) (lo hi : Nat) (off : Int) (ns ne : List Bool) (d : Int)
    (hlo : lo ≤ 6) (hns : ns.length = 5) (hne : ne.length = 5)
    (hd : minDay ≤ d ∧ d ≤ maxDay) (hr : minDay ≤ d - off ∧ d - off ≤ maxDay) :
    WeekDayRange.filter ctx (.fixed lo hi off ns ne) d = .ok (OH.Spec.weekdayOk ctx (.fixed lo hi off ns ne) d) := by
  unfold WeekDayRange.filter OH.Spec.weekdayOk
  simp only [wdayFixedSimple_eq _ _ off ns ne d hns hne hd hr, ok_bind, pure_eq_ok]
  have hw := weekday_lt (d - off)
  generalize weekday (d - off) = w at hw
  generalize (ns.getD _ false || ne.getD _ false) = nth
  by_cases h : lo > hi
  · rw [if_pos h]
    have e1 : OH.Spec.inWrap lo 6 w = decide (lo ≤ w) := by
      simp only [OH.Spec.inWrap, if_pos hlo]; have : w ≤ 6 := by omega
      simp [this]
    have e2 : OH.Spec.inWrap 0 hi w = decide (w ≤ hi) := by simp [OH.Spec.inWrap]
    have e3 : OH.Spec.inWrap lo hi w = (decide (lo ≤ w) || decide (w ≤ hi)) := by
      simp only [OH.Spec.inWrap, if_neg (show ¬ lo ≤ hi by omega)]
    rw [e1, e2, e3]
    cases decide (lo ≤ w) <;> cases decide (w ≤ hi) <;> cases nth <;> rfl
  · rw [if_neg h]

theorem weekdayFilter_eq (ctx : Ctx) (r : WeekDayRange) (d : Int) (hwf : r.wf = true)
    (hsc : wdayScope ctx r = true) (h1 : dateStart - 1 ≤ d) (h2 : d < dateEnd) :
    WeekDayRange.filter ctx r d = .ok (OH.Spec.weekdayOk ctx r d) := by
  cases r with
  | holiday k off => exact holidayFilter_eq ctx k off d hsc h1 h2
  | fixed lo hi off ns ne =>
    simp only [WeekDayRange.wf, Bool.and_eq_true, decide_eq_true_eq, beq_iff_eq] at hwf
    exact fixedFilter_eq ctx lo hi off ns ne d hwf.1.1.1.1 hwf.1.2 hwf.2
      (window_repr h1 h2) (offSmall_repr hsc h1 h2)

/-! ### the four selectors together -/

/-- the model's filter and the specification agree on the dated ranges of selector `s` on day `d`
(discharged, for the classes of dated ranges covered, in OH/Proofs/EvalSpecDated*.lean) -/
def DatedAgreeSel (s : DaySelector) (d : Int) : Prop :=
  ∀ a so b eo, MonthdayRange.date a so b eo ∈ s.monthday →
    MonthdayRange.filter (.date a so b eo) d = .ok (OH.Spec.datedOk a so b eo d)

def selScope (ctx : Ctx) (s : DaySelector) : Bool := s.weekday.all (wdayScope ctx)

/-- the `applies` conjunction of the specification, on a selector -/
def selOk (ctx : Ctx) (s : DaySelector) (d : Int) : Bool :=
  OH.Spec.anyOrEmpty s.year (OH.Spec.yearOk · d) && OH.Spec.anyOrEmpty s.monthday (OH.Spec.monthdayOk · d)
    && OH.Spec.anyOrEmpty s.week (OH.Spec.weekOk · d) && OH.Spec.anyOrEmpty s.weekday (OH.Spec.weekdayOk ctx · d)

theorem applies_eq_selOk (ctx : Ctx) (r : Rule) (d : Int) : OH.Spec.applies ctx r d = selOk ctx r.day d := rfl

theorem year_window {d : Int} (h1 : dateStart - 1 ≤ d) (h2 : d < dateEnd) : 1899 ≤ year d ∧ year d ≤ 9999 := by
  constructor
  · have : year (dateStart - 1) ≤ year d := year_mono h1
    have e : year (dateStart - 1) = 1899 := by
      rw [year_eq_iff, dateStart_eq]; decide
    omega
  · have : year d ≤ year (dateEnd - 1) := year_mono (by omega)
    rw [year_dateEnd_pred] at this; exact this

/-- `DaySelector::filter` never fails and computes the specification's conjunction -/
theorem daySelectorFilter_eq (ctx : Ctx) (s : DaySelector) (d : Int) (hwf : s.wf = true)
    (hsc : selScope ctx s = true) (hda : DatedAgreeSel s d) (h1 : dateStart - 1 ≤ d) (h2 : d < dateEnd) :
    DaySelector.filter ctx s d = .ok (selOk ctx s d) := by
  simp only [DaySelector.wf, Bool.and_eq_true, List.all_eq_true] at hwf
  obtain ⟨⟨⟨wy, wm⟩, ww⟩, wd⟩ := hwf
  simp only [selScope, List.all_eq_true] at hsc
  have hy := year_window h1 h2
  have e1 : listFilter (·.filter d) s.year = .ok (OH.Spec.anyOrEmpty s.year (OH.Spec.yearOk · d)) :=
    listFilter_ok _ _ _ (fun r hr => by
      have := wy r hr
      simp only [YearRange.wf, Bool.and_eq_true, decide_eq_true_eq] at this
      exact yearFilter_eq r d (by omega) (by omega))
  have e2 : listFilter (·.filter d) s.monthday = .ok (OH.Spec.anyOrEmpty s.monthday (OH.Spec.monthdayOk · d)) :=
    listFilter_ok _ _ _ (fun r hr => by
      cases r with
      | month lo hi yr => exact monthFilter_eq lo hi yr d (by omega) (by omega)
      | date a so b eo => exact hda a so b eo hr)
  have e3 : listFilter (·.filter d) s.week = .ok (OH.Spec.anyOrEmpty s.week (OH.Spec.weekOk · d)) :=
    listFilter_ok _ _ _ (fun r hr => by
      have := ww r hr
      simp only [WeekRange.wf, Bool.and_eq_true, decide_eq_true_eq] at this
      exact weekFilter_eq r d (by omega))
  have e4 : listFilter (·.filter ctx d) s.weekday = .ok (OH.Spec.anyOrEmpty s.weekday (OH.Spec.weekdayOk ctx · d)) :=
    listFilter_ok _ _ _ (fun r hr => weekdayFilter_eq ctx r d (wd r hr) (hsc r hr) h1 h2)
  unfold DaySelector.filter selOk
  simp only [e1, e2, e3, e4, ok_bind]
  cases OH.Spec.anyOrEmpty s.year (OH.Spec.yearOk · d) <;>
    cases OH.Spec.anyOrEmpty s.monthday (OH.Spec.monthdayOk · d) <;>
    cases OH.Spec.anyOrEmpty s.week (OH.Spec.weekOk · d) <;>
    cases OH.Spec.anyOrEmpty s.weekday (OH.Spec.weekdayOk ctx · d) <;> rfl

end OH.Proofs.EvalSpec
