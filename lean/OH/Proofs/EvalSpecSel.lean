import OH.Proofs.EvalSpecMonad
import OH.Proofs.EvalSpecSat
import OH.Proofs.CalendarEval
import OH.Spec.Rules
import OH.Model.ParserWF
/-
C01 refinement, layer 2: every selector's `filter` of the evaluator model returns (never `.error`)
the corresponding predicate of the declarative specification (`OH.Spec.Rules`).
Dated ranges (`MonthdayRange.date`) are the subject of OH/Proofs/EvalSpecDated*.lean; here they enter
through the hypothesis that `filter` and `datedOk` agree on the day considered.
-/
namespace OH.Proofs.EvalSpec
open OH.Model OH.Model.Cal

theorem wrappingContains_eq_inWrap (lo hi x : Nat) :
    wrappingContains lo hi x = OH.Spec.inWrap lo hi x := by
  unfold wrappingContains OH.Spec.inWrap
  split <;> simp

/-! ### year ranges -/

/-- `YearRange::filter` = `yearOk`, for every day whose year fits `u16` (negative years: both false) -/
theorem yearFilter_eq (r : YearRange) (d : Int) (hs : r.step ≠ 0) (hy : year d ≤ 65535) :
    YearRange.filter r d = .ok (OH.Spec.yearOk r d) := by
  unfold YearRange.filter OH.Spec.yearOk
  simp only []
  by_cases h0 : year d < 0
  · have : ¬ (0 ≤ year d) := by omega
    simp [h0, this]
  · have h0' : 0 ≤ year d := by omega
    rw [if_neg (by omega), wrappingContains_eq_inWrap]
    cases hw : OH.Spec.inWrap r.lo r.hi (year d).toNat
    · simp
    · simp [OH.Spec.absDiff, h0', hs]

/-! ### week ranges -/

theorem weekFilter_eq (r : WeekRange) (d : Int) (hs : r.step ≠ 0) :
    WeekRange.filter r d = .ok (OH.Spec.weekOk r d) := by
  unfold WeekRange.filter OH.Spec.weekOk
  simp only []
  rw [wrappingContains_eq_inWrap]
  cases hw : OH.Spec.inWrap r.lo r.hi (isoWeek d)
  · simp
  · simp [hs]

/-! ### month ranges -/

/-- `MonthdayRange::Month::filter`: `date.year() as u16` is the year for years 0..65535 -/
theorem monthFilter_eq (lo hi : Nat) (yr : Option Nat) (d : Int) (h0 : 0 ≤ year d) (h1 : year d ≤ 65535) :
    MonthdayRange.filter (.month lo hi yr) d = .ok (OH.Spec.monthdayOk (.month lo hi yr) d) := by
  unfold MonthdayRange.filter OH.Spec.monthdayOk
  simp only []
  rw [wrappingContains_eq_inWrap]
  have e : year d % 65536 = year d := by omega
  rw [e]
  cases yr with
  | none => simp
  | some y =>
    congr 2
    simp only [Option.getD_some]
    rw [Bool.eq_iff_iff]
    simp only [beq_iff_eq, decide_eq_true_eq]
    omega

/-! ### weekday and holiday ranges

The specification shifts the evaluated day with the same saturating shift as the code
(`addDaysSat d (satNeg off)`), so no bound on the offset is involved. -/

theorem window_repr {d : Int} (h1 : dateStart - 1 ≤ d) (h2 : d < dateEnd) : minDay ≤ d ∧ d ≤ maxDay := by
  rw [dateStart_eq] at h1; rw [dateEnd_eq] at h2; rw [minDay_eq, maxDay_eq]
  omega

theorem holidayFilter_eq (ctx : Ctx) (k : HolidayKind) (off d : Int) :
    WeekDayRange.filter ctx (.holiday k off) d = .ok (OH.Spec.weekdayOk ctx (.holiday k off) d) := by
  unfold WeekDayRange.filter OH.Spec.weekdayOk calContains
  simp only [pure_eq_ok]
  cases k <;> rfl

theorem nthGet_ok (l : List Bool) (i : Nat) (site : String) (h : i < l.length) :
    nthGet l i site = .ok (l.getD i false) := by
  unfold nthGet
  simp [List.getD, List.getElem?_eq_getElem h]

/-- non-wrapping `WeekDayRange::Fixed::filter`, on the shifted day `d'` -/
theorem wdayFixedSimple_eq (lo hi : Nat) (off : Int) (ns ne : List Bool) (d : Int)
    (hns : ns.length = 5) (hne : ne.length = 5) :
    wdayFixedSimple lo hi off ns ne d = .ok (OH.Spec.inWrap lo hi (weekday (addDaysSat d (satNeg off))) &&
      (ns.getD ((dayOfMonth (addDaysSat d (satNeg off)) - 1) / 7) false
        || ne.getD ((daysInMonth (year (addDaysSat d (satNeg off))) (Cal.month (addDaysSat d (satNeg off)))
              - dayOfMonth (addDaysSat d (satNeg off))) / 7) false)) := by
  have hr := addDaysSat_repr d (satNeg off)
  unfold wdayFixedSimple
  generalize addDaysSat d (satNeg off) = d' at hr
  simp only [countDaysInMonth_eq _ hr.1 hr.2, ok_bind, pure_eq_ok]
  have hb := dayOfMonth_bounds d'
  have hm := daysInMonth_bounds (year d') (Cal.month d')
  rw [if_neg (by omega), wrappingContains_eq_inWrap]
  cases OH.Spec.inWrap lo hi (weekday d')
  · simp
  · simp only [if_true, Bool.true_and]
    rw [nthGet_ok _ _ _ (by omega), nthGet_ok _ _ _ (by omega)]
    simp only [ok_bind]
    cases ns.getD ((dayOfMonth d' - 1) / 7) false <;> simp

theorem fixedFilter_eq (ctx : Ctx) (lo hi : Nat) (off : Int) (ns ne : List Bool) (d : Int)
    (hlo : lo ≤ 6) (hns : ns.length = 5) (hne : ne.length = 5) :
    WeekDayRange.filter ctx (.fixed lo hi off ns ne) d = .ok (OH.Spec.weekdayOk ctx (.fixed lo hi off ns ne) d) := by
  unfold WeekDayRange.filter OH.Spec.weekdayOk
  simp only [wdayFixedSimple_eq _ _ off ns ne d hns hne, ok_bind, pure_eq_ok]
  have hw := weekday_lt (addDaysSat d (satNeg off))
  generalize weekday (addDaysSat d (satNeg off)) = w at hw
  generalize (ns.getD _ false || ne.getD _ false) = nth
  by_cases h : lo > hi
  · rw [if_pos h]
    have e1 : OH.Spec.inWrap lo 6 w = decide (lo ≤ w) := by
      simp only [OH.Spec.inWrap, if_pos hlo]; have : w ≤ 6 := by omega
      simp [this]
    have e2 : OH.Spec.inWrap 0 hi w = decide (w ≤ hi) := by simp [OH.Spec.inWrap]
    have e3 : OH.Spec.inWrap lo hi w = (decide (lo ≤ w) || decide (w ≤ hi)) := by
      simp only [OH.Spec.inWrap, if_neg (show ¬ lo ≤ hi by omega)]
    rw [e1, e2, e3]
    cases decide (lo ≤ w) <;> cases decide (w ≤ hi) <;> cases nth <;> rfl
  · rw [if_neg h]

/-- `WeekDayRange::filter` = `weekdayOk`, for every day and every offset -/
theorem weekdayFilter_eq (ctx : Ctx) (r : WeekDayRange) (d : Int) (hwf : r.wf = true) :
    WeekDayRange.filter ctx r d = .ok (OH.Spec.weekdayOk ctx r d) := by
  cases r with
  | holiday k off => exact holidayFilter_eq ctx k off d
  | fixed lo hi off ns ne =>
    simp only [WeekDayRange.wf, Bool.and_eq_true, decide_eq_true_eq, beq_iff_eq] at hwf
    exact fixedFilter_eq ctx lo hi off ns ne d hwf.1.1.1.1 hwf.1.2 hwf.2

/-! ### the four selectors together -/

/-- the model's filter and the specification agree on the dated ranges of selector `s` on day `d`
(discharged, for the classes of dated ranges covered, in OH/Proofs/EvalSpecDated*.lean) -/
def DatedAgreeSel (s : DaySelector) (d : Int) : Prop :=
  ∀ a so b eo, MonthdayRange.date a so b eo ∈ s.monthday →
    MonthdayRange.filter (.date a so b eo) d = .ok (OH.Spec.datedOk a so b eo d)

/-- the `applies` conjunction of the specification, on a selector -/
def selOk (ctx : Ctx) (s : DaySelector) (d : Int) : Bool :=
  OH.Spec.anyOrEmpty s.year (OH.Spec.yearOk · d) && OH.Spec.anyOrEmpty s.monthday (OH.Spec.monthdayOk · d)
    && OH.Spec.anyOrEmpty s.week (OH.Spec.weekOk · d) && OH.Spec.anyOrEmpty s.weekday (OH.Spec.weekdayOk ctx · d)

theorem applies_eq_selOk (ctx : Ctx) (r : Rule) (d : Int) : OH.Spec.applies ctx r d = selOk ctx r.day d := rfl

theorem year_window {d : Int} (h1 : dateStart - 1 ≤ d) (h2 : d < dateEnd) : 1899 ≤ year d ∧ year d ≤ 9999 := by
  constructor
  · have : year (dateStart - 1) ≤ year d := year_mono h1
    have e : year (dateStart - 1) = 1899 := by
      rw [year_eq_iff, dateStart_eq]; decide
    omega
  · have : year d ≤ year (dateEnd - 1) := year_mono (by omega)
    rw [year_dateEnd_pred] at this; exact this

/-- `DaySelector::filter` never fails and computes the specification's conjunction -/
theorem daySelectorFilter_eq (ctx : Ctx) (s : DaySelector) (d : Int) (hwf : s.wf = true)
    (hda : DatedAgreeSel s d) (h1 : dateStart - 1 ≤ d) (h2 : d < dateEnd) :
    DaySelector.filter ctx s d = .ok (selOk ctx s d) := by
  simp only [DaySelector.wf, Bool.and_eq_true, List.all_eq_true] at hwf
  obtain ⟨⟨⟨wy, wm⟩, ww⟩, wd⟩ := hwf
  have hy := year_window h1 h2
  have e1 : listFilter (·.filter d) s.year = .ok (OH.Spec.anyOrEmpty s.year (OH.Spec.yearOk · d)) :=
    listFilter_ok _ _ _ (fun r hr => by
      have := wy r hr
      simp only [YearRange.wf, Bool.and_eq_true, decide_eq_true_eq] at this
      exact yearFilter_eq r d (by omega) (by omega))
  have e2 : listFilter (·.filter d) s.monthday = .ok (OH.Spec.anyOrEmpty s.monthday (OH.Spec.monthdayOk · d)) :=
    listFilter_ok _ _ _ (fun r hr => by
      cases r with
      | month lo hi yr => exact monthFilter_eq lo hi yr d (by omega) (by omega)
      | date a so b eo => exact hda a so b eo hr)
  have e3 : listFilter (·.filter d) s.week = .ok (OH.Spec.anyOrEmpty s.week (OH.Spec.weekOk · d)) :=
    listFilter_ok _ _ _ (fun r hr => by
      have := ww r hr
      simp only [WeekRange.wf, Bool.and_eq_true, decide_eq_true_eq] at this
      exact weekFilter_eq r d (by omega))
  have e4 : listFilter (·.filter ctx d) s.weekday = .ok (OH.Spec.anyOrEmpty s.weekday (OH.Spec.weekdayOk ctx · d)) :=
    listFilter_ok _ _ _ (fun r hr => weekdayFilter_eq ctx r d (wd r hr))
  unfold DaySelector.filter selOk
  simp only [e1, e2, e3, e4, ok_bind]
  cases OH.Spec.anyOrEmpty s.year (OH.Spec.yearOk · d) <;>
    cases OH.Spec.anyOrEmpty s.monthday (OH.Spec.monthdayOk · d) <;>
    cases OH.Spec.anyOrEmpty s.week (OH.Spec.weekOk · d) <;>
    cases OH.Spec.anyOrEmpty s.weekday (OH.Spec.weekdayOk ctx · d) <;> rfl

end OH.Proofs.EvalSpec
