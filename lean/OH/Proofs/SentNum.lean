import OH.Proofs.SynNum
import OH.Spec.Sent
/-
C05, numbers and day offsets of SENTENCES (OH/Spec/Sent.lean).

 * the specification's own decimal printers `dec`, `pad2`, `digit` agree with the printers of the
   model (`Print.natStr`, `Print.pad2`, `Print.digitChar`), so that the C06 lemmas apply;
 * a number written with leading zeros is matched as a whole by `positive_number` and read back
   (`"0"*` takes the zeros, Rust's `str::parse` ignores them);
 * a day offset ` +N day` / ` -N days` (either word after any number, leading zeros) parses to its
   denotation.
-/
namespace OH.Proofs.Sent
open OH.Model OH.Model.Peg OH.Model.Parser OH.Generated.Grammar OH.Proofs.Syn
open OH.Spec.Sent (Num DayOff)

/-! ### the decimal printers of the specification are those of the model -/

theorem digit_mod (n : Nat) : OH.Spec.Sent.digit n = Print.digitChar (n % 10) := rfl

theorem digit_eq (n : Nat) (h : n < 10) : OH.Spec.Sent.digit n = Print.digitChar n := by
  rw [digit_mod, Nat.mod_eq_of_lt h]

theorem decAux_eq : ∀ (fuel n : Nat) (acc : List Char),
    OH.Spec.Sent.decAux fuel n acc = Print.natDigitsAux fuel n acc := by
  intro fuel
  induction fuel with
  | zero => intro n acc; rfl
  | succ f ih =>
    intro n acc
    simp only [OH.Spec.Sent.decAux, Print.natDigitsAux]
    by_cases h : n < 10
    · simp only [h, if_true, digit_eq n h]
    · simp only [h, if_false, digit_mod, ih]

theorem dec_eq_natStr (n : Nat) : OH.Spec.Sent.dec n = Print.natStr n :=
  decAux_eq (n + 1) n []

theorem pad2_eq (n : Nat) (h : n < 100) : OH.Spec.Sent.pad2 n = Print.pad2 n := by
  rw [pad2_lt100 n h]
  simp only [OH.Spec.Sent.pad2, digit_mod]
  rw [Nat.mod_eq_of_lt (a := n / 10) (by omega)]

/-- a one-digit number is its digit -/
theorem dec_lt10 (n : Nat) (h : n < 10) : OH.Spec.Sent.dec n = [OH.Spec.Sent.digit n] := by
  rw [dec_eq_natStr, natStr_lt10 n h, digit_eq n h]

theorem num_render_eq (n : Num) : n.render = List.replicate n.zeros '0' ++ Print.natStr n.val := by
  simp only [Num.render, dec_eq_natStr]

/-- without leading zeros a number is written as the model prints it -/
theorem num_render_canonical (v : Nat) : (Num.mk v 0).render = Print.natStr v := by
  simp [num_render_eq]

/-! ### leading zeros -/

/-- `"0"*` takes a run of zeros up to something that is not a zero -/
theorem run_zeros_star (q : Bool) (z : Nat) (inp : List Char) (h : ∀ r, inp ≠ '0' :: r) :
    run (.star (.str ['0']) : G) q (List.replicate z '0' ++ inp)
      = some ⟨[], List.replicate z '0', inp⟩ := by
  induction z with
  | zero =>
    have hn : run (.str ['0'] : G) q inp = none := by
      cases inp with
      | nil => simp [peg]
      | cons c r =>
        have : '0' ≠ c := by intro hc; subst hc; exact h r rfl
        simp [peg, this]
    simpa [R.nil] using run_star_none hn
  | succ z ih =>
    have h1 : run (.str ['0'] : G) q (List.replicate (z + 1) '0' ++ inp)
        = some ⟨[], ['0'], List.replicate z '0' ++ inp⟩ := by
      simp [List.replicate_succ, peg]
    have := run_star_some h1 (by simp) ih
    simpa [R.append, List.replicate_succ] using this

theorem natOfDigitsAux_zeros (z acc : Nat) (cs : List Char) :
    natOfDigitsAux (List.replicate z '0' ++ cs) acc = natOfDigitsAux cs (10 ^ z * acc) := by
  induction z generalizing acc with
  | zero => simp
  | succ z ih =>
    have h0 : digitVal '0' = some 0 := by decide
    simp only [List.replicate_succ, List.cons_append, natOfDigitsAux, h0, ih]
    congr 1
    rw [Nat.pow_succ]; simp [Nat.mul_assoc]

/-- `str::parse` ignores leading zeros -/
theorem natOfDigits_num (n : Num) : natOfDigits n.render = some n.val := by
  have h : natOfDigitsAux n.render 0 = some n.val := by
    rw [num_render_eq, natOfDigitsAux_zeros, Nat.mul_zero]
    exact natOfDigitsAux_natStr n.val
  unfold natOfDigits
  split
  · next hnil =>
    rw [num_render_eq] at hnil
    exact absurd (List.append_eq_nil_iff.mp hnil).2 (natStr_ne_nil n.val)
  · exact h

/-- the text of a number: digits only -/
theorem num_render_digits (n : Num) : ∀ c ∈ n.render, '0' ≤ c ∧ c ≤ '9' := by
  intro c hc
  rw [num_render_eq, List.mem_append] at hc
  rcases hc with hc | hc
  · rw [List.mem_replicate] at hc; rw [hc.2]; decide
  · exact natStr_digits n.val c hc

theorem num_render_ne_nil (n : Num) : n.render ≠ [] := by
  rw [num_render_eq]
  intro h
  exact natStr_ne_nil n.val (List.append_eq_nil_iff.mp h).2

/-- a number starts with a digit -/
theorem num_render_head (n : Num) : ∃ c cs, n.render = c :: cs ∧ '0' ≤ c ∧ c ≤ '9' := by
  cases h : n.render with
  | nil => exact absurd h (num_render_ne_nil n)
  | cons c cs => exact ⟨c, cs, rfl, num_render_digits n c (by rw [h]; simp)⟩

/-! ### `positive_number = @{ "0"* ~ ASCII_NONZERO_DIGIT ~ ASCII_DIGIT* }` -/

/-- a positive number with leading zeros is matched as a whole by `positive_number` (the zeros are
part of `"0"*`) when no digit follows -/
theorem run_positive_number_num (q : Bool) (n : Num) (hn : 0 < n.val) (rest : List Char)
    (hr : NoDigit rest) :
    run g_positive_number q (n.render ++ rest) =
      some (if q then ⟨[], n.render, rest⟩
            else ⟨[.node .positive_number n.render []], n.render, rest⟩) := by
  obtain ⟨c, cs, e, hc1, hc9⟩ := natStr_head n.val hn
  have hds : ∀ x ∈ cs, '0' ≤ x ∧ x ≤ '9' := fun x hx => natStr_digits n.val x (by rw [e]; simp [hx])
  have hc0 : c ≠ '0' := by
    intro h; subst h; exact absurd hc1 (by decide)
  have hz := run_zeros_star true n.zeros (c :: (cs ++ rest)) (by
    intro r h; exact hc0 (List.cons.inj h).1)
  have hstar := run_digits_star true cs rest hds hr
  rw [num_render_eq, e]
  simp only [List.cons_append, List.append_assoc] at hz ⊢
  simp only [g_positive_number, peg, Bool.or_true, hz, hc1, hc9, and_self, if_true, hstar,
    List.append_nil, List.singleton_append]
  cases q <;> simp

theorem build_positive_number_num (n : Num) (h : n.val < u64Bound) :
    buildPositiveNumber (.node .positive_number n.render []) = .ok n.val := by
  simp [buildPositiveNumber, assertRule, Tree.rule, Tree.text, natOfDigits_num, h, bind, Except.bind]

/-! ### `day_offset = { space ~ plus_or_minus ~ positive_number ~ space ~ "day" ~ "s"? }` -/

theorem dayoff_render_eq (o : DayOff) :
    o.render = [' ', if o.neg then '-' else '+'] ++ o.n.render ++ [' ', 'd', 'a', 'y']
      ++ (if o.plural then ['s'] else []) := rfl

/-- a day offset starts with a space and a sign -/
theorem dayoff_head (o : DayOff) : ∃ c r, o.render = ' ' :: c :: r ∧ (c = '+' ∨ c = '-') := by
  refine ⟨if o.neg then '-' else '+', _, by rw [dayoff_render_eq]; rfl, ?_⟩
  cases o.neg <;> simp

/-- ` +N day(s)`: `day` and `days` are both accepted after any number; only the singular spelling
constrains what follows (an `s` would be taken by `"s"?`) -/
theorem parses_dayoff' (o : DayOff) (h : o.wf = true) (rest : List Char)
    (hr : o.plural = false → ∀ r, rest ≠ 's' :: r) :
    ParsesTo g_day_offset buildDayOffset o.render rest o.denote := by
  simp only [DayOff.wf, OH.Spec.Sent.Num.wf, OH.Spec.Sent.i64Bound, Bool.and_eq_true,
    decide_eq_true_eq] at h
  obtain ⟨hn, hb⟩ := h
  have hb : o.n.val < 9223372036854775808 := of_decide_eq_true hb
  have hnd : NoDigit ([' ', 'd', 'a', 'y'] ++ (if o.plural then ['s'] else []) ++ rest) := by
    intro c r h; simp at h; rw [← h.1]; decide
  have hnum := run_positive_number_num false o.n (by omega) _ hnd
  have hs : run (.opt (.str ['s']) : G) false ((if o.plural then ['s'] else []) ++ rest)
      = some ⟨[], (if o.plural then ['s'] else []), rest⟩ := by
    cases hp : o.plural with
    | true => simp [peg]
    | false =>
      cases rest with
      | nil => simp [peg]
      | cons c r =>
        have : c ≠ 's' := by intro h; subst h; exact hr hp r rfl
        simp [peg, Ne.symm this]
  rw [dayoff_render_eq]
  have hbp := build_positive_number_num o.n (by unfold u64Bound; omega)
  have hnb : ¬ i64Bound ≤ o.n.val := by unfold i64Bound; omega
  cases hneg : o.neg with
  | false =>
    refine ParsesTo.mk' .day_offset [.node .plus_or_minus ['+'] [.node .plus ['+'] []],
      .node .positive_number o.n.render []] ?_ ?_
    · simp only [Bool.false_eq_true, if_false, List.cons_append, List.nil_append,
        List.append_assoc] at hnum ⊢
      simp [g_day_offset, g_space, g_plus_or_minus, g_plus, g_minus, peg, hnum, hs]
    · simp [buildDayOffset, buildPlusOrMinus, assertRule, Tree.rule, Tree.kids, hbp, hnb,
        DayOff.denote, hneg, bind, Except.bind]
  | true =>
    refine ParsesTo.mk' .day_offset [.node .plus_or_minus ['-'] [.node .minus ['-'] []],
      .node .positive_number o.n.render []] ?_ ?_
    · simp only [if_true, List.cons_append, List.nil_append, List.append_assoc] at hnum ⊢
      simp [g_day_offset, g_space, g_plus_or_minus, g_plus, g_minus, peg, hnum, hs]
    · simp [buildDayOffset, buildPlusOrMinus, assertRule, Tree.rule, Tree.kids, hbp, hnb,
        DayOff.denote, hneg, bind, Except.bind]

theorem parses_dayoff (o : DayOff) (h : o.wf = true) (rest : List Char)
    (hr : ∀ r, rest ≠ 's' :: r) :
    ParsesTo g_day_offset buildDayOffset o.render rest o.denote :=
  parses_dayoff' o h rest (fun _ => hr)

/-- the pair of a day offset is a `day_offset` pair -/
theorem parses_dayoff_rule {o : DayOff} {t : T} (h : buildDayOffset t = .ok o.denote) :
    t.rule = .day_offset := by
  by_cases hr : t.rule = .day_offset
  · exact hr
  · simp [buildDayOffset, assertRule, hr, Parser.panic, bind, Except.bind] at h

end OH.Proofs.Sent
