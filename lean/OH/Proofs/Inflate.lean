/-
Helper lemmas on `OH.Model.Inflate` (C10, the deflate layer): THE FUEL SUFFICES.

`Inflate.codes` (symbols of a block) and `Inflate.blocks` (blocks of a stream) run on fuel
`8 * size + 1`.  Proved here, for every input: a decoded symbol consumes at least one bit and ends
inside the input (`decodeSym_spec`), hence `codes` started with more fuel than there are bits left
either succeeds strictly further in the input or fails with an error that is not `errFuel`
(`codes_good`); the same for the three block types (`stored_good`, `fixed_good`, `dynamic_good`, with
`readLengths_spec` for the code-length reader's own fuel) and for the block loop
(`blocks_ne_errFuel`); so `inflate d ≠ .error errFuel` (`inflate_ne_errFuel`): the fuel never hides a
non-termination, "out of fuel" is not a possible outcome of `inflate`.
-/
import OH.Model.Inflate
namespace OH.Proofs.Inflate
open OH.Model.Inflate
-- unfolding `codes` (array literals, numerals 256/257) needs a deeper elaborator stack
set_option maxRecDepth 1000000

theorem bitAt_lt {d : ByteArray} {p b : Nat} (h : bitAt d p = some b) : p < 8 * d.size := by
  unfold bitAt at h
  split at h
  · omega
  · cases h

theorem bits_le {d : ByteArray} : ∀ {n p v : Nat}, bits d p n = some v → n = 0 ∨ p + n ≤ 8 * d.size := by
  intro n
  induction n with
  | zero => intro p v _; exact .inl rfl
  | succ n ih =>
    intro p v h
    right
    unfold bits at h
    split at h
    · cases h
    · rename_i b hb
      split at h
      · cases h
      · rename_i v' hv
        have := bitAt_lt hb
        rcases ih hv with h0 | h1
        · omega
        · omega

/-- a decoded symbol consumes at least one bit and stays inside the input; the only errors are
"not a code" and "truncated" -/
theorem decodeSym_spec (d : ByteArray) (symbol : Array Nat) :
    ∀ (cs : List Nat) (p code first index : Nat),
      (∃ s p', decodeSym d symbol cs p code first index = .ok (s, p') ∧ p < p' ∧ p' ≤ 8 * d.size) ∨
      decodeSym d symbol cs p code first index = .error errBadCode ∨
      decodeSym d symbol cs p code first index = .error errTruncated := by
  intro cs
  induction cs with
  | nil => intro p code first index; right; left; rfl
  | cons c cs ih =>
    intro p code first index
    unfold decodeSym
    split
    · right; right; rfl
    · rename_i b hb
      have hlt := bitAt_lt hb
      dsimp only
      split
      · left; exact ⟨_, _, rfl, by omega, by omega⟩
      · rcases ih (p + 1) (2 * (code + b)) (2 * (first + c)) (index + c) with ⟨s, p', h1, h2, h3⟩ | h | h
        · left; exact ⟨s, p', h1, by omega, h3⟩
        · right; left; exact h
        · right; right; exact h

theorem decode_spec (d : ByteArray) (h : Huff) (p : Nat) :
    (∃ s p', decode d h p = .ok (s, p') ∧ p < p' ∧ p' ≤ 8 * d.size) ∨
    decode d h p = .error errBadCode ∨ decode d h p = .error errTruncated :=
  decodeSym_spec d h.symbol _ p 0 0 0


/-- "out of fuel" is none of the other error outcomes -/
theorem errFuel_ne : errTruncated ≠ errFuel ∧ errBadCode ≠ errFuel ∧ errLenSym ≠ errFuel ∧
    errDistSym ≠ errFuel ∧ errTooFar ≠ errFuel ∧ errBlockType ≠ errFuel ∧ errStoredLen ≠ errFuel ∧
    errCounts ≠ errFuel ∧ errCodeLenCode ≠ errFuel ∧ errRepeat ≠ errFuel ∧ errNoEob ≠ errFuel ∧
    errLitLenCode ≠ errFuel ∧ errDistCode ≠ errFuel := by decide

/-- outcome of a block decoder started at bit `p`: either it succeeded, strictly further in the input
and not beyond its end, or it failed with an error that is not "out of fuel" -/
def Good (d : ByteArray) (p : Nat) (r : Except String (Nat × ByteArray)) : Prop :=
  match r with
  | .ok (p', _) => p < p' ∧ p' ≤ 8 * d.size
  | .error e => e ≠ errFuel

theorem Good.mono {d : ByteArray} {p q : Nat} {r} (hpq : p ≤ q) (h : Good d q r) : Good d p r := by
  cases r with
  | error e => exact h
  | ok v =>
    obtain ⟨p', o⟩ := v
    have h' : q < p' ∧ p' ≤ 8 * d.size := h
    exact ⟨by omega, h'.2⟩

/-- the unfolding equation of `codes` (by `rfl`) -/
theorem codes_succ (d : ByteArray) (lencode distcode : Huff) (fuel p : Nat) (out : ByteArray) :
    codes d lencode distcode (fuel + 1) p out =
    match decode d lencode p with
    | .error e => .error e
    | .ok (sym, p) =>
      if sym < 256 then codes d lencode distcode fuel p (out.push sym.toUInt8)
      else if sym == 256 then .ok (p, out)
      else
        let i := sym - 257
        if i ≥ 29 then .error errLenSym else
        match bits d p lext[i]! with
        | none => .error errTruncated
        | some eb =>
          let len := lbase[i]! + eb
          match decode d distcode (p + lext[i]!) with
          | .error e => .error e
          | .ok (dsym, p) =>
            if dsym ≥ 30 then .error errDistSym else
            match bits d p dext[dsym]! with
            | none => .error errTruncated
            | some eb =>
              let dist := dbase[dsym]! + eb
              if dist > out.size then .error errTooFar
              else codes d lencode distcode fuel (p + dext[dsym]!) (copyBack out dist len) := by
  rfl

theorem codes_good (d : ByteArray) (lc dc : Huff) :
    ∀ (fuel p : Nat) (out : ByteArray), 0 < fuel → 8 * d.size < fuel + p →
      Good d p (codes d lc dc fuel p out) := by
  intro fuel
  induction fuel with
  | zero => intro p out h1 h2; omega
  | succ fuel ih =>
    intro p out hp hf
    rw [codes_succ]
    rcases decode_spec d lc p with ⟨s, p1, e1, l1, u1⟩ | e1 | e1
    · rw [e1]; dsimp only
      split
      · exact Good.mono (Nat.le_of_lt l1) (ih p1 _ (by omega) (by omega))
      · split
        · exact ⟨l1, u1⟩
        · split
          · exact errFuel_ne.2.2.1
          · split
            · exact errFuel_ne.1
            · rcases decode_spec d dc (p1 + lext[s - 257]!) with ⟨ds, p3, e3, l3, u3⟩ | e3 | e3
              · rw [e3]; dsimp only
                split
                · exact errFuel_ne.2.2.2.1
                · split
                  · exact errFuel_ne.1
                  · rename_i eb2 hb2
                    split
                    · exact errFuel_ne.2.2.2.2.1
                    · have hle : p3 + dext[ds]! ≤ 8 * d.size := by
                        rcases bits_le hb2 with h0 | h0
                        · rw [h0]; omega
                        · exact h0
                      exact Good.mono (by omega) (ih (p3 + dext[ds]!) _ (by omega) (by omega))
              · rw [e3]; exact errFuel_ne.2.1
              · rw [e3]; exact errFuel_ne.1
    · rw [e1]; exact errFuel_ne.2.1
    · rw [e1]; exact errFuel_ne.1


theorem readClLengths_le (d : ByteArray) :
    ∀ (order : List Nat) (n p : Nat) (acc r : Array Nat) (p' : Nat),
      readClLengths d order n p acc = some (r, p') → p ≤ p' := by
  intro order
  induction order with
  | nil => intro n p acc r p' h; simp [readClLengths] at h; omega
  | cons o order ih =>
    intro n p acc r p' h
    cases n with
    | zero => simp [readClLengths] at h; omega
    | succ n =>
      unfold readClLengths at h
      split at h
      · cases h
      · have := ih _ _ _ _ _ h; omega

/-- outcome of the code-length reader started at bit `p` -/
def GoodL (p : Nat) (r : Except String (List Nat × Nat)) : Prop :=
  match r with
  | .ok (_, p') => p ≤ p'
  | .error e => e ≠ errFuel

theorem GoodL.mono {p q : Nat} {r} (hpq : p ≤ q) (h : GoodL q r) : GoodL p r := by
  cases r with
  | error e => exact h
  | ok v =>
    obtain ⟨l, p'⟩ := v
    have h' : q ≤ p' := h
    exact Nat.le_trans hpq h'

theorem readLengths_spec (d : ByteArray) (cl : Huff) (total : Nat) :
    ∀ (fuel p : Nat) (acc : List Nat) (n : Nat), total ≤ n + fuel →
      GoodL p (readLengths d cl total fuel p acc n) := by
  intro fuel
  induction fuel with
  | zero =>
    intro p acc n h
    unfold readLengths
    rw [if_pos (by omega)]
    exact Nat.le_refl _
  | succ fuel ih =>
    intro p acc n h
    unfold readLengths
    split
    · exact Nat.le_refl _
    · rcases decode_spec d cl p with ⟨s, p1, e1, l1, u1⟩ | e1 | e1
      · rw [e1]; dsimp only
        split
        · exact GoodL.mono (Nat.le_of_lt l1) (ih p1 (s :: acc) (n + 1) (by omega))
        · generalize hx : (if (s == 16) = true then (acc.head?, 2, 3)
              else if (s == 17) = true then (some 0, 3, 3) else (some 0, 7, 11) :
              Option Nat × Nat × Nat) = x
          have hb : 1 ≤ x.2.2 := by
            rw [← hx]; split
            · exact Nat.le_of_ble_eq_true rfl
            · split <;> exact Nat.le_of_ble_eq_true rfl
          obtain ⟨v, nb, base⟩ := x
          dsimp only at hb ⊢
          split
          · exact errFuel_ne.2.2.2.2.2.2.2.2.2.1
          · split
            · exact errFuel_ne.1
            · split
              · exact errFuel_ne.2.2.2.2.2.2.2.2.2.1
              · exact GoodL.mono (by omega) (ih _ _ _ (by omega))
      · rw [e1]; exact errFuel_ne.2.1
      · rw [e1]; exact errFuel_ne.1


theorem stored_good (d : ByteArray) (p : Nat) (out : ByteArray) : Good d p (stored d p out) := by
  unfold stored
  dsimp only
  split
  · exact errFuel_ne.1
  · split
    · exact errFuel_ne.2.2.2.2.2.2.1
    · split
      · exact errFuel_ne.1
      · show p < 8 * ((p + 7) / 8 + 4 + _) ∧ 8 * ((p + 7) / 8 + 4 + _) ≤ 8 * d.size
        omega

theorem fixed_good (d : ByteArray) (fuel p : Nat) (out : ByteArray) (h0 : 0 < fuel)
    (hf : 8 * d.size < fuel + p) : Good d p (fixed d fuel p out) :=
  codes_good d _ _ fuel p out h0 hf

theorem dynamic_good (d : ByteArray) (fuel p : Nat) (out : ByteArray) (h0 : 0 < fuel)
    (hf : 8 * d.size < fuel + p) : Good d p (dynamic d fuel p out) := by
  unfold dynamic
  split
  · dsimp only
    split
    · exact errFuel_ne.2.2.2.2.2.2.2.1
    · split
      · exact errFuel_ne.1
      · rename_i cls p1 hcl
        have h1 := readClLengths_le d _ _ _ _ _ _ hcl
        split
        · rename_i cl _
          have hl := fun total => readLengths_spec d cl total total p1 [] 0 (by omega)
          split
          · rename_i e he
            have hl' : GoodL p1 (Except.error e) := he ▸ hl _
            exact hl'
          · rename_i lengths p2 he
            have h2 : GoodL p1 (Except.ok (lengths, p2)) := he ▸ hl _
            have h2 : p1 ≤ p2 := h2
            split
            · exact errFuel_ne.2.2.2.2.2.2.2.2.2.2.1
            · split
              · exact errFuel_ne.2.2.2.2.2.2.2.2.2.2.2.1
              · split
                · exact errFuel_ne.2.2.2.2.2.2.2.2.2.2.2.2
                · exact Good.mono (by omega) (codes_good d _ _ fuel p2 out h0 (by omega))
        · exact errFuel_ne.2.2.2.2.2.2.2.2.1
  · exact errFuel_ne.1

/-- THE FUEL SUFFICES: the block loop never reports "out of fuel" when started with more fuel than
there are input bits left (every block consumes at least its 3 header bits) -/
theorem blocks_ne_errFuel (d : ByteArray) :
    ∀ (fuel p : Nat) (out : ByteArray), 0 < fuel → 8 * d.size < fuel + p →
      blocks d (8 * d.size + 1) fuel p out ≠ .error errFuel := by
  intro fuel
  induction fuel with
  | zero => intro p out h0; omega
  | succ fuel ih =>
    intro p out _ hf
    unfold blocks
    split
    · rename_i last type hlast htype
      have hp : p + 3 ≤ 8 * d.size := by
        rcases bits_le htype with h | h <;> omega
      dsimp only
      generalize hr : (if (type == 0) = true then stored d (p + 3) out
        else if (type == 1) = true then fixed d (8 * d.size + 1) (p + 3) out
        else if (type == 2) = true then dynamic d (8 * d.size + 1) (p + 3) out
        else Except.error errBlockType) = r
      have hg : Good d (p + 3) r := by
        rw [← hr]
        split
        · exact stored_good d _ _
        · split
          · exact fixed_good d _ _ _ (by omega) (by omega)
          · split
            · exact dynamic_good d _ _ _ (by omega) (by omega)
            · exact errFuel_ne.2.2.2.2.2.1
      cases r with
      | error e =>
        have he : e ≠ errFuel := hg
        intro h; exact he (Except.error.inj h)
      | ok v =>
        obtain ⟨p', out'⟩ := v
        have hp' : p + 3 < p' ∧ p' ≤ 8 * d.size := hg
        dsimp only
        split
        · intro h; cases h
        · exact ih p' out' (by omega) (by omega)
    · intro h; exact errFuel_ne.1 (Except.error.inj h)

theorem inflate_ne_errFuel (d : ByteArray) : inflate d ≠ .error errFuel := by
  unfold inflate
  exact blocks_ne_errFuel d _ 0 _ (by omega) (by omega)

end OH.Proofs.Inflate
