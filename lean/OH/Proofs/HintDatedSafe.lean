import OH.Proofs.HintDatedWindow
import OH.Proofs.HintDatedWide
/-
Layer B — dated ranges: the decidable side condition and the combined theorem.

Three paths of `MonthdayRange::Date`:
 * a single fixed day WITH a year, and a range whose start carries a year (`single_interval_from_bounds`):
   filter and hint read the same interval(s), sound for ANY offsets (OH/Proofs/HintDated.lean);
 * a single fixed day without a year, and the windowed general path (two yearless bounds): sound for day
   offsets within ±92 000 000 days (two fixed dates; a single day: the end offset only; ±300 000 days when a
   bound is Easter), whatever the size of the shift relative to a year
   (OH/Proofs/HintDatedWindow.lean) — the search windows are centred on the year of `d - day offset`;
 * a single fixed day without a year whose occurrences are all empty (shifted end before shifted start):
   sound for ANY offsets (below).
-/
namespace OH.Model
open OH.Model.Cal
open OH.Proofs.EvalSpec (offSmallD offsSmallD offWideD offsWideD offFarStartD)

/-! ### a yearless single day whose occurrences are all empty: any offsets -/

/-- least and greatest displacement of `DateOffset::apply` (weekday moves are at most 6 days) -/
def loOff (o : DateOffset) : Int :=
  match o.wday with
  | .prev _ => o.days - 6
  | _ => o.days

def hiOff (o : DateOffset) : Int :=
  match o.wday with
  | .next _ => o.days + 6
  | _ => o.days

/-- when the shifted end is always before the shifted start (`Jan 01 +10 days-Jan 01 +5 days`), no
occurrence contains a day of the evaluation window — saturated shifts included: an occurrence pinned at
`NaiveDate::MIN`/`MAX` lies outside the window -/
theorem sd_empty_false (so eo : DateOffset) (h : hiOff eo < loOff so) (f : Int) (x : Int)
    (hx1 : dateStart ≤ x) (hx2 : x < dateEnd) : ¬ (so.shiftC f ≤ x ∧ x ≤ eo.shiftC f) := by
  have hmin := minDay_eq; have hmax := maxDay_eq
  have hs := Cal.dateStart_eq; have he := Cal.dateEnd_eq
  obtain ⟨a1, a2, a3⟩ := so.shiftC_dir f
  obtain ⟨b1, b2, b3⟩ := eo.shiftC_dir f
  unfold loOff hiOff at h
  unfold clampDay at a1 a2 a3 b1 b2 b3
  cases hw : so.wday with
  | none =>
    have A := a1 hw
    cases hw' : eo.wday with
    | none => have B := b1 hw'; simp only [hw, hw'] at h; omega
    | prev t => have B := b2 ⟨t, hw'⟩; simp only [hw, hw'] at h; omega
    | next t => have B := b3 ⟨t, hw'⟩; simp only [hw, hw'] at h; omega
  | prev u =>
    have A := a2 ⟨u, hw⟩
    cases hw' : eo.wday with
    | none => have B := b1 hw'; simp only [hw, hw'] at h; omega
    | prev t => have B := b2 ⟨t, hw'⟩; simp only [hw, hw'] at h; omega
    | next t => have B := b3 ⟨t, hw'⟩; simp only [hw, hw'] at h; omega
  | next u =>
    have A := a3 ⟨u, hw⟩
    cases hw' : eo.wday with
    | none => have B := b1 hw'; simp only [hw, hw'] at h; omega
    | prev t => have B := b2 ⟨t, hw'⟩; simp only [hw, hw'] at h; omega
    | next t => have B := b3 ⟨t, hw'⟩; simp only [hw, hw'] at h; omega

theorem singleDayV_mem (m dd : Nat) (so eo : DateOffset) (d : Int) (ys : List Int) (r : Int × Int)
    (h : singleDayV m dd so eo d ys = some r) : ∃ f, r = (so.shiftC f, eo.shiftC f) ∧ eo.shiftC f ≥ d := by
  induction ys with
  | nil => simp [singleDayV] at h
  | cons y ys ih =>
    simp only [singleDayV] at h
    cases hf : ofYmd? y m dd with
    | none => rw [hf] at h; exact ih h
    | some f =>
      rw [hf] at h
      simp only [] at h
      split at h
      · rename_i hge
        simp only [Option.some.injEq] at h
        exact ⟨f, h.symm, hge⟩
      · exact ih h

/-- **single day without a year, every occurrence empty**: the filter is false on the whole window and the
hint points after the day — ANY offsets -/
theorem MonthdayRange.date_hintOK_singleDayEmpty (m dd : Nat) (so eo : DateOffset)
    (hw : (MonthdayRange.date (.fixed none m dd) so (.fixed none m dd) eo).wf = true)
    (hE : hiOff eo < loOff so) (d : Int) (hd1 : dateStart ≤ d) (hd2 : d < dateEnd) :
    HintOK (MonthdayRange.date (.fixed none m dd) so (.fixed none m dd) eo).filter
      (MonthdayRange.date (.fixed none m dd) so (.fixed none m dd) eo).hint d := by
  have hsd : singleDayOf (.fixed none m dd) (.fixed none m dd) = some (none, m, dd) := by simp [singleDayOf]
  have hf : ∀ x, dateStart ≤ x → x < dateEnd →
      datedFilterV (.fixed none m dd) so (.fixed none m dd) eo x = false := by
    intro x x1 x2
    unfold datedFilterV; rw [hsd]
    simp only []
    cases hr : singleDayV m dd so eo x (sdYears none (yearBeforeOffset x eo) 8) with
    | none => rfl
    | some r =>
      obtain ⟨f, rfl, _⟩ := singleDayV_mem m dd so eo x _ r hr
      have := sd_empty_false so eo hE f x x1 x2
      simp only [sdRes, Bool.and_eq_false_iff, decide_eq_false_iff_not]
      omega
  apply MonthdayRange.date_hintOK_of_V _ _ _ _ hw d
  · unfold datedHintV; rw [hsd]
    simp only []
    cases hr : singleDayV m dd so eo d (sdYears none (yearBeforeOffset d eo) 10) with
    | none => exact hd2
    | some r =>
      obtain ⟨f, rfl, hge⟩ := singleDayV_mem m dd so eo d _ r hr
      simp only [sdNext]
      split
      · cases hs : succ? (eo.shiftC f) with
        | none => simpa using hd2
        | some y => have := succ?_eq_some_iff.1 hs; simp only [Option.getD_some]; omega
      · omega
  · intro d' a _ c
    rw [hf d' (by omega) c, hf d hd1 hd2]

/-! ### the paths together -/

/-- decidable sufficient condition for the soundness of the dated hint: nothing for a single day with
a year and for a start that carries a year (one interval); for a yearless single day: the END day offset within
±92 000 000 days (any start offset), or every occurrence empty (the shifted end always before the shifted start,
any offsets); for the windowed general path: an end without a year (the range has a defined meaning) and day
offsets within ±92 000 000 days when both dates are fixed (`offsWideD`), within ±300 000 days when a bound is
Easter (`offsSmallD`); or, on both yearless paths, a START offset of +99 500 000 days or more (`offFarStartD`:
nothing ever starts before 10000-01-01, OH/Proofs/DatedFar.lean) -/
def datedHintSafe (s : DateSpec) (so : DateOffset) (e : DateSpec) (eo : DateOffset) : Bool :=
  match singleDayOf s e with
  | some (some _, _, _) => true
  | some (none, _, _) => offWideD eo || decide (hiOff eo < loOff so) || offFarStartD so
  | none => (dateYear s).isSome || ((dateYear e).isNone && (offsSmallD s so e eo || offsWideD s so e eo))
      || offFarStartD so

/-- **Dated ranges**: under `datedHintSafe` the hint is sound on the whole evaluation window. -/
theorem MonthdayRange.date_hintOK (s : DateSpec) (so : DateOffset) (e : DateSpec) (eo : DateOffset)
    (hw : (MonthdayRange.date s so e eo).wf = true) (hsafe : datedHintSafe s so e eo = true)
    (d : Int) (hd1 : dateStart ≤ d) (hd2 : d < dateEnd) :
    HintOK (MonthdayRange.date s so e eo).filter (MonthdayRange.date s so e eo).hint d := by
  have hw' := hw
  simp only [MonthdayRange.wf, DateOffset.wf, Bool.and_eq_true] at hw'
  obtain ⟨⟨⟨ws, ⟨wso, _⟩⟩, we⟩, ⟨weo, _⟩⟩ := hw'
  cases hsd : singleDayOf s e with
  | none =>
    cases hsi : singleIntervalV s so e eo with
    | some iv =>
      exact MonthdayRange.date_hintOK_single s so e eo hw hsd iv (by rw [singleInterval_eq s so e eo hw, hsi]) d hd2
    | none =>
      have hy := (singleIntervalV_none_iff s so e eo hw).1 hsi
      by_cases hfar : offFarStartD so = true
      · simp only [offFarStartD, decide_eq_true_eq] at hfar
        exact OH.Proofs.EvalSpec.date_hintOK_farStart s so e eo hw hy hfar d hd2
      rw [Bool.not_eq_true] at hfar
      simp only [datedHintSafe, hsd, hy, Option.isSome_none, Bool.false_or, Bool.and_eq_true,
        Option.isNone_iff_eq_none, Bool.or_eq_true, hfar, Bool.false_eq_true, or_false] at hsafe
      obtain ⟨hey, hoff⟩ := hsafe
      have hns : ¬ (s = e ∧ OH.Spec.isFixedDate s = true) := by
        rintro ⟨rfl, hfx⟩
        cases s with
        | easter yr => simp [OH.Spec.isFixedDate] at hfx
        | fixed yr m dd => simp [singleDayOf] at hsd
      rcases hoff with hoff | hoff
      · obtain ⟨hss, hes, L, hL1, hLs, hLe, hL⟩ := OH.Proofs.EvalSpec.offsSmallD_spec s so e eo hoff
        exact OH.Proofs.EvalSpec.dated_yearless_hintOK s so e eo ⟨ws, wso, hss, hL1, hLs⟩ ⟨we, weo, hes, hL1, hLe⟩ hL
          (by rw [← OH.Proofs.EvalSpec.dateYear_eq]; exact hy)
          (by rw [← OH.Proofs.EvalSpec.dateYear_eq]; exact hey) hns d hd1 hd2
      · simp only [offsWideD, OH.Proofs.EvalSpec.fixedYearless, offWideD, Bool.and_eq_true, Bool.or_eq_true,
          decide_eq_true_eq, Option.isNone_iff_eq_none, beq_iff_eq] at hoff
        obtain ⟨⟨⟨⟨fs, ys⟩, ⟨fe, ye⟩⟩, hes⟩, hso⟩ := hoff
        have hss : -92000000 ≤ so.days ∧ so.days ≤ 92000000 := by
          rcases hso with h | h
          · exact absurd ⟨h, fs⟩ hns
          · exact h
        exact OH.Proofs.EvalSpec.dated_yearless_hintOKW s so e eo ⟨ws, wso, fs, ys, hss⟩ ⟨we, weo, fe, ye, hes⟩
          hns d hd1 hd2
  | some md =>
    -- `s = e = .fixed fy m dd`
    cases s with
    | easter yr => simp [singleDayOf] at hsd
    | fixed yr m dd =>
      simp only [singleDayOf] at hsd
      split at hsd
      · rename_i heq
        subst heq
        cases yr with
        | some fy => exact MonthdayRange.date_hintOK_singleDayYear fy m dd so eo hw d hd2
        | none =>
          simp only [datedHintSafe, singleDayOf, if_true, Bool.or_eq_true, offWideD, offFarStartD,
            decide_eq_true_eq] at hsafe
          rcases hsafe with (hsafe | hsafe) | hsafe
          rotate_left 2
          · exact OH.Proofs.EvalSpec.date_hintOK_farStart _ so _ eo hw rfl hsafe d hd2
          · have hw'' := hw
            simp only [MonthdayRange.wf, Bool.and_eq_true] at hw''
            exact OH.Proofs.EvalSpec.dated_single_hintOKW m dd so eo hw''.1.1.2 hw''.2 hsafe d hd1 hd2
          · exact MonthdayRange.date_hintOK_singleDayEmpty m dd so eo hw hsafe d hd1 hd2
      · cases hsd

/-- the selector-level obligation for a dated range: the filter never panics and the hint is sound
on the evaluation window -/
theorem MonthdayRange.date_ok (s : DateSpec) (so : DateOffset) (e : DateSpec) (eo : DateOffset)
    (hw : (MonthdayRange.date s so e eo).wf = true) (hsafe : datedHintSafe s so e eo = true) :
    (∀ d, ∃ b, (MonthdayRange.date s so e eo).filter d = .ok b) ∧
    ∀ d, dateStart ≤ d → d < dateEnd →
      HintOK (MonthdayRange.date s so e eo).filter (MonthdayRange.date s so e eo).hint d :=
  ⟨fun d => MonthdayRange.filter_total _ hw d, fun d h1 h2 => MonthdayRange.date_hintOK s so e eo hw hsafe d h1 h2⟩

end OH.Model
