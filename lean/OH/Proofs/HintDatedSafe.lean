import OH.Proofs.HintDatedLocal
/-
Layer B — dated ranges: decidable side conditions and the combined theorem.

`singleDaySafe so eo` ⇒ `SDLocal ∨ SDEmpty` (S2), `datedLocalB s so e eo` ⇒ `DatedLocal` (S3),
`datedHintSafe s so e eo` puts the three paths together.
-/
namespace OH.Model
open OH.Model.Cal

/-! ### bounds on a shift that does not saturate -/

/-- least and greatest displacement of `DateOffset::apply` (weekday moves are at most 6 days) -/
def loOff (o : DateOffset) : Int :=
  match o.wday with
  | .prev _ => o.days - 6
  | _ => o.days

def hiOff (o : DateOffset) : Int :=
  match o.wday with
  | .next _ => o.days + 6
  | _ => o.days

theorem yearStart_1898 : yearStart 1898 = 692865 := by decide
theorem yearStart_10010 : yearStart 10010 = 3655712 := by decide

theorem shiftC_bounds (o : DateOffset) (f : Int) (hf1 : 600000 ≤ f) (hf2 : f ≤ 3700000)
    (hd1 : -90000000 ≤ o.days) (hd2 : o.days ≤ 90000000) :
    f + loOff o ≤ o.shiftC f ∧ o.shiftC f ≤ f + hiOff o := by
  have hmin := minDay_eq; have hmax := maxDay_eq
  obtain ⟨p1, p2, p3⟩ := o.shiftC_dir f
  have hc : clampDay (f + o.days) = f + o.days := clampDay_of_inRange (by omega) (by omega)
  rw [hc] at p1 p2 p3
  unfold loOff hiOff
  cases hw : o.wday with
  | none => have := p1 hw; simp only []; omega
  | prev t => have := p2 ⟨t, hw⟩; simp only []; omega
  | next t => have := p3 ⟨t, hw⟩; simp only []; omega

theorem yearStart_window {k : Int} (h1 : 1898 ≤ k) (h2 : k ≤ 10009) :
    600000 ≤ yearStart k ∧ yearStart (k + 1) ≤ 3700000 := by
  have := yearStart_le (a := 1898) (b := k) h1
  have := yearStart_le (a := k + 1) (b := 10010) (by omega)
  have := yearStart_1898; have := yearStart_10010
  omega

/-! ### S2: decidable side condition -/

/-- sufficient for the single-day path: no saturation, and either every occurrence is empty (the
shifted end is always before the shifted start) or the shifted start stays after Jan 1 of the
previous year, the shifted end before Jan 1 of the year after next and after Jan 1 two years back -/
def singleDaySafe (so eo : DateOffset) : Bool :=
  decide (-90000000 ≤ so.days ∧ so.days ≤ 90000000 ∧ -90000000 ≤ eo.days ∧ eo.days ≤ 90000000) &&
    (decide (hiOff eo < loOff so) || decide (-365 ≤ loOff so ∧ hiOff eo ≤ 365 ∧ -730 ≤ loOff eo))

theorem singleDaySafe_spec (m dd : Nat) (so eo : DateOffset) (h : singleDaySafe so eo = true) :
    SDLocal m dd so eo ∨ SDEmpty m dd so eo := by
  simp only [singleDaySafe, Bool.and_eq_true, Bool.or_eq_true, decide_eq_true_eq] at h
  obtain ⟨⟨s1, s2, e1, e2⟩, h⟩ := h
  -- position of the occurrence of year `k`
  have pos : ∀ k f, 1899 ≤ k → k ≤ 10009 → ofYmd? k m dd = some f →
      yearStart k < f ∧ f ≤ yearStart (k + 1) ∧ 600000 ≤ f ∧ f ≤ 3700000 := by
    intro k f k1 k2 hf
    obtain ⟨_, _, v, rfl⟩ := ofYmd?_eq_some_iff.1 hf
    have := ymdRaw_bounds v
    have := yearStart_succ k
    have := yearStart_window (k := k) (by omega) k2
    omega
  rcases h with h | ⟨h1, h2, h3⟩
  · right
    intro k f k1 k2 hf
    obtain ⟨_, _, p3, p4⟩ := pos k f k1 k2 hf
    have := shiftC_bounds so f p3 p4 s1 s2
    have := shiftC_bounds eo f p3 p4 e1 e2
    omega
  · left
    refine ⟨?_, ?_, ?_⟩
    · intro k f k1 k2 hf
      obtain ⟨p1, p2, p3, p4⟩ := pos k f k1 k2 hf
      have := shiftC_bounds eo f p3 p4 e1 e2
      have := yearStart_succ (k + 1)
      have := yearLen_cases (k + 1)
      rw [show k + 2 = k + 1 + 1 by omega]
      omega
    · intro k f k1 k2 hf
      obtain ⟨p1, p2, p3, p4⟩ := pos k f k1 k2 hf
      have := shiftC_bounds so f p3 p4 s1 s2
      have := yearStart_pred k
      have := yearLen_cases (k - 1)
      omega
    · intro k f k1 k2 hf
      obtain ⟨p1, p2, p3, p4⟩ := pos k f k1 k2 hf
      have := shiftC_bounds eo f p3 p4 e1 e2
      have := yearStart_pred k
      have := yearLen_cases (k - 1)
      have := yearStart_pred (k - 1)
      have := yearLen_cases (k - 1 - 1)
      rw [show k - 2 = k - 1 - 1 by omega]
      omega

/-! ### `valid_ymd_after` / `valid_ymd_before` stay in the month's neighbourhood -/

theorem firstValidBelow_of_ge (y : Int) (m : Nat) (succ : Bool) (h1 : minYear ≤ y) (h2 : y < maxYear) (hm1 : 1 ≤ m)
    (hm2 : m ≤ 12) (n : Nat) (hn : daysInMonth y m ≤ n) :
    firstValidBelow y m succ n =
      some (if succ then ymdRaw y m (daysInMonth y m) + 1 else ymdRaw y m (daysInMonth y m)) := by
  have hdim := daysInMonth_bounds y m
  induction n with
  | zero => omega
  | succ n ih =>
    simp only [firstValidBelow]
    rw [if_neg (by omega)]
    by_cases hc : n + 1 = daysInMonth y m
    · rw [hc]
      have v : ValidYmd y m (daysInMonth y m) := ⟨hm1, hm2, by omega, by omega⟩
      rw [ofYmd?_of_valid h1 (by omega) v]
      simp only []
      cases succ with
      | false => simp
      | true =>
        have hb := ymdRaw_bounds v
        have hs : succ? (ymdRaw y m (daysInMonth y m)) = some (ymdRaw y m (daysInMonth y m) + 1) := by
          rw [succ?_eq_some_iff]
          have := yearStart_succ y
          have := yearStart_le (a := y + 1) (b := maxYear) (by omega)
          have := yearStart_maxYear_succ
          have := yearStart_succ maxYear
          have := yearLen_cases maxYear
          have := maxDay_eq
          omega
        simp only [if_true, hs]
    · have hnone : ofYmd? y m (n + 1) = none := by
        rw [ofYmd?_eq_none_iff]; unfold ValidYmd; omega
      rw [hnone]
      exact ih (by omega)

/-- position in the year of `valid_ymd_after`/`valid_ymd_before` -/
theorem validYmd_pos (y : Int) (m dd : Nat) (after : Bool) (h1 : minYear ≤ y) (h2 : y < maxYear) (hm1 : 1 ≤ m)
    (hm2 : m ≤ 12) (hd1 : 1 ≤ dd) (_hd2 : dd ≤ 31) :
    yearStart y + monthStart (isLeap y) m + min (dd : Int) 28 ≤
        (if after then validYmdAfter y m dd else validYmdBefore y m dd) ∧
      (if after then validYmdAfter y m dd else validYmdBefore y m dd) ≤ yearStart y + monthStart (isLeap y) m + dd := by
  have hdim := daysInMonth_bounds y m
  by_cases hv : dd ≤ daysInMonth y m
  · have v : ValidYmd y m dd := ⟨hm1, hm2, hd1, hv⟩
    have e := ofYmd?_of_valid h1 (by omega) v
    have : (if after then validYmdAfter y m dd else validYmdBefore y m dd) = ymdRaw y m dd := by
      cases after <;> simp [validYmdAfter, validYmdBefore, e]
    rw [this]; unfold ymdRaw; omega
  · have hnone : ofYmd? y m dd = none := by
      rw [ofYmd?_eq_none_iff]; unfold ValidYmd; omega
    cases after with
    | true =>
      simp only [if_true, validYmdAfter, hnone,
        firstValidBelow_of_ge y m true h1 h2 hm1 hm2 (dd - 1) (by omega), Option.getD_some]
      unfold ymdRaw; omega
    | false =>
      simp only [Bool.false_eq_true, if_false, validYmdBefore, hnone,
        firstValidBelow_of_ge y m false h1 h2 hm1 hm2 (dd - 1) (by omega), Option.getD_some]
      unfold ymdRaw; omega

/-! ### S3: decidable side condition -/

/-- least position in the year (1-based ordinal) of the projections of a bound -/
def ordLo : DateSpec → Int
  | .fixed _ m dd => monthStart false m + min (dd : Int) 28
  | .easter _ => 81

/-- least number of days left in the year after the projections of a bound -/
def endMargin : DateSpec → Int
  | .fixed _ m dd => 365 - monthStart false m - dd
  | .easter _ => 250

/-- the shifted projection of a yearless bound on year `k` lies in year `k` -/
def boundLocalB (ds : DateSpec) (o : DateOffset) : Bool :=
  (dateYear ds).isNone && decide (1 ≤ ordLo ds + loOff o) && decide (hiOff o ≤ endMargin ds)

def datedLocalB (s : DateSpec) (so : DateOffset) (e : DateSpec) (eo : DateOffset) : Bool :=
  boundLocalB s so && boundLocalB e eo

@[simp] theorem loOff_none (n : Int) : loOff ⟨.none, n⟩ = n := rfl
@[simp] theorem hiOff_none (n : Int) : hiOff ⟨.none, n⟩ = n := rfl

theorem monthStart_leap_le (leap : Bool) (m : Nat) :
    monthStart false m ≤ monthStart leap m ∧ monthStart leap m ≤ monthStart false m + 1 := by
  cases leap
  · omega
  · unfold monthStart; split <;> simp

theorem monthStart_false_le (m : Nat) : 0 ≤ monthStart false m ∧ monthStart false m ≤ 365 := by
  unfold monthStart; split <;> simp

theorem monthStart_false_le_334 (m : Nat) (h1 : 1 ≤ m) (h2 : m ≤ 12) : monthStart false m ≤ 334 := by
  have : m = 1 ∨ m = 2 ∨ m = 3 ∨ m = 4 ∨ m = 5 ∨ m = 6 ∨ m = 7 ∨ m = 8 ∨ m = 9 ∨ m = 10 ∨ m = 11 ∨ m = 12 := by omega
  rcases this with rfl | rfl | rfl | rfl | rfl | rfl | rfl | rfl | rfl | rfl | rfl | rfl <;> decide

theorem boundLocalB_spec (ds : DateSpec) (o : DateOffset) (after : Bool) (hw : ds.wf = true)
    (h : boundLocalB ds o = true) (k : Int) (k1 : 1898 ≤ k) (k2 : k ≤ 10009) :
    ∃ x, boundV ds o after k = some x ∧ year x = k := by
  simp only [boundLocalB, Bool.and_eq_true, decide_eq_true_eq, Option.isNone_iff_eq_none] at h
  obtain ⟨⟨hy, hlo⟩, hhi⟩ := h
  have hwin := yearStart_window k1 k2
  have hsucc := yearStart_succ k
  have hlen := yearLen_eq_ite k
  have hminy : minYear = -262143 := rfl
  have hmaxy : maxYear = 262142 := rfl
  -- the unshifted projection and its position
  have key : ∃ v, dateOnYearV ds k after = some v ∧ yearStart k + ordLo ds ≤ v ∧
      v + endMargin ds ≤ yearStart (k + 1) ∧ yearStart k < v ∧ v ≤ yearStart (k + 1) := by
    cases ds with
    | easter yr =>
      cases yr with
      | some y0 => simp [dateYear] at hy
      | none =>
        obtain ⟨v, hv, _, v1, v2, _⟩ := easter_spec k (by omega) (by omega)
        refine ⟨v, ?_, ?_, ?_, ?_, ?_⟩
        · simp only [dateOnYearV, dateOnYear, hv]
        all_goals
          have := monthStart_mar k
          have := monthStart_apr k
          have := yearLen_cases k
          unfold ymdRaw at v1 v2
          try simp only [ordLo, endMargin]
          omega
    | fixed yr m dd =>
      cases yr with
      | some y0 => simp [dateYear] at hy
      | none =>
        simp only [DateSpec.wf, optYearOk, Bool.and_eq_true, decide_eq_true_eq, Bool.true_and] at hw
        obtain ⟨⟨⟨m1, m2⟩, d1⟩, d2⟩ := hw
        obtain ⟨p1, p2⟩ := validYmd_pos k m dd after (by omega) (by omega) m1 m2 d1 d2
        refine ⟨(if after then validYmdAfter k m dd else validYmdBefore k m dd), rfl, ?_⟩
        generalize (if after then validYmdAfter k m dd else validYmdBefore k m dd) = v at p1 p2 ⊢
        have := monthStart_leap_le (isLeap k) m
        have := monthStart_succ_le_yearLen k m m1 m2
        have := monthStart_nonneg (isLeap k) m
        have := daysInMonth_bounds k m
        have hms : isLeap k = true → m ≤ 2 → monthStart (isLeap k) m = monthStart false m := by
          intro hl hm
          rw [hl]
          have : m = 1 ∨ m = 2 := by omega
          rcases this with rfl | rfl <;> rfl
        have hms' : isLeap k = true → 3 ≤ m → monthStart (isLeap k) m = monthStart false m + 1 := by
          intro hl hm
          rw [hl]
          have : m = 3 ∨ m = 4 ∨ m = 5 ∨ m = 6 ∨ m = 7 ∨ m = 8 ∨ m = 9 ∨ m = 10 ∨ m = 11 ∨ m = 12 := by omega
          rcases this with rfl | rfl | rfl | rfl | rfl | rfl | rfl | rfl | rfl | rfl <;> rfl
        have hle : monthStart false m + dd ≤ 365 := by
          have := monthStart_false_le_334 m m1 m2
          omega
        have := (monthStart_false_le m).1
        simp only [ordLo, endMargin] at hlo hhi ⊢
        by_cases hl : isLeap k = true
        · rw [if_pos hl] at hlen
          by_cases hm : m ≤ 2
          · have := hms hl hm; omega
          · have := hms' hl (by omega); omega
        · rw [if_neg hl] at hlen
          have : isLeap k = false := by simpa using hl
          rw [this] at p1 p2
          omega
  obtain ⟨v, hv, q1, q2, q3, q4⟩ := key
  have hlo' : -90000000 ≤ o.days := by
    have : ordLo ds ≤ 400 := by
      cases ds with
      | easter _ => simp [ordLo]
      | fixed _ m dd => have := monthStart_false_le m; simp only [ordLo]; omega
    unfold loOff at hlo; split at hlo <;> omega
  have hhi' : o.days ≤ 90000000 := by
    have : endMargin ds ≤ 400 := by
      cases ds with
      | easter _ => simp [endMargin]
      | fixed _ m dd => have := monthStart_false_le m; simp only [endMargin]; omega
    unfold hiOff at hhi; split at hhi <;> omega
  have := shiftC_bounds o v (by omega) (by omega) hlo' hhi'
  refine ⟨o.shiftC v, ?_, ?_⟩
  · simp only [boundV, hv, Option.map_some]
  · rw [year_eq_iff]; omega

theorem datedLocalB_spec (s : DateSpec) (so : DateOffset) (e : DateSpec) (eo : DateOffset)
    (hw : (MonthdayRange.date s so e eo).wf = true) (h : datedLocalB s so e eo = true) : DatedLocal s so e eo := by
  simp only [MonthdayRange.wf, Bool.and_eq_true] at hw
  obtain ⟨⟨⟨hs, _⟩, he⟩, _⟩ := hw
  simp only [datedLocalB, Bool.and_eq_true] at h
  intro k k1 k2
  exact ⟨boundLocalB_spec s so true hs h.1 k k1 k2, boundLocalB_spec e eo false he h.2 k k1 k2⟩

/-- offsets `⟨none, 0⟩` on both bounds: always year-local -/
theorem datedLocalB_of_no_offsets (s e : DateSpec) (hs : s.wf = true) (he : e.wf = true) (ys : dateYear s = none)
    (ye : dateYear e = none) : datedLocalB s ⟨.none, 0⟩ e ⟨.none, 0⟩ = true := by
  have key : ∀ ds : DateSpec, ds.wf = true → dateYear ds = none → boundLocalB ds ⟨.none, 0⟩ = true := by
    intro ds hds hy
    simp only [boundLocalB, hy, Option.isNone_none, Bool.true_and, Bool.and_eq_true, loOff_none, hiOff_none]
    cases ds with
    | easter _ => simp [ordLo, endMargin]
    | fixed yr m dd =>
      simp only [DateSpec.wf, Bool.and_eq_true, decide_eq_true_eq] at hds
      obtain ⟨⟨⟨⟨_, m1⟩, m2⟩, d1⟩, d2⟩ := hds
      simp only [ordLo, endMargin]
      have := monthStart_false_le_334 m m1 m2
      have := (monthStart_false_le m).1
      constructor <;> apply decide_eq_true <;> omega
  simp only [datedLocalB, Bool.and_eq_true]
  exact ⟨key s hs ys, key e he ye⟩

/-! ### the three paths together -/

/-- decidable sufficient condition for the soundness of the dated hint: nothing for a single day with
a year and for a start that carries a year (one interval), `singleDaySafe` for a yearless single
day, `datedLocalB` for the windowed general path -/
def datedHintSafe (s : DateSpec) (so : DateOffset) (e : DateSpec) (eo : DateOffset) : Bool :=
  match singleDayOf s e with
  | some (some _, _, _) => true
  | some (none, _, _) => singleDaySafe so eo
  | none => (dateYear s).isSome || datedLocalB s so e eo

/-- **Dated ranges**: under `datedHintSafe` the hint is sound on the whole evaluation window. -/
theorem MonthdayRange.date_hintOK (s : DateSpec) (so : DateOffset) (e : DateSpec) (eo : DateOffset)
    (hw : (MonthdayRange.date s so e eo).wf = true) (hsafe : datedHintSafe s so e eo = true)
    (d : Int) (hd1 : dateStart ≤ d) (hd2 : d < dateEnd) :
    HintOK (MonthdayRange.date s so e eo).filter (MonthdayRange.date s so e eo).hint d := by
  cases hsd : singleDayOf s e with
  | none =>
    cases hsi : singleIntervalV s so e eo with
    | some iv =>
      exact MonthdayRange.date_hintOK_single s so e eo hw hsd iv (by rw [singleInterval_eq s so e eo hw, hsi]) d hd2
    | none =>
      have hy := (singleIntervalV_none_iff s so e eo hw).1 hsi
      simp only [datedHintSafe, hsd, hy, Option.isSome_none, Bool.false_or] at hsafe
      exact MonthdayRange.date_hintOK_local s so e eo hw hsd (datedLocalB_spec s so e eo hw hsafe) d hd1 hd2
  | some md =>
    -- `s = e = .fixed fy m dd`
    cases s with
    | easter yr => simp [singleDayOf] at hsd
    | fixed yr m dd =>
      simp only [singleDayOf] at hsd
      split at hsd
      · rename_i heq
        subst heq
        cases yr with
        | some fy => exact MonthdayRange.date_hintOK_singleDayYear fy m dd so eo hw d hd2
        | none =>
          simp only [datedHintSafe, singleDayOf, if_true] at hsafe
          exact MonthdayRange.date_hintOK_singleDay m dd so eo hw (singleDaySafe_spec m dd so eo hsafe) d hd1 hd2
      · cases hsd

/-- the selector-level obligation for a dated range: the filter never panics and the hint is sound
on the evaluation window -/
theorem MonthdayRange.date_ok (s : DateSpec) (so : DateOffset) (e : DateSpec) (eo : DateOffset)
    (hw : (MonthdayRange.date s so e eo).wf = true) (hsafe : datedHintSafe s so e eo = true) :
    (∀ d, ∃ b, (MonthdayRange.date s so e eo).filter d = .ok b) ∧
    ∀ d, dateStart ≤ d → d < dateEnd →
      HintOK (MonthdayRange.date s so e eo).filter (MonthdayRange.date s so e eo).hint d :=
  ⟨fun d => MonthdayRange.filter_total _ hw d, fun d h1 h2 => MonthdayRange.date_hintOK s so e eo hw hsafe d h1 h2⟩

end OH.Model
