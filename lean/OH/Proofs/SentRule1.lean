import OH.Proofs.SynRule5
import OH.Spec.Sent
/-
C05, assembly of `sentence_parses`, part 1: the pieces around the selectors, for every spelling of a
sentence (OH/Spec/Sent.lean).
 * the kind words `open`, `closed`, `off`, `unknown` (`rules_modifier_enum`);
 * `Modifier.render`: a kind word and/or a comment (`rules_modifier`);
 * the six spellings of the rule separators (`SepWord`), also when the leading space of ` ; ` / ` || `
   has already been consumed by the rule before (`run_sepS`);
 * what follows the selectors of a rule, cut after the single space it may start with (`CutS`): the
   end, a separator written without space (`;`, `, `, `|| `), or a space and a modifier / separator.
-/
namespace OH.Proofs.Sent
open OH.Model OH.Model.Peg OH.Model.Parser OH.Generated.Grammar OH.Proofs.Syn
open OH.Spec.Sent (KindWord Modifier SepWord quote commentWf)

/-! ### comments -/

theorem commentWf_ok (c : String) (h : commentWf c = true) : okCommentChars c.toList = true := h

theorem quote_eq (c : String) : quote c = '"' :: c.toList ++ ['"'] := rfl

/-! ### kind words -/

def kwLeaf : KindWord → PRule
  | .closed | .off => .rules_modifier_enum_closed
  | .unknown => .rules_modifier_enum_unknown
  | _ => .rules_modifier_enum_open

def kwTree (w : KindWord) : T := .node .rules_modifier_enum w.render [.node (kwLeaf w) w.render []]

theorem run_kw (w : KindWord) (hw : w ≠ .none) (rest : List Char) :
    run g_rules_modifier_enum false (w.render ++ rest) = some ⟨[kwTree w], w.render, rest⟩ := by
  cases w <;>
    first
    | exact absurd rfl hw
    | simp [g_rules_modifier_enum, g_rules_modifier_enum_closed, g_rules_modifier_enum_open,
        g_rules_modifier_enum_unknown, kwTree, kwLeaf, KindWord.render, OH.Spec.Sent.t, peg]

theorem build_kw (w : KindWord) (hw : w ≠ .none) : buildRulesModifierEnum (kwTree w) = .ok w.denote := by
  cases w <;>
    first
    | exact absurd rfl hw
    | simp [buildRulesModifierEnum, kwTree, kwLeaf, KindWord.denote, assertRule, Tree.rule, Tree.kids, bind,
        Except.bind]

/-- a kind word starts with `o`, `c` or `u` -/
theorem kw_head (w : KindWord) (hw : w ≠ .none) :
    ∃ c cs, w.render = c :: cs ∧ (c = 'o' ∨ c = 'c' ∨ c = 'u') := by
  cases w with
  | none => exact absurd rfl hw
  | open_ => exact ⟨'o', ['p', 'e', 'n'], rfl, .inl rfl⟩
  | closed => exact ⟨'c', ['l', 'o', 's', 'e', 'd'], rfl, .inr (.inl rfl)⟩
  | off => exact ⟨'o', ['f', 'f'], rfl, .inl rfl⟩
  | unknown => exact ⟨'u', ['n', 'k', 'n', 'o', 'w', 'n'], rfl, .inr (.inr rfl)⟩

/-! ### `rules_modifier` on `Modifier.render` -/

/-- no modifier is written -/
def Modifier.absent (m : Modifier) : Prop := m.word = .none ∧ m.comment = none

instance (m : Modifier) : Decidable (Modifier.absent m) := by unfold Modifier.absent; infer_instance

theorem modifier_render_absent (m : Modifier) (h : Modifier.absent m) : m.render = [] := by
  obtain ⟨w, c⟩ := m
  obtain ⟨h1, h2⟩ := h
  simp only at h1 h2
  subst h1 h2
  rfl

/-- a written modifier parses to its kind and its comment, in front of anything that does not start a
comment (directly or after a space); it starts with `o`, `c`, `u` or `"` -/
theorem parses_modifier (m : Modifier) (hwf : m.wf = true) (hne : ¬ Modifier.absent m) (rest : List Char)
    (hf : NoComment rest) :
    ParsesTo g_rules_modifier buildRulesModifier m.render rest (m.word.denote, m.comment)
      ∧ ∃ c cs, m.render = c :: cs ∧ ModStart c := by
  obtain ⟨w, oc⟩ := m
  cases oc with
  | none =>
    have hw : w ≠ .none := fun h => hne ⟨h, rfl⟩
    obtain ⟨c, cs, e, hc⟩ := kw_head w hw
    have er : (Modifier.mk w none).render = w.render := by simp [Modifier.render]
    rw [er]
    refine ⟨ParsesTo.mk' .rules_modifier [kwTree w] ?_ ?_, c, cs, e, ?_⟩
    · have h1 : run g_comment false (w.render ++ rest) = none := by
        apply run_comment_none
        intro r e'
        rw [e] at e'
        injection e' with e1 _
        rcases hc with rfl | rfl | rfl <;> exact absurd e1 (by decide)
      have h2 := run_kw w hw rest
      have h3 : run (.seq (.opt g_space) g_comment) false rest = none := by
        cases rest with
        | nil => simp [g_space, peg, run_comment_none [] (by simp)]
        | cons c r =>
          by_cases hc : c = ' '
          · subst hc
            have := run_comment_none r (fun r' e => hf.2 r' (by rw [e]))
            simp [g_space, peg, this]
          · have := run_comment_none (c :: r) hf.1
            simp [g_space, peg, Ne.symm hc, this]
      simp [g_rules_modifier, run_rule, run_alt, run_seq, run_opt, h1, h2, h3, R.append, R.nil]
    · have h1 := build_kw w hw
      simp only [kwTree] at h1
      simp [buildRulesModifier, assertRule, Tree.rule, Tree.kids, kwTree, h1, bind, Except.bind]
    · rcases hc with rfl | rfl | rfl <;> simp [ModStart]
  | some s =>
    have hok : okCommentChars s.toList = true := hwf
    by_cases hw : w = .none
    · subst hw
      have er : (Modifier.mk .none (some s)).render = '"' :: s.toList ++ ['"'] := by
        simp [Modifier.render, KindWord.render, quote]
      rw [er]
      refine ⟨?_, '"', _, rfl, by simp [ModStart]⟩
      have := parses_modifier_comment s.toList hok rest
      simpa [KindWord.denote] using this
    · obtain ⟨c, cs, e, hc⟩ := kw_head w hw
      have er : (Modifier.mk w (some s)).render = w.render ++ ' ' :: '"' :: s.toList ++ ['"'] := by
        have : (w == KindWord.none) = false := by simpa using hw
        simp [Modifier.render, this, quote]
      rw [er]
      refine ⟨ParsesTo.mk' .rules_modifier [kwTree w, commentTree s.toList] ?_ ?_, c,
        cs ++ (' ' :: '"' :: s.toList ++ ['"']), by rw [e]; simp, ?_⟩
      · have h1 : run g_comment false (w.render ++ (' ' :: '"' :: s.toList ++ '"' :: rest)) = none := by
          apply run_comment_none
          intro r e'
          rw [e] at e'
          injection e' with e1 _
          rcases hc with rfl | rfl | rfl <;> exact absurd e1 (by decide)
        have h2 := run_kw w hw (' ' :: '"' :: s.toList ++ '"' :: rest)
        have h3 := run_comment s.toList hok rest
        simp only [List.append_assoc, List.cons_append, List.nil_append] at h1 h2 h3 ⊢
        simp [g_rules_modifier, g_space, run_rule, run_alt, run_seq, run_opt, run_str, stripPrefix_cons_cons,
          h1, h2, h3, R.append]
      · have h1 := build_kw w hw
        have h2 := build_comment s.toList
        simp only [kwTree] at h1
        simp [buildRulesModifier, assertRule, Tree.rule, Tree.kids, kwTree, h1, h2, bind, Except.bind]
      · rcases hc with rfl | rfl | rfl <;> simp [ModStart]

/-! ### the six spellings of the rule separators -/

/-- the separator without its leading space -/
def sepCoreS : SepWord → List Char
  | .semiSpace | .spaceSemiSpace => [';', ' ']
  | .semi => [';']
  | .commaSpace => [',', ' ']
  | .spaceBarsSpace | .barsSpace => ['|', '|', ' ']

/-- its leading space, when it is written with one -/
def sepLeadS : SepWord → List Char
  | .spaceSemiSpace | .spaceBarsSpace => [' ']
  | _ => []

theorem sepWord_render_eq (w : SepWord) : w.render = sepLeadS w ++ sepCoreS w := by
  cases w <;> rfl

theorem sepCoreS_ne_nil (w : SepWord) : sepCoreS w ≠ [] := by
  cases w <;> simp [sepCoreS]

/-- first character of the separator without its leading space -/
theorem sepCoreS_head (w : SepWord) :
    (∃ r, sepCoreS w = ';' :: r) ∨ sepCoreS w = [',', ' '] ∨ (∃ r, sepCoreS w = '|' :: r) := by
  cases w <;> simp [sepCoreS]

/-- every spelling is read back, with or without its leading space, in front of a rule (which never
starts with a space) -/
theorem run_sepS (w : SepWord) (sp : List Char) (hsp : sp = [] ∨ sp = sepLeadS w) (rest : List Char)
    (hr : ∀ r, rest ≠ ' ' :: r) :
    run g_any_rule_separator false (sp ++ sepCoreS w ++ rest)
      = some ⟨[sepTree w.denote (sp ++ sepCoreS w)], sp ++ sepCoreS w, rest⟩ := by
  have hsp0 : run (.opt g_space) true rest = some ⟨[], [], rest⟩ := by
    cases rest with
    | nil => simp [g_space, peg]
    | cons c r =>
      have : ' ' ≠ c := by intro e; subst e; exact hr r rfl
      simp [g_space, peg, this]
  simp only [g_space, run_opt, run_str, R.nil] at hsp0
  cases w <;> rcases hsp with rfl | rfl <;>
    simp [g_any_rule_separator, g_normal_rule_separator, g_additional_rule_separator,
      g_fallback_rule_separator, g_space, sepTree, sepLeaf, sepCoreS, sepLeadS, SepWord.denote,
      run_rule, run_alt, run_seq, run_opt, run_str, stripPrefix_cons_cons, R.append, R.nil, hsp0]

/-! ### what follows the selectors of a rule -/

/-- The text after the selectors of a rule, cut after the single space it may start with:
 * the end of the text;
 * a separator written without a space in front (`;…`, `, …`, `||…`);
 * a space and then a modifier (`open`, `closed`, `off`, `unknown`, `"…"`) or a separator (`; `, `|| `). -/
inductive CutS : List Char → List Char → List Char → Prop
  | nil : CutS [] [] []
  | semi (r : List Char) : CutS (';' :: r) [] (';' :: r)
  | comma (r : List Char) : CutS (',' :: ' ' :: r) [] (',' :: ' ' :: r)
  | bar (r : List Char) : CutS ('|' :: r) [] ('|' :: r)
  | space (c : Char) (r : List Char) : ModStart c → CutS (' ' :: c :: r) [' '] (c :: r)

theorem CutS.eq {a sp a' : List Char} (h : CutS a sp a') : a = sp ++ a' := by
  cases h <;> rfl

/-- `space?` on the whole text -/
theorem CutS.optSpace {a sp a' : List Char} (h : CutS a sp a') :
    run (.opt g_space) false a = some ⟨[], sp, a'⟩ := by
  cases h <;> simp [g_space, peg]

/-- `space?` after the space is gone -/
theorem CutS.optSpace' {a sp a' : List Char} (h : CutS a sp a') :
    run (.opt g_space) false a' = some ⟨[], [], a'⟩ := by
  cases h with
  | space c r hc => simp [g_space, peg, modStart_ne_space c hc]
  | _ => simp [g_space, peg]

/-- the context of a complete selector sequence in a sentence: that of printed output (`FollowSel`), or
a separator written without a space -/
def FollowSelS (rest : List Char) : Prop :=
  FollowSel rest ∨ ∃ c r, rest = c :: r ∧ (c = ';' ∨ c = '|')

theorem CutS.followSelS {a sp a' : List Char} (h : CutS a sp a') : FollowSelS a := by
  cases h with
  | nil => exact .inl (.inl rfl)
  | semi r => exact .inr ⟨_, _, rfl, .inl rfl⟩
  | comma r => exact .inl (.inr (.inl ⟨r, rfl⟩))
  | bar r => exact .inr ⟨_, _, rfl, .inr rfl⟩
  | space c r hc => exact .inl (.inr (.inr ⟨c, r, rfl, hc⟩))

/-- neither a weekday nor a time selector starts after the cut -/
theorem CutS.small_none {a sp a' : List Char} (h : CutS a sp a') :
    run g_small_range_selectors false a' = none := by
  apply run_small_none
  cases h with
  | nil => exact .inl rfl
  | semi r => exact .inr ⟨';', _, rfl, by decide, by unfold TimeStart; decide⟩
  | comma r => exact .inr ⟨',', _, rfl, by decide, by unfold TimeStart; decide⟩
  | bar r => exact .inr ⟨'|', _, rfl, by decide, by unfold TimeStart; decide⟩
  | space c r hc => exact .inr ⟨c, r, rfl, modStart_noWdStart c hc, modStart_noTimeStart c hc⟩

/-- nor on the whole text -/
theorem CutS.small_none_all {a sp a' : List Char} (h : CutS a sp a') :
    run g_small_range_selectors false a = none := by
  apply run_small_none
  cases h with
  | nil => exact .inl rfl
  | semi r => exact .inr ⟨';', _, rfl, by decide, by unfold TimeStart; decide⟩
  | comma r => exact .inr ⟨',', _, rfl, by decide, by unfold TimeStart; decide⟩
  | bar r => exact .inr ⟨'|', _, rfl, by decide, by unfold TimeStart; decide⟩
  | space c r hc => exact .inr ⟨' ', _, rfl, by decide, by unfold TimeStart; decide⟩

end OH.Proofs.Sent
