import OH.Proofs.EvalCommentsProvLone
/-
C17, expression level (part 2b): the iteration (`IntoIter`) yields an open or unknown range that
nothing touches or overlaps exactly as it is stored (bounds, kind, comments).
-/
namespace OH.Proofs.EvalCommentsProv
open OH.Model OH.Model.Cal OH.Model.Schedule OH.Spec.Schedule OH.Proofs.Schedule OH.Props.C14
open OH.Proofs.SortedVec

/-- the loop of `next` does not consume a lone range that is not closed: it stays in the remaining
ranges -/
theorem nextLoop_keeps (y : TimeRange) (rs : List TimeRange) (t : TimeRange)
    (hw : WF rs) (hy : ∀ u ∈ rs, y.e ≤ u.s) (ht : t ∈ rs) (hl : Lone t rs)
    (hk : t.kind ≠ Kind.closed) (hyk : y.e = t.s → y.kind ≠ t.kind) : t ∈ (nextLoop y rs).2 := by
  fun_induction nextLoop y rs with
  | case1 y => cases ht
  | case2 y n rest h => exact ht
  | case3 y n rest h1 h2 => exact ht
  | case4 y n rest h1 h2 ih =>
    simp only [WF] at hw
    have hkind : y.kind = n.kind := by rw [extendHole_kind] at h2; exact Decidable.not_not.mp h2
    have hne : t ≠ n := by
      rintro rfl
      have : y.e ≤ t.s := hy t (by simp)
      by_cases e : y.e = t.s
      · exact hyk e hkind
      · exact h1 ⟨by omega, by rw [hkind]; exact hk⟩
    have ht' : t ∈ rest := by
      rcases List.mem_cons.mp ht with h | h
      · exact absurd h hne
      · exact h
    have hnt := wf_nonempty rest hw.2.2 t ht'
    apply ih hw.2.2 hw.2.1 ht' (fun u hu => hl u (by simp [hu]))
    intro e
    simp only at e
    rcases hl n (by simp) with h | h
    · exact absurd h.symm hne
    · unfold Apart at h; have := hw.1; omega

/-- started from a lone range that is not closed, the loop of `next` yields it unchanged -/
theorem nextLoop_self (t : TimeRange) (rest : List TimeRange) (hw : WF (t :: rest))
    (hl : Lone t (t :: rest)) (hk : t.kind ≠ Kind.closed) : (nextLoop t rest).1 = t := by
  cases rest with
  | nil => simp [nextLoop, hk]
  | cons m rest' =>
    simp only [WF] at hw
    have h1 := hw.2.1 m (by simp)
    have h2 := hw.2.2.1
    have h3 : m.s > t.e := by
      rcases hl m (by simp) with h | h
      · rw [h] at h2 h1; omega
      · unfold Apart at h; omega
    rw [nextLoop]
    simp [h3, hk]

/-- one call of `next`: a lone range that is not closed is the yielded range, or remains -/
theorem nextRaw_keeps (st : IterState) (t : TimeRange) (hinv : IterInv st) (ht : t ∈ st.ranges)
    (hl : Lone t st.ranges) (hk : t.kind ≠ Kind.closed) :
    (nextRaw st).1 = t ∨ t ∈ (nextRaw st).2 := by
  obtain ⟨le, rs⟩ := st
  obtain ⟨hw, hge⟩ := hinv
  simp only at hw hge ht hl
  unfold nextRaw
  rcases rs with _ | ⟨n, rest⟩
  · cases ht
  · have hw' := hw
    simp only [WF] at hw
    by_cases hc : n.s = le
    · rw [nextStart_eq le n rest hc]
      simp only
      by_cases e : n = t
      · left; subst e; exact nextLoop_self n rest hw' hl hk
      · right
        have ht' : t ∈ rest := by
          rcases List.mem_cons.mp ht with h | h
          · exact absurd h.symm e
          · exact h
        have hnt := wf_nonempty rest hw.2.2 t ht'
        apply nextLoop_keeps n rest t hw.2.2 hw.2.1 ht' (fun u hu => hl u (by simp [hu])) hk
        intro e'
        rcases hl n (by simp) with h | h
        · exact absurd h e
        · unfold Apart at h; have := hw.1; omega
    · rw [nextStart_ne le n rest hc]
      simp only
      right
      apply nextLoop_keeps _ (n :: rest) t hw' ?_ ht hl hk (fun _ h => hk h.symm)
      intro u hu
      simp only
      rcases List.mem_cons.mp hu with rfl | hu
      · exact Nat.le_refl _
      · have := hw.2.1 u hu; have := hw.1; omega

theorem iterFrom_keeps (st : IterState) (t : TimeRange) (hinv : IterInv st) (ht : t ∈ st.ranges)
    (hl : Lone t st.ranges) (hk : t.kind ≠ Kind.closed) (hlt : t.s < 1440) :
    t ∈ (iterFrom st).1 := by
  fun_induction iterFrom st with
  | case1 st hn =>
    rcases next_cases st with ⟨h1, _⟩ | ⟨_, _, h2⟩ | ⟨_, _, h2⟩
    · have := hinv.2 t ht; omega
    · rw [hn] at h2; cases h2
    · rw [hn] at h2; cases h2
  | case2 st v hn =>
    rcases next_cases st with ⟨_, h2⟩ | ⟨_, _, h2⟩ | ⟨h1, h2, _⟩
    · rw [hn] at h2; cases h2
    · rw [hn] at h2; cases h2
    · exact absurd ((nextRaw_spec st hinv).2.1 h1) h2
  | case3 st v st' hn r ih =>
    rcases next_cases st with ⟨_, h2⟩ | ⟨h1, h2, h3⟩ | ⟨_, _, h2⟩
    · rw [hn] at h2; cases h2
    · rw [hn] at h3
      injection h3 with hv hst
      subst hv hst
      obtain ⟨_, _, _, _, _, a6, _, a8, _⟩ := nextRaw_spec st hinv
      rcases nextRaw_keeps st t hinv ht hl hk with e | hm
      · rw [e]; exact List.mem_cons_self
      · exact List.mem_cons_of_mem _ (ih a6 hm (fun u hu => hl u (a8 u hu)))
    · rw [hn] at h2; cases h2

/-- THE ITERATION KEEPS AN ISOLATED OPEN OR UNKNOWN RANGE: a range of a well-formed schedule that is
not closed, starts before 24:00, and that no other range touches or overlaps is yielded exactly as
stored (bounds, kind, comments) -/
theorem iter_keeps_lone (s : Schedule) (hw : WF s) (t : TimeRange) (ht : t ∈ s) (hl : Lone t s)
    (hk : t.kind ≠ Kind.closed) (hlt : t.s < 1440) : t ∈ iter s :=
  iterFrom_keeps (IterState.new s) t (iterInv_new s hw) ht hl hk hlt

theorem tilesLE {l : List TimeRange} {a b : Nat} (h : Tiles l a b) : a ≤ b := by
  induction l generalizing a with
  | nil => simp only [Tiles] at h; omega
  | cons t ts ih => simp only [Tiles] at h; have := ih h.2.2; omega

theorem tilesWF {l : List TimeRange} {a b : Nat} (h : Tiles l a b) : WF l ∧ ∀ t ∈ l, a ≤ t.s := by
  induction l generalizing a with
  | nil => exact ⟨trivial, by simp⟩
  | cons t ts ih =>
    simp only [Tiles] at h
    obtain ⟨w, hb⟩ := ih h.2.2
    refine ⟨⟨h.2.1, fun u hu => hb u hu, w⟩, ?_⟩
    intro u hu
    rcases List.mem_cons.1 hu with rfl | hu
    · omega
    · have := hb u hu; omega

/-- the yielded ranges are pairwise disjoint -/
theorem iter_wf (s : Schedule) (hw : WF s) : WF (iter s) := by
  obtain ⟨E, _, h, _⟩ := iter_ext s hw
  exact (tilesWF h).1

end OH.Proofs.EvalCommentsProv
