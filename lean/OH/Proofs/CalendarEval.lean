import OH.Model.Eval
import OH.Proofs.Calendar
/-
Calendar facts about the evaluator's small date helpers (`utils/dates.rs`), stated on the
definitions of `OH.Model.Eval`.
-/
namespace OH.Model
open OH.Model.Cal

/-- `count_days_in_month` returns the length of the month and never reaches its `expect`
("time not monotonic while comparing dates") — for every representable day, including December
of chrono's last year where `checked_add_months` fails -/
theorem countDaysInMonth_eq (d : Int) (h1 : minDay ≤ d) (h2 : d ≤ maxDay) :
    countDaysInMonth d = .ok (daysInMonth (year d) (month d)) := by
  obtain ⟨y1, y2⟩ := (inRange_iff_year d).1 ⟨h1, h2⟩
  unfold countDaysInMonth
  cases h : addOneMonth? d with
  | none =>
    have := (addOneMonth?_eq_none_iff y1 y2).1 h
    simp only []
    rw [this.2]; rfl
  | some nxt =>
    have e := firstOfMonth_addOneMonth? h
    have := daysInMonth_bounds (year d) (month d)
    simp only []
    rw [e, if_pos (by omega)]
    simp

/-- `addDaysSat` (`add_days_saturating`) is plain addition whenever the target is representable and
the offset is within `Duration::try_days` -/
theorem addDaysSat_eq {d n : Int} (hn : -106751991167 ≤ n ∧ n ≤ 106751991167)
    (h1 : minDay ≤ d + n) (h2 : d + n ≤ maxDay) : addDaysSat d n = d + n := by
  unfold addDaysSat
  rw [if_neg (by omega), (addDays?_eq_some_iff (d' := d + n)).2 ⟨h1, h2, rfl⟩]

end OH.Model
