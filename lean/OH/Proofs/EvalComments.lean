import OH.Props.C14
import OH.Model.Eval
import OH.Model.Print
/-
Evaluator side of C06: CHANGING THE COMMENTS OF RULES NEVER CHANGES THE STATE (open / closed /
unknown) OF ANY MINUTE OF ANY DAY, nor the evaluation errors.

Route: a pointwise simulation relation `KindEq` between schedules (both well-formed, the same
`stateAt` at every minute — the range LISTS may differ, because `insert` coalesces adjacent ranges
only when kind AND comments agree), established by `from_ranges`, preserved by `addition`
(C14 overlay law), respected by `is_always_closed`, threaded through `rule_sequence_schedule_at`,
the loop body of `schedule_at` and the fold over the rules.
-/
namespace OH.Proofs.EvalComments
open OH.Model OH.Model.Cal OH.Model.Schedule OH.Spec.Schedule OH.Proofs.Schedule OH.Props.C14

/-! ### definitions -/

/-- relabel the comments of one rule -/
def reRule (f : List String → List String) (r : Rule) : Rule := { r with comments := f r.comments }

/-- relabel the comments of every rule -/
def mapComments (f : List String → List String) (e : Expr) : Expr :=
  e.map fun r => { r with comments := f r.comments }

theorem mapComments_eq (f : List String → List String) (e : Expr) :
    mapComments f e = e.map (reRule f) := rfl

/-- the simulation relation: both schedules are well-formed and show the same state (covered or
not, and which kind) at every minute -/
structure KindEq (s s' : Schedule) : Prop where
  wf : WF s
  wf' : WF s'
  state : ∀ m, stateAt s m = stateAt s' m

/-- `KindEq` lifted to `Option Schedule` -/
def OptRel : Option Schedule → Option Schedule → Prop
  | none, none => True
  | some a, some b => KindEq a b
  | _, _ => False

/-- the loop state of `schedule_at` -/
def StRel (a b : Bool × Option Schedule) : Prop := a.1 = b.1 ∧ OptRel a.2 b.2

/-- lifting of a relation to the evaluator's monad: both succeed with related values, or both fail
with the same message -/
def MRel {α β} (R : α → β → Prop) : M α → M β → Prop
  | .ok a, .ok b => R a b
  | .error p, .error q => p = q
  | _, _ => False

theorem MRel.bind {α β γ δ} {R : α → β → Prop} {S : γ → δ → Prop} {x : M α} {y : M β}
    {f : α → M γ} {g : β → M δ} (h : MRel R x y) (hf : ∀ a b, R a b → MRel S (f a) (g b)) :
    MRel S (x >>= f) (y >>= g) := by
  cases x <;> cases y <;> simp only [MRel] at h
  · subst h; rfl
  · exact hf _ _ h

theorem MRel.refl_eq {α} (x : M α) : MRel (fun a b => a = b) x x := by
  cases x <;> simp [MRel]

theorem MRel.pure {α β} {R : α → β → Prop} {a : α} {b : β} (h : R a b) :
    MRel R (Pure.pure a : M α) (Pure.pure b : M β) := h

/-! ### (1)–(3): `from_ranges`, `addition`, `is_always_closed` -/

theorem KindEq.refl (s : Schedule) (h : WF s) : KindEq s s := ⟨h, h, fun _ => rfl⟩

/-- (1) same ranges and kind, different comments -/
theorem kindEq_fromRanges (rs : List (Nat × Nat)) (k : Kind) (c c' : List String) :
    KindEq (fromRanges rs k c) (fromRanges rs k c') :=
  ⟨fromRanges_wf rs k c, fromRanges_wf rs k c', fun m => by
    rw [fromRanges_covers, fromRanges_covers]⟩

/-- (2) `addition` preserves the relation (C14: the most recently added schedule wins) -/
theorem kindEq_addition {a a' b b' : Schedule} (ha : KindEq a a') (hb : KindEq b b') :
    KindEq (addition a b) (addition a' b') :=
  ⟨addition_wf a b ha.wf hb.wf, addition_wf a' b' ha.wf' hb.wf', fun m => by
    rw [addition_state a b ha.wf hb.wf, addition_state a' b' ha.wf' hb.wf', ha.state, hb.state]⟩

/-- for a well-formed schedule `is_always_closed` only depends on the pointwise states -/
theorem isAlwaysClosed_iff_state (s : Schedule) (hs : WF s) :
    isAlwaysClosed s = true ↔ ∀ m k, stateAt s m = some k → k = Kind.closed := by
  rw [isAlwaysClosed_iff]
  constructor
  · intro h m k hk
    obtain ⟨t, ht, _, _, e⟩ := stateAt_eq_some s m k hk
    rw [← e]; exact h t ht
  · intro h t ht
    have hne := wf_nonempty s hs t ht
    exact h t.s t.kind (stateAt_of_mem s hs t ht t.s ⟨Nat.le_refl _, hne⟩)

/-- (3) `is_always_closed` respects the relation -/
theorem kindEq_isAlwaysClosed {s s' : Schedule} (h : KindEq s s') :
    isAlwaysClosed s = isAlwaysClosed s' := by
  rw [Bool.eq_iff_iff, isAlwaysClosed_iff_state s h.wf, isAlwaysClosed_iff_state s' h.wf']
  simp only [h.state]

theorem optRel_additionOr : ∀ {p p' c c' : Option Schedule}, OptRel p p' → OptRel c c' →
    OptRel (match p, c with
        | some p, some c => some (Schedule.addition p c)
        | p, c => p <|> c)
      (match p', c' with
        | some p, some c => some (Schedule.addition p c)
        | p, c => p <|> c) := by
  intro p p' c c' hp hc
  cases p <;> cases p' <;> cases c <;> cases c' <;>
    first
    | exact hp.elim
    | exact hc.elim
    | exact kindEq_addition hp hc
    | exact hc
    | exact hp

/-! ### (4) the evaluator -/

theorem ruleScheduleAt_rel (f : List String → List String) (ctx : Ctx) (r : Rule) (d : Day) :
    MRel OptRel (ruleScheduleAt ctx r d) (ruleScheduleAt ctx (reRule f r) d) := by
  unfold ruleScheduleAt
  simp only [reRule]
  generalize r.day.filter ctx d = A
  generalize intervalsAt ctx r.time d = B
  cases pred? d with
  | none =>
    rcases A with _ | _ | _ <;> rcases B with _ | _ <;>
      simp [MRel, bind, Except.bind, pure, Except.pure, OptRel, kindEq_fromRanges]
  | some p =>
    dsimp only
    generalize r.day.filter ctx p = A'
    generalize intervalsAtNextDay ctx r.time p = B'
    rcases A with _ | _ | _ <;> rcases B with _ | _ <;> rcases A' with _ | _ | _ <;> rcases B' with _ | _ <;>
      simp [MRel, bind, Except.bind, pure, Except.pure, OptRel, kindEq_fromRanges, kindEq_addition]

theorem scheduleStep_rel (f : List String → List String) (ctx : Ctx) (d : Day)
    (st st' : Bool × Option Schedule) (h : StRel st st') (r : Rule) :
    MRel StRel (scheduleStep ctx d st r) (scheduleStep ctx d st' (reRule f r)) := by
  obtain ⟨pm, pe⟩ := st
  obtain ⟨pm', pe'⟩ := st'
  obtain ⟨h1, h2⟩ := h
  simp only at h1 h2
  subst h1
  unfold scheduleStep
  show MRel StRel (r.day.filter ctx d >>= _) (r.day.filter ctx d >>= _)
  refine MRel.bind (MRel.refl_eq _) ?_
  rintro cm _ rfl
  refine MRel.bind (ruleScheduleAt_rel f ctx r d) ?_
  intro ce ce' hce
  show MRel StRel (match r.op, r.kind with | .normal, .open => _ | .normal, .unknown => _ | .additional, _ => _ | .normal, .closed => _ | .fallback, _ => _)
    (match r.op, r.kind with | .normal, .open => _ | .normal, .unknown => _ | .additional, _ => _ | .normal, .closed => _ | .fallback, _ => _)
  have hadd := optRel_additionOr h2 hce
  have hfb : (pe.map Schedule.isAlwaysClosed).getD true = (pe'.map Schedule.isAlwaysClosed).getD true := by
    cases pe <;> cases pe' <;> simp only [OptRel] at h2
    · rfl
    · simp [kindEq_isAlwaysClosed h2]
  cases r.op <;> cases r.kind <;> simp only
  case fallback.open | fallback.closed | fallback.unknown =>
    rw [hfb]
    split
    · exact MRel.pure (R := StRel) ⟨rfl, h2⟩
    · exact MRel.pure (R := StRel) ⟨rfl, hce⟩
  case normal.open | normal.unknown =>
    refine MRel.pure (R := StRel) ⟨rfl, ?_⟩
    show OptRel (if cm = true then ce else _) (if cm = true then ce' else _)
    split
    · exact hce
    · exact hadd
  all_goals exact MRel.pure (R := StRel) ⟨rfl, hadd⟩

theorem foldM'_rel {σ τ α β} {R : σ → τ → Prop} (f : σ → α → M σ) (g : τ → β → M τ) (h : α → β)
    (hstep : ∀ s s' x, R s s' → MRel R (f s x) (g s' (h x))) (l : List α) (s : σ) (s' : τ)
    (hs : R s s') : MRel R (foldM' f s l) (foldM' g s' (l.map h)) := by
  induction l generalizing s s' with
  | nil => exact hs
  | cons x xs ih =>
    simp only [List.map_cons, foldM']
    exact MRel.bind (hstep s s' x hs) (fun a b hab => ih a b hab)

/-- the strong form: both evaluations fail with the same message, or both succeed with
well-formed schedules showing the same `stateAt` (covered or not, and kind) at every minute -/
theorem scheduleAt_kindEq_mapComments (f : List String → List String) (ctx : Ctx) (e : Expr) (d : Day) :
    MRel KindEq (scheduleAt ctx e d) (scheduleAt ctx (mapComments f e) d) := by
  unfold scheduleAt
  split
  · exact KindEq.refl [] trivial
  · rw [mapComments_eq]
    refine MRel.bind (R := StRel) (foldM'_rel _ _ (reRule f)
      (fun s s' x hs => scheduleStep_rel f ctx d s s' hs x) e _ _ ⟨rfl, trivial⟩) ?_
    rintro ⟨_, ev⟩ ⟨_, ev'⟩ ⟨_, h⟩
    cases ev <;> cases ev' <;> simp only [OptRel] at h
    · exact KindEq.refl [] trivial
    · exact h

/-! ### the statements -/

/-- CHANGING THE COMMENTS OF RULES NEVER CHANGES THE STATE OF ANY MINUTE OF ANY DAY.
`dayState s m` is the state shown by the iteration: the kind of the range covering `m`, closed in the
holes (`OH.Props.C14.iter_state`). -/
theorem scheduleAt_kinds_mapComments (f : List String → List String) (ctx : Ctx) (e : Expr) (d : Day) :
    match scheduleAt ctx e d, scheduleAt ctx (mapComments f e) d with
    | .ok s, .ok s' => ∀ m, dayState s m = dayState s' m          -- same state at every minute
    | .error p, .error p' => p = p'                                -- evaluation errors are the same
    | _, _ => False := by
  have h := scheduleAt_kindEq_mapComments f ctx e d
  revert h
  cases scheduleAt ctx e d <;> cases scheduleAt ctx (mapComments f e) d <;> simp only [MRel]
  · exact id
  · exact id
  · exact id
  · intro h m; unfold dayState; rw [h.state]

/-- … and not even which minutes are covered by a range (`stateAt` is `none` in the holes) -/
theorem scheduleAt_states_mapComments (f : List String → List String) (ctx : Ctx) (e : Expr) (d : Day) :
    match scheduleAt ctx e d, scheduleAt ctx (mapComments f e) d with
    | .ok s, .ok s' => WF s ∧ WF s' ∧ ∀ m, stateAt s m = stateAt s' m
    | .error p, .error p' => p = p'
    | _, _ => False := by
  have h := scheduleAt_kindEq_mapComments f ctx e d
  revert h
  cases scheduleAt ctx e d <;> cases scheduleAt ctx (mapComments f e) d <;> simp only [MRel]
  · exact id
  · exact id
  · exact id
  · intro h; exact ⟨h.wf, h.wf', h.state⟩

/-! ### the corollary for C06: comments joined by the printer -/

/-- what the comment list of a rule becomes after printing and parsing -/
def joinF (c : List String) : List String :=
  if c.length ≥ 2 then [String.ofList (Print.joinComments c)] else c

/-- `[a, b]` ↦ `["a, b"]` (the same definition as `OH.Proofs.Syn.joinRuleComments` and
`OH.Driver.Syn.joinRuleComments`) -/
def joinRuleComments (r : Rule) : Rule :=
  if r.comments.length ≥ 2 then { r with comments := [String.ofList (Print.joinComments r.comments)] } else r

theorem joinRuleComments_eq (r : Rule) : joinRuleComments r = reRule joinF r := by
  unfold joinRuleComments reRule joinF
  split <;> rfl

theorem map_joinRuleComments (e : Expr) : e.map joinRuleComments = mapComments joinF e := by
  rw [mapComments_eq]
  exact List.map_congr_left (fun r _ => joinRuleComments_eq r)

/-- joining the comments of every rule changes no state and no error -/
theorem scheduleAt_kinds_joinRuleComments (ctx : Ctx) (e : Expr) (d : Day) :
    match scheduleAt ctx e d, scheduleAt ctx (e.map joinRuleComments) d with
    | .ok s, .ok s' => ∀ m, dayState s m = dayState s' m
    | .error p, .error p' => p = p'
    | _, _ => False := by
  rw [map_joinRuleComments]; exact scheduleAt_kinds_mapComments joinF ctx e d

theorem scheduleAt_states_joinRuleComments (ctx : Ctx) (e : Expr) (d : Day) :
    match scheduleAt ctx e d, scheduleAt ctx (e.map joinRuleComments) d with
    | .ok s, .ok s' => WF s ∧ WF s' ∧ ∀ m, stateAt s m = stateAt s' m
    | .error p, .error p' => p = p'
    | _, _ => False := by
  rw [map_joinRuleComments]; exact scheduleAt_states_mapComments joinF ctx e d

/-! ### the operator of the first rule is irrelevant -/

/-- replace the operator of the first rule -/
def setFirstOp (op : RuleOp) : Expr → Expr
  | [] => []
  | r :: rs => { r with op := op } :: rs

/-- on the initial loop state `(false, None)` every operator does the same thing: the state becomes
(does the rule match today, the schedule of the rule) -/
theorem scheduleStep_init (ctx : Ctx) (d : Day) (r : Rule) :
    scheduleStep ctx d (false, none) r
      = (do let cm ← r.day.filter ctx d; let ce ← ruleScheduleAt ctx r d; pure (cm, ce)) := by
  unfold scheduleStep
  cases r.day.filter ctx d with
  | error _ => rfl
  | ok cm =>
    cases ruleScheduleAt ctx r d with
    | error _ => rfl
    | ok ce =>
      cases r.op <;> cases r.kind <;> cases cm <;> cases ce <;> rfl

theorem scheduleStep_init_op (ctx : Ctx) (d : Day) (r : Rule) (op : RuleOp) :
    scheduleStep ctx d (false, none) { r with op := op } = scheduleStep ctx d (false, none) r := by
  rw [scheduleStep_init, scheduleStep_init]
  rfl

/-- THE OPERATOR OF THE FIRST RULE IS IRRELEVANT for `schedule_at` (schedules, comments and errors
alike): the loop starts from `(false, None)`, where `Normal`, `Additional` and `Fallback` coincide. -/
theorem scheduleAt_first_op_irrelevant (ctx : Ctx) (e : Expr) (d : Day) (op : RuleOp) :
    scheduleAt ctx (setFirstOp op e) d = scheduleAt ctx e d := by
  cases e with
  | nil => rfl
  | cons r rs =>
    unfold scheduleAt
    simp only [setFirstOp, foldM', scheduleStep_init_op]

/-! ### what `parse (print e)` is predicted to be -/

/-- the rule printed for an empty expression: `closed` -/
def closedRule : Rule := ⟨⟨[], [], [], []⟩, [TimeSpan.fullDay], .closed, .normal, []⟩

/-- the expression the round-trip theorem predicts for `parse (print e)` (the same definition as
`OH.Proofs.Syn.joinComments` and `OH.Driver.Syn.joinComments`) -/
def joinComments (e : Expr) : Expr :=
  match e.map joinRuleComments with
  | [] => [closedRule]
  | r :: rest => { r with op := .normal } :: rest

theorem joinComments_cons (r : Rule) (rs : List Rule) :
    joinComments (r :: rs) = setFirstOp .normal ((r :: rs).map joinRuleComments) := rfl

theorem ruleScheduleAt_closedRule (ctx : Ctx) (d : Day) :
    ruleScheduleAt ctx closedRule d = .ok (some [⟨0, 1440, .closed, []⟩]) := by
  unfold ruleScheduleAt
  generalize pred? d = q
  cases q <;> rfl

/-- the empty expression and `closed` are closed all day (the first has no range at all, the second
one closed range 00:00-24:00) -/
theorem scheduleAt_closedRule (ctx : Ctx) (d : Day) :
    scheduleAt ctx [closedRule] d = .ok [] ∨
      scheduleAt ctx [closedRule] d = .ok [⟨0, 1440, .closed, []⟩] := by
  unfold scheduleAt
  split
  · exact Or.inl rfl
  · right
    simp only [foldM', scheduleStep_init, ruleScheduleAt_closedRule]
    rfl

/-- C06, evaluator side: the expression predicted for `parse (print e)` — comments of each rule
joined, first operator forced to `Normal`, `closed` for the empty expression — shows the same state
as `e` at every minute of every day, and fails exactly when `e` fails, with the same message. -/
theorem scheduleAt_kinds_joinComments (ctx : Ctx) (e : Expr) (d : Day) :
    match scheduleAt ctx e d, scheduleAt ctx (joinComments e) d with
    | .ok s, .ok s' => ∀ m, dayState s m = dayState s' m
    | .error p, .error p' => p = p'
    | _, _ => False := by
  cases e with
  | nil =>
    have h0 : scheduleAt ctx [] d = .ok [] := by
      unfold scheduleAt; split <;> rfl
    have h1 : joinComments [] = [closedRule] := rfl
    rw [h0, h1]
    rcases scheduleAt_closedRule ctx d with h | h <;> rw [h]
    · intro m; rfl
    · intro m
      simp only [dayState, stateAt]
      split <;> rfl
  | cons r rs =>
    rw [joinComments_cons, scheduleAt_first_op_irrelevant]
    exact scheduleAt_kinds_joinRuleComments ctx (r :: rs) d

/-- for a non-empty expression even the covered minutes are the same (for the empty expression
`closed` covers the whole day with one closed range, the empty expression covers nothing) -/
theorem scheduleAt_states_joinComments (ctx : Ctx) (e : Expr) (d : Day) (hne : e ≠ []) :
    match scheduleAt ctx e d, scheduleAt ctx (joinComments e) d with
    | .ok s, .ok s' => WF s ∧ WF s' ∧ ∀ m, stateAt s m = stateAt s' m
    | .error p, .error p' => p = p'
    | _, _ => False := by
  cases e with
  | nil => exact absurd rfl hne
  | cons r rs =>
    rw [joinComments_cons, scheduleAt_first_op_irrelevant]
    exact scheduleAt_states_joinRuleComments ctx (r :: rs) d

end OH.Proofs.EvalComments
