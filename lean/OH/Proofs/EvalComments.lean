import OH.Props.C14
import OH.Model.Eval
import OH.Model.Print
/-
Evaluator side of C06: CHANGING THE COMMENTS OF RULES NEVER CHANGES THE STATE (open / closed /
unknown) OF ANY MINUTE OF ANY DAY, nor the evaluation errors.

Route: a pointwise simulation relation `KindEq` between schedules (both well-formed, the same
`stateAt` at every minute — the range LISTS may differ, because `insert` coalesces adjacent ranges
only when kind AND comments agree), established by `from_ranges`, preserved by `addition`
(C14 overlay law), respected by `is_always_closed`, threaded through `rule_sequence_schedule_at`,
the loop body of `schedule_at` and the fold over the rules.
-/
namespace OH.Proofs.EvalComments
open OH.Model OH.Model.Cal OH.Model.Schedule OH.Spec.Schedule OH.Proofs.Schedule OH.Props.C14

/-! ### definitions -/

/-- relabel the comments of one rule -/
def reRule (f : List String → List String) (r : Rule) : Rule := { r with comments := f r.comments }

/-- relabel the comments of every rule -/
def mapComments (f : List String → List String) (e : Expr) : Expr :=
  e.map fun r => { r with comments := f r.comments }

theorem mapComments_eq (f : List String → List String) (e : Expr) :
    mapComments f e = e.map (reRule f) := rfl

/-- the simulation relation: both schedules are well-formed and show the same state (covered or
not, and which kind) at every minute -/
structure KindEq (s s' : Schedule) : Prop where
  wf : WF s
  wf' : WF s'
  state : ∀ m, stateAt s m = stateAt s' m

/-- `KindEq` lifted to `Option Schedule` -/
def OptRel : Option Schedule → Option Schedule → Prop
  | none, none => True
  | some a, some b => KindEq a b
  | _, _ => False

/-- the loop state of `schedule_at` -/
def StRel (a b : Bool × Option Schedule) : Prop := a.1 = b.1 ∧ OptRel a.2 b.2

/-- lifting of a relation to the evaluator's monad: both succeed with related values, or both fail
with the same message -/
def MRel {α β} (R : α → β → Prop) : M α → M β → Prop
  | .ok a, .ok b => R a b
  | .error p, .error q => p = q
  | _, _ => False

theorem MRel.bind {α β γ δ} {R : α → β → Prop} {S : γ → δ → Prop} {x : M α} {y : M β}
    {f : α → M γ} {g : β → M δ} (h : MRel R x y) (hf : ∀ a b, R a b → MRel S (f a) (g b)) :
    MRel S (x >>= f) (y >>= g) := by
  cases x <;> cases y <;> simp only [MRel] at h
  · subst h; rfl
  · exact hf _ _ h

theorem MRel.refl_eq {α} (x : M α) : MRel (fun a b => a = b) x x := by
  cases x <;> simp [MRel]

theorem MRel.pure {α β} {R : α → β → Prop} {a : α} {b : β} (h : R a b) :
    MRel R (Pure.pure a : M α) (Pure.pure b : M β) := h

/-! ### (1)–(3): `from_ranges`, `addition`, `is_always_closed` -/

theorem KindEq.refl (s : Schedule) (h : WF s) : KindEq s s := ⟨h, h, fun _ => rfl⟩

/-- (1) same ranges and kind, different comments -/
theorem kindEq_fromRanges (rs : List (Nat × Nat)) (k : Kind) (c c' : List String) :
    KindEq (fromRanges rs k c) (fromRanges rs k c') :=
  ⟨fromRanges_wf rs k c, fromRanges_wf rs k c', fun m => by
    rw [fromRanges_covers, fromRanges_covers]⟩

/-- (2) `addition` preserves the relation (C14: the most recently added schedule wins) -/
theorem kindEq_addition {a a' b b' : Schedule} (ha : KindEq a a') (hb : KindEq b b') :
    KindEq (addition a b) (addition a' b') :=
  ⟨addition_wf a b ha.wf hb.wf, addition_wf a' b' ha.wf' hb.wf', fun m => by
    rw [addition_state a b ha.wf hb.wf, addition_state a' b' ha.wf' hb.wf', ha.state, hb.state]⟩

/-- for a well-formed schedule `is_always_closed` only depends on the pointwise states -/
theorem isAlwaysClosed_iff_state (s : Schedule) (hs : WF s) :
    isAlwaysClosed s = true ↔ ∀ m k, stateAt s m = some k → k = Kind.closed := by
  rw [isAlwaysClosed_iff]
  constructor
  · intro h m k hk
    obtain ⟨t, ht, _, _, e⟩ := stateAt_eq_some s m k hk
    rw [← e]; exact h t ht
  · intro h t ht
    have hne := wf_nonempty s hs t ht
    exact h t.s t.kind (stateAt_of_mem s hs t ht t.s ⟨Nat.le_refl _, hne⟩)

/-- (3) `is_always_closed` respects the relation -/
theorem kindEq_isAlwaysClosed {s s' : Schedule} (h : KindEq s s') :
    isAlwaysClosed s = isAlwaysClosed s' := by
  rw [Bool.eq_iff_iff, isAlwaysClosed_iff_state s h.wf, isAlwaysClosed_iff_state s' h.wf']
  simp only [h.state]

theorem optRel_additionOr {p p' c c' : Option Schedule} (hp : OptRel p p') (hc : OptRel c c') :
    OptRel (match p, c with
        | some p, some c => some (Schedule.addition p c)
        | p, c => p <|> c)
      (match p', c' with
        | some p, some c => some (Schedule.addition p c)
        | p, c => p <|> c) := by
  cases p <;> cases p' <;> cases c <;> cases c' <;> simp only [OptRel] at hp hc ⊢
  · exact hc
  · exact hp
  · exact kindEq_addition hp hc

/-! ### (4) the evaluator -/

theorem ruleScheduleAt_rel (f : List String → List String) (ctx : Ctx) (r : Rule) (d : Day) :
    MRel OptRel (ruleScheduleAt ctx r d) (ruleScheduleAt ctx (reRule f r) d) := by
  unfold ruleScheduleAt
  show MRel OptRel _ (_ >>= _)
  refine MRel.bind (R := OptRel) ?_ ?_
  · show MRel OptRel (r.day.filter ctx d >>= _) (r.day.filter ctx d >>= _)
    refine MRel.bind (MRel.refl_eq _) ?_
    rintro b _ rfl
    cases b
    · exact MRel.pure (R := OptRel) trivial
    · show MRel OptRel (intervalsAt ctx r.time d >>= _) (intervalsAt ctx r.time d >>= _)
      refine MRel.bind (MRel.refl_eq _) ?_
      rintro rs _ rfl
      exact MRel.pure (R := OptRel) (kindEq_fromRanges rs r.kind _ _)
  · intro today today' ht
    refine MRel.bind (R := OptRel) ?_ ?_
    · show MRel OptRel (match pred? d with | none => _ | some p => _) (match pred? d with | none => _ | some p => _)
      cases pred? d with
      | none => exact MRel.pure (R := OptRel) trivial
      | some p =>
        show MRel OptRel (r.day.filter ctx p >>= _) (r.day.filter ctx p >>= _)
        refine MRel.bind (MRel.refl_eq _) ?_
        rintro b _ rfl
        cases b
        · exact MRel.pure (R := OptRel) trivial
        · show MRel OptRel (intervalsAtNextDay ctx r.time p >>= _) (intervalsAtNextDay ctx r.time p >>= _)
          refine MRel.bind (MRel.refl_eq _) ?_
          rintro rs _ rfl
          exact MRel.pure (R := OptRel) (kindEq_fromRanges rs r.kind _ _)
    · intro y y' hy
      cases today <;> cases today' <;> cases y <;> cases y' <;> simp only [OptRel] at ht hy
      · exact MRel.pure (R := OptRel) trivial
      · exact MRel.pure (R := OptRel) hy
      · exact MRel.pure (R := OptRel) ht
      · exact MRel.pure (R := OptRel) (kindEq_addition ht hy)

theorem scheduleStep_rel (f : List String → List String) (ctx : Ctx) (d : Day)
    (st st' : Bool × Option Schedule) (h : StRel st st') (r : Rule) :
    MRel StRel (scheduleStep ctx d st r) (scheduleStep ctx d st' (reRule f r)) := by
  obtain ⟨pm, pe⟩ := st
  obtain ⟨pm', pe'⟩ := st'
  obtain ⟨h1, h2⟩ := h
  simp only at h1 h2
  subst h1
  unfold scheduleStep
  show MRel StRel (r.day.filter ctx d >>= _) (r.day.filter ctx d >>= _)
  refine MRel.bind (MRel.refl_eq _) ?_
  rintro cm _ rfl
  refine MRel.bind (ruleScheduleAt_rel f ctx r d) ?_
  intro ce ce' hce
  show MRel StRel (match r.op, r.kind with | .normal, .open => _ | .normal, .unknown => _ | .additional, _ => _ | .normal, .closed => _ | .fallback, _ => _)
    (match r.op, r.kind with | .normal, .open => _ | .normal, .unknown => _ | .additional, _ => _ | .normal, .closed => _ | .fallback, _ => _)
  have hadd := optRel_additionOr h2 hce
  have hfb : (pe.map Schedule.isAlwaysClosed).getD true = (pe'.map Schedule.isAlwaysClosed).getD true := by
    cases pe <;> cases pe' <;> simp only [OptRel] at h2
    · rfl
    · simp [kindEq_isAlwaysClosed h2]
  cases r.op <;> cases r.kind <;> simp only
  case fallback.open | fallback.closed | fallback.unknown =>
    rw [hfb]
    split
    · exact MRel.pure (R := StRel) ⟨rfl, h2⟩
    · exact MRel.pure (R := StRel) ⟨rfl, hce⟩
  case normal.open | normal.unknown =>
    refine MRel.pure (R := StRel) ⟨rfl, ?_⟩
    show OptRel (if cm = true then ce else _) (if cm = true then ce' else _)
    split
    · exact hce
    · exact hadd
  all_goals exact MRel.pure (R := StRel) ⟨rfl, hadd⟩

theorem foldM'_rel {σ τ α β} {R : σ → τ → Prop} (f : σ → α → M σ) (g : τ → β → M τ) (h : α → β)
    (hstep : ∀ s s' x, R s s' → MRel R (f s x) (g s' (h x))) (l : List α) (s : σ) (s' : τ)
    (hs : R s s') : MRel R (foldM' f s l) (foldM' g s' (l.map h)) := by
  induction l generalizing s s' with
  | nil => exact hs
  | cons x xs ih =>
    simp only [List.map_cons, foldM']
    exact MRel.bind (hstep s s' x hs) (fun a b hab => ih a b hab)

/-- the strong form: both evaluations fail with the same message, or both succeed with
well-formed schedules showing the same `stateAt` (covered or not, and kind) at every minute -/
theorem scheduleAt_kindEq_mapComments (f : List String → List String) (ctx : Ctx) (e : Expr) (d : Day) :
    MRel KindEq (scheduleAt ctx e d) (scheduleAt ctx (mapComments f e) d) := by
  unfold scheduleAt
  split
  · exact KindEq.refl [] trivial
  · rw [mapComments_eq]
    refine MRel.bind (R := StRel) (foldM'_rel _ _ (reRule f)
      (fun s s' x hs => scheduleStep_rel f ctx d s s' hs x) e _ _ ⟨rfl, trivial⟩) ?_
    rintro ⟨_, ev⟩ ⟨_, ev'⟩ ⟨_, h⟩
    cases ev <;> cases ev' <;> simp only [OptRel] at h
    · exact KindEq.refl [] trivial
    · exact h

/-! ### the statements -/

/-- CHANGING THE COMMENTS OF RULES NEVER CHANGES THE STATE OF ANY MINUTE OF ANY DAY.
`dayState s m` is the state shown by the iteration: the kind of the range covering `m`, closed in the
holes (`OH.Props.C14.iter_state`). -/
theorem scheduleAt_kinds_mapComments (f : List String → List String) (ctx : Ctx) (e : Expr) (d : Day) :
    match scheduleAt ctx e d, scheduleAt ctx (mapComments f e) d with
    | .ok s, .ok s' => ∀ m, dayState s m = dayState s' m          -- same state at every minute
    | .error p, .error p' => p = p'                                -- evaluation errors are the same
    | _, _ => False := by
  have h := scheduleAt_kindEq_mapComments f ctx e d
  revert h
  cases scheduleAt ctx e d <;> cases scheduleAt ctx (mapComments f e) d <;> simp only [MRel]
  · exact id
  · exact id
  · exact id
  · intro h m; unfold dayState; rw [h.state]

/-- … and not even which minutes are covered by a range (`stateAt` is `none` in the holes) -/
theorem scheduleAt_states_mapComments (f : List String → List String) (ctx : Ctx) (e : Expr) (d : Day) :
    match scheduleAt ctx e d, scheduleAt ctx (mapComments f e) d with
    | .ok s, .ok s' => WF s ∧ WF s' ∧ ∀ m, stateAt s m = stateAt s' m
    | .error p, .error p' => p = p'
    | _, _ => False := by
  have h := scheduleAt_kindEq_mapComments f ctx e d
  revert h
  cases scheduleAt ctx e d <;> cases scheduleAt ctx (mapComments f e) d <;> simp only [MRel]
  · exact id
  · exact id
  · exact id
  · intro h; exact ⟨h.wf, h.wf', h.state⟩

end OH.Proofs.EvalComments
