/-
Shared by `OH/Props/ArithC14Sched*.lean`: the generated structures of schedule.rs (`OH.Generated.Arith.Sched.*`,
translated with ABSTRACT `Time` / `Kind` / `Comments`) instantiated at the carriers of the hand-written model
`OH/Model/Schedule.lean` (`Time := Nat` minutes, `Kind := OH.Model.Kind`, `Comments := List String`), and the
bijection between the generated `TimeRange` and the model's.
-/
import OH.Generated.Arith
import OH.Model.Schedule
namespace OH.Proofs.ArithSched
open OH.Model.RustInt
open OH.Generated.Arith

abbrev GTR := Sched.TimeRange Nat OH.Model.Kind (List String)
abbrev GSched := Sched.Schedule Nat OH.Model.Kind (List String)
abbrev GIter := Sched.IntoIter Nat OH.Model.Kind (List String)

/-- generated `TimeRange` ↦ the model's -/
def toM (t : GTR) : OH.Model.TimeRange := ⟨t.range.start, t.range.«end», t.kind, t.comments⟩
/-- the model's `TimeRange` ↦ generated -/
def ofM (t : OH.Model.TimeRange) : GTR := ⟨⟨t.s, t.e⟩, t.kind, t.comments⟩

@[simp] theorem toM_ofM (t : OH.Model.TimeRange) : toM (ofM t) = t := rfl
@[simp] theorem ofM_toM (t : GTR) : ofM (toM t) = t := rfl
@[simp] theorem map_toM_map_ofM (l : List OH.Model.TimeRange) : (l.map ofM).map toM = l := by
  simp [List.map_map, Function.comp_def]
@[simp] theorem map_ofM_map_toM (l : List GTR) : (l.map toM).map ofM = l := by
  simp [List.map_map, Function.comp_def]
@[simp] theorem toM_s (t : GTR) : (toM t).s = t.range.start := rfl
@[simp] theorem toM_e (t : GTR) : (toM t).e = t.range.«end» := rfl
@[simp] theorem toM_kind (t : GTR) : (toM t).kind = t.kind := rfl
@[simp] theorem toM_comments (t : GTR) : (toM t).comments = t.comments := rfl
@[simp] theorem ofM_start (t : OH.Model.TimeRange) : (ofM t).range.start = t.s := rfl
@[simp] theorem ofM_end (t : OH.Model.TimeRange) : (ofM t).range.«end» = t.e := rfl
@[simp] theorem ofM_kind (t : OH.Model.TimeRange) : (ofM t).kind = t.kind := rfl
@[simp] theorem ofM_comments (t : OH.Model.TimeRange) : (ofM t).comments = t.comments := rfl
theorem toM_injective {a b : GTR} (h : toM a = toM b) : a = b := by
  have := congrArg ofM h; simpa using this

end OH.Proofs.ArithSched
