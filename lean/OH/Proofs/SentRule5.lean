import OH.Proofs.SentRule4
/-
C05, assembly, part 5: `rule_sequence = { !(space? ~ (any_rule_separator | EOI)) ~ selector_sequence
  ~ space? ~ rules_modifier? }` on one rendered rule `SRule.render r`, in front of the end of the text or
of a separator in any of its six spellings (`Next`: what comes after the rule is given as DATA, the
separator word and the text after it, so that no text has to be cut back into its parts).  The pair is
built into `r.denote op` for whatever operator it is given.  Who consumes the space of ` ; ` / ` || `:
 * after a modifier: nobody before the separator — `any_rule_separator` reads it with its own `space?`;
 * after selectors without modifier: the `space?` of `rule_sequence` or `separator_for_readability?`
   (SentRule4), and the separator is then read WITHOUT its leading space (`AfterRuleS`, `run_sepS`).
-/
namespace OH.Proofs.Sent
open OH.Model OH.Model.Peg OH.Model.Parser OH.Generated.Grammar OH.Proofs.Syn OH.Proofs.Syn.Wide
open OH.Spec.Sent (Sel Modifier KindWord SRule SepWord quote)

/-! ### what follows a rule -/

/-- what comes after a rendered rule: nothing, or a separator and the rest of the text -/
abbrev Next := Option (SepWord × List Char)

def followText : Next → List Char
  | none => []
  | some (w, tail) => w.render ++ tail

/-- what is left after `rule_sequence`: the separator, possibly without its leading space -/
def AfterRuleS : Next → List Char → Prop
  | none, rest' => rest' = []
  | some (w, tail), rest' => ∃ sp, (sp = [] ∨ sp = sepLeadS w) ∧ rest' = sp ++ sepCoreS w ++ tail

theorem followRuleS_noComment (nx : Next) : NoComment (followText nx) := by
  rcases nx with _ | ⟨w, tail⟩
  · exact ⟨by simp [followText], by simp [followText]⟩
  · cases w <;>
      exact ⟨by simp [followText, SepWord.render, OH.Spec.Sent.t],
        by simp [followText, SepWord.render, OH.Spec.Sent.t]⟩

theorem afterRuleS_self (nx : Next) : AfterRuleS nx (followText nx) := by
  rcases nx with _ | ⟨w, tail⟩
  · rfl
  · exact ⟨sepLeadS w, .inr rfl, by rw [followText, sepWord_render_eq]⟩

theorem modifier_none_at (c : Char) (r : List Char) (h : c = ';' ∨ c = ',' ∨ c = '|') :
    run (.opt g_rules_modifier) false (c :: r) = some ⟨[], [], c :: r⟩ := by
  apply opt_none'
  apply run_modifier_none
  refine .inr ⟨c, r, rfl, ?_⟩
  rcases h with rfl | rfl | rfl <;> decide

/-- no modifier is written: the separator (or the end) comes next; who takes its leading space -/
theorem cut_followS (nx : Next) :
    ∃ sp rest', CutS (followText nx) sp rest' ∧ AfterRuleS nx rest'
      ∧ run (.opt g_rules_modifier) false rest' = some ⟨[], [], rest'⟩ := by
  rcases nx with _ | ⟨w, tail⟩
  · exact ⟨[], [], .nil, rfl, opt_none' (run_modifier_none [] (.inl rfl))⟩
  · cases w with
    | semiSpace =>
      exact ⟨[], ';' :: ' ' :: tail, .semi _, ⟨[], .inl rfl, rfl⟩, modifier_none_at _ _ (by simp)⟩
    | semi =>
      exact ⟨[], ';' :: tail, .semi _, ⟨[], .inl rfl, rfl⟩, modifier_none_at _ _ (by simp)⟩
    | spaceSemiSpace =>
      exact ⟨[' '], ';' :: ' ' :: tail, .space ';' _ (by simp [ModStart]), ⟨[], .inl rfl, rfl⟩,
        modifier_none_at _ _ (by simp)⟩
    | commaSpace =>
      exact ⟨[], ',' :: ' ' :: tail, .comma _, ⟨[], .inl rfl, rfl⟩, modifier_none_at _ _ (by simp)⟩
    | spaceBarsSpace =>
      exact ⟨[' '], '|' :: '|' :: ' ' :: tail, .space '|' _ (by simp [ModStart]), ⟨[], .inl rfl, rfl⟩,
        modifier_none_at _ _ (by simp)⟩
    | barsSpace =>
      exact ⟨[], '|' :: '|' :: ' ' :: tail, .bar _, ⟨[], .inl rfl, rfl⟩, modifier_none_at _ _ (by simp)⟩

/-! ### the first character of a rule -/

theorem sel_head (s : Sel) (hwf : s.wf = true) (hw : WideOK s) (tl : List Char) :
    ∃ c cs, s.render ++ tl = c :: cs ∧ RuleStart c := by
  cases s with
  | always => exact ⟨'2', ['4', '/', '7'] ++ tl, rfl, by simp [RuleStart]⟩
  | sel w wd ts =>
    have hswf := sel_wf_small hwf
    have hrender : (Sel.sel w wd ts).render = w.render ++ smallS wd ts := by
      cases wd <;> simp [Sel.render, smallS, spansStr, List.append_assoc]
    rw [hrender]
    cases w with
    | empty =>
      have hne : ¬ (wd = none ∧ ts = []) := by
        simp only [Sel.wf, Bool.and_eq_true] at hwf
        have := hwf.2
        rcases small_empty_cases wd ts with ⟨rfl, rfl⟩ | ⟨_, h⟩
        · simp at this
        · exact h
      simpa [OH.Spec.Sent.Wide.render] using smallHere_ruleStart _ (smallS_here wd ts hne hswf tl)
    | comment c => exact ⟨'"', _, rfl, by simp [RuleStart]⟩
    | sel ys ms ws sep =>
      have H : WideHypS ys ms ws := hw
      obtain ⟨c, cs, e, hc⟩ := H.head
      exact ⟨c, cs ++ sep.render ++ smallS wd ts ++ tl, by rw [wide_render_sel, e]; simp, hc⟩

theorem srule_render_eq (r : SRule) :
    r.render = r.sel.render ++ ((if r.mod.render.isEmpty then [] else [' ']) ++ r.mod.render) := by
  simp [SRule.render, List.append_assoc]

/-- first character of a rendered rule: it passes the look-ahead of `rule_sequence` -/
theorem srule_head (r : SRule) (hwf : r.wf = true) (hw : WideOK r.sel) :
    ∃ c cs, r.render = c :: cs ∧ RuleStart c := by
  simp only [SRule.wf, Bool.and_eq_true] at hwf
  rw [srule_render_eq]
  exact sel_head r.sel hwf.1 hw _

/-! ### `buildRuleSequence` -/

theorem build_rule_sequenceS (text : List Char) (tsel : T) (mk : List T) (r : SRule) (op : RuleOp)
    (hs : buildSelectorSequence tsel = .ok r.sel.denote)
    (hm : (mk = [] ∧ Modifier.absent r.mod)
      ∨ ∃ tmod, mk = [tmod] ∧ buildRulesModifier tmod = .ok (r.mod.word.denote, r.mod.comment)) :
    buildRuleSequence (.node .rule_sequence text (tsel :: mk)) op = .ok (r.denote op) := by
  rcases hd : r.sel.denote with ⟨day, time, extra⟩
  rw [hd] at hs
  rcases hm with ⟨rfl, hw, hc⟩ | ⟨tmod, rfl, hb⟩
  · simp [buildRuleSequence, assertRule, Tree.rule, Tree.kids, hs, SRule.denote, hd, hw, hc,
      KindWord.denote, bind, Except.bind]
  · simp [buildRuleSequence, assertRule, Tree.rule, Tree.kids, hs, hb, SRule.denote, hd, bind, Except.bind]

/-! ### `rule_sequence` -/

theorem modifier_isEmpty_absent (m : Modifier) (h : Modifier.absent m) : m.render.isEmpty = true := by
  rw [modifier_render_absent m h]; rfl

theorem run_rule_sequenceS (r : SRule) (hwf : r.wf = true) (hw : WideOK r.sel) (nx : Next) :
    ∃ t eaten rest', AfterRuleS nx rest' ∧
      run g_rule_sequence false (r.render ++ followText nx) = some ⟨[t], eaten, rest'⟩ ∧
      ∀ op, buildRuleSequence t op = .ok (r.denote op) := by
  generalize hrest : followText nx = rest
  obtain ⟨c, cs, ehead, hstart⟩ := srule_head r hwf hw
  have hla' : run (.notp (.seq (.opt g_space) (.alt g_any_rule_separator (.rule .EOI true .eoi)))) false
      (r.render ++ rest) = some ⟨[], [], r.render ++ rest⟩ := by
    rw [ehead]; exact run_rule_lookahead c (cs ++ rest) hstart
  simp only [SRule.wf, Bool.and_eq_true] at hwf
  obtain ⟨hswf, hmwf⟩ := hwf
  by_cases hm : Modifier.absent r.mod
  · -- no modifier
    obtain ⟨sp, rest', hcut, hafter, hmod⟩ := cut_followS nx
    rw [hrest] at hcut
    obtain ⟨tsel, hsel, hbsel⟩ := run_selector_spaceS r.sel hswf hw rest sp rest' hcut
    have er : r.render = r.sel.render := by
      rw [srule_render_eq, modifier_render_absent _ hm]; simp
    refine ⟨.node .rule_sequence (r.sel.render ++ sp) [tsel], r.sel.render ++ sp, rest', hafter, ?_,
      fun op => build_rule_sequenceS _ tsel [] r op hbsel (.inl ⟨rfl, hm⟩)⟩
    have hbody : run (.seq g_selector_sequence (.seq (.opt g_space) (.opt g_rules_modifier))) false
        (r.sel.render ++ rest) = some ⟨[tsel], r.sel.render ++ sp, rest'⟩ := by
      rw [run_seq_assoc, run_seq, hsel]
      simp [hmod, R.append]
    rw [er] at hla' ⊢
    simp only [g_rule_sequence, run_rule, run_seq, Bool.or_self] at hbody ⊢
    simp only [hla', hbody]
    simp [R.append]
  · -- a modifier
    obtain ⟨⟨tmod, hrm, hbm⟩, c', cs', ebody, hc'⟩ :=
      parses_modifier r.mod hmwf hm rest (hrest ▸ followRuleS_noComment nx)
    have er : r.render = r.sel.render ++ ' ' :: r.mod.render := by
      rw [srule_render_eq, ebody]; simp
    have hcut : CutS (' ' :: r.mod.render ++ rest) [' '] (r.mod.render ++ rest) := by
      rw [ebody]; exact .space c' _ hc'
    obtain ⟨tsel, hsel, hbsel⟩ := run_selector_spaceS r.sel hswf hw _ _ _ hcut
    refine ⟨.node .rule_sequence r.render [tsel, tmod], r.render, rest, hrest ▸ afterRuleS_self nx, ?_,
      fun op => build_rule_sequenceS _ tsel [tmod] r op hbsel (.inr ⟨tmod, rfl, hbm⟩)⟩
    have hbody : run (.seq g_selector_sequence (.seq (.opt g_space) (.opt g_rules_modifier))) false
        (r.sel.render ++ (' ' :: r.mod.render ++ rest))
        = some ⟨[tsel, tmod], r.sel.render ++ ' ' :: r.mod.render, rest⟩ := by
      rw [run_seq_assoc, run_seq, hsel]
      simp [opt_some' hrm, R.append]
    rw [er, List.append_assoc] at hla' ⊢
    simp only [g_rule_sequence, run_rule, run_seq, Bool.or_self] at hbody ⊢
    simp only [List.cons_append] at hla' hbody ⊢
    simp only [hla', hbody]
    simp [R.append]

end OH.Proofs.Sent
