import OH.Proofs.SynTotalLex
/-
Totality, time selector: `hour_minutes`, `extended_hour_minutes`, `variable_time`, `time`,
`extended_time`, `timespan`, `time_selector`.
-/
namespace OH.Proofs.SynTotal
open OH.Model OH.Model.Peg OH.Model.Parser OH.Generated.Grammar

theorem buildExt_safe {h m : Nat} (hm : m ≤ 59) : Safe (fun v => v = m + 60 * h ∧ v ≤ 2880) (buildExt h m) := by
  unfold buildExt ExtendedTime.new
  split
  · next x hx =>
    split at hx
    · cases hx
    · next hc =>
      cases hx
      simp only [Safe.ok_iff, ExtendedTime.mins, true_and]
      simp at hc
      omega
  · simp

theorem conf_hour_minutes {k t} (h : Conf g_hour_minutes false k t) :
    ∃ x, k = [x] ∧ x.rule = .hour_minutes ∧ Safe (fun m => m ≤ 1440) (buildHourMinutes x) ∧
      Safe (fun d => 0 ≤ d ∧ d ≤ 1440) (buildHourMinutesAsDuration x) := by
  conf_unfold [g_hour_minutes] at h
  conf_destruct [conf_hour, conf_minute]
  · refine ⟨_, rfl, rfl, ?_, ?_⟩
    · build_simp [buildHourMinutes, *]
      exact (buildExt_safe (by omega)).mono (fun v hv => by omega)
    · build_simp [buildHourMinutesAsDuration, *]
      omega
  · refine ⟨_, rfl, rfl, ?_, ?_⟩
    · build_simp [buildHourMinutes]
    · build_simp [buildHourMinutesAsDuration]

theorem conf_extended_hour_minutes {k t} (h : Conf g_extended_hour_minutes false k t) :
    ∃ x, k = [x] ∧ Good .extended_hour_minutes buildExtendedHourMinutes (fun m => m ≤ 2880) x := by
  conf_unfold [g_extended_hour_minutes] at h
  conf_destruct [conf_extended_hour, conf_minute]
  refine ⟨_, rfl, rfl, ?_⟩
  build_simp [buildExtendedHourMinutes, *]
  exact (buildExt_safe (by omega)).mono (fun v hv => by omega)


/-- an event with an offset within ±24:00 -/
def Time.wfVar : Time → Prop
  | .variable _ off => -1440 ≤ off ∧ off ≤ 1440
  | .fixed _ => False

theorem conf_variable_time {k t} (h : Conf g_variable_time false k t) :
    ∃ x, k = [x] ∧ Good .variable_time buildVariableTime Time.wfVar x := by
  conf_unfold [g_variable_time] at h
  conf_destruct [conf_event, conf_plus_or_minus, conf_hour_minutes]
  · refine ⟨_, rfl, rfl, ?_⟩
    build_simp [buildVariableTime]
    safe_bind
    safe_bind
    safe_bind
    split
    · omega
    · split <;> simp [Time.wfVar] <;> omega
  · refine ⟨_, rfl, rfl, ?_⟩
    build_simp [buildVariableTime]
    safe_bind
    simp [Time.wfVar]


theorem Time.wfVar.start {t : Time} (h : Time.wfVar t) : t.wfStart = true := by
  rcases t with m | ⟨ev, off⟩
  · cases h
  · simpa [Time.wfStart, Time.wfVar] using h

theorem Time.wfVar.stop {t : Time} (h : Time.wfVar t) : t.wfStop = true := by
  rcases t with m | ⟨ev, off⟩
  · cases h
  · simpa [Time.wfStop, Time.wfVar] using h

theorem conf_time {k t} (h : Conf g_time false k t) :
    ∃ x, k = [x] ∧ Good .time buildTime (fun t => t.wfStart = true) x := by
  conf_unfold [g_time] at h
  conf_destruct [conf_hour_minutes, conf_variable_time]
  · refine ⟨_, rfl, rfl, ?_⟩
    build_simp [buildTime, *]
    safe_bind
    simpa [Time.wfStart]
  · refine ⟨_, rfl, rfl, ?_⟩
    build_simp [buildTime, *]
    exact Safe.mono (by assumption) (fun _ => Time.wfVar.start)

theorem conf_extended_time {k t} (h : Conf g_extended_time false k t) :
    ∃ x, k = [x] ∧ Good .extended_time buildExtendedTime (fun t => t.wfStop = true) x := by
  conf_unfold [g_extended_time] at h
  conf_destruct [conf_extended_hour_minutes, conf_variable_time]
  · refine ⟨_, rfl, rfl, ?_⟩
    build_simp [buildExtendedTime, *]
    safe_bind
    simpa [Time.wfStop]
  · refine ⟨_, rfl, rfl, ?_⟩
    build_simp [buildExtendedTime, *]
    exact Safe.mono (by assumption) (fun _ => Time.wfVar.stop)


theorem wfStop_1440 : (Time.fixed 1440).wfStop = true := by decide

theorem conf_minute_dur {k t} (h : Conf g_minute false k t) :
    ∃ x, k = [x] ∧ Good .minute buildMinute (fun d => 0 ≤ d ∧ d ≤ 59) x := by
  obtain ⟨x, rfl, hx⟩ := conf_minute h
  obtain ⟨hr, n, h0, h1, hp⟩ := hx
  refine ⟨x, rfl, hr, ?_⟩
  build_simp [buildMinute, hr, hp]
  omega

theorem conf_timespan {k t} (h : Conf g_timespan false k t) :
    ∃ x, k = [x] ∧ Good .timespan buildTimespan (fun s => s.wf = true) x := by
  conf_unfoldk [g_timespan, g_timespan_plus] at h
  conf_destruct [conf_time, conf_extended_time, conf_hour_minutes, conf_minute_dur]
  all_goals refine ⟨_, rfl, rfl, ?_⟩
  all_goals build_simp [buildTimespan, *]
  all_goals repeat safe_bind
  all_goals simp [TimeSpan.wf, wfStop_1440, *]
  all_goals omega

/-- `time_selector = { timespan ~ ("," ~ timespan)* }`: a non-empty list of well-formed spans -/
theorem conf_time_selector {k t} (h : Conf g_time_selector false k t) :
    ∃ x, k = [x] ∧ Good .time_selector buildTimeSelector (fun l => l ≠ [] ∧ ∀ s ∈ l, s.wf = true) x := by
  obtain ⟨k', rfl, hb⟩ := Conf.rule_shape h
  refine ⟨_, rfl, rfl, ?_⟩
  obtain ⟨x, xs, rfl, hall⟩ := conf_sep_list (fun _ _ => conf_timespan) hb
  build_simp_only [buildTimeSelector]
  exact Safe.mapM_ne x xs (fun y hy => (hall y hy).2)

end OH.Proofs.SynTotal
