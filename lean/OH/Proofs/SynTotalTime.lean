import OH.Proofs.SynTotalLex
/-
Totality, time selector: `hour_minutes`, `extended_hour_minutes`, `variable_time`, `time`,
`extended_time`, `timespan`, `time_selector`.
-/
namespace OH.Proofs.SynTotal
open OH.Model OH.Model.Peg OH.Model.Parser OH.Generated.Grammar

theorem buildExt_safe {h m : Nat} (hm : m ≤ 59) : Safe (fun v => v = m + 60 * h ∧ v ≤ 2880) (buildExt h m) := by
  unfold buildExt ExtendedTime.new
  split
  · next x hx =>
    split at hx
    · cases hx
    · next hc =>
      cases hx
      simp only [Safe.ok_iff, ExtendedTime.mins, true_and]
      simp at hc
      omega
  · simp

theorem conf_hour_minutes {k t} (h : Conf g_hour_minutes false k t) :
    ∃ x, k = [x] ∧ x.rule = .hour_minutes ∧ Safe (fun m => m ≤ 1440) (buildHourMinutes x) ∧
      Safe (fun d => 0 ≤ d ∧ d ≤ 1440) (buildHourMinutesAsDuration x) := by
  conf_unfold [g_hour_minutes] at h
  conf_destruct [conf_hour, conf_minute]
  · refine ⟨_, rfl, rfl, ?_, ?_⟩
    · build_simp [buildHourMinutes, *]
      exact (buildExt_safe (by omega)).mono (fun v hv => by omega)
    · build_simp [buildHourMinutesAsDuration, *]
      omega
  · refine ⟨_, rfl, rfl, ?_, ?_⟩
    · build_simp [buildHourMinutes]
    · build_simp [buildHourMinutesAsDuration]

theorem conf_extended_hour_minutes {k t} (h : Conf g_extended_hour_minutes false k t) :
    ∃ x, k = [x] ∧ Good .extended_hour_minutes buildExtendedHourMinutes (fun m => m ≤ 2880) x := by
  conf_unfold [g_extended_hour_minutes] at h
  conf_destruct [conf_extended_hour, conf_minute]
  refine ⟨_, rfl, rfl, ?_⟩
  build_simp [buildExtendedHourMinutes, *]
  exact (buildExt_safe (by omega)).mono (fun v hv => by omega)

end OH.Proofs.SynTotal
