import OH.Proofs.HintBasic
/-
Layer B — year ranges: `YearRange.filter` never panics and `YearRange.hint` is a sound hint.
-/
namespace OH.Model
open OH.Model.Cal

theorem HintOK.of_none {f : Int → M Bool} {h : Int → M (Option Int)} {d : Int} (e : h d = .ok none) : HintOK f h d := by
  refine ⟨⟨_, e⟩, ?_, ?_⟩
  · intro x hx; rw [e] at hx; cases hx
  · intro x hx d' h1 h2 _
    rw [e] at hx; cases hx
    simp only [hintDay] at h2
    have : d' = d := by omega
    rw [this]

/-- a hint `some x` with `d < x` under which the filter is constant -/
theorem HintOK.of_some {f : Int → M Bool} {h : Int → M (Option Int)} {d x : Int} (e : h d = .ok (some x))
    (hgt : d < x) (hs : ∀ d', d ≤ d' → d' < x → d' < dateEnd → f d' = f d) : HintOK f h d := by
  refine ⟨⟨_, e⟩, ?_, ?_⟩
  · intro y hy; rw [e] at hy; cases hy; exact hgt
  · intro y hy d' h1 h2 h3
    rw [e] at hy; cases hy
    exact hs d' h1 h2 h3

/-- the year filter as a function of the year -/
def YearRange.sel (r : YearRange) (y : Nat) : Bool :=
  wrappingContains r.lo r.hi y && ((if y ≥ r.lo then y - r.lo else r.lo - y) % r.step == 0)

theorem YearRange.filter_eq (r : YearRange) (hw : r.wf = true) (d : Int) (h0 : 0 ≤ year d) (h1 : year d ≤ 65535) :
    r.filter d = .ok (r.sel (year d).toNat) := by
  simp only [YearRange.wf, Bool.and_eq_true, decide_eq_true_eq] at hw
  have hs : r.step ≠ 0 := by omega
  unfold YearRange.filter YearRange.sel
  simp only []
  rw [if_neg (by omega)]
  split <;> simp_all

theorem YearRange.filter_total (r : YearRange) (hw : r.wf = true) (d : Int) : ∃ b, r.filter d = .ok b := by
  by_cases h : 0 ≤ year d ∧ year d ≤ 65535
  · exact ⟨_, r.filter_eq hw d h.1 h.2⟩
  · refine ⟨false, ?_⟩
    unfold YearRange.filter
    simp only []
    rw [if_pos (by omega)]

theorem year_window {d : Int} (h1 : dateStart ≤ d) (h2 : d < dateEnd) : 1900 ≤ year d ∧ year d ≤ 9999 :=
  (window_iff_year d).1 ⟨h1, h2⟩

theorem ofYmd?_jan1 (y : Int) (h1 : minYear ≤ y) (h2 : y ≤ maxYear) : ofYmd? y 1 1 = some (ymdRaw y 1 1) :=
  ofYmd?_of_valid h1 h2 (validYmd_first y (by omega) (by omega))

/-- no multiple of `s` in `[x, s * ⌈x / s⌉)` when `x` is not one -/
theorem no_multiple_before_roundup (x s z : Nat) (_hs : 0 < s) (hx : x % s ≠ 0) (h1 : x ≤ z)
    (h2 : z < s * ((x + s - 1) / s)) : z % s ≠ 0 := by
  intro hz
  have hq : s * ((x + s - 1) / s) ≤ x + s - 1 := Nat.mul_div_le _ _
  obtain ⟨k, hk⟩ : ∃ k, z = s * k := ⟨z / s, by have := Nat.div_add_mod z s; omega⟩
  subst hk
  have hkq : k < (x + s - 1) / s := Nat.lt_of_mul_lt_mul_left h2
  have : s * (k + 1) ≤ s * ((x + s - 1) / s) := Nat.mul_le_mul_left s hkq
  have e : s * (k + 1) = s * k + s := by rw [Nat.mul_add, Nat.mul_one]
  have hx1 : 1 ≤ x := by
    rcases Nat.eq_zero_or_pos x with h | h
    · subst h; simp at hx
    · exact h
  omega

theorem roundup_gt (x s : Nat) (hs : 0 < s) (hx : x % s ≠ 0) : x < s * ((x + s - 1) / s) := by
  have h1 := Nat.div_add_mod (x + s - 1) s
  have h2 := Nat.mod_lt (x + s - 1) hs
  have hx1 : 1 ≤ x := by
    rcases Nat.eq_zero_or_pos x with h | h
    · subst h; simp at hx
    · exact h
  -- if s*q ≤ x then, as s*q > x - 1, s*q = x and x % s = 0
  by_cases hc : x < s * ((x + s - 1) / s)
  · exact hc
  · exfalso
    have : s * ((x + s - 1) / s) = x := by omega
    apply hx
    rw [← this]; exact Nat.mul_mod_right _ _

theorem YearRange.hintOK (r : YearRange) (hw : r.wf = true) (d : Int) (hd1 : dateStart ≤ d) (hd2 : d < dateEnd) :
    HintOK r.filter r.hint d := by
  have hwf := hw
  simp only [YearRange.wf, yearOk, Bool.and_eq_true, decide_eq_true_eq] at hw
  obtain ⟨⟨⟨⟨l1, l2⟩, ⟨u1, u2⟩⟩, s1⟩, s2⟩ := hw
  obtain ⟨y1, y2⟩ := year_window hd1 hd2
  have hmin : minYear = -262143 := rfl
  have hmax : maxYear = 262142 := rfl
  -- the filter on any later day of the window
  have hf : ∀ d', d ≤ d' → d' < dateEnd → r.filter d' = .ok (r.sel (year d').toNat) ∧ year d ≤ year d' ∧ year d' ≤ 9999 := by
    intro d' h1 h2
    have := year_window (by omega) h2
    exact ⟨r.filter_eq hwf d' (by omega) (by omega), year_mono h1, this.2⟩
  have hfd := (hf d (Int.le_refl _) hd2).1
  by_cases hwrap : r.lo > r.hi
  · exact HintOK.of_none (by unfold YearRange.hint; simp only []; rw [if_neg (by omega), if_pos hwrap])
  by_cases hpast : r.hi < (year d).toNat
  · -- the range is over
    refine HintOK.of_some (x := dateEnd) ?_ hd2 ?_
    · unfold YearRange.hint; simp only []; rw [if_neg (by omega), if_neg hwrap, if_pos hpast]
    · intro d' h1 _ h3
      obtain ⟨e, m1, m2⟩ := hf d' h1 h3
      rw [e, hfd]
      have a : wrappingContains r.lo r.hi (year d').toNat = false := by
        simp only [wrappingContains]; rw [if_pos (by omega)]; simp; omega
      have b : wrappingContains r.lo r.hi (year d).toNat = false := by
        simp only [wrappingContains]; rw [if_pos (by omega)]; simp; omega
      simp [YearRange.sel, a, b]
  -- from here on: lo ≤ hi, cur ≤ hi; the hint is Jan 1 of `next`
  have key : ∀ next : Int, (year d) < next → next ≤ maxYear →
      (∀ y' : Nat, (year d).toNat ≤ y' → (y' : Int) < next → r.sel y' = r.sel (year d).toNat) →
      r.hint d = .ok (some ((ofYmd? next 1 1).getD dateEnd)) → HintOK r.filter r.hint d := by
    intro next hn1 hn2 hsel e
    rw [ofYmd?_jan1 next (by omega) hn2, Option.getD_some] at e
    refine HintOK.of_some e ?_ ?_
    · rw [lt_ymdRaw_jan1_iff]; exact hn1
    · intro d' h1 h2 h3
      obtain ⟨e', m1, m2⟩ := hf d' h1 h3
      rw [e', hfd, hsel (year d').toNat (by omega) (by rw [lt_ymdRaw_jan1_iff] at h2; omega)]
  by_cases hbefore : (year d).toNat < r.lo
  · apply key (r.lo : Int) (by omega) (by omega)
    · intro y' h1 h2
      have a : wrappingContains r.lo r.hi y' = false := by
        simp only [wrappingContains]; rw [if_pos (by omega)]; simp; omega
      have b : wrappingContains r.lo r.hi (year d).toNat = false := by
        simp only [wrappingContains]; rw [if_pos (by omega)]; simp; omega
      simp [YearRange.sel, a, b]
    · unfold YearRange.hint; simp only []
      rw [if_neg (by omega), if_neg hwrap, if_neg hpast]
      simp only [bind, Except.bind, if_pos hbefore, pure, Except.pure]
  by_cases hstep1 : r.step = 1
  · apply key ((r.hi : Int) + 1) (by omega) (by omega)
    · intro y' h1 h2
      have a : wrappingContains r.lo r.hi y' = true := by
        simp only [wrappingContains]; rw [if_pos (by omega)]; simp; omega
      have b : wrappingContains r.lo r.hi (year d).toNat = true := by
        simp only [wrappingContains]; rw [if_pos (by omega)]; simp; omega
      simp [YearRange.sel, a, b, hstep1, Nat.mod_one]
    · unfold YearRange.hint; simp only []
      rw [if_neg (by omega), if_neg hwrap, if_neg hpast]
      simp only [bind, Except.bind, if_neg hbefore, if_pos hstep1, pure, Except.pure]
  by_cases hmatch : ((year d).toNat - r.lo) % r.step = 0
  · apply key (((year d).toNat : Int) + 1) (by omega) (by omega)
    · intro y' h1 h2
      have : y' = (year d).toNat := by omega
      rw [this]
    · unfold YearRange.hint; simp only []
      rw [if_neg (by omega), if_neg hwrap, if_neg hpast]
      simp only [bind, Except.bind, if_neg hbefore, if_neg hstep1, if_neg (show ¬ r.step = 0 by omega), if_pos hmatch,
        pure, Except.pure]
  · have hru := roundup_gt ((year d).toNat - r.lo) r.step (by omega) hmatch
    have hq : r.step * (((year d).toNat - r.lo + r.step - 1) / r.step) ≤ (year d).toNat - r.lo + r.step - 1 :=
      Nat.mul_div_le _ _
    apply key ((r.lo : Int) + ((r.step * (((year d).toNat - r.lo + r.step - 1) / r.step) : Nat) : Int))
      (by omega) (by omega)
    · intro y' h1 h2
      have b : r.sel (year d).toNat = false := by
        simp only [YearRange.sel]
        rw [if_pos (by omega)]
        simp [hmatch]
      rw [b]
      simp only [YearRange.sel]
      rw [if_pos (by omega)]
      have := no_multiple_before_roundup ((year d).toNat - r.lo) r.step (y' - r.lo) (by omega) hmatch (by omega) (by omega)
      simp [this]
    · unfold YearRange.hint; simp only []
      rw [if_neg (by omega), if_neg hwrap, if_neg hpast]
      simp only [bind, Except.bind, if_neg hbefore, if_neg hstep1, if_neg (show ¬ r.step = 0 by omega), if_neg hmatch,
        pure, Except.pure]

end OH.Model
