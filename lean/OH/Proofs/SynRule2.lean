import OH.Proofs.SynTime
import OH.Proofs.SynWeekday3
import OH.Proofs.SynRule1
/-
Assembly, part 2: `small_range_selectors = { weekday_selector ~ space ~ time_selector
  | weekday_selector | time_selector }` against what `Print.rule` writes for the weekday list and the
time list (`Mo,PH 10:00-12:00`, `Mo,PH`, `10:00-12:00`), and its failure where nothing of the kind
is printed.
-/
namespace OH.Proofs.Syn
open OH.Model OH.Model.Peg OH.Model.Parser OH.Generated.Grammar

abbrev timeSel (ts : List TimeSpan) : List Char := Print.selector Print.timeSpan ts

/-- the pair produced by a rule carries the name of the rule -/
theorem rule_of_run {n : PRule} {atm : Bool} {body : G} {inp : List Char} {t : T} {s rest : List Char}
    (h : run (.rule n atm body) false inp = some ⟨[t], s, rest⟩) : t.rule = n := by
  simp only [run_rule] at h
  split at h
  · cases h
  · simp only [Bool.false_eq_true, if_false, Option.some.injEq, R.mk.injEq, List.cons.injEq, and_true] at h
    rw [← h.1]; rfl

/-! ### where the two selectors fail -/

theorem run_weekday_selector_none (inp : List Char) (h : NoWd inp) :
    run g_weekday_selector false inp = none := by
  have h1 := run_holiday_none inp h
  have h2 := run_weekday_range_none (run_wday_none false inp h)
  simp [g_weekday_selector, g_holiday_sequence, g_weekday_sequence, peg, h1, h2]

theorem run_time_selector_none (inp : List Char)
    (h : inp = [] ∨ ∃ c r, inp = c :: r ∧ ¬ TimeStart c) : run g_time_selector false inp = none := by
  have h1 : run g_timespan false inp = none := by
    rcases h with rfl | ⟨c, r, rfl, hc⟩
    · exact run_timespan_of_time_none _ run_time_nil
    · exact run_timespan_of_time_none _ (run_time_noStart c r hc)
  simp [g_time_selector, peg, h1]

theorem timeStart_noWdStart (c : Char) (hc : TimeStart c) : NoWdStart c := by
  rcases hc with ⟨h0, h9⟩ | rfl | rfl | rfl
  · have key : ∀ d : Char, '0' ≤ d → d ≤ '9' → d ≠ 'S' ∧ d ≠ 'M' ∧ d ≠ 'T' ∧ d ≠ 'W' ∧ d ≠ 'F' ∧ d ≠ 'P' := by
      intro d h0 h9
      refine ⟨?_, ?_, ?_, ?_, ?_, ?_⟩ <;> (intro e; subst e; revert h0 h9; decide)
    exact key c h0 h9
  · decide
  · decide
  · decide

/-- the characters that follow a selector sequence in printed output start neither a weekday nor a
time selector -/
def ModStart (c : Char) : Prop := c = 'o' ∨ c = 'c' ∨ c = 'u' ∨ c = '"' ∨ c = ';' ∨ c = '|'

theorem modStart_noWdStart (c : Char) (hc : ModStart c) : NoWdStart c := by
  rcases hc with rfl | rfl | rfl | rfl | rfl | rfl <;> decide

theorem modStart_noTimeStart (c : Char) (hc : ModStart c) : ¬ TimeStart c := by
  rcases hc with rfl | rfl | rfl | rfl | rfl | rfl <;> (unfold TimeStart; decide)

/-- `small_range_selectors` fails where no weekday and no time can start -/
theorem run_small_none (inp : List Char) (h : inp = [] ∨ ∃ c r, inp = c :: r ∧ NoWdStart c ∧ ¬ TimeStart c) :
    run g_small_range_selectors false inp = none := by
  have h1 : run g_weekday_selector false inp = none := by
    apply run_weekday_selector_none
    rcases h with rfl | ⟨c, r, rfl, hc, _⟩
    · exact .inl rfl
    · exact .inr ⟨c, r, rfl, hc⟩
  have h2 : run g_time_selector false inp = none := by
    apply run_time_selector_none
    rcases h with rfl | ⟨c, r, rfl, _, hc⟩
    · exact .inl rfl
    · exact .inr ⟨c, r, rfl, hc⟩
  simp [g_small_range_selectors, peg, h1, h2]

/-! ### the three printed shapes -/

/-- the time list of a parsed rule: at least one span, each one producible by `timespan` -/
def okTimes (ts : List TimeSpan) : Bool := !ts.isEmpty && ts.all okSpan

theorem okTimes_iff (ts : List TimeSpan) : okTimes ts = true ↔ ts ≠ [] ∧ ∀ t ∈ ts, okSpan t = true := by
  cases ts <;> simp [okTimes]

/-- `Mo,PH 10:00-12:00` -/
theorem parses_small_both (ws : List WeekDayRange) (hws : okWeekdays ws = true) (ts : List TimeSpan)
    (hts : okTimes ts = true) (rest : List Char) (hf : FollowSel rest) :
    ParsesTo g_small_range_selectors buildSmallRangeSelectors (wdSel ws ++ ' ' :: timeSel ts) rest (ws, ts) := by
  obtain ⟨hne, hok⟩ := (okTimes_iff ts).mp hts
  obtain ⟨c, cs, e, hc⟩ := time_selector_head ts hne hok
  have hfw : FollowWeekday (' ' :: (timeSel ts ++ rest)) := by
    refine .inr ⟨c, cs ++ rest, ?_, hc⟩
    show ' ' :: (Print.selector Print.timeSpan ts ++ rest) = _
    rw [e]; rfl
  obtain ⟨tw, hw1, hw2⟩ := parses_weekday_selector' ws hws _ hfw.toWdSel
  obtain ⟨tt, ht1, ht2⟩ := parses_time_selector ts hne hok rest hf
  have rw' := rule_of_run hw1
  have rt' := rule_of_run ht1
  refine ⟨.node .small_range_selectors (wdSel ws ++ ' ' :: timeSel ts) [tw, tt], ?_, ?_⟩
  · simp only [List.append_assoc, List.cons_append] at hw1 ⊢
    simp [g_small_range_selectors, g_space, run_rule, run_alt, run_seq, run_str, stripPrefix_cons_cons,
      hw1, ht1, R.append]
  · simp [buildSmallRangeSelectors, smallLoop, assertRule, Tree.rule, Tree.kids, bind, Except.bind]
    simp only [Tree.rule] at rw' rt'
    cases tw with
    | node a b c' =>
      cases tt with
      | node a2 b2 c2 =>
        simp only at rw' rt'
        subst rw' rt'
        simp [hw2, ht2]

/-- `Mo,PH` (the time selector is `00:00-24:00`, which is not written) -/
theorem parses_small_weekday (ws : List WeekDayRange) (hws : okWeekdays ws = true) (rest : List Char)
    (hf : FollowSel rest) :
    ParsesTo g_small_range_selectors buildSmallRangeSelectors (wdSel ws) rest (ws, []) := by
  obtain ⟨tw, hw1, hw2⟩ := parses_weekday_selector' ws hws rest (FollowWeekday.toWdSel (.inl hf))
  have rw' := rule_of_run hw1
  have hst : run (.seq g_space g_time_selector) false rest = none := by
    rcases hf with rfl | ⟨r, rfl⟩ | ⟨c, r, rfl, hc⟩
    · simp [g_space, peg]
    · simp [g_space, peg]
    · have := run_time_selector_none (c :: r) (.inr ⟨c, r, rfl, modStart_noTimeStart c hc⟩)
      simp [g_space, peg, this]
  refine ⟨.node .small_range_selectors (wdSel ws) [tw], ?_, ?_⟩
  · simp [g_small_range_selectors, run_rule, run_alt, hw1]
    simp only [run_seq, hw1]
    simp only [run_seq] at hst
    simp [hst]
  · simp [buildSmallRangeSelectors, smallLoop, assertRule, Tree.rule, Tree.kids, bind, Except.bind]
    simp only [Tree.rule] at rw'
    cases tw with
    | node a b c' =>
      simp only at rw'
      subst rw'
      simp [hw2]

/-- `10:00-12:00` -/
theorem parses_small_time (ts : List TimeSpan) (hts : okTimes ts = true) (rest : List Char)
    (hf : FollowSel rest) :
    ParsesTo g_small_range_selectors buildSmallRangeSelectors (timeSel ts) rest ([], ts) := by
  obtain ⟨hne, hok⟩ := (okTimes_iff ts).mp hts
  obtain ⟨c, cs, e, hc⟩ := time_selector_head ts hne hok
  obtain ⟨tt, ht1, ht2⟩ := parses_time_selector ts hne hok rest hf
  have rt' := rule_of_run ht1
  have hwd : run g_weekday_selector false (timeSel ts ++ rest) = none := by
    apply run_weekday_selector_none
    refine .inr ⟨c, cs ++ rest, ?_, timeStart_noWdStart c hc⟩
    show Print.selector Print.timeSpan ts ++ rest = _
    rw [e]; rfl
  refine ⟨.node .small_range_selectors (timeSel ts) [tt], ?_, ?_⟩
  · simp [g_small_range_selectors, run_rule, run_alt, run_seq, hwd, ht1]
  · simp [buildSmallRangeSelectors, smallLoop, assertRule, Tree.rule, Tree.kids, bind, Except.bind]
    simp only [Tree.rule] at rt'
    cases tt with
    | node a b c' =>
      simp only at rt'
      subst rt'
      simp [ht2]

end OH.Proofs.Syn
