import OH.Proofs.SynTotalBase
/-
Totality, lexical level: the pairs of the number rules (`minute`, `hour`, `extended_hour`, `daynum`,
`weeknum`, `year`, `nth`, `positive_number`) carry a text that `str::parse` reads as a number in the
expected range; the enumeration rules (`plus_or_minus`, `wday`, `month`, `event`, …) carry exactly
one inner pair among those their builder knows.
-/
namespace OH.Proofs.SynTotal
open OH.Model OH.Model.Peg OH.Model.Parser OH.Generated.Grammar

macro "tok1" : tactic =>
  `(tactic| exact ⟨_, rfl, numTok_of (natOfDigits_1 (by dig)) (by dig) (by dig)⟩)
macro "tok2" : tactic =>
  `(tactic| exact ⟨_, rfl, numTok_of (natOfDigits_2 (by dig) (by dig)) (by dig) (by dig)⟩)
macro "tok4" : tactic =>
  `(tactic| exact ⟨_, rfl, numTok_of (natOfDigits_4 (by dig) (by dig) (by dig) (by dig)) (by dig) (by dig)⟩)

theorem conf_minute {k t} (h : Conf g_minute false k t) : ∃ x, k = [x] ∧ NumTok .minute 0 59 x := by
  conf_unfold [g_minute] at h
  conf_destruct []
  tok2

theorem conf_hour {k t} (h : Conf g_hour false k t) : ∃ x, k = [x] ∧ NumTok .hour 0 23 x := by
  conf_unfold [g_hour] at h
  conf_destruct []
  · tok2
  · tok2
  · tok1

theorem conf_extended_hour {k t} (h : Conf g_extended_hour false k t) :
    ∃ x, k = [x] ∧ NumTok .extended_hour 0 48 x := by
  conf_unfold [g_extended_hour] at h
  conf_destruct []
  · tok2
  · tok2
  · tok1

theorem conf_daynum {k t} (h : Conf g_daynum false k t) : ∃ x, k = [x] ∧ NumTok .daynum 1 31 x := by
  conf_unfold [g_daynum, g_daynum_digits] at h
  conf_destruct []
  · tok2
  · tok2
  · tok1
  · tok2

theorem conf_weeknum {k t} (h : Conf g_weeknum false k t) : ∃ x, k = [x] ∧ NumTok .weeknum 1 53 x := by
  conf_unfold [g_weeknum] at h
  conf_destruct []
  · tok2
  · tok2
  · tok1
  · tok2

theorem conf_year {k t} (h : Conf g_year false k t) : ∃ x, k = [x] ∧ NumTok .year 1900 9999 x := by
  conf_unfold [g_year] at h
  conf_destruct []
  · tok4
  · tok4

theorem conf_nth {k t} (h : Conf g_nth false k t) : ∃ x, k = [x] ∧ NumTok .nth 1 5 x := by
  conf_unfold [g_nth] at h
  conf_destruct []
  tok1


/-! ### `positive_number = @{ "0"* ~ ASCII_NONZERO_DIGIT ~ ASCII_DIGIT* }` -/

theorem natOfDigitsAux_ge : ∀ (cs : List Char) (acc n : Nat), natOfDigitsAux cs acc = some n → acc ≤ n := by
  intro cs
  induction cs with
  | nil => intro acc n h; simp [natOfDigitsAux] at h; omega
  | cons c cs ih =>
    intro acc n h
    simp only [natOfDigitsAux] at h
    cases hd : digitVal c with
    | none => simp [hd] at h
    | some d =>
      simp only [hd] at h
      have := ih _ _ h
      omega

theorem natOfDigitsAux_zeros (zs rest : List Char) (hz : ∀ c ∈ zs, c = '0') :
    natOfDigitsAux (zs ++ rest) 0 = natOfDigitsAux rest 0 := by
  induction zs with
  | nil => rfl
  | cons z zs ih =>
    have : z = '0' := hz z (by simp)
    subst this
    have e : digitVal '0' = some 0 := by decide
    simp only [List.cons_append, natOfDigitsAux, e]
    exact ih (fun c hc => hz c (by simp [hc]))

theorem natOfDigits_aux {cs : List Char} {n : Nat} (h : natOfDigits cs = some n) : natOfDigitsAux cs 0 = some n := by
  cases cs with
  | nil => simp [natOfDigits] at h
  | cons c cs => exact h

/-- a `positive_number` pair never makes its builder panic, and its value is at least 1 -/
theorem conf_positive_number {k t} (h : Conf g_positive_number false k t) :
    ∃ x, k = [x] ∧ Good .positive_number buildPositiveNumber (fun n => 1 ≤ n) x := by
  obtain ⟨k', rfl, hb⟩ := Conf.rule_shape h
  refine ⟨_, rfl, rfl, ?_⟩
  obtain ⟨k1, t1, k2, t2, h1, h2, -, rfl⟩ := hb
  obtain ⟨k3, t3, k4, t4, h3, -, -, rfl⟩ := h2
  have hz : ∀ c ∈ t1, c = '0' := by
    refine StarConf.text (Q := fun t => ∀ c ∈ t, c = '0') (by simp) ?_ ?_ h1
    · intro a b ha hb c hc
      rcases List.mem_append.mp hc with hc | hc
      · exact ha c hc
      · exact hb c hc
    · intro k t hkt c hc
      obtain ⟨-, rfl⟩ := hkt
      simpa using hc
  obtain ⟨-, c, rfl, hc1, hc9⟩ := h3
  simp only [char_le_iff, Char.reduceToNat] at hc1 hc9
  simp only [buildPositiveNumber, assertRule, Tree.rule, Tree.text, if_true, ok_bind]
  cases hn : natOfDigits (t1 ++ ([c] ++ t4)) with
  | none => simp
  | some n =>
    have h0 := natOfDigits_aux hn
    rw [natOfDigitsAux_zeros _ _ hz] at h0
    simp only [List.singleton_append, natOfDigitsAux, digitVal_eq (c := c) (by omega)] at h0
    have := natOfDigitsAux_ge _ _ _ h0
    by_cases hb : n < u64Bound
    · simp [hb]; omega
    · simp [hb]


/-! ### enumerations -/

theorem conf_plus_or_minus {k t} (h : Conf g_plus_or_minus false k t) :
    ∃ x, k = [x] ∧ Good .plus_or_minus buildPlusOrMinus (fun _ => True) x := by
  conf_unfold [g_plus_or_minus, g_plus, g_minus] at h
  conf_destruct []
  all_goals exact ⟨_, rfl, rfl, by build_simp [buildPlusOrMinus]⟩

theorem conf_wday {k t} (h : Conf g_wday false k t) :
    ∃ x, k = [x] ∧ Good .wday buildWday (fun d => d ≤ 6) x := by
  conf_unfold [g_wday, g_sunday, g_monday, g_tuesday, g_wednesday, g_thursday, g_friday, g_saturday] at h
  conf_destruct []
  all_goals exact ⟨_, rfl, rfl, by build_simp [buildWday]⟩

theorem conf_month {k t} (h : Conf g_month false k t) :
    ∃ x, k = [x] ∧ Good .month buildMonth (fun m => 1 ≤ m ∧ m ≤ 12) x := by
  conf_unfold [g_month, g_january, g_february, g_march, g_april, g_may, g_june, g_july, g_august,
    g_september, g_october, g_november, g_december] at h
  conf_destruct []
  all_goals exact ⟨_, rfl, rfl, by build_simp [buildMonth]⟩

theorem conf_event {k t} (h : Conf g_event false k t) :
    ∃ x, k = [x] ∧ Good .event buildEvent (fun _ => True) x := by
  conf_unfold [g_event, g_dawn, g_sunrise, g_sunset, g_dusk] at h
  conf_destruct []
  all_goals exact ⟨_, rfl, rfl, by build_simp [buildEvent]⟩

theorem conf_rules_modifier_enum {k t} (h : Conf g_rules_modifier_enum false k t) :
    ∃ x, k = [x] ∧ Good .rules_modifier_enum buildRulesModifierEnum (fun _ => True) x := by
  conf_unfold [g_rules_modifier_enum, g_rules_modifier_enum_closed, g_rules_modifier_enum_open,
    g_rules_modifier_enum_unknown] at h
  conf_destruct []
  all_goals exact ⟨_, rfl, rfl, by build_simp [buildRulesModifierEnum]⟩

theorem conf_any_rule_separator {k t} (h : Conf g_any_rule_separator false k t) :
    ∃ x, k = [x] ∧ Good .any_rule_separator buildAnyRuleSeparator (fun _ => True) x := by
  conf_unfold [g_any_rule_separator, g_normal_rule_separator, g_additional_rule_separator,
    g_fallback_rule_separator, g_space] at h
  conf_destruct []
  all_goals exact ⟨_, rfl, rfl, by build_simp [buildAnyRuleSeparator]⟩

theorem conf_comment {k t} (h : Conf g_comment false k t) :
    ∃ x, k = [x] ∧ Good .comment buildComment (fun _ => True) x := by
  obtain ⟨k', rfl, hb⟩ := Conf.rule_shape h
  refine ⟨_, rfl, rfl, ?_⟩
  obtain ⟨k1, t1, k2, t2, ⟨rfl, -⟩, h2, rfl, -⟩ := hb
  obtain ⟨k3, t3, k4, t4, h3, ⟨rfl, -⟩, rfl, -⟩ := h2
  obtain ⟨k5, rfl, -⟩ := Conf.rule_shape h3
  build_simp [buildComment, buildCommentInner]

end OH.Proofs.SynTotal
