import OH.Proofs.SynClosure1
/-
Closing the loop of C06, part 2: the weekday selector with `okRange`, `okShape`, `okWeekdays`
(SynWeekday2/3).  Stronger than `ParserWF` in: the day offsets (`|n| < 2^63`, i.e. not `i64::MIN`),
`SH` without offset, brackets and offsets only on a single day, some position set in the arrays, and
the shape of the list (holidays then weekday ranges, or weekday ranges then holidays).
-/
namespace OH.Proofs.SynClosure
open OH.Model OH.Model.Peg OH.Model.Parser OH.Generated.Grammar OH.Proofs.SynTotal
open OH.Proofs.Syn (okRange isHoliday okShape okWeekdays)

/-- a day offset the parser builds is not `i64::MIN`: `build_day_offset` rejects `2^63` before negating -/
theorem conf_day_offset' {k t} (h : Conf g_day_offset false k t) :
    ∃ x, k = [x] ∧ Good .day_offset buildDayOffset (fun n => n.natAbs < i64Bound) x := by
  conf_unfoldk [g_day_offset, g_space] at h
  conf_destruct [conf_plus_or_minus, conf_positive_number]
  refine ⟨_, rfl, rfl, ?_⟩
  build_simp [buildDayOffset]
  safe_bind
  safe_bind
  split
  · simp
  · split <;> simp <;> omega

abbrev DayOffsetGood' := Good .day_offset buildDayOffset (fun n => n.natAbs < i64Bound)

theorem mem_true_5 : true ∈ allTrue5 := by decide
theorem pos_i64Bound : 0 < i64Bound := by unfold i64Bound; omega
theorem length_allTrue5 : allTrue5.length = 5 := rfl

/-- `wday ~ nth_entry* ~ day_offset?`: one day, some position set -/
theorem buildWeekdayRange_nth' (txt : List Char) (wd : T) (es rest : List T) (hwd : WdayGood wd)
    (hes : ∀ e ∈ es, NthEntryGood e) (hrest : rest = [] ∨ ∃ o, rest = [o] ∧ DayOffsetGood' o) :
    Safe (fun r => okRange r = true ∧ isHoliday r = false)
      (buildWeekdayRange (.node .weekday_range txt (wd :: (es ++ rest)))) := by
  have hr1 : ∀ o r, rest = o :: r → o.rule ≠ .nth_entry := by
    intro o r h
    rcases hrest with rfl | ⟨o', rfl, ho⟩
    · cases h
    · cases h; rw [ho.1]; decide
  have hhead : ∀ b r, es ++ rest = b :: r → b.rule ≠ .wday := by
    intro b r hbr
    cases es with
    | nil =>
      rcases hrest with rfl | ⟨o, rfl, ho⟩
      · cases hbr
      · cases hbr; rw [ho.1]; decide
    | cons e es' =>
      cases hbr; rw [(hes b (by simp)).1]; decide
  build_simp_only [buildWeekdayRange]
  refine Safe.bind hwd.2 (fun start hstart => ?_)
  refine Safe.bind (wa := fun p => p = (start, es ++ rest)) ?_ ?_
  · split
    · next b r heq => simp [hhead b r heq]
    · next heq => simp [heq]
  rintro _ rfl
  simp only []
  refine Safe.bind (nthLoop_safe es rest hes hr1 allFalse5 allFalse5 rfl rfl) (fun r hr => ?_)
  obtain ⟨ns, ne, rest3⟩ := r
  simp only at hr
  obtain ⟨hns, hne, hr3⟩ := hr
  subst hr3
  refine Safe.bind (wa := fun n => n.natAbs < i64Bound) ?_ (fun off hoff' => ?_)
  · rcases hrest with rfl | ⟨o, rfl, ho⟩
    · simp [i64Bound]
    · exact ho.2
  simp only [Safe.ok_iff]
  split
  · next hnone =>
    simp [okRange, isHoliday, mem_true_5, length_allTrue5, hstart, hoff']
  · next hsome =>
    have : true ∈ ns ∨ true ∈ ne := by
      by_cases h1 : true ∈ ns
      · exact .inl h1
      · right; simpa [h1] using hsome
    simp [okRange, isHoliday, hstart, hoff', hns, hne, this]

theorem conf_weekday_range' {k t} (h : Conf g_weekday_range false k t) :
    ∃ x, k = [x] ∧ Good .weekday_range buildWeekdayRange (fun r => okRange r = true ∧ isHoliday r = false) x := by
  conf_unfoldk [g_weekday_range] at h
  conf_destruct [conf_wday, conf_nth_entry, conf_day_offset']
  · have hall := starOf_sep (fun _ _ => conf_nth_entry) ‹StarOf _ _ _ _›
    refine ⟨_, rfl, rfl, ?_⟩
    refine buildWeekdayRange_nth' _ _ (_ :: _) [] ⟨‹_›, ‹_›⟩ ?_ (Or.inl rfl)
    intro e he
    rcases List.mem_cons.mp he with rfl | he
    · exact ⟨‹_›, ‹_›⟩
    · exact hall e he
  · have hall := starOf_sep (fun _ _ => conf_nth_entry) ‹StarOf _ _ _ _›
    refine ⟨_, rfl, rfl, ?_⟩
    refine buildWeekdayRange_nth' _ _ (_ :: _) [_] ⟨‹_›, ‹_›⟩ ?_ (Or.inr ⟨_, rfl, ‹_›, ‹_›⟩)
    intro e he
    rcases List.mem_cons.mp he with rfl | he
    · exact ⟨‹_›, ‹_›⟩
    · exact hall e he
  · refine ⟨_, rfl, rfl, ?_⟩
    build_simp [buildWeekdayRange, nthLoop, *]
    safe_bind
    safe_bind
    simp [okRange, isHoliday, allTrue5, allFalse5, pos_i64Bound, *]
  · refine ⟨_, rfl, rfl, ?_⟩
    exact buildWeekdayRange_nth' _ _ [] [] ⟨‹_›, ‹_›⟩ (by simp) (Or.inl rfl)

theorem conf_weekday_sequence' {k t} (h : Conf g_weekday_sequence false k t) :
    ∃ x, k = [x] ∧ x.rule = .weekday_sequence ∧
      Safe (fun l => l ≠ [] ∧ ∀ r ∈ l, okRange r = true ∧ isHoliday r = false) (x.kids.mapM buildWeekdayRange) := by
  obtain ⟨k', rfl, hb⟩ := Conf.rule_shape h
  refine ⟨_, rfl, rfl, ?_⟩
  obtain ⟨x, xs, rfl, hall⟩ := conf_sep_list (fun _ _ => conf_weekday_range') hb
  exact Safe.mapM_ne x xs (fun y hy => (hall y hy).2)

theorem conf_holiday' {k t} (h : Conf g_holiday false k t) :
    ∃ x, k = [x] ∧ Good .holiday buildHoliday (fun r => okRange r = true ∧ isHoliday r = true) x := by
  conf_unfoldk [g_holiday, g_public_holiday, g_school_holiday] at h
  conf_destruct [conf_day_offset']
  all_goals refine ⟨_, rfl, rfl, ?_⟩
  all_goals build_simp [buildHoliday, *]
  all_goals repeat safe_bind
  all_goals simp [okRange, isHoliday, pos_i64Bound, *]

theorem conf_holiday_sequence' {k t} (h : Conf g_holiday_sequence false k t) :
    ∃ x, k = [x] ∧ x.rule = .holiday_sequence ∧
      Safe (fun l => l ≠ [] ∧ ∀ r ∈ l, okRange r = true ∧ isHoliday r = true) (x.kids.mapM buildHoliday) := by
  obtain ⟨k', rfl, hb⟩ := Conf.rule_shape h
  refine ⟨_, rfl, rfl, ?_⟩
  obtain ⟨x, xs, rfl, hall⟩ := conf_sep_list (fun _ _ => conf_holiday') hb
  exact Safe.mapM_ne x xs (fun y hy => (hall y hy).2)

/-! ### the shape of the list -/

theorem mem_of_mem_dropWhile {α} (p : α → Bool) : ∀ (l : List α) (x : α), x ∈ l.dropWhile p → x ∈ l := by
  intro l
  induction l with
  | nil => intro x hx; simp at hx
  | cons a l ih =>
    intro x hx
    rw [List.dropWhile_cons] at hx
    split at hx
    · exact List.mem_cons_of_mem _ (ih x hx)
    · exact hx

/-- a block on which `p` holds, then a block on which `q` holds: what `dropWhile p` leaves satisfies `q` -/
theorem all_dropWhile_append {α} (p q : α → Bool) (a b : List α) (ha : ∀ x ∈ a, p x = true)
    (hb : ∀ x ∈ b, q x = true) : ((a ++ b).dropWhile p).all q = true := by
  induction a with
  | nil =>
    simp only [List.nil_append, List.all_eq_true]
    intro x hx
    exact hb x (mem_of_mem_dropWhile p b x hx)
  | cons x a ih =>
    rw [List.cons_append, List.dropWhile_cons, if_pos (ha x (by simp))]
    exact ih (fun y hy => ha y (by simp [hy]))

/-- `holiday_sequence ~ (("," | space) ~ weekday_sequence)?` -/
theorem okWeekdays_hol_fix (hs ws : List WeekDayRange)
    (hh : hs ≠ [] ∧ ∀ r ∈ hs, okRange r = true ∧ isHoliday r = true)
    (hw : ∀ r ∈ ws, okRange r = true ∧ isHoliday r = false) : okWeekdays (hs ++ ws) = true := by
  obtain ⟨hne, hh⟩ := hh
  simp only [okWeekdays, Bool.and_eq_true, List.all_eq_true]
  constructor
  · cases hs with
    | nil => exact absurd rfl hne
    | cons a l =>
      have ha := (hh a (by simp)).2
      simp only [okShape, List.cons_append, ha, if_true]
      rw [← List.cons_append]
      exact all_dropWhile_append isHoliday (fun x => !isHoliday x) (a :: l) ws (fun x hx => (hh x hx).2)
        (fun x hx => by simp [(hw x hx).2])
  · intro r hr
    rcases List.mem_append.mp hr with hr | hr
    · exact (hh r hr).1
    · exact (hw r hr).1

/-- `weekday_sequence ~ (("," | space) ~ holiday_sequence)?` -/
theorem okWeekdays_fix_hol (ws hs : List WeekDayRange)
    (hw : ws ≠ [] ∧ ∀ r ∈ ws, okRange r = true ∧ isHoliday r = false)
    (hh : ∀ r ∈ hs, okRange r = true ∧ isHoliday r = true) : okWeekdays (ws ++ hs) = true := by
  obtain ⟨hne, hw⟩ := hw
  simp only [okWeekdays, Bool.and_eq_true, List.all_eq_true]
  constructor
  · cases ws with
    | nil => exact absurd rfl hne
    | cons a l =>
      have ha := (hw a (by simp)).2
      simp only [okShape, List.cons_append, ha, Bool.false_eq_true, if_false]
      rw [← List.cons_append]
      exact all_dropWhile_append (fun x => !isHoliday x) isHoliday (a :: l) hs
        (fun x hx => by simp [(hw x hx).2]) (fun x hx => (hh x hx).2)
  · intro r hr
    rcases List.mem_append.mp hr with hr | hr
    · exact (hw r hr).1
    · exact (hh r hr).1

/-- every weekday selector the parser builds is one of the lists `parses_weekday_selector` covers -/
theorem conf_weekday_selector' {k t} (h : Conf g_weekday_selector false k t) :
    ∃ x, k = [x] ∧ Good .weekday_selector buildWeekdaySelector (fun l => okWeekdays l = true) x := by
  conf_unfoldk [g_weekday_selector] at h
  conf_destruct [conf_weekday_sequence', conf_holiday_sequence']
  all_goals refine ⟨_, rfl, rfl, ?_⟩
  all_goals build_simp [buildWeekdaySelector, *]
  all_goals repeat safe_bind
  all_goals simp only [Safe.ok_iff]
  · rename_i v hv
    simpa using okWeekdays_hol_fix v [] hv (by simp)
  · rename_i v1 hv1 v2 hv2
    exact okWeekdays_hol_fix v1 v2 hv1 hv2.2
  · rename_i v hv
    simpa using okWeekdays_fix_hol v [] hv (by simp)
  · rename_i v1 hv1 v2 hv2
    exact okWeekdays_fix_hol v1 v2 hv1 hv2.2

end OH.Proofs.SynClosure
