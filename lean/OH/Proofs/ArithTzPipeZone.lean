/-
The translated localisation pipeline of `OpeningHours::iter_range` at the transition-table model: `L := TzLocation Zone Unit`
with the TRANSLATED `TzLocation::naive` / `datetime` standing for the trait methods of the generic `L: Localize`,
`Kind := OH.Model.Kind`, `Comments := List String`, against `keepRange` / `filterRanges` / `mergeRanges` / `mapIntervals`
of `OH/Model/Tz.lean`.  Helper definitions and lemmas of `OH/Props/ArithC09TzPipe.lean`.
-/
import OH.Proofs.ArithTz
import OH.Proofs.ArithTzPipe
namespace OH.Proofs.ArithTzPipeZone
open OH.Model OH.Model.Tz OH.Model.RustInt OH.Model.RustTzZone
open OH.Generated.Arith OH.Generated.Arith.Localize
open OH.Proofs.ArithTz OH.Proofs.ArithTzPipe

abbrev Loc := TzLocation Zone Unit
abbrev DN := DateTimeRange Int Kind (List String)
abbrev DD := DateTimeRange DateTime Kind (List String)

/-- `Localize::naive` / `Localize::datetime` of `L = TzLocation<Tz>`: the translated functions -/
def gNaive (l : Loc) (dt : DateTime) : R Int :=
  TzLocation.naive l dt (ext_with_timezone := with_timezone) (ext_naive_local := naive_local)
def gDatetime (F : Nat) (l : Loc) (n : Int) : R DateTime :=
  TzLocation.datetime l n (ext_from_local_datetime := from_local_datetime) F

/-- the filter closure of `iter_range` as generated -/
def gKeep (F : Nat) (l : Loc) (dtr : DN) : R Bool :=
  bnd (gDatetime F l dtr.range.start) fun a => bnd (gNaive l a) fun b => .ok (decide (b < dtr.range.«end»))

def toIv (d : DN) : Interval := ⟨d.range.start, d.range.«end», d.kind, d.comments⟩
def ofIvD (z : Zone) (iv : Interval) : DD := ⟨⟨⟨iv.start, z⟩, ⟨iv.stop, z⟩⟩, iv.kind, iv.comments⟩

/-- a naive bound the translated `datetime` can be run on with fuel `F` -/
def OKb (z : Zone) (F : Nat) (n : Int) : Prop := instMin ≤ n ∧ n ≤ instMax ∧ tzFuel z n ≤ F

def liftL (z : Zone) : M (List Interval) → R (List DD)
  | .ok l => .ok (l.map (ofIvD z))
  | .error s => .error (panicOf s)

/-- the model's filter decision as a total function (`false` where `keepRange` fails) -/
def keepB (z : Zone) (x : DN) : Bool :=
  match keepRange z (toIv x) with
  | .ok b => b
  | .error _ => false

theorem gDatetime_eq (z : Zone) (c : Option Unit) (F : Nat) (n : Int) (h : OKb z F n) :
    gDatetime F ⟨z, c⟩ n = liftDT z (Tz.datetime z n) := by
  unfold gDatetime TzLocation.datetime Tz.datetime
  simp only []
  have := OH.Proofs.ArithTz.minute_eq z c F n n h.1 (Int.le_refl n) h.2.1 h.2.2
  unfold gMinute at this
  rw [this]
  cases minuteLoop z n n with
  | error p => rfl
  | ok r => obtain ⟨m, u⟩ := r; rfl

theorem gNaive_eq (z : Zone) (c : Option Unit) (dt : DateTime) : gNaive ⟨z, c⟩ dt = liftM (naiveChecked z dt.utc) := by
  unfold gNaive TzLocation.naive naive_local with_timezone
  simp only [bnd]
  cases h : naiveChecked z dt.utc with
  | ok n => rfl
  | error p =>
    unfold naiveChecked at h
    simp only [] at h
    split at h
    · cases h; rfl
    · cases h

/-- the generated filter closure is the model's `keepRange`, panics included -/
theorem gKeep_eq (z : Zone) (c : Option Unit) (F : Nat) (x : DN) (h : OKb z F x.range.start) :
    gKeep F ⟨z, c⟩ x = liftM (keepRange z (toIv x)) := by
  unfold gKeep keepRange
  rw [gDatetime_eq z c F _ h]
  simp only [toIv]
  cases Tz.datetime z x.range.start with
  | error p => rfl
  | ok u =>
    simp only [liftDT, bnd]
    rw [gNaive_eq]
    cases naiveChecked z u with
    | error p => rfl
    | ok n => rfl

theorem mergeableG_eq (a b : DN) : mergeableG a b = mergeable (toIv a) (toIv b) := rfl

theorem mergeFromG_eq : ∀ (l : List DN) (curr : DN), (mergeFromG curr l).map toIv = mergeFrom (toIv curr) (l.map toIv) := by
  intro l
  induction l with
  | nil => intro curr; rfl
  | cons next rest ih =>
    intro curr
    simp only [mergeFromG, List.map_cons, mergeFrom, ← mergeableG_eq]
    by_cases hm : mergeableG curr next = true
    · simp only [hm, if_true]; exact ih (absorbG curr next)
    · simp only [hm, if_false, Bool.false_eq_true, List.map_cons]; rw [ih next]

theorem mergeRangesG_eq (l : List DN) : (mergeRangesG l).map toIv = mergeRanges (l.map toIv) := by
  cases l with
  | nil => rfl
  | cons c r => exact mergeFromG_eq r c

theorem mergeFromG_bounds (P : Int → Prop) : ∀ (l : List DN) (curr : DN), (P curr.range.start ∧ P curr.range.«end») →
    (∀ x ∈ l, P x.range.start ∧ P x.range.«end») → ∀ y ∈ mergeFromG curr l, P y.range.start ∧ P y.range.«end» := by
  intro l
  induction l with
  | nil => intro curr hc _ y hy; simp only [mergeFromG, List.mem_singleton] at hy; subst hy; exact hc
  | cons next rest ih =>
    intro curr hc hl y hy
    have hn := hl next List.mem_cons_self
    have hr : ∀ x ∈ rest, P x.range.start ∧ P x.range.«end» := fun x hx => hl x (List.mem_cons_of_mem next hx)
    simp only [mergeFromG] at hy
    split at hy
    · exact ih (absorbG curr next) ⟨hc.1, hn.2⟩ hr y hy
    · rcases List.mem_cons.mp hy with h | h
      · subst h; exact hc
      · exact ih next hn hr y h

theorem mergeRangesG_bounds (P : Int → Prop) (l : List DN) (hl : ∀ x ∈ l, P x.range.start ∧ P x.range.«end») :
    ∀ y ∈ mergeRangesG l, P y.range.start ∧ P y.range.«end» := by
  cases l with
  | nil => intro y hy; cases hy
  | cons c r => exact mergeFromG_bounds P r c (hl c List.mem_cons_self) (fun x hx => hl x (List.mem_cons_of_mem c hx))

/-- mapping the bounds of one merged range: the model's `mapInterval` -/
theorem mapB_eq (z : Zone) (c : Option Unit) (F : Nat) (x : DN) (h1 : OKb z F x.range.start) (h2 : OKb z F x.range.«end») :
    mapB (gDatetime F) (⟨z, c⟩ : Loc) x
      = (match mapInterval z (toIv x) with
          | .ok iv => .ok (ofIvD z iv)
          | .error s => .error (panicOf s)) := by
  unfold mapB mapInterval
  rw [gDatetime_eq z c F _ h1, gDatetime_eq z c F _ h2]
  simp only [toIv]
  cases Tz.datetime z x.range.start with
  | error p => rfl
  | ok s =>
    cases Tz.datetime z x.range.«end» with
    | error p => rfl
    | ok t => rfl

theorem mapMR_eq (z : Zone) (c : Option Unit) (F : Nat) : ∀ (l : List DN),
    (∀ x ∈ l, OKb z F x.range.start ∧ OKb z F x.range.«end») →
    mapMR (mapB (gDatetime F) (⟨z, c⟩ : Loc)) l = liftL z (mapIntervals z (l.map toIv)) := by
  intro l
  induction l with
  | nil => intro _; rfl
  | cons x xs ih =>
    intro h
    have hx := h x List.mem_cons_self
    simp only [mapMR, List.map_cons, mapIntervals]
    rw [mapB_eq z c F x hx.1 hx.2, ih (fun y hy => h y (List.mem_cons_of_mem x hy))]
    cases mapInterval z (toIv x) with
    | error p => rfl
    | ok iv =>
      simp only [bnd]
      cases mapIntervals z (List.map toIv xs) with
      | error p => rfl
      | ok ivs => rfl

/-- where the filter closure never panics, the model's `filterRanges` is the list filter by `keepB` -/
theorem filterRanges_total (z : Zone) : ∀ (l : List DN), (∀ x ∈ l, ∃ b, keepRange z (toIv x) = .ok b) →
    filterRanges z (l.map toIv) = .ok ((l.filter (keepB z)).map toIv) := by
  intro l
  induction l with
  | nil => intro _; rfl
  | cons x xs ih =>
    intro h
    obtain ⟨b, hb⟩ := h x List.mem_cons_self
    simp only [List.map_cons, filterRanges, hb, ih (fun y hy => h y (List.mem_cons_of_mem x hy)), List.filter_cons, keepB]
    cases b <;> rfl

/-- an optional instant of the model as an optional `DateTime<Tz>` of the zone `z` -/
def liftOD (z : Zone) : M (Option Int) → R (Option DateTime)
  | .ok none => .ok none
  | .ok (some u) => .ok (some ⟨u, z⟩)
  | .error s => .error (panicOf s)

/-- what `next_change` does with the first merged range `cm` (naive bounds): map its bounds, read the end on the wall clock,
compare with `DATE_END` -/
def nextChangeOf (z : Zone) (cm : Interval) : M (Option Int) :=
  match mapInterval z cm with
  | .error p => .error p
  | .ok iv =>
    match naiveChecked z iv.stop with
    | .error p => .error p
    | .ok ne => .ok (if ne ≥ instEnd then none else some iv.stop)

end OH.Proofs.ArithTzPipeZone
