import OH.Proofs.HintYear
/-
Layer B — week ranges: `WeekRange.filter` never panics and `WeekRange.hint` is a sound hint
(in particular the `while res <= date` loop runs at most twice: the model's fuel suffices).
-/
namespace OH.Model
open OH.Model.Cal

/-! ### days before a Monday, lexicographically -/

/-- the days before the Monday of a valid ISO week `(Y, W)` are those of lexicographically smaller
ISO (year, week) -/
theorem lt_monday_iff {Y : Int} {W : Nat} (h1 : 1 ≤ W) (h2 : W ≤ isoWeeksInYear Y) (d : Int) :
    d < isoYwdRaw Y W 0 ↔ (isoYear d < Y ∨ (isoYear d = Y ∧ isoWeek d < W)) := by
  have hv : ValidIsoYwd Y W 0 := ⟨h1, h2, by omega⟩
  have hd := validIsoYwd_iso d
  have e := isoYwdRaw_iso d
  constructor
  · intro hlt
    by_cases hc : isoYear d < Y ∨ (isoYear d = Y ∧ isoWeek d < W)
    · exact hc
    · exfalso
      by_cases heq : isoYear d = Y ∧ isoWeek d = W
      · have := (iso_eq_iff h1 h2 d).1 heq; omega
      · have := isoYwdRaw_lt_of_lex hv hd (by omega)
        rw [e] at this; omega
  · intro hc
    have := isoYwdRaw_lt_of_lex hd hv (by omega)
    rw [e] at this; exact this

/-- ISO (year, week) is monotone for the lexicographic order -/
theorem iso_lex_mono {d d' : Int} (h : d ≤ d') :
    isoYear d < isoYear d' ∨ (isoYear d = isoYear d' ∧ isoWeek d ≤ isoWeek d') := by
  have hb := isoWeek_bounds d
  have hm := (iso_eq_iff hb.1 hb.2 d).1 ⟨rfl, rfl⟩
  have := lt_monday_iff hb.1 hb.2 d'
  omega

/-! ### the filter -/

/-- the week filter as a function of the ISO week number -/
def WeekRange.sel (r : WeekRange) (w : Nat) : Bool :=
  wrappingContains r.lo r.hi w && ((w - r.lo) % r.step == 0)

theorem WeekRange.filter_eq (r : WeekRange) (hw : r.wf = true) (d : Int) :
    r.filter d = .ok (r.sel (isoWeek d)) := by
  simp only [WeekRange.wf, Bool.and_eq_true, decide_eq_true_eq] at hw
  have hs : r.step ≠ 0 := by omega
  unfold WeekRange.filter WeekRange.sel
  simp only []
  split <;> simp_all

theorem WeekRange.filter_total (r : WeekRange) (hw : r.wf = true) (d : Int) : ∃ b, r.filter d = .ok b :=
  ⟨_, r.filter_eq hw d⟩

/-! ### the loop -/

theorem weekHintLoop_gt (d : Int) (wn fuel : Nat) (res : Int) (h : d < res) :
    weekHintLoop d wn (fuel + 1) res = .ok (some res) := by
  rw [weekHintLoop, if_neg (by omega)]

theorem weekHintLoop_le (d : Int) (wn fuel : Nat) (res : Int) (h : res ≤ d) (hy : isoYear res = isoYear d) :
    weekHintLoop d wn (fuel + 2) res = .ok (ofIsoYwd? (isoYear d + 1) wn 0) := by
  rw [weekHintLoop, if_pos h, hy]
  cases e : ofIsoYwd? (isoYear d + 1) wn 0 with
  | none => rfl
  | some r =>
    simp only []
    obtain ⟨_, _, _, _, _, rfl⟩ := ofIsoYwd?_eq_some_iff.1 e
    apply weekHintLoop_gt
    have := isoYear_spec d
    unfold isoYwdRaw; omega

/-- everything after the choice of the week number in `WeekRange::next_change_hint` -/
def weekHintTail (d : Int) (wn : Nat) : M (Option Int) :=
  match ofIsoYwd? (isoYear d) wn 0 with
  | none => pure none
  | some res => weekHintLoop d wn ((d - res) / 364 + 3).toNat res

/-- the tail never exhausts its fuel; its value is `none`, the Monday of week `wn` of the ISO year of
`d` (when that week is still to come) or the Monday of week `wn` of the next ISO year -/
theorem weekHintTail_spec (d : Int) (wn : Nat) :
    ∃ x, weekHintTail d wn = .ok x ∧
      (x = none ∨
        (isoWeek d < wn ∧ 1 ≤ wn ∧ wn ≤ isoWeeksInYear (isoYear d) ∧ x = some (isoYwdRaw (isoYear d) wn 0)) ∨
        (wn ≤ isoWeek d ∧ 1 ≤ wn ∧ wn ≤ isoWeeksInYear (isoYear d + 1) ∧
          x = some (isoYwdRaw (isoYear d + 1) wn 0))) := by
  unfold weekHintTail
  cases e : ofIsoYwd? (isoYear d) wn 0 with
  | none => exact ⟨none, rfl, Or.inl rfl⟩
  | some res =>
    simp only []
    obtain ⟨v1, v2, v3, _, _, rfl⟩ := ofIsoYwd?_eq_some_iff.1 e
    have hlt := lt_monday_iff v1 v2 d
    have hy := (iso_isoYwdRaw ⟨v1, v2, v3⟩).1
    have hspec := isoYear_spec d
    have hc := isoWeeksInYear_cases (isoYear d)
    have hraw : isoYwdRaw (isoYear d) wn 0 = isoYearStart (isoYear d) + 7 * ((wn : Int) - 1) := by
      unfold isoYwdRaw; omega
    by_cases hcase : d < isoYwdRaw (isoYear d) wn 0
    · obtain ⟨f, hf⟩ : ∃ f, ((d - isoYwdRaw (isoYear d) wn 0) / 364 + 3).toNat = f + 1 :=
        ⟨((d - isoYwdRaw (isoYear d) wn 0) / 364 + 3).toNat - 1, by omega⟩
      rw [hf, weekHintLoop_gt _ _ _ _ hcase]
      exact ⟨_, rfl, Or.inr (Or.inl ⟨by omega, v1, v2, rfl⟩)⟩
    · obtain ⟨f, hf⟩ : ∃ f, ((d - isoYwdRaw (isoYear d) wn 0) / 364 + 3).toNat = f + 2 :=
        ⟨((d - isoYwdRaw (isoYear d) wn 0) / 364 + 3).toNat - 2, by omega⟩
      rw [hf, weekHintLoop_le _ _ _ _ (by omega) hy]
      cases e' : ofIsoYwd? (isoYear d + 1) wn 0 with
      | none => exact ⟨none, rfl, Or.inl rfl⟩
      | some r' =>
        obtain ⟨u1, u2, _, _, _, rfl⟩ := ofIsoYwd?_eq_some_iff.1 e'
        exact ⟨_, rfl, Or.inr (Or.inr ⟨by omega, u1, u2, rfl⟩)⟩

/-! ### the hint -/

/-- soundness of the hint from what the selected week number guarantees about week numbers -/
theorem WeekRange.hintOK_tail (r : WeekRange) (hw : r.wf = true) (d : Int) (wn : Nat)
    (e : r.hint d = weekHintTail d wn)
    (hA : ∀ w', isoWeek d ≤ w' → w' < wn → r.sel w' = r.sel (isoWeek d))
    (hB : wn ≤ isoWeek d → ∀ w', 1 ≤ w' → w' ≤ 53 → (isoWeek d ≤ w' ∨ w' < wn) → r.sel w' = r.sel (isoWeek d)) :
    HintOK r.filter r.hint d := by
  obtain ⟨x, ex, hx⟩ := weekHintTail_spec d wn
  rw [ex] at e
  rcases hx with rfl | ⟨h1, v1, v2, rfl⟩ | ⟨h1, v1, v2, rfl⟩
  · exact HintOK.of_none e
  · have hlt := lt_monday_iff v1 v2
    refine HintOK.of_some e ((hlt d).2 (by omega)) ?_
    intro d' g1 g2 _
    rw [r.filter_eq hw, r.filter_eq hw]
    have := iso_lex_mono g1
    have := (hlt d').1 g2
    rw [hA (isoWeek d') (by omega) (by omega)]
  · have hlt := lt_monday_iff v1 v2
    refine HintOK.of_some e ((hlt d).2 (by omega)) ?_
    intro d' g1 g2 _
    rw [r.filter_eq hw, r.filter_eq hw]
    have := iso_lex_mono g1
    have := (hlt d').1 g2
    have := isoWeek_le_53 d'
    rw [hB h1 (isoWeek d') (by omega) (by omega) (by omega)]

theorem WeekRange.hintOK (r : WeekRange) (hw : r.wf = true) (d : Int) (_hd1 : dateStart ≤ d) (_hd2 : d < dateEnd) :
    HintOK r.filter r.hint d := by
  have hwf := hw
  simp only [WeekRange.wf, Bool.and_eq_true, decide_eq_true_eq] at hw
  obtain ⟨⟨⟨⟨⟨l1, l2⟩, u1⟩, u2⟩, s1⟩, s2⟩ := hw
  have hwk := isoWeek_le_53 d
  by_cases hwrap : r.lo > r.hi
  · exact HintOK.of_none (by unfold WeekRange.hint; simp only []; rw [if_pos hwrap])
  have selF : ∀ w', (w' < r.lo ∨ r.hi < w') → r.sel w' = false := by
    intro w' h
    have a : wrappingContains r.lo r.hi w' = false := by
      simp only [wrappingContains]; rw [if_pos (by omega)]; simp; omega
    simp [WeekRange.sel, a]
  have wcT : ∀ w', r.lo ≤ w' → w' ≤ r.hi → wrappingContains r.lo r.hi w' = true := by
    intro w' h1 h2
    simp only [wrappingContains]; rw [if_pos (by omega)]; simp; omega
  by_cases hin : r.lo ≤ isoWeek d ∧ isoWeek d ≤ r.hi
  · have hwc := wcT _ hin.1 hin.2
    by_cases hstep1 : r.step = 1
    · apply r.hintOK_tail hwf d (r.hi % 54 + 1)
      · unfold WeekRange.hint weekHintTail; simp only []
        rw [if_neg hwrap]
        simp only [bind, Except.bind, hwc, if_true, if_pos hstep1, pure, Except.pure]
        rfl
      · intro w' h1 h2
        have a := wcT w' (by omega) (by omega)
        simp [WeekRange.sel, a, hwc, hstep1, Nat.mod_one]
      · intro h; omega
    by_cases hmatch : (isoWeek d - r.lo) % r.step = 0
    · apply r.hintOK_tail hwf d (isoWeek d % 54 + 1)
      · unfold WeekRange.hint weekHintTail; simp only []
        rw [if_neg hwrap]
        simp only [bind, Except.bind, hwc, if_true, if_neg hstep1, if_neg (show ¬ r.step = 0 by omega),
          if_pos hmatch, pure, Except.pure]
        rfl
      · intro w' h1 h2
        have : w' = isoWeek d := by omega
        rw [this]
      · intro h; omega
    · apply HintOK.of_none
      unfold WeekRange.hint; simp only []
      rw [if_neg hwrap]
      simp only [bind, Except.bind, hwc, if_true, if_neg hstep1, if_neg (show ¬ r.step = 0 by omega),
        if_neg hmatch, pure, Except.pure]
  · have hwc : wrappingContains r.lo r.hi (isoWeek d) = false := by
      simp only [wrappingContains]; rw [if_pos (by omega)]; simp; omega
    have hsd := selF (isoWeek d) (by omega)
    apply r.hintOK_tail hwf d r.lo
    · unfold WeekRange.hint weekHintTail; simp only []
      rw [if_neg hwrap]
      simp only [bind, Except.bind, hwc, pure, Except.pure]
      rfl
    · intro w' h1 h2
      rw [hsd, selF w' (by omega)]
    · intro h w' _ _ h3
      rw [hsd, selF w' (by omega)]

end OH.Model
