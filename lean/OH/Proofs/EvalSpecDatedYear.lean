import OH.Proofs.EvalSpecDated
/-
C01 refinement, dated ranges, class (a): the start carries a year (`2020 Dec 24-Jan 2`,
`2024 easter-2024 Dec 31`): the range is a single interval (`single_interval_from_bounds`).
-/
namespace OH.Proofs.EvalSpec
open OH.Model OH.Model.Cal
open OH.Spec (shift dateInstance exactInstance specYear datedOk candidateYears yearsNear yearSpan isFixedDate)

/-- days `n` apart lie in years at most `n / 365 + 1` apart -/
theorem year_dist {a b p q : Int} (hp : InY a p) (hq : InY b q) (n : Nat) (h1 : p - q ≤ n) (h2 : q - p ≤ n) :
    a - b ≤ n / 365 + 1 ∧ b - a ≤ n / 365 + 1 := by
  unfold InY at *
  constructor
  · by_cases h : a ≤ b
    · omega
    · have := (yearStart_add_le (b + 1) (a - b - 1).toNat).1
      rw [show b + 1 + ((a - b - 1).toNat : Int) = a by omega] at this
      omega
  · by_cases h : b ≤ a
    · omega
    · have := (yearStart_add_le (a + 1) (b - a - 1).toNat).1
      rw [show a + 1 + ((b - a - 1).toNat : Int) = b by omega] at this
      omega

/-- a well-formed date has an instance on the year it carries -/
theorem proj_some_own_year (ds : DateSpec) (o : DateOffset) (after : Bool) (hwf : ds.wf = true)
    (sy : Int) (hyr : specYear ds = some sy) : ∃ p, proj ds o after sy = some p ∧ 1900 ≤ sy ∧ sy ≤ 9999 := by
  unfold proj
  cases ds with
  | easter yr =>
    cases yr with
    | none => simp [specYear] at hyr
    | some n =>
      simp only [specYear, Option.map_some, Option.some.injEq] at hyr
      simp only [DateSpec.wf, optYearOk, OH.Model.yearOk, Bool.and_eq_true, decide_eq_true_eq] at hwf
      obtain ⟨d, he, _⟩ := easter_spec sy (by omega) (by unfold maxYear; omega)
      refine ⟨shift o d, ?_, by omega, by omega⟩
      have : some n = some sy.toNat := by congr 1; omega
      simp [dateInstance, he, this]
  | fixed yr m dd =>
    cases yr with
    | none => simp [specYear] at hyr
    | some n =>
      simp only [specYear, Option.map_some, Option.some.injEq] at hyr
      simp only [DateSpec.wf, optYearOk, OH.Model.yearOk, Bool.and_eq_true, decide_eq_true_eq] at hwf
      obtain ⟨⟨⟨⟨hy, hm1⟩, hm2⟩, hd1⟩, hd2⟩ := hwf
      rw [dateInstance_fixed (some n) sy m dd after (Or.inr (by simp [hyr])) (by unfold minYear; omega)
        (by unfold maxYear; omega) hm1 hm2 hd1 hd2]
      exact ⟨_, rfl, by omega, by omega⟩

/-- the only shifted instance of a bound with a year, over any list of years ≥ 0 containing it -/
theorem mem_filterMap_proj_year (ds : DateSpec) (o : DateOffset) (after : Bool) (sy : Int) (P : Int)
    (hyr : specYear ds = some sy) (hP : proj ds o after sy = some P) (ys : List Int)
    (hys : ∀ k ∈ ys, 0 ≤ k) (hmem : sy ∈ ys) (x : Int) :
    x ∈ ys.filterMap (proj ds o after) ↔ x = P := by
  simp only [List.mem_filterMap]
  constructor
  · rintro ⟨k, hk, hx⟩
    by_cases hks : k = sy
    · subst hks; rw [hP] at hx; cases hx; rfl
    · unfold proj at hx
      rw [dateInstance_other_year ds k sy after hyr hks (hys k hk)] at hx
      cases hx
  · rintro rfl; exact ⟨sy, hmem, hP⟩

theorem specStarts_eq_filterMap (s : DateSpec) (so : DateOffset) (e : DateSpec) (eo : DateOffset) (d : Int) :
    specStarts s so e eo d = (candidateYears s e (yearSpan so eo) d).filterMap (proj s so true) := rfl

theorem specEnds_eq_filterMap (s : DateSpec) (so : DateOffset) (e : DateSpec) (eo : DateOffset) (d : Int) :
    specEnds s so e eo d = (candidateYears s e (yearSpan so eo) d).filterMap (proj e eo false) := rfl

theorem mem_candidateYears (s e : DateSpec) (w : Nat) (d k : Int) :
    k ∈ candidateYears s e w d ↔
      (year d - w ≤ k ∧ k ≤ year d + w) ∨ (∃ sy, specYear s = some sy ∧ sy - w ≤ k ∧ k ≤ sy + w)
        ∨ (∃ ey, specYear e = some ey ∧ ey - w ≤ k ∧ k ≤ ey + w) := by
  unfold candidateYears
  simp only [List.mem_append, mem_yearsNear]
  cases specYear s <;> cases specYear e <;> simp [mem_yearsNear, or_assoc]

theorem dateYear_eq (ds : DateSpec) : dateYear ds = specYear ds := by cases ds <;> rfl

theorem proj_eq_some {ds : DateSpec} {o : DateOffset} {after : Bool} {k P : Int}
    (h : proj ds o after k = some P) : ∃ p, dateInstance ds k after = some p ∧ shift o p = P := by
  unfold proj at h
  rw [Option.map_eq_some_iff] at h
  exact h

/-- the model's projection step `date_on_year` then `offset.apply` on one year -/
theorem project_ok {ds : DateSpec} {o : DateOffset} (h : BoundOK ds o) (after : Bool) (k : Int)
    (hk : 0 ≤ k ∧ k ≤ 20000) (hyr : specYear ds = none ∨ specYear ds = some k) :
    dateOnYear ds k after = .ok (dateInstance ds k after) ∧
      ∀ p, dateInstance ds k after = some p → o.apply p = .ok (shift o p) :=
  ⟨dateOnYear_eq_instance ds k after h.wf (by unfold minYear; omega) (by unfold maxYear; omega) hyr,
    fun _ hp => apply_inst h hk hp⟩

/-! ### (a1) both bounds carry a year -/

theorem singleInterval_year_year (s : DateSpec) (so : DateOffset) (e : DateSpec) (eo : DateOffset)
    (hs : BoundOK s so) (he : BoundOK e eo) (sy ey : Int) (hsy : specYear s = some sy)
    (hey : specYear e = some ey) (S E : Int) (hS : proj s so true sy = some S)
    (hE : proj e eo false ey = some E) (hsyr : 0 ≤ sy ∧ sy ≤ 20000) (heyr : 0 ≤ ey ∧ ey ≤ 20000) :
    singleInterval s so e eo = .ok (some (S, E)) := by
  obtain ⟨s0, hs0, rfl⟩ := proj_eq_some hS
  obtain ⟨e0, he0, rfl⟩ := proj_eq_some hE
  obtain ⟨a1, a2⟩ := project_ok hs true sy hsyr (Or.inr hsy)
  obtain ⟨b1, b2⟩ := project_ok he false ey heyr (Or.inr hey)
  unfold singleInterval
  simp only [dateYear_eq, hsy, hey, a1, hs0, a2 s0 hs0, b1, he0, b2 e0 he0, ok_bind, pure_eq_ok]

theorem dated_year_year_eq (s : DateSpec) (so : DateOffset) (e : DateSpec) (eo : DateOffset) (d : Int)
    (hs : BoundOK s so) (he : BoundOK e eo) (sy ey : Int) (hsy : specYear s = some sy)
    (hey : specYear e = some ey) (hns : ¬ (s = e ∧ isFixedDate s = true))
    (h1 : dateStart - 1 ≤ d) (h2 : d < dateEnd) :
    MonthdayRange.filter (.date s so e eo) d = .ok (datedOk s so e eo d) := by
  obtain ⟨S, hS, hsy1, hsy2⟩ := proj_some_own_year s so true hs.wf sy hsy
  obtain ⟨E, hE, hey1, hey2⟩ := proj_some_own_year e eo false he.wf ey hey
  have hy := year_window h1 h2
  have hw := yearSpan_bounds so eo hs.small he.small
  rw [filter_of_interval s so e eo d hns _
    (singleInterval_year_year s so e eo hs he sy ey hsy hey S E hS hE (by omega) (by omega))]
  congr 1
  rw [Bool.eq_iff_iff, datedOk_range_iff s so e eo d hns]
  have cpos : ∀ k ∈ candidateYears s e (yearSpan so eo) d, 0 ≤ k := by
    intro k hk
    rw [mem_candidateYears, hsy, hey] at hk
    simp only [Option.some.injEq, exists_eq_left'] at hk
    omega
  have msy : sy ∈ candidateYears s e (yearSpan so eo) d := by
    rw [mem_candidateYears, hsy]; right; left; exact ⟨sy, rfl, by omega, by omega⟩
  have mey : ey ∈ candidateYears s e (yearSpan so eo) d := by
    rw [mem_candidateYears, hey]; right; right; exact ⟨ey, rfl, by omega, by omega⟩
  have mS := mem_filterMap_proj_year s so true sy S hsy hS _ cpos msy
  have mE := mem_filterMap_proj_year e eo false ey E hey hE _ cpos mey
  rw [← specStarts_eq_filterMap] at mS
  rw [← specEnds_eq_filterMap] at mE
  simp only [mS, mE, exists_eq_left, forall_eq, hey, ne_eq, reduceCtorEq, not_false_eq_true, forall_const,
    Bool.and_eq_true, decide_eq_true_eq]
  omega

/-! ### (a2) the start carries a year, the end does not: the end is its first occurrence at or after the start -/

/-- the interval `[S, stop]`, `stop` = first end instance at or after `S` among the years around `S`,
against "no end instance, on any candidate year, between `S` and `d`" -/
theorem year_end_iff (E : Int → Int) (S d y0 : Int) (hS : InY y0 S) (cand : Int → Prop)
    (hc0 : cand y0) (hc1 : cand (y0 + 1)) (hE : ∀ k, cand k → InY k (E k)) :
    (S ≤ d ∧ d ≤ (if E y0 ≥ S then E y0 else E (y0 + 1))) ↔
      (S ≤ d ∧ ∀ k, cand k → ¬ (S ≤ E k ∧ E k < d)) := by
  have e0 := hE y0 hc0
  have e1 := hE (y0 + 1) hc1
  have h01 : E y0 < E (y0 + 1) := inY_lt (by omega) e0 e1
  have hS1 : S < E (y0 + 1) := inY_lt (by omega) hS e1
  constructor
  · rintro ⟨hle, hstop⟩
    refine ⟨hle, fun k hk => ?_⟩
    have ek := hE k hk
    by_cases hk0 : k < y0
    · have := inY_lt hk0 ek hS; omega
    · by_cases hk1 : y0 + 1 < k
      · have := inY_lt hk1 e1 ek
        split at hstop <;> omega
      · have : k = y0 ∨ k = y0 + 1 := by omega
        rcases this with rfl | rfl
        · split at hstop <;> omega
        · split at hstop <;> omega
  · rintro ⟨hle, hno⟩
    refine ⟨hle, ?_⟩
    have n0 := hno y0 hc0
    have n1 := hno (y0 + 1) hc1
    split <;> omega

theorem find_end (E : Int → Int) (S y0 : Int) (hS : InY y0 S)
    (em : InY (y0 - 1) (E (y0 - 1))) (e1 : InY (y0 + 1) (E (y0 + 1))) :
    [E (y0 - 1), E y0, E (y0 + 1), E (y0 + 2)].find? (fun x => decide (x ≥ S))
      = some (if E y0 ≥ S then E y0 else E (y0 + 1)) := by
  have a : ¬ E (y0 - 1) ≥ S := by have := inY_lt (show y0 - 1 < y0 by omega) em hS; omega
  have b : E (y0 + 1) ≥ S := by have := inY_lt (show y0 < y0 + 1 by omega) hS e1; omega
  simp only [List.find?_cons, a, decide_false]
  by_cases h : E y0 ≥ S
  · simp [h]
  · simp [h, b]

/-- Class (a2): the start carries a year and the end does not. -/
theorem dated_year_yearless_eq (s : DateSpec) (so : DateOffset) (e : DateSpec) (eo : DateOffset) (d : Int)
    (hs : BoundOK s so) (he : BoundOK e eo) (sy : Int) (hsy : specYear s = some sy)
    (hey : specYear e = none) (h1 : dateStart - 1 ≤ d) (h2 : d < dateEnd)
    (hE : ∀ k ∈ candidateYears s e (yearSpan so eo) d, ∀ p, proj e eo false k = some p → InY k p) :
    MonthdayRange.filter (.date s so e eo) d = .ok (datedOk s so e eo d) := by
  obtain ⟨S, hS, hsy1, hsy2⟩ := proj_some_own_year s so true hs.wf sy hsy
  obtain ⟨s0, hs0, hSe⟩ := proj_eq_some hS
  have hy := year_window h1 h2
  have hw := yearSpan_bounds so eo hs.small he.small
  have hss := hs.small
  have hes := he.small
  -- the year of the shifted start is close to the year it carries
  have hs0y : InY sy s0 := dateInstance_year s sy true hs.wf (by omega) (by unfold maxYear; omega) s0 hs0
  have hSy : InY (year S) S := inY_year S
  have hsb := inst_shift_bounds hs (y := sy) (by omega) hs0
  rw [hSe] at hsb
  have hdist := year_dist hSy hs0y (so.days.natAbs + 6) (by omega) (by omega)
  generalize hy0 : year S = y0 at *
  have hwdef : yearSpan so eo = 3 + (so.days.natAbs + eo.days.natAbs) / 365 := rfl
  generalize hwg : yearSpan so eo = w at *
  have hnear : sy - w + 1 ≤ y0 ∧ y0 + 1 ≤ sy + w := by omega
  -- total projection of the end
  let E : Int → Int := fun k => (proj e eo false k).getD 0
  have pE : ∀ k, 0 ≤ k → k ≤ 20000 → proj e eo false k = some (E k) := by
    intro k hk1 hk2
    obtain ⟨p, hp⟩ := proj_some_yearless e eo false he.wf hey k ⟨hk1, hk2⟩
    simp only [E, hp, Option.getD_some]
  have cand_range : ∀ k ∈ candidateYears s e w d, 0 ≤ k ∧ k ≤ 20000 := by
    intro k hk
    rw [mem_candidateYears, hsy, hey] at hk
    simp only [Option.some.injEq, exists_eq_left', reduceCtorEq, false_and, exists_false, or_false] at hk
    omega
  have candE : ∀ k, k ∈ candidateYears s e w d → InY k (E k) := by
    intro k hk
    exact hE k hk _ (pE k (cand_range k hk).1 (cand_range k hk).2)
  have cnear : ∀ k, sy - w ≤ k → k ≤ sy + w → k ∈ candidateYears s e w d := by
    intro k a b
    rw [mem_candidateYears, hsy]; right; left; exact ⟨sy, rfl, a, b⟩
  -- the model
  obtain ⟨a1, a2⟩ := project_ok hs true sy (by omega) (Or.inr hsy)
  have fe : firstEndFrom e eo S [y0 - 1, y0, y0 + 1, y0 + 2]
      = .ok (some (if E y0 ≥ S then E y0 else E (y0 + 1))) := by
    rw [firstEndFrom_eq he S _ (by
      intro k hk; simp only [List.mem_cons, List.not_mem_nil, or_false] at hk
      exact ⟨by omega, Or.inl hey⟩)]
    simp only [List.filterMap_cons, List.filterMap_nil, pE (y0 - 1) (by omega) (by omega),
      pE y0 (by omega) (by omega), pE (y0 + 1) (by omega) (by omega), pE (y0 + 2) (by omega) (by omega)]
    rw [find_end E S y0 hSy (candE _ (cnear _ (by omega) (by omega))) (candE _ (cnear _ (by omega) (by omega)))]
  have si : singleInterval s so e eo = .ok (some (S, if E y0 ≥ S then E y0 else E (y0 + 1))) := by
    unfold singleInterval
    simp only [dateYear_eq, hsy, hey, a1, hs0, a2 s0 hs0, hSe, hy0, ok_bind, pure_eq_ok, fe]
  have hns : ¬ (s = e ∧ isFixedDate s = true) := by
    rintro ⟨rfl, _⟩; rw [hsy] at hey; cases hey
  rw [filter_of_interval s so e eo d hns _ si]
  congr 1
  rw [Bool.eq_iff_iff, datedOk_range_iff s so e eo d hns]
  simp only [Bool.and_eq_true, decide_eq_true_eq]
  rw [year_end_iff E S d y0 hSy (· ∈ candidateYears s e w d) (cnear _ (by omega) (by omega))
    (cnear _ (by omega) (by omega)) candE]
  -- the specification
  have cpos : ∀ k ∈ candidateYears s e w d, 0 ≤ k := fun k hk => (cand_range k hk).1
  have mS := mem_filterMap_proj_year s so true sy S hsy hS _ cpos (cnear sy (by omega) (by omega))
  have mS' : ∀ x, x ∈ specStarts s so e eo d ↔ x = S := by
    intro x; rw [specStarts_eq_filterMap, hwg]; exact mS x
  simp only [mS', exists_eq_left, hey, ne_eq, not_true_eq_false, false_imp_iff, and_true]
  constructor
  · rintro ⟨hle, hno⟩
    refine ⟨hle, fun x hx => ?_⟩
    rw [specEnds_eq_filterMap, hwg, List.mem_filterMap] at hx
    obtain ⟨k, hk, hp⟩ := hx
    rw [pE k (cand_range k hk).1 (cand_range k hk).2] at hp
    cases hp
    exact hno k hk
  · rintro ⟨hle, hno⟩
    refine ⟨hle, fun k hk => ?_⟩
    apply hno
    rw [specEnds_eq_filterMap, hwg, List.mem_filterMap]
    exact ⟨k, hk, pE k (cand_range k hk).1 (cand_range k hk).2⟩

end OH.Proofs.EvalSpec
