import OH.Proofs.EvalSpecDated
/-
C01 refinement, dated ranges, class (a): the start carries a year (`2020 Dec 24-Jan 2`,
`2024 easter-2024 Dec 31`): the range is a single interval (`single_interval_from_bounds`); a yearless
end is looked for on the years around the year of `start - end offset`.
-/
namespace OH.Proofs.EvalSpec
open OH.Model OH.Model.Cal
open OH.Spec (shift dateInstance exactInstance specYear datedOk candidateYears yearsNear yearSpan isFixedDate)

/-- a well-formed date has an instance on the year it carries -/
theorem proj_some_own_year (ds : DateSpec) (o : DateOffset) (after : Bool) (hwf : ds.wf = true)
    (sy : Int) (hyr : specYear ds = some sy) : ∃ p, proj ds o after sy = some p ∧ 1900 ≤ sy ∧ sy ≤ 9999 := by
  unfold proj
  cases ds with
  | easter yr =>
    cases yr with
    | none => simp [specYear] at hyr
    | some n =>
      simp only [specYear, Option.map_some, Option.some.injEq] at hyr
      simp only [DateSpec.wf, optYearOk, OH.Model.yearOk, Bool.and_eq_true, decide_eq_true_eq] at hwf
      obtain ⟨d, he, _⟩ := easter_spec sy (by omega) (by unfold maxYear; omega)
      refine ⟨shift o d, ?_, by omega, by omega⟩
      have : some n = some sy.toNat := by congr 1; omega
      simp [dateInstance, he, this]
  | fixed yr m dd =>
    cases yr with
    | none => simp [specYear] at hyr
    | some n =>
      simp only [specYear, Option.map_some, Option.some.injEq] at hyr
      simp only [DateSpec.wf, optYearOk, OH.Model.yearOk, Bool.and_eq_true, decide_eq_true_eq] at hwf
      obtain ⟨⟨⟨⟨hy, hm1⟩, hm2⟩, hd1⟩, hd2⟩ := hwf
      rw [dateInstance_fixed (some n) sy m dd after (Or.inr (by simp [hyr])) (by unfold minYear; omega)
        (by unfold maxYear; omega) hm1 hm2 hd1 hd2]
      exact ⟨_, rfl, by omega, by omega⟩

/-- the only shifted instance of a bound with a year, over any list of years containing it -/
theorem mem_filterMap_proj_year (ds : DateSpec) (o : DateOffset) (after : Bool) (sy : Int) (P : Int)
    (hyr : specYear ds = some sy) (hP : proj ds o after sy = some P) (ys : List Int)
    (hpos : 0 < sy) (hmem : sy ∈ ys) (x : Int) :
    x ∈ ys.filterMap (proj ds o after) ↔ x = P := by
  simp only [List.mem_filterMap]
  constructor
  · rintro ⟨k, hk, hx⟩
    by_cases hks : k = sy
    · subst hks; rw [hP] at hx; cases hx; rfl
    · unfold proj at hx
      rw [dateInstance_other_year ds k sy after hyr hks hpos] at hx
      cases hx
  · rintro rfl; exact ⟨sy, hmem, hP⟩

theorem specStarts_eq_filterMap (s : DateSpec) (so : DateOffset) (e : DateSpec) (eo : DateOffset) (d : Int) :
    specStarts s so e eo d = (candidateYears s e (yearSpan so eo) d).filterMap (proj s so true) := rfl

theorem specEnds_eq_filterMap (s : DateSpec) (so : DateOffset) (e : DateSpec) (eo : DateOffset) (d : Int) :
    specEnds s so e eo d = (candidateYears s e (yearSpan so eo) d).filterMap (proj e eo false) := rfl

theorem mem_candidateYears (s e : DateSpec) (w : Nat) (d k : Int) :
    k ∈ candidateYears s e w d ↔
      (year d - w ≤ k ∧ k ≤ year d + w) ∨ (∃ sy, specYear s = some sy ∧ sy - w ≤ k ∧ k ≤ sy + w)
        ∨ (∃ ey, specYear e = some ey ∧ ey - w ≤ k ∧ k ≤ ey + w) := by
  unfold candidateYears
  simp only [List.mem_append, mem_yearsNear]
  cases specYear s <;> cases specYear e <;> simp [mem_yearsNear, or_assoc]

theorem dateYear_eq (ds : DateSpec) : dateYear ds = specYear ds := by cases ds <;> rfl

/-- the model's projection step `date_on_year` then `offset.apply` on one year -/
theorem project_ok {L : Int} {ds : DateSpec} {o : DateOffset} (h : BoundOK L ds o) (after : Bool) (k : Int)
    (hk : L ≤ k ∧ k ≤ 175000) (hyr : specYear ds = none ∨ specYear ds = some k) :
    dateOnYear ds k after = .ok (dateInstance ds k after) ∧
      ∀ p, dateInstance ds k after = some p → o.apply p = .ok (shift o p) :=
  ⟨dateOnYear_eq_instance ds k after h.wf (by have := h.lo; unfold minYear; omega) (by unfold maxYear; omega) hyr,
    fun _ hp => apply_inst h hk hp⟩

/-! ### (a1) both bounds carry a year -/

theorem singleInterval_year_year (s : DateSpec) (so : DateOffset) (e : DateSpec) (eo : DateOffset)
    (hws : s.wf = true) (hwso : so.wday.wf = true) (hwe : e.wf = true) (hweo : eo.wday.wf = true)
    (sy ey : Int) (hsy : specYear s = some sy)
    (hey : specYear e = some ey) (S E : Int) (hS : proj s so true sy = some S)
    (hE : proj e eo false ey = some E) (hsyr : 1900 ≤ sy ∧ sy ≤ 9999) (heyr : 1900 ≤ ey ∧ ey ≤ 9999) :
    singleInterval s so e eo = .ok (some (S, E)) := by
  obtain ⟨s0, hs0, rfl⟩ := proj_eq_some hS
  obtain ⟨e0, he0, rfl⟩ := proj_eq_some hE
  have a1 := dateOnYear_eq_instance s sy true hws (by unfold minYear; omega) (by unfold maxYear; omega) (Or.inr hsy)
  have b1 := dateOnYear_eq_instance e ey false hwe (by unfold minYear; omega) (by unfold maxYear; omega) (Or.inr hey)
  unfold singleInterval
  simp only [dateYear_eq, hsy, hey, a1, hs0, apply_eq_shift so hwso s0, b1, he0, apply_eq_shift eo hweo e0,
    ok_bind, pure_eq_ok]

/-- Class (a1): both bounds carry a year — ANY day offsets (the two instances are the only ones, on either
side; their shifts saturate in the same way in the code and in the specification). -/
theorem dated_year_year_eq (s : DateSpec) (so : DateOffset) (e : DateSpec) (eo : DateOffset) (d : Int)
    (hws : s.wf = true) (hwso : so.wday.wf = true) (hwe : e.wf = true) (hweo : eo.wday.wf = true)
    (sy ey : Int) (hsy : specYear s = some sy)
    (hey : specYear e = some ey) (hns : ¬ (s = e ∧ isFixedDate s = true)) :
    MonthdayRange.filter (.date s so e eo) d = .ok (datedOk s so e eo d) := by
  obtain ⟨S, hS, hsy1, hsy2⟩ := proj_some_own_year s so true hws sy hsy
  obtain ⟨E, hE, hey1, hey2⟩ := proj_some_own_year e eo false hwe ey hey
  rw [filter_of_interval s so e eo d hns _
    (singleInterval_year_year s so e eo hws hwso hwe hweo sy ey hsy hey S E hS hE (by omega) (by omega))]
  congr 1
  rw [Bool.eq_iff_iff, datedOk_range_iff s so e eo d hns]
  have msy : sy ∈ candidateYears s e (yearSpan so eo) d := by
    rw [mem_candidateYears, hsy]; right; left; exact ⟨sy, rfl, by omega, by omega⟩
  have mey : ey ∈ candidateYears s e (yearSpan so eo) d := by
    rw [mem_candidateYears, hey]; right; right; exact ⟨ey, rfl, by omega, by omega⟩
  have mS := mem_filterMap_proj_year s so true sy S hsy hS _ (by omega) msy
  have mE := mem_filterMap_proj_year e eo false ey E hey hE _ (by omega) mey
  rw [← specStarts_eq_filterMap] at mS
  rw [← specEnds_eq_filterMap] at mE
  simp only [mS, mE, exists_eq_left, forall_eq, hey, ne_eq, reduceCtorEq, not_false_eq_true, forall_const,
    Bool.and_eq_true, decide_eq_true_eq]
  omega

/-! ### (a2) the start carries a year, the end does not: the end is its first occurrence at or after the start -/

/-- the first of four successive end instances that is not before `S` -/
theorem find_end4 (E : Int → Int) (S y0 : Int) (hlo : E (y0 - 2) < S) (hhi : S ≤ E (y0 + 2)) :
    ∃ k, y0 - 1 ≤ k ∧ k ≤ y0 + 2 ∧
      [E (y0 - 1), E y0, E (y0 + 1), E (y0 + 2)].find? (fun x => decide (x ≥ S)) = some (E k) ∧
      S ≤ E k ∧ E (k - 1) < S := by
  simp only [List.find?_cons]
  by_cases h0 : E (y0 - 1) ≥ S
  · exact ⟨y0 - 1, by omega, by omega, by simp [h0], h0, by rw [show y0 - 1 - 1 = y0 - 2 by omega]; exact hlo⟩
  · by_cases h1 : E y0 ≥ S
    · exact ⟨y0, by omega, by omega, by simp [h0, h1], h1, by omega⟩
    · by_cases h2 : E (y0 + 1) ≥ S
      · exact ⟨y0 + 1, by omega, by omega, by simp [h0, h1, h2], h2,
          by rw [show y0 + 1 - 1 = y0 by omega]; omega⟩
      · exact ⟨y0 + 2, by omega, by omega, by simp [h0, h1, h2, hhi], hhi,
          by rw [show y0 + 2 - 1 = y0 + 1 by omega]; omega⟩

/-- the interval `[S, E k]`, `E k` the first end instance at or after `S`, against "no end instance, on any
candidate year, between `S` and `d`" -/
theorem year_end_iff (E : Int → Int) (S d k lo hi : Int) (mE : StepMono E lo hi) (hk : lo < k ∧ k ≤ hi)
    (h1 : S ≤ E k) (h2 : E (k - 1) < S) (cand : Int → Prop) (hck : cand k)
    (hc : ∀ j, cand j → lo ≤ j ∧ j ≤ hi) :
    (S ≤ d ∧ d ≤ E k) ↔ (S ≤ d ∧ ∀ j, cand j → ¬ (S ≤ E j ∧ E j < d)) := by
  have ME := mono_of_step E lo hi mE
  constructor
  · rintro ⟨hle, hstop⟩
    refine ⟨hle, fun j hj => ?_⟩
    have hjr := hc j hj
    by_cases hjk : j < k
    · have := (ME j (k - 1) hjr.1 (by omega) (by omega)).1; omega
    · have := (ME k j (by omega) (by omega) hjr.2).1; omega
  · rintro ⟨hle, hno⟩
    have := hno k hck
    exact ⟨hle, by omega⟩

/-- Class (a2): the start carries a year and the end does not — any offsets within ±30 000 000 days (`L`: the
years `sy ± yearSpan` are years the end is known on). -/
theorem dated_year_yearless_eq {L : Int} (s : DateSpec) (so : DateOffset) (e : DateSpec) (eo : DateOffset) (d : Int)
    (hs : BoundOK L s so) (he : BoundOK L e eo) (hL : L + yearSpan so eo ≤ 1899)
    (sy : Int) (hsy : specYear s = some sy)
    (hey : specYear e = none) (h1 : dateStart - 1 ≤ d) (h2 : d < dateEnd) :
    MonthdayRange.filter (.date s so e eo) d = .ok (datedOk s so e eo d) := by
  obtain ⟨S, hS, hsy1, hsy2⟩ := proj_some_own_year s so true hs.wf sy hsy
  obtain ⟨s0, hs0, hSe⟩ := proj_eq_some hS
  have hy := year_window h1 h2
  have hw := yearSpan_bounds so eo hs.small he.small
  have hss := hs.small
  have hes := he.small
  -- the shifted start
  have hs0y : InY sy s0 := inst_inYear hs.wf (hs.yr (k := sy) (by omega)) hs0
  have hsb := inst_shift_bounds hs (y := sy) (by omega) hs0
  rw [hSe] at hsb
  have hs0r : 693595 < s0 ∧ s0 ≤ 3652059 := by
    have a := yearStart_le (a := 1900) (b := sy) (by omega)
    have b := yearStart_le (a := sy + 1) (b := 10000) (by omega)
    rw [yearStart_1900] at a; rw [yearStart_10000] at b
    unfold InY at hs0y; omega
  -- the centre of the search for the end
  have ey0 := yearBeforeOffset_eq S eo he.small (by omega)
  have iS : InY (year (S - eo.days)) (S - eo.days) := inY_year _
  have hdist := year_dist iS hs0y (so.days.natAbs + eo.days.natAbs + 6) (by omega) (by omega)
  generalize year (S - eo.days) = y0 at *
  have hwdef : yearSpan so eo = 3 + (so.days.natAbs + eo.days.natAbs) / 365 := yearSpan_small so eo hss hes
  generalize hwg : yearSpan so eo = w at *
  -- the projections of the end
  have mE := projT_stepMono he hey false
  have posE := fun k (hk : L ≤ k ∧ k ≤ 175000) => projT_pos he hey false k hk
  have rE := pos_range e he.wf
  generalize hEdef : projT e eo false = E at *
  have pE : ∀ k, L ≤ k → k ≤ 175000 → proj e eo false k = some (E k) := by
    intro k a b; rw [← hEdef]; exact proj_eq_projT e eo false he.wf hey k (he.yr ⟨a, b⟩)
  have hlo : E (y0 - 2) < S := by
    rw [← hEdef]; exact projT_lt_of_year he hey false S y0 (y0 - 2) iS (by omega) (by omega)
  have hhi : S ≤ E (y0 + 2) := by
    have : S < E (y0 + 2) := by
      rw [← hEdef]; exact lt_projT_of_year he hey false S y0 (y0 + 2) iS (by omega) (by omega)
    omega
  obtain ⟨k, hk1, hk2, hfind, hSk, hkS⟩ := find_end4 E S y0 hlo hhi
  -- the year of that end is one of the candidate years
  have hknear : sy - w ≤ k ∧ k ≤ sy + w := by
    have p1 := posE (k - 1) (by omega)
    have p2 := posE k (by omega)
    unfold InY at hs0y
    simp only [shiftLo, shiftHi] at p1 p2
    constructor
    · by_cases hc : k + ((so.days.natAbs + eo.days.natAbs) / 365 + 4 : Nat) ≤ sy
      · have a := (yearStart_add_le k ((so.days.natAbs + eo.days.natAbs) / 365 + 4)).1
        have b := yearStart_le (a := k + ((so.days.natAbs + eo.days.natAbs) / 365 + 4 : Nat)) (b := sy) hc
        omega
      · omega
    · by_cases hc : sy + 1 + ((so.days.natAbs + eo.days.natAbs) / 365 + 2 : Nat) ≤ k - 1
      · have a := (yearStart_add_le (sy + 1) ((so.days.natAbs + eo.days.natAbs) / 365 + 2)).1
        have b := yearStart_le (a := sy + 1 + ((so.days.natAbs + eo.days.natAbs) / 365 + 2 : Nat)) (b := k - 1) hc
        omega
      · omega
  have cand_range : ∀ j ∈ candidateYears s e w d, L ≤ j ∧ j ≤ 175000 := by
    intro j hj
    rw [mem_candidateYears, hsy, hey] at hj
    simp only [Option.some.injEq, exists_eq_left', reduceCtorEq, false_and, exists_false, or_false] at hj
    omega
  have cnear : ∀ j, sy - w ≤ j → j ≤ sy + w → j ∈ candidateYears s e w d := by
    intro j a b
    rw [mem_candidateYears, hsy]; right; left; exact ⟨sy, rfl, a, b⟩
  -- the model
  obtain ⟨a1, a2⟩ := project_ok hs true sy (by omega) (Or.inr hsy)
  have fe : firstEndFrom e eo S [y0 - 1, y0, y0 + 1, y0 + 2] = .ok (some (E k)) := by
    rw [firstEndFrom_eq he S _ (by
      intro j hj; simp only [List.mem_cons, List.not_mem_nil, or_false] at hj
      exact ⟨by omega, Or.inl hey⟩)]
    simp only [List.filterMap_cons, List.filterMap_nil, pE (y0 - 1) (by omega) (by omega),
      pE y0 (by omega) (by omega), pE (y0 + 1) (by omega) (by omega), pE (y0 + 2) (by omega) (by omega)]
    rw [hfind]
  have si : singleInterval s so e eo = .ok (some (S, E k)) := by
    unfold singleInterval
    simp only [dateYear_eq, hsy, hey, a1, hs0, a2 s0 hs0, hSe, ey0, ok_bind, pure_eq_ok, fe]
  have hns : ¬ (s = e ∧ isFixedDate s = true) := by
    rintro ⟨rfl, _⟩; rw [hsy] at hey; cases hey
  rw [filter_of_interval s so e eo d hns _ si]
  congr 1
  rw [Bool.eq_iff_iff, datedOk_range_iff s so e eo d hns]
  simp only [Bool.and_eq_true, decide_eq_true_eq]
  rw [year_end_iff E S d k L 175000 mE (by omega) hSk hkS (· ∈ candidateYears s e w d)
    (cnear k hknear.1 hknear.2) cand_range]
  -- the specification
  have mS := mem_filterMap_proj_year s so true sy S hsy hS _ (by omega) (cnear sy (by omega) (by omega))
  have mS' : ∀ x, x ∈ specStarts s so e eo d ↔ x = S := by
    intro x; rw [specStarts_eq_filterMap, hwg]; exact mS x
  simp only [mS', exists_eq_left, hey, ne_eq, not_true_eq_false, false_imp_iff, and_true]
  constructor
  · rintro ⟨hle, hno⟩
    refine ⟨hle, fun x hx => ?_⟩
    rw [specEnds_eq_filterMap, hwg, List.mem_filterMap] at hx
    obtain ⟨j, hj, hp⟩ := hx
    rw [pE j (cand_range j hj).1 (cand_range j hj).2] at hp
    cases hp
    exact hno j hj
  · rintro ⟨hle, hno⟩
    refine ⟨hle, fun j hj => ?_⟩
    apply hno
    rw [specEnds_eq_filterMap, hwg, List.mem_filterMap]
    exact ⟨j, hj, pE j (cand_range j hj).1 (cand_range j hj).2⟩

end OH.Proofs.EvalSpec
