import OH.Proofs.EvalCommentsProvLone
import OH.Proofs.EvalCommentsProvIter
import OH.Proofs.NormalizeEval
/-
C17, EXPRESSION LEVEL (part 3 of 3: the statements).

  "Comments reported for a schedule range or an interval are sorted, free of duplicates and all
   taken from rules of the expression; they are empty outside the supported date range and on days
   to whose schedule no rule contributes.  An open or unknown period contributed by exactly one rule,
   on a day where no other rule's period touches or overlaps it, carries exactly that rule's
   comments …"

Everything is stated against the model's results in `M = Except String`
(`scheduleAt ctx e d = .ok s → …`, `daySchedule ctx e d = .ok l → …`), for every context, every
expression and every day.  The only hypothesis on the expression is `SortedComments e`: the comment
list of every rule is strictly sorted (hence duplicate-free), which is what the parser builds
(`UniqueSortedVec::from`, `OH.Props.C20.fromVec_sorted`).

  §1  provenance      `scheduleAt_comments_contrib`, `daySchedule_comments_contrib` and the two
                      weaker readings `…_applies` (rule applies on `d` or `d − 1`), `…_weak` (any rule)
  §2  no contribution `scheduleAt_noMatch`, `daySchedule_noMatch`, `scheduleAt_no_contribution`,
                      `daySchedule_no_contribution`, `daySchedule_outside`
  §3  exactness       `scheduleAt_single_rule`, `daySchedule_single_rule` (one rule, in full);
                      `scheduleAt_comments_const`, `daySchedule_comments_const` (all contributing rules
                      carry the same comments); `scheduleAt_isolated_period` (forward) and
                      `scheduleAt_single_contributor_comments` (backward) for ANY expression;
                      `daySchedule_isolated_period`, `daySchedule_single_contributor_comments` (the
                      iteration reports an isolated open/unknown range exactly as stored)
  §4  non-vacuity     a concrete two-rule expression meeting every hypothesis (`Demo`)
-/
namespace OH.Proofs.EvalCommentsProv
open OH.Model OH.Model.Cal OH.Model.Schedule OH.Spec.Schedule OH.Proofs.Schedule OH.Props.C14
open OH.Proofs.SortedVec

/-! ## §1 well-formedness and provenance -/

/-- the rule yields at least one range on day `d` (from its time spans of `d`, or from those of
`d − 1` continued past midnight) -/
def Contributes (ctx : Ctx) (r : Rule) (d : Day) : Prop :=
  ∃ s, ruleScheduleAt ctx r d = .ok (some s) ∧ s ≠ []

theorem contributes_applies {ctx : Ctx} {r : Rule} {d : Day} (h : Contributes ctx r d) :
    AppliesOn ctx r d := by
  obtain ⟨s, hs, _⟩ := h
  exact (ruleScheduleAt_some ctx r d hs).1

/-- the hypothesis `SortedComments` holds for every expression whose comment lists were built by
`UniqueSortedVec::from` (the parser) -/
theorem sortedComments_of_fromVec (e : Expr)
    (h : ∀ r ∈ e, ∃ v : List String, r.comments = OH.Model.SortedVec.fromVec v) : SortedComments e := by
  intro r hr
  obtain ⟨v, hv⟩ := h r hr
  rw [hv]; exact OH.Props.C20.fromVec_sorted v

/-- what C20 proves about `UniqueSortedVec::union`, in the form C14 wants -/
theorem sortedLaws : UnionLaws (fun c : List String => Sorted c) :=
  ⟨fun _ _ ha hb => OH.Props.C20.union_sorted ha hb,
   fun _ _ x ha hb hx => (OH.Props.C20.union_mem ha hb x).mp hx⟩

/-- the comment list `c` is strictly sorted (hence duplicate-free) and each of its elements is a
comment of a rule of `e` that contributes a range on day `d` -/
def ProvOK (ctx : Ctx) (e : Expr) (d : Day) (c : List String) : Prop :=
  Sorted c ∧ ∀ x ∈ c, ∃ r ∈ e, Contributes ctx r d ∧ x ∈ r.comments

theorem provOK_iff (ctx : Ctx) (e : Expr) (d : Day) (c : List String) :
    ProvOK ctx e d c ↔
      CommentsOK (fun c : List String => Sorted c) (fun x => ∃ r ∈ e, Contributes ctx r d ∧ x ∈ r.comments) c :=
  Iff.rfl

/-- (1)+(2), schedule ranges, strongest form: every comment list of the schedule of the day is
sorted and duplicate-free, and each comment belongs to a rule of `e` that CONTRIBUTES A RANGE on
that day. -/
theorem scheduleAt_comments_contrib (ctx : Ctx) (e : Expr) (d : Day) (hs : SortedComments e)
    {s : Schedule} (h : scheduleAt ctx e d = .ok s) : ∀ t ∈ s, ProvOK ctx e d t.comments := by
  refine scheduleAt_inv (P := fun a => ∀ t ∈ a, ProvOK ctx e d t.comments)
    (fun _ h => by cases h) ?_ ?_ h
  · intro a b ha hb
    exact addition_commentsOK sortedLaws _ a b ha hb
  · intro r hr s' hs' t ht
    have hc := (ruleScheduleAt_some ctx r d hs').2.2.2.2 (hs r hr) t ht
    rw [hc]
    refine ⟨hs r hr, fun x hx => ⟨r, hr, ⟨s', hs', ?_⟩, hx⟩⟩
    rintro rfl; cases ht

/-- (1)+(2), iterated day (`schedule_at(d).into_iter()`), strongest form -/
theorem daySchedule_comments_contrib (ctx : Ctx) (e : Expr) (d : Day) (hs : SortedComments e)
    {l : List TimeRange} (h : daySchedule ctx e d = .ok l) : ∀ t ∈ l, ProvOK ctx e d t.comments := by
  unfold daySchedule at h
  cases hsch : scheduleAt ctx e d with
  | error m => rw [hsch] at h; cases h
  | ok s =>
    rw [hsch] at h
    dsimp only at h
    split at h
    · cases h
    · cases h
      exact iter_commentsOK sortedLaws sorted_nil _ s (scheduleAt_comments_contrib ctx e d hs hsch)

/-- (2) STRONG FORM: every comment of a schedule range belongs to a rule of `e` whose day selector
matches `d` or `d − 1` -/
theorem scheduleAt_comments_applies (ctx : Ctx) (e : Expr) (d : Day) (hs : SortedComments e)
    {s : Schedule} (h : scheduleAt ctx e d = .ok s) :
    ∀ t ∈ s, Sorted t.comments ∧ ∀ c ∈ t.comments, ∃ r ∈ e,
      (r.day.filter ctx d = .ok true ∨ r.day.filter ctx (d - 1) = .ok true) ∧ c ∈ r.comments := by
  intro t ht
  obtain ⟨h1, h2⟩ := scheduleAt_comments_contrib ctx e d hs h t ht
  refine ⟨h1, fun c hc => ?_⟩
  obtain ⟨r, hr, hcon, hm⟩ := h2 c hc
  exact ⟨r, hr, contributes_applies hcon, hm⟩

theorem daySchedule_comments_applies (ctx : Ctx) (e : Expr) (d : Day) (hs : SortedComments e)
    {l : List TimeRange} (h : daySchedule ctx e d = .ok l) :
    ∀ t ∈ l, Sorted t.comments ∧ ∀ c ∈ t.comments, ∃ r ∈ e,
      (r.day.filter ctx d = .ok true ∨ r.day.filter ctx (d - 1) = .ok true) ∧ c ∈ r.comments := by
  intro t ht
  obtain ⟨h1, h2⟩ := daySchedule_comments_contrib ctx e d hs h t ht
  refine ⟨h1, fun c hc => ?_⟩
  obtain ⟨r, hr, hcon, hm⟩ := h2 c hc
  exact ⟨r, hr, contributes_applies hcon, hm⟩

/-- (1) WEAK FORM: sorted, duplicate-free, every comment taken from some rule of the expression -/
theorem scheduleAt_comments_weak (ctx : Ctx) (e : Expr) (d : Day) (hs : SortedComments e)
    {s : Schedule} (h : scheduleAt ctx e d = .ok s) :
    ∀ t ∈ s, Sorted t.comments ∧ ∀ c ∈ t.comments, ∃ r ∈ e, c ∈ r.comments := by
  intro t ht
  obtain ⟨h1, h2⟩ := scheduleAt_comments_contrib ctx e d hs h t ht
  refine ⟨h1, fun c hc => ?_⟩
  obtain ⟨r, hr, _, hm⟩ := h2 c hc
  exact ⟨r, hr, hm⟩

theorem daySchedule_comments_weak (ctx : Ctx) (e : Expr) (d : Day) (hs : SortedComments e)
    {l : List TimeRange} (h : daySchedule ctx e d = .ok l) :
    ∀ t ∈ l, Sorted t.comments ∧ ∀ c ∈ t.comments, ∃ r ∈ e, c ∈ r.comments := by
  intro t ht
  obtain ⟨h1, h2⟩ := daySchedule_comments_contrib ctx e d hs h t ht
  refine ⟨h1, fun c hc => ?_⟩
  obtain ⟨r, hr, _, hm⟩ := h2 c hc
  exact ⟨r, hr, hm⟩

/-- duplicate-free, spelled out -/
theorem scheduleAt_comments_nodup (ctx : Ctx) (e : Expr) (d : Day) (hs : SortedComments e)
    {s : Schedule} (h : scheduleAt ctx e d = .ok s) : ∀ t ∈ s, t.comments.Nodup :=
  fun t ht => OH.Props.C20.sorted_nodup (scheduleAt_comments_contrib ctx e d hs h t ht).1

theorem daySchedule_comments_nodup (ctx : Ctx) (e : Expr) (d : Day) (hs : SortedComments e)
    {l : List TimeRange} (h : daySchedule ctx e d = .ok l) : ∀ t ∈ l, t.comments.Nodup :=
  fun t ht => OH.Props.C20.sorted_nodup (daySchedule_comments_contrib ctx e d hs h t ht).1

/-! ## §2 no contribution ⇒ no comments -/

theorem iter_nil : Schedule.iterPanics [] = false ∧ Schedule.iter [] = [⟨0, 1440, .closed, []⟩] :=
  ⟨by decide +kernel, by decide +kernel⟩

/-- the iterated empty schedule: one closed range 00:00-24:00 without comments -/
theorem daySchedule_of_nil {ctx : Ctx} {e : Expr} {d : Day} (h : scheduleAt ctx e d = .ok []) :
    daySchedule ctx e d = .ok [⟨0, 1440, .closed, []⟩] := by
  simp [daySchedule, h, iter_nil.1, iter_nil.2]

theorem scheduleStep_noMatch (ctx : Ctx) (d : Day) (r : Rule) (h : NoMatch ctx r d) :
    scheduleStep ctx d (false, none) r = .ok (false, none) := by
  unfold scheduleStep
  rw [ruleScheduleAt_noMatch ctx r d h, h.1]
  cases r.op <;> cases r.kind <;> rfl

/-- (3) if the day selector of no rule matches `d` nor `d − 1`, the schedule of the day is empty
(no error either) -/
theorem scheduleAt_noMatch (ctx : Ctx) (e : Expr) (d : Day) (h : ∀ r ∈ e, NoMatch ctx r d) :
    scheduleAt ctx e d = .ok [] := by
  unfold scheduleAt
  split
  · rfl
  · have : foldM' (scheduleStep ctx d) (false, none) e = .ok (false, none) := by
      induction e with
      | nil => rfl
      | cons r rs ih =>
        simp only [foldM', scheduleStep_noMatch ctx d r (h r (by simp)), bind, Except.bind]
        exact ih (fun x hx => h x (by simp [hx]))
    rw [this]; rfl

/-- … hence the iterated day is one closed range without comments -/
theorem daySchedule_noMatch (ctx : Ctx) (e : Expr) (d : Day) (h : ∀ r ∈ e, NoMatch ctx r d) :
    daySchedule ctx e d = .ok [⟨0, 1440, .closed, []⟩] :=
  daySchedule_of_nil (scheduleAt_noMatch ctx e d h)

/-- (3) with the day before written `d − 1` (`pred_opt` returns it whenever it is representable) -/
theorem scheduleAt_noMatch' (ctx : Ctx) (e : Expr) (d : Day)
    (h : ∀ r ∈ e, r.day.filter ctx d = .ok false ∧ r.day.filter ctx (d - 1) = .ok false) :
    scheduleAt ctx e d = .ok [] ∧ daySchedule ctx e d = .ok [⟨0, 1440, .closed, []⟩] := by
  have h' : ∀ r ∈ e, NoMatch ctx r d := fun r hr =>
    ⟨(h r hr).1, fun p hp => by rw [pred?_eq hp]; exact (h r hr).2⟩
  exact ⟨scheduleAt_noMatch ctx e d h', daySchedule_noMatch ctx e d h'⟩

theorem addition_nil_nil : addition [] [] = [] := rfl

/-- (3), general form: "on days to whose schedule no rule contributes" — if no rule yields a range
on day `d` (its selector does not match, or its time spans leave nothing on that day), the schedule
has no range at all, hence no comment -/
theorem scheduleAt_no_contribution (ctx : Ctx) (e : Expr) (d : Day)
    (hno : ∀ r ∈ e, ¬ Contributes ctx r d) {s : Schedule} (h : scheduleAt ctx e d = .ok s) :
    s = [] := by
  refine scheduleAt_inv (P := fun a => a = []) rfl ?_ ?_ h
  · rintro a b rfl rfl; rfl
  · intro r hr s' hs'
    apply Classical.byContradiction
    intro hne
    exact hno r hr ⟨s', hs', hne⟩

theorem daySchedule_no_contribution (ctx : Ctx) (e : Expr) (d : Day)
    (hno : ∀ r ∈ e, ¬ Contributes ctx r d) {l : List TimeRange} (h : daySchedule ctx e d = .ok l) :
    l = [⟨0, 1440, .closed, []⟩] := by
  cases hsch : scheduleAt ctx e d with
  | error m => unfold daySchedule at h; rw [hsch] at h; cases h
  | ok s =>
    have := scheduleAt_no_contribution ctx e d hno hsch
    subst this
    rw [daySchedule_of_nil hsch] at h
    cases h; rfl

/-- "they are empty outside the supported date range" (restated from `OH.Props.C17`) -/
theorem daySchedule_outside (ctx : Ctx) (e : Expr) (d : Int) (h : d < dateStart ∨ dateEnd ≤ d) :
    scheduleAt ctx e d = .ok [] ∧ daySchedule ctx e d = .ok [⟨0, 1440, .closed, []⟩] :=
  ⟨OH.Props.C08.C08_schedule_outside ctx e d h, OH.Props.C17.C17_empty_outside ctx e d h⟩

/-! ## §3 exactness -/

/-! ### the iteration, for a property of kind and comments together -/

section iterH
variable (H : Kind → List String → Prop) (hH : ∀ k a b, H k a → H k b → H k (cunion a b))
include hH

theorem nextLoop_H (y : TimeRange) (rs : List TimeRange) (hy : H y.kind y.comments)
    (hr : ∀ t ∈ rs, H t.kind t.comments) :
    H (nextLoop y rs).1.kind (nextLoop y rs).1.comments := by
  fun_induction nextLoop y rs with
  | case1 y => split <;> exact hy
  | case2 y n rest _ => exact hy
  | case3 y n rest _ _ => unfold extendHole; split <;> exact hy
  | case4 y n rest _ hk ih =>
    apply ih _ (fun u hu => hr u (by simp [hu]))
    have e1 : (extendHole y n).comments = y.comments := by unfold extendHole; split <;> rfl
    have e2 := extendHole_kind y n
    have e3 : y.kind = n.kind := by rw [e2] at hk; exact Decidable.not_not.mp hk
    simp only [e1, e2]
    have hn := hr n (by simp)
    rw [← e3] at hn
    exact hH _ _ _ hy hn

omit hH in
theorem nextStart_H (st : IterState) (h0 : H Kind.closed []) (hr : ∀ t ∈ st.ranges, H t.kind t.comments) :
    H (nextStart st).1.kind (nextStart st).1.comments := by
  unfold nextStart
  split
  · exact h0
  · rename_i n rest e
    split
    · exact hr n (by simp [e])
    · exact h0

theorem iterFrom_H (st : IterState) (h0 : H Kind.closed []) (hr : ∀ t ∈ st.ranges, H t.kind t.comments) :
    ∀ t ∈ (iterFrom st).1, H t.kind t.comments := by
  fun_induction iterFrom st with
  | case1 st hn => simp
  | case2 st v hn => simp
  | case3 st v st' hn r ih =>
    rcases next_cases st with ⟨_, h2⟩ | ⟨h1, h2, h3⟩ | ⟨_, _, h2⟩
    · rw [hn] at h2; cases h2
    · rw [hn] at h3
      injection h3 with hv hst
      subst hv hst
      have hsub : ∀ u ∈ (nextStart st).2, H u.kind u.comments :=
        fun u hu => hr u (nextStart_sub st u hu)
      simp only [List.mem_cons, forall_eq_or_imp]
      refine ⟨nextLoop_H H hH _ _ (nextStart_H H st h0 hr) hsub, ih ?_⟩
      intro t ht
      exact hsub t (nextLoop_sub _ _ t ht)
    · rw [hn] at h2; cases h2

end iterH

/-- the iteration of a schedule whose ranges all carry the comments `c`: every yielded range carries
`c`, or is closed and carries none (a hole) -/
theorem iter_allComments (c : List String) (hc : Sorted c) (s : Schedule) (hs : AllComments c s) :
    ∀ t ∈ iter s, t.comments = c ∨ (t.kind = Kind.closed ∧ t.comments = []) := by
  refine iterFrom_H (fun k x => x = c ∨ (k = Kind.closed ∧ x = [])) ?_ (IterState.new s)
    (Or.inr ⟨rfl, rfl⟩) (fun t ht => Or.inl (hs t ht))
  rintro k a b (rfl | ⟨hk, rfl⟩) (rfl | ⟨hk', rfl⟩)
  · exact Or.inl (cunion_self hc)
  · exact Or.inl (OH.Props.C20.union_nil_right _)
  · exact Or.inl (OH.Props.C20.union_nil_left _)
  · exact Or.inr ⟨hk, OH.Props.C20.union_nil_left _⟩

/-! ### all contributing rules carry the same comments; one rule -/

/-- if every rule contributing on day `d` carries the comments `c`, so does every range of the
schedule of the day -/
theorem scheduleAt_comments_const (ctx : Ctx) (e : Expr) (d : Day) (c : List String) (hc : Sorted c)
    (hall : ∀ r ∈ e, Contributes ctx r d → r.comments = c)
    {s : Schedule} (h : scheduleAt ctx e d = .ok s) : ∀ t ∈ s, t.comments = c := by
  refine scheduleAt_inv (P := AllComments c) (fun _ h => by cases h) ?_ ?_ h
  · intro a b ha hb
    exact addition_allComments a b c hc ha hb
  · intro r hr s' hs' t ht
    have e1 : r.comments = c := hall r hr ⟨s', hs', by rintro rfl; cases ht⟩
    have := (ruleScheduleAt_some ctx r d hs').2.2.2.2 (by rw [e1]; exact hc) t ht
    rw [this, e1]

/-- … and every open or unknown range of the iterated day (closed ranges carry `c` or, if they
consist of holes only, nothing) -/
theorem daySchedule_comments_const (ctx : Ctx) (e : Expr) (d : Day) (c : List String) (hc : Sorted c)
    (hall : ∀ r ∈ e, Contributes ctx r d → r.comments = c)
    {l : List TimeRange} (h : daySchedule ctx e d = .ok l) :
    ∀ t ∈ l, (t.kind ≠ Kind.closed → t.comments = c) ∧ (t.comments = c ∨ t.comments = []) := by
  unfold daySchedule at h
  cases hsch : scheduleAt ctx e d with
  | error m => rw [hsch] at h; cases h
  | ok s =>
    rw [hsch] at h
    dsimp only at h
    split at h
    · cases h
    · cases h
      intro t ht
      rcases iter_allComments c hc s (scheduleAt_comments_const ctx e d c hc hall hsch) t ht with h1 | ⟨h1, h2⟩
      · exact ⟨fun _ => h1, Or.inl h1⟩
      · exact ⟨fun hk => absurd h1 hk, Or.inr h2⟩

/-- (4) ONE RULE, in full: every range of the schedule of the day of `[r]` has the kind of `r` and
carries exactly the comments of `r` -/
theorem scheduleAt_single_rule (ctx : Ctx) (r : Rule) (d : Day) (hc : Sorted r.comments)
    {s : Schedule} (h : scheduleAt ctx [r] d = .ok s) :
    ∀ t ∈ s, t.comments = r.comments ∧ t.kind = r.kind := by
  intro t ht
  refine ⟨scheduleAt_comments_const ctx [r] d r.comments hc
    (fun r' hr' _ => by rw [List.mem_singleton.mp hr']) h t ht, ?_⟩
  have := scheduleAt_inv (P := fun a => WF a ∧ ∀ t ∈ a, t.kind = r.kind)
    ⟨trivial, fun _ h => by cases h⟩
    (fun a b ha hb => ⟨addition_wf a b ha.1 hb.1, addition_kind a b ha.1 hb.1 r.kind ha.2 hb.2⟩)
    (ctx := ctx) (e := [r]) (d := d)
    (fun r' hr' s' hs' => by
      rw [List.mem_singleton.mp hr'] at hs'
      obtain ⟨_, w, _, k, _⟩ := ruleScheduleAt_some ctx r d hs'
      exact ⟨w, k⟩) h
  exact this.2 t ht

/-- (4) one rule, iterated day: every open or unknown range carries exactly the comments of `r`;
a closed range carries them too, or nothing (holes) -/
theorem daySchedule_single_rule (ctx : Ctx) (r : Rule) (d : Day) (hc : Sorted r.comments)
    {l : List TimeRange} (h : daySchedule ctx [r] d = .ok l) :
    ∀ t ∈ l, (t.kind ≠ Kind.closed → t.comments = r.comments) ∧
      (t.comments = r.comments ∨ t.comments = []) :=
  daySchedule_comments_const ctx [r] d r.comments hc
    (fun r' hr' _ => by rw [List.mem_singleton.mp hr']) h

/-! ### any expression: a period that no period of another rule touches or overlaps -/

/-- (4) FORWARD.  `t` is a range contributed by the rule `r` (at the position `pre ++ r :: post` of the
expression) on day `d`; no range contributed by a rule at another position touches or overlaps `t`.
Then `t` carries exactly the kind and the comments of `r`, and every range `u` of the schedule of the
day that touches or overlaps `t` IS `t` (same bounds, kind, comments). -/
theorem scheduleAt_isolated_period (ctx : Ctx) (pre post : List Rule) (r : Rule) (d : Day)
    (hc : Sorted r.comments) {sr s : Schedule} {t : TimeRange}
    (hr : ruleScheduleAt ctx r d = .ok (some sr)) (ht : t ∈ sr)
    (hother : ∀ r', r' ∈ pre ∨ r' ∈ post → ∀ s', ruleScheduleAt ctx r' d = .ok (some s') →
      ∀ u ∈ s', Apart t u)
    (h : scheduleAt ctx (pre ++ r :: post) d = .ok s) :
    t.comments = r.comments ∧ t.kind = r.kind ∧ ∀ u ∈ s, ¬ Apart t u → u = t := by
  obtain ⟨_, _, _, k, c⟩ := ruleScheduleAt_some ctx r d hr
  refine ⟨c hc t ht, k t ht, fun u hu hna => ?_⟩
  rcases (scheduleAt_lone ctx pre post r d hr ht hother h).2.2 u hu with e | e
  · exact e
  · exact absurd e hna

/-- (4) BACKWARD — the clause of C17 as stated.  `u` is a range of the schedule of day `d`; `r` (at the
position `pre ++ r :: post`) is the only rule whose contribution on that day has a range touching or
overlapping `u`.  Then `u` is exactly one of the ranges contributed by `r`: it has the kind of `r` and
carries exactly the comments of `r`. -/
theorem scheduleAt_single_contributor_comments (ctx : Ctx) (pre post : List Rule) (r : Rule) (d : Day)
    (hc : Sorted r.comments) {sr s : Schedule} {u : TimeRange}
    (hr : ruleScheduleAt ctx r d = .ok (some sr))
    (hother : ∀ r', r' ∈ pre ∨ r' ∈ post → ∀ s', ruleScheduleAt ctx r' d = .ok (some s') →
      ∀ x ∈ s', Apart u x)
    (h : scheduleAt ctx (pre ++ r :: post) d = .ok s) (hu : u ∈ s) :
    u ∈ sr ∧ u.comments = r.comments ∧ u.kind = r.kind := by
  have hm := scheduleAt_single_contributor ctx pre post r d hr hother h hu
  obtain ⟨_, _, _, k, c⟩ := ruleScheduleAt_some ctx r d hr
  exact ⟨hm, c hc u hm, k u hm⟩

/-- every range of the schedule of the day touches or overlaps a range contributed by some rule
(so the hypothesis of the previous theorem cannot hold for all positions at once) -/
theorem scheduleAt_range_has_contributor (ctx : Ctx) (e : Expr) (d : Day) {s : Schedule}
    {u : TimeRange} (h : scheduleAt ctx e d = .ok s) (hu : u ∈ s) :
    ∃ r ∈ e, ∃ s', ruleScheduleAt ctx r d = .ok (some s') ∧ ∃ x ∈ s', ¬ Apart u x := by
  apply Classical.byContradiction
  intro hno
  have hfree : ∀ r ∈ e, ∀ s', ruleScheduleAt ctx r d = .ok (some s') → Free u s' := by
    intro r hr s' hs' x hx
    apply Classical.byContradiction
    intro hna
    exact hno ⟨r, hr, s', hs', x, hx, hna⟩
  have hw : WF s := by
    refine scheduleAt_inv (P := fun a => WF a) trivial (fun a b ha hb => addition_wf a b ha hb) ?_ h
    intro r _ s' hs'
    exact (ruleScheduleAt_some ctx r d hs').2.1
  have hne := wf_nonempty s hw u hu
  have := scheduleAt_inv (P := fun a => WF a ∧ Free u a) ⟨trivial, free_nil u⟩
    (fun a b ha hb => ⟨addition_wf a b ha.1 hb.1, free_addition ha.1 hb.1 hne ha.2 hb.2⟩)
    (ctx := ctx) (e := e) (d := d)
    (fun r hr s' hs' => ⟨(ruleScheduleAt_some ctx r d hs').2.1, hfree r hr s' hs'⟩) h
  have := this.2 u hu
  unfold Apart at this
  omega

/-! ### the same two statements for the iterated day -/

theorem daySchedule_eq_iter {ctx : Ctx} {e : Expr} {d : Day} {s : Schedule} {l : List TimeRange}
    (hs : scheduleAt ctx e d = .ok s) (h : daySchedule ctx e d = .ok l) : l = iter s := by
  unfold daySchedule at h
  rw [hs] at h
  dsimp only at h
  split at h
  · cases h
  · cases h; rfl

/-- a lone open or unknown range of the schedule of the day is reported by the iteration exactly as
it is, and every reported range that overlaps it is that very range -/
theorem daySchedule_keeps_lone {ctx : Ctx} {e : Expr} {d : Day} {s : Schedule} {l : List TimeRange}
    (hs : scheduleAt ctx e d = .ok s) (h : daySchedule ctx e d = .ok l)
    {t : TimeRange} (ht : t ∈ s) (hl : Lone t s) (hk : t.kind ≠ Kind.closed) :
    t ∈ l ∧ ∀ v ∈ l, v.s < t.e → t.s < v.e → v = t := by
  obtain ⟨hw, hwi⟩ := OH.Proofs.NormalizeEval.scheduleAt_wf ctx e d s hs
  have hne := wf_nonempty s hw t ht
  have hlt : t.s < 1440 := by have := hwi t ht; omega
  have e := daySchedule_eq_iter hs h
  subst e
  have hm := iter_keeps_lone s hw t ht hl hk hlt
  refine ⟨hm, fun v hv h1 h2 => ?_⟩
  apply Classical.byContradiction
  intro hne'
  rcases wf_disjoint (iter s) (iter_wf s hw) v t hv hm hne' with h3 | h3 <;> omega

/-- (4) FORWARD, iterated day.  As `scheduleAt_isolated_period`, for an open or unknown period `t`
that is still in the schedule of the day (no later rule replaced the whole day): the iteration reports
`t` itself, with exactly the comments of `r`, and every reported range overlapping `t` is `t`. -/
theorem daySchedule_isolated_period (ctx : Ctx) (pre post : List Rule) (r : Rule) (d : Day)
    (hc : Sorted r.comments) {sr s : Schedule} {l : List TimeRange} {t : TimeRange}
    (hr : ruleScheduleAt ctx r d = .ok (some sr)) (ht : t ∈ sr) (hk : t.kind ≠ Kind.closed)
    (hother : ∀ r', r' ∈ pre ∨ r' ∈ post → ∀ s', ruleScheduleAt ctx r' d = .ok (some s') →
      ∀ u ∈ s', Apart t u)
    (hs : scheduleAt ctx (pre ++ r :: post) d = .ok s) (hts : t ∈ s)
    (h : daySchedule ctx (pre ++ r :: post) d = .ok l) :
    t ∈ l ∧ t.comments = r.comments ∧ ∀ v ∈ l, v.s < t.e → t.s < v.e → v = t := by
  obtain ⟨_, _, lone⟩ := scheduleAt_lone ctx pre post r d hr ht hother hs
  obtain ⟨h1, h2⟩ := daySchedule_keeps_lone hs h hts lone hk
  exact ⟨h1, (ruleScheduleAt_some ctx r d hr).2.2.2.2 hc t ht, h2⟩

/-- (4) BACKWARD, iterated day — the clause of C17 as stated.  `u` is an open or unknown range of the
schedule of day `d`, and `r` is the only rule (by position) whose contribution on that day has a
range touching or overlapping `u`.  Then the iteration reports `u` itself, it carries exactly the
comments of `r`, and every reported range overlapping `u` is `u`. -/
theorem daySchedule_single_contributor_comments (ctx : Ctx) (pre post : List Rule) (r : Rule) (d : Day)
    (hc : Sorted r.comments) {sr s : Schedule} {l : List TimeRange} {u : TimeRange}
    (hr : ruleScheduleAt ctx r d = .ok (some sr))
    (hother : ∀ r', r' ∈ pre ∨ r' ∈ post → ∀ s', ruleScheduleAt ctx r' d = .ok (some s') →
      ∀ x ∈ s', Apart u x)
    (hs : scheduleAt ctx (pre ++ r :: post) d = .ok s) (hu : u ∈ s) (hk : u.kind ≠ Kind.closed)
    (h : daySchedule ctx (pre ++ r :: post) d = .ok l) :
    u ∈ l ∧ u.comments = r.comments ∧ ∀ v ∈ l, v.s < u.e → u.s < v.e → v = u := by
  obtain ⟨hm, hcm, _⟩ := scheduleAt_single_contributor_comments ctx pre post r d hc hr hother hs hu
  exact daySchedule_isolated_period ctx pre post r d hc hr hm hk hother hs hu h |>.imp_right
    (fun h' => ⟨hcm, h'.2⟩)

/-! ## §4 non-vacuity: a concrete expression meeting every hypothesis

`08:00-12:00 open "a" "b"; additional 14:00-25:00 unknown "c"` on an ordinary day: the second rule also
contributes 00:00-01:00 (continued from the day before); the open period of the first rule is touched
by nothing. -/

namespace Demo

def isOkSome (x : M (Option Schedule)) (s : Schedule) : Bool :=
  match x with | .ok (some s') => decide (s' = s) | _ => false

theorem of_isOkSome {x : M (Option Schedule)} {s : Schedule} (h : isOkSome x s = true) :
    x = .ok (some s) := by
  unfold isOkSome at h
  split at h
  · rw [of_decide_eq_true h]
  · cases h

def isOk (x : M Schedule) (s : Schedule) : Bool :=
  match x with | .ok s' => decide (s' = s) | _ => false

theorem of_isOk {x : M Schedule} {s : Schedule} (h : isOk x s = true) : x = .ok s := by
  unfold isOk at h
  split at h
  · rw [of_decide_eq_true h]
  · cases h

def anyDay : DaySelector := ⟨[], [], [], []⟩
def rA : Rule := ⟨anyDay, [⟨.fixed 480, .fixed 720, false, none⟩], .open, .normal, ["a", "b"]⟩
def rB : Rule := ⟨anyDay, [⟨.fixed 840, .fixed 1500, false, none⟩], .unknown, .additional, ["c"]⟩
def day : Day := dateStart + 45000
def tA : TimeRange := ⟨480, 720, .open, ["a", "b"]⟩
def sB : Schedule := [⟨0, 60, .unknown, ["c"]⟩, ⟨840, 1440, .unknown, ["c"]⟩]

theorem evalA : ruleScheduleAt Ctx.default rA day = .ok (some [tA]) := of_isOkSome (by decide +kernel)
theorem evalB : ruleScheduleAt Ctx.default rB day = .ok (some sB) := of_isOkSome (by decide +kernel)
theorem evalAB : scheduleAt Ctx.default [rA, rB] day = .ok [⟨0, 60, .unknown, ["c"]⟩, tA, ⟨840, 1440, .unknown, ["c"]⟩] :=
  of_isOk (by decide +kernel)

theorem sortedAB : SortedComments [rA, rB] := by
  intro r hr
  simp only [List.mem_cons, List.not_mem_nil, or_false] at hr
  rcases hr with rfl | rfl <;> decide

theorem othersApart : ∀ r', r' ∈ ([] : List Rule) ∨ r' ∈ [rB] → ∀ s', ruleScheduleAt Ctx.default r' day = .ok (some s') →
    ∀ x ∈ s', Apart tA x := by
  rintro r' (h | h) s' hs'
  · cases h
  · rw [List.mem_singleton.mp h, evalB] at hs'
    cases hs'
    intro x hx
    simp only [sB, List.mem_cons, List.not_mem_nil, or_false] at hx
    rcases hx with rfl | rfl <;> (unfold Apart; decide)

/-- the hypotheses of the backward theorem are met, and it says what the evaluation shows -/
example : tA ∈ [tA] ∧ tA.comments = rA.comments ∧ tA.kind = rA.kind :=
  scheduleAt_single_contributor_comments Ctx.default [] [rB] rA day (by decide) evalA othersApart
    evalAB (by decide)

/-- … and those of the provenance theorem -/
example : ∀ t ∈ [⟨0, 60, .unknown, ["c"]⟩, tA, ⟨840, 1440, .unknown, ["c"]⟩],
    Sorted t.comments ∧ ∀ c ∈ t.comments, ∃ r ∈ [rA, rB],
      (r.day.filter Ctx.default day = .ok true ∨ r.day.filter Ctx.default (day - 1) = .ok true) ∧ c ∈ r.comments :=
  scheduleAt_comments_applies Ctx.default [rA, rB] day sortedAB evalAB

end Demo

end OH.Proofs.EvalCommentsProv
