import OH.Proofs.HintSched
/-
Layer B, part 3 (c)/(d) — vocabulary and single-step lemmas for the rule fold of `schedule_at` on
days where every rule contributes a whole-day range or nothing.

* `UniK s ok`: every minute of the day has state `ok` in schedule `s`; `DayKind s k`: every minute
  shows kind `k`, closed filling the holes.
* `absStep`: what one rule does to the uniform state, as a function of its match only.
* `stepEval_uni`: `scheduleStep` follows `absStep` on uniform inputs; `stepEval_dayKind_*`: a
  00:00-24:00 rule of kind `k` keeps / forces `DayKind k`.
-/
namespace OH.Model
open OH.Model.Cal OH.Spec.Schedule OH.Props.C14 OH.Proofs.Schedule

def UniK (s : Schedule) (ok : Option Kind) : Prop := ∀ m, m < 1440 → stateAt s m = ok

def DayKind (s : Schedule) (k : Kind) : Prop := ∀ m, m < 1440 → dayState s m = k

theorem uniK_nil : UniK [] none := fun _ _ => rfl

theorem UniK.dayKind {s : Schedule} {ok : Option Kind} (h : UniK s ok) : DayKind s (ok.getD .closed) := by
  intro m hm; unfold dayState; rw [h m hm]

/-! ### iteration of a single-kind day -/

theorem tiles_le {l : List TimeRange} {a b : Nat} (h : Tiles l a b) : a ≤ b := by
  induction l generalizing a with
  | nil => simp only [Tiles] at h; omega
  | cons t ts ih => simp only [Tiles] at h; have := ih h.2.2; omega

theorem tiles_wf {l : List TimeRange} {a b : Nat} (h : Tiles l a b) : WF l ∧ ∀ t ∈ l, a ≤ t.s ∧ t.e ≤ b := by
  induction l generalizing a with
  | nil => exact ⟨trivial, by simp⟩
  | cons t ts ih =>
    simp only [Tiles] at h
    obtain ⟨w, hb⟩ := ih h.2.2
    have := tiles_le h.2.2
    refine ⟨⟨h.2.1, fun u hu => (hb u hu).1, w⟩, ?_⟩
    intro u hu
    rcases List.mem_cons.1 hu with rfl | hu
    · omega
    · have := hb u hu; omega

/-- a day on which every minute shows kind `k` iterates to ranges of kind `k` only -/
theorem iter_kinds (s : Schedule) (hg : GoodS s) (k : Kind) (hk : DayKind s k) :
    (∀ t ∈ Schedule.iter s, t.kind = k) ∧ lastKind (Schedule.iter s) = k := by
  have T := iter_tiling s hg.1 hg.2
  obtain ⟨W, B⟩ := tiles_wf T
  have hall : ∀ t ∈ Schedule.iter s, t.kind = k := by
    intro t ht
    have hne := wf_nonempty _ W t ht
    have hb := B t ht
    have h1 := stateAt_of_mem _ W t ht t.s ⟨Nat.le_refl _, hne⟩
    have h2 := iter_state s hg.1 t.s (by omega)
    rw [h1, hk t.s (by omega)] at h2
    exact Option.some.inj h2
  refine ⟨hall, ?_⟩
  unfold lastKind
  cases h : (Schedule.iter s).getLast? with
  | none =>
    rw [List.getLast?_eq_none_iff] at h
    rw [h] at T
    simp [Tiles] at T
  | some r => exact hall r (List.mem_of_getLast? h)

/-! ### `combine`, `is_always_closed` -/

theorem combine_state (p c : Option Schedule) (hp : GoodO p) (hc : GoodO c) (m : Nat) :
    stateAt ((combine p c).getD []) m = (stateAt (c.getD []) m).or (stateAt (p.getD []) m) := by
  cases p with
  | none => cases c <;> simp [combine, stateAt]
  | some p =>
    cases c with
    | none => simp [combine, stateAt]
    | some c => simpa [combine] using addition_state p c (hp p rfl).1 (hc c rfl).1 m

theorem isAlwaysClosed_uni (s : Schedule) (hg : GoodS s) (pk : Option Kind) (hu : UniK s pk) :
    Schedule.isAlwaysClosed s = true ↔ (pk = none ∨ pk = some .closed) := by
  rw [isAlwaysClosed_iff]
  have key : ∀ t ∈ s, some t.kind = pk := by
    intro t ht
    have hne := wf_nonempty _ hg.1 t ht
    have := hg.2 t ht
    rw [← hu t.s (by omega), stateAt_of_mem _ hg.1 t ht t.s ⟨Nat.le_refl _, hne⟩]
  constructor
  · intro h
    cases hpk : pk with
    | none => left; rfl
    | some k =>
      right
      have := hu 0 (by omega)
      rw [hpk] at this
      obtain ⟨t, ht, _, _, e⟩ := stateAt_eq_some s 0 k this
      rw [← e, h t ht]
  · rintro (h | h) t ht
    · have := key t ht; rw [h] at this; cases this
    · have := key t ht; rw [h] at this; exact Option.some.inj this

/-! ### the abstract step -/

/-- what one rule does to a uniform day, given whether it matches -/
def absStep (r : Rule) (pk : Option Kind) (cm : Bool) : Option Kind :=
  match r.op, r.kind with
  | .normal, .open | .normal, .unknown => if cm then some r.kind else pk
  | .additional, _ | .normal, .closed => if cm then some r.kind else pk
  | .fallback, _ => if pk = none ∨ pk = some .closed then (if cm then some r.kind else none) else pk

theorem stepEval_uni (r : Rule) (pe ce : Option Schedule) (cm : Bool) (pk : Option Kind)
    (hp : GoodO pe) (hc : GoodO ce) (up : UniK (pe.getD []) pk)
    (uc : UniK (ce.getD []) (if cm then some r.kind else none)) :
    UniK ((stepEval r pe cm ce).getD []) (absStep r pk cm) := by
  have hcomb : UniK ((combine pe ce).getD []) (if cm then some r.kind else pk) := by
    intro m hm
    rw [combine_state pe ce hp hc m, uc m hm, up m hm]
    cases cm <;> simp
  have hac := isAlwaysClosed_uni _ (goodO_getD hp) pk up
  unfold stepEval absStep
  cases hop : r.op <;> cases hk : r.kind <;> simp only []
  all_goals first
    | exact hcomb
    | (rw [hk] at hcomb; exact hcomb)
    | (cases cm
       · simpa [hk] using hcomb
       · simpa [hk] using uc)
    | (by_cases h : pk = none ∨ pk = some Kind.closed
       · rw [if_pos (hac.2 h), if_pos h]; simpa [hk] using uc
       · rw [if_neg (fun x => h (hac.1 x)), if_neg h]; exact up)

/-! ### 00:00-24:00 rules of kind `k` -/

/-- a rule whose uniform contribution has kind `k` keeps a day of kind `k` -/
theorem stepEval_dayKind_keep (r : Rule) (pe ce : Option Schedule) (cm : Bool) (k : Kind) (hk : r.kind = k)
    (hp : GoodO pe) (hc : GoodO ce) (dp : DayKind (pe.getD []) k)
    (uc : UniK (ce.getD []) (if cm then some k else none)) :
    DayKind ((stepEval r pe cm ce).getD []) k := by
  have hcomb : DayKind ((combine pe ce).getD []) k := by
    intro m hm
    unfold dayState
    rw [combine_state pe ce hp hc m, uc m hm]
    cases cm
    · simpa [dayState] using dp m hm
    · simp
  have huc : DayKind (ce.getD []) (if cm then k else .closed) := by
    have := uc.dayKind
    cases cm <;> simpa using this
  unfold stepEval
  cases hop : r.op <;> cases hk' : r.kind <;> simp only []
  all_goals first
    | exact hcomb
    | (cases cm
       · simpa using hcomb
       · simpa using huc)
    | (by_cases h : Schedule.isAlwaysClosed (pe.getD []) = true
       · rw [if_pos h]
         have e : k = .closed := by rw [← dp 0 (by omega)]; exact isAlwaysClosed_dayState _ h 0
         cases cm
         · simpa [e] using huc
         · simpa using huc
       · rw [if_neg h]; exact dp)

/-- a matching 00:00-24:00 rule of kind `k` that is not a fallback forces a day of kind `k` -/
theorem stepEval_dayKind_force (r : Rule) (pe ce : Option Schedule) (k : Kind) (hop : r.op ≠ .fallback)
    (hp : GoodO pe) (hc : GoodO ce) (uc : UniK (ce.getD []) (some k)) :
    DayKind ((stepEval r pe true ce).getD []) k := by
  have hcomb : DayKind ((combine pe ce).getD []) k := by
    intro m hm
    unfold dayState
    rw [combine_state pe ce hp hc m, uc m hm]
    simp
  have huc : DayKind (ce.getD []) k := by simpa using uc.dayKind
  unfold stepEval
  cases hop' : r.op <;> cases hk' : r.kind <;> simp only [] <;> first
    | exact hcomb
    | exact huc
    | exact absurd hop' hop
    | simpa using huc

end OH.Model
