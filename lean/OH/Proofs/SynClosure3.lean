import OH.Proofs.SynClosure2
/-
Closing the loop of C06, part 3: the wide-range selectors with `okYear`, `okMonthday`, `okWeek`
(bridges of SynWideFail where `ParserWF` is enough) and `yearStepOk`:
 * `Conf` level: a month-day range whose text does not start with a digit has no leading year;
 * `run` level: a year range with a `/step` leaves a rest that does not start with a digit
   (`positive_number` is greedy), hence so does a year selector whose last range has a step ≠ 1;
 * `wide_range_selectors` on `run`: the rest of the year selector starts with the text of the
   month-day selector, so a step ≠ 1 and a leading year exclude each other.
-/
namespace OH.Proofs.SynClosure
open OH.Model OH.Model.Peg OH.Model.Parser OH.Generated.Grammar OH.Proofs.SynTotal
open OH.Proofs.Syn (NoDigit okComment okYear okWeek okMonthday okDate okDateOffset okWdayOffset okYearOpt
  yearStepOk okYear_of_wf okWeek_of_wf okDate_of_wf)

/-! ### texts that start with a digit -/

/-- the text starts with a digit (kept folded) -/
def StartsDigit (t : List Char) : Prop := ∃ c r, t = c :: r ∧ '0' ≤ c ∧ c ≤ '9'

theorem not_noDigit {t : List Char} (h : StartsDigit t) (u : List Char) : ¬ NoDigit (t ++ u) := by
  obtain ⟨c, r, rfl, hc⟩ := h
  intro hn
  exact hn c (r ++ u) rfl hc

theorem conf_year_val' {k t} (h : Conf g_year false k t) :
    ∃ x, k = [x] ∧ Good .year buildYear (fun y => 1900 ≤ y ∧ y ≤ 9999) x ∧ StartsDigit t := by
  obtain ⟨x, rfl, hx⟩ := conf_year_val h
  refine ⟨x, rfl, hx, ?_⟩
  conf_unfold [g_year] at h
  conf_destruct []
  · exact ⟨'1', _, rfl, by decide, by decide⟩
  · exact ⟨_, _, rfl, by rw [char_le_iff]; dig, by rw [char_le_iff]; dig⟩

theorem startsWithYear_date (s : DateSpec) (so : DateOffset) (e : DateSpec) (eo : DateOffset) :
    Print.startsWithYear (.date s so e eo) = DateSpec.hasYear s := by
  rcases s with ⟨_ | y, m, d⟩ | (_ | y) <;> rfl

/-- a `safe_bind` step whose hypothesis is a conjunction, taken apart -/
macro "safe_bind2" : tactic =>
  `(tactic| ((first
      | refine Safe.bind (by assumption) ?_
      | refine Safe.bind (by apply_assumption; assumption) ?_); intro _ h; try (obtain ⟨_, _⟩ : _ ∧ _ := h)))

/-- the side condition "no leading digit, no leading year" of a builder outcome -/
macro "year_side" : tactic =>
  `(tactic| (
    intro u hN
    try simp only [List.append_assoc, List.cons_append, List.nil_append] at hN
    first
    | exact absurd hN (not_noDigit (by assumption) _)
    | (simp [Print.startsWithYear, DateSpec.hasYear]; done)
    | (have := ‹∀ u, NoDigit (_ ++ u) → _› _ hN
       simpa [startsWithYear_date] using this)))

/-! ### dates -/

/-- a date whose text does not start with a digit has no year -/
theorem conf_date_from' {k t} (h : Conf g_date_from false k t) :
    ∃ x, k = [x] ∧ Good .date_from buildDateFrom
      (fun d => d.wf = true ∧ ∀ u, NoDigit (t ++ u) → DateSpec.hasYear d = false) x := by
  conf_unfoldk [g_date_from, g_variable_date] at h
  conf_destruct [conf_year_val', conf_month, conf_daynum_val]
  all_goals refine ⟨_, rfl, rfl, ?_⟩
  all_goals build_simp [buildDateFrom, *]
  all_goals repeat safe_bind
  all_goals try simp only [Safe.ok_iff]
  all_goals refine ⟨by simp [DateSpec.wf, optYearOk, yearOk, *], ?_⟩
  all_goals year_side

theorem okDateOffset_noOffset : okDateOffset noOffset = true := by
  simp [okDateOffset, okWdayOffset, noOffset, pos_i64Bound]

theorem conf_date_offset' {k t} (h : Conf g_date_offset false k t) :
    ∃ x, k = [x] ∧ Good .date_offset buildDateOffset (fun d => okDateOffset d = true) x := by
  conf_unfoldk [g_date_offset] at h
  conf_destruct [conf_plus_or_minus, conf_wday, conf_day_offset']
  all_goals refine ⟨_, rfl, rfl, ?_⟩
  all_goals build_simp [buildDateOffset, *]
  all_goals repeat safe_bind
  all_goals try split
  all_goals try simp only [ok_bind]
  all_goals repeat safe_bind
  all_goals simp [okDateOffset, okWdayOffset, pos_i64Bound, *]

theorem okDate_end_of_year : okDate (.fixed none 12 31) = true := by decide
theorem okDate_end_of_time : okDate (.fixed (some 9999) 12 31) = true := by decide

/-- every month-day range the parser builds is `okMonthday`; if its text does not start with a digit,
it does not start with a year -/
theorem conf_monthday_range' {k t} (h : Conf g_monthday_range false k t) :
    ∃ x, k = [x] ∧ Good .monthday_range buildMonthdayRange
      (fun r => okMonthday r = true ∧ ∀ u, NoDigit (t ++ u) → Print.startsWithYear r = false) x := by
  conf_unfoldk [g_monthday_range, g_monthday_range_plus] at h
  conf_destruct [conf_date_from', conf_date_offset', conf_date_to, conf_year_val', conf_month]
  all_goals refine ⟨_, rfl, rfl, ?_⟩
  all_goals build_simp [buildMonthdayRange, *]
  all_goals repeat safe_bind2
  all_goals try split
  all_goals try simp only [ok_bind]
  all_goals try simp only [Safe.ok_iff]
  all_goals refine ⟨by simp [okMonthday, okDate_of_wf, okDateOffset_noOffset, okDate_end_of_year,
    okDate_end_of_time, okYearOpt, *], ?_⟩
  all_goals year_side

theorem conf_monthday_range'' {k t} (h : Conf g_monthday_range false k t) :
    ∃ x, k = [x] ∧ Good .monthday_range buildMonthdayRange (fun r => okMonthday r = true) x := by
  obtain ⟨x, rfl, hx⟩ := conf_monthday_range' h
  exact ⟨x, rfl, hx.1, hx.2.mono (fun _ h => h.1)⟩

theorem conf_monthday_selector' {k t} (h : Conf g_monthday_selector false k t) :
    ∃ x, k = [x] ∧ Good .monthday_selector buildMonthdaySelector
      (fun l => (∀ r ∈ l, okMonthday r = true) ∧
        ∀ u, NoDigit (t ++ u) → ∀ m, l.head? = some m → Print.startsWithYear m = false) x := by
  obtain ⟨k', rfl, hb⟩ := Conf.rule_shape h
  refine ⟨_, rfl, rfl, ?_⟩
  obtain ⟨k1, t1, k2, t2, h1, h2, rfl, rfl⟩ := hb
  obtain ⟨x1, rfl, hx1⟩ := conf_monthday_range' h1
  have hall := starOf_sep (fun _ _ => conf_monthday_range'') h2
  build_simp_only [buildMonthdaySelector]
  rw [List.mapM_cons]
  refine Safe.bind hx1.2 (fun m hm => ?_)
  refine Safe.bind (Safe.mapM k2 (fun y hy => (hall y hy).2)) (fun ms hms => ?_)
  refine Safe.pure ⟨?_, ?_⟩
  · intro r hr
    rcases List.mem_cons.mp hr with rfl | hr
    · exact hm.1
    · exact hms.2 r hr
  · intro u hN m' hm'
    simp only [List.head?_cons, Option.some.injEq] at hm'
    subst hm'
    exact hm.2 (t2 ++ u) (by simpa [List.append_assoc] using hN)

end OH.Proofs.SynClosure
