import OH.Model.Eval
import OH.Model.ParserWF
import OH.Proofs.Calendar
import OH.Proofs.CalendarEval
/-
Layer B of C02/C03/C08/C16 — generalities.

`HintOK f h d`: at day `d` the hint function `h` does not panic, points strictly after `d`, and the
filter `f` keeps its value (as an `M Bool`) on every day from `d` up to the hint (`none` read as
`d + 1`, the iterator's `unwrap_or_else(|| d.succ())`) and before `dateEnd`.
Combination lemmas: lists (`listFilter`/`listHint`) and minima (`optMin`/`hintsMin`).
-/
namespace OH.Model
open OH.Model.Cal

/-- the day the iterator would jump to on hint `h` from day `d` -/
def hintDay (d : Int) : Option Int → Int
  | some x => x
  | none => d + 1

@[simp] theorem hintDay_some (d x : Int) : hintDay d (some x) = x := rfl
@[simp] theorem hintDay_none (d : Int) : hintDay d none = d + 1 := rfl

/-- what one (filter, hint) pair has to guarantee at day `d` -/
structure HintOK (f : Int → M Bool) (h : Int → M (Option Int)) (d : Int) : Prop where
  total : ∃ x, h d = .ok x
  gt : ∀ x, h d = .ok (some x) → d < x
  sound : ∀ x, h d = .ok x → ∀ d', d ≤ d' → d' < hintDay d x → d' < dateEnd → f d' = f d

/-- The holiday calendars of a context as the evaluator needs them: strictly increasing lists of
representable days (what `CompactCalendar` iterates, C15). -/
def CtxWF (ctx : Ctx) : Prop :=
  ctx.pub.Pairwise (· < ·) ∧ ctx.school.Pairwise (· < ·)
    ∧ (∀ x ∈ ctx.pub, minDay ≤ x ∧ x ≤ maxDay) ∧ (∀ x ∈ ctx.school, minDay ≤ x ∧ x ≤ maxDay)

instance (ctx : Ctx) : Decidable (CtxWF ctx) := by unfold CtxWF; infer_instance

/-! ### the `M` monad -/

@[simp] theorem M.bind_ok {α β} (a : α) (f : α → M β) : (Except.ok a >>= f) = f a := rfl
@[simp] theorem M.bind_error {α β} (e : String) (f : α → M β) : ((Except.error e : M α) >>= f) = .error e := rfl
@[simp] theorem M.pure_eq {α} (a : α) : (pure a : M α) = .ok a := rfl

theorem anyM_congr {α} (f g : α → M Bool) (l : List α) (h : ∀ x ∈ l, f x = g x) : anyM f l = anyM g l := by
  induction l with
  | nil => rfl
  | cons x xs ih =>
    simp only [anyM]
    rw [h x (by simp), ih (fun y hy => h y (by simp [hy]))]

theorem listFilter_congr {α} (f g : α → M Bool) (l : List α) (h : ∀ x ∈ l, f x = g x) :
    listFilter f l = listFilter g l := by
  unfold listFilter; rw [anyM_congr f g l h]

theorem anyM_total {α} (f : α → M Bool) (l : List α) (h : ∀ x ∈ l, ∃ b, f x = .ok b) : ∃ b, anyM f l = .ok b := by
  induction l with
  | nil => exact ⟨false, rfl⟩
  | cons x xs ih =>
    obtain ⟨b, hb⟩ := h x (by simp)
    obtain ⟨c, hc⟩ := ih (fun y hy => h y (by simp [hy]))
    simp only [anyM, hb, M.bind_ok]
    cases b
    · exact ⟨c, by simpa using hc⟩
    · exact ⟨true, rfl⟩

theorem listFilter_total {α} (f : α → M Bool) (l : List α) (h : ∀ x ∈ l, ∃ b, f x = .ok b) :
    ∃ b, listFilter f l = .ok b := by
  unfold listFilter
  split
  · exact ⟨true, rfl⟩
  · exact anyM_total f l h

theorem mapM'_total {α β} (f : α → M β) (l : List α) (h : ∀ x ∈ l, ∃ b, f x = .ok b) :
    ∃ ys, mapM' f l = .ok ys ∧ ys.length = l.length ∧ ∀ y ∈ ys, ∃ x ∈ l, f x = .ok y := by
  induction l with
  | nil => exact ⟨[], rfl, rfl, by simp⟩
  | cons x xs ih =>
    obtain ⟨b, hb⟩ := h x (by simp)
    obtain ⟨ys, hys, hl, hm⟩ := ih (fun y hy => h y (by simp [hy]))
    refine ⟨b :: ys, by simp [mapM', hb, hys], by simp [hl], ?_⟩
    intro y hy
    rcases List.mem_cons.1 hy with rfl | hy
    · exact ⟨x, by simp, hb⟩
    · obtain ⟨x', hx', e⟩ := hm y hy
      exact ⟨x', by simp [hx'], e⟩

theorem mapM'_ok_mem {α β} (f : α → M β) (l : List α) (ys : List β) (h : mapM' f l = .ok ys) :
    ∀ x ∈ l, ∃ y ∈ ys, f x = .ok y := by
  induction l generalizing ys with
  | nil => simp
  | cons x xs ih =>
    simp only [mapM'] at h
    cases hx : f x with
    | error e => simp [hx] at h
    | ok b =>
      cases hxs : mapM' f xs with
      | error e => simp [hx, hxs] at h
      | ok bs =>
        simp only [hx, hxs, M.bind_ok, M.pure_eq, Except.ok.injEq] at h
        subst h
        intro z hz
        rcases List.mem_cons.1 hz with rfl | hz
        · exact ⟨b, by simp, hx⟩
        · obtain ⟨y, hy, e⟩ := ih bs hxs z hz
          exact ⟨y, by simp [hy], e⟩

theorem mapM'_ok_length {α β} (f : α → M β) (l : List α) (ys : List β) (h : mapM' f l = .ok ys) :
    ys.length = l.length := by
  induction l generalizing ys with
  | nil => simp [mapM'] at h; subst h; rfl
  | cons x xs ih =>
    simp only [mapM'] at h
    cases hx : f x with
    | error e => simp [hx] at h
    | ok b =>
      cases hxs : mapM' f xs with
      | error e => simp [hx, hxs] at h
      | ok bs =>
        simp only [hx, hxs, M.bind_ok, M.pure_eq, Except.ok.injEq] at h
        subst h
        simp [ih bs hxs]

/-! ### minima of hints -/

/-- all the `some` hints of the list point after `d` -/
def HintsGt (d : Int) (hs : List (Option Int)) : Prop := ∀ x, some x ∈ hs → d < x

theorem hintDay_gt {d : Int} {h : Option Int} (hg : ∀ x, h = some x → d < x) : d < hintDay d h := by
  cases h with
  | none => simp only [hintDay]; omega
  | some x => simpa using hg x rfl

theorem optMin_gt {d : Int} {a b : Option Int} (ha : ∀ x, a = some x → d < x) (hb : ∀ x, b = some x → d < x) :
    ∀ x, optMin a b = some x → d < x := by
  intro x hx
  cases a <;> cases b <;> simp only [optMin, Option.some.injEq, reduceCtorEq] at hx
  subst hx
  have := ha _ rfl; have := hb _ rfl
  omega

theorem hintDay_optMin_le_left {d : Int} {a b : Option Int} (ha : ∀ x, a = some x → d < x) :
    hintDay d (optMin a b) ≤ hintDay d a := by
  cases a <;> cases b <;> simp only [optMin, hintDay]
  · omega
  · omega
  · have := ha _ rfl; omega
  · omega

theorem hintDay_optMin_le_right {d : Int} {a b : Option Int} (hb : ∀ x, b = some x → d < x) :
    hintDay d (optMin a b) ≤ hintDay d b := by
  cases a <;> cases b <;> simp only [optMin, hintDay]
  · omega
  · have := hb _ rfl; omega
  · omega
  · omega

theorem hintsMin_cons (h : Option Int) (hs : List (Option Int)) (hne : hs ≠ []) :
    hintsMin (h :: hs) = optMin h (hintsMin hs) := by
  cases hs with
  | nil => exact absurd rfl hne
  | cons a as => rfl

theorem hintsMin_gt {d : Int} (hd : d < dateEnd) (hs : List (Option Int)) (hg : HintsGt d hs) :
    ∀ x, hintsMin hs = some x → d < x := by
  induction hs with
  | nil => intro x hx; simp only [hintsMin, Option.some.injEq] at hx; omega
  | cons h rest ih =>
    by_cases hne : rest = []
    · subst hne
      intro x hx
      simp only [hintsMin] at hx
      exact hg x (by simp [hx])
    · rw [hintsMin_cons h rest hne]
      exact optMin_gt (fun x hx => hg x (by simp [hx])) (ih (fun x hx => hg x (by simp [hx])))

theorem hintDay_hintsMin_le {d : Int} (hd : d < dateEnd) (hs : List (Option Int)) (hg : HintsGt d hs) :
    ∀ h ∈ hs, hintDay d (hintsMin hs) ≤ hintDay d h := by
  induction hs with
  | nil => simp
  | cons h rest ih =>
    have hg' : HintsGt d rest := fun x hx => hg x (by simp [hx])
    have hh : ∀ x, h = some x → d < x := fun x hx => hg x (by simp [hx])
    by_cases hne : rest = []
    · subst hne
      intro k hk
      simp only [List.mem_singleton] at hk
      subst hk
      simp [hintsMin]
    · rw [hintsMin_cons h rest hne]
      intro k hk
      rcases List.mem_cons.1 hk with rfl | hk
      · exact hintDay_optMin_le_left hh
      · have := ih hg' k hk
        have := hintDay_optMin_le_right (a := h) (hintsMin_gt hd rest hg')
        omega

/-! ### lists of selectors -/

theorem listHintOK {α} (filt : α → Int → M Bool) (hint : α → Int → M (Option Int)) (l : List α) (d : Int)
    (hd : d < dateEnd) (h : ∀ x ∈ l, HintOK (filt x) (hint x) d) :
    HintOK (fun d => listFilter (filt · d) l) (fun d => listHint (hint · d) l) d := by
  obtain ⟨hs, e, _, hm⟩ := mapM'_total (hint · d) l (fun x hx => (h x hx).total)
  have hg : HintsGt d hs := by
    intro x hx
    obtain ⟨a, ha, e'⟩ := hm _ hx
    exact (h a ha).gt x e'
  have hval : listHint (hint · d) l = .ok (hintsMin hs) := by simp [listHint, e]
  refine ⟨⟨_, hval⟩, ?_, ?_⟩
  · intro x hx
    rw [hval] at hx
    exact hintsMin_gt hd hs hg x (by simpa using hx)
  · intro x hx d' h1 h2 h3
    rw [hval] at hx
    simp only [Except.ok.injEq] at hx
    subst hx
    apply listFilter_congr
    intro a ha
    obtain ⟨y, hy, e'⟩ := mapM'_ok_mem _ _ _ e a ha
    have := hintDay_hintsMin_le hd hs hg y hy
    exact (h a ha).sound y e' d' h1 (by omega) h3

/-! ### `intervals_from_bounds`: unfolding lemmas -/

theorem dropWhile_lt_keep (s e : Int) (et : List Int) (h : s ≤ e) :
    (e :: et).dropWhile (· < s) = e :: et := by
  have : decide (e < s) = false := by simp; omega
  simp [List.dropWhile, this]

theorem dropWhile_lt_drop (s e : Int) (et : List Int) (h : e < s) :
    (e :: et).dropWhile (· < s) = et.dropWhile (· < s) := by
  have : decide (e < s) = true := by simp; omega
  simp [List.dropWhile, this]

theorem intervalsGo_cons_nil (s : Int) (ss es : List Int) (h : es.dropWhile (· < s) = []) :
    intervalsGo (s :: ss) es = (s, dateEnd) :: intervalsGo ss [] := by
  rw [intervalsGo]
  split
  · rfl
  · rename_i e et h'; rw [h] at h'; cases h'

theorem intervalsGo_cons_cons (s : Int) (ss es : List Int) (e : Int) (et : List Int)
    (h : es.dropWhile (· < s) = e :: et) :
    intervalsGo (s :: ss) es = if s == e then (s, e) :: intervalsGo ss et else (s, e) :: intervalsGo ss (e :: et) := by
  rw [intervalsGo]
  split
  · rename_i h'; rw [h] at h'; cases h'
  · rename_i e' et' h'; rw [h] at h'; cases h'; rfl

/-- once the starts are used up the stream ends (the ends that are left close nothing) -/
theorem intervalsGo_nil (es : List Int) : intervalsGo [] es = [] := by rw [intervalsGo]

theorem intervalsGo_nil_cons (e : Int) (es : List Int) : intervalsGo [] (e :: es) = [] := intervalsGo_nil _

theorem intervalsGo_nil_nil : intervalsGo [] [] = [] := intervalsGo_nil _

/-! ### `add_days_saturating` is a clamp -/

def clampDay (x : Int) : Int := max minDay (min maxDay x)

theorem addDaysSat_clamp {d n : Int} (h1 : minDay ≤ d) (h2 : d ≤ maxDay) : addDaysSat d n = clampDay (d + n) := by
  have := minDay_eq; have := maxDay_eq
  unfold addDaysSat clampDay
  split
  · split <;> omega
  · cases h : addDays? d n with
    | some r =>
      have := (addDays?_eq_some_iff).1 h
      simp only []; omega
    | none =>
      have := (addDays?_eq_none_iff).1 h
      simp only []
      split <;> omega

theorem addDaysSat_inRange (d n : Int) (h1 : minDay ≤ d) (h2 : d ≤ maxDay) :
    minDay ≤ addDaysSat d n ∧ addDaysSat d n ≤ maxDay := by
  have := minDay_eq; have := maxDay_eq
  rw [addDaysSat_clamp h1 h2]; unfold clampDay; omega

theorem window_inRange' {d : Int} (h1 : dateStart - 1 ≤ d) (h2 : d ≤ dateEnd) : minDay ≤ d ∧ d ≤ maxDay := by
  have := minDay_eq; have := maxDay_eq; have := Cal.dateStart_eq; have := Cal.dateEnd_eq; omega

end OH.Model
