import OH.Proofs.HintSel
import OH.Props.C14
import OH.Proofs.Iter
/-
Layer B, part 1 — the day schedule never panics and tiles the day.

For a parsed expression (`ParserWF`) whose dated ranges are fine (`ExprDatedOK`), `schedule_at(d)`
returns, for EVERY day, a schedule built by `from_ranges` of ranges within 00:00-24:00 and
`addition` — hence well-formed and within 24:00 (C14) — so that `into_iter()` does not hit its
`assert!` and yields a tiling of the day: `daySchedule_ok`.
-/
namespace OH.Model
open OH.Model.Cal OH.Spec.Schedule OH.Props.C14 OH.Proofs.Schedule

/-- every dated range of the expression is fine (see `MdOK`) -/
def ExprDatedOK (e : Expr) : Prop := ∀ r ∈ e, r.day.DatedOK

/-- well-formed and within 24:00 -/
def GoodS (s : Schedule) : Prop := WF s ∧ Within 1440 s

def GoodO (o : Option Schedule) : Prop := ∀ s, o = some s → GoodS s

theorem goodS_nil : GoodS [] := ⟨trivial, fun t ht => by simp at ht⟩

theorem goodS_fromRanges (rs : List (Nat × Nat)) (k : Kind) (c : List String) (h : ∀ r ∈ rs, r.2 ≤ 1440) :
    GoodS (Schedule.fromRanges rs k c) :=
  ⟨fromRanges_wf rs k c, fromRanges_within 1440 rs k c h⟩

theorem goodS_addition {a b : Schedule} (ha : GoodS a) (hb : GoodS b) : GoodS (Schedule.addition a b) :=
  ⟨addition_wf a b ha.1 hb.1, addition_within 1440 a b ha.1 hb.1 ha.2 hb.2⟩

theorem goodO_getD {o : Option Schedule} (h : GoodO o) : GoodS (o.getD []) := by
  cases o with
  | none => exact goodS_nil
  | some s => exact h s rfl

/-! ### time spans -/

/-- `TimeSpan::as_naive` never fails -/
def spanOf (ctx : Ctx) (d : Int) (t : TimeSpan) : Nat × Nat :=
  let s := t.start.asNaive ctx d
  let e := t.stop.asNaive ctx d
  if s < e then (s, e) else (s, max s (if e + 1440 > 2880 then 2880 else e + 1440))

theorem asNaive_eq (ctx : Ctx) (d : Int) (t : TimeSpan) : t.asNaive ctx d = .ok (spanOf ctx d t) := by
  unfold TimeSpan.asNaive spanOf
  simp only []
  split <;> rfl

theorem mapM'_pure {α β} (f : α → M β) (g : α → β) (l : List α) (h : ∀ x ∈ l, f x = .ok (g x)) :
    mapM' f l = .ok (l.map g) := by
  induction l with
  | nil => rfl
  | cons x xs ih =>
    simp only [mapM', h x (by simp), ih (fun y hy => h y (by simp [hy])), M.bind_ok, M.pure_eq, List.map_cons]

theorem spans_eq (ctx : Ctx) (ts : List TimeSpan) (d : Int) :
    mapM' (·.asNaive ctx d) ts = .ok (ts.map (spanOf ctx d)) :=
  mapM'_pure _ _ _ (fun t _ => asNaive_eq ctx d t)

theorem rangesUnionLoop_snd (cur : Nat × Nat) (rest : List (Nat × Nat)) :
    ∀ x ∈ rangesUnionLoop cur rest, ∃ y ∈ cur :: rest, x.2 = y.2 := by
  fun_induction rangesUnionLoop cur rest <;> grind

theorem rangesUnion_snd_le (lim : Nat) (rs : List (Nat × Nat)) (h : ∀ r ∈ rs, r.2 ≤ lim) :
    ∀ x ∈ rangesUnion rs, x.2 ≤ lim := by
  have hm : ∀ u, u ∈ sortPairs rs ↔ u ∈ rs := fun u => mem_sortPairs u rs
  unfold rangesUnion
  split
  · simp
  · rename_i cur rest hc
    rw [hc] at hm
    intro x hx
    obtain ⟨y, hy, e⟩ := rangesUnionLoop_snd cur rest x hx
    rw [e]; exact h y ((hm y).1 hy)

theorem intervalsAt_eq (ctx : Ctx) (ts : List TimeSpan) (d : Int) :
    intervalsAt ctx ts d
      = .ok (rangesUnion ((ts.map (spanOf ctx d)).filterMap (fun r => rangeIntersection r (0, 1440)))) := by
  simp [intervalsAt, spans_eq]

theorem intervalsAtNextDay_eq (ctx : Ctx) (ts : List TimeSpan) (d : Int) :
    intervalsAtNextDay ctx ts d
      = .ok (rangesUnion (((ts.map (spanOf ctx d)).filterMap (fun r => rangeIntersection r (1440, 2880))).map
          (fun r => (r.1 - 1440, r.2 - 1440)))) := by
  simp [intervalsAtNextDay, spans_eq]

theorem intervalsAt_le (ctx : Ctx) (ts : List TimeSpan) (d : Int) :
    ∀ x ∈ rangesUnion ((ts.map (spanOf ctx d)).filterMap (fun r => rangeIntersection r (0, 1440))), x.2 ≤ 1440 := by
  apply rangesUnion_snd_le
  intro r hr
  rw [List.mem_filterMap] at hr
  obtain ⟨a, _, ha⟩ := hr
  unfold rangeIntersection at ha
  simp only [] at ha
  split at ha
  · cases ha; simp only []; omega
  · cases ha

theorem intervalsAtNextDay_le (ctx : Ctx) (ts : List TimeSpan) (d : Int) :
    ∀ x ∈ rangesUnion (((ts.map (spanOf ctx d)).filterMap (fun r => rangeIntersection r (1440, 2880))).map
          (fun r => (r.1 - 1440, r.2 - 1440))), x.2 ≤ 1440 := by
  apply rangesUnion_snd_le
  intro r hr
  rw [List.mem_map] at hr
  obtain ⟨b, hb, rfl⟩ := hr
  rw [List.mem_filterMap] at hb
  obtain ⟨a, _, ha⟩ := hb
  unfold rangeIntersection at ha
  simp only [] at ha
  split at ha
  · cases ha; simp only []; omega
  · cases ha

/-! ### one rule -/

/-- what `rule_sequence_schedule_at` returns, given the two filter values -/
def ruleSchedOf (ctx : Ctx) (r : Rule) (d : Int) (today yesterday : Bool) : Option Schedule :=
  let a := Schedule.fromRanges (rangesUnion ((r.time.map (spanOf ctx d)).filterMap (fun r => rangeIntersection r (0, 1440))))
    r.kind r.comments
  let b := Schedule.fromRanges (rangesUnion (((r.time.map (spanOf ctx (d - 1))).filterMap
    (fun r => rangeIntersection r (1440, 2880))).map (fun r => (r.1 - 1440, r.2 - 1440)))) r.kind r.comments
  match today, yesterday with
  | true, true => some (a.addition b)
  | true, false => some a
  | false, true => some b
  | false, false => none

theorem ruleScheduleAt_eq (ctx : Ctx) (r : Rule) (d : Int) (hd : minDay < d) (t y : Bool)
    (ht : r.day.filter ctx d = .ok t) (hy : r.day.filter ctx (d - 1) = .ok y) :
    ruleScheduleAt ctx r d = .ok (ruleSchedOf ctx r d t y) := by
  have hp : pred? d = some (d - 1) := by simp [pred?, hd]
  unfold ruleScheduleAt ruleSchedOf
  simp only [ht, hp, hy, M.bind_ok, intervalsAt_eq, intervalsAtNextDay_eq]
  cases t <;> cases y <;> rfl

theorem ruleSchedOf_good (ctx : Ctx) (r : Rule) (d : Int) (t y : Bool) : GoodO (ruleSchedOf ctx r d t y) := by
  have ga := goodS_fromRanges _ r.kind r.comments (intervalsAt_le ctx r.time d)
  have gb := goodS_fromRanges _ r.kind r.comments (intervalsAtNextDay_le ctx r.time (d - 1))
  intro s hs
  unfold ruleSchedOf at hs
  cases t <;> cases y <;> simp only [Option.some.injEq, reduceCtorEq] at hs <;> subst hs
  · exact gb
  · exact ga
  · exact goodS_addition ga gb

/-! ### the loop body -/

/-- `match (prev_eval, curr_eval) { (Some(p), Some(c)) => Some(p.addition(c)), (p, c) => p.or(c) }` -/
def combine : Option Schedule → Option Schedule → Option Schedule
  | some p, some c => some (p.addition c)
  | some p, none => some p
  | none, c => c

/-- the evaluation part of `scheduleStep`, as a pure function of the rule's match and evaluation -/
def stepEval (r : Rule) (prevEval : Option Schedule) (currMatch : Bool) (currEval : Option Schedule) : Option Schedule :=
  match r.op, r.kind with
  | .normal, .open | .normal, .unknown => if currMatch then currEval else combine prevEval currEval
  | .additional, _ | .normal, .closed => combine prevEval currEval
  | .fallback, _ => if Schedule.isAlwaysClosed (prevEval.getD []) then currEval else prevEval

theorem isAlwaysClosed_getD (pe : Option Schedule) :
    (pe.map Schedule.isAlwaysClosed).getD true = Schedule.isAlwaysClosed (pe.getD []) := by
  cases pe <;> rfl

theorem scheduleStep_eq (ctx : Ctx) (d : Int) (r : Rule) (pm : Bool) (pe : Option Schedule) (cm : Bool) (ce : Option Schedule)
    (hm : r.day.filter ctx d = .ok cm) (he : ruleScheduleAt ctx r d = .ok ce) :
    ∃ m, scheduleStep ctx d (pm, pe) r = .ok (m, stepEval r pe cm ce) := by
  unfold scheduleStep stepEval
  simp only [hm, he, M.bind_ok, isAlwaysClosed_getD]
  cases r.op <;> cases r.kind <;> simp only [M.pure_eq] <;>
    first
    | (cases pe <;> cases ce <;> cases cm <;> exact ⟨_, rfl⟩)
    | (cases Schedule.isAlwaysClosed (pe.getD []) <;> exact ⟨_, rfl⟩)

theorem goodO_combine {p c : Option Schedule} (hp : GoodO p) (hc : GoodO c) : GoodO (combine p c) := by
  cases p with
  | none => cases c <;> simpa [combine] using hc
  | some p =>
    cases c with
    | none => simpa [combine] using hp
    | some c =>
      intro s hs
      simp only [combine, Option.some.injEq] at hs
      subst hs
      exact goodS_addition (hp p rfl) (hc c rfl)

theorem stepEval_good (r : Rule) (pe : Option Schedule) (cm : Bool) (ce : Option Schedule) (hp : GoodO pe) (hc : GoodO ce) :
    GoodO (stepEval r pe cm ce) := by
  unfold stepEval
  have := goodO_combine hp hc
  cases r.op <;> cases r.kind <;> simp only [] <;> (try split) <;> assumption

/-! ### the day -/

theorem Rule.filter_total (ctx : Ctx) (r : Rule) (hw : r.wf = true) (hd : r.day.DatedOK) (d : Int) :
    ∃ b, r.day.filter ctx d = .ok b := by
  simp only [Rule.wf, Bool.and_eq_true] at hw
  exact r.day.filter_total ctx hw.1.1 hd d

theorem foldM'_sched (ctx : Ctx) (d : Int) (hd : minDay < d) (e : Expr) (hw : ∀ r ∈ e, r.wf = true) (hdt : ExprDatedOK e)
    (st : Bool × Option Schedule) (hs : GoodO st.2) :
    ∃ st', foldM' (scheduleStep ctx d) st e = .ok st' ∧ GoodO st'.2 := by
  induction e generalizing st with
  | nil => exact ⟨st, rfl, hs⟩
  | cons r rs ih =>
    obtain ⟨t, ht⟩ := r.filter_total ctx (hw r (by simp)) (hdt r (by simp)) d
    obtain ⟨y, hy⟩ := r.filter_total ctx (hw r (by simp)) (hdt r (by simp)) (d - 1)
    have he := ruleScheduleAt_eq ctx r d hd t y ht hy
    obtain ⟨m, hm⟩ := scheduleStep_eq ctx d r st.1 st.2 t _ ht he
    have hg := stepEval_good r st.2 t _ hs (ruleSchedOf_good ctx r d t y)
    obtain ⟨st', h1, h2⟩ := ih (fun x hx => hw x (by simp [hx])) (fun x hx => hdt x (by simp [hx])) (m, _) hg
    refine ⟨st', ?_, h2⟩
    simp only [foldM']
    rw [show st = (st.1, st.2) from rfl, hm]
    exact h1

theorem parserWF_rules {e : Expr} (h : ParserWF e = true) : ∀ r ∈ e, r.wf = true := by
  simp only [ParserWF, Bool.and_eq_true, List.all_eq_true] at h
  exact h.1.2

/-- `schedule_at` never panics and returns a well-formed schedule within 24:00 -/
theorem scheduleAt_ok (ctx : Ctx) (e : Expr) (hw : ParserWF e = true) (hdt : ExprDatedOK e) (d : Int) :
    ∃ s, scheduleAt ctx e d = .ok s ∧ GoodS s := by
  unfold scheduleAt
  by_cases hwin : dateStart ≤ d ∧ d < dateEnd
  · have hmin := minDay_eq
    have hds := Cal.dateStart_eq
    obtain ⟨st', h1, h2⟩ := foldM'_sched ctx d (by omega) e (parserWF_rules hw) hdt (false, none) (by intro s hs; cases hs)
    simp only [hwin, and_self, not_true_eq_false, Bool.false_eq_true, if_false, decide_true, Bool.not_true, h1, M.bind_ok]
    exact ⟨_, rfl, goodO_getD h2⟩
  · simp only [hwin, decide_false, Bool.not_false, if_true]
    exact ⟨_, rfl, goodS_nil⟩

theorem tiles_iff_tilesFrom (l : List TimeRange) (a : Nat) : Tiles l a 1440 ↔ TilesFrom a l := by
  induction l generalizing a with
  | nil => simp [Tiles, TilesFrom]
  | cons t ts ih => simp only [Tiles, TilesFrom, ih]

/-- PART 1: for every day, the day schedule is produced without panic and tiles 00:00-24:00 -/
theorem daySchedule_ok (ctx : Ctx) (e : Expr) (hw : ParserWF e = true) (hdt : ExprDatedOK e) (d : Int) :
    ∃ s, scheduleAt ctx e d = .ok s ∧ GoodS s ∧ daySchedule ctx e d = .ok (Schedule.iter s)
      ∧ TilesFrom 0 (Schedule.iter s) := by
  obtain ⟨s, h1, h2⟩ := scheduleAt_ok ctx e hw hdt d
  refine ⟨s, h1, h2, ?_, ?_⟩
  · unfold daySchedule
    simp only [h1, iter_no_panic s h2.1, Bool.false_eq_true, if_false]
  · rw [← tiles_iff_tilesFrom]
    exact iter_tiling s h2.1 h2.2

end OH.Model
