import OH.Model.Calendar
/-
Theory of the calendar model (`OH.Model.Cal`): the shared foundation of the evaluator proofs.
Core-only; every proof is `omega` after explicit case splits (on `y % 4`, `y % 100`, `y % 400`,
on the leap flag and on the 12 months).

Normal forms used throughout (so that `omega` can work with the atoms `yearStart y`):
* `year d = y` is characterised by the bracket `yearStart y < d ∧ d ≤ yearStart (y + 1)` (`year_eq_iff`),
* `ymdRaw y m dd` unfolds to `yearStart y + monthStart (isLeap y) m + dd`,
* `yearStart (y + 1) = yearStart y + yearLen y` and `yearLen y` is 365 or 366,
* ISO weeks: `isoYear d = y ↔ isoYearStart y ≤ d ∧ d < isoYearStart (y + 1)` where `isoYearStart y`
  is the Monday of ISO week 1 of `y`, and `isoYearStart (y + 1) = isoYearStart y + 7 * isoWeeksInYear y`.
-/
namespace OH.Model.Cal

/-! ## Years -/

theorem yearLen_eq (y : Int) :
    yearLen y = 365 + (if y % 4 = 0 then 1 else 0) - (if y % 100 = 0 then 1 else 0)
      + (if y % 400 = 0 then 1 else 0) := by
  unfold yearLen isLeap
  by_cases h4 : y % 4 = 0 <;> by_cases h100 : y % 100 = 0 <;> by_cases h400 : y % 400 = 0 <;>
    simp [h4, h100, h400] <;> omega

theorem yearLen_cases (y : Int) : yearLen y = 365 ∨ yearLen y = 366 := by
  unfold yearLen; split <;> simp

theorem yearLen_of_leap {y : Int} (h : isLeap y = true) : yearLen y = 366 := by
  simp [yearLen, h]

theorem yearLen_of_not_leap {y : Int} (h : isLeap y = false) : yearLen y = 365 := by
  simp [yearLen, h]

theorem yearLen_eq_ite (y : Int) : yearLen y = if isLeap y = true then 366 else 365 := rfl

theorem isLeap_iff (y : Int) : isLeap y = true ↔ y % 4 = 0 ∧ (y % 100 ≠ 0 ∨ y % 400 = 0) := by
  simp [isLeap]

theorem yearStart_succ (y : Int) : yearStart (y + 1) = yearStart y + yearLen y := by
  rw [yearLen_eq]
  unfold yearStart
  by_cases h4 : y % 4 = 0 <;> by_cases h100 : y % 100 = 0 <;> by_cases h400 : y % 400 = 0 <;>
    simp only [h4, h100, h400, if_true, if_false] <;> omega

theorem yearStart_pred (y : Int) : yearStart (y - 1) = yearStart y - yearLen (y - 1) := by
  have := yearStart_succ (y - 1)
  rw [show y - 1 + 1 = y by omega] at this
  omega

/-- strict monotonicity of `yearStart` -/
theorem yearStart_lt {a b : Int} (h : a < b) : yearStart a < yearStart b := by
  unfold yearStart; omega

theorem yearStart_le {a b : Int} (h : a ≤ b) : yearStart a ≤ yearStart b := by
  unfold yearStart; omega

theorem yearStart_lt_iff {a b : Int} : yearStart a < yearStart b ↔ a < b := by
  constructor
  · intro h
    by_cases hc : b ≤ a
    · have := yearStart_le hc; omega
    · omega
  · exact yearStart_lt

theorem yearStart_le_iff {a b : Int} : yearStart a ≤ yearStart b ↔ a ≤ b := by
  constructor
  · intro h
    by_cases hc : b < a
    · have := yearStart_lt hc; omega
    · omega
  · exact yearStart_le

theorem yearStart_inj {a b : Int} (h : yearStart a = yearStart b) : a = b := by
  have h1 := (yearStart_le_iff (a := a) (b := b)).1 (by omega)
  have h2 := (yearStart_le_iff (a := b) (b := a)).1 (by omega)
  omega

/-- a year has at least 365 days: lower bound on the distance between two year starts -/
theorem yearStart_add_le (a : Int) (n : Nat) :
    yearStart a + 365 * n ≤ yearStart (a + n) ∧ yearStart (a + n) ≤ yearStart a + 366 * n := by
  induction n with
  | zero => simp
  | succ k ih =>
    have e : a + ((k + 1 : Nat) : Int) = a + k + 1 := by omega
    rw [e, yearStart_succ]
    have := yearLen_cases (a + k)
    omega

theorem yearStart_one : yearStart 1 = 0 := by decide

theorem findYear_spec (z : Int) : ∀ (fuel : Nat) (y : Int), z < yearStart (y + 1) →
    yearStart (y - fuel) ≤ z →
    yearStart (findYear z fuel y) ≤ z ∧ z < yearStart (findYear z fuel y + 1) := by
  intro fuel
  induction fuel with
  | zero =>
    intro y h1 h2
    simp only [findYear]
    simp at h2
    exact ⟨h2, h1⟩
  | succ n ih =>
    intro y h1 h2
    simp only [findYear]
    split
    · exact ⟨by assumption, h1⟩
    · apply ih (y - 1)
      · rw [show y - 1 + 1 = y by omega]; omega
      · rw [show y - 1 - (n : Int) = y - ((n + 1 : Nat) : Int) by omega]; exact h2

theorem yearLow_le_yearHigh (z : Int) : yearLow z ≤ yearHigh z := by
  unfold yearLow yearHigh; split <;> omega

theorem lt_yearStart_yearHigh (z : Int) : z < yearStart (yearHigh z + 1) := by
  unfold yearHigh yearStart; split <;> omega

theorem yearStart_yearLow_le (z : Int) : yearStart (yearLow z) ≤ z := by
  unfold yearLow yearStart; split <;> omega

theorem yearOfIdx_spec (z : Int) :
    yearStart (yearOfIdx z) ≤ z ∧ z < yearStart (yearOfIdx z + 1) := by
  unfold yearOfIdx
  apply findYear_spec
  · exact lt_yearStart_yearHigh z
  · have := yearLow_le_yearHigh z
    rw [Int.toNat_of_nonneg (by omega)]
    rw [show yearHigh z - (yearHigh z - yearLow z) = yearLow z by omega]
    exact yearStart_yearLow_le z

/-- the year of a day brackets it, for ALL days (no range restriction) -/
theorem year_spec (d : Int) : yearStart (year d) ≤ d - 1 ∧ d - 1 < yearStart (year d + 1) :=
  yearOfIdx_spec (d - 1)

/-- the same bracket in the form `omega` likes best -/
theorem year_bounds (d : Int) : yearStart (year d) < d ∧ d ≤ yearStart (year d) + yearLen (year d) := by
  have := year_spec d
  rw [yearStart_succ] at this
  omega

/-- uniqueness: the year of a day is determined by the bracket -/
theorem year_unique {d y : Int} (h1 : yearStart y ≤ d - 1) (h2 : d - 1 < yearStart (y + 1)) :
    year d = y := by
  obtain ⟨a, b⟩ := year_spec d
  by_cases h : year d < y
  · have := yearStart_le (a := year d + 1) (b := y) (by omega); omega
  · by_cases h' : y < year d
    · have := yearStart_le (a := y + 1) (b := year d) (by omega); omega
    · omega

theorem year_eq_iff {d y : Int} : year d = y ↔ yearStart y < d ∧ d ≤ yearStart (y + 1) := by
  constructor
  · intro h; subst h; have := year_spec d; omega
  · intro ⟨a, b⟩; exact year_unique (by omega) (by omega)

theorem year_eq_iff' {d y : Int} : year d = y ↔ yearStart y < d ∧ d ≤ yearStart y + yearLen y := by
  rw [year_eq_iff, yearStart_succ]

/-- the year is monotone in the day -/
theorem year_mono {a b : Int} (h : a ≤ b) : year a ≤ year b := by
  obtain ⟨a1, a2⟩ := year_spec a
  obtain ⟨b1, b2⟩ := year_spec b
  by_cases hlt : year b < year a
  · have := yearStart_le (a := year b + 1) (b := year a) (by omega); omega
  · omega

/-- `d ≤ yearStart y` iff the year of `d` is before `y` -/
theorem le_yearStart_iff {d y : Int} : d ≤ yearStart y ↔ year d < y := by
  obtain ⟨a1, a2⟩ := year_spec d
  constructor
  · intro h
    by_cases hc : y ≤ year d
    · have := yearStart_le hc; omega
    · omega
  · intro h
    have := yearStart_le (a := year d + 1) (b := y) (by omega); omega

theorem yearStart_lt_iff_le_year {d y : Int} : yearStart y < d ↔ y ≤ year d := by
  have := le_yearStart_iff (d := d) (y := y)
  omega

/-! ## Months and days -/

theorem ordinal0_bounds (d : Int) : 0 ≤ ordinal0 d ∧ ordinal0 d < yearLen (year d) := by
  have := year_bounds d
  unfold ordinal0; omega

@[simp] theorem monthStart_one (leap : Bool) : monthStart leap 1 = 0 := rfl

@[simp] theorem monthStart_13 (y : Int) : monthStart (isLeap y) 13 = yearLen y := rfl

/-- the table `monthStart` is the running sum of `daysInMonth` -/
theorem monthStart_succ (y : Int) (m : Nat) (h1 : 1 ≤ m) (h2 : m ≤ 12) :
    monthStart (isLeap y) (m + 1) = monthStart (isLeap y) m + daysInMonth y m := by
  have : m = 1 ∨ m = 2 ∨ m = 3 ∨ m = 4 ∨ m = 5 ∨ m = 6 ∨ m = 7 ∨ m = 8 ∨ m = 9 ∨ m = 10 ∨ m = 11 ∨ m = 12 := by
    omega
  rcases this with h | h | h | h | h | h | h | h | h | h | h | h <;> subst h <;>
    cases hl : isLeap y <;> simp [monthStart, daysInMonth, hl]

theorem daysInMonth_bounds (y : Int) (m : Nat) : 28 ≤ daysInMonth y m ∧ daysInMonth y m ≤ 31 := by
  unfold daysInMonth; split <;> (try split) <;> omega

theorem daysInMonth_pos (y : Int) (m : Nat) : 1 ≤ daysInMonth y m := by
  have := daysInMonth_bounds y m; omega

theorem monthStart_nonneg (leap : Bool) (m : Nat) : 0 ≤ monthStart leap m := by
  unfold monthStart; split <;> (try split) <;> omega

/-- strict monotonicity of the table (each month has at least 28 days) -/
theorem monthStart_add (y : Int) (m : Nat) (h1 : 1 ≤ m) (k : Nat) (h2 : m + k ≤ 13) :
    monthStart (isLeap y) m + 28 * k ≤ monthStart (isLeap y) (m + k) := by
  induction k with
  | zero => simp
  | succ n ih =>
    have := ih (by omega)
    have e := monthStart_succ y (m + n) (by omega) (by omega)
    have := daysInMonth_bounds y (m + n)
    rw [show m + (n + 1) = m + n + 1 by omega, e]
    omega

theorem monthStart_lt {y : Int} {m m' : Nat} (h1 : 1 ≤ m) (h : m < m') (h2 : m' ≤ 13) :
    monthStart (isLeap y) m + daysInMonth y m ≤ monthStart (isLeap y) m' := by
  have := monthStart_add y (m + 1) (by omega) (m' - (m + 1)) (by omega)
  rw [show m + 1 + (m' - (m + 1)) = m' by omega, monthStart_succ y m h1 (by omega)] at this
  omega

theorem monthStart_le {y : Int} {m m' : Nat} (h1 : 1 ≤ m) (h : m ≤ m') (h2 : m' ≤ 13) :
    monthStart (isLeap y) m ≤ monthStart (isLeap y) m' := by
  have := monthStart_add y m h1 (m' - m) (by omega)
  rw [show m + (m' - m) = m' by omega] at this
  omega

theorem monthStart_succ_le_yearLen (y : Int) (m : Nat) (h1 : 1 ≤ m) (h2 : m ≤ 12) :
    monthStart (isLeap y) m + daysInMonth y m ≤ yearLen y := by
  rw [← monthStart_13]; exact monthStart_lt h1 (by omega) (by omega)

theorem monthStart_step (leap : Bool) (n : Nat) : monthStart leap n ≤ monthStart leap (n + 1) := by
  match n with
  | 0 | 1 | 2 | 3 | 4 | 5 | 6 | 7 | 8 | 9 | 10 | 11 | 12 => cases leap <;> decide
  | k + 13 => simp [monthStart]

theorem monthStart_mono (leap : Bool) {a b : Nat} (h : a ≤ b) : monthStart leap a ≤ monthStart leap b := by
  induction b with
  | zero => rw [show a = 0 by omega]; exact Int.le_refl _
  | succ n ih =>
    by_cases hc : a ≤ n
    · have := ih hc
      have := monthStart_step leap n
      omega
    · rw [show a = n + 1 by omega]; exact Int.le_refl _

theorem monthOfOrd_spec (leap : Bool) (o : Int) (h0 : 0 ≤ o) (h1 : o < monthStart leap 13) :
    1 ≤ monthOfOrd leap o ∧ monthOfOrd leap o ≤ 12 ∧ monthStart leap (monthOfOrd leap o) ≤ o ∧
      o < monthStart leap (monthOfOrd leap o + 1) := by
  unfold monthOfOrd
  by_cases c2 : o < monthStart leap 2
  · rw [if_pos c2]; exact ⟨by omega, by omega, by rw [monthStart_one]; exact h0, c2⟩
  rw [if_neg c2]
  by_cases c3 : o < monthStart leap 3
  · rw [if_pos c3]; exact ⟨by omega, by omega, by omega, c3⟩
  rw [if_neg c3]
  by_cases c4 : o < monthStart leap 4
  · rw [if_pos c4]; exact ⟨by omega, by omega, by omega, c4⟩
  rw [if_neg c4]
  by_cases c5 : o < monthStart leap 5
  · rw [if_pos c5]; exact ⟨by omega, by omega, by omega, c5⟩
  rw [if_neg c5]
  by_cases c6 : o < monthStart leap 6
  · rw [if_pos c6]; exact ⟨by omega, by omega, by omega, c6⟩
  rw [if_neg c6]
  by_cases c7 : o < monthStart leap 7
  · rw [if_pos c7]; exact ⟨by omega, by omega, by omega, c7⟩
  rw [if_neg c7]
  by_cases c8 : o < monthStart leap 8
  · rw [if_pos c8]; exact ⟨by omega, by omega, by omega, c8⟩
  rw [if_neg c8]
  by_cases c9 : o < monthStart leap 9
  · rw [if_pos c9]; exact ⟨by omega, by omega, by omega, c9⟩
  rw [if_neg c9]
  by_cases c10 : o < monthStart leap 10
  · rw [if_pos c10]; exact ⟨by omega, by omega, by omega, c10⟩
  rw [if_neg c10]
  by_cases c11 : o < monthStart leap 11
  · rw [if_pos c11]; exact ⟨by omega, by omega, by omega, c11⟩
  rw [if_neg c11]
  by_cases c12 : o < monthStart leap 12
  · rw [if_pos c12]; exact ⟨by omega, by omega, by omega, c12⟩
  rw [if_neg c12]
  exact ⟨by omega, by omega, by omega, h1⟩

theorem monthOfOrd_unique (leap : Bool) (o : Int) (m : Nat) (h1 : 1 ≤ m) (h2 : m ≤ 12)
    (h3 : monthStart leap m ≤ o) (h4 : o < monthStart leap (m + 1)) : monthOfOrd leap o = m := by
  have h0 : 0 ≤ o := by have := monthStart_nonneg leap m; omega
  have h13 : o < monthStart leap 13 := by
    have := monthStart_mono leap (a := m + 1) (b := 13) (by omega); omega
  obtain ⟨a, b, c, d⟩ := monthOfOrd_spec leap o h0 h13
  by_cases hlt : monthOfOrd leap o < m
  · have := monthStart_mono leap (a := monthOfOrd leap o + 1) (b := m) (by omega); omega
  · by_cases hgt : m < monthOfOrd leap o
    · have := monthStart_mono leap (a := m + 1) (b := monthOfOrd leap o) (by omega); omega
    · omega

/-- the month of a day brackets its ordinal -/
theorem month_spec (d : Int) :
    1 ≤ month d ∧ month d ≤ 12 ∧ monthStart (isLeap (year d)) (month d) ≤ ordinal0 d ∧
      ordinal0 d < monthStart (isLeap (year d)) (month d) + daysInMonth (year d) (month d) := by
  have hb := ordinal0_bounds d
  have := monthOfOrd_spec (isLeap (year d)) (ordinal0 d) hb.1 (by rw [monthStart_13]; exact hb.2)
  rw [show monthOfOrd (isLeap (year d)) (ordinal0 d) = month d from rfl] at this
  rw [monthStart_succ _ _ this.1 this.2.1] at this
  exact this

theorem month_bounds (d : Int) : 1 ≤ month d ∧ month d ≤ 12 :=
  ⟨(month_spec d).1, (month_spec d).2.1⟩

theorem dayOfMonth_eq (d : Int) :
    (dayOfMonth d : Int) = ordinal0 d - monthStart (isLeap (year d)) (month d) + 1 := by
  have := month_spec d
  unfold dayOfMonth
  rw [Int.toNat_of_nonneg (by omega)]

theorem dayOfMonth_bounds (d : Int) : 1 ≤ dayOfMonth d ∧ dayOfMonth d ≤ daysInMonth (year d) (month d) := by
  have := month_spec d
  have := dayOfMonth_eq d
  omega

/-- civil round trip: a day is the day number of its (year, month, day) -/
@[simp] theorem ymdRaw_civil (d : Int) : ymdRaw (year d) (month d) (dayOfMonth d) = d := by
  have := dayOfMonth_eq d
  unfold ymdRaw
  unfold ordinal0 at this
  omega

theorem ofYmd?_civil (d : Int) (h1 : minYear ≤ year d) (h2 : year d ≤ maxYear) :
    ofYmd? (year d) (month d) (dayOfMonth d) = some d := by
  have := month_bounds d
  have := dayOfMonth_bounds d
  unfold ofYmd?
  rw [if_pos (by omega), ymdRaw_civil]

/-- validity of a (year, month, day) triple, without chrono's year range -/
def ValidYmd (y : Int) (m dd : Nat) : Prop := 1 ≤ m ∧ m ≤ 12 ∧ 1 ≤ dd ∧ dd ≤ daysInMonth y m

instance (y : Int) (m dd : Nat) : Decidable (ValidYmd y m dd) := by unfold ValidYmd; infer_instance

theorem validYmd_civil (d : Int) : ValidYmd (year d) (month d) (dayOfMonth d) := by
  have := month_bounds d
  have := dayOfMonth_bounds d
  unfold ValidYmd; omega

theorem ymdRaw_bounds {y : Int} {m dd : Nat} (h : ValidYmd y m dd) :
    yearStart y < ymdRaw y m dd ∧ ymdRaw y m dd ≤ yearStart y + yearLen y := by
  obtain ⟨h1, h2, h3, h4⟩ := h
  have := monthStart_succ_le_yearLen y m h1 h2
  have := monthStart_nonneg (isLeap y) m
  unfold ymdRaw; omega

theorem year_ymdRaw {y : Int} {m dd : Nat} (h : ValidYmd y m dd) : year (ymdRaw y m dd) = y := by
  have := ymdRaw_bounds h
  rw [year_eq_iff']; omega

theorem ordinal0_ymdRaw {y : Int} {m dd : Nat} (h : ValidYmd y m dd) :
    ordinal0 (ymdRaw y m dd) = monthStart (isLeap y) m + dd - 1 := by
  unfold ordinal0
  rw [year_ymdRaw h]
  unfold ymdRaw; omega

theorem month_ymdRaw {y : Int} {m dd : Nat} (h : ValidYmd y m dd) : month (ymdRaw y m dd) = m := by
  unfold month
  rw [ordinal0_ymdRaw h, year_ymdRaw h]
  obtain ⟨h1, h2, h3, h4⟩ := h
  apply monthOfOrd_unique _ _ _ h1 h2
  · omega
  · rw [monthStart_succ y m h1 h2]; omega

theorem dayOfMonth_ymdRaw {y : Int} {m dd : Nat} (h : ValidYmd y m dd) : dayOfMonth (ymdRaw y m dd) = dd := by
  have := dayOfMonth_eq (ymdRaw y m dd)
  rw [ordinal0_ymdRaw h, year_ymdRaw h, month_ymdRaw h] at this
  omega

theorem ofYmd?_eq_some_iff {y : Int} {m dd : Nat} {d : Int} :
    ofYmd? y m dd = some d ↔
      minYear ≤ y ∧ y ≤ maxYear ∧ ValidYmd y m dd ∧ d = ymdRaw y m dd := by
  unfold ofYmd? ValidYmd
  split
  · simp only [Option.some.injEq]; constructor
    · intro h; subst h; omega
    · intro h; omega
  · constructor
    · intro h; cases h
    · intro h; omega

theorem ofYmd?_eq_none_iff {y : Int} {m dd : Nat} :
    ofYmd? y m dd = none ↔ ¬ (minYear ≤ y ∧ y ≤ maxYear ∧ ValidYmd y m dd) := by
  unfold ofYmd? ValidYmd
  split
  · simp; omega
  · simp; omega

theorem ofYmd?_of_valid {y : Int} {m dd : Nat} (h1 : minYear ≤ y) (h2 : y ≤ maxYear) (v : ValidYmd y m dd) :
    ofYmd? y m dd = some (ymdRaw y m dd) :=
  ofYmd?_eq_some_iff.2 ⟨h1, h2, v, rfl⟩

/-- converse round trip: the civil fields of a date built by `from_ymd_opt` -/
theorem civil_of_ofYmd? {y : Int} {m dd : Nat} {d : Int} (h : ofYmd? y m dd = some d) :
    year d = y ∧ month d = m ∧ dayOfMonth d = dd := by
  obtain ⟨_, _, hv, rfl⟩ := ofYmd?_eq_some_iff.1 h
  exact ⟨year_ymdRaw hv, month_ymdRaw hv, dayOfMonth_ymdRaw hv⟩

/-- `ofYmd?` is injective on its successes and inverse to the civil fields -/
theorem ofYmd?_eq_some_iff_civil {y : Int} {m dd : Nat} {d : Int} :
    ofYmd? y m dd = some d ↔
      minYear ≤ y ∧ y ≤ maxYear ∧ year d = y ∧ month d = m ∧ dayOfMonth d = dd := by
  constructor
  · intro h
    have := civil_of_ofYmd? h
    obtain ⟨a, b, _, _⟩ := ofYmd?_eq_some_iff.1 h
    exact ⟨a, b, this⟩
  · rintro ⟨a, b, rfl, rfl, rfl⟩
    exact ofYmd?_civil d a b

/-- lexicographic order on (year, month, day) -/
def YmdLt (y : Int) (m dd : Nat) (y' : Int) (m' dd' : Nat) : Prop :=
  y < y' ∨ (y = y' ∧ (m < m' ∨ (m = m' ∧ dd < dd')))

instance (y : Int) (m dd : Nat) (y' : Int) (m' dd' : Nat) : Decidable (YmdLt y m dd y' m' dd') := by
  unfold YmdLt; infer_instance

theorem ymdRaw_lt_of_ymdLt {y : Int} {m dd : Nat} {y' : Int} {m' dd' : Nat}
    (h : ValidYmd y m dd) (h' : ValidYmd y' m' dd') (hlt : YmdLt y m dd y' m' dd') :
    ymdRaw y m dd < ymdRaw y' m' dd' := by
  have b := ymdRaw_bounds h
  have b' := ymdRaw_bounds h'
  rcases hlt with hy | ⟨rfl, hm | ⟨rfl, hd⟩⟩
  · have := yearStart_le (a := y + 1) (b := y') (by omega)
    rw [yearStart_succ] at this
    omega
  · obtain ⟨h1, h2, h3, h4⟩ := h
    obtain ⟨h1', h2', h3', h4'⟩ := h'
    have := monthStart_lt (y := y) h1 hm (by omega)
    unfold ymdRaw; omega
  · unfold ymdRaw; omega

/-- strict monotonicity of (year, month, day), lexicographically, in the day number -/
theorem lt_iff_ymdLt (d d' : Int) :
    d < d' ↔ YmdLt (year d) (month d) (dayOfMonth d) (year d') (month d') (dayOfMonth d') := by
  have v := validYmd_civil d
  have v' := validYmd_civil d'
  constructor
  · intro h
    by_cases hc : YmdLt (year d) (month d) (dayOfMonth d) (year d') (month d') (dayOfMonth d')
    · exact hc
    · exfalso
      by_cases hc' : YmdLt (year d') (month d') (dayOfMonth d') (year d) (month d) (dayOfMonth d)
      · have := ymdRaw_lt_of_ymdLt v' v hc'
        rw [ymdRaw_civil, ymdRaw_civil] at this; omega
      · have e : year d = year d' ∧ month d = month d' ∧ dayOfMonth d = dayOfMonth d' := by
          unfold YmdLt at hc hc'; omega
        have := ymdRaw_civil d
        rw [e.1, e.2.1, e.2.2, ymdRaw_civil] at this
        omega
  · intro h
    have := ymdRaw_lt_of_ymdLt v v' h
    rw [ymdRaw_civil, ymdRaw_civil] at this; exact this

theorem civil_inj {d d' : Int} (h1 : year d = year d') (h2 : month d = month d')
    (h3 : dayOfMonth d = dayOfMonth d') : d = d' := by
  have := ymdRaw_civil d
  rw [h1, h2, h3, ymdRaw_civil] at this
  omega

/-- comparison of any day with a valid civil date -/
theorem lt_ymdRaw_iff {y : Int} {m dd : Nat} (h : ValidYmd y m dd) (d : Int) :
    d < ymdRaw y m dd ↔ YmdLt (year d) (month d) (dayOfMonth d) y m dd := by
  rw [lt_iff_ymdLt, year_ymdRaw h, month_ymdRaw h, dayOfMonth_ymdRaw h]

theorem ymdRaw_le_iff {y : Int} {m dd : Nat} (h : ValidYmd y m dd) (d : Int) :
    ymdRaw y m dd ≤ d ↔ ¬ YmdLt (year d) (month d) (dayOfMonth d) y m dd := by
  rw [← lt_ymdRaw_iff h]; omega

theorem validYmd_first (y : Int) {m : Nat} (h1 : 1 ≤ m) (h2 : m ≤ 12) : ValidYmd y m 1 :=
  ⟨h1, h2, Nat.le_refl 1, daysInMonth_pos y m⟩

theorem validYmd_last (y : Int) {m : Nat} (h1 : 1 ≤ m) (h2 : m ≤ 12) : ValidYmd y m (daysInMonth y m) :=
  ⟨h1, h2, daysInMonth_pos y m, Nat.le_refl _⟩

/-- `ymdRaw y m 1` is the first day whose (year, month) is at least (y, m) -/
theorem lt_ymdRaw_first_iff (y : Int) {m : Nat} (h1 : 1 ≤ m) (h2 : m ≤ 12) (d : Int) :
    d < ymdRaw y m 1 ↔ year d < y ∨ (year d = y ∧ month d < m) := by
  rw [lt_ymdRaw_iff (validYmd_first y h1 h2)]
  have := dayOfMonth_bounds d
  unfold YmdLt; omega

/-- Jan 1 of year `y` is the first day whose year is `y` (hint soundness of year ranges) -/
theorem lt_ymdRaw_jan1_iff (d y : Int) : d < ymdRaw y 1 1 ↔ year d < y := by
  rw [lt_ymdRaw_first_iff y (by omega) (by omega)]
  have := month_bounds d
  omega

theorem ymdRaw_jan1 (y : Int) : ymdRaw y 1 1 = yearStart y + 1 := by
  simp [ymdRaw, monthStart]

theorem ymdRaw_dec31 (y : Int) : ymdRaw y 12 31 = yearStart (y + 1) := by
  rw [yearStart_succ]
  cases h : isLeap y <;> simp [ymdRaw, monthStart, yearLen, h] <;> omega

/-- the day after the last day of a month is the first of the next month -/
theorem ymdRaw_last_succ (y : Int) {m : Nat} (h1 : 1 ≤ m) (h2 : m ≤ 11) :
    ymdRaw y m (daysInMonth y m) + 1 = ymdRaw y (m + 1) 1 := by
  unfold ymdRaw
  rw [monthStart_succ y m h1 (by omega)]; omega

theorem ymdRaw_dec31_succ (y : Int) : ymdRaw y 12 31 + 1 = ymdRaw (y + 1) 1 1 := by
  rw [ymdRaw_dec31, ymdRaw_jan1]

/-- the day before the first of a month is the last day of the previous month -/
theorem ymdRaw_first_pred (y : Int) {m : Nat} (h1 : 2 ≤ m) (h2 : m ≤ 12) :
    ymdRaw y m 1 - 1 = ymdRaw y (m - 1) (daysInMonth y (m - 1)) := by
  have := ymdRaw_last_succ y (m := m - 1) (by omega) (by omega)
  rw [show m - 1 + 1 = m by omega] at this
  omega

theorem ymdRaw_jan1_pred (y : Int) : ymdRaw y 1 1 - 1 = ymdRaw (y - 1) 12 31 := by
  have := ymdRaw_dec31_succ (y - 1)
  rw [show y - 1 + 1 = y by omega] at this
  omega

@[simp] theorem daysInMonth_dec (y : Int) : daysInMonth y 12 = 31 := rfl
@[simp] theorem daysInMonth_jan (y : Int) : daysInMonth y 1 = 31 := rfl

/-- the days of month (y, m) are exactly the interval `[ymdRaw y m 1, ymdRaw y m 1 + daysInMonth y m)` -/
theorem year_month_eq_iff (y : Int) {m : Nat} (h1 : 1 ≤ m) (h2 : m ≤ 12) (d : Int) :
    (year d = y ∧ month d = m) ↔ ymdRaw y m 1 ≤ d ∧ d < ymdRaw y m 1 + daysInMonth y m := by
  constructor
  · rintro ⟨rfl, rfl⟩
    have := ymdRaw_civil d
    have := dayOfMonth_bounds d
    unfold ymdRaw at *; omega
  · intro ⟨a, b⟩
    have v : ValidYmd y m (d - ymdRaw y m 1 + 1).toNat := ⟨h1, h2, by omega, by omega⟩
    have e : ymdRaw y m (d - ymdRaw y m 1 + 1).toNat = d := by
      unfold ymdRaw at *; omega
    have := year_ymdRaw v
    have := month_ymdRaw v
    rw [e] at *
    omega

/-- day-of-month arithmetic inside a month -/
theorem dayOfMonth_eq_sub (d : Int) :
    (dayOfMonth d : Int) = d - ymdRaw (year d) (month d) 1 + 1 := by
  have := ymdRaw_civil d
  unfold ymdRaw at *; omega

/-! ## Weekdays (0 = Monday … 6 = Sunday) -/

theorem weekday_lt (d : Int) : weekday d < 7 := by unfold weekday; omega

theorem weekday_eq (d : Int) : (weekday d : Int) = (d - 1) % 7 := by unfold weekday; omega

theorem weekday_succ (d : Int) : weekday (d + 1) = (weekday d + 1) % 7 := by unfold weekday; omega

theorem weekday_pred (d : Int) : weekday (d - 1) = (weekday d + 6) % 7 := by unfold weekday; omega

@[simp] theorem weekday_add_seven (d : Int) : weekday (d + 7) = weekday d := by unfold weekday; omega

@[simp] theorem weekday_sub_seven (d : Int) : weekday (d - 7) = weekday d := by unfold weekday; omega

@[simp] theorem weekday_add_mul_seven (d k : Int) : weekday (d + 7 * k) = weekday d := by unfold weekday; omega

theorem weekday_add (d : Int) (n : Nat) : weekday (d + n) = (weekday d + n) % 7 := by unfold weekday; omega

/-- the Monday of the week of `d` -/
@[simp] theorem weekday_monday (d : Int) : weekday (d - weekday d) = 0 := by unfold weekday; omega

theorem weekday_monday_add (d : Int) (j : Nat) (hj : j ≤ 6) : weekday (d - weekday d + j) = j := by
  unfold weekday; omega

/-! ## ISO weeks

`isoYearStart y` is the Monday of ISO week 1 of ISO year `y` (the Monday of the week of Jan 4).
ISO years partition the days into intervals `[isoYearStart y, isoYearStart (y + 1))` of 52 or 53
whole weeks, exactly as `yearStart` does for civil years. -/

def isoYearStart (y : Int) : Int := ymdRaw y 1 4 - weekday (ymdRaw y 1 4)

/-- day number of ISO (year, week, weekday) without validity check -/
def isoYwdRaw (y : Int) (w wd : Nat) : Int := isoYearStart y + 7 * ((w : Int) - 1) + wd

theorem ymdRaw_jan4 (y : Int) : ymdRaw y 1 4 = yearStart y + 4 := by simp [ymdRaw, monthStart]

theorem ymdRaw_dec28 (y : Int) : ymdRaw y 12 28 = yearStart (y + 1) - 3 := by
  have := ymdRaw_dec31 y
  unfold ymdRaw at *; omega

/-- `isoYearStart y` is the Monday among the 7 days Dec 29 … Jan 4 -/
theorem isoYearStart_spec (y : Int) :
    yearStart y - 2 ≤ isoYearStart y ∧ isoYearStart y ≤ yearStart y + 4 ∧ (isoYearStart y - 1) % 7 = 0 := by
  unfold isoYearStart
  rw [ymdRaw_jan4]
  unfold weekday; omega

@[simp] theorem weekday_isoYearStart (y : Int) : weekday (isoYearStart y) = 0 := by
  have := isoYearStart_spec y
  unfold weekday; omega

theorem isoYearStart_unique {y x : Int} (h1 : yearStart y - 2 ≤ x) (h2 : x ≤ yearStart y + 4)
    (h3 : (x - 1) % 7 = 0) : x = isoYearStart y := by
  have := isoYearStart_spec y; omega

theorem isoYearStart_lt {a b : Int} (h : a < b) : isoYearStart a < isoYearStart b := by
  have := isoYearStart_spec a
  have := isoYearStart_spec b
  have := yearStart_le (a := a + 1) (b := b) (by omega)
  rw [yearStart_succ] at this
  have := yearLen_cases a
  omega

theorem isoYearStart_le {a b : Int} (h : a ≤ b) : isoYearStart a ≤ isoYearStart b := by
  by_cases hc : a = b
  · subst hc; exact Int.le_refl _
  · have := isoYearStart_lt (a := a) (b := b) (by omega); omega

theorem isoYearStart_lt_iff {a b : Int} : isoYearStart a < isoYearStart b ↔ a < b := by
  constructor
  · intro h
    by_cases hc : b ≤ a
    · have := isoYearStart_le hc; omega
    · omega
  · exact isoYearStart_lt

/-- the ISO year of a day brackets it -/
theorem isoYear_spec (d : Int) : isoYearStart (isoYear d) ≤ d ∧ d < isoYearStart (isoYear d + 1) := by
  have h := year_spec (d - weekday d + 3)
  rw [show year (d - weekday d + 3) = isoYear d from rfl] at h
  have := isoYearStart_spec (isoYear d)
  have := isoYearStart_spec (isoYear d + 1)
  have := weekday_eq d
  omega

theorem isoYear_unique {d y : Int} (h1 : isoYearStart y ≤ d) (h2 : d < isoYearStart (y + 1)) :
    isoYear d = y := by
  obtain ⟨a, b⟩ := isoYear_spec d
  by_cases h : isoYear d < y
  · have := isoYearStart_le (a := isoYear d + 1) (b := y) (by omega); omega
  · by_cases h' : y < isoYear d
    · have := isoYearStart_le (a := y + 1) (b := isoYear d) (by omega); omega
    · omega

theorem isoYear_eq_iff {d y : Int} : isoYear d = y ↔ isoYearStart y ≤ d ∧ d < isoYearStart (y + 1) := by
  constructor
  · intro h; subst h; exact isoYear_spec d
  · intro ⟨a, b⟩; exact isoYear_unique a b

theorem isoYear_mono {a b : Int} (h : a ≤ b) : isoYear a ≤ isoYear b := by
  obtain ⟨a1, a2⟩ := isoYear_spec a
  obtain ⟨b1, b2⟩ := isoYear_spec b
  by_cases hlt : isoYear b < isoYear a
  · have := isoYearStart_le (a := isoYear b + 1) (b := isoYear a) (by omega); omega
  · omega

/-- the ISO year differs from the civil year by at most one -/
theorem isoYear_near_year (d : Int) : year d - 1 ≤ isoYear d ∧ isoYear d ≤ year d + 1 := by
  have hy := year_bounds d
  have hi := isoYear_spec d
  constructor
  · -- isoYear d < year d - 1 is impossible
    by_cases hc : isoYear d + 1 ≤ year d - 1
    · have h1 := isoYearStart_le hc
      have := isoYearStart_spec (year d - 1)
      have := yearStart_pred (year d)
      have := yearLen_cases (year d - 1)
      omega
    · omega
  · by_cases hc : year d + 2 ≤ isoYear d
    · have h1 := isoYearStart_le hc
      have := isoYearStart_spec (year d + 2)
      have := yearStart_succ (year d)
      have := yearStart_succ (year d + 1)
      rw [show year d + 1 + 1 = year d + 2 by omega] at this
      have := yearLen_cases (year d + 1)
      omega
    · omega

/-- the ISO week number counts whole weeks from `isoYearStart` -/
theorem isoWeek_eq (d : Int) : (isoWeek d : Int) = (d - isoYearStart (isoYear d)) / 7 + 1 := by
  have hb := ordinal0_bounds (d - weekday d + 3)
  have hs := isoYearStart_spec (isoYear d)
  have hw := weekday_eq d
  unfold isoWeek
  rw [Int.toNat_of_nonneg (by omega)]
  unfold ordinal0
  rw [show year (d - weekday d + 3) = isoYear d from rfl]
  omega

/-- an ISO year is a whole number of weeks -/
theorem isoYearStart_succ (y : Int) : isoYearStart (y + 1) = isoYearStart y + 7 * isoWeeksInYear y := by
  have h0 := isoYearStart_spec y
  have h1 := isoYearStart_spec (y + 1)
  have hl := yearLen_cases y
  have hs := yearStart_succ y
  have e28 := ymdRaw_dec28 y
  have hy : isoYear (ymdRaw y 12 28) = y := by
    rw [isoYear_eq_iff]; omega
  have := isoWeek_eq (ymdRaw y 12 28)
  rw [hy] at this
  unfold isoWeeksInYear
  omega

theorem isoWeeksInYear_cases (y : Int) : isoWeeksInYear y = 52 ∨ isoWeeksInYear y = 53 := by
  have h0 := isoYearStart_spec y
  have h1 := isoYearStart_spec (y + 1)
  have hl := yearLen_cases y
  have hs := yearStart_succ y
  have := isoYearStart_succ y
  omega

theorem isoWeek_bounds (d : Int) : 1 ≤ isoWeek d ∧ isoWeek d ≤ isoWeeksInYear (isoYear d) := by
  have := isoYear_spec d
  have := isoWeek_eq d
  have := isoYearStart_succ (isoYear d)
  omega

theorem isoWeek_le_53 (d : Int) : 1 ≤ isoWeek d ∧ isoWeek d ≤ 53 := by
  have := isoWeek_bounds d
  have := isoWeeksInYear_cases (isoYear d)
  omega

/-- a day is determined by its ISO (year, week, weekday) -/
@[simp] theorem isoYwdRaw_iso (d : Int) : isoYwdRaw (isoYear d) (isoWeek d) (weekday d) = d := by
  have := isoYear_spec d
  have := isoWeek_eq d
  have := isoYearStart_spec (isoYear d)
  have := weekday_eq d
  unfold isoYwdRaw; omega

/-- all seven days Monday … Sunday of a week share the ISO year and week -/
theorem iso_same_week (d : Int) (j : Nat) (hj : j ≤ 6) :
    isoYear (d - weekday d + j) = isoYear d ∧ isoWeek (d - weekday d + j) = isoWeek d ∧
      weekday (d - weekday d + j) = j := by
  have hw := weekday_monday_add d j hj
  have e : d - (weekday d : Int) + (j : Int) - ((weekday (d - weekday d + j) : Nat) : Int) + 3 = d - weekday d + 3 := by
    rw [hw]; omega
  refine ⟨?_, ?_, hw⟩
  · unfold isoYear; rw [e]
  · unfold isoWeek; rw [e]

theorem iso_eq_of_same_monday {d d' : Int} (h : d - weekday d = d' - weekday d') :
    isoYear d = isoYear d' ∧ isoWeek d = isoWeek d' := by
  unfold isoYear isoWeek; rw [h]; exact ⟨rfl, rfl⟩

/-- one week later: the next week number of the same ISO year, or week 1 of the next ISO year -/
theorem iso_add_seven (d : Int) :
    (isoYear (d + 7) = isoYear d ∧ isoWeek (d + 7) = isoWeek d + 1) ∨
    (isoYear (d + 7) = isoYear d + 1 ∧ isoWeek (d + 7) = 1 ∧ isoWeek d = isoWeeksInYear (isoYear d)) := by
  have h0 := isoYear_spec d
  have hs := isoYearStart_succ (isoYear d)
  have hw := isoWeek_eq d
  have hm := isoYearStart_spec (isoYear d)
  have hm1 := isoYearStart_spec (isoYear d + 1)
  by_cases hc : d + 7 < isoYearStart (isoYear d + 1)
  · left
    have hy : isoYear (d + 7) = isoYear d := isoYear_unique (by omega) hc
    have := isoWeek_eq (d + 7)
    rw [hy] at this
    exact ⟨hy, by omega⟩
  · right
    have hs2 := isoYearStart_succ (isoYear d + 1)
    have hc2 := isoWeeksInYear_cases (isoYear d + 1)
    have hy : isoYear (d + 7) = isoYear d + 1 := isoYear_unique (by omega) (by omega)
    have := isoWeek_eq (d + 7)
    rw [hy] at this
    exact ⟨hy, by omega, by omega⟩

theorem inRange_iff (d : Int) : inRange d = true ↔ minDay ≤ d ∧ d ≤ maxDay := by
  simp [inRange]

theorem ofIsoYwd?_eq_some_iff {y : Int} {w wd : Nat} {d : Int} :
    ofIsoYwd? y w wd = some d ↔
      1 ≤ w ∧ w ≤ isoWeeksInYear y ∧ wd ≤ 6 ∧ minDay ≤ d ∧ d ≤ maxDay ∧ d = isoYwdRaw y w wd := by
  unfold ofIsoYwd?
  simp only []
  rw [show ymdRaw y 1 4 - (weekday (ymdRaw y 1 4) : Int) + 7 * ((w : Int) - 1) + (wd : Int) = isoYwdRaw y w wd from rfl]
  by_cases hg : 1 ≤ w ∧ w ≤ isoWeeksInYear y ∧ wd ≤ 6
  · rw [if_pos hg]
    by_cases hr : inRange (isoYwdRaw y w wd) = true
    · rw [if_pos hr]
      rw [inRange_iff] at hr
      simp only [Option.some.injEq]
      constructor
      · intro h; subst h; omega
      · intro h; omega
    · rw [if_neg hr]
      rw [inRange_iff] at hr
      constructor
      · intro h; cases h
      · intro h; omega
  · rw [if_neg hg]
    constructor
    · intro h; cases h
    · intro h; omega

/-- validity of an ISO (year, week, weekday) triple, without chrono's range -/
def ValidIsoYwd (y : Int) (w wd : Nat) : Prop := 1 ≤ w ∧ w ≤ isoWeeksInYear y ∧ wd ≤ 6

instance (y : Int) (w wd : Nat) : Decidable (ValidIsoYwd y w wd) := by unfold ValidIsoYwd; infer_instance

theorem validIsoYwd_iso (d : Int) : ValidIsoYwd (isoYear d) (isoWeek d) (weekday d) := by
  have := isoWeek_bounds d
  have := weekday_lt d
  unfold ValidIsoYwd; omega

theorem iso_isoYwdRaw {y : Int} {w wd : Nat} (h : ValidIsoYwd y w wd) :
    isoYear (isoYwdRaw y w wd) = y ∧ isoWeek (isoYwdRaw y w wd) = w ∧ weekday (isoYwdRaw y w wd) = wd := by
  obtain ⟨h1, h2, h3⟩ := h
  have hs := isoYearStart_succ y
  have hm := isoYearStart_spec y
  have hy : isoYear (isoYwdRaw y w wd) = y := by
    apply isoYear_unique <;> unfold isoYwdRaw <;> omega
  have hw := isoWeek_eq (isoYwdRaw y w wd)
  rw [hy] at hw
  refine ⟨hy, ?_, ?_⟩
  · unfold isoYwdRaw at hw ⊢; omega
  · unfold weekday isoYwdRaw; omega

/-- ISO fields of a date built by `from_isoywd_opt` -/
theorem iso_of_ofIsoYwd? {y : Int} {w wd : Nat} {d : Int} (h : ofIsoYwd? y w wd = some d) :
    isoYear d = y ∧ isoWeek d = w ∧ weekday d = wd := by
  obtain ⟨h1, h2, h3, _, _, rfl⟩ := ofIsoYwd?_eq_some_iff.1 h
  exact iso_isoYwdRaw ⟨h1, h2, h3⟩

/-- converse round trip: every representable day is rebuilt from its ISO fields -/
theorem ofIsoYwd?_iso (d : Int) (h1 : minDay ≤ d) (h2 : d ≤ maxDay) :
    ofIsoYwd? (isoYear d) (isoWeek d) (weekday d) = some d := by
  rw [ofIsoYwd?_eq_some_iff]
  have := isoWeek_bounds d
  have := weekday_lt d
  have := isoYwdRaw_iso d
  omega

/-- lexicographic order on ISO (year, week, weekday) is the order of days -/
theorem isoYwdRaw_lt_of_lex {y : Int} {w wd : Nat} {y' : Int} {w' wd' : Nat}
    (h : ValidIsoYwd y w wd) (h' : ValidIsoYwd y' w' wd')
    (hlt : y < y' ∨ (y = y' ∧ (w < w' ∨ (w = w' ∧ wd < wd')))) :
    isoYwdRaw y w wd < isoYwdRaw y' w' wd' := by
  obtain ⟨h1, h2, h3⟩ := h
  obtain ⟨h1', h2', h3'⟩ := h'
  have hs := isoYearStart_succ y
  rcases hlt with hy | ⟨rfl, hw | ⟨rfl, hd⟩⟩
  · have := isoYearStart_le (a := y + 1) (b := y') (by omega)
    unfold isoYwdRaw; omega
  · unfold isoYwdRaw; omega
  · unfold isoYwdRaw; omega

/-- Mondays built by `from_isoywd_opt` are strictly increasing in (year, week) -/
theorem ofIsoYwd?_monday_lt {y : Int} {w : Nat} {y' : Int} {w' : Nat} {d d' : Int}
    (h : ofIsoYwd? y w 0 = some d) (h' : ofIsoYwd? y' w' 0 = some d')
    (hlt : y < y' ∨ (y = y' ∧ w < w')) : d < d' := by
  obtain ⟨h1, h2, h3, _, _, rfl⟩ := ofIsoYwd?_eq_some_iff.1 h
  obtain ⟨h1', h2', h3', _, _, rfl⟩ := ofIsoYwd?_eq_some_iff.1 h'
  apply isoYwdRaw_lt_of_lex ⟨h1, h2, h3⟩ ⟨h1', h2', h3'⟩
  omega

theorem ofIsoYwd?_monday_lt_iff {y : Int} {w : Nat} {y' : Int} {w' : Nat} {d d' : Int}
    (h : ofIsoYwd? y w 0 = some d) (h' : ofIsoYwd? y' w' 0 = some d') :
    d < d' ↔ (y < y' ∨ (y = y' ∧ w < w')) := by
  constructor
  · intro hlt
    by_cases hc : y < y' ∨ (y = y' ∧ w < w')
    · exact hc
    · exfalso
      by_cases hc' : y' < y ∨ (y' = y ∧ w' < w)
      · have := ofIsoYwd?_monday_lt h' h hc'; omega
      · have : y = y' ∧ w = w' := by omega
        obtain ⟨rfl, rfl⟩ := this
        rw [h] at h'; cases h'; omega
  · exact ofIsoYwd?_monday_lt h h'

/-- days of ISO week (y, w): the interval of 7 days from its Monday -/
theorem iso_eq_iff {y : Int} {w : Nat} (h1 : 1 ≤ w) (h2 : w ≤ isoWeeksInYear y) (d : Int) :
    (isoYear d = y ∧ isoWeek d = w) ↔ isoYwdRaw y w 0 ≤ d ∧ d < isoYwdRaw y w 0 + 7 := by
  have hs := isoYearStart_succ y
  constructor
  · rintro ⟨rfl, rfl⟩
    have := isoYwdRaw_iso d
    have := weekday_lt d
    unfold isoYwdRaw at *; omega
  · intro ⟨a, b⟩
    have hy : isoYear d = y := by
      apply isoYear_unique <;> unfold isoYwdRaw at * <;> omega
    have := isoWeek_eq d
    rw [hy] at this
    unfold isoYwdRaw at *
    exact ⟨hy, by omega⟩

/-! ## Range constants -/

theorem minDay_eq : minDay = -95746129 := by decide
theorem maxDay_eq : maxDay = 95745399 := by decide
theorem dateStart_eq : dateStart = 693596 := by decide
theorem dateEnd_eq : dateEnd = 3652060 := by decide
theorem yearStart_minYear : yearStart minYear = -95746130 := by decide
theorem yearStart_maxYear_succ : yearStart (maxYear + 1) = 95745399 := by decide
theorem yearStart_1900 : yearStart 1900 = 693595 := by decide
theorem yearStart_10000 : yearStart 10000 = 3652059 := by decide

theorem year_dateStart : year dateStart = 1900 := by
  rw [year_eq_iff, dateStart_eq]; decide

theorem year_dateEnd_pred : year (dateEnd - 1) = 9999 := by
  rw [year_eq_iff, dateEnd_eq]; decide

theorem year_dateEnd : year dateEnd = 10000 := by
  rw [year_eq_iff, dateEnd_eq]; decide

theorem year_minDay : year minDay = minYear := by
  rw [year_eq_iff, minDay_eq]; decide

theorem year_maxDay : year maxDay = maxYear := by
  rw [year_eq_iff, maxDay_eq]; decide

/-- the representable days are exactly those whose year is in chrono's range -/
theorem inRange_iff_year (d : Int) : (minDay ≤ d ∧ d ≤ maxDay) ↔ (minYear ≤ year d ∧ year d ≤ maxYear) := by
  have h1 := yearStart_lt_iff_le_year (d := d) (y := minYear)
  have h2 := le_yearStart_iff (d := d) (y := maxYear + 1)
  rw [yearStart_minYear] at h1
  rw [yearStart_maxYear_succ] at h2
  rw [minDay_eq, maxDay_eq]
  omega

/-- the evaluator's window `[dateStart, dateEnd)` is the years 1900 … 9999 -/
theorem window_iff_year (d : Int) : (dateStart ≤ d ∧ d < dateEnd) ↔ (1900 ≤ year d ∧ year d ≤ 9999) := by
  have h1 := yearStart_lt_iff_le_year (d := d) (y := 1900)
  have h2 := le_yearStart_iff (d := d) (y := 10000)
  rw [yearStart_1900] at h1
  rw [yearStart_10000] at h2
  rw [dateStart_eq, dateEnd_eq]
  omega

theorem window_inRange {d : Int} (h1 : dateStart ≤ d) (h2 : d ≤ dateEnd) : minDay ≤ d ∧ d ≤ maxDay := by
  rw [dateStart_eq] at h1; rw [dateEnd_eq] at h2; rw [minDay_eq, maxDay_eq]; omega

theorem ofYmd?_isSome_iff {y : Int} {m dd : Nat} :
    (ofYmd? y m dd).isSome = true ↔ minYear ≤ y ∧ y ≤ maxYear ∧ ValidYmd y m dd := by
  unfold ofYmd? ValidYmd
  split <;> simp <;> omega

theorem ofYmd?_inRange {y : Int} {m dd : Nat} {d : Int} (h : ofYmd? y m dd = some d) :
    minDay ≤ d ∧ d ≤ maxDay := by
  have := civil_of_ofYmd? h
  obtain ⟨a, b, _, _⟩ := ofYmd?_eq_some_iff.1 h
  rw [inRange_iff_year]; omega

/-! ## `succ_opt`, `pred_opt`, `+ Duration::days` -/

theorem succ?_eq_some_iff {d d' : Int} : succ? d = some d' ↔ d < maxDay ∧ d' = d + 1 := by
  unfold succ?; split <;> simp <;> omega

theorem succ?_eq_none_iff {d : Int} : succ? d = none ↔ maxDay ≤ d := by
  unfold succ?; split <;> simp <;> omega

theorem pred?_eq_some_iff {d d' : Int} : pred? d = some d' ↔ minDay < d ∧ d' = d - 1 := by
  unfold pred?; split <;> simp <;> omega

theorem pred?_eq_none_iff {d : Int} : pred? d = none ↔ d ≤ minDay := by
  unfold pred?; split <;> simp <;> omega

theorem addDays?_eq_some_iff {d n d' : Int} :
    addDays? d n = some d' ↔ minDay ≤ d + n ∧ d + n ≤ maxDay ∧ d' = d + n := by
  unfold addDays?
  by_cases h : inRange (d + n) = true
  · rw [if_pos h]; rw [inRange_iff] at h; simp; omega
  · rw [if_neg h]; rw [inRange_iff] at h; simp; omega

theorem addDays?_eq_none_iff {d n : Int} : addDays? d n = none ↔ ¬ (minDay ≤ d + n ∧ d + n ≤ maxDay) := by
  unfold addDays?
  by_cases h : inRange (d + n) = true
  · rw [if_pos h]; rw [inRange_iff] at h; simp; omega
  · rw [if_neg h]; rw [inRange_iff] at h; simp; omega

/-- inside the evaluator's window `succ?` never fails -/
theorem succ?_of_le_dateEnd {d : Int} (h : d ≤ dateEnd) : succ? d = some (d + 1) := by
  rw [succ?_eq_some_iff, maxDay_eq]; rw [dateEnd_eq] at h; omega

theorem pred?_of_dateStart_le {d : Int} (h : dateStart ≤ d) : pred? d = some (d - 1) := by
  rw [pred?_eq_some_iff, minDay_eq]; rw [dateStart_eq] at h; omega

theorem succ?_pred? {d d' : Int} (hd : minDay ≤ d) (h : succ? d = some d') : pred? d' = some d := by
  rw [succ?_eq_some_iff] at h; rw [pred?_eq_some_iff]; omega

theorem pred?_succ? {d d' : Int} (hd : d ≤ maxDay) (h : pred? d = some d') : succ? d' = some d := by
  rw [pred?_eq_some_iff] at h; rw [succ?_eq_some_iff]; omega

/-! ## `with_day(1)`, `with_year`, `checked_add_months(1)` -/

theorem firstOfMonth_eq (d : Int) : firstOfMonth d = ymdRaw (year d) (month d) 1 := by
  have := dayOfMonth_eq_sub d
  unfold firstOfMonth; omega

theorem civil_firstOfMonth (d : Int) :
    year (firstOfMonth d) = year d ∧ month (firstOfMonth d) = month d ∧ dayOfMonth (firstOfMonth d) = 1 := by
  have hb := month_bounds d
  have v := validYmd_first (year d) hb.1 hb.2
  rw [firstOfMonth_eq]
  exact ⟨year_ymdRaw v, month_ymdRaw v, dayOfMonth_ymdRaw v⟩

theorem firstOfMonth_le (d : Int) : firstOfMonth d ≤ d ∧ d < firstOfMonth d + daysInMonth (year d) (month d) := by
  have := dayOfMonth_bounds d
  unfold firstOfMonth; omega

theorem daysInMonth_feb (y : Int) : daysInMonth y 2 = if isLeap y = true then 29 else 28 := rfl

/-- only February depends on the year -/
theorem daysInMonth_of_ne_feb (y y' : Int) {m : Nat} (h : m ≠ 2) : daysInMonth y m = daysInMonth y' m := by
  unfold daysInMonth; split <;> first | omega | rfl

theorem withYear?_eq_some_iff {d y d' : Int} :
    withYear? d y = some d' ↔
      minYear ≤ y ∧ y ≤ maxYear ∧ year d' = y ∧ month d' = month d ∧ dayOfMonth d' = dayOfMonth d := by
  unfold withYear?; exact ofYmd?_eq_some_iff_civil

/-- `with_year` fails exactly outside chrono's year range and for Feb 29 in a common year -/
theorem withYear?_eq_none_iff {d y : Int} :
    withYear? d y = none ↔
      ¬ (minYear ≤ y ∧ y ≤ maxYear) ∨ (month d = 2 ∧ dayOfMonth d = 29 ∧ isLeap y = false) := by
  unfold withYear?
  rw [ofYmd?_eq_none_iff]
  have hm := month_bounds d
  have hd := dayOfMonth_bounds d
  unfold ValidYmd
  by_cases h2 : month d = 2
  · rw [h2] at hd ⊢
    rw [daysInMonth_feb] at hd
    rw [daysInMonth_feb]
    cases hl : isLeap y <;> simp <;> split at hd <;> omega
  · have := daysInMonth_of_ne_feb (year d) y h2
    omega

theorem withYear?_same (d : Int) (h1 : minYear ≤ year d) (h2 : year d ≤ maxYear) :
    withYear? d (year d) = some d := ofYmd?_civil d h1 h2

/-- `checked_add_months(1)` in December -/
theorem addOneMonth?_of_dec {d : Int} (h : month d = 12) :
    addOneMonth? d = ofYmd? (year d + 1) 1 (dayOfMonth d) := by
  have := dayOfMonth_bounds d
  have := daysInMonth_bounds (year d) (month d)
  unfold addOneMonth?
  simp only [h, beq_self_eq_true, if_true, daysInMonth_jan]
  rw [Nat.min_eq_left (by omega)]

/-- `checked_add_months(1)` in January … November -/
theorem addOneMonth?_of_not_dec {d : Int} (h : month d ≠ 12) :
    addOneMonth? d = ofYmd? (year d) (month d + 1) (min (dayOfMonth d) (daysInMonth (year d) (month d + 1))) := by
  unfold addOneMonth?
  have : (month d == 12) = false := by simp [h]
  simp only [this]
  rfl

/-- the result of `checked_add_months(1)` is in the next month, with the day clamped to its length -/
theorem addOneMonth?_spec {d d' : Int} (h : addOneMonth? d = some d') :
    ((month d ≠ 12 ∧ year d' = year d ∧ month d' = month d + 1) ∨
     (month d = 12 ∧ year d' = year d + 1 ∧ month d' = 1)) ∧
    dayOfMonth d' = min (dayOfMonth d) (daysInMonth (year d') (month d')) := by
  by_cases hm : month d = 12
  · rw [addOneMonth?_of_dec hm] at h
    obtain ⟨a, b, c⟩ := civil_of_ofYmd? h
    have := dayOfMonth_bounds d
    have := daysInMonth_bounds (year d) (month d)
    refine ⟨Or.inr ⟨hm, a, b⟩, ?_⟩
    rw [a, b, c, daysInMonth_jan]; omega
  · rw [addOneMonth?_of_not_dec hm] at h
    obtain ⟨a, b, c⟩ := civil_of_ofYmd? h
    refine ⟨Or.inl ⟨hm, a, b⟩, ?_⟩
    rw [a, b, c]

/-- `checked_add_months(1)` fails only in December of chrono's last year (for representable days) -/
theorem addOneMonth?_eq_none_iff {d : Int} (h1 : minYear ≤ year d) (h2 : year d ≤ maxYear) :
    addOneMonth? d = none ↔ year d = maxYear ∧ month d = 12 := by
  have hm := month_bounds d
  have hd := dayOfMonth_bounds d
  by_cases hm12 : month d = 12
  · rw [addOneMonth?_of_dec hm12, ofYmd?_eq_none_iff]
    have := daysInMonth_bounds (year d) (month d)
    unfold ValidYmd
    rw [daysInMonth_jan]
    omega
  · rw [addOneMonth?_of_not_dec hm12, ofYmd?_eq_none_iff]
    have := daysInMonth_pos (year d) (month d + 1)
    unfold ValidYmd
    omega

/-- the fact `count_days_in_month` computes with: first of next month − first of this month -/
theorem firstOfMonth_addOneMonth? {d d' : Int} (h : addOneMonth? d = some d') :
    firstOfMonth d' - firstOfMonth d = daysInMonth (year d) (month d) := by
  have hm := month_bounds d
  rw [firstOfMonth_eq, firstOfMonth_eq]
  obtain ⟨hc, _⟩ := addOneMonth?_spec h
  rcases hc with ⟨a, b, c⟩ | ⟨a, b, c⟩
  · rw [b, c]
    have := ymdRaw_last_succ (year d) hm.1 (show month d ≤ 11 by omega)
    unfold ymdRaw at *; omega
  · rw [b, c, a]
    have := ymdRaw_dec31_succ (year d)
    rw [daysInMonth_dec]
    unfold ymdRaw at *; omega

/-- the civil fields of the next day -/
theorem civil_succ (d : Int) :
    (dayOfMonth d < daysInMonth (year d) (month d) ∧
      year (d + 1) = year d ∧ month (d + 1) = month d ∧ dayOfMonth (d + 1) = dayOfMonth d + 1) ∨
    (dayOfMonth d = daysInMonth (year d) (month d) ∧ month d < 12 ∧
      year (d + 1) = year d ∧ month (d + 1) = month d + 1 ∧ dayOfMonth (d + 1) = 1) ∨
    (dayOfMonth d = 31 ∧ month d = 12 ∧
      year (d + 1) = year d + 1 ∧ month (d + 1) = 1 ∧ dayOfMonth (d + 1) = 1) := by
  have hm := month_bounds d
  have hd := dayOfMonth_bounds d
  have e := ymdRaw_civil d
  by_cases h1 : dayOfMonth d < daysInMonth (year d) (month d)
  · left
    have v : ValidYmd (year d) (month d) (dayOfMonth d + 1) := ⟨hm.1, hm.2, by omega, by omega⟩
    have e' : ymdRaw (year d) (month d) (dayOfMonth d + 1) = d + 1 := by unfold ymdRaw at *; omega
    have := year_ymdRaw v; have := month_ymdRaw v; have := dayOfMonth_ymdRaw v
    rw [e'] at *
    exact ⟨h1, by assumption, by assumption, by assumption⟩
  · have hlast : dayOfMonth d = daysInMonth (year d) (month d) := by omega
    by_cases h2 : month d < 12
    · right; left
      have v := validYmd_first (year d) (m := month d + 1) (by omega) (by omega)
      have e' : ymdRaw (year d) (month d + 1) 1 = d + 1 := by
        rw [← ymdRaw_last_succ (year d) hm.1 (by omega), ← hlast, e]
      have := year_ymdRaw v; have := month_ymdRaw v; have := dayOfMonth_ymdRaw v
      rw [e'] at *
      exact ⟨hlast, h2, by assumption, by assumption, by assumption⟩
    · right; right
      have h12 : month d = 12 := by omega
      rw [h12, daysInMonth_dec] at hlast
      have v := validYmd_first (year d + 1) (m := 1) (by omega) (by omega)
      have e' : ymdRaw (year d + 1) 1 1 = d + 1 := by
        have := ymdRaw_dec31_succ (year d)
        rw [h12, hlast] at e
        omega
      have := year_ymdRaw v; have := month_ymdRaw v; have := dayOfMonth_ymdRaw v
      rw [e'] at *
      exact ⟨hlast, h12, by assumption, by assumption, by assumption⟩

theorem year_succ_cases (d : Int) : year (d + 1) = year d ∨ year (d + 1) = year d + 1 := by
  rcases civil_succ d with h | h | h <;> omega

/-! ## Easter (`utils::dates::easter`, the anonymous Gregorian algorithm in `i32` arithmetic)

Proved by arithmetic on the intermediate values (no enumeration of years): for every year `y ≥ 0`
all operands are non-negative, so Rust's truncating `/`, `%` are floor division and remainder, and
`omega` bounds `h ∈ [0, 29]`, `l ∈ [0, 6]`, `m ∈ {0, 1}`, hence the month is 3 or 4 and the day in range. -/

theorem tmod_bounds (a : Int) {b : Int} (hb : 0 < b) : -b < a.tmod b ∧ a.tmod b < b := by
  by_cases h : 0 ≤ a
  · rw [Int.tmod_eq_emod_of_nonneg h]
    have := Int.emod_nonneg a (show b ≠ 0 by omega)
    have := Int.emod_lt_of_pos a hb
    omega
  · have e : a = -(-a) := by omega
    rw [e, Int.neg_tmod, Int.tmod_eq_emod_of_nonneg (by omega)]
    have := Int.emod_nonneg (-a) (show b ≠ 0 by omega)
    have := Int.emod_lt_of_pos (-a) hb
    omega

theorem tdiv_451_bounds (a : Int) (h1 : -902 < a) (h2 : a < 902) : -1 ≤ a.tdiv 451 ∧ a.tdiv 451 ≤ 1 := by
  by_cases h : 0 ≤ a
  · rw [Int.tdiv_eq_ediv_of_nonneg h]; omega
  · have e : a = -(-a) := by omega
    rw [e, Int.neg_tdiv, Int.tdiv_eq_ediv_of_nonneg (by omega)]
    omega

/-- `easter` never reaches its two `expect` panic sites ("month/day cannot be negative"),
for any year at all (in particular any `i32`) -/
theorem easter_no_panic (y : Int) : ∃ r, easter y = .ok r := by
  simp only [easter]
  have ha := tmod_bounds y (b := 19) (by omega)
  generalize y.tmod 19 = a at *
  generalize (19 * a + y.tdiv 100 - (y.tdiv 100).tdiv 4 - (y.tdiv 100 - (y.tdiv 100 + 8).tdiv 25 + 1).tdiv 3 + 15) = H
  have hh := tmod_bounds H (b := 30) (by omega)
  generalize H.tmod 30 = h at *
  generalize (32 + 2 * (y.tdiv 100).tmod 4 + 2 * (y.tmod 100).tdiv 4 - h - (y.tmod 100).tmod 4) = L
  have hl := tmod_bounds L (b := 7) (by omega)
  generalize L.tmod 7 = l at *
  have hm := tdiv_451_bounds (a + 11 * h + 22 * l) (by omega) (by omega)
  generalize (a + 11 * h + 22 * l).tdiv 451 = m at *
  have hx : 0 ≤ h + l - 7 * m + 114 := by omega
  have hn := Int.tdiv_eq_ediv_of_nonneg hx (b := 31)
  have ho := Int.tmod_eq_emod_of_nonneg hx (b := 31)
  rw [hn, ho, if_neg (by omega), if_neg (by omega)]
  exact ⟨_, rfl⟩

/-- the part of the algorithm that makes the result a Sunday (`y = 400·(b/4) + 100·e + 4·i + k`) -/
theorem easter_sunday_arith {y b c e i k h l : Int} (hb : b = y / 100) (hc : c = y % 100)
    (he : e = b % 4) (hi : i = c / 4) (hk : k = c % 4) (hl : l = (32 + 2 * e + 2 * i - h - k) % 7) :
    (yearStart (y + 1) + h + l - 4) % 7 = 0 := by
  unfold yearStart
  rw [show y + 1 - 1 = y by omega]
  have h4 : y / 4 = 100 * (b / 4) + 25 * e + i := by omega
  have h400 : y / 400 = b / 4 := by omega
  rw [h4, h400, ← hb]
  have hy : y = 400 * (b / 4) + 100 * e + 4 * i + k := by omega
  rw [hy]
  omega

theorem monthStart_mar (y : Int) : monthStart (isLeap y) 3 = yearLen y - 306 := by
  cases h : isLeap y <;> simp [monthStart, yearLen, h]

theorem monthStart_apr (y : Int) : monthStart (isLeap y) 4 = yearLen y - 275 := by
  cases h : isLeap y <;> simp [monthStart, yearLen, h]

/-- bounds on the month `n` and the 0-based day `o` the algorithm computes, for `y ≥ 0`, and the
congruence that makes the date a Sunday -/
theorem easter_arith {y a b c d e f g h i k l m n o : Int} (h0 : 0 ≤ y)
    (ha : a = y.tmod 19) (hb : b = y.tdiv 100) (hc : c = y.tmod 100) (hd : d = b.tdiv 4)
    (he : e = b.tmod 4) (hf : f = (b + 8).tdiv 25) (hg : g = (b - f + 1).tdiv 3)
    (hh : h = (19 * a + b - d - g + 15).tmod 30) (hi : i = c.tdiv 4) (hk : k = c.tmod 4)
    (hl : l = (32 + 2 * e + 2 * i - h - k).tmod 7) (hm : m = (a + 11 * h + 22 * l).tdiv 451)
    (hn : n = (h + l - 7 * m + 114).tdiv 31) (ho : o = (h + l - 7 * m + 114).tmod 31) :
    ((n = 3 ∧ 21 ≤ o ∧ o ≤ 30) ∨ (n = 4 ∧ 0 ≤ o ∧ o ≤ 24)) ∧
      (yearStart (y + 1) + 31 * n + o - 118) % 7 = 0 := by
  rw [Int.tmod_eq_emod_of_nonneg h0] at ha hc
  rw [Int.tdiv_eq_ediv_of_nonneg h0] at hb
  rw [Int.tdiv_eq_ediv_of_nonneg (by omega)] at hd
  rw [Int.tmod_eq_emod_of_nonneg (by omega)] at he
  rw [Int.tdiv_eq_ediv_of_nonneg (by omega)] at hf
  rw [Int.tdiv_eq_ediv_of_nonneg (by omega)] at hg
  rw [Int.tmod_eq_emod_of_nonneg (by omega)] at hh
  rw [Int.tdiv_eq_ediv_of_nonneg (by omega)] at hi
  rw [Int.tmod_eq_emod_of_nonneg (by omega)] at hk
  rw [Int.tmod_eq_emod_of_nonneg (by omega)] at hl
  rw [Int.tdiv_eq_ediv_of_nonneg (by omega)] at hm
  rw [Int.tdiv_eq_ediv_of_nonneg (by omega)] at hn
  rw [Int.tmod_eq_emod_of_nonneg (by omega)] at ho
  have hs := easter_sunday_arith hb hc he hi hk hl
  refine ⟨by omega, by omega⟩

theorem easter_eq_ofYmd? (y : Int) (h0 : 0 ≤ y) :
    ∃ n o : Int, ((n = 3 ∧ 21 ≤ o ∧ o ≤ 30) ∨ (n = 4 ∧ 0 ≤ o ∧ o ≤ 24)) ∧
      (yearStart (y + 1) + 31 * n + o - 118) % 7 = 0 ∧
      easter y = .ok (ofYmd? y n.toNat (o + 1).toNat) := by
  have key := easter_arith h0 rfl rfl rfl rfl rfl rfl rfl rfl rfl rfl rfl rfl rfl rfl
  refine ⟨_, _, key.1, key.2, ?_⟩
  have key1 := key.1
  simp only [easter]
  rw [if_neg (by omega), if_neg (by omega)]

/-- Easter of year `y` (any `0 ≤ y ≤ 262142`) exists, lies in year `y`, between March 22 and
April 25, and is a Sunday -/
theorem easter_spec (y : Int) (h0 : 0 ≤ y) (h1 : y ≤ maxYear) :
    ∃ d, easter y = .ok (some d) ∧ year d = y ∧ ymdRaw y 3 22 ≤ d ∧ d ≤ ymdRaw y 4 25 ∧
      ((month d = 3 ∧ 22 ≤ dayOfMonth d) ∨ (month d = 4 ∧ dayOfMonth d ≤ 25)) ∧ weekday d = 6 := by
  obtain ⟨n, o, hno, hsun, he⟩ := easter_eq_ofYmd? y h0
  have hmin : minYear ≤ y := by unfold minYear; omega
  have h3 := monthStart_mar y
  have h4 := monthStart_apr y
  have hs := yearStart_succ y
  rcases hno with ⟨rfl, o1, o2⟩ | ⟨rfl, o1, o2⟩
  · have v : ValidYmd y 3 (o + 1).toNat := ⟨by omega, by omega, by omega, by simp [daysInMonth]; omega⟩
    refine ⟨ymdRaw y 3 (o + 1).toNat, ?_, year_ymdRaw v, ?_, ?_, Or.inl ⟨month_ymdRaw v, ?_⟩, ?_⟩
    · rw [he]; congr 1
      rw [ofYmd?_eq_some_iff]; exact ⟨hmin, h1, v, rfl⟩
    · unfold ymdRaw; omega
    · unfold ymdRaw; omega
    · rw [dayOfMonth_ymdRaw v]; omega
    · unfold weekday ymdRaw; omega
  · have v : ValidYmd y 4 (o + 1).toNat := ⟨by omega, by omega, by omega, by simp [daysInMonth]; omega⟩
    refine ⟨ymdRaw y 4 (o + 1).toNat, ?_, year_ymdRaw v, ?_, ?_, Or.inr ⟨month_ymdRaw v, ?_⟩, ?_⟩
    · rw [he]; congr 1
      rw [ofYmd?_eq_some_iff]; exact ⟨hmin, h1, v, rfl⟩
    · unfold ymdRaw; omega
    · unfold ymdRaw; omega
    · rw [dayOfMonth_ymdRaw v]; omega
    · unfold weekday ymdRaw; omega

/-- the instance the evaluator needs: the parser only produces years 1900 … 9999 -/
theorem easter_spec_window (y : Int) (h0 : 1900 ≤ y) (h1 : y ≤ 9999) :
    ∃ d, easter y = .ok (some d) ∧ year d = y ∧ ymdRaw y 3 22 ≤ d ∧ d ≤ ymdRaw y 4 25 ∧
      weekday d = 6 ∧ dateStart ≤ d ∧ d < dateEnd := by
  obtain ⟨d, a, b, c, e, _, f⟩ := easter_spec y (by omega) (by unfold maxYear; omega)
  refine ⟨d, a, b, c, e, f, ?_⟩
  rw [window_iff_year]; omega

end OH.Model.Cal
