import OH.Proofs.SynNum
/-
Assembly of the whole-expression round trip (C06), part 1: the pieces around the selectors.
 * `comment` (`"…"`): any non-empty text without `"` is read back as itself;
 * `rules_modifier_enum`, `rules_modifier`: ` closed`, ` unknown "x"`, ` "x"` as `Print.rule` writes them;
 * `any_rule_separator` on `" ; "`, `", "`, `" || "` (`Print.sepStr`), also when the leading space has
   already been consumed by the `space?` of `rule_sequence` (or by `separator_for_readability?`).
-/
namespace OH.Proofs.Syn
open OH.Model OH.Model.Peg OH.Model.Parser OH.Generated.Grammar

/-! ### `comment = { "\"" ~ comment_inner ~ "\"" }`, `comment_inner = @{ (!"\"" ~ ANY)+ }` -/

/-- the texts the parser can build as a comment: at least one character, no `"` -/
def okCommentChars (c : List Char) : Bool := !c.isEmpty && !c.contains '"'

/-- a comment of a parsed rule -/
def okComment (s : String) : Bool := okCommentChars s.toList

theorem okCommentChars_iff (c : List Char) : okCommentChars c = true ↔ c ≠ [] ∧ ∀ x ∈ c, x ≠ '"' := by
  cases c with
  | nil => simp [okCommentChars]
  | cons a l =>
    simp only [okCommentChars, List.isEmpty_cons, Bool.not_false, Bool.true_and, Bool.not_eq_true',
      List.contains_eq_mem, decide_eq_false_iff_not, ne_eq, reduceCtorEq, not_false_eq_true, true_and]
    constructor
    · intro h x hx e; subst e; exact h hx
    · intro h hm; exact h _ hm rfl

theorem run_comment_character (c : Char) (hc : c ≠ '"') (rest : List Char) :
    run g_comment_character true (c :: rest) = some ⟨[], [c], rest⟩ := by
  simp [g_comment_character, g_comment_delimiter, peg, Ne.symm hc]

theorem run_comment_character_quote (rest : List Char) :
    run g_comment_character true ('"' :: rest) = none := by
  simp [g_comment_character, g_comment_delimiter, peg]

/-- `(!"\"" ~ ANY)*` reads up to the closing quote -/
theorem run_comment_chars (c : List Char) (hc : ∀ x ∈ c, x ≠ '"') (rest : List Char) :
    run (.star g_comment_character) true (c ++ '"' :: rest) = some ⟨[], c, '"' :: rest⟩ := by
  induction c with
  | nil => simpa [R.nil] using run_star_none (run_comment_character_quote rest)
  | cons a l ih =>
    have h1 := run_comment_character a (hc a (by simp)) (l ++ '"' :: rest)
    have := run_star_some h1 (by simp) (ih (fun x hx => hc x (by simp [hx])))
    simpa [R.append] using this

/-- the pair of a printed comment -/
def commentTree (c : List Char) : T := .node .comment ('"' :: c ++ ['"']) [.node .comment_inner c []]

theorem run_comment (c : List Char) (hok : okCommentChars c = true) (rest : List Char) :
    run g_comment false ('"' :: c ++ '"' :: rest) = some ⟨[commentTree c], '"' :: c ++ ['"'], rest⟩ := by
  obtain ⟨hne, hc⟩ := (okCommentChars_iff c).mp hok
  cases c with
  | nil => exact absurd rfl hne
  | cons a l =>
    have h1 := run_comment_character a (hc a (by simp)) (l ++ '"' :: rest)
    have h2 := run_comment_chars l (fun x hx => hc x (by simp [hx])) rest
    simp only [List.cons_append] at h1 ⊢
    simp [g_comment, g_comment_inner, g_comment_delimiter, PExpr.plus, commentTree, run_rule, run_seq,
      run_str, stripPrefix_cons_cons, R.append, h1, h2]

theorem build_comment (c : List Char) : buildComment (commentTree c) = .ok (String.ofList c) := by
  simp [buildComment, buildCommentInner, commentTree, assertRule, Tree.rule, Tree.kids, Tree.text, bind,
    Except.bind]

/-- no comment where there is no opening quote -/
theorem run_comment_none (inp : List Char) (h : ∀ r, inp ≠ '"' :: r) : run g_comment false inp = none := by
  cases inp with
  | nil => simp [g_comment, g_comment_delimiter, peg]
  | cons c r =>
    have : '"' ≠ c := by intro e; subst e; exact h r rfl
    simp [g_comment, g_comment_delimiter, peg, this]

theorem parses_comment (c : List Char) (hok : okCommentChars c = true) (rest : List Char) :
    ParsesTo g_comment buildComment ('"' :: c ++ ['"']) rest (String.ofList c) :=
  ⟨commentTree c, by simpa using run_comment c hok rest, build_comment c⟩

/-- what `Print.rule` writes between the quotes is a comment text again -/
theorem okCommentChars_join (cs : List String) (hne : cs ≠ []) (hok : ∀ s ∈ cs, okComment s = true) :
    okCommentChars (Print.joinComments cs) = true := by
  rw [okCommentChars_iff]
  induction cs with
  | nil => exact absurd rfl hne
  | cons a l ih =>
    have ha := (okCommentChars_iff _).mp (hok a (by simp))
    cases l with
    | nil => simpa [Print.joinComments] using ha
    | cons b l' =>
      obtain ⟨_, h2⟩ := ih (by simp) (fun s hs => hok s (by simp [hs]))
      constructor
      · have := ha.1
        cases hh : a.toList with
        | nil => exact absurd hh this
        | cons => simp [Print.joinComments, hh]
      · intro x hx
        simp only [Print.joinComments, Print.str, List.mem_append] at hx
        rcases hx with (hx | hx) | hx
        · exact ha.2 x hx
        · have : x = ',' ∨ x = ' ' := by simpa using hx
          rcases this with rfl | rfl <;> decide
        · exact h2 x hx

/-! ### `rules_modifier_enum` -/

def kindLeaf : Kind → PRule
  | .closed => .rules_modifier_enum_closed
  | .open => .rules_modifier_enum_open
  | .unknown => .rules_modifier_enum_unknown

def kindTree (k : Kind) : T :=
  .node .rules_modifier_enum (Print.kindStr k) [.node (kindLeaf k) (Print.kindStr k) []]

theorem run_modifier_enum (k : Kind) (rest : List Char) :
    run g_rules_modifier_enum false (Print.kindStr k ++ rest) = some ⟨[kindTree k], Print.kindStr k, rest⟩ := by
  cases k <;>
    simp [g_rules_modifier_enum, g_rules_modifier_enum_closed, g_rules_modifier_enum_open,
      g_rules_modifier_enum_unknown, kindTree, kindLeaf, Print.kindStr, Print.str, peg]

theorem build_modifier_enum (k : Kind) : buildRulesModifierEnum (kindTree k) = .ok k := by
  cases k <;>
    simp [buildRulesModifierEnum, kindTree, kindLeaf, assertRule, Tree.rule, Tree.kids, bind, Except.bind]

theorem kindStr_no_quote (k : Kind) (rest r : List Char) : Print.kindStr k ++ rest ≠ '"' :: r := by
  cases k <;> simp [Print.kindStr, Print.str]

/-- no modifier where the text starts with none of `c o u "` -/
theorem run_modifier_none (inp : List Char)
    (h : inp = [] ∨ ∃ c r, inp = c :: r ∧ c ≠ 'c' ∧ c ≠ 'o' ∧ c ≠ 'u' ∧ c ≠ '"') :
    run g_rules_modifier false inp = none := by
  rcases h with rfl | ⟨c, r, rfl, h1, h2, h3, h4⟩
  · simp [g_rules_modifier, g_rules_modifier_enum, g_rules_modifier_enum_closed,
      g_rules_modifier_enum_open, g_rules_modifier_enum_unknown, g_comment, g_comment_delimiter, peg]
  · simp [g_rules_modifier, g_rules_modifier_enum, g_rules_modifier_enum_closed,
      g_rules_modifier_enum_open, g_rules_modifier_enum_unknown, g_comment, g_comment_delimiter, peg,
      Ne.symm h1, Ne.symm h2, Ne.symm h3, Ne.symm h4]

/-! ### `rules_modifier = { comment | rules_modifier_enum ~ (space? ~ comment)? }` -/

/-- after a modifier without comment: no comment follows (directly or after one space) -/
def NoComment (rest : List Char) : Prop := (∀ r, rest ≠ '"' :: r) ∧ (∀ r, rest ≠ ' ' :: '"' :: r)

/-- `closed` / `unknown` alone -/
theorem parses_modifier_kind (k : Kind) (rest : List Char) (hf : NoComment rest) :
    ParsesTo g_rules_modifier buildRulesModifier (Print.kindStr k) rest (k, none) := by
  refine ParsesTo.mk' .rules_modifier [kindTree k] ?_ ?_
  · have h1 := run_comment_none (Print.kindStr k ++ rest) (kindStr_no_quote k rest)
    have h2 := run_modifier_enum k rest
    have h3 : run (.seq (.opt g_space) g_comment) false rest = none := by
      cases rest with
      | nil => simp [g_space, peg, run_comment_none [] (by simp)]
      | cons c r =>
        by_cases hc : c = ' '
        · subst hc
          have := run_comment_none r (fun r' e => hf.2 r' (by rw [e]))
          simp [g_space, peg, this]
        · have := run_comment_none (c :: r) hf.1
          simp [g_space, peg, Ne.symm hc, this]
    simp [g_rules_modifier, run_rule, run_alt, run_seq, run_opt, h1, h2, h3, R.append, R.nil]
  · have h1 := build_modifier_enum k
    simp only [kindTree] at h1
    simp [buildRulesModifier, assertRule, Tree.rule, Tree.kids, kindTree, h1, bind, Except.bind]

/-- `closed "x"` / `unknown "x"` -/
theorem parses_modifier_kind_comment (k : Kind) (c : List Char) (hok : okCommentChars c = true)
    (rest : List Char) :
    ParsesTo g_rules_modifier buildRulesModifier (Print.kindStr k ++ ' ' :: '"' :: c ++ ['"']) rest
      (k, some (String.ofList c)) := by
  refine ParsesTo.mk' .rules_modifier [kindTree k, commentTree c] ?_ ?_
  · have h1 := run_comment_none (Print.kindStr k ++ (' ' :: '"' :: c ++ '"' :: rest))
      (kindStr_no_quote k _)
    have h2 := run_modifier_enum k (' ' :: '"' :: c ++ '"' :: rest)
    have h3 := run_comment c hok rest
    simp only [List.append_assoc, List.cons_append, List.nil_append] at h1 h2 h3 ⊢
    simp [g_rules_modifier, g_space, run_rule, run_alt, run_seq, run_opt, run_str, stripPrefix_cons_cons,
      h1, h2, h3, R.append]
  · have h1 := build_modifier_enum k
    have h2 := build_comment c
    simp only [kindTree] at h1
    simp [buildRulesModifier, assertRule, Tree.rule, Tree.kids, kindTree, h1, h2, bind, Except.bind]

/-- `"x"` alone (the kind is `open`, which is never written) -/
theorem parses_modifier_comment (c : List Char) (hok : okCommentChars c = true) (rest : List Char) :
    ParsesTo g_rules_modifier buildRulesModifier ('"' :: c ++ ['"']) rest (.open, some (String.ofList c)) := by
  refine ParsesTo.mk' .rules_modifier [commentTree c] ?_ ?_
  · have h3 := run_comment c hok rest
    simp only [List.append_assoc, List.cons_append, List.nil_append] at h3 ⊢
    simp [g_rules_modifier, run_rule, run_alt, h3]
  · have h2 := build_comment c
    simp only [commentTree, List.cons_append] at h2
    simp [buildRulesModifier, assertRule, Tree.rule, Tree.kids, commentTree, h2, bind, Except.bind]

/-! ### `any_rule_separator` -/

def sepLeaf : RuleOp → PRule
  | .normal => .normal_rule_separator
  | .additional => .additional_rule_separator
  | .fallback => .fallback_rule_separator

def sepTree (op : RuleOp) (text : List Char) : T :=
  .node .any_rule_separator text [.node (sepLeaf op) text []]

theorem build_sep (op : RuleOp) (text : List Char) : buildAnyRuleSeparator (sepTree op text) = .ok op := by
  cases op <;>
    simp [buildAnyRuleSeparator, sepTree, sepLeaf, assertRule, Tree.rule, Tree.kids, bind, Except.bind]

/-- the printed separator without its leading space (`" ; "` ↦ `"; "`, `" || "` ↦ `"|| "`); the space
is consumed by the rule before when that rule has no modifier -/
def sepCore : RuleOp → List Char
  | .normal => [';', ' ']
  | .additional => [',', ' ']
  | .fallback => ['|', '|', ' ']

/-- the optional leading space of a printed separator -/
def sepLead : RuleOp → List Char
  | .additional => []
  | _ => [' ']

theorem sepStr_eq (op : RuleOp) : Print.sepStr op = sepLead op ++ sepCore op := by
  cases op <;> rfl

/-- a separator is read back whether or not its leading space is still there, provided the next rule
does not start with a space (`normal_rule_separator` ends with `space?`) -/
theorem run_sep (op : RuleOp) (sp : List Char) (hsp : sp = [] ∨ sp = sepLead op) (rest : List Char)
    (hr : ∀ r, rest ≠ ' ' :: r) :
    run g_any_rule_separator false (sp ++ sepCore op ++ rest)
      = some ⟨[sepTree op (sp ++ sepCore op)], sp ++ sepCore op, rest⟩ := by
  have hsp0 : run (.opt g_space) true rest = some ⟨[], [], rest⟩ := by
    cases rest with
    | nil => simp [g_space, peg]
    | cons c r =>
      have : ' ' ≠ c := by intro e; subst e; exact hr r rfl
      simp [g_space, peg, this]
  cases op with
  | normal =>
    rcases hsp with rfl | rfl <;>
      simp [g_any_rule_separator, g_normal_rule_separator, g_space, sepTree, sepLeaf, sepCore, sepLead,
        run_rule, run_alt, run_seq, run_opt, run_str, stripPrefix_cons_cons, R.append, R.nil] <;>
      (simp only [g_space, run_opt, run_str] at hsp0; simp [hsp0])
  | additional =>
    have : sp = [] := by rcases hsp with h | h <;> simpa [sepLead] using h
    subst this
    simp [g_any_rule_separator, g_normal_rule_separator, g_additional_rule_separator, g_space, sepTree,
      sepLeaf, sepCore, peg]
  | fallback =>
    rcases hsp with rfl | rfl <;>
      simp [g_any_rule_separator, g_normal_rule_separator, g_additional_rule_separator,
        g_fallback_rule_separator, g_space, sepTree, sepLeaf, sepCore, sepLead, peg]

end OH.Proofs.Syn
