import OH.Proofs.SynTotalLex
/-
Totality, weekday selector: `day_offset`, `nth_entry`, `weekday_range`, `weekday_sequence`, `holiday`,
`holiday_sequence`, `weekday_selector`.
-/
namespace OH.Proofs.SynTotal
open OH.Model OH.Model.Peg OH.Model.Parser OH.Generated.Grammar

theorem i64Ok_zero : i64Ok 0 = true := by decide

theorem conf_day_offset {k t} (h : Conf g_day_offset false k t) :
    ∃ x, k = [x] ∧ Good .day_offset buildDayOffset (fun n => i64Ok n = true) x := by
  conf_unfoldk [g_day_offset, g_space] at h
  conf_destruct [conf_plus_or_minus, conf_positive_number]
  refine ⟨_, rfl, rfl, ?_⟩
  build_simp [buildDayOffset]
  safe_bind
  safe_bind
  split
  · simp
  · split <;> simp [i64Ok] <;> omega

theorem conf_nth_val {k t} (h : Conf g_nth false k t) :
    ∃ x, k = [x] ∧ Good .nth buildNth (fun n => 1 ≤ n ∧ n ≤ 5) x := by
  obtain ⟨x, rfl, hx⟩ := conf_nth h
  obtain ⟨hr, n, h0, h1, hp⟩ := hx
  refine ⟨x, rfl, hr, ?_⟩
  build_simp [buildNth, hr, hp]
  omega

theorem conf_nth_entry {k t} (h : Conf g_nth_entry false k t) :
    ∃ x, k = [x] ∧ Good .nth_entry buildNthEntry (fun r => 1 ≤ r.2.1 ∧ r.2.1 ≤ 5 ∧ 1 ≤ r.2.2 ∧ r.2.2 ≤ 5) x := by
  conf_unfoldk [g_nth_entry, g_nth_minus] at h
  conf_destruct [conf_nth_val]
  all_goals refine ⟨_, rfl, rfl, ?_⟩
  all_goals build_simp [buildNthEntry, *]
  all_goals repeat safe_bind
  all_goals simp
  all_goals omega

/-- `arr[i - 1] = true` for `i` in `a..=b`, on a `[bool; 5]`, with `1 ≤ a, b ≤ 5`: no index panic -/
theorem setNth_safe {arr : List Bool} {a b : Nat} (hl : arr.length = 5) (ha : 1 ≤ a) (hb : b ≤ 5) :
    Safe (fun r => r.length = 5) (setNth arr a b) := by
  unfold setNth
  split
  · simpa using hl
  · split
    · omega
    · split
      · omega
      · simp

abbrev NthEntryGood := Good .nth_entry buildNthEntry
  (fun r => 1 ≤ r.2.1 ∧ r.2.1 ≤ 5 ∧ 1 ≤ r.2.2 ∧ r.2.2 ≤ 5)

/-- the `while pairs.peek() is nth_entry` loop -/
theorem nthLoop_safe (es rest : List T) (hes : ∀ e ∈ es, NthEntryGood e)
    (hrest : ∀ o r, rest = o :: r → o.rule ≠ .nth_entry) :
    ∀ (s e : List Bool), s.length = 5 → e.length = 5 →
      Safe (fun r => r.1.length = 5 ∧ r.2.1.length = 5 ∧ r.2.2 = rest) (nthLoop (es ++ rest) s e) := by
  induction es with
  | nil =>
    intro s e hs he
    cases rest with
    | nil => simp [nthLoop, hs, he]
    | cons o r =>
      have := hrest o r rfl
      simp [nthLoop, this, hs, he]
  | cons x xs ih =>
    intro s e hs he
    have hx := hes x (by simp)
    simp only [List.cons_append, nthLoop, hx.1, if_true]
    refine Safe.bind hx.2 (fun r hr => ?_)
    obtain ⟨sign, a, b⟩ := r
    simp only at hr
    cases sign with
    | neg =>
      refine Safe.bind (setNth_safe he hr.1 hr.2.2.2) (fun e' he' => ?_)
      exact ih (fun y hy => hes y (by simp [hy])) s e' hs he'
    | pos =>
      refine Safe.bind (setNth_safe hs hr.1 hr.2.2.2) (fun s' hs' => ?_)
      exact ih (fun y hy => hes y (by simp [hy])) s' e hs' he


abbrev DayOffsetGood := Good .day_offset buildDayOffset (fun n => i64Ok n = true)
abbrev WdayGood := Good .wday buildWday (fun d => d ≤ 6)

/-- `wday ~ nth_entry* ~ day_offset?` (covers `wday "[" nth,… "]" day_offset?` and the bare `wday`) -/
theorem buildWeekdayRange_nth (txt : List Char) (wd : T) (es rest : List T) (hwd : WdayGood wd)
    (hes : ∀ e ∈ es, NthEntryGood e) (hrest : rest = [] ∨ ∃ o, rest = [o] ∧ DayOffsetGood o) :
    Safe (fun r => r.wf = true) (buildWeekdayRange (.node .weekday_range txt (wd :: (es ++ rest)))) := by
  have hr1 : ∀ o r, rest = o :: r → o.rule ≠ .nth_entry := by
    intro o r h
    rcases hrest with rfl | ⟨o', rfl, ho⟩
    · cases h
    · cases h; rw [ho.1]; decide
  have hhead : ∀ b r, es ++ rest = b :: r → b.rule ≠ .wday := by
    intro b r hbr
    cases es with
    | nil =>
      rcases hrest with rfl | ⟨o, rfl, ho⟩
      · cases hbr
      · cases hbr; rw [ho.1]; decide
    | cons e es' =>
      cases hbr; rw [(hes b (by simp)).1]; decide
  build_simp_only [buildWeekdayRange]
  refine Safe.bind hwd.2 (fun start hstart => ?_)
  refine Safe.bind (wa := fun p => p = (start, es ++ rest)) ?_ ?_
  · split
    · next b r heq => simp [hhead b r heq]
    · next heq => simp [heq]
  rintro _ rfl
  simp only []
  refine Safe.bind (nthLoop_safe es rest hes hr1 allFalse5 allFalse5 rfl rfl) (fun r hr => ?_)
  obtain ⟨ns, ne, rest3⟩ := r
  simp only at hr
  obtain ⟨hns, hne, hr3⟩ := hr
  subst hr3
  refine Safe.bind (wa := fun n => i64Ok n = true) ?_ (fun off hoff' => ?_)
  · rcases hrest with rfl | ⟨o, rfl, ho⟩
    · simp [i64Ok]
    · exact ho.2
  simp only [Safe.ok_iff, WeekDayRange.wf]
  split <;> simp [allTrue5, *] <;> omega


theorem conf_weekday_range {k t} (h : Conf g_weekday_range false k t) :
    ∃ x, k = [x] ∧ Good .weekday_range buildWeekdayRange (fun r => r.wf = true) x := by
  conf_unfoldk [g_weekday_range] at h
  conf_destruct [conf_wday, conf_nth_entry, conf_day_offset]
  · have hall := starOf_sep (fun _ _ => conf_nth_entry) ‹StarOf _ _ _ _›
    refine ⟨_, rfl, rfl, ?_⟩
    refine buildWeekdayRange_nth _ _ (_ :: _) [] ⟨‹_›, ‹_›⟩ ?_ (Or.inl rfl)
    intro e he
    rcases List.mem_cons.mp he with rfl | he
    · exact ⟨‹_›, ‹_›⟩
    · exact hall e he
  · have hall := starOf_sep (fun _ _ => conf_nth_entry) ‹StarOf _ _ _ _›
    refine ⟨_, rfl, rfl, ?_⟩
    refine buildWeekdayRange_nth _ _ (_ :: _) [_] ⟨‹_›, ‹_›⟩ ?_ (Or.inr ⟨_, rfl, ‹_›, ‹_›⟩)
    intro e he
    rcases List.mem_cons.mp he with rfl | he
    · exact ⟨‹_›, ‹_›⟩
    · exact hall e he
  · refine ⟨_, rfl, rfl, ?_⟩
    build_simp [buildWeekdayRange, nthLoop, *]
    safe_bind
    safe_bind
    simp [WeekDayRange.wf, allTrue5, allFalse5, i64Ok, *]
  · refine ⟨_, rfl, rfl, ?_⟩
    exact buildWeekdayRange_nth _ _ [] [] ⟨‹_›, ‹_›⟩ (by simp) (Or.inl rfl)

theorem conf_weekday_sequence {k t} (h : Conf g_weekday_sequence false k t) :
    ∃ x, k = [x] ∧ x.rule = .weekday_sequence ∧
      Safe (fun l => ∀ r ∈ l, r.wf = true) (x.kids.mapM buildWeekdayRange) := by
  obtain ⟨k', rfl, hb⟩ := Conf.rule_shape h
  refine ⟨_, rfl, rfl, ?_⟩
  obtain ⟨x, xs, rfl, hall⟩ := conf_sep_list (fun _ _ => conf_weekday_range) hb
  exact (Safe.mapM_ne x xs (fun y hy => (hall y hy).2)).mono (fun _ h => h.2)

theorem conf_holiday {k t} (h : Conf g_holiday false k t) :
    ∃ x, k = [x] ∧ Good .holiday buildHoliday (fun r => r.wf = true) x := by
  conf_unfoldk [g_holiday, g_public_holiday, g_school_holiday] at h
  conf_destruct [conf_day_offset]
  all_goals refine ⟨_, rfl, rfl, ?_⟩
  all_goals build_simp [buildHoliday, *]
  all_goals repeat safe_bind
  all_goals simp [WeekDayRange.wf, i64Ok_zero, *]

theorem conf_holiday_sequence {k t} (h : Conf g_holiday_sequence false k t) :
    ∃ x, k = [x] ∧ x.rule = .holiday_sequence ∧
      Safe (fun l => ∀ r ∈ l, r.wf = true) (x.kids.mapM buildHoliday) := by
  obtain ⟨k', rfl, hb⟩ := Conf.rule_shape h
  refine ⟨_, rfl, rfl, ?_⟩
  obtain ⟨x, xs, rfl, hall⟩ := conf_sep_list (fun _ _ => conf_holiday) hb
  exact (Safe.mapM_ne x xs (fun y hy => (hall y hy).2)).mono (fun _ h => h.2)


theorem conf_weekday_selector {k t} (h : Conf g_weekday_selector false k t) :
    ∃ x, k = [x] ∧ Good .weekday_selector buildWeekdaySelector (fun l => ∀ r ∈ l, r.wf = true) x := by
  conf_unfoldk [g_weekday_selector] at h
  conf_destruct [conf_weekday_sequence, conf_holiday_sequence]
  all_goals refine ⟨_, rfl, rfl, ?_⟩
  all_goals build_simp [buildWeekdaySelector, *]
  all_goals repeat safe_bind
  all_goals simp only [Safe.ok_iff, List.mem_append]
  all_goals intro r hr
  all_goals first | (rcases hr with hr | hr <;> simp [*]) | simp [*]

end OH.Proofs.SynTotal
