import OH.Proofs.SynTotalLex
/-
Totality, weekday selector: `day_offset`, `nth_entry`, `weekday_range`, `weekday_sequence`, `holiday`,
`holiday_sequence`, `weekday_selector`.
-/
namespace OH.Proofs.SynTotal
open OH.Model OH.Model.Peg OH.Model.Parser OH.Generated.Grammar

theorem conf_day_offset {k t} (h : Conf g_day_offset false k t) :
    ∃ x, k = [x] ∧ Good .day_offset buildDayOffset (fun n => i64Ok n = true) x := by
  conf_unfoldk [g_day_offset, g_space] at h
  conf_destruct [conf_plus_or_minus, conf_positive_number]
  refine ⟨_, rfl, rfl, ?_⟩
  build_simp [buildDayOffset]
  safe_bind
  safe_bind
  split
  · simp
  · split <;> simp [i64Ok] <;> omega

theorem conf_nth_val {k t} (h : Conf g_nth false k t) :
    ∃ x, k = [x] ∧ Good .nth buildNth (fun n => 1 ≤ n ∧ n ≤ 5) x := by
  obtain ⟨x, rfl, hx⟩ := conf_nth h
  obtain ⟨hr, n, h0, h1, hp⟩ := hx
  refine ⟨x, rfl, hr, ?_⟩
  build_simp [buildNth, hr, hp]
  omega

theorem conf_nth_entry {k t} (h : Conf g_nth_entry false k t) :
    ∃ x, k = [x] ∧ Good .nth_entry buildNthEntry (fun r => 1 ≤ r.2.1 ∧ r.2.1 ≤ 5 ∧ 1 ≤ r.2.2 ∧ r.2.2 ≤ 5) x := by
  conf_unfoldk [g_nth_entry, g_nth_minus] at h
  conf_destruct [conf_nth_val]
  all_goals refine ⟨_, rfl, rfl, ?_⟩
  all_goals build_simp [buildNthEntry, *]
  all_goals repeat safe_bind
  all_goals trace_state
  all_goals sorry

end OH.Proofs.SynTotal
