import OH.Proofs.SynRule3
/-
Assembly, part 4: `selector_sequence` on the selector part of a printed rule, together with the
`space?` that follows it in `rule_sequence` (who consumes the space after the selectors — the
`separator_for_readability?` of `wide_range_selectors` or the `space?` of `rule_sequence` — depends on
what is printed; the two together always consume exactly one space when there is one).
-/
namespace OH.Proofs.Syn
open OH.Model OH.Model.Peg OH.Model.Parser OH.Generated.Grammar OH.Proofs.Syn.Wide

/-! ### engine: sequences re-associate -/

theorem run_seq_assoc (a b c : G) (q : Bool) (inp : List Char) :
    run (.seq a (.seq b c)) q inp = run (.seq (.seq a b) c) q inp := by
  simp only [run_seq]
  cases run a q inp with
  | none => rfl
  | some r1 =>
    simp only
    cases run b q r1.rest with
    | none => rfl
    | some r2 =>
      simp only [R.append]
      cases run c q r2.rest with
      | none => rfl
      | some r3 => simp [List.append_assoc]

/-! ### the weekday and time selectors as printed -/

/-- the time list as printed: `00:00-24:00` alone is not written -/
def timesPrinted (ts : List TimeSpan) : List TimeSpan := if is0024 ts then [] else ts

theorem is0024_iff (ts : List TimeSpan) : is0024 ts = true ↔ ts = [TimeSpan.fullDay] := by
  simp [is0024]

/-- `TimeSelector::new` gives the time list back -/
theorem timeSelectorNew_printed (ts : List TimeSpan) (hne : ts ≠ []) :
    timeSelectorNew (timesPrinted ts) = ts := by
  by_cases h : is0024 ts = true
  · have := (is0024_iff ts).mp h
    simp [timesPrinted, timeSelectorNew, this]
  · cases ts with
    | nil => exact absurd rfl hne
    | cons t tl => simp [timesPrinted, h, timeSelectorNew]

/-- weekday list and time list, with one space between them when both are written -/
def smallText : List WeekDayRange → List TimeSpan → List Char
  | [], ts => timeSel ts
  | w :: ws, [] => wdSel (w :: ws)
  | w :: ws, t :: ts => wdSel (w :: ws) ++ ' ' :: timeSel (t :: ts)

/-- the conditions on the weekday list and the (printed) time list of a parsed rule -/
structure OkSmall (ws : List WeekDayRange) (ts : List TimeSpan) : Prop where
  wd : ws ≠ [] → okWeekdays ws = true
  tm : ts ≠ [] → okTimes ts = true

theorem parses_small (ws : List WeekDayRange) (ts : List TimeSpan) (hne : ¬ (ws = [] ∧ ts = []))
    (hok : OkSmall ws ts) (rest : List Char) (hf : FollowSel rest) :
    ParsesTo g_small_range_selectors buildSmallRangeSelectors (smallText ws ts) rest (ws, ts) := by
  cases ws with
  | nil =>
    cases ts with
    | nil => simp at hne
    | cons t tl => exact parses_small_time _ (hok.tm (by simp)) rest hf
  | cons w wl =>
    cases ts with
    | nil => exact parses_small_weekday _ (hok.wd (by simp)) rest hf
    | cons t tl => exact parses_small_both _ (hok.wd (by simp)) _ (hok.tm (by simp)) rest hf

/-- the printed small selectors are a printed weekday selector or a printed time selector, followed
by something -/
theorem smallText_cases (ws : List WeekDayRange) (ts : List TimeSpan) (hne : ¬ (ws = [] ∧ ts = []))
    (hok : OkSmall ws ts) (rest : List Char) :
    (∃ ws' r, okWeekdays ws' = true ∧ smallText ws ts ++ rest = wdSel ws' ++ r)
      ∨ (∃ ts' r, okTimes ts' = true ∧ smallText ws ts ++ rest = timeSel ts' ++ r) := by
  cases ws with
  | nil =>
    cases ts with
    | nil => simp at hne
    | cons t tl => exact .inr ⟨_, rest, hok.tm (by simp), rfl⟩
  | cons w wl =>
    cases ts with
    | nil => exact .inl ⟨_, rest, hok.wd (by simp), rfl⟩
    | cons t tl =>
      exact .inl ⟨_, ' ' :: timeSel (t :: tl) ++ rest, hok.wd (by simp), by simp [smallText]⟩

theorem noWideStart_small (ws : List WeekDayRange) (ts : List TimeSpan) (hne : ¬ (ws = [] ∧ ts = []))
    (hok : OkSmall ws ts) (rest : List Char) : NoWideStart (smallText ws ts ++ rest) := by
  rcases smallText_cases ws ts hne hok rest with ⟨ws', r, h, e⟩ | ⟨ts', r, h, e⟩
  · rw [e]; exact noWideStart_wdSel ws' h r
  · rw [e]; exact noWideStart_timeSel ts' h r

/-- first character of the printed small selectors: it can start a rule and `24/7` does not match -/
theorem small_head (ws : List WeekDayRange) (ts : List TimeSpan) (hne : ¬ (ws = [] ∧ ts = []))
    (hok : OkSmall ws ts) (rest : List Char) :
    (∃ c cs, smallText ws ts ++ rest = c :: cs ∧ RuleStart c)
      ∧ run g_always_open false (smallText ws ts ++ rest) = none := by
  rcases smallText_cases ws ts hne hok rest with ⟨ws', r, h, e⟩ | ⟨ts', r, h, e⟩
  · rw [e]
    rcases wdSel_head ws' h with ⟨lo, tl, hlo, e'⟩ | ⟨c, tl, e', hc⟩
    · rw [e']
      rcases le6_cases hlo with h | h | h | h | h | h | h <;> subst h <;>
        simp [Print.wdayStr, Print.str, RuleStart, g_always_open, peg]
    · rw [e']
      rcases hc with rfl | rfl <;> simp [RuleStart, g_always_open, peg]
  · rw [e]
    rcases timeSel_head2 ts' h with ⟨a, b, cs, ha, hb, e'⟩ | ⟨c, cs, e', hc⟩
    · rw [e']
      obtain ⟨h0, h9⟩ := dc_digit a ha
      obtain ⟨-, -, -, f4, -, -, f7, f8, f9⟩ := digit_facts (dc a) h0 h9
      refine ⟨⟨_, _, rfl, f4, f7, f8, f9⟩, ?_⟩
      simp [g_always_open, peg]
    · rw [e']
      rcases hc with rfl | rfl | rfl <;> simp [RuleStart, g_always_open, peg]

/-! ### what follows the selectors -/

/-- the text after the selector part of a printed rule (a modifier, a separator, or nothing), cut
after the single space it may start with -/
inductive Cut : List Char → List Char → List Char → Prop
  | nil : Cut [] [] []
  | comma (r : List Char) : Cut (',' :: ' ' :: r) [] (',' :: ' ' :: r)
  | space (c : Char) (r : List Char) : ModStart c → Cut (' ' :: c :: r) [' '] (c :: r)

theorem modStart_ne_space (c : Char) (h : ModStart c) : ' ' ≠ c := by
  rcases h with rfl | rfl | rfl | rfl | rfl | rfl <;> decide

theorem Cut.eq {a sp a' : List Char} (h : Cut a sp a') : a = sp ++ a' := by
  cases h <;> rfl

theorem Cut.followSel {a sp a' : List Char} (h : Cut a sp a') : FollowSel a := by
  cases h with
  | nil => exact .inl rfl
  | comma r => exact .inr (.inl ⟨r, rfl⟩)
  | space c r hc => exact .inr (.inr ⟨c, r, rfl, hc⟩)

/-- `space?` on the whole text -/
theorem Cut.optSpace {a sp a' : List Char} (h : Cut a sp a') :
    run (.opt g_space) false a = some ⟨[], sp, a'⟩ := by
  cases h <;> simp [g_space, peg]

/-- `space?` after the space is gone -/
theorem Cut.optSpace' {a sp a' : List Char} (h : Cut a sp a') :
    run (.opt g_space) false a' = some ⟨[], [], a'⟩ := by
  cases h with
  | nil => simp [g_space, peg]
  | comma r => simp [g_space, peg]
  | space c r hc => simp [g_space, peg, modStart_ne_space c hc]

theorem Cut.small_none {a sp a' : List Char} (h : Cut a sp a') :
    run g_small_range_selectors false a' = none := by
  apply run_small_none
  cases h with
  | nil => exact .inl rfl
  | comma r => exact .inr ⟨',', _, rfl, by decide, by unfold TimeStart; decide⟩
  | space c r hc => exact .inr ⟨c, r, rfl, modStart_noWdStart c hc, modStart_noTimeStart c hc⟩

theorem Cut.afterWide {a sp a' : List Char} (h : Cut a sp a') : AfterWide sp a' := by
  cases h with
  | nil => exact .inl ⟨rfl, .inl rfl⟩
  | comma r => exact .inl ⟨rfl, .inr ⟨r, rfl⟩⟩
  | space c r hc => exact .inr ⟨rfl, .inl ⟨c, r, rfl, hc⟩⟩

/-! ### `buildSelectorSequence` on the two shapes of pairs -/

theorem build_selseq_both (text : List Char) (tw tsm : T) (hr : tw.rule = .wide_range_selectors)
    (W : Wide) (hbw : buildWideRangeSelectors tw = .ok W) (x : List WeekDayRange × List TimeSpan)
    (hbs : buildSmallRangeSelectors tsm = .ok x) :
    buildSelectorSequence (.node .selector_sequence text [tw, tsm])
      = .ok (⟨W.year, W.monthday, W.week, x.1⟩, timeSelectorNew x.2, W.comment) := by
  cases tw with
  | node a b c =>
    simp only [Tree.rule] at hr
    subst hr
    simp [buildSelectorSequence, assertRule, Tree.rule, Tree.kids, hbw, hbs, bind, Except.bind]

theorem build_selseq_wide (text : List Char) (tw : T) (hr : tw.rule = .wide_range_selectors)
    (W : Wide) (hbw : buildWideRangeSelectors tw = .ok W) :
    buildSelectorSequence (.node .selector_sequence text [tw])
      = .ok (⟨W.year, W.monthday, W.week, []⟩, [TimeSpan.fullDay], W.comment) := by
  cases tw with
  | node a b c =>
    simp only [Tree.rule] at hr
    subst hr
    simp [buildSelectorSequence, assertRule, Tree.rule, Tree.kids, hbw, timeSelectorNew, bind, Except.bind]

/-! ### the selector part of a printed rule -/

theorem isConstant_iff (r : Rule) :
    r.isConstant = true ↔ r.day = ⟨[], [], [], []⟩ ∧ r.time = [TimeSpan.fullDay] := by
  obtain ⟨⟨y, m, w, wd⟩, t, k, o, c⟩ := r
  simp [Rule.isConstant, DaySelector.isEmpty, is0024, List.isEmpty_iff, and_assoc]

theorem selText_aux (W : Bool) (wt : List Char) (wd : List WeekDayRange) (ts : List TimeSpan) (h24 : Bool)
    (hts : ts ≠ []) :
    wt ++ ((if !W && !wd.isEmpty then [' '] else []) ++ wdSel wd)
        ++ (if !h24 then (if !(W && wd.isEmpty) then [' '] else []) ++ timeSel ts else [])
      = wt ++ ((if !W && !(wd.isEmpty && (if h24 then [] else ts).isEmpty) then [' '] else [])
          ++ smallText wd (if h24 then [] else ts)) := by
  cases ts with
  | nil => exact absurd rfl hts
  | cons t tl =>
    cases W <;> cases wd <;> cases h24 <;> simp [smallText, timeSel, wdSel, Print.selector]

/-- the selector part of a rule that is not printed `24/7` -/
theorem selText_eq (r : Rule) (hc : r.isConstant = false) (ht : r.time ≠ []) :
    selText r = wideText r.day
      ++ ((if !wideEmpty r.day && !(r.day.weekday.isEmpty && (timesPrinted r.time).isEmpty) then [' '] else [])
          ++ smallText r.day.weekday (timesPrinted r.time)) := by
  have he : r.day.isEmpty = (wideEmpty r.day && r.day.weekday.isEmpty) := rfl
  have := selText_aux (wideEmpty r.day) (wideText r.day) r.day.weekday r.time (is0024 r.time) ht
  simp only [selText, hc, Bool.false_eq_true, if_false, daySelector_eq, he, timesPrinted]
  simpa using this

theorem opt_some' {a : G} {q : Bool} {inp : List Char} {r : R PRule} (h : run a q inp = some r) :
    run (.opt a) q inp = some r := by simp [run_opt, h]

theorem opt_none' {a : G} {q : Bool} {inp : List Char} (h : run a q inp = none) :
    run (.opt a) q inp = some ⟨[], [], inp⟩ := by simp [run_opt, h, R.nil]

theorem run_selector_space (r : Rule) (hts : okTimes r.time = true)
    (hwd : r.day.weekday ≠ [] → okWeekdays r.day.weekday = true)
    (hw : wideEmpty r.day = false → WideHyp r.day) (after sp after' : List Char)
    (hcut : Cut after sp after') :
    ∃ t, run (.seq g_selector_sequence (.opt g_space)) false (selText r ++ after)
        = some ⟨[t], selText r ++ sp, after'⟩ ∧ buildSelectorSequence t = .ok (r.day, r.time, none) := by
  have htne : r.time ≠ [] := ((okTimes_iff _).mp hts).1
  by_cases hc : r.isConstant = true
  · -- `24/7`
    obtain ⟨hd, ht⟩ := (isConstant_iff r).mp hc
    refine ⟨.node .selector_sequence ['2', '4', '/', '7'] [.node .always_open ['2', '4', '/', '7'] []], ?_, ?_⟩
    · have := hcut.optSpace
      simp [selText, hc, Print.str, g_selector_sequence, g_always_open, run_rule, run_seq, run_alt, run_str,
        stripPrefix_cons_cons, this, R.append]
    · simp [buildSelectorSequence, assertRule, Tree.rule, Tree.kids, hd, ht, bind, Except.bind]
  · have hc' : r.isConstant = false := by simpa using hc
    have hok : OkSmall r.day.weekday (timesPrinted r.time) := by
      refine ⟨hwd, ?_⟩
      intro h
      by_cases h24 : is0024 r.time = true
      · simp [timesPrinted, h24] at h
      · simpa [timesPrinted, h24] using hts
    have hday : r.day = ⟨r.day.year, r.day.monthday, r.day.week, r.day.weekday⟩ := rfl
    have h24_of : timesPrinted r.time = [] → r.time = [TimeSpan.fullDay] := by
      intro h
      by_cases h24 : is0024 r.time = true
      · exact (is0024_iff _).mp h24
      · simp only [timesPrinted, h24, Bool.false_eq_true, if_false] at h; exact absurd h htne
    rw [selText_eq r hc' htne]
    by_cases hse : r.day.weekday = [] ∧ timesPrinted r.time = []
    · -- only the wide part is printed
      have hW : wideEmpty r.day = false := by
        cases hW : wideEmpty r.day with
        | false => rfl
        | true =>
          exfalso
          have h1 : r.day.isEmpty = true := by
            show (wideEmpty r.day && r.day.weekday.isEmpty) = true
            rw [hW, hse.1]; rfl
          have h2 : is0024 r.time = true := (is0024_iff _).mpr (h24_of hse.2)
          have : r.isConstant = true := by simp only [Rule.isConstant, h1, h2, Bool.and_self]
          rw [this] at hc'; cases hc'
      have H := hw hW
      obtain ⟨tw, htw, hbw⟩ := H.parses sp after' hcut.afterWide
      have hrw := rule_of_run htw
      have hao := H.notAlways (sp ++ after')
      have e1 : (if (!wideEmpty r.day && !(r.day.weekday.isEmpty && (timesPrinted r.time).isEmpty)) = true
          then [' '] else []) ++ smallText r.day.weekday (timesPrinted r.time) = [] := by
        rw [hse.1, hse.2]; simp [smallText, timeSel, Print.selector]
      rw [e1, List.append_nil]
      refine ⟨.node .selector_sequence (wideText r.day ++ sp) [tw], ?_, ?_⟩
      · rw [hcut.eq]
        simp only [List.append_assoc] at htw hao
        have h1 := opt_none' hcut.small_none
        have h2 := hcut.optSpace'
        simp [g_selector_sequence, run_rule, run_seq, run_alt, hao, htw, h1, h2, R.append]
      · rw [build_selseq_wide _ tw hrw _ hbw, h24_of hse.2]
        conv => rhs; rw [hday, hse.1]
    · -- a weekday or time selector is printed
      obtain ⟨tsm, htsm, hbsm⟩ := parses_small _ _ hse hok after hcut.followSel
      have hse' : (r.day.weekday.isEmpty && (timesPrinted r.time).isEmpty) = false := by
        cases h1 : r.day.weekday with
        | cons _ _ => rfl
        | nil =>
          cases h2 : timesPrinted r.time with
          | cons _ _ => rfl
          | nil => exact absurd ⟨h1, h2⟩ hse
      have hbuild : ∀ text tw, tw.rule = .wide_range_selectors →
          buildWideRangeSelectors tw = .ok ⟨r.day.year, r.day.monthday, r.day.week, none⟩ →
          buildSelectorSequence (.node .selector_sequence text [tw, tsm]) = .ok (r.day, r.time, none) := by
        intro text tw hrw hbw
        rw [build_selseq_both text tw tsm hrw _ hbw _ hbsm]
        simp only [timeSelectorNew_printed r.time htne]
      have h2 := hcut.optSpace
      have h3 := opt_some' htsm
      cases hW : wideEmpty r.day with
      | true =>
        have hnw := noWideStart_small _ _ hse hok after
        obtain ⟨tw, htw, hbw⟩ := parses_wide_empty _ hnw
        have hrw := rule_of_run htw
        have hao := (small_head _ _ hse hok after).2
        have hwe : wideText r.day = [] := wideText_empty _ hW
        have hyw : r.day.year = [] ∧ r.day.monthday = [] ∧ r.day.week = [] := by
          simp only [wideEmpty, Bool.and_eq_true, List.isEmpty_iff] at hW
          exact ⟨hW.1.1, hW.1.2, hW.2⟩
        simp only [hwe, Bool.not_true, Bool.false_and, Bool.false_eq_true, if_false, List.nil_append]
        refine ⟨.node .selector_sequence (smallText r.day.weekday (timesPrinted r.time)) [tw, tsm], ?_,
          hbuild _ tw hrw (by rw [hyw.1, hyw.2.1, hyw.2.2]; exact hbw)⟩
        simp only [List.nil_append] at htw
        simp [g_selector_sequence, run_rule, run_seq, run_alt, hao, htw, h2, h3, R.append]
      | false =>
        have H := hw hW
        have haw : AfterWide [' '] (smallText r.day.weekday (timesPrinted r.time) ++ after) := by
          refine .inr ⟨rfl, .inr ?_⟩
          exact smallText_cases _ _ hse hok after
        obtain ⟨tw, htw, hbw⟩ := H.parses _ _ haw
        have hrw := rule_of_run htw
        have hao := H.notAlways ([' '] ++ (smallText r.day.weekday (timesPrinted r.time) ++ after))
        simp only [hse', Bool.not_false, Bool.and_self, if_true]
        refine ⟨.node .selector_sequence
          (wideText r.day ++ ([' '] ++ smallText r.day.weekday (timesPrinted r.time))) [tw, tsm], ?_,
          hbuild _ tw hrw hbw⟩
        simp only [List.append_assoc, List.cons_append, List.nil_append] at htw hao ⊢
        simp [g_selector_sequence, run_rule, run_seq, run_alt, hao, htw, h2, h3, R.append]

end OH.Proofs.Syn
