import OH.Proofs.SynTotalWeekday
/-
Totality, wide-range selectors: `week`, `week_selector`, `date_from`, `date_offset`, `date_to`,
`monthday_range`, `monthday_selector`, `year_range`, `year_selector`, `wide_range_selectors`.
-/
namespace OH.Proofs.SynTotal
open OH.Model OH.Model.Peg OH.Model.Parser OH.Generated.Grammar

theorem conf_year_val {k t} (h : Conf g_year false k t) :
    ∃ x, k = [x] ∧ Good .year buildYear (fun y => 1900 ≤ y ∧ y ≤ 9999) x := by
  obtain ⟨x, rfl, hx⟩ := conf_year h
  obtain ⟨hr, n, h0, h1, hp⟩ := hx
  refine ⟨x, rfl, hr, ?_⟩
  build_simp [buildYear, hr, hp]
  omega

theorem conf_daynum_val {k t} (h : Conf g_daynum false k t) :
    ∃ x, k = [x] ∧ Good .daynum buildDaynum (fun d => 1 ≤ d ∧ d ≤ 31) x := by
  obtain ⟨x, rfl, hx⟩ := conf_daynum h
  obtain ⟨hr, n, h0, h1, hp⟩ := hx
  refine ⟨x, rfl, hr, ?_⟩
  have e0 : ¬ n = 0 := by omega
  have e1 : ¬ n > 31 := by omega
  build_simp [buildDaynum, hr, hp, e0, e1]
  omega

theorem conf_weeknum_val {k t} (h : Conf g_weeknum false k t) :
    ∃ x, k = [x] ∧ Good .weeknum buildWeeknum (fun w => 1 ≤ w ∧ w ≤ 53) x := by
  obtain ⟨x, rfl, hx⟩ := conf_weeknum h
  obtain ⟨hr, n, h0, h1, hp⟩ := hx
  refine ⟨x, rfl, hr, ?_⟩
  build_simp [buildWeeknum, hr, hp]
  omega

theorem conf_week {k t} (h : Conf g_week false k t) :
    ∃ x, k = [x] ∧ Good .week buildWeek (fun r => r.wf = true) x := by
  conf_unfoldk [g_week] at h
  conf_destruct [conf_weeknum_val, conf_positive_number]
  all_goals refine ⟨_, rfl, rfl, ?_⟩
  all_goals build_simp [buildWeek, *]
  all_goals repeat safe_bind
  all_goals first
    | (split <;> simp [WeekRange.wf, *] <;> omega)
    | (simp [WeekRange.wf, *] <;> omega)

theorem conf_week_selector {k t} (h : Conf g_week_selector false k t) :
    ∃ x, k = [x] ∧ Good .week_selector buildWeekSelector (fun l => ∀ r ∈ l, r.wf = true) x := by
  obtain ⟨k', rfl, hb⟩ := Conf.rule_shape h
  refine ⟨_, rfl, rfl, ?_⟩
  obtain ⟨k1, t1, k2, t2, h1, h2, rfl, -⟩ := hb
  have e1 : k1 = [] := (conf_opt_sep.mp h1).1
  subst e1
  obtain ⟨k3, t3, k4, t4, ⟨rfl, -⟩, h4, rfl, -⟩ := h2
  obtain ⟨k5, t5, k6, t6, h5, h6, rfl, -⟩ := h4
  have e5 : k5 = [] := (conf_opt_space.mp h5).1
  subst e5
  obtain ⟨x, xs, rfl, hall⟩ := conf_sep_list (fun _ _ => conf_week) h6
  build_simp_only [buildWeekSelector]
  exact (Safe.mapM_ne x xs (fun y hy => (hall y hy).2)).mono (fun _ h => h.2)

theorem conf_year_range {k t} (h : Conf g_year_range false k t) :
    ∃ x, k = [x] ∧ Good .year_range buildYearRange (fun r => r.wf = true) x := by
  conf_unfoldk [g_year_range, g_year_range_plus] at h
  conf_destruct [conf_year_val, conf_positive_number]
  all_goals refine ⟨_, rfl, rfl, ?_⟩
  all_goals build_simp [buildYearRange, *]
  all_goals repeat safe_bind
  all_goals first
    | (split <;> simp [YearRange.wf, yearOk, *] <;> omega)
    | (simp [YearRange.wf, yearOk, *] <;> omega)

theorem conf_year_selector {k t} (h : Conf g_year_selector false k t) :
    ∃ x, k = [x] ∧ Good .year_selector buildYearSelector (fun l => ∀ r ∈ l, r.wf = true) x := by
  obtain ⟨k', rfl, hb⟩ := Conf.rule_shape h
  refine ⟨_, rfl, rfl, ?_⟩
  obtain ⟨x, xs, rfl, hall⟩ := conf_sep_list (fun _ _ => conf_year_range) hb
  build_simp_only [buildYearSelector]
  exact (Safe.mapM_ne x xs (fun y hy => (hall y hy).2)).mono (fun _ h => h.2)


theorem conf_date_from {k t} (h : Conf g_date_from false k t) :
    ∃ x, k = [x] ∧ Good .date_from buildDateFrom (fun d => d.wf = true) x := by
  conf_unfoldk [g_date_from, g_variable_date] at h
  conf_destruct [conf_year_val, conf_month, conf_daynum_val]
  all_goals refine ⟨_, rfl, rfl, ?_⟩
  all_goals build_simp [buildDateFrom, *]
  all_goals repeat safe_bind
  all_goals simp [DateSpec.wf, optYearOk, yearOk, *]

theorem conf_date_offset {k t} (h : Conf g_date_offset false k t) :
    ∃ x, k = [x] ∧ Good .date_offset buildDateOffset (fun d => d.wf = true) x := by
  conf_unfoldk [g_date_offset] at h
  conf_destruct [conf_plus_or_minus, conf_wday, conf_day_offset]
  all_goals refine ⟨_, rfl, rfl, ?_⟩
  all_goals build_simp [buildDateOffset, *]
  all_goals repeat safe_bind
  all_goals try split
  all_goals try simp only [ok_bind]
  all_goals repeat safe_bind
  all_goals simp [DateOffset.wf, WdayOffset.wf, i64Ok_zero, *]


theorem conf_date_to {k t} (h : Conf g_date_to false k t) :
    ∃ x, k = [x] ∧ x.rule = .date_to ∧
      ∀ frm : DateSpec, frm.wf = true → Safe (fun d => d.wf = true) (buildDateTo x frm) := by
  conf_unfoldk [g_date_to] at h
  conf_destruct [conf_date_from, conf_daynum_val]
  · refine ⟨_, rfl, rfl, ?_⟩
    intro frm hfrm
    build_simp [buildDateTo, *]
  · refine ⟨_, rfl, rfl, ?_⟩
    intro frm hfrm
    build_simp [buildDateTo, *]
    safe_bind
    rename_i d hd
    rcases frm with ⟨year, month, day⟩ | year
    · simp [DateSpec.wf] at hfrm
      simp only []
      split
      · split
        · rcases year with _ | y
          · simp [DateSpec.wf, optYearOk, *]
          · simp only []
            split
            · simp
            · simp [optYearOk, yearOk] at hfrm
              simp [DateSpec.wf, optYearOk, yearOk, *]
              omega
        · simp [DateSpec.wf, monthNext, *]
          omega
      · simp [DateSpec.wf, *]
    · simp


theorem noOffset_wf : noOffset.wf = true := by decide
theorem end_of_year_wf : (DateSpec.fixed none 12 31).wf = true := by decide
theorem end_of_time_wf : (DateSpec.fixed (some 9999) 12 31).wf = true := by decide

theorem conf_monthday_range {k t} (h : Conf g_monthday_range false k t) :
    ∃ x, k = [x] ∧ Good .monthday_range buildMonthdayRange (fun r => r.wf = true) x := by
  conf_unfoldk [g_monthday_range, g_monthday_range_plus] at h
  conf_destruct [conf_date_from, conf_date_offset, conf_date_to, conf_year_val, conf_month]
  all_goals refine ⟨_, rfl, rfl, ?_⟩
  all_goals build_simp [buildMonthdayRange, *]
  all_goals repeat safe_bind
  all_goals try split
  all_goals try simp only [ok_bind]
  all_goals simp [MonthdayRange.wf, noOffset_wf, end_of_year_wf, end_of_time_wf, optYearOk, yearOk, *]

theorem conf_monthday_selector {k t} (h : Conf g_monthday_selector false k t) :
    ∃ x, k = [x] ∧ Good .monthday_selector buildMonthdaySelector (fun l => ∀ r ∈ l, r.wf = true) x := by
  obtain ⟨k', rfl, hb⟩ := Conf.rule_shape h
  refine ⟨_, rfl, rfl, ?_⟩
  obtain ⟨x, xs, rfl, hall⟩ := conf_sep_list (fun _ _ => conf_monthday_range) hb
  build_simp_only [buildMonthdaySelector]
  exact (Safe.mapM_ne x xs (fun y hy => (hall y hy).2)).mono (fun _ h => h.2)


/-- the range invariant of the wide-range part of a day selector -/
def Wide.wf (w : Wide) : Prop :=
  (∀ r ∈ w.year, r.wf = true) ∧ (∀ r ∈ w.monthday, r.wf = true) ∧ (∀ r ∈ w.week, r.wf = true)

theorem conf_wide_range_selectors {k t} (h : Conf g_wide_range_selectors false k t) :
    ∃ x, k = [x] ∧ Good .wide_range_selectors buildWideRangeSelectors Wide.wf x := by
  conf_unfoldk [g_wide_range_selectors] at h
  conf_destruct [conf_comment, conf_monthday_selector, conf_week_selector, conf_year_selector]
  all_goals refine ⟨_, rfl, rfl, ?_⟩
  all_goals build_simp [buildWideRangeSelectors, wideLoop, *]
  all_goals repeat safe_bind
  all_goals simp [Wide.wf]
  all_goals first | assumption | exact ⟨‹_›, ‹_›⟩ | exact ⟨‹_›, ‹_›, ‹_›⟩

end OH.Proofs.SynTotal
