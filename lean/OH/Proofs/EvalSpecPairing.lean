/-
  Pairing theorem for `intervalsFromBounds` / `isOpenFromIntervals` (model of
  `intervals_from_bounds` + `is_open_from_intervals`): declarative characterisation of the
  open/closed answer for strictly increasing start/end day lists.
-/
import OH.Model.Eval
import OH.Proofs.Calendar

namespace OH.Proofs.EvalSpec
open OH.Model OH.Model.Cal

/-! ### `ensureIncreasing` -/

theorem ensureIncAux_of_sorted (last : Int) (l : List Int)
    (hl : ∀ y ∈ l, last < y) (h : l.Pairwise (· < ·)) : ensureIncAux last l = l := by
  induction l generalizing last with
  | nil => rfl
  | cons x xs ih =>
    have hx : last < x := hl x (by simp)
    rw [List.pairwise_cons] at h
    simp only [ensureIncAux]
    rw [if_neg (by omega), ih x h.1 h.2]

/-- `ensure_increasing_iter` keeps a strictly increasing list unchanged -/
theorem ensureIncreasing_of_sorted (l : List Int) (h : l.Pairwise (· < ·)) :
    ensureIncreasing l = l := by
  cases l with
  | nil => rfl
  | cons x xs =>
    rw [List.pairwise_cons] at h
    simp only [ensureIncreasing]
    rw [ensureIncAux_of_sorted x xs h.1 h.2]

theorem ensureIncAux_sorted (last : Int) (l : List Int) :
    (∀ y ∈ ensureIncAux last l, last < y) ∧ (ensureIncAux last l).Pairwise (· < ·) := by
  induction l generalizing last with
  | nil => simp [ensureIncAux]
  | cons x xs ih =>
    simp only [ensureIncAux]
    split
    · exact ih last
    · have := ih x
      refine ⟨?_, ?_⟩
      · intro y hy
        rcases List.mem_cons.mp hy with rfl | hy
        · omega
        · have := this.1 y hy; omega
      · exact List.pairwise_cons.mpr ⟨this.1, this.2⟩

theorem ensureIncreasing_sorted (l : List Int) : (ensureIncreasing l).Pairwise (· < ·) := by
  cases l with
  | nil => simp [ensureIncreasing]
  | cons x xs =>
    simp only [ensureIncreasing]
    have := ensureIncAux_sorted x xs
    exact List.pairwise_cons.mpr ⟨this.1, this.2⟩

theorem ensureIncAux_sub (last : Int) (l : List Int) : ∀ x ∈ ensureIncAux last l, x ∈ l := by
  induction l generalizing last with
  | nil => simp [ensureIncAux]
  | cons x xs ih =>
    simp only [ensureIncAux]
    split
    · intro y hy; exact List.mem_cons_of_mem _ (ih last y hy)
    · intro y hy
      rcases List.mem_cons.mp hy with rfl | hy
      · simp
      · exact List.mem_cons_of_mem _ (ih _ y hy)

theorem ensureIncreasing_sub (l : List Int) : ∀ x ∈ ensureIncreasing l, x ∈ l := by
  cases l with
  | nil => simp [ensureIncreasing]
  | cons x xs =>
    simp only [ensureIncreasing]
    intro y hy
    rcases List.mem_cons.mp hy with rfl | hy
    · simp
    · exact List.mem_cons_of_mem _ (ensureIncAux_sub _ _ y hy)

/-! ### the declarative specification -/

/-- right-hand side of the pairing theorem: some start at or before `d` is not closed by an end before `d`
(an end that no start precedes closes nothing and opens nothing) -/
def PairSpec (ss es : List Int) (d : Int) : Prop :=
  ∃ s ∈ ss, s ≤ d ∧ ∀ e ∈ es, ¬ (s ≤ e ∧ e < d)

theorem isOpen_cons (d : Int) (r : Int × Int) (ivs : List (Int × Int)) :
    isOpenFromIntervals d (r :: ivs) =
      if d ≤ r.2 then decide (r.1 ≤ d) else isOpenFromIntervals d ivs := by
  simp only [isOpenFromIntervals, List.find?_cons]
  by_cases h : d ≤ r.2
  · simp [h]
  · simp [h]

theorem isOpen_nil (d : Int) : isOpenFromIntervals d [] = false := by
  simp [isOpenFromIntervals]

/-- removing ends that are `≤ s` and `< d`, when `s` itself is closed before `d` -/
theorem pairSpec_step (s : Int) (ss es es2 : List Int) (d e : Int)
    (hlt : ∀ s' ∈ ss, s < s') (hsub : ∀ x ∈ es2, x ∈ es)
    (hrem : ∀ x ∈ es, x ∈ es2 ∨ (x ≤ s ∧ x < d))
    (he : e ∈ es) (hse : s ≤ e) (hed : e < d) :
    PairSpec (s :: ss) es d ↔ PairSpec ss es2 d := by
  unfold PairSpec
  grind

/-- the first start decides when its interval reaches `d` -/
theorem pairSpec_head (s : Int) (ss es : List Int) (d : Int)
    (hlt : ∀ s' ∈ ss, s < s') (hno : ∀ x ∈ es, x < s ∨ d ≤ x) :
    PairSpec (s :: ss) es d ↔ s ≤ d := by
  simp only [PairSpec, List.mem_cons, exists_eq_or_imp]
  grind


/-! ### `dropWhile (· < s)` -/

theorem mem_dropWhile_or (s : Int) (es : List Int) :
    ∀ x ∈ es, x ∈ es.dropWhile (· < s) ∨ x < s := by
  induction es with
  | nil => simp
  | cons a as ih =>
    intro x hx
    simp only [List.dropWhile_cons]
    split
    · rename_i ha
      rcases List.mem_cons.mp hx with rfl | hx
      · right; simpa using ha
      · exact ih x hx
    · exact Or.inl hx

theorem mem_of_mem_dropWhile (s : Int) (es : List Int) :
    ∀ x ∈ es.dropWhile (· < s), x ∈ es :=
  fun _ hx => (List.dropWhile_sublist _).subset hx

theorem dropWhile_head_ge (s : Int) (es : List Int) (e : Int) (et : List Int)
    (h : es.dropWhile (· < s) = e :: et) : s ≤ e := by
  induction es with
  | nil => simp at h
  | cons a as ih =>
    simp only [List.dropWhile_cons] at h
    split at h
    · exact ih h
    · rename_i ha
      simp only [List.cons.injEq] at h
      obtain ⟨rfl, -⟩ := h
      simpa using ha

theorem isOpen_intervalsGo_spec (ss es : List Int) (d : Int)
    (hs : ss.Pairwise (· < ·)) (he : es.Pairwise (· < ·)) (h2 : d ≤ dateEnd) :
    isOpenFromIntervals d (intervalsGo ss es) = true ↔ PairSpec ss es d := by
  fun_induction intervalsGo ss es with
  | case1 => simp [isOpen_nil, PairSpec]
  | case2 s ss es hdw ih =>
    rw [List.pairwise_cons] at hs
    rw [isOpen_cons, if_pos h2, decide_eq_true_iff]
    refine (pairSpec_head s ss es d hs.1 ?_).symm
    intro x hx
    have := mem_dropWhile_or s es x hx
    rw [hdw] at this
    exact Or.inl (by simpa using this)
  | case3 s ss es e et hdw hse ih =>
    have hge := dropWhile_head_ge s es e et hdw
    have hmem := mem_dropWhile_or s es
    have hsub := mem_of_mem_dropWhile s es
    have hpw : (e :: et).Pairwise (· < ·) := hdw ▸ he.sublist (List.dropWhile_sublist _)
    rw [hdw] at hmem hsub
    rw [List.pairwise_cons] at hs hpw
    have hse : s = e := by simpa using hse
    subst hse
    rw [isOpen_cons]
    split
    · rename_i hde
      rw [decide_eq_true_iff]
      refine (pairSpec_head s ss es d hs.1 ?_).symm
      intro x hx
      rcases hmem x hx with hx | hx
      · right
        rcases List.mem_cons.mp hx with rfl | hx
        · exact hde
        · have := hpw.1 x hx; simp only at hde; omega
      · exact Or.inl hx
    · rename_i hde
      simp only [Int.not_le] at hde
      rw [ih hs.2 hpw.2]
      refine (pairSpec_step s ss es et d s hs.1 ?_ ?_ ?_ (Int.le_refl _) hde).symm
      · intro x hx; exact hsub x (List.mem_cons_of_mem _ hx)
      · intro x hx
        rcases hmem x hx with hx | hx
        · rcases List.mem_cons.mp hx with rfl | hx
          · right; omega
          · exact Or.inl hx
        · right; omega
      · exact hsub s (by simp)
  | case4 s ss es e et hdw hse ih =>
    have hge := dropWhile_head_ge s es e et hdw
    have hmem := mem_dropWhile_or s es
    have hsub := mem_of_mem_dropWhile s es
    have hpw : (e :: et).Pairwise (· < ·) := hdw ▸ he.sublist (List.dropWhile_sublist _)
    rw [hdw] at hmem hsub
    have hpw' := hpw
    rw [List.pairwise_cons] at hs hpw'
    rw [isOpen_cons]
    split
    · rename_i hde
      rw [decide_eq_true_iff]
      refine (pairSpec_head s ss es d hs.1 ?_).symm
      intro x hx
      rcases hmem x hx with hx | hx
      · right
        rcases List.mem_cons.mp hx with rfl | hx
        · exact hde
        · have := hpw'.1 x hx; simp only at hde; omega
      · exact Or.inl hx
    · rename_i hde
      simp only [Int.not_le] at hde
      rw [ih hs.2 hpw]
      refine (pairSpec_step s ss es (e :: et) d e hs.1 hsub ?_ (hsub e (by simp)) hge hde).symm
      intro x hx
      rcases hmem x hx with hx | hx
      · exact Or.inl hx
      · right; omega

/-- the pairing theorem: `d` is selected iff some start at or before it is not closed by an end before it -/
theorem isOpen_intervalsGo (ss es : List Int) (d : Int)
    (hs : ss.Pairwise (· < ·)) (he : es.Pairwise (· < ·)) (h2 : d ≤ dateEnd) :
    isOpenFromIntervals d (intervalsGo ss es) = true ↔
      ∃ s ∈ ss, s ≤ d ∧ ∀ e ∈ es, ¬ (s ≤ e ∧ e < d) :=
  isOpen_intervalsGo_spec ss es d hs he h2

/-- the same for `intervalsFromBounds` on strictly increasing bounds.  (Since /repo 5cdd92e the ends left after
the last start yield no interval, so no hypothesis on the position of `d` is needed any more.) -/
theorem isOpen_intervalsFromBounds' (ss es : List Int) (d : Int)
    (hs : ss.Pairwise (· < ·)) (he : es.Pairwise (· < ·)) (h2 : d ≤ dateEnd) :
    isOpenFromIntervals d (intervalsFromBounds ss es) = true ↔ PairSpec ss es d := by
  rw [intervalsFromBounds, ensureIncreasing_of_sorted ss hs, ensureIncreasing_of_sorted es he]
  exact isOpen_intervalsGo_spec ss es d hs he h2

theorem isOpen_intervalsFromBounds (ss es : List Int) (d : Int)
    (hs : ss.Pairwise (· < ·)) (he : es.Pairwise (· < ·)) (h2 : d ≤ dateEnd) :
    isOpenFromIntervals d (intervalsFromBounds ss es) = true ↔
      ∃ s ∈ ss, s ≤ d ∧ ∀ e ∈ es, ¬ (s ≤ e ∧ e < d) :=
  isOpen_intervalsFromBounds' ss es d hs he h2

end OH.Proofs.EvalSpec
