import OH.Proofs.Schedule
/-
Helper lemmas for C14: the iterator (`IntoIter::next`, `pre_yield`).  Core tactics only.
-/
namespace OH.Proofs.Schedule
open OH.Model OH.Model.Schedule OH.Spec.Schedule

theorem extendHole_kind (y n : TimeRange) : (extendHole y n).kind = y.kind := by
  unfold extendHole; split <;> rfl

theorem extendHole_e (y n : TimeRange) : (extendHole y n).e = if n.s > y.e then n.s else y.e := by
  unfold extendHole; split <;> rfl

theorem nextLoop_kind (y : TimeRange) (rs : List TimeRange) : (nextLoop y rs).1.kind = y.kind := by
  fun_induction nextLoop y rs <;> (try split) <;> simp_all [extendHole_kind]

/-- (L2) the end only moves forward, except for the final cut of a closed range at 24:00 -/
theorem nextLoop_e (y : TimeRange) (rs : List TimeRange) (hw : WF rs) (hy : ∀ u ∈ rs, y.e ≤ u.s) :
    y.e ≤ (nextLoop y rs).1.e ∨
      ((nextLoop y rs).1.e = 1440 ∧ y.kind = Kind.closed ∧ (nextLoop y rs).2 = []) := by
  fun_induction nextLoop y rs <;> grind [WF, extendHole_kind, extendHole_e]

/-- (L5) what remains is a suffix lying after the yielded range -/
theorem nextLoop_rest (y : TimeRange) (rs : List TimeRange) (hw : WF rs) (hy : ∀ u ∈ rs, y.e ≤ u.s) :
    WF (nextLoop y rs).2 ∧ ∀ u ∈ (nextLoop y rs).2, (nextLoop y rs).1.e ≤ u.s := by
  fun_induction nextLoop y rs <;> grind [WF, extendHole_kind, extendHole_e]

/-- (L3) everything absorbed after `y.e` shows the kind of `y` (with `closed` in the holes) -/
theorem nextLoop_absorbed (y : TimeRange) (rs : List TimeRange) (hw : WF rs)
    (hy : ∀ u ∈ rs, y.e ≤ u.s) (m : Nat) (h1 : y.e ≤ m) (h2 : m < (nextLoop y rs).1.e) :
    dayState rs m = y.kind := by
  fun_induction nextLoop y rs <;> grind [WF, extendHole_kind, extendHole_e, dayState, stateAt, stateAt_eq_none]

/-- (L4) the ranges consumed lie entirely before the end of the yielded range (unless it was cut at 24:00) -/
theorem nextLoop_later (y : TimeRange) (rs : List TimeRange) (hw : WF rs)
    (hy : ∀ u ∈ rs, y.e ≤ u.s) (hlt : (nextLoop y rs).1.e < 1440) (m : Nat)
    (hm : (nextLoop y rs).1.e ≤ m) : stateAt (nextLoop y rs).2 m = stateAt rs m := by
  fun_induction nextLoop y rs with
  | case1 y => rfl
  | case2 y n rest h => rfl
  | case3 y n rest h1 h2 => rfl
  | case4 y n rest h1 h2 ih =>
    simp only [WF] at hw
    have h3 := nextLoop_e ⟨(extendHole y n).s, n.e, (extendHole y n).kind,
      cunion (extendHole y n).comments n.comments⟩ rest hw.2.2 hw.2.1
    have h4 := ih hw.2.2 hw.2.1 hlt hm
    rw [h4]
    simp only [stateAt]
    grind

/-- (L6) the next yielded range will have another kind -/
theorem nextLoop_nextKind (y : TimeRange) (rs : List TimeRange) (hw : WF rs)
    (hy : ∀ u ∈ rs, y.e ≤ u.s) (hlt : (nextLoop y rs).1.e < 1440) :
    (nextStart ⟨(nextLoop y rs).1.e, (nextLoop y rs).2⟩).1.kind ≠ y.kind := by
  fun_induction nextLoop y rs <;> grind [WF, extendHole_kind, extendHole_e, nextStart]

/-- (L7) within 24:00 nothing is yielded beyond 24:00 -/
theorem nextLoop_within (y : TimeRange) (rs : List TimeRange) (hw : WF rs) (hr : ∀ u ∈ rs, u.e ≤ 1440)
    (hy : ∀ u ∈ rs, y.e ≤ u.s) (he : y.e ≤ 1440) : (nextLoop y rs).1.e ≤ 1440 := by
  fun_induction nextLoop y rs <;> grind [WF, extendHole_kind, extendHole_e]

theorem nextLoop_sub (y : TimeRange) (rs : List TimeRange) : ∀ u ∈ (nextLoop y rs).2, u ∈ rs := by
  fun_induction nextLoop y rs <;> grind

/-! ### one call of `next` -/

/-- invariant of the iterator state: the remaining ranges are well-formed and start at or after `last_end` -/
def IterInv (st : IterState) : Prop := WF st.ranges ∧ ∀ u ∈ st.ranges, st.lastEnd ≤ u.s

theorem nextStart_nil (le : Nat) :
    nextStart ⟨le, []⟩ = (⟨le, le, Kind.closed, []⟩, []) := rfl

theorem nextStart_eq (le : Nat) (n : TimeRange) (rest : List TimeRange) (h : n.s = le) :
    nextStart ⟨le, n :: rest⟩ = (n, rest) := by simp [nextStart, h]

theorem nextStart_ne (le : Nat) (n : TimeRange) (rest : List TimeRange) (h : ¬ n.s = le) :
    nextStart ⟨le, n :: rest⟩ = (⟨le, n.s, Kind.closed, []⟩, n :: rest) := by simp [nextStart, h]

theorem nextStart_spec (st : IterState) (h : IterInv st) :
    (nextStart st).1.s = st.lastEnd ∧ st.lastEnd ≤ (nextStart st).1.e ∧
    WF (nextStart st).2 ∧ (∀ u ∈ (nextStart st).2, (nextStart st).1.e ≤ u.s) ∧
    (∀ u ∈ (nextStart st).2, u ∈ st.ranges) ∧
    ((nextStart st).1.s < (nextStart st).1.e ∨ ((nextStart st).2 = [] ∧ (nextStart st).1.kind = Kind.closed)) ∧
    (∀ m, st.lastEnd ≤ m → m < (nextStart st).1.e → dayState st.ranges m = (nextStart st).1.kind) ∧
    (∀ m, (nextStart st).1.e ≤ m → stateAt (nextStart st).2 m = stateAt st.ranges m) := by
  obtain ⟨le, rs⟩ := st
  obtain ⟨hw, hge⟩ := h
  simp only at hw hge
  rcases rs with _ | ⟨n, rest⟩
  · simp [nextStart_nil, WF, dayState, stateAt]
  · simp only [WF] at hw
    have := hge n (by simp)
    by_cases hc : n.s = le
    · rw [nextStart_eq le n rest hc]
      refine ⟨hc, by simp only; omega, hw.2.2, hw.2.1, by simp +contextual, Or.inl (by simp only; omega), ?_, ?_⟩
      · intro m h1 h2; simp only at h2; simp [dayState, stateAt, hc, h1, h2]
      · intro m h1; simp only at h1; simp only [stateAt]; grind
    · rw [nextStart_ne le n rest hc]
      refine ⟨rfl, by simp only; omega, by simp only [WF]; exact hw, ?_, by simp, Or.inl (by simp only; omega), ?_, ?_⟩
      · simp only [List.mem_cons]; rintro u (rfl | hu)
        · exact Nat.le_refl _
        · have := hw.2.1 u hu; omega
      · intro m h1 h2
        simp only at h2
        have : stateAt (n :: rest) m = none := by
          rw [stateAt_eq_none]; simp only [List.mem_cons]; rintro u (rfl | hu)
          · omega
          · have := hw.2.1 u hu; omega
        simp [dayState, this]
      · intro m _; rfl

/-- everything one call of `next` guarantees (before the `assert!`) -/
theorem nextRaw_spec (st : IterState) (h : IterInv st) :
    (nextRaw st).1.s = st.lastEnd ∧
    (st.lastEnd < 1440 → (nextRaw st).1.s < (nextRaw st).1.e) ∧
    (nextRaw st).1.kind = (nextStart st).1.kind ∧
    (∀ m, st.lastEnd ≤ m → m < (nextRaw st).1.e → dayState st.ranges m = (nextRaw st).1.kind) ∧
    ((nextRaw st).1.e < 1440 → ∀ m, (nextRaw st).1.e ≤ m → stateAt (nextRaw st).2 m = stateAt st.ranges m) ∧
    IterInv ⟨(nextRaw st).1.e, (nextRaw st).2⟩ ∧
    ((nextRaw st).1.e < 1440 →
      (nextStart ⟨(nextRaw st).1.e, (nextRaw st).2⟩).1.kind ≠ (nextRaw st).1.kind) ∧
    (∀ u ∈ (nextRaw st).2, u ∈ st.ranges) ∧
    ((∀ u ∈ st.ranges, u.e ≤ 1440) → st.lastEnd ≤ 1440 → (nextRaw st).1.e ≤ 1440) := by
  obtain ⟨s1, s2, s3, s4, s5, s6, s7, s8⟩ := nextStart_spec st h
  have l1 := nextLoop_s (nextStart st).1 (nextStart st).2
  have l2 := nextLoop_kind (nextStart st).1 (nextStart st).2
  have l3 := nextLoop_e _ _ s3 s4
  have l4 := nextLoop_rest _ _ s3 s4
  have l5 := nextLoop_sub (nextStart st).1 (nextStart st).2
  unfold nextRaw
  refine ⟨by omega, ?_, l2, ?_, ?_, l4, ?_, fun u hu => s5 u (l5 u hu), ?_⟩
  · intro hlt
    rcases s6 with h6 | ⟨h6, h7⟩
    · omega
    · rw [l1, h6, nextLoop]; simp only [h7, if_true, midnight24]; omega
  · intro m h1 h2
    rw [l2]
    by_cases hm : m < (nextStart st).1.e
    · exact s7 m h1 hm
    · have := nextLoop_absorbed _ _ s3 s4 m (by omega) h2
      simp only [dayState] at this ⊢
      rw [← s8 m (by omega)]; exact this
  · intro hlt m hm
    rw [nextLoop_later _ _ s3 s4 hlt m hm]
    apply s8; omega
  · intro hlt
    rw [l2]; exact nextLoop_nextKind _ _ s3 s4 hlt
  · intro hr hle
    apply nextLoop_within _ _ s3 (fun u hu => hr u (s5 u hu)) s4
    rcases hrs : st.ranges with _ | ⟨n, rest⟩
    · simp only [nextStart, hrs]; omega
    · simp only [nextStart, hrs]
      have := hr n (by simp [hrs])
      have := wf_nonempty _ h.1 n (by simp [hrs])
      split <;> simp only <;> omega

/-! ### the whole iteration -/

theorem next_cases (st : IterState) :
    (1440 ≤ st.lastEnd ∧ next st = NextResult.done) ∨
    (st.lastEnd < 1440 ∧ (nextRaw st).1.s < (nextRaw st).1.e ∧
      next st = NextResult.yield (nextRaw st).1 ⟨(nextRaw st).1.e, (nextRaw st).2⟩) ∨
    (st.lastEnd < 1440 ∧ ¬ (nextRaw st).1.s < (nextRaw st).1.e ∧
      next st = NextResult.panic (nextRaw st).1) := by
  unfold next
  by_cases h1 : st.lastEnd ≥ midnight24
  · left; rw [if_pos h1]; exact ⟨h1, rfl⟩
  · right
    rw [if_neg h1]
    have h1' : st.lastEnd < 1440 := by simp only [midnight24] at h1; omega
    by_cases h2 : (nextRaw st).1.s < (nextRaw st).1.e
    · left; rw [if_pos h2]; exact ⟨h1', h2, rfl⟩
    · right; rw [if_neg h2]; exact ⟨h1', h2, rfl⟩

/-- the first range (if any) has a kind other than `pk`, and consecutive kinds differ -/
def AltFrom (pk : Option Kind) : List TimeRange → Prop
  | [] => True
  | t :: ts => some t.kind ≠ pk ∧ AltFrom (some t.kind) ts

theorem altFrom_alternates (pk : Option Kind) (l : List TimeRange) (h : AltFrom pk l) : Alternates l := by
  induction l generalizing pk with
  | nil => trivial
  | cons t ts ih =>
    cases ts with
    | nil => trivial
    | cons u us =>
      simp only [AltFrom, Alternates] at *
      exact ⟨fun e => h.2.1 (by rw [e]), ih _ ⟨h.2.1, h.2.2⟩⟩

theorem iterFrom_spec (st : IterState) :
    ∀ pk : Option Kind, IterInv st → (st.lastEnd < 1440 → some (nextStart st).1.kind ≠ pk) →
    (iterFrom st).2 = false ∧
    ∃ E, Tiles (iterFrom st).1 st.lastEnd E ∧
      (st.lastEnd < 1440 → 1440 ≤ E) ∧ (1440 ≤ st.lastEnd → E = st.lastEnd) ∧
      AltFrom pk (iterFrom st).1 ∧
      (∀ m, st.lastEnd ≤ m → m < E → stateAt (iterFrom st).1 m = some (dayState st.ranges m)) ∧
      ((∀ u ∈ st.ranges, u.e ≤ 1440) → st.lastEnd ≤ 1440 → E ≤ 1440) := by
  fun_induction iterFrom st with
  | case1 st hn =>
    intro pk _ _
    rcases next_cases st with ⟨h1, _⟩ | ⟨_, _, h2⟩ | ⟨_, _, h2⟩
    · exact ⟨rfl, st.lastEnd, rfl, fun h => by omega, fun _ => rfl, trivial, fun m _ _ => by omega, fun _ h => h⟩
    · rw [hn] at h2; cases h2
    · rw [hn] at h2; cases h2
  | case2 st v hn =>
    intro pk hinv _
    rcases next_cases st with ⟨_, h2⟩ | ⟨_, _, h2⟩ | ⟨h1, h2, _⟩
    · rw [hn] at h2; cases h2
    · rw [hn] at h2; cases h2
    · exact absurd ((nextRaw_spec st hinv).2.1 h1) h2
  | case3 st v st' hn r ih =>
    intro pk hinv hpk
    rcases next_cases st with ⟨_, h2⟩ | ⟨h1, h2, h3⟩ | ⟨_, _, h2⟩
    · rw [hn] at h2; cases h2
    · rw [hn] at h3
      injection h3 with hv hst
      subst hv hst
      obtain ⟨a1, a2, a3, a4, a5, a6, a7, a8, a9⟩ := nextRaw_spec st hinv
      obtain ⟨i1, E, i2, i3, i4, i5, i6, i7⟩ := ih (some (nextRaw st).1.kind) a6
        (fun hlt => by simp only at hlt ⊢; intro e; exact a7 hlt (Option.some.inj e))
      simp only at i2 i3 i4 i6 i7
      refine ⟨i1, E, ⟨a1, h2, i2⟩, fun _ => ?_, fun h => by omega, ⟨?_, i5⟩, ?_, ?_⟩
      · by_cases hc : (nextRaw st).1.e < 1440
        · exact i3 hc
        · rw [i4 (by omega)]; omega
      · rw [a3]; exact hpk h1
      · intro m hm1 hm2
        simp only [stateAt]
        by_cases hc : m < (nextRaw st).1.e
        · rw [if_pos ⟨by omega, hc⟩, a4 m hm1 hc]
        · rw [if_neg (by omega)]
          by_cases hlt : (nextRaw st).1.e < 1440
          · rw [i6 m (by omega) hm2]
            simp only [dayState, a5 hlt m (by omega)]
          · rw [i4 (by omega)] at hm2; omega
      · intro hr hle
        exact i7 (fun u hu => hr u (a8 u hu)) (a9 hr hle)
    · rw [hn] at h2; cases h2

end OH.Proofs.Schedule
