/-
Helper definitions and lemmas for `OH/Props/ArithC09Tz.lean`: the translated `Localize for TzLocation<Tz>`
(`OH.Generated.Arith.Localize.*`) at the instantiation `Tz := Zone`, `DT := RustTzZone.DateTime`, with the chrono-tz
trait methods given their meaning `OH/Model/RustTzZone.lean`, against the hand-written model `OH/Model/Tz.lean`.
-/
import OH.Generated.Arith
import OH.Model.RustTzZone
import OH.Proofs.Tz
namespace OH.Proofs.ArithTz
open OH.Model OH.Model.Tz OH.Model.RustInt OH.Model.RustTzZone
open OH.Generated.Arith

/-- the model's error strings as the panics of the code -/
def panicOf (s : String) : Err :=
  if s = "localize.rs:datetime no valid datetime for time zone" then .panic "no valid datetime for time zone"
  else if s = "chrono:NaiveDateTime - TimeDelta overflowed" then .panic "`NaiveDateTime - TimeDelta` overflowed"
  else if s = "chrono:naive_local Local time out of range for NaiveDateTime" then .panic "Local time out of range for `NaiveDateTime`"
  else .panic s

/-- an outcome of the model (`M`, error strings) as an outcome of the generated code (`R`) -/
def liftM {α : Type} : M α → R α
  | .ok a => .ok a
  | .error s => .error (panicOf s)

/-- the same, the model's instant read as a `DateTime<Tz>` of the zone `z` -/
def liftDT (z : Zone) : M Int → R DateTime
  | .ok u => .ok ⟨u, z⟩
  | .error s => .error (panicOf s)

/-- what the caller of a translated `while` loop keeps of its outcome when both exits return the `dt` of the state -/
def flowVal {σ : Type} : R (Flow DateTime (σ × DateTime)) → R DateTime
  | .ok (.ret v _) => .ok v
  | .ok (.next (_, dt)) => .ok dt
  | .error e => .error e

/-- the generated walk-back loop, minute loop and `datetime` at the model's carriers -/
abbrev gWalk (z : Zone) (c : Option Unit) (fuel : Nat) (requested naive : Int) (dt : DateTime) :=
  Localize.TzLocation.datetime.loop2 fuel (⟨z, c⟩ : Localize.TzLocation Zone Unit) requested naive dt
    (ext_from_local_datetime := from_local_datetime)

abbrev gMinute (z : Zone) (c : Option Unit) (fuel : Nat) (requested naive : Int) :=
  Localize.TzLocation.datetime.loop1 fuel (⟨z, c⟩ : Localize.TzLocation Zone Unit) requested naive
    (ext_from_local_datetime := from_local_datetime)

theorem ndtMin_eq : TzChrono.NDT_MIN = instMin := rfl
theorem ndtMax_eq : TzChrono.NDT_MAX = instMax := by
  unfold TzChrono.NDT_MAX instMax nsPerDay; rfl

theorem earliest_from_local (z : Zone) (n : Int) :
    LocalResult.earliest (from_local_datetime z n) = (earliest? z n).map (fun u => (⟨u, z⟩ : DateTime)) := by
  unfold from_local_datetime earliest?
  cases h : fromLocal z n with
  | nil => rfl
  | cons a l => cases l <;> rfl

theorem latest_from_local (z : Zone) (n : Int) :
    LocalResult.latest (from_local_datetime z n) = (latest? z n).map (fun u => (⟨u, z⟩ : DateTime)) := by
  unfold from_local_datetime latest?
  cases h : fromLocal z n with
  | nil => rfl
  | cons a l =>
    cases l with
    | nil => rfl
    | cons b rest =>
      simp only [LocalResult.latest, List.getLast?_cons_cons, Option.map]
      rw [List.getLast?_eq_some_getLast (List.cons_ne_nil b rest)]

theorem found_from_local (z : Zone) (requested n : Int) :
    (if decide (n = requested) then LocalResult.latest (from_local_datetime z n)
      else LocalResult.earliest (from_local_datetime z n))
      = (found? z requested n).map (fun u => (⟨u, z⟩ : DateTime)) := by
  unfold found?
  by_cases h : n = requested
  · simp only [h, decide_true, if_true]; exact latest_from_local z requested
  · simp only [h, decide_false, if_false]; exact earliest_from_local z n

theorem seconds_one : TzChrono.seconds 1 = nsPerSec := rfl
theorem minutes_one : TzChrono.minutes 1 = nsPerMin := rfl

theorem panicOf_noValid :
    panicOf "localize.rs:datetime no valid datetime for time zone" = .panic "no valid datetime for time zone" := rfl
theorem panicOf_sub :
    panicOf "chrono:NaiveDateTime - TimeDelta overflowed" = .panic "`NaiveDateTime - TimeDelta` overflowed" := rfl
theorem panicOf_naiveLocal :
    panicOf "chrono:naive_local Local time out of range for NaiveDateTime" = .panic "Local time out of range for `NaiveDateTime`" := rfl

/-- fuel that suffices for `TzLocation::datetime` at `n`: the minute steps up to the start of the last span
(`lastLocal z`, from which every local time exists) plus the seconds walked back, plus 3 -/
def tzFuelAt (z : Zone) (requested naive : Int) : Nat :=
  ((lastLocal z - naive).toNat + 59999999999) / 60000000000
    + ((max (lastLocal z + 60000000000) naive) - requested).toNat / 1000000000 + 3

def tzFuel (z : Zone) (n : Int) : Nat := tzFuelAt z n n

theorem found_none_lt {z : Zone} {req n : Int} (h : found? z req n = none) : n < lastLocal z :=
  fromLocal_eq_nil_lt z n (found?_none_nil h)

theorem latest_none_of_found {z : Zone} {req n : Int} (h : found? z req n = none) : latest? z n = none := by
  unfold latest?; rw [found?_none_nil h]; rfl

/-- the walk-back loop: for every fuel above the number of seconds to walk, the generated `while` loop computes
the model's `walkBack` (same value, same panic), and does not run out of fuel -/
theorem walk_eq (z : Zone) (c : Option Unit) : ∀ (fuel : Nat) (requested naive u : Int), naive ≤ instMax →
    ((naive - requested).toNat + 999999999) / 1000000000 + 1 ≤ fuel →
    flowVal (gWalk z c fuel requested naive ⟨u, z⟩) = liftDT z (walkBack z requested naive u) := by
  intro fuel
  induction fuel with
  | zero => intro _ _ _ _ h; omega
  | succ fuel ih =>
    intro requested naive u hmax hf
    unfold gWalk
    rw [Localize.TzLocation.datetime.loop2, walkBack]
    by_cases hgt : naive > requested
    · simp only [hgt, decide_true, if_true]
      simp only [TzChrono.ndt_sub, seconds_one, ndtMin_eq, ndtMax_eq]
      have hns : nsPerSec = 1000000000 := rfl
      by_cases hlo : naive - nsPerSec < instMin
      · simp only [hlo, true_or, if_true, bnd, flowVal, liftDT, panicOf_sub]
      · have h2 : ¬ (naive - nsPerSec < instMin ∨ naive - nsPerSec > instMax) := by omega
        rw [if_neg h2, if_neg hlo]
        simp only [bnd]
        rw [earliest_from_local]
        cases he : earliest? z (naive - nsPerSec) with
        | none => simp only [Option.map, flowVal, liftDT]
        | some prev =>
          simp only [Option.map]
          exact ih requested (naive - nsPerSec) prev (by omega) (by omega)
    · simp only [hgt, decide_false, if_false, flowVal, liftDT, Bool.false_eq_true]

/-- the minute loop: for every fuel ≥ `tzFuelAt` the generated `loop` computes the model's `minuteLoop` followed by
`walkBack` (same value, same panic) and does not run out of fuel -/
theorem minute_eq (z : Zone) (c : Option Unit) : ∀ (fuel : Nat) (requested naive : Int), instMin ≤ requested →
    requested ≤ naive → naive ≤ instMax → tzFuelAt z requested naive ≤ fuel →
    gMinute z c fuel requested naive
      = liftDT z (match minuteLoop z requested naive with
          | .error p => .error p
          | .ok (m, u) => walkBack z requested m u) := by
  intro fuel
  induction fuel with
  | zero => intro _ _ _ _ _ h; unfold tzFuelAt at h; omega
  | succ fuel ih =>
    intro requested naive hlo hle hmax hf
    unfold gMinute
    rw [Localize.TzLocation.datetime.loop1]
    simp only []
    rw [found_from_local]
    cases hfd : found? z requested naive with
    | some u =>
      rw [OH.Proofs.Tz.minuteLoop_of_some hfd]
      simp only [Option.map]
      rw [← walk_eq z c fuel requested naive u hmax (by unfold tzFuelAt at hf; omega)]
      unfold gWalk
      generalize Localize.TzLocation.datetime.loop2 fuel _ requested naive _ _ = x
      cases x with
      | error e => rfl
      | ok r =>
        cases r with
        | ret v s => obtain ⟨a, b⟩ := s; rfl
        | next s => obtain ⟨a, b⟩ := s; rfl
    | none =>
      have hlt := found_none_lt hfd
      rw [OH.Proofs.Tz.minuteLoop_of_none (latest_none_of_found hfd)]
      simp only [Option.map, TzChrono.ndt_checked_add_signed, minutes_one, ndtMin_eq, ndtMax_eq]
      have hnm : nsPerMin = 60000000000 := rfl
      by_cases hov : naive + nsPerMin > instMax
      · simp only [hov, or_true, if_true, liftDT, panicOf_noValid]
      · have h2 : ¬ (naive + nsPerMin < instMin ∨ naive + nsPerMin > instMax) := by omega
        rw [if_neg h2, if_neg hov]
        exact ih requested (naive + nsPerMin) hlo (by omega) (by omega) (by unfold tzFuelAt at hf ⊢; omega)

end OH.Proofs.ArithTz
