import OH.Proofs.SynTotal
import OH.Proofs.SynRule9
/-
Closing the loop of C06 (syntactic half), part 1: EVERYTHING THE PARSER ACCEPTS IS `PrintableOut`.

`SynTotal*` proves `parseChars inp = .ok e → ParserWF e` through `Conf` (the shape of what `run`
returns, the input forgotten).  `PrintableOut` (SynRule9) is stronger than `ParserWF` in a few places,
two of which are NOT visible in `Conf`:
 * a comment contains no `"` (a negative look-ahead: `Conf` forgets it);
 * `yearStepOk`: after `/` the rule `positive_number` takes every digit that follows, so that the
   text after a year selector ending in `/step` does not start with a digit (a fact about the REST of
   the input).
So the rules on the path from the entry rule to these two places are redone on `run` itself:
`Runs e q inp k t rest := run e q inp = some ⟨k, t, rest⟩`, with unfolding equations (`runs_seq`,
`runs_alt`, …) that have the shape of `Conf`'s, so that the tactics of `SynTotalBase`
(`conf_destruct`, `build_simp`, `safe_bind`) are used unchanged.  Everywhere else `Runs.conf` goes down
to `Conf`, where the lemmas of `SynTotal*` are reused (with the bridges of `SynWideFail`) or redone
with a stronger range predicate.

This file: `Runs`, its equations, the induction principle of `e*`; `comment_inner`, `comment`;
`positive_number` (greedy); the time selector with `okSpan`.
-/
namespace OH.Proofs.SynClosure
open OH.Model OH.Model.Peg OH.Model.Parser OH.Generated.Grammar OH.Proofs.SynTotal
open OH.Proofs.Syn (NoDigit okCommentChars okCommentChars_iff okComment okSpan okSpan_iff okTimes okTimes_iff)

/-! ### `run`, as a relation -/

/-- on input `inp`, `e` produces the pairs `k`, consumes `t` and leaves `rest` -/
def Runs (e : G) (q : Bool) (inp : List Char) (k : List T) (t rest : List Char) : Prop :=
  run e q inp = some ⟨k, t, rest⟩

/-- `e` does not match at the head of `inp` (kept folded: never used) -/
def Fails (e : G) (q : Bool) (inp : List Char) : Prop := run e q inp = none

theorem Runs.conf {e : G} {q : Bool} {inp : List Char} {k : List T} {t rest : List Char}
    (h : Runs e q inp k t rest) : Conf e q k t := run_conf e q inp _ h

theorem Runs.sound {e : G} {q : Bool} {inp : List Char} {k : List T} {t rest : List Char}
    (h : Runs e q inp k t rest) : inp = t ++ rest := run_sound e q inp _ h

theorem runs_seq {a b : G} {q : Bool} {inp : List Char} {k : List T} {t rest : List Char} :
    Runs (.seq a b) q inp k t rest ↔
      ∃ k1 t1 rest1 k2 t2, Runs a q inp k1 t1 rest1 ∧ Runs b q rest1 k2 t2 rest ∧ k = k1 ++ k2 ∧ t = t1 ++ t2 := by
  unfold Runs
  rw [run_seq]
  constructor
  · intro h
    cases h1 : run a q inp with
    | none => rw [h1] at h; cases h
    | some r1 =>
      rw [h1] at h
      simp only at h
      cases h2 : run b q r1.rest with
      | none => rw [h2] at h; cases h
      | some r2 =>
        rw [h2] at h
        simp only [R.append, Option.some.injEq, R.mk.injEq] at h
        obtain ⟨rfl, rfl, rfl⟩ := h
        exact ⟨r1.kids, r1.eaten, r1.rest, r2.kids, r2.eaten, rfl, h2, rfl, rfl⟩
  · rintro ⟨k1, t1, rest1, k2, t2, h1, h2, rfl, rfl⟩
    simp [h1, h2, R.append]

theorem runs_alt {a b : G} {q : Bool} {inp : List Char} {k : List T} {t rest : List Char} :
    Runs (.alt a b) q inp k t rest ↔ Runs a q inp k t rest ∨ (Fails a q inp ∧ Runs b q inp k t rest) := by
  unfold Runs Fails
  rw [run_alt]
  cases run a q inp with
  | none => simp
  | some r1 => simp

theorem runs_opt {a : G} {q : Bool} {inp : List Char} {k : List T} {t rest : List Char} :
    Runs (.opt a) q inp k t rest ↔
      Runs a q inp k t rest ∨ (Fails a q inp ∧ k = [] ∧ t = [] ∧ rest = inp) := by
  unfold Runs Fails
  rw [run_opt]
  cases run a q inp with
  | none => simp [R.nil, eq_comm]
  | some r1 => simp

theorem runs_str {s : List Char} {q : Bool} {inp : List Char} {k : List T} {t rest : List Char} :
    Runs (.str s) q inp k t rest ↔ k = [] ∧ t = s ∧ inp = s ++ rest := by
  unfold Runs
  rw [run_str]
  constructor
  · intro h
    simp only [Option.map_eq_some_iff, R.mk.injEq] at h
    obtain ⟨x, hx, rfl, rfl, rfl⟩ := h
    exact ⟨rfl, rfl, stripPrefix_sound hx⟩
  · rintro ⟨rfl, rfl, rfl⟩
    simp [stripPrefix_append]

theorem runs_notp {a : G} {q : Bool} {inp : List Char} {k : List T} {t rest : List Char} :
    Runs (.notp a) q inp k t rest ↔ Fails a true inp ∧ k = [] ∧ t = [] ∧ rest = inp := by
  unfold Runs Fails
  rw [run_notp]
  cases run a true inp with
  | none => simp [R.nil, eq_comm]
  | some r1 => simp

theorem runs_andp {a : G} {q : Bool} {inp : List Char} {k : List T} {t rest : List Char} :
    Runs (.andp a) q inp k t rest ↔ ¬ Fails a true inp ∧ k = [] ∧ t = [] ∧ rest = inp := by
  unfold Runs Fails
  rw [run_andp]
  cases run a true inp with
  | none => simp
  | some r1 => simp [R.nil, eq_comm]

theorem runs_soi {q : Bool} {inp : List Char} {k : List T} {t rest : List Char} :
    Runs .soi q inp k t rest ↔ k = [] ∧ t = [] ∧ rest = inp := by
  unfold Runs
  rw [run_soi]
  simp [R.nil, eq_comm]

/-- a non-quiet rule: one pair, carrying the rule's name, the text and the inner pairs -/
theorem runs_rule {n : PRule} {atomic : Bool} {a : G} {inp : List Char} {k : List T} {t rest : List Char} :
    Runs (.rule n atomic a) false inp k t rest ↔ ∃ k', Runs a atomic inp k' t rest ∧ k = [Tree.node n t k'] := by
  unfold Runs
  rw [run_rule]
  simp only [Bool.false_or]
  cases h1 : run a atomic inp with
  | none => simp
  | some r1 =>
    simp only [Bool.false_eq_true, if_false, Option.some.injEq, R.mk.injEq]
    constructor
    · rintro ⟨rfl, rfl, rfl⟩
      exact ⟨r1.kids, rfl, rfl⟩
    · rintro ⟨k', h, rfl⟩
      cases h
      exact ⟨rfl, rfl, rfl⟩

/-- induction on the rounds of `e*` -/
theorem iterate_ind {f : List Char → Option (R PRule)}
    {P : List Char → List T → List Char → List Char → Prop}
    (hnil : ∀ inp, P inp [] [] inp)
    (hcons : ∀ inp k1 t1 rest1 k2 t2 rest, f inp = some ⟨k1, t1, rest1⟩ → P rest1 k2 t2 rest →
      P inp (k1 ++ k2) (t1 ++ t2) rest)
    (n : Nat) (inp : List Char) :
    P inp (iterate f n inp).kids (iterate f n inp).eaten (iterate f n inp).rest := by
  induction n generalizing inp with
  | zero => exact hnil inp
  | succ n ih =>
    simp only [iterate]
    split
    · exact hnil inp
    · next r1 h1 =>
      split
      · exact hnil inp
      · exact hcons inp r1.kids r1.eaten r1.rest _ _ _ h1 (ih r1.rest)

theorem runs_star_ind {a : G} {q : Bool} {P : List Char → List T → List Char → List Char → Prop}
    (hnil : ∀ inp, P inp [] [] inp)
    (hcons : ∀ inp k1 t1 rest1 k2 t2 rest, Runs a q inp k1 t1 rest1 → P rest1 k2 t2 rest →
      P inp (k1 ++ k2) (t1 ++ t2) rest)
    {inp : List Char} {k : List T} {t rest : List Char} (h : Runs (.star a) q inp k t rest) :
    P inp k t rest := by
  unfold Runs at h
  simp only [run, Option.some.injEq] at h
  have := iterate_ind (f := run a q) hnil hcons (inp.length + 1) inp
  rw [h] at this
  exact this

/-! ### unfolding, with the optional punctuation kept folded -/

/-- an expression that produces no pairs, kept folded -/
def TextRun (e : G) (q : Bool) (inp t rest : List Char) : Prop := Runs e q inp [] t rest

theorem runs_textOnly {e : G} {q : Bool} (hk : ∀ k t, Conf e q k t → k = []) {inp : List Char}
    {k : List T} {t rest : List Char} :
    Runs e q inp k t rest ↔ k = [] ∧ TextRun e q inp t rest := by
  constructor
  · intro h
    have := hk k t h.conf
    subst this
    exact ⟨rfl, h⟩
  · rintro ⟨rfl, h⟩; exact h

theorem runs_opt_str (s : List Char) {q : Bool} {inp : List Char} {k : List T} {t rest : List Char} :
    Runs (.opt (.str s)) q inp k t rest ↔ k = [] ∧ TextRun (.opt (.str s)) q inp t rest :=
  runs_textOnly (fun _ _ h => (conf_opt_str s).mp h |>.1)

theorem runs_opt_space {q : Bool} {inp : List Char} {k : List T} {t rest : List Char} :
    Runs (.opt g_space) q inp k t rest ↔ k = [] ∧ TextRun (.opt g_space) q inp t rest := runs_opt_str _

theorem runs_opt_sep {q : Bool} {inp : List Char} {k : List T} {t rest : List Char} :
    Runs (.opt g_separator_for_readability) q inp k t rest
      ↔ k = [] ∧ TextRun (.opt g_separator_for_readability) q inp t rest :=
  runs_textOnly (fun _ _ h => (conf_opt_sep.mp h).1)

/-- a repetition, kept folded (taken apart with `runs_star_ind`) -/
def StarRun (a : G) (q : Bool) (inp : List Char) (k : List T) (t rest : List Char) : Prop :=
  Runs (.star a) q inp k t rest

theorem runs_star {a : G} {q : Bool} {inp : List Char} {k : List T} {t rest : List Char} :
    Runs (.star a) q inp k t rest ↔ StarRun a q inp k t rest := Iff.rfl

/-- unfold `Runs` on the given grammar constants in hypothesis `h` (as `conf_unfoldk` does for `Conf`) -/
macro "runs_unfold" "[" ts:Lean.Parser.Tactic.simpLemma,* "]" "at" h:ident : tactic =>
  `(tactic| simp only [↓runs_opt_str, ↓runs_opt_space, ↓runs_opt_sep, ↓runs_star,
      runs_seq, runs_alt, runs_opt, runs_str, runs_notp, runs_andp, runs_soi, runs_rule,
      Bool.false_eq_true, Bool.or_true, Bool.or_false, Bool.or_self, ↓reduceIte,
      List.append_nil, List.nil_append, List.cons_append, List.append_assoc,
      PExpr.rep, PExpr.plus, $ts,*] at $h:ident)

/-! ### `comment_inner = @{ (!"\"" ~ ANY)+ }`: at least one character, no `"` -/

theorem runs_comment_character {inp : List Char} {k : List T} {t rest : List Char}
    (h : Runs g_comment_character true inp k t rest) : ∃ c, t = [c] ∧ c ≠ '"' := by
  unfold Runs at h
  cases inp with
  | nil => simp [g_comment_character, g_comment_delimiter, peg] at h
  | cons c cs =>
    by_cases hc : c = '"'
    · subst hc
      simp [g_comment_character, g_comment_delimiter, peg] at h
    · have hc' : ¬ '"' = c := fun e => hc e.symm
      simp [g_comment_character, g_comment_delimiter, peg, hc'] at h
      exact ⟨c, h.2.1.symm, hc⟩

theorem runs_comment_inner {inp : List Char} {k : List T} {t rest : List Char}
    (h : Runs g_comment_inner false inp k t rest) :
    k = [.node .comment_inner t []] ∧ okCommentChars t = true := by
  unfold g_comment_inner at h
  rw [runs_rule] at h
  obtain ⟨k', hb, rfl⟩ := h
  have hk' : k' = [] := Conf.quiet_kids _ _ _ hb.conf
  subst hk'
  refine ⟨rfl, ?_⟩
  unfold PExpr.plus at hb
  rw [runs_seq] at hb
  obtain ⟨k1, t1, rest1, k2, t2, h1, h2, -, rfl⟩ := hb
  obtain ⟨c, rfl, hc⟩ := runs_comment_character h1
  have h3 : ∀ x ∈ t2, x ≠ '"' := by
    refine runs_star_ind (P := fun _ _ t _ => ∀ x ∈ t, x ≠ '"') (by simp) ?_ h2
    intro inp k1 t1 rest1 k2 t2 rest hr ih x hx
    obtain ⟨c', rfl, hc'⟩ := runs_comment_character hr
    rcases List.mem_append.mp hx with hx | hx
    · simp only [List.mem_singleton] at hx; subst hx; exact hc'
    · exact ih x hx
  rw [okCommentChars_iff]
  refine ⟨by simp, ?_⟩
  intro x hx
  simp only [List.singleton_append, List.mem_cons] at hx
  rcases hx with rfl | hx
  · exact hc
  · exact h3 x hx

/-- a comment the parser reads is not empty and contains no `"` -/
theorem runs_comment {inp : List Char} {k : List T} {t rest : List Char}
    (h : Runs g_comment false inp k t rest) :
    ∃ x, k = [x] ∧ Good .comment buildComment (fun s => okComment s = true) x := by
  runs_unfold [g_comment, g_comment_delimiter] at h
  conf_destruct [runs_comment_inner]
  refine ⟨_, rfl, rfl, ?_⟩
  build_simp [buildComment, buildCommentInner, okComment]
  assumption

/-! ### `positive_number` is greedy: what is left does not start with a digit -/

theorem runs_digits_rest {q : Bool} : ∀ (inp : List Char) (k : List T) (t rest : List Char),
    Runs (.star (.range '0' '9')) q inp k t rest → NoDigit rest := by
  intro inp
  induction inp with
  | nil =>
    intro k t rest h
    unfold Runs at h
    rw [run_star_none (by rfl)] at h
    simp only [R.nil, Option.some.injEq, R.mk.injEq] at h
    obtain ⟨-, -, rfl⟩ := h
    intro c r e; cases e
  | cons c cs ih =>
    intro k t rest h
    unfold Runs at h
    by_cases hd : '0' ≤ c ∧ c ≤ '9'
    · have h1 : run (.range '0' '9' : G) q (c :: cs) = some ⟨[], [c], cs⟩ := by simp [run, hd]
      obtain ⟨r2, h2⟩ : ∃ r2, run (.star (.range '0' '9') : G) q cs = some r2 := by simp [run]
      rw [run_star_some h1 (by simp) h2] at h
      simp only [R.append, Option.some.injEq, R.mk.injEq] at h
      obtain ⟨-, -, rfl⟩ := h
      exact ih r2.kids r2.eaten r2.rest h2
    · have h1 : run (.range '0' '9' : G) q (c :: cs) = none := by simp [run, hd]
      rw [run_star_none h1] at h
      simp only [R.nil, Option.some.injEq, R.mk.injEq] at h
      obtain ⟨-, -, rfl⟩ := h
      intro c' r e; cases e; exact hd

theorem runs_positive_number_rest {inp : List Char} {k : List T} {t rest : List Char}
    (h : Runs g_positive_number false inp k t rest) : NoDigit rest := by
  unfold g_positive_number at h
  rw [runs_rule] at h
  obtain ⟨k', hb, -⟩ := h
  rw [runs_seq] at hb
  obtain ⟨k1, t1, rest1, k2, t2, -, h2, -, -⟩ := hb
  rw [runs_seq] at h2
  obtain ⟨k3, t3, rest3, k4, t4, -, h4, -, -⟩ := h2
  exact runs_digits_rest _ _ _ _ h4

/-- the pair of a `positive_number`, with what `conf_positive_number` says and the rest of the input -/
theorem runs_positive_number {inp : List Char} {k : List T} {t rest : List Char}
    (h : Runs g_positive_number false inp k t rest) :
    ∃ x, k = [x] ∧ Good .positive_number buildPositiveNumber (fun n => 1 ≤ n) x ∧ NoDigit rest := by
  obtain ⟨x, rfl, hx⟩ := conf_positive_number h.conf
  exact ⟨x, rfl, hx, runs_positive_number_rest h⟩

/-! ### the time selector: `okSpan`, `okTimes` -/

theorem conf_timespan' {k t} (h : Conf g_timespan false k t) :
    ∃ x, k = [x] ∧ Good .timespan buildTimespan (fun s => okSpan s = true) x := by
  conf_unfoldk [g_timespan, g_timespan_plus] at h
  conf_destruct [conf_time, conf_extended_time, conf_hour_minutes, conf_minute_dur]
  all_goals refine ⟨_, rfl, rfl, ?_⟩
  all_goals build_simp [buildTimespan, *]
  all_goals repeat safe_bind
  all_goals simp [okSpan_iff, TimeSpan.wf, wfStop_1440, *]
  all_goals omega

theorem conf_time_selector' {k t} (h : Conf g_time_selector false k t) :
    ∃ x, k = [x] ∧ Good .time_selector buildTimeSelector (fun l => okTimes l = true) x := by
  obtain ⟨k', rfl, hb⟩ := Conf.rule_shape h
  refine ⟨_, rfl, rfl, ?_⟩
  obtain ⟨x, xs, rfl, hall⟩ := conf_sep_list (fun _ _ => conf_timespan') hb
  build_simp_only [buildTimeSelector]
  refine (Safe.mapM_ne x xs (fun y hy => (hall y hy).2)).mono ?_
  intro l hl
  exact (okTimes_iff l).mpr hl

end OH.Proofs.SynClosure
