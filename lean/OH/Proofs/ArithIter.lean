import OH.Generated.Arith
import OH.Proofs.ArithEval
import OH.Proofs.Iter
/-
Helper definitions and lemmas of `OH/Props/ArithC02IterState.lean` (rs2lean, seventh increment, tag `iter`): the carrier
of the generated `DateTimeRange<NaiveDateTime>` at the model's `Kind` / comment lists, the model's first interval read as
the value of the named parameter `ext_iter_range_naive_first`, and the one-minute window of `state`.
-/
namespace OH.Proofs.ArithIter
open OH.Model OH.Model.RustInt OH.Generated.Arith OH.Generated.Arith.Localize OH.Proofs.ArithEval

/-- `DateTimeRange<NaiveDateTime>` of the generated code at the model's kinds and comments -/
abbrev DN := DateTimeRange Int Kind (List String)

/-- a model interval as a generated `DateTimeRange` -/
def ofIv (iv : Interval) : DN := ⟨⟨iv.start, iv.stop⟩, iv.kind, iv.comments⟩

/-- `self.iter_range_naive(a, b).next()` as the model computes it (`firstIntervalG`), an outcome of the generated code:
a model error is a panic -/
def firstOf (env : Env) (a b : Int) : R (Option DN) :=
  match firstIntervalG env a b with
  | .ok none => .ok none
  | .ok (some iv) => .ok (some (ofIv iv))
  | .error s => .error (.panic s)

/-- `RuleKind == RuleKind` (derived `PartialEq`) on the model's outcomes -/
def kindIs (k : Kind) : M Kind → R Bool
  | .ok x => .ok (decide (x = k))
  | .error s => .error (.panic s)

theorem ndtMax_eq : TzChrono.NDT_MAX = instMax := by
  simp only [TzChrono.NDT_MAX, instMax, nsPerDay]; omega

theorem ndtMin_eq : TzChrono.NDT_MIN = instMin := by
  simp only [TzChrono.NDT_MIN, instMin, nsPerDay]

/-- below `DATE_END` the `+ Duration::minutes(1)` of `state` cannot overflow -/
theorem add_minute_ok {t : Int} (hmin : TzChrono.NDT_MIN ≤ t) (h : t < instEnd) :
    TzChrono.ndt_checked_add_signed t (TzChrono.minutes 1) = some (t + nsPerMin) := by
  have h1 := state_window_representable h
  rw [← ndtMax_eq] at h1
  have hm : TzChrono.minutes 1 = nsPerMin := by decide
  rw [hm]
  unfold TzChrono.ndt_checked_add_signed
  have h2 : (0 : Int) ≤ nsPerMin := by decide
  rw [if_neg (by omega)]


end OH.Proofs.ArithIter
