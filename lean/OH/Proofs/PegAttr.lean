import Lean
/-- simp set `peg`: the unfolding equations of `Peg.run` for every construct EXCEPT `e*` (whose
unfolding goes through `run_star_none` / `run_star_some`, never through the fuel) -/
register_simp_attr peg
